/-
  Memory safety of the sequential sync model (`MiniMoka/Sync.lean`): the ownership
  invariant between entry infos and list nodes, and its preservation by every function
  of the model.  Faults `useAfterFree` (dereference of a freed node) and `overflow`
  (`entry_count -= 1` of the maintenance run's local counters) are unreachable for the
  current code (`NoQuirks p`).
-/
import MiniMoka.Sync
import MiniMoka.Lemmas.AL
import MiniMoka.Lemmas.SyncFrame
import MiniMoka.Lemmas.UnsyncOps

namespace MiniMoka
namespace Sync

/-! ### node lists -/

theorem findAo_some {l : List AoNode} {id : Nat} {n : AoNode} (h : findAo l id = some n) :
    n ∈ l ∧ n.id = id := by
  induction l with
  | nil => simp [findAo] at h
  | cons a l ih =>
    simp only [findAo] at h
    by_cases ha : a.id = id
    · simp [ha] at h; subst h; exact ⟨List.mem_cons_self, ha⟩
    · simp [ha] at h; exact ⟨List.mem_cons_of_mem _ (ih h).1, (ih h).2⟩

theorem findAo_of_mem {l : List AoNode} {n : AoNode} (hn : (l.map (·.id)).Nodup) (h : n ∈ l) :
    findAo l n.id = some n := by
  induction l with
  | nil => simp at h
  | cons a l ih =>
    simp only [List.map_cons, List.nodup_cons] at hn
    simp only [findAo]
    rcases List.mem_cons.mp h with h | h
    · subst h; simp
    · have : a.id ≠ n.id := fun e => hn.1 (e ▸ List.mem_map.mpr ⟨n, h, rfl⟩)
      simp [this, ih hn.2 h]

theorem perm_cons_eraseAo {l : List AoNode} {id : Nat} {n : AoNode} (h : findAo l id = some n) :
    l.Perm (n :: eraseAo l id) := by
  induction l with
  | nil => simp [findAo] at h
  | cons a l ih =>
    simp only [findAo] at h
    simp only [eraseAo]
    by_cases ha : a.id = id
    · simp [ha] at h; subst h; simp [ha]
    · simp [ha] at h
      simp only [ha, if_false]
      exact ((ih h).cons a).trans (List.Perm.swap n a _)

theorem perm_moveToBackAo {l : List AoNode} {id : Nat} {n : AoNode} (h : findAo l id = some n) :
    (eraseAo l id ++ [n]).Perm l :=
  (List.perm_append_comm).trans (perm_cons_eraseAo h).symm

theorem nodup_eraseAo {l : List AoNode} {id : Nat} {n : AoNode} (h : findAo l id = some n)
    (hn : (l.map (·.id)).Nodup) : ((eraseAo l id).map (·.id)).Nodup := by
  have := ((perm_cons_eraseAo h).map (·.id)).nodup_iff.mp hn
  simp only [List.map_cons, List.nodup_cons] at this
  exact this.2

theorem mem_eraseAo_iff {l : List AoNode} {id : Nat} {n : AoNode} (h : findAo l id = some n)
    (hn : (l.map (·.id)).Nodup) (m : AoNode) : m ∈ eraseAo l id ↔ m ∈ l ∧ m.id ≠ id := by
  have hp := perm_cons_eraseAo h
  have hnd := ((hp.map (·.id))).nodup_iff.mp hn
  simp only [List.map_cons, List.nodup_cons] at hnd
  have hid := (findAo_some h).2
  constructor
  · intro hm
    refine ⟨hp.mem_iff.mpr (List.mem_cons_of_mem _ hm), fun e => hnd.1 ?_⟩
    have hnm : n.id = m.id := hid.trans e.symm
    rw [hnm]; exact List.mem_map.mpr ⟨m, hm, rfl⟩
  · rintro ⟨hm, hne⟩
    rcases List.mem_cons.mp (hp.mem_iff.mp hm) with e | hm'
    · subst e; exact absurd hid hne
    · exact hm'

theorem length_eraseAo {l : List AoNode} {id : Nat} {n : AoNode} (h : findAo l id = some n) :
    (eraseAo l id).length + 1 = l.length := by
  have := (perm_cons_eraseAo h).length_eq
  simp at this; omega

theorem findWo_some {l : List WoNode} {id : Nat} {n : WoNode} (h : findWo l id = some n) :
    n ∈ l ∧ n.id = id := by
  induction l with
  | nil => simp [findWo] at h
  | cons a l ih =>
    simp only [findWo] at h
    by_cases ha : a.id = id
    · simp [ha] at h; subst h; exact ⟨List.mem_cons_self, ha⟩
    · simp [ha] at h; exact ⟨List.mem_cons_of_mem _ (ih h).1, (ih h).2⟩

theorem findWo_of_mem {l : List WoNode} {n : WoNode} (hn : (l.map (·.id)).Nodup) (h : n ∈ l) :
    findWo l n.id = some n := by
  induction l with
  | nil => simp at h
  | cons a l ih =>
    simp only [List.map_cons, List.nodup_cons] at hn
    simp only [findWo]
    rcases List.mem_cons.mp h with h | h
    · subst h; simp
    · have : a.id ≠ n.id := fun e => hn.1 (e ▸ List.mem_map.mpr ⟨n, h, rfl⟩)
      simp [this, ih hn.2 h]

theorem perm_cons_eraseWo {l : List WoNode} {id : Nat} {n : WoNode} (h : findWo l id = some n) :
    l.Perm (n :: eraseWo l id) := by
  induction l with
  | nil => simp [findWo] at h
  | cons a l ih =>
    simp only [findWo] at h
    simp only [eraseWo]
    by_cases ha : a.id = id
    · simp [ha] at h; subst h; simp [ha]
    · simp [ha] at h
      simp only [ha, if_false]
      exact ((ih h).cons a).trans (List.Perm.swap n a _)

theorem perm_moveToBackWo {l : List WoNode} {id : Nat} {n : WoNode} (h : findWo l id = some n) :
    (eraseWo l id ++ [n]).Perm l :=
  (List.perm_append_comm).trans (perm_cons_eraseWo h).symm

theorem nodup_eraseWo {l : List WoNode} {id : Nat} {n : WoNode} (h : findWo l id = some n)
    (hn : (l.map (·.id)).Nodup) : ((eraseWo l id).map (·.id)).Nodup := by
  have := ((perm_cons_eraseWo h).map (·.id)).nodup_iff.mp hn
  simp only [List.map_cons, List.nodup_cons] at this
  exact this.2

theorem mem_eraseWo_iff {l : List WoNode} {id : Nat} {n : WoNode} (h : findWo l id = some n)
    (hn : (l.map (·.id)).Nodup) (m : WoNode) : m ∈ eraseWo l id ↔ m ∈ l ∧ m.id ≠ id := by
  have hp := perm_cons_eraseWo h
  have hnd := ((hp.map (·.id))).nodup_iff.mp hn
  simp only [List.map_cons, List.nodup_cons] at hnd
  have hid := (findWo_some h).2
  constructor
  · intro hm
    refine ⟨hp.mem_iff.mpr (List.mem_cons_of_mem _ hm), fun e => hnd.1 ?_⟩
    have hnm : n.id = m.id := hid.trans e.symm
    rw [hnm]; exact List.mem_map.mpr ⟨m, hm, rfl⟩
  · rintro ⟨hm, hne⟩
    rcases List.mem_cons.mp (hp.mem_iff.mp hm) with e | hm'
    · subst e; exact absurd hid hne
    · exact hm'

/-! ### the ownership invariant -/

/-- Ownership between entry infos and list nodes.  A node of `prob` (`wo`) is owned by
exactly one info, which points back at it; an info that points at a node points at a live
node (one that is in the list); node ids are pairwise distinct; an info is admitted iff it
owns an access-order node, and owns a write-order node only if admitted; ids at or above
`nextId` are unused. -/
structure NodesCore (s : SState) : Prop where
  probIds : (s.prob.map (·.id)).Nodup
  woIds : (s.wo.map (·.id)).Nodup
  freshP : ∀ n ∈ s.prob, n.id < s.nextId
  freshW : ∀ n ∈ s.wo, n.id < s.nextId
  probOwn : ∀ n ∈ s.prob, (getInfo s n.info).ao = some n.id
  aoNode : ∀ i id, (getInfo s i).ao = some id → ∃ n ∈ s.prob, n.id = id ∧ n.info = i
  admIff : ∀ i, (getInfo s i).admitted = true ↔ (getInfo s i).ao.isSome = true
  woOwn : ∀ n ∈ s.wo, (getInfo s n.info).wo = some n.id
  woNode : ∀ i id, (getInfo s i).wo = some id → ∃ n ∈ s.wo, n.id = id ∧ n.info = i
  woAdm : ∀ i, (getInfo s i).wo.isSome = true → (getInfo s i).admitted = true
  infoFresh : ∀ i, s.nextId ≤ i → (getInfo s i).admitted = false

/-- The invariant inside a maintenance run: the local entry counter is the length of the
access-order list. -/
structure NodesInv (s : SState) : Prop extends NodesCore s where
  count : s.cec = s.prob.length

/-- The invariant between operations: the published entry counter is the length of the
access-order list. -/
structure NodesInvTop (s : SState) : Prop extends NodesCore s where
  count : s.ec = s.prob.length

namespace NodesCore

variable {s s' : SState}

theorem notAdm_ao (h : NodesCore s) {i : Nat} (hna : (getInfo s i).admitted = false) :
    (getInfo s i).ao = none := by
  have := h.admIff i
  cases hx : (getInfo s i).ao with
  | none => rfl
  | some id => rw [hx, hna] at this; simp at this

theorem notAdm_wo (h : NodesCore s) {i : Nat} (hna : (getInfo s i).admitted = false) :
    (getInfo s i).wo = none := by
  have := h.woAdm i
  cases hx : (getInfo s i).wo with
  | none => rfl
  | some id => rw [hx, hna] at this; simp at this

theorem adm_ao (h : NodesCore s) {i : Nat} (ha : (getInfo s i).admitted = true) :
    ∃ id, (getInfo s i).ao = some id := by
  have := (h.admIff i).mp ha
  cases hx : (getInfo s i).ao with
  | none => rw [hx] at this; simp at this
  | some id => exact ⟨id, rfl⟩

theorem probAdm (h : NodesCore s) {n : AoNode} (hn : n ∈ s.prob) :
    (getInfo s n.info).admitted = true := by
  rw [h.admIff, h.probOwn n hn]; rfl

/-- Nodes of the access-order list with distinct ids belong to distinct infos. -/
theorem info_inj (h : NodesCore s) {n m : AoNode} (hn : n ∈ s.prob) (hm : m ∈ s.prob)
    (e : n.info = m.info) : n.id = m.id := by
  have h1 := h.probOwn n hn
  have h2 := h.probOwn m hm
  rw [e, h2] at h1
  exact (Option.some.inj h1).symm

/-- The state changed only in ways the invariant does not see: the node lists were permuted,
the ownership fields of all infos are unchanged, ids were only consumed. -/
theorem congr (h : NodesCore s)
    (hao : ∀ j, (getInfo s' j).ao = (getInfo s j).ao)
    (hwo : ∀ j, (getInfo s' j).wo = (getInfo s j).wo)
    (had : ∀ j, (getInfo s' j).admitted = (getInfo s j).admitted)
    (hp : s'.prob.Perm s.prob) (hw : s'.wo.Perm s.wo) (hn : s.nextId ≤ s'.nextId) :
    NodesCore s' where
  probIds := (hp.map _).nodup_iff.mpr h.probIds
  woIds := (hw.map _).nodup_iff.mpr h.woIds
  freshP := fun n hm => Nat.lt_of_lt_of_le (h.freshP n (hp.mem_iff.mp hm)) hn
  freshW := fun n hm => Nat.lt_of_lt_of_le (h.freshW n (hw.mem_iff.mp hm)) hn
  probOwn := fun n hm => by rw [hao]; exact h.probOwn n (hp.mem_iff.mp hm)
  aoNode := fun i id hx => by
    rw [hao] at hx
    obtain ⟨n, hm, e1, e2⟩ := h.aoNode i id hx
    exact ⟨n, hp.mem_iff.mpr hm, e1, e2⟩
  admIff := fun i => by rw [had, hao]; exact h.admIff i
  woOwn := fun n hm => by rw [hwo]; exact h.woOwn n (hw.mem_iff.mp hm)
  woNode := fun i id hx => by
    rw [hwo] at hx
    obtain ⟨n, hm, e1, e2⟩ := h.woNode i id hx
    exact ⟨n, hw.mem_iff.mpr hm, e1, e2⟩
  woAdm := fun i => by rw [had, hwo]; exact h.woAdm i
  infoFresh := fun i hi => by rw [had]; exact h.infoFresh i (Nat.le_trans hn hi)

/-- Info `i` gave up its nodes, which were freed. -/
theorem detach (h : NodesCore s) (i : Nat)
    (hao : ∀ j, j ≠ i → (getInfo s' j).ao = (getInfo s j).ao)
    (hwo : ∀ j, j ≠ i → (getInfo s' j).wo = (getInfo s j).wo)
    (had : ∀ j, j ≠ i → (getInfo s' j).admitted = (getInfo s j).admitted)
    (hiao : (getInfo s' i).ao = none) (hiwo : (getInfo s' i).wo = none)
    (hiad : (getInfo s' i).admitted = false)
    (hp : ∀ m, m ∈ s'.prob ↔ m ∈ s.prob ∧ m.info ≠ i)
    (hw : ∀ m, m ∈ s'.wo ↔ m ∈ s.wo ∧ m.info ≠ i)
    (hpn : (s'.prob.map (·.id)).Nodup) (hwn : (s'.wo.map (·.id)).Nodup)
    (hn : s.nextId ≤ s'.nextId) : NodesCore s' where
  probIds := hpn
  woIds := hwn
  freshP := fun n hm => Nat.lt_of_lt_of_le (h.freshP n ((hp n).mp hm).1) hn
  freshW := fun n hm => Nat.lt_of_lt_of_le (h.freshW n ((hw n).mp hm).1) hn
  probOwn := fun n hm => by
    obtain ⟨h1, h2⟩ := (hp n).mp hm
    rw [hao _ h2]; exact h.probOwn n h1
  aoNode := fun j id hx => by
    by_cases e : j = i
    · subst e; rw [hiao] at hx; cases hx
    · rw [hao j e] at hx
      obtain ⟨n, hm, e1, e2⟩ := h.aoNode j id hx
      exact ⟨n, (hp n).mpr ⟨hm, by rw [e2]; exact e⟩, e1, e2⟩
  admIff := fun j => by
    by_cases e : j = i
    · subst e; rw [hiao, hiad]; simp
    · rw [had j e, hao j e]; exact h.admIff j
  woOwn := fun n hm => by
    obtain ⟨h1, h2⟩ := (hw n).mp hm
    rw [hwo _ h2]; exact h.woOwn n h1
  woNode := fun j id hx => by
    by_cases e : j = i
    · subst e; rw [hiwo] at hx; cases hx
    · rw [hwo j e] at hx
      obtain ⟨n, hm, e1, e2⟩ := h.woNode j id hx
      exact ⟨n, (hw n).mpr ⟨hm, by rw [e2]; exact e⟩, e1, e2⟩
  woAdm := fun j => by
    by_cases e : j = i
    · subst e; rw [hiwo]; simp
    · rw [had j e, hwo j e]; exact h.woAdm j
  infoFresh := fun j hj => by
    by_cases e : j = i
    · subst e; exact hiad
    · rw [had j e]; exact h.infoFresh j (Nat.le_trans hn hj)

/-- Info `i`, which owned nothing, was given fresh nodes at the back of the lists. -/
theorem attach (h : NodesCore s) (i : Nat) (hlt : i < s.nextId)
    (hna : (getInfo s i).admitted = false)
    (hao : ∀ j, j ≠ i → (getInfo s' j).ao = (getInfo s j).ao)
    (hwo : ∀ j, j ≠ i → (getInfo s' j).wo = (getInfo s j).wo)
    (had : ∀ j, j ≠ i → (getInfo s' j).admitted = (getInfo s j).admitted)
    (node : AoNode) (hnid : node.id = s.nextId) (hninfo : node.info = i)
    (hp : s'.prob = s.prob ++ [node])
    (hiao : (getInfo s' i).ao = some s.nextId) (hiad : (getInfo s' i).admitted = true)
    (hw : (s'.wo = s.wo ∧ (getInfo s' i).wo = none ∧ s'.nextId = s.nextId + 1) ∨
      (∃ wn : WoNode, wn.id = s.nextId + 1 ∧ wn.info = i ∧ s'.wo = s.wo ++ [wn] ∧
        (getInfo s' i).wo = some (s.nextId + 1) ∧ s'.nextId = s.nextId + 2)) :
    NodesCore s' := by
  have hnoP : ∀ m ∈ s.prob, m.info ≠ i := fun m hm e => by
    have := h.probAdm hm; rw [e, hna] at this; cases this
  have hnoW : ∀ m ∈ s.wo, m.info ≠ i := fun m hm e => by
    have := h.woAdm m.info (by rw [h.woOwn m hm]; rfl); rw [e, hna] at this; cases this
  have hn : s.nextId + 1 ≤ s'.nextId := by
    rcases hw with ⟨_, _, e⟩ | ⟨_, _, _, _, _, e⟩ <;> omega
  have hpm : ∀ m, m ∈ s'.prob ↔ m ∈ s.prob ∨ m = node := by
    intro m; rw [hp]; simp
  have hwm : ∀ m ∈ s'.wo, m ∈ s.wo ∨ (m.id = s.nextId + 1 ∧ m.info = i ∧
      (getInfo s' i).wo = some (s.nextId + 1) ∧ s'.nextId = s.nextId + 2) := by
    intro m hm
    rcases hw with ⟨e, _, _⟩ | ⟨wn, e1, e2, e3, e4, e5⟩
    · rw [e] at hm; exact Or.inl hm
    · rw [e3] at hm
      rcases List.mem_append.mp hm with hm | hm
      · exact Or.inl hm
      · simp at hm; subst hm; exact Or.inr ⟨e1, e2, e4, e5⟩
  refine ⟨?_, ?_, ?_, ?_, ?_, ?_, ?_, ?_, ?_, ?_, ?_⟩
  · rw [hp, List.map_append]
    refine List.nodup_append.mpr ⟨h.probIds, by simp, ?_⟩
    intro a ha b hb
    simp at hb; subst hb
    obtain ⟨m, hm, rfl⟩ := List.mem_map.mp ha
    rw [hnid]; exact Nat.ne_of_lt (h.freshP m hm)
  · rcases hw with ⟨e, _, _⟩ | ⟨wn, e1, e2, e3, e4, e5⟩
    · rw [e]; exact h.woIds
    · rw [e3, List.map_append]
      refine List.nodup_append.mpr ⟨h.woIds, by simp, ?_⟩
      intro a ha b hb
      simp at hb; subst hb
      obtain ⟨m, hm, rfl⟩ := List.mem_map.mp ha
      rw [e1]; exact Nat.ne_of_lt (Nat.lt_succ_of_lt (h.freshW m hm))
  · intro m hm
    rcases (hpm m).mp hm with hm | rfl
    · exact Nat.lt_of_lt_of_le (h.freshP m hm) (by omega)
    · omega
  · intro m hm
    rcases hwm m hm with hm | ⟨e1, _, _, e5⟩
    · exact Nat.lt_of_lt_of_le (h.freshW m hm) (by omega)
    · omega
  · intro m hm
    rcases (hpm m).mp hm with hm | rfl
    · rw [hao _ (hnoP m hm)]; exact h.probOwn m hm
    · rw [hninfo, hiao, hnid]
  · intro j id hx
    by_cases e : j = i
    · subst e
      rw [hiao] at hx
      exact ⟨node, (hpm node).mpr (Or.inr rfl), by rw [hnid]; exact Option.some.inj hx, hninfo⟩
    · rw [hao j e] at hx
      obtain ⟨n, hm, e1, e2⟩ := h.aoNode j id hx
      exact ⟨n, (hpm n).mpr (Or.inl hm), e1, e2⟩
  · intro j
    by_cases e : j = i
    · subst e; rw [hiao, hiad]; simp
    · rw [had j e, hao j e]; exact h.admIff j
  · intro m hm
    rcases hwm m hm with hm | ⟨e1, e2, e4, _⟩
    · rw [hwo _ (hnoW m hm)]; exact h.woOwn m hm
    · rw [e2, e4, e1]
  · intro j id hx
    by_cases e : j = i
    · subst e
      rcases hw with ⟨_, e4, _⟩ | ⟨wn, e1, e2, e3, e4, e5⟩
      · rw [e4] at hx; cases hx
      · rw [e4] at hx
        refine ⟨wn, by rw [e3]; simp, by rw [e1]; exact Option.some.inj hx, e2⟩
    · rw [hwo j e] at hx
      obtain ⟨n, hm, e1, e2⟩ := h.woNode j id hx
      refine ⟨n, ?_, e1, e2⟩
      rcases hw with ⟨e3, _, _⟩ | ⟨wn, _, _, e3, _, _⟩
      · rw [e3]; exact hm
      · rw [e3]; exact List.mem_append_left _ hm
  · intro j
    by_cases e : j = i
    · subst e; intro _; exact hiad
    · rw [had j e, hwo j e]; exact h.woAdm j
  · intro j hj
    have e : j ≠ i := by omega
    rw [had j e]; exact h.infoFresh j (by omega)

end NodesCore

/-- Invariant of a maintenance run, and no fault so far. -/
structure Safe (s : SState) : Prop extends NodesInv s where
  nofault : s.fault = none

/-- Every node of the access-order list of `s` is still in that of `s'`. -/
def Keeps (s s' : SState) : Prop := ∀ m, m ∈ s.prob → m ∈ s'.prob

theorem Keeps.refl (s : SState) : Keeps s s := fun _ h => h
theorem Keeps.trans {a b c : SState} (h1 : Keeps a b) (h2 : Keeps b c) : Keeps a c :=
  fun m h => h2 m (h1 m h)

theorem Safe.congr {s s' : SState} (h : Safe s)
    (hao : ∀ j, (getInfo s' j).ao = (getInfo s j).ao)
    (hwo : ∀ j, (getInfo s' j).wo = (getInfo s j).wo)
    (had : ∀ j, (getInfo s' j).admitted = (getInfo s j).admitted)
    (hp : s'.prob.Perm s.prob) (hw : s'.wo.Perm s.wo) (hn : s.nextId ≤ s'.nextId)
    (hc : s'.cec = s.cec) (hf : s'.fault = s.fault) : Safe s' :=
  ⟨⟨h.toNodesCore.congr hao hwo had hp hw hn, by rw [hc, hp.length_eq]; exact h.count⟩,
   by rw [hf]; exact h.nofault⟩

/-- Updates of fields of the state the invariant does not mention. -/
theorem Safe.of_eq {s s' : SState} (h : Safe s) (hi : s'.infos = s.infos) (hp : s'.prob = s.prob)
    (hw : s'.wo = s.wo) (hn : s.nextId ≤ s'.nextId) (hc : s'.cec = s.cec)
    (hf : s'.fault = s.fault) : Safe s' := by
  have hg : ∀ j, getInfo s' j = getInfo s j := fun j => by simp [getInfo, hi]
  exact h.congr (fun j => by rw [hg]) (fun j => by rw [hg]) (fun j => by rw [hg])
    (by rw [hp]) (by rw [hw]) hn hc hf

/-- Updates of an info that leave its ownership fields alone. -/
theorem Safe.withInfo {s : SState} (h : Safe s) (i : Nat) (f : Info → Info)
    (hao : (f (getInfo s i)).ao = (getInfo s i).ao) (hwo : (f (getInfo s i)).wo = (getInfo s i).wo)
    (had : (f (getInfo s i)).admitted = (getInfo s i).admitted) : Safe (withInfo s i f) := by
  refine h.congr ?_ ?_ ?_ (List.Perm.refl _) (List.Perm.refl _) (Nat.le_refl _) rfl rfl <;>
    intro j <;> rw [getInfo_withInfo] <;> by_cases e : i = j
  · subst e; simp [hao]
  · simp [e]
  · subst e; simp [hwo]
  · simp [e]
  · subst e; simp [had]
  · simp [e]

/-! ### moving nodes -/

theorem moveNodeToBackAo_eq {s : SState} {id : Nat} {n : AoNode} (h : findAo s.prob id = some n) :
    moveNodeToBackAo s id = { s with prob := eraseAo s.prob id ++ [n] } := by
  simp only [moveNodeToBackAo, h]

theorem moveNodeToBackWo_eq {s : SState} {id : Nat} {n : WoNode} (h : findWo s.wo id = some n) :
    moveNodeToBackWo s id = { s with wo := eraseWo s.wo id ++ [n] } := by
  simp only [moveNodeToBackWo, h]

theorem moveNodeToBackAo_safe {s : SState} (h : Safe s) {n : AoNode} (hn : n ∈ s.prob) :
    Safe (moveNodeToBackAo s n.id) ∧ Keeps s (moveNodeToBackAo s n.id) := by
  have hf := findAo_of_mem h.probIds hn
  rw [moveNodeToBackAo_eq hf]
  have hp := perm_moveToBackAo hf
  exact ⟨h.congr (fun _ => rfl) (fun _ => rfl) (fun _ => rfl) hp (List.Perm.refl _)
    (Nat.le_refl _) rfl rfl, fun m hm => hp.mem_iff.mpr hm⟩

theorem moveNodeToBackWo_safe {s : SState} (h : Safe s) {n : WoNode} (hn : n ∈ s.wo) :
    Safe (moveNodeToBackWo s n.id) ∧ Keeps s (moveNodeToBackWo s n.id) := by
  have hf := findWo_of_mem h.woIds hn
  rw [moveNodeToBackWo_eq hf]
  have hp := perm_moveToBackWo hf
  exact ⟨h.congr (fun _ => rfl) (fun _ => rfl) (fun _ => rfl) (List.Perm.refl _) hp
    (Nat.le_refl _) rfl rfl, fun m hm => hm⟩

theorem moveToBackAoE_safe {s : SState} (h : Safe s) (i : Nat) :
    Safe (moveToBackAoE s i) ∧ Keeps s (moveToBackAoE s i) := by
  unfold moveToBackAoE
  split
  · exact ⟨h, Keeps.refl s⟩
  · rename_i id hx
    obtain ⟨n, hn, e1, _⟩ := h.aoNode i id hx
    rw [← e1]; exact moveNodeToBackAo_safe h hn

theorem moveToBackWoE_safe {s : SState} (h : Safe s) (i : Nat) :
    Safe (moveToBackWoE s i) ∧ Keeps s (moveToBackWoE s i) := by
  unfold moveToBackWoE
  split
  · exact ⟨h, Keeps.refl s⟩
  · rename_i id hx
    obtain ⟨n, hn, e1, _⟩ := h.woNode i id hx
    rw [← e1]; exact moveNodeToBackWo_safe h hn

/-! ### unlinking and `handle_remove` -/

theorem unlinkAo_eq {s : SState} {i id : Nat} {n : AoNode} (h1 : (getInfo s i).ao = some id)
    (h2 : findAo s.prob id = some n) :
    unlinkAo s i =
      { withInfo s i (fun x => { x with ao := none }) with prob := eraseAo s.prob id } := by
  simp only [unlinkAo, h1]
  have : findAo (withInfo s i (fun x => { x with ao := none })).prob id = some n := h2
  simp only [this]
  rfl

theorem unlinkWo_eq {s : SState} {i id : Nat} {n : WoNode} (h1 : (getInfo s i).wo = some id)
    (h2 : findWo s.wo id = some n) :
    unlinkWo s i =
      { withInfo s i (fun x => { x with wo := none }) with wo := eraseWo s.wo id } := by
  simp only [unlinkWo, h1]
  have : findWo (withInfo s i (fun x => { x with wo := none })).wo id = some n := h2
  simp only [this]
  rfl

theorem unlinkWo_none {s : SState} {i : Nat} (h1 : (getInfo s i).wo = none) : unlinkWo s i = s := by
  simp only [unlinkWo, h1]

theorem subCounters_eq {s : SState} {n w : Nat} (h : n ≤ s.cec) :
    subCounters s n w = { s with cec := s.cec - n, cws := s.cws - w } := by
  have : ¬ s.cec < n := by omega
  simp only [subCounters, this, if_false]

theorem getInfo_congr {s s' : SState} (h : s'.infos = s.infos) (j : Nat) :
    getInfo s' j = getInfo s j := by simp [getInfo, h]

/-- `handle_remove` on an admitted info: the explicit result when the info owns no
write-order node. -/
theorem handleRemove_safe {s : SState} (h : Safe s) (ve : VE) :
    Safe (handleRemove s ve) ∧
      (∀ m, m ∈ s.prob → m.info ≠ ve.info → m ∈ (handleRemove s ve).prob) := by
  unfold handleRemove
  dsimp only
  by_cases hadm : (getInfo s ve.info).admitted = true
  · rw [if_pos hadm]
    obtain ⟨id, hao⟩ := h.adm_ao hadm
    obtain ⟨n, hn, hnid, hninfo⟩ := h.aoNode _ _ hao
    have hfind : findAo s.prob id = some n := by rw [← hnid]; exact findAo_of_mem h.probIds hn
    have hlen : 1 ≤ s.prob.length := by
      cases hp : s.prob with
      | nil => rw [hp] at hn; cases hn
      | cons a l => simp
    -- step 1: admitted := false
    generalize hs1 : withInfo s ve.info (fun i => { i with admitted := false }) = s1
    have hg1 : ∀ j, getInfo s1 j =
        if ve.info = j then { getInfo s ve.info with admitted := false } else getInfo s j := by
      intro j; rw [← hs1, getInfo_withInfo]
    have hp1 : s1.prob = s.prob := by rw [← hs1]; rfl
    have hw1 : s1.wo = s.wo := by rw [← hs1]; rfl
    have hc1 : s1.cec = s.cec := by rw [← hs1]; rfl
    have hn1 : s1.nextId = s.nextId := by rw [← hs1]; rfl
    have hf1 : s1.fault = s.fault := by rw [← hs1]; rfl
    -- step 2: counters
    rw [subCounters_eq (by rw [hc1, h.count]; exact hlen)]
    generalize hs2 : ({ s1 with cec := s1.cec - 1, cws := s1.cws - (getInfo s ve.info).weight } :
      SState) = s2
    have hg2 : ∀ j, getInfo s2 j = getInfo s1 j := fun j => by rw [← hs2]; rfl
    have hp2 : s2.prob = s.prob := by rw [← hs2]; exact hp1
    have hw2 : s2.wo = s.wo := by rw [← hs2]; exact hw1
    have hc2 : s2.cec = s.cec - 1 := by rw [← hs2]; simp only; rw [hc1]
    have hn2 : s2.nextId = s.nextId := by rw [← hs2]; exact hn1
    have hf2 : s2.fault = s.fault := by rw [← hs2]; exact hf1
    -- step 3: unlink the access-order node
    have hao2 : (getInfo s2 ve.info).ao = some id := by rw [hg2, hg1]; simpa using hao
    rw [unlinkAo_eq hao2 (by rw [hp2]; exact hfind)]
    generalize hs3 : ({ withInfo s2 ve.info (fun x => { x with ao := none }) with
      prob := eraseAo s2.prob id } : SState) = s3
    have hg3 : ∀ j, getInfo s3 j =
        if ve.info = j then { getInfo s2 ve.info with ao := none } else getInfo s2 j := by
      intro j; rw [← hs3]; exact getInfo_withInfo s2 ve.info (fun x => { x with ao := none }) j
    have hp3 : s3.prob = eraseAo s.prob id := by rw [← hs3]; simp only; rw [hp2]
    have hw3 : s3.wo = s.wo := by rw [← hs3]; exact hw2
    have hc3 : s3.cec = s.cec - 1 := by rw [← hs3]; exact hc2
    have hn3 : s3.nextId = s.nextId := by rw [← hs3]; exact hn2
    have hf3 : s3.fault = s.fault := by rw [← hs3]; exact hf2
    have hwo3 : (getInfo s3 ve.info).wo = (getInfo s ve.info).wo := by
      rw [hg3, hg2, hg1]; simp
    have hmemP : ∀ m, m ∈ eraseAo s.prob id ↔ m ∈ s.prob ∧ m.info ≠ ve.info := by
      intro m
      rw [mem_eraseAo_iff hfind h.probIds]
      constructor
      · rintro ⟨h1, h2⟩
        refine ⟨h1, fun e => h2 ?_⟩
        rw [← hnid]; exact h.info_inj h1 hn (e.trans hninfo.symm)
      · rintro ⟨h1, h2⟩
        refine ⟨h1, fun e => h2 ?_⟩
        have e1 := findAo_of_mem h.probIds h1
        rw [e, ← hnid, findAo_of_mem h.probIds hn] at e1
        rw [← Option.some.inj e1]; exact hninfo
    have hO3 : ∀ j, j ≠ ve.info → getInfo s3 j = getInfo s j := by
      intro j hj
      have : ¬ ve.info = j := fun e => hj e.symm
      rw [hg3, if_neg this, hg2, hg1, if_neg this]
    have hI3 : getInfo s3 ve.info = { getInfo s ve.info with admitted := false, ao := none } := by
      rw [hg3, hg2, hg1]; simp
    have hlen3 : s.cec - 1 = (eraseAo s.prob id).length := by
      have := length_eraseAo hfind
      rw [h.count]; omega
    cases hwo : (getInfo s ve.info).wo with
    | none =>
      rw [unlinkWo_none (by rw [hwo3]; exact hwo)]
      refine ⟨⟨⟨?_, by rw [hc3, hp3]; exact hlen3⟩, by rw [hf3]; exact h.nofault⟩, ?_⟩
      · refine h.toNodesCore.detach ve.info (fun j hj => by rw [hO3 j hj])
          (fun j hj => by rw [hO3 j hj]) (fun j hj => by rw [hO3 j hj])
          (by rw [hI3]) (by rw [hI3]; exact hwo) (by rw [hI3])
          (by rw [hp3]; exact hmemP) ?_ (by rw [hp3]; exact nodup_eraseAo hfind h.probIds)
          (by rw [hw3]; exact h.woIds) (by rw [hn3]; exact Nat.le_refl _)
        intro m
        rw [hw3]
        refine ⟨fun hm => ⟨hm, fun e => ?_⟩, fun hm => hm.1⟩
        have := h.woOwn m hm
        rw [e, hwo] at this; cases this
      · intro m hm hne
        rw [hp3]; exact (hmemP m).mpr ⟨hm, hne⟩
    | some wid =>
      obtain ⟨wn, hwn, hwnid, hwninfo⟩ := h.woNode _ _ hwo
      have hfindW : findWo s.wo wid = some wn := by
        rw [← hwnid]; exact findWo_of_mem h.woIds hwn
      rw [unlinkWo_eq (by rw [hwo3]; exact hwo) (by rw [hw3]; exact hfindW)]
      generalize hs4 : ({ withInfo s3 ve.info (fun x => { x with wo := none }) with
        wo := eraseWo s3.wo wid } : SState) = s4
      have hg4 : ∀ j, getInfo s4 j =
          if ve.info = j then { getInfo s3 ve.info with wo := none } else getInfo s3 j := by
        intro j; rw [← hs4]; exact getInfo_withInfo s3 ve.info (fun x => { x with wo := none }) j
      have hp4 : s4.prob = eraseAo s.prob id := by rw [← hs4]; exact hp3
      have hw4 : s4.wo = eraseWo s.wo wid := by rw [← hs4]; simp only; rw [hw3]
      have hc4 : s4.cec = s.cec - 1 := by rw [← hs4]; exact hc3
      have hn4 : s4.nextId = s.nextId := by rw [← hs4]; exact hn3
      have hf4 : s4.fault = s.fault := by rw [← hs4]; exact hf3
      have hO4 : ∀ j, j ≠ ve.info → getInfo s4 j = getInfo s j := by
        intro j hj
        have : ¬ ve.info = j := fun e => hj e.symm
        rw [hg4, if_neg this, hO3 j hj]
      have hI4 : getInfo s4 ve.info =
          { getInfo s ve.info with admitted := false, ao := none, wo := none } := by
        rw [hg4, hI3]; simp
      refine ⟨⟨⟨?_, by rw [hc4, hp4]; exact hlen3⟩, by rw [hf4]; exact h.nofault⟩, ?_⟩
      · refine h.toNodesCore.detach ve.info (fun j hj => by rw [hO4 j hj])
          (fun j hj => by rw [hO4 j hj]) (fun j hj => by rw [hO4 j hj])
          (by rw [hI4]) (by rw [hI4]) (by rw [hI4])
          (by rw [hp4]; exact hmemP) ?_ (by rw [hp4]; exact nodup_eraseAo hfind h.probIds)
          (by rw [hw4]; exact nodup_eraseWo hfindW h.woIds) (by rw [hn4]; exact Nat.le_refl _)
        intro m
        rw [hw4, mem_eraseWo_iff hfindW h.woIds]
        constructor
        · rintro ⟨h1, h2⟩
          refine ⟨h1, fun e => h2 ?_⟩
          have := h.woOwn m h1
          rw [e, hwo] at this
          exact (Option.some.inj this).symm
        · rintro ⟨h1, h2⟩
          refine ⟨h1, fun e => h2 ?_⟩
          have e1 := findWo_of_mem h.woIds h1
          rw [e, ← hwnid, findWo_of_mem h.woIds hwn] at e1
          rw [← Option.some.inj e1]; exact hwninfo
      · intro m hm hne
        rw [hp4]; exact (hmemP m).mpr ⟨hm, hne⟩
  · rw [if_neg hadm]
    have hna : (getInfo s ve.info).admitted = false := by
      cases hx : (getInfo s ve.info).admitted with
      | false => rfl
      | true => exact absurd hx hadm
    refine ⟨h.withInfo _ _ ?_ ?_ rfl, fun m hm _ => hm⟩
    · simp only; exact (h.notAdm_ao hna).symm
    · simp only; exact (h.notAdm_wo hna).symm

end Sync
end MiniMoka
