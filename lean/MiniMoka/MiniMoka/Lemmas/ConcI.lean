/-
  Lemmas for model I (iteration beside writers). See `MiniMoka/ConcI.lean`.
-/
import MiniMoka.ConcI

namespace MiniMoka.ConcI

open MiniMoka

/-! ## Association-list facts -/

section AL
variable {β : Type}

theorem keys_eq_map (m : List (Nat × β)) : AL.keys m = m.map Prod.fst := by
  induction m with
  | nil => rfl
  | cons a rest ih => obtain ⟨k, v⟩ := a; simp [AL.keys, ih]

theorem mem_keys_of_mem {m : List (Nat × β)} {k : Nat} {v : β} (h : (k, v) ∈ m) :
    k ∈ AL.keys m := by
  rw [keys_eq_map]; exact List.mem_map.2 ⟨(k, v), h, rfl⟩

theorem mem_of_get? {m : List (Nat × β)} {k : Nat} {v : β} (h : AL.get? m k = some v) :
    (k, v) ∈ m := by
  induction m with
  | nil => simp [AL.get?] at h
  | cons a rest ih =>
    obtain ⟨k', v'⟩ := a
    simp only [AL.get?] at h
    split at h
    · rename_i hk
      subst hk
      have := Option.some.inj h
      subst this
      exact List.mem_cons_self
    · exact List.mem_cons_of_mem _ (ih h)

theorem get?_of_mem_nodup {m : List (Nat × β)} {k : Nat} {v : β}
    (hn : (AL.keys m).Nodup) (h : (k, v) ∈ m) : AL.get? m k = some v := by
  induction m with
  | nil => simp at h
  | cons a rest ih =>
    obtain ⟨k', v'⟩ := a
    simp only [AL.keys, List.nodup_cons] at hn
    simp only [AL.get?]
    rcases List.mem_cons.1 h with heq | hmem
    · injection heq with h1 h2
      subst h1; subst h2
      simp
    · have hk : k' ≠ k := by
        intro hkk
        subst hkk
        exact hn.1 (mem_keys_of_mem hmem)
      simp only [hk, if_false]
      exact ih hn.2 hmem

theorem get?_isSome_of_mem_keys {m : List (Nat × β)} {k : Nat} (h : k ∈ AL.keys m) :
    ∃ v, AL.get? m k = some v := by
  induction m with
  | nil => simp [AL.keys] at h
  | cons a rest ih =>
    obtain ⟨k', v'⟩ := a
    simp only [AL.keys, List.mem_cons] at h
    simp only [AL.get?]
    by_cases hk : k' = k
    · exact ⟨v', by simp [hk]⟩
    · simp only [hk, if_false]
      rcases h with h | h
      · exact (hk h.symm).elim
      · exact ih h

theorem mem_keys_put {m : List (Nat × β)} {k x : Nat} {v : β} :
    x ∈ AL.keys (AL.put m k v) ↔ x ∈ AL.keys m ∨ x = k := by
  induction m with
  | nil => simp [AL.put, AL.keys]
  | cons a rest ih =>
    obtain ⟨k', v'⟩ := a
    simp only [AL.put]
    split
    · rename_i hk
      subst hk
      simp only [AL.keys, List.mem_cons]
      constructor
      · intro h; exact Or.inl h
      · rintro (h | h)
        · exact h
        · exact Or.inl h
    · simp only [AL.keys, List.mem_cons, ih]
      constructor
      · rintro (h | h | h)
        · exact Or.inl (Or.inl h)
        · exact Or.inl (Or.inr h)
        · exact Or.inr h
      · rintro ((h | h) | h)
        · exact Or.inl h
        · exact Or.inr (Or.inl h)
        · exact Or.inr (Or.inr h)

theorem nodup_keys_put {m : List (Nat × β)} {k : Nat} {v : β} (hn : (AL.keys m).Nodup) :
    (AL.keys (AL.put m k v)).Nodup := by
  induction m with
  | nil => simp [AL.put, AL.keys]
  | cons a rest ih =>
    obtain ⟨k', v'⟩ := a
    simp only [AL.keys, List.nodup_cons] at hn
    simp only [AL.put]
    split
    · simp only [AL.keys, List.nodup_cons]; exact hn
    · rename_i hk
      simp only [AL.keys, List.nodup_cons]
      refine ⟨?_, ih hn.2⟩
      intro hmem
      rcases mem_keys_put.1 hmem with h | h
      · exact hn.1 h
      · exact hk h

theorem mem_keys_erase {m : List (Nat × β)} {k x : Nat} (h : x ∈ AL.keys (AL.erase m k)) :
    x ∈ AL.keys m := by
  induction m with
  | nil => simp [AL.erase, AL.keys] at h
  | cons a rest ih =>
    obtain ⟨k', v'⟩ := a
    simp only [AL.erase] at h
    simp only [AL.keys, List.mem_cons]
    split at h
    · exact Or.inr h
    · simp only [AL.keys, List.mem_cons] at h
      rcases h with h | h
      · exact Or.inl h
      · exact Or.inr (ih h)

theorem nodup_keys_erase {m : List (Nat × β)} {k : Nat} (hn : (AL.keys m).Nodup) :
    (AL.keys (AL.erase m k)).Nodup := by
  induction m with
  | nil => simp [AL.erase, AL.keys]
  | cons a rest ih =>
    obtain ⟨k', v'⟩ := a
    simp only [AL.keys, List.nodup_cons] at hn
    simp only [AL.erase]
    split
    · exact hn.2
    · simp only [AL.keys, List.nodup_cons]
      exact ⟨fun hmem => hn.1 (mem_keys_erase hmem), ih hn.2⟩

theorem get?_put_self (m : List (Nat × β)) (k : Nat) (v : β) :
    AL.get? (AL.put m k v) k = some v := by
  induction m with
  | nil => simp [AL.put, AL.get?]
  | cons a rest ih =>
    obtain ⟨k', v'⟩ := a
    simp only [AL.put]
    split
    · rename_i hk; simp [AL.get?, hk]
    · rename_i hk; simp [AL.get?, hk, ih]

theorem get?_put_ne (m : List (Nat × β)) {k x : Nat} (v : β) (hx : x ≠ k) :
    AL.get? (AL.put m k v) x = AL.get? m x := by
  induction m with
  | nil =>
    have : k ≠ x := fun h => hx h.symm
    simp [AL.put, AL.get?, this]
  | cons a rest ih =>
    obtain ⟨k', v'⟩ := a
    simp only [AL.put]
    split
    · rename_i hk
      subst hk
      have : k' ≠ x := fun h => hx h.symm
      simp [AL.get?, this]
    · simp only [AL.get?, ih]

theorem get?_erase_ne (m : List (Nat × β)) {k x : Nat} (hx : x ≠ k) :
    AL.get? (AL.erase m k) x = AL.get? m x := by
  induction m with
  | nil => simp [AL.erase]
  | cons a rest ih =>
    obtain ⟨k', v'⟩ := a
    simp only [AL.erase]
    split
    · rename_i hk
      subst hk
      have : k' ≠ x := fun h => hx h.symm
      simp [AL.get?, this]
    · simp only [AL.get?, ih]

theorem get?_erase_self {m : List (Nat × β)} {k : Nat} (hn : (AL.keys m).Nodup) :
    AL.get? (AL.erase m k) k = none := by
  induction m with
  | nil => simp [AL.erase, AL.get?]
  | cons a rest ih =>
    obtain ⟨k', v'⟩ := a
    simp only [AL.keys, List.nodup_cons] at hn
    simp only [AL.erase]
    split
    · rename_i hk
      subst hk
      cases hg : AL.get? rest k' with
      | none => rfl
      | some v => exact (hn.1 (mem_keys_of_mem (mem_of_get? hg))).elim
    · rename_i hk
      simp only [AL.get?, hk, if_false]
      exact ih hn.2

end AL

/-! ## The model -/

variable (shardOf : Key → Nat)

theorem run_nil (s : St) : run shardOf s [] = s := rfl

theorem run_cons (s : St) (e : Ev) (tr : List Ev) :
    run shardOf s (e :: tr) = run shardOf (step shardOf s e) tr := rfl

theorem run_append (s : St) (a b : List Ev) :
    run shardOf s (a ++ b) = run shardOf (run shardOf s a) b := by
  simp [run, List.foldl_append]

theorem upd_same (m : Nat → Shard) (i : Nat) (f : Shard → Shard) : upd m i f i = f (m i) := by
  simp [upd]

theorem upd_ne (m : Nat → Shard) {i j : Nat} (f : Shard → Shard) (h : j ≠ i) :
    upd m i f j = m j := by
  simp [upd, h]

theorem wf_step {s : St} (hw : WfMap shardOf s.map) (e : Ev) :
    WfMap shardOf (step shardOf s e).map := by
  cases e with
  | write k v =>
    intro i
    simp only [step]
    by_cases hi : i = shardOf k
    · subst hi
      rw [upd_same]
      refine ⟨nodup_keys_put (hw _).1, ?_⟩
      intro x hx
      rcases mem_keys_put.1 hx with h | h
      · exact (hw _).2 x h
      · rw [h]
    · rw [upd_ne _ _ hi]; exact hw i
  | remove k =>
    intro i
    simp only [step]
    by_cases hi : i = shardOf k
    · subst hi
      rw [upd_same]
      exact ⟨nodup_keys_erase (hw _).1, fun x hx => (hw _).2 x (mem_keys_erase hx)⟩
    · rw [upd_ne _ _ hi]; exact hw i
  | visit i => exact hw

theorem wf_run {s : St} (hw : WfMap shardOf s.map) (tr : List Ev) :
    WfMap shardOf (run shardOf s tr).map := by
  induction tr generalizing s with
  | nil => exact hw
  | cons e tr ih => rw [run_cons]; exact ih (wf_step shardOf hw e)

/-- Everything the iterator yields comes from the snapshot of some visited shard. -/
theorem mem_out_run {s : St} {tr : List Ev} {kv : Key × Val} :
    kv ∈ (run shardOf s tr).out ↔
      kv ∈ s.out ∨ ∃ pre i post, tr = pre ++ Ev.visit i :: post ∧
        kv ∈ (run shardOf s pre).map i := by
  induction tr generalizing s with
  | nil =>
    simp only [run_nil]
    constructor
    · exact Or.inl
    · rintro (h | ⟨pre, i, post, h, _⟩)
      · exact h
      · exact absurd h (by simp)
  | cons e tr ih =>
    rw [run_cons, ih]
    constructor
    · rintro (h | ⟨pre, i, post, htr, hmem⟩)
      · cases e with
        | write k v => exact Or.inl h
        | remove k => exact Or.inl h
        | visit j =>
          simp only [step, List.mem_append] at h
          rcases h with h | h
          · exact Or.inl h
          · exact Or.inr ⟨[], j, tr, rfl, h⟩
      · refine Or.inr ⟨e :: pre, i, post, by simp [htr], ?_⟩
        rw [run_cons]; exact hmem
    · rintro (h | ⟨pre, i, post, htr, hmem⟩)
      · left
        cases e with
        | write k v => exact h
        | remove k => exact h
        | visit j => simp only [step, List.mem_append]; exact Or.inl h
      · cases pre with
        | nil =>
          simp only [List.nil_append, List.cons.injEq] at htr
          obtain ⟨rfl, rfl⟩ := htr
          left
          simp only [step, List.mem_append]
          exact Or.inr hmem
        | cons e' pre' =>
          simp only [List.cons_append, List.cons.injEq] at htr
          obtain ⟨rfl, rfl⟩ := htr
          right
          exact ⟨pre', i, post, rfl, by rw [run_cons] at hmem; exact hmem⟩

theorem mem_visits {tr : List Ev} {i : Nat} (h : i ∈ visits tr) :
    ∃ pre post, tr = pre ++ Ev.visit i :: post := by
  induction tr with
  | nil => simp [visits] at h
  | cons e tr ih =>
    cases e with
    | write k v =>
      obtain ⟨pre, post, rfl⟩ := ih (by simpa [visits] using h)
      exact ⟨_ :: pre, post, rfl⟩
    | remove k =>
      obtain ⟨pre, post, rfl⟩ := ih (by simpa [visits] using h)
      exact ⟨_ :: pre, post, rfl⟩
    | visit j =>
      simp only [visits, List.mem_cons] at h
      rcases h with rfl | h
      · exact ⟨[], tr, rfl⟩
      · obtain ⟨pre, post, rfl⟩ := ih h
        exact ⟨_ :: pre, post, rfl⟩

/-- No key twice — generalised over the starting shard index for the induction. -/
theorem nodup_out_gen (tr : List Ev) :
    ∀ (s : St) (a len : Nat), WfMap shardOf s.map → visits tr = List.range' a len →
      (s.out.map Prod.fst).Nodup → (∀ k ∈ s.out.map Prod.fst, shardOf k < a) →
      ((run shardOf s tr).out.map Prod.fst).Nodup := by
  induction tr with
  | nil => intro s a len _ _ hn _; exact hn
  | cons e tr ih =>
    intro s a len hw hv hn hlt
    rw [run_cons]
    cases e with
    | write k v => exact ih _ a len (wf_step shardOf hw _) (by simpa [visits] using hv) hn hlt
    | remove k => exact ih _ a len (wf_step shardOf hw _) (by simpa [visits] using hv) hn hlt
    | visit i =>
      cases len with
      | zero => simp [visits] at hv
      | succ len =>
        simp only [visits, List.range'_succ, List.cons.injEq] at hv
        obtain ⟨rfl, hv⟩ := hv
        have hwi := hw i
        rw [keys_eq_map] at hwi
        refine ih _ (i + 1) len hw hv ?_ ?_
        · simp only [step, List.map_append]
          rw [List.nodup_append]
          refine ⟨hn, hwi.1, ?_⟩
          intro x hx y hy hxy
          have h1 := hlt x hx
          have h2 := hwi.2 y hy
          subst hxy
          omega
        · intro k hk
          simp only [step, List.map_append, List.mem_append] at hk
          rcases hk with hk | hk
          · have := hlt k hk; omega
          · have := hwi.2 k hk; omega

/-- A value read from the map after a trace is the initial one or was written in it. -/
theorem value_origin {k : Key} {v : Val} (pre : List Ev) :
    ∀ (s : St), WfMap shardOf s.map →
      lookup shardOf (run shardOf s pre).map k = some v →
      lookup shardOf s.map k = some v ∨ Ev.write k v ∈ pre := by
  induction pre with
  | nil => intro s _ h; exact Or.inl h
  | cons e pre ih =>
    intro s hw h
    rw [run_cons] at h
    rcases ih _ (wf_step shardOf hw e) h with h1 | h1
    · cases e with
      | write k' v' =>
        simp only [step, lookup] at h1
        by_cases hk : k = k'
        · subst hk
          rw [upd_same, get?_put_self] at h1
          have := Option.some.inj h1
          subst this
          exact Or.inr List.mem_cons_self
        · by_cases hs : shardOf k = shardOf k'
          · rw [hs, upd_same, get?_put_ne _ _ hk] at h1
            left; simp only [lookup]; rw [hs]; exact h1
          · rw [upd_ne _ _ hs] at h1
            exact Or.inl h1
      | remove k' =>
        simp only [step, lookup] at h1
        by_cases hk : k = k'
        · subst hk
          rw [upd_same, get?_erase_self (hw _).1] at h1
          exact absurd h1 (by simp)
        · by_cases hs : shardOf k = shardOf k'
          · rw [hs, upd_same, get?_erase_ne _ hk] at h1
            left; simp only [lookup]; rw [hs]; exact h1
          · rw [upd_ne _ _ hs] at h1
            exact Or.inl h1
      | visit i => exact Or.inl h1
    · exact Or.inr (List.mem_cons_of_mem _ h1)

/-- A key that is present and never removed stays present. -/
theorem present_of_no_remove {k : Key} (pre : List Ev) :
    ∀ (s : St), (lookup shardOf s.map k).isSome → Ev.remove k ∉ pre →
      (lookup shardOf (run shardOf s pre).map k).isSome := by
  induction pre with
  | nil => intro s h _; exact h
  | cons e pre ih =>
    intro s h hnr
    rw [run_cons]
    refine ih _ ?_ (fun hm => hnr (List.mem_cons_of_mem _ hm))
    cases e with
    | write k' v' =>
      simp only [step, lookup]
      by_cases hk : k = k'
      · subst hk; rw [upd_same, get?_put_self]; rfl
      · by_cases hs : shardOf k = shardOf k'
        · rw [hs, upd_same, get?_put_ne _ _ hk]
          simp only [lookup] at h; rw [hs] at h; exact h
        · rw [upd_ne _ _ hs]; exact h
    | remove k' =>
      have hk : k ≠ k' := by
        intro hkk; subst hkk; exact hnr List.mem_cons_self
      simp only [step, lookup]
      by_cases hs : shardOf k = shardOf k'
      · rw [hs, upd_same, get?_erase_ne _ hk]
        simp only [lookup] at h; rw [hs] at h; exact h
      · rw [upd_ne _ _ hs]; exact h
    | visit i => exact h

theorem run_seq (l : List Nat) (s : St) :
    run shardOf s (l.map Ev.visit) = ⟨s.map, s.out ++ l.flatMap s.map⟩ := by
  induction l generalizing s with
  | nil => simp [run]
  | cons i l ih =>
    simp only [List.map_cons, run_cons, ih, step, List.flatMap_cons, List.append_assoc]

theorem visits_seq (l : List Nat) : visits (l.map Ev.visit) = l := by
  induction l with
  | nil => rfl
  | cons i l ih => simp [visits, ih]

/-! ## The acceptor -/

theorem noDup_iff (l : List Nat) : noDup l = true ↔ l.Nodup := by
  induction l with
  | nil => simp [noDup]
  | cons x xs ih => simp [noDup, ih]

theorem count_eq_one_of_nodup_mem {l : List Nat} {k : Nat} (hn : l.Nodup) (hm : k ∈ l) :
    l.count k = 1 := by
  induction l with
  | nil => simp at hm
  | cons x xs ih =>
    simp only [List.nodup_cons] at hn
    rcases List.mem_cons.1 hm with rfl | h
    · have : xs.count k = 0 := List.count_eq_zero.2 hn.1
      simp [this]
    · have hx : x ≠ k := by
        intro hxk; subst hxk; exact hn.1 h
      rw [List.count_cons_of_ne hx]
      exact ih hn.2 h

theorem acceptI_iff (keys : List Key) (out : List (Key × Val)) (cand : List (Key × List Val)) :
    acceptI keys out cand = true ↔
      (out.map Prod.fst).Nodup ∧
      (∀ k ∈ keys, (out.map Prod.fst).count k = 1) ∧
      (∀ kv ∈ out, kv.2 ∈ candOf cand kv.1) := by
  simp only [acceptI, Bool.and_eq_true, noDup_iff, List.all_eq_true, beq_iff_eq,
    List.contains_iff_mem, and_assoc]

theorem mem_content {n : Nat} {m : Nat → Shard} {kv : Key × Val} :
    kv ∈ content n m ↔ ∃ i, i < n ∧ kv ∈ m i := by
  simp [content, List.mem_flatMap, List.mem_range]

end MiniMoka.ConcI
