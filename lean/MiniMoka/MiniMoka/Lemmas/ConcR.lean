/-
  Lemmas about model R (`MiniMoka/ConcR.lean`): the state/trace invariant, the
  order lemmas, and the soundness (and completeness) of the acceptor `acceptR`.
-/
import MiniMoka.ConcR

namespace MiniMoka
namespace ConcR

/-! ## Association lists -/

theorem AL_get?_put {β : Type} (m : List (Nat × β)) (k k' : Nat) (x : β) :
    AL.get? (AL.put m k x) k' = if k = k' then some x else AL.get? m k' := by
  induction m with
  | nil => simp [AL.put, AL.get?]
  | cons p rest ih =>
    obtain ⟨a, b⟩ := p
    simp only [AL.put]
    split <;> simp only [AL.get?, ih] <;> grind

theorem AL_get?_mem {β : Type} (m : List (Nat × β)) (k : Nat) (x : β)
    (h : AL.get? m k = some x) : (k, x) ∈ m := by
  induction m with
  | nil => simp [AL.get?] at h
  | cons p rest ih =>
    obtain ⟨a, b⟩ := p
    simp only [AL.get?] at h
    split at h
    · simp_all
    · simp [ih h]

theorem lookup_remove (m : KV) (k k' : Key) :
    lookup (remove m k) k' = if k = k' then none else lookup m k' := by
  induction m with
  | nil => simp [lookup, remove, AL.get?]
  | cons p rest ih =>
    obtain ⟨a, b⟩ := p
    simp only [lookup, remove, List.filter] at ih ⊢
    by_cases hak : a = k
    · subst hak
      simp only [ne_eq, not_true_eq_false, decide_false]
      rw [ih]; simp only [AL.get?]; split <;> simp_all
    · simp only [ne_eq, hak, not_false_eq_true, decide_true, AL.get?]
      rw [ih]; split <;> split <;> simp_all

theorem lookup_store (m : KV) (k k' : Key) (v : Val) :
    lookup (store m k v) k' = if k = k' then some v else lookup m k' := by
  have h := lookup_remove m k k'
  simp only [lookup] at h
  simp only [lookup, store, AL.get?, h]
  split <;> simp_all

/-! ## The fold -/

theorem runFrom_append (s : State) (l1 l2 : List Ev) :
    runFrom s (l1 ++ l2) = (runFrom s l1).bind (fun s' => runFrom s' l2) := by
  induction l1 generalizing s with
  | nil => simp [runFrom]
  | cons e es ih =>
    simp only [List.cons_append, runFrom]
    cases step s e with
    | none => simp
    | some s' => simp [ih]

theorem runFrom_eq_foldlM (s : State) (l : List Ev) : runFrom s l = l.foldlM step s := by
  induction l generalizing s with
  | nil => simp [runFrom]
  | cons e es ih =>
    simp only [runFrom, List.foldlM_cons]
    cases step s e with
    | none => simp
    | some s' => simp [ih]

theorem run_snoc (pre : List Ev) (e : Ev) (s' : State) :
    run (pre ++ [e]) = some s' ↔ ∃ s, run pre = some s ∧ step s e = some s' := by
  unfold run
  rw [runFrom_append]
  cases h : runFrom State.init pre with
  | none => simp
  | some s =>
    simp only [Option.bind_some, runFrom]
    cases hs : step s e <;> simp [hs]

/-- Prefixes of a well-formed execution are well-formed, and the event at position `p`
is enabled in the state reached by the first `p` events. -/
theorem run_prefix {evs : List Ev} {s : State} (h : run evs = some s) (p : Nat) :
    ∃ sp, run (evs.take p) = some sp := by
  have : evs = evs.take p ++ evs.drop p := (List.take_append_drop p evs).symm
  rw [this] at h
  unfold run at h ⊢
  rw [runFrom_append] at h
  cases h' : runFrom State.init (List.take p evs) with
  | none => simp [h'] at h
  | some sp => exact ⟨sp, rfl⟩

theorem run_prefix_step {evs : List Ev} {s : State} (h : run evs = some s) (p : Nat) (e : Ev)
    (he : evs[p]? = some e) :
    ∃ sp sp', run (evs.take p) = some sp ∧ step sp e = some sp' ∧
      run (evs.take (p + 1)) = some sp' := by
  obtain ⟨sp', hsp'⟩ := run_prefix h (p + 1)
  have hlt : p < evs.length := by
    rcases Nat.lt_or_ge p evs.length with h1 | h1
    · exact h1
    · simp [List.getElem?_eq_none h1] at he
  have : evs.take (p + 1) = evs.take p ++ [e] := by
    rw [List.take_add_one, he]; rfl
  rw [this, run_snoc] at hsp'
  obtain ⟨sp, h1, h2⟩ := hsp'
  exact ⟨sp, sp', h1, h2, by rw [this, run_snoc]; exact ⟨sp, h1, h2⟩⟩

/-! ## `opOf`, `effect` and their stability under extension of the trace -/

theorem opOf_append (l1 l2 : List Ev) (o : Oid) :
    opOf (l1 ++ l2) o = (opOf l1 o).or (opOf l2 o) := by
  induction l1 with
  | nil => simp [opOf]
  | cons e es ih =>
    cases e <;> simp only [List.cons_append, opOf, ih]
    split <;> simp

theorem opOf_append_of_some {l1 : List Ev} {o : Oid} {x : Tid × Op} (l2 : List Ev)
    (h : opOf l1 o = some x) : opOf (l1 ++ l2) o = some x := by
  simp [opOf_append, h]

theorem opOf_some_pos {l : List Ev} {o : Oid} {t : Tid} {op : Op}
    (h : opOf l o = some (t, op)) : ∃ q : Nat, l[q]? = some (Ev.invoke t o op) := by
  induction l with
  | nil => simp [opOf] at h
  | cons e es ih =>
    cases e with
    | invoke t' o' op' =>
      simp only [opOf] at h
      split at h
      · refine ⟨0, ?_⟩; simp_all
      · obtain ⟨q, hq⟩ := ih h; exact ⟨q + 1, by simpa using hq⟩
    | _ =>
      simp only [opOf] at h
      obtain ⟨q, hq⟩ := ih h; exact ⟨q + 1, by simpa using hq⟩

theorem opOf_none_not_mem {l : List Ev} {o : Oid} (h : opOf l o = none) (t : Tid) (op : Op) :
    Ev.invoke t o op ∉ l := by
  induction l with
  | nil => simp
  | cons e es ih =>
    cases e with
    | invoke t' o' op' =>
      simp only [opOf] at h
      split at h
      · simp at h
      · simp only [List.mem_cons, Ev.invoke.injEq, not_or]
        exact ⟨by grind, ih h⟩
    | _ =>
      simp only [opOf] at h
      simp [ih h]

/-- Every map step in the trace belongs to an operation invoked in the trace. -/
def Closed (l : List Ev) : Prop := ∀ o, Ev.mapStep o ∈ l → opOf l o ≠ none

theorem effect_append {l : List Ev} (l' : List Ev) {e : Ev} (hc : Closed l) (he : e ∈ l) :
    effect (l ++ l') e = effect l e := by
  cases e with
  | mapStep o =>
    have := hc o he
    cases h : opOf l o with
    | none => exact absurd h this
    | some x => simp only [effect, opOf_append_of_some l' h, h]
  | _ => rfl

theorem writesKey_append {l : List Ev} (l' : List Ev) {e : Ev} (hc : Closed l) (he : e ∈ l)
    (k : Key) : writesKey (l ++ l') e k = writesKey l e k := by
  simp only [writesKey, effect_append l' hc he]

theorem getElem?_append_mem {l : List Ev} (l' : List Ev) {m : Nat} (hm : m < l.length) :
    (l ++ l')[m]? = l[m]? ∧ ∃ e, l[m]? = some e ∧ e ∈ l := by
  refine ⟨List.getElem?_append_left hm, l[m], ?_, List.getElem_mem hm⟩
  simp [hm]

theorem NoWriteIn_append {l : List Ev} (l' : List Ev) (hc : Closed l) (k : Key) (lo hi : Nat)
    (hhi : hi ≤ l.length) : NoWriteIn (l ++ l') k lo hi ↔ NoWriteIn l k lo hi := by
  constructor
  · intro h m h1 h2 e he
    obtain ⟨h3, e', h4, h5⟩ := getElem?_append_mem (l := l) l' (m := m) (by omega)
    have : e' = e := by simp_all
    subst this
    have := h m h1 h2 e' (by rw [h3]; exact he)
    rwa [writesKey_append l' hc h5] at this
  · intro h m h1 h2 e he
    obtain ⟨h3, e', h4, h5⟩ := getElem?_append_mem (l := l) l' (m := m) (by omega)
    rw [h3] at he
    have : e' = e := by simp_all
    subst this
    rw [writesKey_append l' hc h5]
    exact h m h1 h2 e' he

/-- "The value of key `k` just before position `j` is `x`": no write to `k` before `j` and
`x = none`, or the last write to `k` before `j` has effect `(k, x)`. -/
def MapValAt (evs : List Ev) (k : Key) (j : Nat) (x : Option Val) : Prop :=
  (x = none ∧ NoWriteIn evs k 0 j) ∨
  (∃ i e, i < j ∧ evs[i]? = some e ∧ effect evs e = some (k, x) ∧ NoWriteIn evs k (i + 1) j)

theorem MapValAt_append {l : List Ev} (l' : List Ev) (hc : Closed l) {k : Key} {j : Nat}
    {x : Option Val} (hj : j ≤ l.length) (h : MapValAt l k j x) : MapValAt (l ++ l') k j x := by
  rcases h with ⟨h1, h2⟩ | ⟨i, e, h1, h2, h3, h4⟩
  · exact Or.inl ⟨h1, (NoWriteIn_append l' hc k 0 j hj).2 h2⟩
  · refine Or.inr ⟨i, e, h1, ?_, ?_, (NoWriteIn_append l' hc k (i + 1) j hj).2 h4⟩
    · rw [List.getElem?_append_left (by omega)]; exact h2
    · rw [effect_append l' hc (List.mem_of_getElem? h2)]; exact h3

theorem MapValAt_snoc_skip {pre : List Ev} {e : Ev} (hc : Closed pre) {k : Key}
    {x : Option Val} (hw : writesKey (pre ++ [e]) e k = false)
    (h : MapValAt pre k pre.length x) : MapValAt (pre ++ [e]) k (pre.length + 1) x := by
  have h' := MapValAt_append [e] hc (Nat.le_refl _) h
  have hlast : ∀ m, pre.length ≤ m → m < pre.length + 1 → ∀ e', (pre ++ [e])[m]? = some e' →
      writesKey (pre ++ [e]) e' k = false := by
    intro m h1 h2 e' he'
    have : m = pre.length := by omega
    subst this
    simp at he'
    subst he'; exact hw
  rcases h' with ⟨h1, h2⟩ | ⟨i, e0, h1, h2, h3, h4⟩
  · refine Or.inl ⟨h1, ?_⟩
    intro m hm1 hm2 e' he'
    rcases Nat.lt_or_ge m pre.length with hlt | hge
    · exact h2 m hm1 hlt e' he'
    · exact hlast m hge hm2 e' he'
  · refine Or.inr ⟨i, e0, by omega, h2, h3, ?_⟩
    intro m hm1 hm2 e' he'
    rcases Nat.lt_or_ge m pre.length with hlt | hge
    · exact h4 m hm1 hlt e' he'
    · exact hlast m hge hm2 e' he'

theorem MapValAt_snoc_write {pre : List Ev} {e : Ev} {k : Key} {y : Option Val}
    (he : effect (pre ++ [e]) e = some (k, y)) :
    MapValAt (pre ++ [e]) k (pre.length + 1) y := by
  refine Or.inr ⟨pre.length, e, by omega, by simp, he, ?_⟩
  intro m h1 h2; omega

theorem writesKey_of_effect {evs : List Ev} {e : Ev} {k k' : Key} {y : Option Val}
    (he : effect evs e = some (k, y)) : writesKey evs e k' = (k == k') := by
  simp [writesKey, he]

theorem writesKey_of_effect_none {evs : List Ev} {e : Ev} {k' : Key}
    (he : effect evs e = none) : writesKey evs e k' = false := by
  simp [writesKey, he]

/-! ## Inversion of `step` -/

theorem step_invoke_some {s s' : State} {t : Tid} {o : Oid} {op : Op}
    (h : step s (.invoke t o op) = some s') :
    AL.get? s.ops o = none ∧ threadIdle s t = true ∧
      s' = { s with ops := AL.put s.ops o ⟨t, op, .invoked, none⟩ } := by
  simp only [step] at h
  split at h
  · rename_i hc
    simp only [Option.some.injEq] at h
    exact ⟨by simpa using hc.1, hc.2, h.symm⟩
  · simp at h

theorem step_mapStep_some {s s' : State} {o : Oid} (h : step s (.mapStep o) = some s') :
    ∃ r, AL.get? s.ops o = some r ∧ r.phase = .invoked ∧
      s'.ops = AL.put s.ops o
        { r with phase := .stepped,
                 ret := match r.op with | .get k => lookup s.map k | _ => r.ret } ∧
      s'.map = match r.op with
        | .ins k v => store s.map k v | .del k => remove s.map k | .get _ => s.map := by
  simp only [step] at h
  split at h
  · simp at h
  · rename_i r hr
    split at h
    · rename_i hp
      refine ⟨r, hr, hp, ?_⟩
      split at h <;> simp only [Option.some.injEq] at h <;> subst h <;> simp_all
    · simp at h

theorem step_respond_some {s s' : State} {o : Oid} {x : Option Val}
    (h : step s (.respond o x) = some s') :
    ∃ r, AL.get? s.ops o = some r ∧ r.phase = .stepped ∧ (x = r.ret ∨ x = none) ∧
      s' = { s with ops := AL.put s.ops o { r with phase := .done } } := by
  simp only [step] at h
  split at h
  · simp at h
  · rename_i r hr
    split at h
    · rename_i hp
      simp only [Option.some.injEq] at h
      exact ⟨r, hr, hp.1, hp.2, h.symm⟩
    · simp at h

theorem step_daemon_some {s s' : State} {k : Key} (h : step s (.daemon k) = some s') :
    s' = { s with map := remove s.map k } := by
  simp only [step, Option.some.injEq] at h; exact h.symm

/-! ## The state/trace invariant -/

structure Inv (pre : List Ev) (s : State) : Prop where
  ops_eq : ∀ o, opOf pre o = (AL.get? s.ops o).map (fun r => (r.tid, r.op))
  step_rec : ∀ o, Ev.mapStep o ∈ pre → ∃ r, AL.get? s.ops o = some r ∧ r.phase ≠ .invoked
  stepped : ∀ o r, AL.get? s.ops o = some r → r.phase ≠ .invoked →
    ∃ j : Nat, pre[j]? = some (Ev.mapStep o) ∧ ∀ k, r.op = .get k → MapValAt pre k j r.ret
  resp_rec : ∀ o x, Ev.respond o x ∈ pre →
    ∃ r, AL.get? s.ops o = some r ∧ r.phase = .done ∧ (x = r.ret ∨ x = none)
  done_resp : ∀ o r, AL.get? s.ops o = some r → r.phase = .done → ∃ x, Ev.respond o x ∈ pre
  mapv : ∀ k, MapValAt pre k pre.length (lookup s.map k)

theorem Inv.closed {pre : List Ev} {s : State} (h : Inv pre s) : Closed pre := by
  intro o ho
  obtain ⟨r, hr, _⟩ := h.step_rec o ho
  rw [h.ops_eq, hr]; simp

theorem Inv_init : Inv [] State.init := by
  refine ⟨?_, ?_, ?_, ?_, ?_, ?_⟩
  · intro o; simp [opOf, State.init, AL.get?]
  · intro o h; simp at h
  · intro o r h; simp [State.init, AL.get?] at h
  · intro o x h; simp at h
  · intro o r h; simp [State.init, AL.get?] at h
  · intro k; left; simp [State.init, lookup, AL.get?, NoWriteIn]

theorem stepped_lift {pre : List Ev} (l' : List Ev) (hc : Closed pre) {ev : Ev} {op : Op}
    {x : Option Val}
    (h : ∃ j : Nat, pre[j]? = some ev ∧ ∀ k, op = .get k → MapValAt pre k j x) :
    ∃ j : Nat, (pre ++ l')[j]? = some ev ∧ ∀ k, op = .get k → MapValAt (pre ++ l') k j x := by
  obtain ⟨j, h1, h2⟩ := h
  have hj : j < pre.length := by
    rcases Nat.lt_or_ge j pre.length with h | h
    · exact h
    · simp [List.getElem?_eq_none h] at h1
  exact ⟨j, by rw [List.getElem?_append_left hj]; exact h1,
    fun k hk => MapValAt_append l' hc (Nat.le_of_lt hj) (h2 k hk)⟩

theorem Inv_invoke {pre : List Ev} {s s' : State} {t : Tid} {o : Oid} {op : Op}
    (hi : Inv pre s) (h : step s (.invoke t o op) = some s') :
    Inv (pre ++ [.invoke t o op]) s' := by
  obtain ⟨hnone, _, rfl⟩ := step_invoke_some h
  have hc := hi.closed
  refine ⟨?_, ?_, ?_, ?_, ?_, ?_⟩
  · intro o'
    simp only [opOf_append, opOf, AL_get?_put, hi.ops_eq]
    by_cases hoo : o = o'
    · subst hoo; simp [hnone]
    · simp [hoo]
  · intro o' hm
    simp only [List.mem_append, List.mem_singleton, reduceCtorEq, or_false] at hm
    obtain ⟨r, hr, hp⟩ := hi.step_rec o' hm
    have : o ≠ o' := by intro e; subst e; simp [hnone] at hr
    exact ⟨r, by simp [AL_get?_put, this, hr], hp⟩
  · intro o' r hr hp
    simp only [AL_get?_put] at hr
    split at hr
    · simp only [Option.some.injEq] at hr; subst hr; simp at hp
    · exact stepped_lift _ hc (hi.stepped o' r hr hp)
  · intro o' x hm
    simp only [List.mem_append, List.mem_singleton, reduceCtorEq, or_false] at hm
    obtain ⟨r, hr, hp⟩ := hi.resp_rec o' x hm
    have : o ≠ o' := by intro e; subst e; simp [hnone] at hr
    exact ⟨r, by simp [AL_get?_put, this, hr], hp⟩
  · intro o' r hr hp
    simp only [AL_get?_put] at hr
    split at hr
    · simp only [Option.some.injEq] at hr; subst hr; simp at hp
    · obtain ⟨y, hy⟩ := hi.done_resp o' r hr hp
      exact ⟨y, by simp [hy]⟩
  · intro k
    simp only [List.length_append, List.length_singleton]
    exact MapValAt_snoc_skip hc (by simp [writesKey, effect]) (hi.mapv k)

theorem Inv_daemon {pre : List Ev} {s s' : State} {k : Key}
    (hi : Inv pre s) (h : step s (.daemon k) = some s') :
    Inv (pre ++ [.daemon k]) s' := by
  have := step_daemon_some h
  subst this
  have hc := hi.closed
  refine ⟨?_, ?_, ?_, ?_, ?_, ?_⟩
  · intro o'
    simp [opOf_append, opOf, hi.ops_eq]
  · intro o' hm
    simp only [List.mem_append, List.mem_singleton, reduceCtorEq, or_false] at hm
    exact hi.step_rec o' hm
  · intro o' r hr hp
    exact stepped_lift _ hc (hi.stepped o' r hr hp)
  · intro o' x hm
    simp only [List.mem_append, List.mem_singleton, reduceCtorEq, or_false] at hm
    exact hi.resp_rec o' x hm
  · intro o' r hr hp
    obtain ⟨y, hy⟩ := hi.done_resp o' r hr hp
    exact ⟨y, by simp [hy]⟩
  · intro k'
    simp only [List.length_append, List.length_singleton, lookup_remove]
    split
    · subst_vars
      exact MapValAt_snoc_write (by simp [effect])
    · exact MapValAt_snoc_skip hc (by simp [writesKey, effect]; assumption) (hi.mapv k')

theorem Inv_respond {pre : List Ev} {s s' : State} {o : Oid} {x : Option Val}
    (hi : Inv pre s) (h : step s (.respond o x) = some s') :
    Inv (pre ++ [.respond o x]) s' := by
  obtain ⟨r, hr, hph, hret, rfl⟩ := step_respond_some h
  have hc := hi.closed
  refine ⟨?_, ?_, ?_, ?_, ?_, ?_⟩
  · intro o'
    simp only [opOf_append, opOf, AL_get?_put, hi.ops_eq, Option.or_none]
    split
    · subst_vars; simp [hr]
    · rfl
  · intro o' hm
    simp only [List.mem_append, List.mem_singleton, reduceCtorEq, or_false] at hm
    obtain ⟨r', hr', hp'⟩ := hi.step_rec o' hm
    simp only [AL_get?_put]
    split
    · subst_vars; exact ⟨_, rfl, by simp⟩
    · exact ⟨r', hr', hp'⟩
  · intro o' r' hr' hp'
    simp only [AL_get?_put] at hr'
    split at hr'
    · subst_vars
      simp only [Option.some.injEq] at hr'; subst hr'
      exact stepped_lift _ hc (hi.stepped _ r hr (by simp [hph]))
    · exact stepped_lift _ hc (hi.stepped o' r' hr' hp')
  · intro o' x' hm
    simp only [List.mem_append, List.mem_singleton, Ev.respond.injEq] at hm
    simp only [AL_get?_put]
    rcases hm with hm | ⟨rfl, rfl⟩
    · obtain ⟨r', hr', hp', hx'⟩ := hi.resp_rec o' x' hm
      split
      · subst_vars
        rw [hr] at hr'; simp only [Option.some.injEq] at hr'; subst hr'
        simp [hph] at hp'
      · exact ⟨r', hr', hp', hx'⟩
    · simp [hret]
  · intro o' r' hr' hp'
    simp only [AL_get?_put] at hr'
    split at hr'
    · subst_vars
      simp only [Option.some.injEq] at hr'; subst hr'
      simp
    · obtain ⟨y, hy⟩ := hi.done_resp o' r' hr' hp'
      exact ⟨y, by simp [hy]⟩
  · intro k
    simp only [List.length_append, List.length_singleton]
    exact MapValAt_snoc_skip hc (by simp [writesKey, effect]) (hi.mapv k)

theorem effect_mapStep_snoc {pre : List Ev} {s : State} (hi : Inv pre s) {o : Oid} {r : OpRec}
    (hr : AL.get? s.ops o = some r) :
    effect (pre ++ [.mapStep o]) (.mapStep o) =
      match r.op with
      | .ins k v => some (k, some v)
      | .del k => some (k, none)
      | .get _ => none := by
  have h1 : opOf pre o = some (r.tid, r.op) := by rw [hi.ops_eq, hr]; rfl
  simp only [effect, opOf_append_of_some _ h1]
  cases r.op <;> rfl

theorem Inv_mapStep {pre : List Ev} {s s' : State} {o : Oid}
    (hi : Inv pre s) (h : step s (.mapStep o) = some s') :
    Inv (pre ++ [.mapStep o]) s' := by
  obtain ⟨r, hr, hph, hops, hmap⟩ := step_mapStep_some h
  have hc := hi.closed
  have heff := effect_mapStep_snoc hi hr
  refine ⟨?_, ?_, ?_, ?_, ?_, ?_⟩
  · intro o'
    simp only [opOf_append, opOf, hops, AL_get?_put, hi.ops_eq, Option.or_none]
    split
    · subst_vars; simp [hr]
    · rfl
  · intro o' hm
    simp only [hops, AL_get?_put]
    split
    · exact ⟨_, rfl, by simp⟩
    · rename_i hne
      simp only [List.mem_append, List.mem_singleton, Ev.mapStep.injEq] at hm
      rcases hm with hm | hm
      · exact hi.step_rec o' hm
      · exact absurd hm.symm hne
  · intro o' r' hr' hp'
    simp only [hops, AL_get?_put] at hr'
    split at hr'
    · subst_vars
      simp only [Option.some.injEq] at hr'; subst hr'
      refine ⟨pre.length, by simp, ?_⟩
      intro k hk
      simp only at hk
      simp only [hk]
      exact MapValAt_append _ hc (Nat.le_refl _) (hi.mapv k)
    · exact stepped_lift _ hc (hi.stepped o' r' hr' hp')
  · intro o' x' hm
    simp only [List.mem_append, List.mem_singleton, reduceCtorEq, or_false] at hm
    obtain ⟨r', hr', hp', hx'⟩ := hi.resp_rec o' x' hm
    simp only [hops, AL_get?_put]
    split
    · subst_vars
      rw [hr] at hr'; simp only [Option.some.injEq] at hr'; subst hr'
      simp [hph] at hp'
    · exact ⟨r', hr', hp', hx'⟩
  · intro o' r' hr' hp'
    simp only [hops, AL_get?_put] at hr'
    split at hr'
    · simp only [Option.some.injEq] at hr'; subst hr'
      simp at hp'
    · obtain ⟨y, hy⟩ := hi.done_resp o' r' hr' hp'
      exact ⟨y, by simp [hy]⟩
  · intro k'
    simp only [List.length_append, List.length_singleton, hmap]
    cases hop : r.op with
    | ins k v =>
      simp only [hop] at heff
      simp only [lookup_store]
      split
      · subst_vars; exact MapValAt_snoc_write heff
      · rename_i hne
        exact MapValAt_snoc_skip hc (by rw [writesKey_of_effect heff]; simpa using hne)
          (hi.mapv k')
    | del k =>
      simp only [hop] at heff
      simp only [lookup_remove]
      split
      · subst_vars; exact MapValAt_snoc_write heff
      · rename_i hne
        exact MapValAt_snoc_skip hc (by rw [writesKey_of_effect heff]; simpa using hne)
          (hi.mapv k')
    | get k =>
      simp only [hop] at heff
      exact MapValAt_snoc_skip hc (writesKey_of_effect_none heff) (hi.mapv k')

theorem Inv_step {pre : List Ev} {s s' : State} {e : Ev}
    (hi : Inv pre s) (h : step s e = some s') : Inv (pre ++ [e]) s' := by
  cases e with
  | invoke t o op => exact Inv_invoke hi h
  | mapStep o => exact Inv_mapStep hi h
  | respond o x => exact Inv_respond hi h
  | daemon k => exact Inv_daemon hi h

theorem list_snoc_induction {α : Type} {P : List α → Prop} (nil : P [])
    (snoc : ∀ l a, P l → P (l ++ [a])) : ∀ l, P l := by
  intro l
  have h : ∀ r : List α, P r.reverse := by
    intro r
    induction r with
    | nil => exact nil
    | cons a r ih => simpa using snoc _ a ih
  simpa using h l.reverse

theorem Inv_run : ∀ {evs : List Ev} {s : State}, run evs = some s → Inv evs s := by
  intro evs
  induction evs using list_snoc_induction with
  | nil =>
    intro s h
    simp only [run, runFrom, Option.some.injEq] at h
    subst h; exact Inv_init
  | snoc pre e ih =>
    intro s h
    obtain ⟨s0, h0, h1⟩ := (run_snoc pre e s).1 h
    exact Inv_step (ih h0) h1

/-! ## Order lemmas on well-formed executions -/

theorem getElem?_take_some {evs : List Ev} {p i : Nat} {e : Ev} :
    (evs.take p)[i]? = some e ↔ i < p ∧ evs[i]? = some e := by
  rw [List.getElem?_take]
  split
  · simp_all
  · simp; omega

theorem mem_take_pos {evs : List Ev} {p : Nat} {e : Ev} (h : e ∈ evs.take p) :
    ∃ i, i < p ∧ evs[i]? = some e := by
  obtain ⟨i, hi⟩ := List.mem_iff_getElem?.1 h
  exact ⟨i, getElem?_take_some.1 hi⟩

theorem mem_take_of_pos {evs : List Ev} {p i : Nat} {e : Ev} (h1 : i < p)
    (h2 : evs[i]? = some e) : e ∈ evs.take p :=
  List.mem_iff_getElem?.2 ⟨i, getElem?_take_some.2 ⟨h1, h2⟩⟩

theorem opOf_take {evs : List Ev} {p : Nat} {o : Oid} {x : Tid × Op}
    (h : opOf (evs.take p) o = some x) : opOf evs o = some x := by
  have := opOf_append_of_some (evs.drop p) h
  rwa [List.take_append_drop] at this

theorem mapStep_invoked_before {evs : List Ev} {s : State} (h : run evs = some s)
    {p : Nat} {o : Oid} (hp : evs[p]? = some (.mapStep o)) :
    ∃ q t op, q < p ∧ evs[q]? = some (.invoke t o op) ∧ opOf evs o = some (t, op) := by
  obtain ⟨sp, sp', h1, h2, _⟩ := run_prefix_step h p _ hp
  obtain ⟨r, hr, _⟩ := step_mapStep_some h2
  have h3 : opOf (evs.take p) o = some (r.tid, r.op) := by
    rw [(Inv_run h1).ops_eq, hr]; rfl
  obtain ⟨q, hq⟩ := opOf_some_pos h3
  obtain ⟨hq1, hq2⟩ := getElem?_take_some.1 hq
  exact ⟨q, r.tid, r.op, hq1, hq2, opOf_take h3⟩

theorem respond_after_mapStep {evs : List Ev} {s : State} (h : run evs = some s)
    {a : Nat} {o : Oid} {x : Option Val} (ha : evs[a]? = some (.respond o x)) :
    ∃ p, p < a ∧ evs[p]? = some (.mapStep o) := by
  obtain ⟨sp, sp', h1, h2, _⟩ := run_prefix_step h a _ ha
  obtain ⟨r, hr, hph, _⟩ := step_respond_some h2
  obtain ⟨j, hj, _⟩ := (Inv_run h1).stepped o r hr (by simp [hph])
  exact ⟨j, getElem?_take_some.1 hj⟩

theorem mapStep_unique {evs : List Ev} {s : State} (h : run evs = some s)
    {j j' : Nat} {o : Oid} (hj : evs[j]? = some (.mapStep o))
    (hj' : evs[j']? = some (.mapStep o)) : j = j' := by
  have key : ∀ a b : Nat, a < b → evs[a]? = some (.mapStep o) → evs[b]? = some (.mapStep o) →
      False := by
    intro a b hab ha hb
    obtain ⟨sp, sp', h1, h2, _⟩ := run_prefix_step h b _ hb
    obtain ⟨r, hr, hph, _⟩ := step_mapStep_some h2
    obtain ⟨r', hr', hph'⟩ := (Inv_run h1).step_rec o (mem_take_of_pos hab ha)
    rw [hr] at hr'; simp only [Option.some.injEq] at hr'; subst hr'
    exact hph' hph
  rcases Nat.lt_trichotomy j j' with h1 | h1 | h1
  · exact (key j j' h1 hj hj').elim
  · exact h1
  · exact (key j' j h1 hj' hj).elim

theorem invoke_opOf {evs : List Ev} {s : State} (h : run evs = some s)
    {q : Nat} {t : Tid} {o : Oid} {op : Op} (hq : evs[q]? = some (.invoke t o op)) :
    opOf evs o = some (t, op) := by
  obtain ⟨sp, sp', h1, h2, h3⟩ := run_prefix_step h q _ hq
  obtain ⟨_, _, rfl⟩ := step_invoke_some h2
  apply opOf_take (p := q + 1)
  rw [(Inv_run h3).ops_eq]
  simp [AL_get?_put]

/-- The value a `get` returns is the value of its key just before its map step, or `none`
(filtered lookup). -/
theorem get_reads {evs : List Ev} {s : State} (h : run evs = some s)
    {j : Nat} {g : Oid} {t : Tid} {k : Key} {x : Option Val}
    (hj : evs[j]? = some (.mapStep g)) (hop : opOf evs g = some (t, .get k))
    (hres : Ev.respond g x ∈ evs) : MapValAt evs k j x ∨ x = none := by
  have hi := Inv_run h
  obtain ⟨r, hr, hph, hx⟩ := hi.resp_rec g x hres
  obtain ⟨j0, hj0, hv⟩ := hi.stepped g r hr (by simp [hph])
  have : j0 = j := mapStep_unique h hj0 hj
  subst this
  have h2 := hi.ops_eq g
  rw [hr, hop] at h2
  simp only [Option.map_some, Option.some.injEq, Prod.mk.injEq] at h2
  rcases hx with hx | hx
  · left; rw [hx]; exact hv k h2.2.symm
  · exact Or.inr hx

theorem final_map {evs : List Ev} {s : State} (h : run evs = some s) (k : Key) :
    MapValAt evs k evs.length (lookup s.map k) := (Inv_run h).mapv k

theorem threadIdle_spec {s : State} {t : Tid} (h : threadIdle s t = true) {o : Oid} {r : OpRec}
    (hr : AL.get? s.ops o = some r) (ht : r.tid = t) : r.phase = .done := by
  have hm := AL_get?_mem _ _ _ hr
  simp only [threadIdle, List.all_eq_true] at h
  have := h _ hm
  simp only [decide_eq_true_eq] at this
  rcases this with h1 | h1
  · exact absurd ht h1
  · exact h1

/-- A thread has at most one operation in flight: between two invocations by the same
thread the first operation responds. -/
theorem thread_sequential {evs : List Ev} {s : State} (h : run evs = some s)
    {q1 q2 : Nat} {t : Tid} {o1 o2 : Oid} {op1 op2 : Op}
    (h1 : evs[q1]? = some (.invoke t o1 op1)) (h2 : evs[q2]? = some (.invoke t o2 op2))
    (hlt : q1 < q2) :
    ∃ a x, q1 < a ∧ a < q2 ∧ evs[a]? = some (.respond o1 x) := by
  -- state before the second invocation
  obtain ⟨sp2, sp2', hr2, hs2, _⟩ := run_prefix_step h q2 _ h2
  obtain ⟨_, hidle, _⟩ := step_invoke_some hs2
  have hi2 := Inv_run hr2
  -- `o1` is known in that state, owned by `t`
  have hq1 : (evs.take q2)[q1]? = some (.invoke t o1 op1) := getElem?_take_some.2 ⟨hlt, h1⟩
  have hop := invoke_opOf hr2 hq1
  rw [hi2.ops_eq] at hop
  cases hr : AL.get? sp2.ops o1 with
  | none => simp [hr] at hop
  | some r =>
    simp only [hr, Option.map_some, Option.some.injEq, Prod.mk.injEq] at hop
    have hdone := threadIdle_spec hidle hr hop.1
    obtain ⟨y, hy⟩ := hi2.done_resp o1 r hr hdone
    obtain ⟨a, ha1, ha2⟩ := mem_take_pos hy
    refine ⟨a, y, ?_, ha1, ha2⟩
    -- the response cannot precede the invocation
    obtain ⟨sp1, sp1', hr1, hs1, _⟩ := run_prefix_step h q1 _ h1
    obtain ⟨hnone, _, _⟩ := step_invoke_some hs1
    rcases Nat.lt_trichotomy a q1 with hlt' | heq | hgt
    · obtain ⟨r', hr', _⟩ := (Inv_run hr1).resp_rec o1 y (mem_take_of_pos hlt' ha2)
      simp [hnone] at hr'
    · subst heq; simp [h1] at ha2
    · exact hgt

theorem invoke_unique {evs : List Ev} {s : State} (h : run evs = some s)
    {q q' : Nat} {t t' : Tid} {o : Oid} {op op' : Op}
    (hq : evs[q]? = some (.invoke t o op)) (hq' : evs[q']? = some (.invoke t' o op')) :
    q = q' := by
  have key : ∀ (a b : Nat) (t t' : Tid) (op op' : Op), a < b →
      evs[a]? = some (.invoke t o op) → evs[b]? = some (.invoke t' o op') → False := by
    intro a b t t' op op' hab ha hb
    obtain ⟨sp, sp', h1, h2, _⟩ := run_prefix_step h b _ hb
    obtain ⟨hnone, _, _⟩ := step_invoke_some h2
    have h3 : opOf (evs.take b) o = none := by rw [(Inv_run h1).ops_eq, hnone]; rfl
    exact opOf_none_not_mem h3 t op (mem_take_of_pos hab ha)
  rcases Nat.lt_trichotomy q q' with h1 | h1 | h1
  · exact (key _ _ _ _ _ _ h1 hq hq').elim
  · exact h1
  · exact (key _ _ _ _ _ _ h1 hq' hq).elim

/-! ## Coherence lemmas (assembled into the C02 / C07 theorems) -/

theorem effect_some_val {evs : List Ev} {e : Ev} {k : Key} {v : Val}
    (h : effect evs e = some (k, some v)) :
    ∃ w tw, e = .mapStep w ∧ opOf evs w = some (tw, .ins k v) := by
  cases e with
  | mapStep o =>
    simp only [effect] at h
    split at h
    · rename_i t k' v' hop
      simp only [Option.some.injEq, Prod.mk.injEq] at h
      obtain ⟨rfl, rfl⟩ := h
      exact ⟨o, t, rfl, hop⟩
    · simp at h
    · simp at h
  | _ => simp [effect] at h

/-- What `writesKey` means. -/
theorem writesKey_iff {evs : List Ev} {e : Ev} {k : Key} :
    writesKey evs e k = true ↔
      e = .daemon k ∨
      ∃ o t, e = .mapStep o ∧
        ((∃ v, opOf evs o = some (t, .ins k v)) ∨ opOf evs o = some (t, .del k)) := by
  cases e with
  | daemon k' => simp [writesKey, effect]
  | mapStep o =>
    simp only [writesKey, effect, reduceCtorEq, Ev.mapStep.injEq, false_or]
    cases hop : opOf evs o with
    | none => simp [hop]
    | some x =>
      obtain ⟨t, op⟩ := x
      cases op <;> simp [hop] <;> grind
  | _ => simp [writesKey, effect]

theorem read_from {evs : List Ev} {s : State} (h : run evs = some s)
    {j : Nat} {g : Oid} {t : Tid} {k : Key} {v : Val}
    (hj : evs[j]? = some (.mapStep g)) (hop : opOf evs g = some (t, .get k))
    (hres : Ev.respond g (some v) ∈ evs) :
    ∃ i w tw, i < j ∧ evs[i]? = some (.mapStep w) ∧ opOf evs w = some (tw, .ins k v) ∧
      NoWriteIn evs k (i + 1) j := by
  rcases get_reads h hj hop hres with (⟨h1, _⟩ | ⟨i, e, h1, h2, h3, h4⟩) | h1
  · simp at h1
  · obtain ⟨w, tw, rfl, hw⟩ := effect_some_val h3
    exact ⟨i, w, tw, h1, h2, hw, h4⟩
  · simp at h1

theorem writesKey_mapStep_of_op {evs : List Ev} {u : Oid} {tu : Tid} {opu : Op} {k : Key}
    (hu : opOf evs u = some (tu, opu)) (hk : (∃ v, opu = .ins k v) ∨ opu = .del k) :
    writesKey evs (.mapStep u) k = true := by
  rw [writesKey_iff]
  right
  refine ⟨u, tu, rfl, ?_⟩
  rcases hk with ⟨v, rfl⟩ | rfl
  · exact Or.inl ⟨v, hu⟩
  · exact Or.inr hu

/-- An operation that responded before `g` was invoked has its map step before `g`'s. -/
theorem mapStep_lt_of_resp_before_inv {evs : List Ev} {s : State} (h : run evs = some s)
    {u g : Oid} {a b pu j : Nat} {x : Option Val} {tg : Tid} {opg : Op}
    (ha : evs[a]? = some (.respond u x)) (hb : evs[b]? = some (.invoke tg g opg)) (hab : a < b)
    (hpu : evs[pu]? = some (.mapStep u)) (hj : evs[j]? = some (.mapStep g)) : pu < j := by
  obtain ⟨p, hp1, hp2⟩ := respond_after_mapStep h ha
  have := mapStep_unique h hp2 hpu
  subst this
  obtain ⟨q, t', op', hq1, hq2, _⟩ := mapStep_invoked_before h hj
  have := invoke_unique h hq2 hb
  subst this
  omega

theorem not_superseded {evs : List Ev} {s : State} (h : run evs = some s)
    {j : Nat} {g : Oid} {t : Tid} {k : Key} {v : Val}
    (hj : evs[j]? = some (.mapStep g)) (hop : opOf evs g = some (t, .get k))
    (hres : Ev.respond g (some v) ∈ evs)
    {u : Oid} {tu : Tid} {opu : Op} {a b pu : Nat} {x : Option Val} {tg : Tid} {opg : Op}
    (hu : opOf evs u = some (tu, opu)) (hk : (∃ v', opu = .ins k v') ∨ opu = .del k)
    (ha : evs[a]? = some (.respond u x)) (hb : evs[b]? = some (.invoke tg g opg)) (hab : a < b)
    (hpu : evs[pu]? = some (.mapStep u)) :
    ∃ i w tw, i < j ∧ evs[i]? = some (.mapStep w) ∧ opOf evs w = some (tw, .ins k v) ∧
      NoWriteIn evs k (i + 1) j ∧ pu ≤ i := by
  obtain ⟨i, w, tw, h1, h2, h3, h4⟩ := read_from h hj hop hres
  refine ⟨i, w, tw, h1, h2, h3, h4, ?_⟩
  have hlt := mapStep_lt_of_resp_before_inv h ha hb hab hpu hj
  rcases Nat.lt_or_ge i pu with hc | hc
  · have := h4 pu (by omega) hlt _ hpu
    rw [writesKey_mapStep_of_op hu hk] at this
    simp at this
  · exact hc

theorem reader_after_del {evs : List Ev} {s : State} (h : run evs = some s)
    {d g : Oid} {td tg : Tid} {k : Key} {a b pd j : Nat} {x y : Option Val}
    (hd : opOf evs d = some (td, .del k))
    (ha : evs[a]? = some (.respond d y)) (hb : evs[b]? = some (.invoke tg g (.get k)))
    (hab : a < b)
    (hpd : evs[pd]? = some (.mapStep d)) (hj : evs[j]? = some (.mapStep g))
    (hno : ∀ m w tw v, pd < m → m < j → evs[m]? = some (.mapStep w) →
      opOf evs w ≠ some (tw, .ins k v))
    (hres : Ev.respond g x ∈ evs) : x = none := by
  cases x with
  | none => rfl
  | some v =>
    have hop := invoke_opOf h hb
    obtain ⟨i, w, tw, h1, h2, h3, h4, h5⟩ :=
      not_superseded h hj hop hres hd (Or.inr rfl) ha hb hab hpd
    rcases Nat.lt_or_ge pd i with hc | hc
    · exact absurd h3 (hno i w tw v hc h1 h2)
    · have : pd = i := by omega
      subst this
      rw [hpd] at h2
      simp only [Option.some.injEq, Ev.mapStep.injEq] at h2
      subst h2
      rw [hd] at h3; simp at h3

theorem monotone {evs : List Ev} {s : State} (h : run evs = some s) {k : Key} {writer : Tid}
    (hsingle : ∀ o t v, opOf evs o = some (t, .ins k v) → t = writer)
    (hdistinct : ∀ o o' t t' v, opOf evs o = some (t, .ins k v) →
      opOf evs o' = some (t', .ins k v) → o = o')
    {g1 g2 : Oid} {t1 t2 : Tid} {j1 j2 : Nat} {v1 v2 : Val}
    (hj1 : evs[j1]? = some (.mapStep g1)) (hop1 : opOf evs g1 = some (t1, .get k))
    (hres1 : Ev.respond g1 (some v1) ∈ evs)
    (hj2 : evs[j2]? = some (.mapStep g2)) (hop2 : opOf evs g2 = some (t2, .get k))
    (hres2 : Ev.respond g2 (some v2) ∈ evs)
    (hlt : j1 < j2)
    {w1 w2 : Oid} {tw1 tw2 : Tid} {q1 q2 : Nat}
    (hw1 : evs[q1]? = some (.invoke tw1 w1 (.ins k v1)))
    (hw2 : evs[q2]? = some (.invoke tw2 w2 (.ins k v2))) :
    q1 ≤ q2 := by
  have ho1 := invoke_opOf h hw1
  have ho2 := invoke_opOf h hw2
  obtain ⟨i1, w1', tw1', a1, a2, a3, a4⟩ := read_from h hj1 hop1 hres1
  obtain ⟨i2, w2', tw2', b1, b2, b3, b4⟩ := read_from h hj2 hop2 hres2
  have e1 : w1' = w1 := hdistinct _ _ _ _ _ a3 ho1
  have e2 : w2' = w2 := hdistinct _ _ _ _ _ b3 ho2
  subst e1 e2
  -- the map steps of the two writes are ordered like the reads
  have hle : i1 ≤ i2 := by
    rcases Nat.lt_or_ge i2 i1 with hc | hc
    · have := b4 i1 (by omega) (by omega) _ a2
      rw [writesKey_mapStep_of_op a3 (Or.inl ⟨v1, rfl⟩)] at this
      simp at this
    · exact hc
  rcases Nat.lt_or_ge q2 q1 with hc | hc
  · -- `w2` invoked first by the same thread, so it responded before `w1` was invoked
    have t1w : tw1 = writer := hsingle _ _ _ ho1
    have t2w : tw2 = writer := hsingle _ _ _ ho2
    subst t1w t2w
    obtain ⟨a, x, c1, c2, c3⟩ := thread_sequential h hw2 hw1 hc
    obtain ⟨p, d1, d2⟩ := respond_after_mapStep h c3
    have := mapStep_unique h d2 b2
    subst this
    obtain ⟨q, t', op', f1, f2, _⟩ := mapStep_invoked_before h a2
    have := invoke_unique h f2 hw1
    subst this
    omega
  · exact hc

theorem final_state_some {evs : List Ev} {s : State} (h : run evs = some s) {k : Key} {v : Val}
    (hv : lookup s.map k = some v) :
    ∃ i w tw, evs[i]? = some (.mapStep w) ∧ opOf evs w = some (tw, .ins k v) ∧
      NoWriteIn evs k (i + 1) evs.length := by
  have hm := final_map h k
  rw [hv] at hm
  rcases hm with ⟨h1, _⟩ | ⟨i, e, h1, h2, h3, h4⟩
  · simp at h1
  · obtain ⟨w, tw, rfl, hw⟩ := effect_some_val h3
    exact ⟨i, w, tw, h2, hw, h4⟩

theorem final_state_none {evs : List Ev} {s : State} (h : run evs = some s) {k : Key}
    {m : Nat} {e : Ev} (hm : evs[m]? = some e) (he : effect evs e = some (k, none))
    (hlast : ∀ m' w tw v, m < m' → evs[m']? = some (.mapStep w) →
      opOf evs w ≠ some (tw, .ins k v)) :
    lookup s.map k = none := by
  cases hv : lookup s.map k with
  | none => rfl
  | some v =>
    obtain ⟨i, w, tw, h1, h2, h3⟩ := final_state_some h hv
    have hmlt : m < evs.length := by
      rcases Nat.lt_or_ge m evs.length with h' | h'
      · exact h'
      · simp [List.getElem?_eq_none h'] at hm
    rcases Nat.lt_trichotomy m i with hc | hc | hc
    · exact absurd h2 (hlast i w tw v hc h1)
    · subst hc
      rw [hm] at h1
      simp only [Option.some.injEq] at h1
      subst h1
      simp [effect, h2] at he
    · have := h3 m (by omega) hmlt e hm
      simp [writesKey, he] at this

/-! ## Soundness of the acceptor -/

theorem orderOk_iff (L : List HOp) :
    orderOk L = true ↔ L.Pairwise (fun a b => a.invStamp < b.resStamp) := by
  induction L with
  | nil => simp [orderOk]
  | cons a l ih => simp [orderOk, ih, List.pairwise_cons]

/-- A linearized operation that leaves the cell unchanged: a `get`. -/
def IsHit (a : HOp) : Prop := ∃ k, a.op = .get k

theorem applyOp_cases {cur c : Option Val} {a : HOp} (h : applyOp cur a = some c) :
    (∃ k v, a.op = .ins k v ∧ c = some v) ∨ (c = none ∧ ¬ IsHit a) ∨ (IsHit a ∧ c = cur) := by
  unfold applyOp at h
  split at h
  · rename_i k v hop
    simp only [Option.some.injEq] at h
    exact Or.inl ⟨k, v, hop, h.symm⟩
  · rename_i k hop
    simp only [Option.some.injEq] at h
    refine Or.inr (Or.inl ⟨h.symm, ?_⟩)
    rintro ⟨k', h1⟩; rw [hop] at h1; simp at h1
  · rename_i k hop hres
    simp only [Option.some.injEq] at h
    exact Or.inr (Or.inr ⟨⟨k, hop⟩, h.symm⟩)
  · rename_i k v hop hres
    split at h
    · simp only [Option.some.injEq] at h
      exact Or.inr (Or.inr ⟨⟨k, hop⟩, h.symm⟩)
    · simp at h

theorem applyOp_hit {cur c : Option Val} {g : HOp} {k : Key} {v : Val}
    (hop : g.op = .get k) (hres : g.result = some v) (h : applyOp cur g = some c) :
    cur = some v := by
  unfold applyOp at h
  rw [hop, hres] at h
  simp only at h
  split at h
  · assumption
  · simp at h

/-- In a successful replay, a get `g` returning `v` is preceded by an `ins _ v` with only
gets in between (or the initial cell already holds `v`, with only hits before `g`). -/
theorem replay_hit {L : List HOp} {cur : Option Val} (hrep : replay cur L = true)
    {g : HOp} {k : Key} {v : Val} (hg : g ∈ L) (hop : g.op = .get k)
    (hres : g.result = some v) :
    (cur = some v ∧ ∃ l1 l2, L = l1 ++ g :: l2 ∧ ∀ a ∈ l1, IsHit a) ∨
    (∃ l1 w l2 l3 k', L = l1 ++ w :: l2 ++ g :: l3 ∧ w.op = .ins k' v ∧ ∀ a ∈ l2, IsHit a) := by
  induction L generalizing cur with
  | nil => simp at hg
  | cons a l ih =>
    simp only [replay] at hrep
    cases hap : applyOp cur a with
    | none => simp [hap] at hrep
    | some c =>
      simp only [hap] at hrep
      by_cases hga : g = a
      · subst hga
        exact Or.inl ⟨applyOp_hit hop hres hap, [], l, rfl, by simp⟩
      · have hgl : g ∈ l := by
          rcases List.mem_cons.1 hg with h | h
          · exact absurd h hga
          · exact h
        rcases ih hrep hgl with ⟨hc, l1, l2, hl, hhits⟩ | ⟨l1, w, l2, l3, k', hl, hw, hhits⟩
        · rcases applyOp_cases hap with ⟨k', v', hins, hcv⟩ | ⟨hcn, _⟩ | ⟨hhit, hcc⟩
          · right
            have : v' = v := by rw [hcv] at hc; simpa using hc
            subst this
            exact ⟨[], a, l1, l2, k', by simp [hl], hins, hhits⟩
          · rw [hcn] at hc; simp at hc
          · left
            refine ⟨by rw [← hcc]; exact hc, a :: l1, l2, by simp [hl], ?_⟩
            intro b hb
            rcases List.mem_cons.1 hb with h | h
            · rw [h]; exact hhit
            · exact hhits b h
        · right
          exact ⟨a :: l1, w, l2, l3, k', by simp [hl], hw, hhits⟩

theorem isHit_not_write {a : HOp} (h : IsHit a) : a.op.isWrite = false := by
  obtain ⟨k, h1⟩ := h
  rw [h1]; rfl

/-- Soundness of the certificate checker, per key. -/
theorem checkLin_sound {ops L : List HOp} (hchk : checkLin ops L = true) {k : Key}
    (hkey : ∀ a ∈ ops, a.op.key = k) (hwf : ∀ a ∈ ops, a.invStamp < a.resStamp)
    {g : HOp} {v : Val} (hg : g ∈ ops) (hop : g.op = .get k) (hres : g.result = some v) :
    ∃ w ∈ ops, w.op = .ins k v ∧ w.invStamp < g.resStamp ∧
      ∀ u ∈ ops, u.op.isWrite = true →
        ¬ (w.resStamp < u.invStamp ∧ u.resStamp < g.invStamp) := by
  simp only [checkLin, Bool.and_eq_true] at hchk
  obtain ⟨⟨hperm, hord⟩, hrep⟩ := hchk
  have hperm := List.isPerm_iff.1 hperm
  have hord := (orderOk_iff L).1 hord
  have hgL : g ∈ L := hperm.mem_iff.2 hg
  rcases replay_hit hrep hgL hop hres with ⟨hc, _⟩ | ⟨l1, w, l2, l3, k', hl, hw, hhits⟩
  · simp at hc
  · subst hl
    have hwops : w ∈ ops := hperm.mem_iff.1 (by simp)
    have hk' : k' = k := by
      have := hkey w hwops
      rw [hw] at this; exact this
    subst hk'
    -- unfold the pairwise order facts
    simp only [List.append_assoc, List.cons_append, List.pairwise_append, List.pairwise_cons,
      List.mem_append, List.mem_cons] at hord
    obtain ⟨hp1, ⟨hwall, hp2, ⟨hgall, hp3⟩, hcross2⟩, hcross1⟩ := hord
    refine ⟨w, hwops, hw, hwall g (Or.inr (Or.inl rfl)), ?_⟩
    intro u hu huw ⟨hc1, hc2⟩
    have huL : u ∈ l1 ++ w :: l2 ++ g :: l3 := hperm.mem_iff.2 hu
    simp only [List.append_assoc, List.cons_append, List.mem_append, List.mem_cons] at huL
    rcases huL with h1 | h1 | h1 | h1 | h1
    · have := hcross1 u h1 w (Or.inl rfl)
      omega
    · subst h1
      have := hwf u hwops
      omega
    · rw [isHit_not_write (hhits u h1)] at huw; simp at huw
    · subst h1
      rw [hop] at huw; simp [Op.isWrite] at huw
    · have := hgall u h1
      omega

theorem mem_dedupKeys {l : List Key} {k : Key} : k ∈ dedupKeys l ↔ k ∈ l := by
  induction l with
  | nil => simp [dedupKeys]
  | cons a r ih =>
    simp only [dedupKeys]
    split
    · rename_i hc
      have : a ∈ r := by simpa using hc
      rw [ih]; simp only [List.mem_cons]
      constructor
      · exact Or.inr
      · rintro (h | h)
        · rw [h]; exact this
        · exact h
    · simp [ih]

theorem acceptKey_checkLin {ops : List HOp} (h : acceptKey ops = true) :
    ∃ L, checkLin ops L = true := by
  unfold acceptKey at h
  split at h
  · rename_i L _; exact ⟨L, h⟩
  · simp at h

theorem acceptR_sound_aux {h : List HOp} (hacc : acceptR h = true)
    {g : HOp} {k : Key} {v : Val} (hg : g ∈ h) (hop : g.op = .get k) (hres : g.result = some v) :
    ∃ w ∈ h, w.op = .ins k v ∧ w.invStamp < g.resStamp ∧
      ∀ u ∈ h, u.op.key = k → u.op.isWrite = true →
        ¬ (w.resStamp < u.invStamp ∧ u.resStamp < g.invStamp) := by
  simp only [acceptR, wfHistory, Bool.and_eq_true, List.all_eq_true, decide_eq_true_eq] at hacc
  obtain ⟨⟨hwf, _⟩, hkeys⟩ := hacc
  have hgk : g.op.key = k := by rw [hop]; rfl
  have hk : k ∈ keysOf h := by
    simp only [keysOf, mem_dedupKeys, List.mem_map]
    exact ⟨g, hg, hgk⟩
  obtain ⟨L, hL⟩ := acceptKey_checkLin (hkeys k hk)
  have hfk : ∀ a ∈ h.filter (fun a => a.op.key == k), a.op.key = k := by
    intro a ha
    simpa using (List.mem_filter.1 ha).2
  have hfwf : ∀ a ∈ h.filter (fun a => a.op.key == k), a.invStamp < a.resStamp :=
    fun a ha => hwf a (List.mem_filter.1 ha).1
  have hgf : g ∈ h.filter (fun a => a.op.key == k) :=
    List.mem_filter.2 ⟨hg, by simpa using hgk⟩
  obtain ⟨w, hw, h1, h2, h3⟩ := checkLin_sound hL hfk hfwf hgf hop hres
  refine ⟨w, (List.mem_filter.1 hw).1, h1, h2, ?_⟩
  intro u hu huk huw
  exact h3 u (List.mem_filter.2 ⟨hu, by simpa using huk⟩) huw

/-! ## Small helpers for stating theorems and checking concrete executions -/

theorem WF_iff {evs : List Ev} : WF evs ↔ ∃ s, run evs = some s := by
  unfold WF; exact Option.isSome_iff_exists

theorem effect_of_delete {evs : List Ev} {e : Ev} {k : Key}
    (h : e = .daemon k ∨ ∃ d td, e = .mapStep d ∧ opOf evs d = some (td, .del k)) :
    effect evs e = some (k, none) := by
  rcases h with rfl | ⟨d, td, rfl, hd⟩
  · rfl
  · simp [effect, hd]

/-- Operation ids invoked in a trace. -/
def oids : List Ev → List Oid
  | [] => []
  | .invoke _ o _ :: es => o :: oids es
  | _ :: es => oids es

theorem opOf_some_mem_oids {evs : List Ev} {o : Oid} {x : Tid × Op} (h : opOf evs o = some x) :
    o ∈ oids evs := by
  induction evs with
  | nil => simp [opOf] at h
  | cons e es ih =>
    cases e with
    | invoke t o' op =>
      simp only [opOf] at h
      simp only [oids, List.mem_cons]
      split at h
      · left; simp_all
      · right; exact ih h
    | _ => simp only [opOf] at h; simpa [oids] using ih h

/-- Decidable form of "all `ins k _` are issued by `writer`". -/
def singleWriterB (evs : List Ev) (k : Key) (writer : Tid) : Bool :=
  (oids evs).all fun o =>
    match opOf evs o with
    | some (t, .ins k' _) => k' != k || t == writer
    | _ => true

/-- Decidable form of "the `ins k _` operations carry pairwise distinct values". -/
def distinctValsB (evs : List Ev) (k : Key) : Bool :=
  (oids evs).all fun o => (oids evs).all fun o' =>
    match opOf evs o, opOf evs o' with
    | some (_, .ins k1 v1), some (_, .ins k2 v2) => !(k1 == k && k2 == k && v1 == v2) || o == o'
    | _, _ => true

theorem singleWriterB_spec {evs : List Ev} {k : Key} {writer : Tid}
    (h : singleWriterB evs k writer = true) :
    ∀ o t v, opOf evs o = some (t, .ins k v) → t = writer := by
  intro o t v ho
  simp only [singleWriterB, List.all_eq_true] at h
  have := h o (opOf_some_mem_oids ho)
  simpa [ho] using this

theorem distinctValsB_spec {evs : List Ev} {k : Key} (h : distinctValsB evs k = true) :
    ∀ o o' t t' v, opOf evs o = some (t, .ins k v) → opOf evs o' = some (t', .ins k v) →
      o = o' := by
  intro o o' t t' v ho ho'
  simp only [distinctValsB, List.all_eq_true] at h
  have := h o (opOf_some_mem_oids ho) o' (opOf_some_mem_oids ho')
  simpa [ho, ho'] using this

/-! ## Completeness of the search: every certificate is found

`acceptKey ops = true` iff some `L` passes `checkLin ops L`. -/

/-- "`a` may be linearized before `b`". -/
abbrev RT (a b : HOp) : Prop := a.invStamp < b.resStamp

theorem picks_perm {α : Type} {l : List α} {a : α} {r : List α} (h : (a, r) ∈ picks l) :
    l.Perm (a :: r) := by
  induction l generalizing a r with
  | nil => simp [picks] at h
  | cons b t ih =>
    simp only [picks, List.mem_cons, List.mem_map] at h
    rcases h with h | ⟨p, hp, hpe⟩
    · simp only [Prod.mk.injEq] at h
      obtain ⟨rfl, rfl⟩ := h
      exact List.Perm.refl _
    · simp only [Prod.mk.injEq] at hpe
      obtain ⟨rfl, rfl⟩ := hpe
      have := ih (a := p.1) (r := p.2) hp
      exact (List.Perm.cons b this).trans (List.Perm.swap _ _ _)

theorem mem_picks {α : Type} {l : List α} {a : α} (h : a ∈ l) : ∃ r, (a, r) ∈ picks l := by
  induction l with
  | nil => simp at h
  | cons b t ih =>
    rcases List.mem_cons.1 h with rfl | h
    · exact ⟨t, by simp [picks]⟩
    · obtain ⟨r, hr⟩ := ih h
      refine ⟨b :: r, ?_⟩
      simp only [picks, List.mem_cons, List.mem_map]
      exact Or.inr ⟨(a, r), hr, rfl⟩

theorem enabled_iff {a : HOp} {rest : List HOp} :
    enabled a rest = true ↔ ∀ b ∈ rest, RT a b := by
  simp [enabled, RT]

theorem mem_expand {nd x : Node} :
    x ∈ expand nd ↔ ∃ a r c, (a, r) ∈ picks nd.rem ∧ enabled a r = true ∧
      applyOp nd.cur a = some c ∧ x = ⟨r, c, a :: nd.path⟩ := by
  simp only [expand, List.mem_filterMap]
  constructor
  · rintro ⟨p, hp, hx⟩
    split at hx
    · rename_i hen
      cases hap : applyOp nd.cur p.1 with
      | none => simp [hap] at hx
      | some c =>
        simp only [hap, Option.map_some, Option.some.injEq] at hx
        exact ⟨p.1, p.2, c, hp, hen, hap, hx.symm⟩
    · simp at hx
  · rintro ⟨a, r, c, hp, hen, hap, rfl⟩
    exact ⟨(a, r), hp, by simp [hen, hap]⟩

theorem insertNode_sub {acc : List Node} {x y : Node} (h : y ∈ insertNode acc x) :
    y ∈ acc ∨ y = x := by
  unfold insertNode at h
  split at h
  · exact Or.inl h
  · rcases List.mem_cons.1 h with h | h
    · exact Or.inr h
    · exact Or.inl h

theorem foldl_insertNode_sub {l acc : List Node} {y : Node}
    (h : y ∈ l.foldl insertNode acc) : y ∈ acc ∨ y ∈ l := by
  induction l generalizing acc with
  | nil => exact Or.inl h
  | cons x t ih =>
    simp only [List.foldl_cons] at h
    rcases ih h with h | h
    · rcases insertNode_sub h with h | h
      · exact Or.inl h
      · exact Or.inr (by simp [h])
    · exact Or.inr (by simp [h])

theorem dedupNodes_sub {l : List Node} {y : Node} (h : y ∈ dedupNodes l) : y ∈ l := by
  rcases foldl_insertNode_sub h with h | h
  · simp at h
  · exact h

theorem sameState_iff {x y : Node} : sameState x y = true ↔ x.cur = y.cur ∧ x.rem = y.rem := by
  simp [sameState]

/-- Every state present in the input survives in the output (possibly with another path). -/
theorem foldl_insertNode_cover {l acc : List Node} {x : Node}
    (h : (∃ y ∈ acc, y.cur = x.cur ∧ y.rem = x.rem) ∨ x ∈ l) :
    ∃ y ∈ l.foldl insertNode acc, y.cur = x.cur ∧ y.rem = x.rem := by
  induction l generalizing acc with
  | nil =>
    rcases h with h | h
    · exact h
    · simp at h
  | cons z t ih =>
    simp only [List.foldl_cons]
    apply ih
    rcases h with ⟨y, hy, hyx⟩ | h
    · left
      refine ⟨y, ?_, hyx⟩
      unfold insertNode; split
      · exact hy
      · exact List.mem_cons_of_mem _ hy
    · rcases List.mem_cons.1 h with rfl | h
      · left
        unfold insertNode; split
        · rename_i hany
          obtain ⟨y, hy, hs⟩ := List.any_eq_true.1 hany
          have := sameState_iff.1 hs
          exact ⟨y, hy, this.1.symm, this.2.symm⟩
        · exact ⟨x, by simp, rfl, rfl⟩
      · exact Or.inr h

theorem dedupNodes_cover {l : List Node} {x : Node} (h : x ∈ l) :
    ∃ y ∈ dedupNodes l, y.cur = x.cur ∧ y.rem = x.rem :=
  foldl_insertNode_cover (Or.inr h)

/-- Coverage: if a node whose pending set is a permutation of `S` and whose cell is `cur`
is present, and `S` (in this order) is a legal continuation, the search reaches the end. -/
theorem levels_complete (S : List HOp) : ∀ (nodes : List Node) (nd : Node), nd ∈ nodes →
    nd.rem.Perm S → S.Pairwise RT → replay nd.cur S = true →
    levels S.length nodes ≠ [] := by
  induction S with
  | nil =>
    intro nodes nd hnd _ _ _
    simp only [List.length_nil, levels]
    exact List.ne_nil_of_mem hnd
  | cons a S' ih =>
    intro nodes nd hnd hperm hpw hrep
    simp only [List.length_cons, levels]
    simp only [replay] at hrep
    cases hap : applyOp nd.cur a with
    | none => simp [hap] at hrep
    | some c =>
      simp only [hap] at hrep
      have ha : a ∈ nd.rem := hperm.mem_iff.2 (by simp)
      obtain ⟨r, hr⟩ := mem_picks ha
      have hr' : r.Perm S' := ((picks_perm hr).symm.trans hperm).cons_inv
      have hpw' := List.pairwise_cons.1 hpw
      have hen : enabled a r = true :=
        enabled_iff.2 fun b hb => hpw'.1 b (hr'.mem_iff.1 hb)
      have hx : (⟨r, c, a :: nd.path⟩ : Node) ∈ nodes.flatMap expand :=
        List.mem_flatMap.2 ⟨nd, hnd, mem_expand.2 ⟨a, r, c, hr, hen, hap, rfl⟩⟩
      obtain ⟨y, hy, hyc, hyr⟩ := dedupNodes_cover hx
      exact ih _ y hy (by rw [hyr]; exact hr') hpw'.2 (by rw [hyc]; exact hrep)

/-- Cell after replaying `L` (`none` = replay fails). -/
def runCell (cur : Option Val) : List HOp → Option (Option Val)
  | [] => some cur
  | a :: l =>
    match applyOp cur a with
    | some c => runCell c l
    | none => none

theorem replay_eq_runCell (cur : Option Val) (L : List HOp) :
    replay cur L = (runCell cur L).isSome := by
  induction L generalizing cur with
  | nil => rfl
  | cons a l ih =>
    simp only [replay, runCell]
    cases applyOp cur a with
    | none => rfl
    | some c => exact ih c

theorem runCell_snoc (cur : Option Val) (L : List HOp) (a : HOp) :
    runCell cur (L ++ [a]) = (runCell cur L).bind (fun c => applyOp c a) := by
  induction L generalizing cur with
  | nil =>
    simp only [List.nil_append, runCell, Option.bind_some]
    cases applyOp cur a <;> rfl
  | cons b l ih =>
    simp only [List.cons_append, runCell]
    cases applyOp cur b with
    | none => rfl
    | some c => exact ih c

/-- Validity of a search node w.r.t. the key's operations `ops`. -/
structure NodeOk (ops : List HOp) (nd : Node) : Prop where
  perm : (nd.path.reverse ++ nd.rem).Perm ops
  order : nd.path.reverse.Pairwise RT
  cross : ∀ a ∈ nd.path, ∀ b ∈ nd.rem, RT a b
  cell : runCell none nd.path.reverse = some nd.cur

theorem NodeOk_expand {ops : List HOp} {nd x : Node} (h : NodeOk ops nd) (hx : x ∈ expand nd) :
    NodeOk ops x ∧ x.rem.length + 1 = nd.rem.length := by
  obtain ⟨a, r, c, hp, hen, hap, rfl⟩ := mem_expand.1 hx
  have hperm := picks_perm hp
  have ha : a ∈ nd.rem := hperm.mem_iff.2 (by simp)
  have hen' := enabled_iff.1 hen
  refine ⟨⟨?_, ?_, ?_, ?_⟩, ?_⟩
  · simp only [List.reverse_cons, List.append_assoc, List.singleton_append]
    exact (List.Perm.append_left _ hperm.symm).trans h.perm
  · simp only [List.reverse_cons, List.pairwise_append, List.pairwise_cons, List.mem_reverse,
      List.mem_singleton]
    refine ⟨h.order, ⟨by simp, List.Pairwise.nil⟩, ?_⟩
    intro z hz y hy; rw [hy]; exact h.cross z hz a ha
  · intro x hx b hb
    have hb' : b ∈ nd.rem := hperm.mem_iff.2 (List.mem_cons_of_mem _ hb)
    rcases List.mem_cons.1 hx with rfl | hx
    · exact hen' b hb
    · exact h.cross x hx b hb'
  · simp only [List.reverse_cons, runCell_snoc, h.cell, Option.bind_some, hap]
  · simpa using hperm.length_eq.symm

theorem levels_valid {ops : List HOp} : ∀ (d : Nat) (nodes : List Node),
    (∀ nd ∈ nodes, NodeOk ops nd ∧ nd.rem.length = d) →
    ∀ x ∈ levels d nodes, NodeOk ops x ∧ x.rem.length = 0 := by
  intro d
  induction d with
  | zero => intro nodes h x hx; exact h x hx
  | succ d ih =>
    intro nodes h x hx
    simp only [levels] at hx
    refine ih _ ?_ x hx
    intro y hy
    obtain ⟨nd, hnd, hy'⟩ := List.mem_flatMap.1 (dedupNodes_sub hy)
    obtain ⟨h1, h2⟩ := NodeOk_expand (h nd hnd).1 hy'
    exact ⟨h1, by have := (h nd hnd).2; omega⟩

theorem NodeOk_root (ops : List HOp) : NodeOk ops ⟨ops, none, []⟩ :=
  ⟨by simp, by simp, by simp, rfl⟩

theorem checkLin_of_NodeOk {ops : List HOp} {x : Node} (h : NodeOk ops x)
    (hlen : x.rem.length = 0) : checkLin ops x.path.reverse = true := by
  have hrem : x.rem = [] := List.eq_nil_of_length_eq_zero hlen
  have hperm := h.perm
  rw [hrem, List.append_nil] at hperm
  simp only [checkLin, Bool.and_eq_true]
  refine ⟨⟨List.isPerm_iff.2 hperm, (orderOk_iff _).2 h.order⟩, ?_⟩
  rw [replay_eq_runCell, h.cell]; rfl

/-- The search is complete for certificates: it accepts iff some linear order passes the
checker. -/
theorem acceptKey_iff (ops : List HOp) :
    acceptKey ops = true ↔ ∃ L, checkLin ops L = true := by
  constructor
  · exact acceptKey_checkLin
  · rintro ⟨L, hL⟩
    simp only [checkLin, Bool.and_eq_true] at hL
    obtain ⟨⟨hperm, hord⟩, hrep⟩ := hL
    have hperm := List.isPerm_iff.1 hperm
    have hne := levels_complete L [⟨ops, none, []⟩] ⟨ops, none, []⟩ (by simp) hperm.symm
      ((orderOk_iff L).1 hord) hrep
    rw [hperm.length_eq] at hne
    have hvalid := levels_valid (ops := ops) ops.length [⟨ops, none, []⟩]
      (by intro nd hnd; simp only [List.mem_singleton] at hnd; subst hnd
          exact ⟨NodeOk_root ops, rfl⟩)
    unfold acceptKey searchKey
    cases hlv : levels ops.length [⟨ops, none, []⟩] with
    | nil => exact absurd hlv hne
    | cons x t =>
      have := hvalid x (by rw [hlv]; simp)
      simp only
      exact checkLin_of_NodeOk this.1 this.2

/-! ## Completeness w.r.t. model R: the recorded history of an execution is accepted -/

theorem firstPos_some {β : Type} {p : Ev → Option β} {l : List Ev} {i : Nat} {b : β}
    (h : firstPos p l = some (i, b)) : ∃ e, l[i]? = some e ∧ p e = some b := by
  induction l generalizing i with
  | nil => simp [firstPos] at h
  | cons e es ih =>
    simp only [firstPos] at h
    split at h
    · rename_i b' hb'
      simp only [Option.some.injEq, Prod.mk.injEq] at h
      obtain ⟨rfl, rfl⟩ := h
      exact ⟨e, by simp, hb'⟩
    · cases hf : firstPos p es with
      | none => simp [hf] at h
      | some x =>
        simp only [hf, Option.map_some, Option.some.injEq, Prod.mk.injEq] at h
        obtain ⟨rfl, rfl⟩ := h
        obtain ⟨e', h1, h2⟩ := ih (i := x.1) (by rw [hf])
        exact ⟨e', by simpa using h1, h2⟩

theorem firstPos_of_mem {β : Type} {p : Ev → Option β} {l : List Ev} {e : Ev} {b : β}
    (he : e ∈ l) (hp : p e = some b) : ∃ x, firstPos p l = some x := by
  induction l with
  | nil => simp at he
  | cons e' es ih =>
    simp only [firstPos]
    split
    · exact ⟨_, rfl⟩
    · rename_i hn
      rcases List.mem_cons.1 he with rfl | he
      · rw [hp] at hn; simp at hn
      · obtain ⟨x, hx⟩ := ih he
        exact ⟨_, by rw [hx]; rfl⟩

theorem hopOf_spec {evs : List Ev} {o : Oid} {h : HOp} (hh : hopOf evs o = some h) :
    evs[h.invStamp]? = some (.invoke h.thread o h.op) ∧
    evs[h.resStamp]? = some (.respond o h.result) := by
  unfold hopOf at hh
  split at hh
  · rename_i q t op a r hi hr
    simp only [Option.some.injEq] at hh
    subst hh
    obtain ⟨e1, h1, h2⟩ := firstPos_some hi
    obtain ⟨e2, h3, h4⟩ := firstPos_some hr
    constructor
    · cases e1 <;> simp at h2
      obtain ⟨rfl, rfl, rfl⟩ := h2
      exact h1
    · cases e2 <;> simp at h4
      obtain ⟨rfl, rfl⟩ := h4
      exact h3
  · simp at hh

theorem hopOf_exists {evs : List Ev} {o : Oid} {t : Tid} {op : Op} {r : Option Val}
    (hi : Ev.invoke t o op ∈ evs) (hr : Ev.respond o r ∈ evs) : ∃ h, hopOf evs o = some h := by
  have h1 : ∃ x, invOf evs o = some x := by
    unfold invOf
    exact firstPos_of_mem (b := (t, op)) hi (by simp)
  have h2 : ∃ y, resOf evs o = some y := by
    unfold resOf
    exact firstPos_of_mem (b := r) hr (by simp)
  obtain ⟨⟨q, t', op'⟩, hx⟩ := h1
  obtain ⟨⟨a, r'⟩, hy⟩ := h2
  exact ⟨⟨t', q, a, op', r'⟩, by simp only [hopOf, hx, hy]⟩

theorem mem_stepOids {evs : List Ev} {o : Oid} : o ∈ stepOids evs ↔ Ev.mapStep o ∈ evs := by
  induction evs with
  | nil => simp [stepOids]
  | cons e es ih => cases e <;> simp [stepOids, ih]

theorem mem_respOids {evs : List Ev} {o : Oid} :
    o ∈ respOids evs ↔ ∃ r, Ev.respond o r ∈ evs := by
  induction evs with
  | nil => simp [respOids]
  | cons e es ih =>
    cases e <;> simp [respOids, ih]
    grind

theorem stepOids_append (l1 l2 : List Ev) : stepOids (l1 ++ l2) = stepOids l1 ++ stepOids l2 := by
  induction l1 with
  | nil => rfl
  | cons e es ih => cases e <;> simp [stepOids, ih]

theorem respOids_append (l1 l2 : List Ev) : respOids (l1 ++ l2) = respOids l1 ++ respOids l2 := by
  induction l1 with
  | nil => rfl
  | cons e es ih => cases e <;> simp [respOids, ih]

theorem respond_unique {evs : List Ev} {s : State} (h : run evs = some s)
    {a a' : Nat} {o : Oid} {x x' : Option Val} (ha : evs[a]? = some (.respond o x))
    (ha' : evs[a']? = some (.respond o x')) : a = a' := by
  have key : ∀ (a b : Nat) (x x' : Option Val), a < b → evs[a]? = some (.respond o x) →
      evs[b]? = some (.respond o x') → False := by
    intro a b x x' hab ha hb
    obtain ⟨sp, sp', h1, h2, _⟩ := run_prefix_step h b _ hb
    obtain ⟨r, hr, hph, _⟩ := step_respond_some h2
    obtain ⟨r', hr', hph', _⟩ := (Inv_run h1).resp_rec o x (mem_take_of_pos hab ha)
    rw [hr] at hr'; simp only [Option.some.injEq] at hr'; subst hr'
    rw [hph] at hph'; simp at hph'
  rcases Nat.lt_trichotomy a a' with h1 | h1 | h1
  · exact (key _ _ _ _ h1 ha ha').elim
  · exact h1
  · exact (key _ _ _ _ h1 ha' ha).elim

theorem stepOids_nodup : ∀ {evs : List Ev} {s : State}, run evs = some s →
    (stepOids evs).Nodup := by
  intro evs
  induction evs using list_snoc_induction with
  | nil => intro s _; simp [stepOids]
  | snoc pre e ih =>
    intro s h
    obtain ⟨s0, h0, h1⟩ := (run_snoc pre e s).1 h
    have hnd := ih h0
    rw [stepOids_append]
    cases e with
    | mapStep o =>
      simp only [stepOids, List.nodup_append, List.mem_singleton]
      refine ⟨hnd, by simp, ?_⟩
      intro a ha b hb
      subst hb
      intro hab; subst hab
      obtain ⟨r, hr, hph, _⟩ := step_mapStep_some h1
      obtain ⟨r', hr', hph'⟩ := (Inv_run h0).step_rec a (mem_stepOids.1 ha)
      rw [hr] at hr'; simp only [Option.some.injEq] at hr'; subst hr'
      exact hph' hph
    | _ => simpa [stepOids] using hnd

theorem respOids_nodup : ∀ {evs : List Ev} {s : State}, run evs = some s →
    (respOids evs).Nodup := by
  intro evs
  induction evs using list_snoc_induction with
  | nil => intro s _; simp [respOids]
  | snoc pre e ih =>
    intro s h
    obtain ⟨s0, h0, h1⟩ := (run_snoc pre e s).1 h
    have hnd := ih h0
    rw [respOids_append]
    cases e with
    | respond o x =>
      simp only [respOids, List.nodup_append, List.mem_singleton]
      refine ⟨hnd, by simp, ?_⟩
      intro a ha b hb
      subst hb
      intro hab; subst hab
      obtain ⟨r, hr, hph, _⟩ := step_respond_some h1
      obtain ⟨x', hx'⟩ := mem_respOids.1 ha
      obtain ⟨r', hr', hph', _⟩ := (Inv_run h0).resp_rec a x' hx'
      rw [hr] at hr'; simp only [Option.some.injEq] at hr'; subst hr'
      rw [hph] at hph'; simp at hph'
    | _ => simpa [respOids] using hnd

theorem complete_spec {evs : List Ev} (hc : complete evs = true) {t : Tid} {o : Oid} {op : Op}
    (h : Ev.invoke t o op ∈ evs) : ∃ r, Ev.respond o r ∈ evs := by
  simp only [complete, List.all_eq_true] at hc
  have := hc _ h
  simp only [List.any_eq_true] at this
  obtain ⟨e', he', hm⟩ := this
  cases e' <;> simp at hm
  subst hm
  exact ⟨_, he'⟩

/-- In a complete execution the operations that took their map step are exactly the ones
that responded. -/
theorem stepOids_perm_respOids {evs : List Ev} {s : State} (h : run evs = some s)
    (hc : complete evs = true) : (stepOids evs).Perm (respOids evs) := by
  rw [List.perm_ext_iff_of_nodup (stepOids_nodup h) (respOids_nodup h)]
  intro o
  rw [mem_stepOids, mem_respOids]
  constructor
  · intro hm
    obtain ⟨p, hp⟩ := List.mem_iff_getElem?.1 hm
    obtain ⟨q, t, op, _, hq, _⟩ := mapStep_invoked_before h hp
    exact complete_spec hc (List.mem_of_getElem? hq)
  · rintro ⟨r, hr⟩
    obtain ⟨a, ha⟩ := List.mem_iff_getElem?.1 hr
    obtain ⟨p, _, hp⟩ := respond_after_mapStep h ha
    exact List.mem_of_getElem? hp

theorem hop_step {evs : List Ev} {s : State} (h : run evs = some s) {o : Oid} {a : HOp}
    (ha : hopOf evs o = some a) :
    ∃ p, a.invStamp < p ∧ p < a.resStamp ∧ evs[p]? = some (.mapStep o) := by
  obtain ⟨h1, h2⟩ := hopOf_spec ha
  obtain ⟨p, hp1, hp2⟩ := respond_after_mapStep h h2
  obtain ⟨q, t, op, hq1, hq2, _⟩ := mapStep_invoked_before h hp2
  have := invoke_unique h hq2 h1
  subst this
  exact ⟨p, hq1, hp1, hp2⟩

theorem stepOids_pairwise {R : Oid → Oid → Prop} {evs : List Ev}
    (hR : ∀ (i j : Nat) o1 o2, i < j → evs[i]? = some (.mapStep o1) →
      evs[j]? = some (.mapStep o2) → R o1 o2) : (stepOids evs).Pairwise R := by
  induction evs with
  | nil => simp [stepOids]
  | cons e es ih =>
    have ih' := ih (fun i j o1 o2 hij h1 h2 =>
      hR (i + 1) (j + 1) o1 o2 (by omega) (by simpa using h1) (by simpa using h2))
    cases e with
    | mapStep o =>
      simp only [stepOids, List.pairwise_cons]
      refine ⟨?_, ih'⟩
      intro o2 ho2
      obtain ⟨j, hj⟩ := List.mem_iff_getElem?.1 (mem_stepOids.1 ho2)
      exact hR 0 (j + 1) o o2 (by omega) (by simp) (by simpa using hj)
    | _ => simpa [stepOids] using ih'

theorem respOids_pairwise {R : Oid → Oid → Prop} {evs : List Ev}
    (hR : ∀ (i j : Nat) o1 o2 x1 x2, i < j → evs[i]? = some (.respond o1 x1) →
      evs[j]? = some (.respond o2 x2) → R o1 o2) : (respOids evs).Pairwise R := by
  induction evs with
  | nil => simp [respOids]
  | cons e es ih =>
    have ih' := ih (fun i j o1 o2 x1 x2 hij h1 h2 =>
      hR (i + 1) (j + 1) o1 o2 x1 x2 (by omega) (by simpa using h1) (by simpa using h2))
    cases e with
    | respond o x =>
      simp only [respOids, List.pairwise_cons]
      refine ⟨?_, ih'⟩
      intro o2 ho2
      obtain ⟨x2, hx2⟩ := mem_respOids.1 ho2
      obtain ⟨j, hj⟩ := List.mem_iff_getElem?.1 hx2
      exact hR 0 (j + 1) o o2 x x2 (by omega) (by simp) (by simpa using hj)
    | _ => simpa [respOids] using ih'

/-- Linearization witness for key `k`: the completed operations on `k` in map-step order. -/
def linOf (evs : List Ev) (k : Key) : List HOp :=
  ((stepOids evs).filterMap (hopOf evs)).filter (fun a => a.op.key == k)

theorem linOf_pairwise {evs : List Ev} {s : State} (h : run evs = some s) (k : Key) :
    (linOf evs k).Pairwise RT := by
  unfold linOf
  apply List.Pairwise.filter
  refine List.Pairwise.filterMap (R := fun o1 o2 => ∀ a, hopOf evs o1 = some a →
    ∀ b, hopOf evs o2 = some b → RT a b) (hopOf evs) (fun o1 o2 hr a ha b hb => hr a ha b hb) ?_
  apply stepOids_pairwise
  intro i j o1 o2 hij h1 h2 a ha b hb
  obtain ⟨p1, a1, _, a3⟩ := hop_step h ha
  obtain ⟨p2, _, b2, b3⟩ := hop_step h hb
  have e1 := mapStep_unique h a3 h1
  have e2 := mapStep_unique h b3 h2
  simp only [RT]
  omega

theorem linOf_perm {evs : List Ev} {s : State} (h : run evs = some s)
    (hc : complete evs = true) (k : Key) :
    (linOf evs k).Perm ((historyOf evs).filter (fun a => a.op.key == k)) :=
  ((stepOids_perm_respOids h hc).filterMap (hopOf evs)).filter _

theorem MapValAt_unique {evs : List Ev} {k : Key} {j : Nat} {x y : Option Val}
    (hx : MapValAt evs k j x) (hy : MapValAt evs k j y) : x = y := by
  have wk : ∀ {e : Ev} {z : Option Val}, effect evs e = some (k, z) → writesKey evs e k = true :=
    fun he => by simp [writesKey, he]
  rcases hx with ⟨rfl, hx⟩ | ⟨i, e, h1, h2, h3, h4⟩
  · rcases hy with ⟨rfl, _⟩ | ⟨i', e', h1', h2', h3', _⟩
    · rfl
    · have := hx i' (by omega) h1' e' h2'
      rw [wk h3'] at this; simp at this
  · rcases hy with ⟨rfl, hy⟩ | ⟨i', e', h1', h2', h3', h4'⟩
    · have := hy i (by omega) h1 e h2
      rw [wk h3] at this; simp at this
    · rcases Nat.lt_trichotomy i i' with hc | hc | hc
      · have := h4 i' (by omega) h1' e' h2'
        rw [wk h3'] at this; simp at this
      · subst hc
        rw [h2] at h2'; simp only [Option.some.injEq] at h2'; subst h2'
        rw [h3] at h3'; simpa using h3'
      · have := h4' i (by omega) h1 e h2
        rw [wk h3] at this; simp at this

/-- The value a `get` responds with is the map's value in the state before its map step,
or `none`. -/
theorem get_result_eq {pre suf : List Ev} {g : Oid} {sf s0 : State}
    (h : run (pre ++ .mapStep g :: suf) = some sf) (h0 : run pre = some s0)
    {t : Tid} {k : Key} {x : Option Val}
    (hop : opOf (pre ++ .mapStep g :: suf) g = some (t, .get k))
    (hres : Ev.respond g x ∈ pre ++ .mapStep g :: suf) : x = lookup s0.map k ∨ x = none := by
  have hi0 := Inv_run h0
  have h1 := MapValAt_append (.mapStep g :: suf) hi0.closed (Nat.le_refl _) (hi0.mapv k)
  rcases get_reads h (j := pre.length) (by simp) hop hres with h2 | h2
  · exact Or.inl (MapValAt_unique h2 h1)
  · exact Or.inr h2

/-- The witness restricted to the map steps of a prefix (records taken from the full trace). -/
def linPre (evs pre : List Ev) (k : Key) : List HOp :=
  ((stepOids pre).filterMap (hopOf evs)).filter (fun a => a.op.key == k)

theorem linPre_snoc (evs pre : List Ev) (e : Ev) (k : Key) :
    linPre evs (pre ++ [e]) k = linPre evs pre k ++
      (match e with
       | .mapStep o => ((hopOf evs o).toList).filter (fun a => a.op.key == k)
       | _ => []) := by
  simp only [linPre, stepOids_append, List.filterMap_append, List.filter_append]
  congr 1
  cases e with
  | mapStep o =>
    simp only [stepOids, List.filterMap_cons, List.filterMap_nil]
    cases hopOf evs o <;> rfl
  | _ => rfl

/-- In a complete execution every operation that took its map step has a record, with the
operation it was invoked as. -/
theorem hopOf_of_step {pre suf : List Ev} {o : Oid} {sf s0 : State}
    (h : run (pre ++ .mapStep o :: suf) = some sf)
    (hc : complete (pre ++ .mapStep o :: suf) = true) (h0 : run pre = some s0)
    {r : OpRec} (hr : AL.get? s0.ops o = some r) :
    ∃ a, hopOf (pre ++ .mapStep o :: suf) o = some a ∧ a.op = r.op ∧
      Ev.respond o a.result ∈ pre ++ .mapStep o :: suf ∧
      opOf (pre ++ .mapStep o :: suf) o = some (r.tid, r.op) := by
  have hop0 : opOf pre o = some (r.tid, r.op) := by rw [(Inv_run h0).ops_eq, hr]; rfl
  have hop := opOf_append_of_some (.mapStep o :: suf) hop0
  obtain ⟨q, hq⟩ := opOf_some_pos hop
  obtain ⟨x, hx⟩ := complete_spec hc (List.mem_of_getElem? hq)
  obtain ⟨a, ha⟩ := hopOf_exists (List.mem_of_getElem? hq) hx
  obtain ⟨a1, a2⟩ := hopOf_spec ha
  have := invoke_opOf h a1
  rw [hop] at this
  simp only [Option.some.injEq, Prod.mk.injEq] at this
  exact ⟨a, ha, this.2.symm, List.mem_of_getElem? a2, hop⟩

theorem applyOp_ins {c : Option Val} {a : HOp} {k : Key} {v : Val} (h : a.op = .ins k v) :
    applyOp c a = some (some v) := by
  unfold applyOp; rw [h]

theorem applyOp_del {c : Option Val} {a : HOp} {k : Key} (h : a.op = .del k) :
    applyOp c a = some none := by
  unfold applyOp; rw [h]

theorem applyOp_get_none {c : Option Val} {a : HOp} {k : Key} (h : a.op = .get k)
    (hr : a.result = none) : applyOp c a = some c := by
  unfold applyOp; rw [h, hr]

theorem applyOp_get_some {c : Option Val} {a : HOp} {k : Key} {v : Val} (h : a.op = .get k)
    (hr : a.result = some v) (hc : c = some v) : applyOp c a = some c := by
  unfold applyOp; rw [h, hr]; simp [hc]

/-- Replaying the witness along the execution: the cell agrees with the map whenever the
map holds a value (the cell may be stale only while the map holds `none`). -/
theorem replay_linPre {evs : List Ev} {sf : State} (h : run evs = some sf)
    (hc : complete evs = true) (k : Key) :
    ∀ (pre suf : List Ev) (s : State), pre ++ suf = evs → run pre = some s →
      ∃ c, runCell none (linPre evs pre k) = some c ∧
        (lookup s.map k = none ∨ c = lookup s.map k) := by
  intro pre
  induction pre using list_snoc_induction with
  | nil =>
    intro suf s _ hrun
    simp only [run, runFrom, Option.some.injEq] at hrun
    subst hrun
    exact ⟨none, rfl, Or.inl rfl⟩
  | snoc pre e ih =>
    intro suf s heq hrun
    obtain ⟨s0, h0, h1⟩ := (run_snoc pre e s).1 hrun
    have heq' : pre ++ e :: suf = evs := by simpa using heq
    obtain ⟨c, hc1, hc2⟩ := ih (e :: suf) s0 heq' h0
    rw [linPre_snoc]
    cases e with
    | invoke t o op =>
      obtain ⟨_, _, rfl⟩ := step_invoke_some h1
      exact ⟨c, by simpa using hc1, hc2⟩
    | respond o x =>
      obtain ⟨_, _, _, _, rfl⟩ := step_respond_some h1
      exact ⟨c, by simpa using hc1, hc2⟩
    | daemon k' =>
      have := step_daemon_some h1
      subst this
      refine ⟨c, by simpa using hc1, ?_⟩
      simp only [lookup_remove]
      split
      · exact Or.inl rfl
      · exact hc2
    | mapStep o =>
      obtain ⟨r, hr, _, _, hmap⟩ := step_mapStep_some h1
      subst heq'
      obtain ⟨a, ha, haop, hares, hopo⟩ := hopOf_of_step h hc h0 hr
      simp only [ha, Option.toList_some, List.filter_cons, List.filter_nil]
      by_cases hk : a.op.key = k
      · simp only [hk, beq_self_eq_true, if_true, runCell_snoc, hc1, Option.bind_some]
        rw [hmap]
        cases hop : r.op with
        | ins k' v =>
          rw [hop] at haop
          have : k' = k := by rw [haop] at hk; exact hk
          subst this
          exact ⟨some v, applyOp_ins haop, Or.inr (by simp [lookup_store])⟩
        | del k' =>
          rw [hop] at haop
          have : k' = k := by rw [haop] at hk; exact hk
          subst this
          exact ⟨none, applyOp_del haop, Or.inl (by simp [lookup_remove])⟩
        | get k' =>
          rw [hop] at haop
          have : k' = k := by rw [haop] at hk; exact hk
          subst this
          rw [hop] at hopo
          have hx := get_result_eq h h0 hopo hares
          simp only
          cases hres : a.result with
          | none => exact ⟨c, applyOp_get_none haop hres, hc2⟩
          | some v =>
            have hl : lookup s0.map k' = some v := by
              rw [hres] at hx
              rcases hx with hx | hx
              · exact hx.symm
              · simp at hx
            have hcv : c = some v := by
              rcases hc2 with h' | h'
              · rw [hl] at h'; simp at h'
              · rw [h', hl]
            exact ⟨c, applyOp_get_some haop hres hcv, Or.inr (by rw [hcv, hl])⟩
      · have hkb : (a.op.key == k) = false := by simpa using hk
        simp only [hkb, Bool.false_eq_true, if_false, List.append_nil]
        refine ⟨c, hc1, ?_⟩
        rw [hmap]
        rw [haop] at hk
        cases hop : r.op with
        | ins k' v =>
          rw [hop] at hk
          simp only [lookup_store]
          rw [if_neg (by simpa [Op.key] using hk)]
          exact hc2
        | del k' =>
          rw [hop] at hk
          simp only [lookup_remove]
          rw [if_neg (by simpa [Op.key] using hk)]
          exact hc2
        | get k' => exact hc2

theorem linOf_replay {evs : List Ev} {sf : State} (h : run evs = some sf)
    (hc : complete evs = true) (k : Key) : replay none (linOf evs k) = true := by
  obtain ⟨c, hc1, _⟩ := replay_linPre h hc k evs [] sf (by simp) h
  rw [replay_eq_runCell]
  show (runCell none (linPre evs evs k)).isSome = true
  rw [hc1]; rfl

theorem threadsOk_iff (h : List HOp) :
    threadsOk h = true ↔ h.Pairwise (fun a b => a.thread ≠ b.thread ∨
      a.resStamp < b.invStamp ∨ b.resStamp < a.invStamp) := by
  induction h with
  | nil => simp [threadsOk]
  | cons a l ih => simp [threadsOk, ih, List.pairwise_cons, or_assoc]

theorem historyOf_threadsOk {evs : List Ev} {s : State} (h : run evs = some s) :
    threadsOk (historyOf evs) = true := by
  rw [threadsOk_iff]
  unfold historyOf
  refine List.Pairwise.filterMap (R := fun o1 o2 => ∀ a, hopOf evs o1 = some a →
    ∀ b, hopOf evs o2 = some b → (a.thread ≠ b.thread ∨
      a.resStamp < b.invStamp ∨ b.resStamp < a.invStamp)) (hopOf evs)
    (fun o1 o2 hr a ha b hb => hr a ha b hb) ?_
  apply respOids_pairwise
  intro i j o1 o2 x1 x2 hij h1 h2 a ha b hb
  obtain ⟨a1, a2⟩ := hopOf_spec ha
  obtain ⟨b1, b2⟩ := hopOf_spec hb
  obtain ⟨pa, a3, a4, _⟩ := hop_step h ha
  have ei := respond_unique h a2 h1
  have ej := respond_unique h b2 h2
  by_cases ht : a.thread = b.thread
  · right
    rw [ht] at a1
    rcases Nat.lt_trichotomy a.invStamp b.invStamp with hlt | heq | hgt
    · obtain ⟨a', x, c1, c2, c3⟩ := thread_sequential h a1 b1 hlt
      have := respond_unique h c3 a2
      left; omega
    · rw [heq, b1] at a1
      simp only [Option.some.injEq, Ev.invoke.injEq] at a1
      obtain ⟨_, ho, _⟩ := a1
      subst ho
      have := respond_unique h h1 h2
      omega
    · obtain ⟨a', x, c1, c2, c3⟩ := thread_sequential h b1 a1 hgt
      have := respond_unique h c3 b2
      omega
  · exact Or.inl ht

theorem historyOf_stamps {evs : List Ev} {s : State} (h : run evs = some s) :
    ∀ a ∈ historyOf evs, a.invStamp < a.resStamp := by
  intro a ha
  obtain ⟨o, _, ho⟩ := List.mem_filterMap.1 ha
  obtain ⟨p, h1, h2, _⟩ := hop_step h ho
  omega

/-- **Completeness of the acceptor w.r.t. model R.** The history recorded from any complete
well-formed execution is accepted. -/
theorem acceptR_complete_aux {evs : List Ev} (hwf : WF evs) (hc : complete evs = true) :
    acceptR (historyOf evs) = true := by
  obtain ⟨s, h⟩ := WF_iff.1 hwf
  simp only [acceptR, wfHistory, Bool.and_eq_true, List.all_eq_true, decide_eq_true_eq]
  refine ⟨⟨historyOf_stamps h, historyOf_threadsOk h⟩, ?_⟩
  intro k _
  rw [acceptKey_iff]
  refine ⟨linOf evs k, ?_⟩
  simp only [checkLin, Bool.and_eq_true]
  exact ⟨⟨List.isPerm_iff.2 (linOf_perm h hc k), (orderOk_iff _).2 (linOf_pairwise h k)⟩,
    linOf_replay h hc k⟩

end ConcR
end MiniMoka
