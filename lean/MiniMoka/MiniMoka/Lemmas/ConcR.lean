/-
  Lemmas about model R (`MiniMoka/ConcR.lean`): the state/trace invariant, the
  order lemmas, and the soundness (and completeness) of the acceptor `acceptR`.
-/
import MiniMoka.ConcR

namespace MiniMoka
namespace ConcR

/-! ## Association lists -/

theorem AL_get?_put {β : Type} (m : List (Nat × β)) (k k' : Nat) (x : β) :
    AL.get? (AL.put m k x) k' = if k = k' then some x else AL.get? m k' := by
  induction m with
  | nil => simp [AL.put, AL.get?]
  | cons p rest ih =>
    obtain ⟨a, b⟩ := p
    simp only [AL.put]
    split <;> simp only [AL.get?, ih] <;> grind

theorem AL_get?_mem {β : Type} (m : List (Nat × β)) (k : Nat) (x : β)
    (h : AL.get? m k = some x) : (k, x) ∈ m := by
  induction m with
  | nil => simp [AL.get?] at h
  | cons p rest ih =>
    obtain ⟨a, b⟩ := p
    simp only [AL.get?] at h
    split at h
    · simp_all
    · simp [ih h]

theorem lookup_remove (m : KV) (k k' : Key) :
    lookup (remove m k) k' = if k = k' then none else lookup m k' := by
  induction m with
  | nil => simp [lookup, remove, AL.get?]
  | cons p rest ih =>
    obtain ⟨a, b⟩ := p
    simp only [lookup, remove, List.filter] at ih ⊢
    by_cases hak : a = k
    · subst hak
      simp only [ne_eq, not_true_eq_false, decide_false]
      rw [ih]; simp only [AL.get?]; split <;> simp_all
    · simp only [ne_eq, hak, not_false_eq_true, decide_true, AL.get?]
      rw [ih]; split <;> split <;> simp_all

theorem lookup_store (m : KV) (k k' : Key) (v : Val) :
    lookup (store m k v) k' = if k = k' then some v else lookup m k' := by
  have h := lookup_remove m k k'
  simp only [lookup] at h
  simp only [lookup, store, AL.get?, h]
  split <;> simp_all

/-! ## The fold -/

theorem runFrom_append (s : State) (l1 l2 : List Ev) :
    runFrom s (l1 ++ l2) = (runFrom s l1).bind (fun s' => runFrom s' l2) := by
  induction l1 generalizing s with
  | nil => simp [runFrom]
  | cons e es ih =>
    simp only [List.cons_append, runFrom]
    cases step s e with
    | none => simp
    | some s' => simp [ih]

theorem runFrom_eq_foldlM (s : State) (l : List Ev) : runFrom s l = l.foldlM step s := by
  induction l generalizing s with
  | nil => simp [runFrom]
  | cons e es ih =>
    simp only [runFrom, List.foldlM_cons]
    cases step s e with
    | none => simp
    | some s' => simp [ih]

theorem run_snoc (pre : List Ev) (e : Ev) (s' : State) :
    run (pre ++ [e]) = some s' ↔ ∃ s, run pre = some s ∧ step s e = some s' := by
  unfold run
  rw [runFrom_append]
  cases h : runFrom State.init pre with
  | none => simp
  | some s =>
    simp only [Option.bind_some, runFrom]
    cases hs : step s e <;> simp [hs]

/-- Prefixes of a well-formed execution are well-formed, and the event at position `p`
is enabled in the state reached by the first `p` events. -/
theorem run_prefix {evs : List Ev} {s : State} (h : run evs = some s) (p : Nat) :
    ∃ sp, run (evs.take p) = some sp := by
  have : evs = evs.take p ++ evs.drop p := (List.take_append_drop p evs).symm
  rw [this] at h
  unfold run at h ⊢
  rw [runFrom_append] at h
  cases h' : runFrom State.init (List.take p evs) with
  | none => simp [h'] at h
  | some sp => exact ⟨sp, rfl⟩

theorem run_prefix_step {evs : List Ev} {s : State} (h : run evs = some s) (p : Nat) (e : Ev)
    (he : evs[p]? = some e) :
    ∃ sp sp', run (evs.take p) = some sp ∧ step sp e = some sp' ∧
      run (evs.take (p + 1)) = some sp' := by
  obtain ⟨sp', hsp'⟩ := run_prefix h (p + 1)
  have hlt : p < evs.length := by
    rcases Nat.lt_or_ge p evs.length with h1 | h1
    · exact h1
    · simp [List.getElem?_eq_none h1] at he
  have : evs.take (p + 1) = evs.take p ++ [e] := by
    rw [List.take_add_one, he]; rfl
  rw [this, run_snoc] at hsp'
  obtain ⟨sp, h1, h2⟩ := hsp'
  exact ⟨sp, sp', h1, h2, by rw [this, run_snoc]; exact ⟨sp, h1, h2⟩⟩

/-! ## `opOf`, `effect` and their stability under extension of the trace -/

theorem opOf_append (l1 l2 : List Ev) (o : Oid) :
    opOf (l1 ++ l2) o = (opOf l1 o).or (opOf l2 o) := by
  induction l1 with
  | nil => simp [opOf]
  | cons e es ih =>
    cases e <;> simp only [List.cons_append, opOf, ih]
    split <;> simp

theorem opOf_append_of_some {l1 : List Ev} {o : Oid} {x : Tid × Op} (l2 : List Ev)
    (h : opOf l1 o = some x) : opOf (l1 ++ l2) o = some x := by
  simp [opOf_append, h]

theorem opOf_some_pos {l : List Ev} {o : Oid} {t : Tid} {op : Op}
    (h : opOf l o = some (t, op)) : ∃ q : Nat, l[q]? = some (Ev.invoke t o op) := by
  induction l with
  | nil => simp [opOf] at h
  | cons e es ih =>
    cases e with
    | invoke t' o' op' =>
      simp only [opOf] at h
      split at h
      · refine ⟨0, ?_⟩; simp_all
      · obtain ⟨q, hq⟩ := ih h; exact ⟨q + 1, by simpa using hq⟩
    | _ =>
      simp only [opOf] at h
      obtain ⟨q, hq⟩ := ih h; exact ⟨q + 1, by simpa using hq⟩

theorem opOf_none_not_mem {l : List Ev} {o : Oid} (h : opOf l o = none) (t : Tid) (op : Op) :
    Ev.invoke t o op ∉ l := by
  induction l with
  | nil => simp
  | cons e es ih =>
    cases e with
    | invoke t' o' op' =>
      simp only [opOf] at h
      split at h
      · simp at h
      · simp only [List.mem_cons, Ev.invoke.injEq, not_or]
        exact ⟨by grind, ih h⟩
    | _ =>
      simp only [opOf] at h
      simp [ih h]

/-- Every map step in the trace belongs to an operation invoked in the trace. -/
def Closed (l : List Ev) : Prop := ∀ o, Ev.mapStep o ∈ l → opOf l o ≠ none

theorem effect_append {l : List Ev} (l' : List Ev) {e : Ev} (hc : Closed l) (he : e ∈ l) :
    effect (l ++ l') e = effect l e := by
  cases e with
  | mapStep o =>
    have := hc o he
    cases h : opOf l o with
    | none => exact absurd h this
    | some x => simp only [effect, opOf_append_of_some l' h, h]
  | _ => rfl

theorem writesKey_append {l : List Ev} (l' : List Ev) {e : Ev} (hc : Closed l) (he : e ∈ l)
    (k : Key) : writesKey (l ++ l') e k = writesKey l e k := by
  simp only [writesKey, effect_append l' hc he]

theorem getElem?_append_mem {l : List Ev} (l' : List Ev) {m : Nat} (hm : m < l.length) :
    (l ++ l')[m]? = l[m]? ∧ ∃ e, l[m]? = some e ∧ e ∈ l := by
  refine ⟨List.getElem?_append_left hm, l[m], ?_, List.getElem_mem hm⟩
  simp [hm]

theorem NoWriteIn_append {l : List Ev} (l' : List Ev) (hc : Closed l) (k : Key) (lo hi : Nat)
    (hhi : hi ≤ l.length) : NoWriteIn (l ++ l') k lo hi ↔ NoWriteIn l k lo hi := by
  constructor
  · intro h m h1 h2 e he
    obtain ⟨h3, e', h4, h5⟩ := getElem?_append_mem (l := l) l' (m := m) (by omega)
    have : e' = e := by simp_all
    subst this
    have := h m h1 h2 e' (by rw [h3]; exact he)
    rwa [writesKey_append l' hc h5] at this
  · intro h m h1 h2 e he
    obtain ⟨h3, e', h4, h5⟩ := getElem?_append_mem (l := l) l' (m := m) (by omega)
    rw [h3] at he
    have : e' = e := by simp_all
    subst this
    rw [writesKey_append l' hc h5]
    exact h m h1 h2 e' he

/-- "The value of key `k` just before position `j` is `x`": no write to `k` before `j` and
`x = none`, or the last write to `k` before `j` has effect `(k, x)`. -/
def MapValAt (evs : List Ev) (k : Key) (j : Nat) (x : Option Val) : Prop :=
  (x = none ∧ NoWriteIn evs k 0 j) ∨
  (∃ i e, i < j ∧ evs[i]? = some e ∧ effect evs e = some (k, x) ∧ NoWriteIn evs k (i + 1) j)

theorem MapValAt_append {l : List Ev} (l' : List Ev) (hc : Closed l) {k : Key} {j : Nat}
    {x : Option Val} (hj : j ≤ l.length) (h : MapValAt l k j x) : MapValAt (l ++ l') k j x := by
  rcases h with ⟨h1, h2⟩ | ⟨i, e, h1, h2, h3, h4⟩
  · exact Or.inl ⟨h1, (NoWriteIn_append l' hc k 0 j hj).2 h2⟩
  · refine Or.inr ⟨i, e, h1, ?_, ?_, (NoWriteIn_append l' hc k (i + 1) j hj).2 h4⟩
    · rw [List.getElem?_append_left (by omega)]; exact h2
    · rw [effect_append l' hc (List.mem_of_getElem? h2)]; exact h3

theorem MapValAt_snoc_skip {pre : List Ev} {e : Ev} (hc : Closed pre) {k : Key}
    {x : Option Val} (hw : writesKey (pre ++ [e]) e k = false)
    (h : MapValAt pre k pre.length x) : MapValAt (pre ++ [e]) k (pre.length + 1) x := by
  have h' := MapValAt_append [e] hc (Nat.le_refl _) h
  have hlast : ∀ m, pre.length ≤ m → m < pre.length + 1 → ∀ e', (pre ++ [e])[m]? = some e' →
      writesKey (pre ++ [e]) e' k = false := by
    intro m h1 h2 e' he'
    have : m = pre.length := by omega
    subst this
    simp at he'
    subst he'; exact hw
  rcases h' with ⟨h1, h2⟩ | ⟨i, e0, h1, h2, h3, h4⟩
  · refine Or.inl ⟨h1, ?_⟩
    intro m hm1 hm2 e' he'
    rcases Nat.lt_or_ge m pre.length with hlt | hge
    · exact h2 m hm1 hlt e' he'
    · exact hlast m hge hm2 e' he'
  · refine Or.inr ⟨i, e0, by omega, h2, h3, ?_⟩
    intro m hm1 hm2 e' he'
    rcases Nat.lt_or_ge m pre.length with hlt | hge
    · exact h4 m hm1 hlt e' he'
    · exact hlast m hge hm2 e' he'

theorem MapValAt_snoc_write {pre : List Ev} {e : Ev} {k : Key} {y : Option Val}
    (he : effect (pre ++ [e]) e = some (k, y)) :
    MapValAt (pre ++ [e]) k (pre.length + 1) y := by
  refine Or.inr ⟨pre.length, e, by omega, by simp, he, ?_⟩
  intro m h1 h2; omega

theorem writesKey_of_effect {evs : List Ev} {e : Ev} {k k' : Key} {y : Option Val}
    (he : effect evs e = some (k, y)) : writesKey evs e k' = (k == k') := by
  simp [writesKey, he]

theorem writesKey_of_effect_none {evs : List Ev} {e : Ev} {k' : Key}
    (he : effect evs e = none) : writesKey evs e k' = false := by
  simp [writesKey, he]

/-! ## Inversion of `step` -/

theorem step_invoke_some {s s' : State} {t : Tid} {o : Oid} {op : Op}
    (h : step s (.invoke t o op) = some s') :
    AL.get? s.ops o = none ∧ threadIdle s t = true ∧
      s' = { s with ops := AL.put s.ops o ⟨t, op, .invoked, none⟩ } := by
  simp only [step] at h
  split at h
  · rename_i hc
    simp only [Option.some.injEq] at h
    exact ⟨by simpa using hc.1, hc.2, h.symm⟩
  · simp at h

theorem step_mapStep_some {s s' : State} {o : Oid} (h : step s (.mapStep o) = some s') :
    ∃ r, AL.get? s.ops o = some r ∧ r.phase = .invoked ∧
      s'.ops = AL.put s.ops o
        { r with phase := .stepped,
                 ret := match r.op with | .get k => lookup s.map k | _ => r.ret } ∧
      s'.map = match r.op with
        | .ins k v => store s.map k v | .del k => remove s.map k | .get _ => s.map := by
  simp only [step] at h
  split at h
  · simp at h
  · rename_i r hr
    split at h
    · rename_i hp
      refine ⟨r, hr, hp, ?_⟩
      split at h <;> simp only [Option.some.injEq] at h <;> subst h <;> simp_all
    · simp at h

theorem step_respond_some {s s' : State} {o : Oid} {x : Option Val}
    (h : step s (.respond o x) = some s') :
    ∃ r, AL.get? s.ops o = some r ∧ r.phase = .stepped ∧ r.ret = x ∧
      s' = { s with ops := AL.put s.ops o { r with phase := .done } } := by
  simp only [step] at h
  split at h
  · simp at h
  · rename_i r hr
    split at h
    · rename_i hp
      simp only [Option.some.injEq] at h
      exact ⟨r, hr, hp.1, hp.2, h.symm⟩
    · simp at h

theorem step_daemon_some {s s' : State} {k : Key} (h : step s (.daemon k) = some s') :
    s' = { s with map := remove s.map k } := by
  simp only [step, Option.some.injEq] at h; exact h.symm

/-! ## The state/trace invariant -/

structure Inv (pre : List Ev) (s : State) : Prop where
  ops_eq : ∀ o, opOf pre o = (AL.get? s.ops o).map (fun r => (r.tid, r.op))
  step_rec : ∀ o, Ev.mapStep o ∈ pre → ∃ r, AL.get? s.ops o = some r ∧ r.phase ≠ .invoked
  stepped : ∀ o r, AL.get? s.ops o = some r → r.phase ≠ .invoked →
    ∃ j : Nat, pre[j]? = some (Ev.mapStep o) ∧ ∀ k, r.op = .get k → MapValAt pre k j r.ret
  resp_rec : ∀ o x, Ev.respond o x ∈ pre →
    ∃ r, AL.get? s.ops o = some r ∧ r.phase = .done ∧ r.ret = x
  done_resp : ∀ o r, AL.get? s.ops o = some r → r.phase = .done → Ev.respond o r.ret ∈ pre
  mapv : ∀ k, MapValAt pre k pre.length (lookup s.map k)

theorem Inv.closed {pre : List Ev} {s : State} (h : Inv pre s) : Closed pre := by
  intro o ho
  obtain ⟨r, hr, _⟩ := h.step_rec o ho
  rw [h.ops_eq, hr]; simp

theorem Inv_init : Inv [] State.init := by
  refine ⟨?_, ?_, ?_, ?_, ?_, ?_⟩
  · intro o; simp [opOf, State.init, AL.get?]
  · intro o h; simp at h
  · intro o r h; simp [State.init, AL.get?] at h
  · intro o x h; simp at h
  · intro o r h; simp [State.init, AL.get?] at h
  · intro k; left; simp [State.init, lookup, AL.get?, NoWriteIn]

end ConcR
end MiniMoka
