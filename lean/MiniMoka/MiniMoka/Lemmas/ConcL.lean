/-
  Lemmas for model L (lock discipline ⇒ no deadlock). See `MiniMoka/ConcL.lean`.

  Contents
   * `Inv`: the system invariant (every thread's remaining code is well-formed for the
     locks it holds; locks are exclusive; threads `≥ n` are idle) and its preservation;
   * `no_deadlock_of_inv`: the maximal-rank argument;
   * `step_measure_lt`, `all_return_of_inv`: every step decreases the total remaining
     code, hence every run is finite and can always be completed;
   * `check_sound`: the checker of `ConcL.lean` implies `CodeWf` of every unfolding.
-/
import MiniMoka.ConcL

namespace MiniMoka.ConcL

set_option linter.unusedSectionVars false

variable {L : Type} [DecidableEq L]

/-! ## Invariant -/

structure Inv (rank : L → Nat) (n : Nat) (s : State L) : Prop where
  wf : ∀ i, CodeWf rank (s i).held (s i).code
  excl : ∀ i j l, l ∈ (s i).held → l ∈ (s j).held → i = j
  idle : ∀ i, n ≤ i → (s i).code = .done

theorem held_nil_of_done {rank : L → Nat} {n : Nat} {s : State L} (hI : Inv rank n s)
    {i : Nat} (hd : (s i).code = .done) : (s i).held = [] := by
  have h := hI.wf i
  rw [hd] at h
  simpa [CodeWf] using h

theorem State.set_self (s : State L) (i : Nat) (t : Thread L) : s.set i t i = t := by
  simp [State.set]

theorem State.set_ne (s : State L) {i j : Nat} (t : Thread L) (h : j ≠ i) :
    s.set i t j = s j := by
  simp [State.set, h]

theorem inv_step {rank : L → Nat} {n : Nat} {s s' : State L} (hI : Inv rank n s)
    (hs : Step s s') : Inv rank n s' := by
  cases hs with
  | @mk i t' ht =>
    generalize hsi : s i = t at ht
    have hwf := hI.wf i
    rw [hsi] at hwf
    have hexcl : ∀ j l, j ≠ i → l ∈ t.held → l ∈ (s j).held → False := by
      intro j l hj h1 h2
      have : l ∈ (s i).held := by rw [hsi]; exact h1
      exact hj (hI.excl j i l h2 this)
    -- facts about the new thread, by cases on the step
    have key : CodeWf rank t'.held t'.code ∧
        (∀ j l, j ≠ i → l ∈ t'.held → l ∈ (s j).held → False) ∧ t.code ≠ .done := by
      cases ht with
      | @acq h l k hfree =>
        simp only [CodeWf] at hwf
        refine ⟨hwf.2, ?_, by simp⟩
        intro j x hj h1 h2
        rcases List.mem_cons.1 h1 with rfl | h1
        · exact hfree ⟨j, h2⟩
        · exact hexcl j x hj h1 h2
      | @rel h l k =>
        simp only [CodeWf] at hwf
        refine ⟨hwf.2, ?_, by simp⟩
        intro j x hj h1 h2
        exact hexcl j x hj (List.mem_of_mem_erase h1) h2
      | @tryOk h l a b hfree =>
        simp only [CodeWf] at hwf
        refine ⟨hwf.1, ?_, by simp⟩
        intro j x hj h1 h2
        rcases List.mem_cons.1 h1 with rfl | h1
        · exact hfree ⟨j, h2⟩
        · exact hexcl j x hj h1 h2
      | @tryFail h l a b _ =>
        simp only [CodeWf] at hwf
        exact ⟨hwf.2, fun j x hj h1 h2 => hexcl j x hj h1 h2, by simp⟩
    obtain ⟨k1, k2, k3⟩ := key
    refine ⟨?_, ?_, ?_⟩
    · intro j
      by_cases hj : j = i
      · subst hj; rw [State.set_self]; exact k1
      · rw [State.set_ne _ _ hj]; exact hI.wf j
    · intro a b l ha hb
      by_cases haI : a = i <;> by_cases hbI : b = i
      · rw [haI, hbI]
      · subst haI
        rw [State.set_self] at ha
        rw [State.set_ne _ _ hbI] at hb
        exact (k2 b l hbI ha hb).elim
      · subst hbI
        rw [State.set_self] at hb
        rw [State.set_ne _ _ haI] at ha
        exact (k2 a l haI hb ha).elim
      · rw [State.set_ne _ _ haI] at ha
        rw [State.set_ne _ _ hbI] at hb
        exact hI.excl a b l ha hb
    · intro j hj
      by_cases hji : j = i
      · subst hji
        have := hI.idle j hj
        rw [hsi] at this
        exact (k3 this).elim
      · rw [State.set_ne _ _ hji]; exact hI.idle j hj

theorem inv_reach {rank : L → Nat} {n : Nat} {s s' : State L} (hI : Inv rank n s)
    (hr : Reach s s') : Inv rank n s' := by
  induction hr with
  | refl => exact hI
  | step _ hs ih => exact inv_step ih hs

theorem inv_init {rank : L → Nat} {n : Nat} {s0 : State L}
    (hinit : ∀ i, (s0 i).held = [] ∧ CodeWf rank [] (s0 i).code)
    (hidle : ∀ i, n ≤ i → (s0 i).code = .done) : Inv rank n s0 := by
  refine ⟨?_, ?_, hidle⟩
  · intro i
    rw [(hinit i).1]; exact (hinit i).2
  · intro i j l hi
    rw [(hinit i).1] at hi
    exact absurd hi (by simp)

theorem Reach.head {s s1 s' : State L} (h : Step s s1) (hr : Reach s1 s') : Reach s s' := by
  induction hr with
  | refl => exact Reach.step (Reach.refl _) h
  | step _ hs ih => exact Reach.step ih hs

theorem Reach.trans {s s1 s' : State L} (h : Reach s s1) (hr : Reach s1 s') : Reach s s' := by
  induction hr with
  | refl => exact h
  | step _ hs ih => exact Reach.step ih hs

/-! ## No deadlock -/

/-- Rank of the lock a thread is about to block on (0 if its next event is not a
blocking acquire). -/
def waitRank (rank : L → Nat) : Code L → Nat
  | .acq l _ => rank l
  | _ => 0

theorem exists_max (p : Nat → Prop) (f : Nat → Nat) :
    ∀ n, (∃ i, i < n ∧ p i) → ∃ i, i < n ∧ p i ∧ ∀ j, j < n → p j → f j ≤ f i := by
  intro n
  induction n with
  | zero => rintro ⟨i, hi, _⟩; omega
  | succ n ih =>
    rintro ⟨i, hi, hp⟩
    by_cases hprev : ∃ i, i < n ∧ p i
    · obtain ⟨m, hm, hpm, hmax⟩ := ih hprev
      by_cases hn : p n ∧ f m < f n
      · refine ⟨n, by omega, hn.1, ?_⟩
        intro j hj hpj
        by_cases hjn : j = n
        · subst hjn; exact Nat.le_refl _
        · have := hmax j (by omega) hpj; omega
      · refine ⟨m, by omega, hpm, ?_⟩
        intro j hj hpj
        by_cases hjn : j = n
        · subst hjn
          have : ¬ f m < f j := fun h => hn ⟨hpj, h⟩
          omega
        · exact hmax j (by omega) hpj
    · have hin : i = n := by
        by_cases h : i = n
        · exact h
        · exact (hprev ⟨i, by omega, hp⟩).elim
      subst hin
      refine ⟨i, by omega, hp, ?_⟩
      intro j hj hpj
      by_cases hjn : j = i
      · subst hjn; exact Nat.le_refl _
      · exact (hprev ⟨j, by omega, hpj⟩).elim

/-- A thread that is not finished and cannot take a step is blocked on a held lock. -/
theorem blocked_of_no_step {s : State L} {i : Nat} (hnd : (s i).code ≠ .done)
    (hno : ¬ ∃ t', TStep s (s i) t') :
    ∃ l k, (s i).code = .acq l k ∧ Holds s l := by
  rcases hsi : s i with ⟨h, c⟩
  rw [hsi] at hnd hno
  cases c with
  | done => exact (hnd rfl).elim
  | acq l k =>
    by_cases hh : Holds s l
    · exact ⟨l, k, rfl, hh⟩
    · exact (hno ⟨_, TStep.acq hh⟩).elim
  | rel l k => exact (hno ⟨_, TStep.rel⟩).elim
  | tryL l a b =>
    by_cases hh : Holds s l
    · exact (hno ⟨_, TStep.tryFail hh⟩).elim
    · exact (hno ⟨_, TStep.tryOk hh⟩).elim

theorem no_deadlock_of_inv {rank : L → Nat} {n : Nat} {s : State L} (hI : Inv rank n s)
    (hun : ∃ i, (s i).code ≠ .done) : ∃ s', Step s s' := by
  by_cases hstep : ∃ i t', TStep s (s i) t'
  · obtain ⟨i, t', ht⟩ := hstep
    exact ⟨_, Step.mk i ht⟩
  · exfalso
    have hblocked : ∀ i, (s i).code ≠ .done → ∃ l k, (s i).code = .acq l k ∧ Holds s l :=
      fun i hnd => blocked_of_no_step hnd (fun ⟨t', ht⟩ => hstep ⟨i, t', ht⟩)
    have hlt : ∀ i, (s i).code ≠ .done → i < n := by
      intro i hnd
      by_cases h : i < n
      · exact h
      · exact (hnd (hI.idle i (by omega))).elim
    obtain ⟨i0, hi0⟩ := hun
    obtain ⟨i, _, hpi, hmax⟩ :=
      exists_max (fun i => (s i).code ≠ .done) (fun i => waitRank rank (s i).code) n
        ⟨i0, hlt i0 hi0, hi0⟩
    obtain ⟨l, k, hcode, j, hj⟩ := hblocked i hpi
    have hjnd : (s j).code ≠ .done := by
      intro hd
      have := held_nil_of_done hI hd
      rw [this] at hj
      exact absurd hj (by simp)
    obtain ⟨l', k', hcode', _⟩ := hblocked j hjnd
    have hwf := hI.wf j
    rw [hcode'] at hwf
    simp only [CodeWf] at hwf
    have h1 : rank l < rank l' := hwf.1 l hj
    have h2 := hmax j (hlt j hjnd) hjnd
    simp only [hcode, hcode', waitRank] at h2
    omega

/-! ## Progress measure -/

theorem sumTo_le {f g : Nat → Nat} (h : ∀ j, g j ≤ f j) : ∀ n, sumTo g n ≤ sumTo f n := by
  intro n
  induction n with
  | zero => simp [sumTo]
  | succ n ih => simp only [sumTo]; have := h n; omega

theorem sumTo_lt {f g : Nat → Nat} (h : ∀ j, g j ≤ f j) {i : Nat} (hi : g i < f i) :
    ∀ n, i < n → sumTo g n < sumTo f n := by
  intro n
  induction n with
  | zero => intro h0; omega
  | succ n ih =>
    intro hin
    simp only [sumTo]
    by_cases hn : i = n
    · subst hn
      have := sumTo_le h i
      omega
    · have := ih (by omega)
      have := h n
      omega

theorem tstep_size_lt {s : State L} {t t' : Thread L} (h : TStep s t t') :
    t'.code.size < t.code.size := by
  cases h <;> simp only [Code.size] <;> omega

theorem step_measure_lt {rank : L → Nat} {n : Nat} {s s' : State L} (hI : Inv rank n s)
    (hs : Step s s') : measure n s' < measure n s := by
  cases hs with
  | @mk i t' ht =>
    have hlt := tstep_size_lt ht
    have hin : i < n := by
      by_cases h : i < n
      · exact h
      · have := hI.idle i (by omega)
        rw [this] at hlt
        simp [Code.size] at hlt
    unfold measure
    apply sumTo_lt (i := i) _ _ n hin
    · intro j
      by_cases hj : j = i
      · subst hj; simp only [State.set_self]; omega
      · simp only [State.set_ne _ _ hj]; exact Nat.le_refl _
    · simp only [State.set_self]; exact hlt

theorem all_return_of_inv {rank : L → Nat} {n : Nat} :
    ∀ (m : Nat) (s : State L), Inv rank n s → measure n s ≤ m →
      ∃ s', Reach s s' ∧ ∀ i, (s' i).code = .done := by
  intro m
  induction m with
  | zero =>
    intro s hI hm
    by_cases hall : ∀ i, (s i).code = .done
    · exact ⟨s, Reach.refl s, hall⟩
    · have hun : ∃ i, (s i).code ≠ .done := Classical.not_forall.1 hall
      obtain ⟨s1, hs1⟩ := no_deadlock_of_inv hI hun
      have := step_measure_lt hI hs1
      omega
  | succ m ih =>
    intro s hI hm
    by_cases hall : ∀ i, (s i).code = .done
    · exact ⟨s, Reach.refl s, hall⟩
    · have hun : ∃ i, (s i).code ≠ .done := Classical.not_forall.1 hall
      obtain ⟨s1, hs1⟩ := no_deadlock_of_inv hI hun
      have hlt := step_measure_lt hI hs1
      obtain ⟨s', hr, hd⟩ := ih s1 (inv_step hI hs1) (by omega)
      exact ⟨s', Reach.head hs1 hr, hd⟩

/-- Length-indexed runs, to state that every run is bounded. -/
inductive ReachN : Nat → State L → State L → Prop where
  | refl (s) : ReachN 0 s s
  | step {m s s' s''} : ReachN m s s' → Step s' s'' → ReachN (m + 1) s s''

theorem ReachN.reach {m : Nat} {s s' : State L} (h : ReachN m s s') : Reach s s' := by
  induction h with
  | refl => exact Reach.refl _
  | step _ hs ih => exact Reach.step ih hs

theorem run_length_le {rank : L → Nat} {n : Nat} {s s' : State L} {m : Nat}
    (hI : Inv rank n s) (h : ReachN m s s') : m + measure n s' ≤ measure n s := by
  induction h with
  | refl => omega
  | step hr hs ih =>
    have h1 := step_measure_lt (inv_reach hI hr.reach) hs
    have h2 := ih hI
    omega

/-! ## Soundness of the checker -/

section Check
variable {κ : Type} [DecidableEq κ]

theorem check_loop_irrel (rank : κ → Nat) (n m : Nat) (p : Prog κ) (h : List κ) :
    check rank (.loop n p) h = check rank (.loop m p) h := by
  simp [check]

theorem check_inv_of_loop {rank : κ → Nat} {n : Nat} {p : Prog κ} {h hc' : List κ}
    (hc : check rank (.loop n p) h = some hc') : check rank p h = some h ∧ hc' = h := by
  simp only [check] at hc
  split at hc
  · rename_i a ha
    split at hc
    · rename_i hah
      subst hah
      exact ⟨ha, (Option.some.inj hc).symm⟩
    · exact absurd hc (by simp)
  · exact absurd hc (by simp)

theorem check_inv_of_star {rank : κ → Nat} {p : Prog κ} {h hc' : List κ}
    (hc : check rank (.star p) h = some hc') : check rank p h = some h ∧ hc' = h := by
  simp only [check] at hc
  split at hc
  · rename_i a ha
    split at hc
    · rename_i hah
      subst hah
      exact ⟨ha, (Option.some.inj hc).symm⟩
    · exact absurd hc (by simp)
  · exact absurd hc (by simp)

theorem check_alt {rank : κ → Nat} {p q : Prog κ} {h hc' : List κ}
    (hc : check rank (.alt p q) h = some hc') :
    check rank p h = some hc' ∧ check rank q h = some hc' := by
  simp only [check] at hc
  split at hc
  · rename_i a b ha hb
    split at hc
    · rename_i hab
      subst hab
      have := Option.some.inj hc
      subst this
      exact ⟨ha, hb⟩
    · exact absurd hc (by simp)
  · exact absurd hc (by simp)

theorem check_try {rank : κ → Nat} {c : κ} {p q : Prog κ} {h hc' : List κ}
    (hc : check rank (.tryL c p q) h = some hc') :
    check rank p (c :: h) = some hc' ∧ check rank q h = some hc' := by
  simp only [check] at hc
  split at hc
  · rename_i a b ha hb
    split at hc
    · rename_i hab
      subst hab
      have := Option.some.inj hc
      subst this
      exact ⟨ha, hb⟩
    · exact absurd hc (by simp)
  · exact absurd hc (by simp)

theorem check_seq {rank : κ → Nat} {p q : Prog κ} {h hc' : List κ}
    (hc : check rank (.seq p q) h = some hc') :
    ∃ h1, check rank p h = some h1 ∧ check rank q h1 = some hc' := by
  simp only [check] at hc
  split at hc
  · rename_i h1 hp
    exact ⟨h1, hp, hc⟩
  · exact absurd hc (by simp)

/-- Soundness: if the class-level check accepts `p` from the classes of `h`, then every
unfolding of `p` (any branches, loop counts, lock instances) ends holding locks whose
classes are the predicted ones, and is well-formed provided the continuation is. -/
theorem check_sound (rank : κ → Nat) (cls : L → κ) {h h' : List L} {p : Prog κ}
    {k c : Code L} (hu : Unfolds cls h p h' k c) :
    ∀ hc', check rank p (h.map cls) = some hc' →
      h'.map cls = hc' ∧
      (CodeWf (fun l => rank (cls l)) h' k → CodeWf (fun l => rank (cls l)) h c) := by
  induction hu with
  | skip =>
    intro hc' hc
    simp only [check] at hc
    exact ⟨Option.some.inj hc, id⟩
  | sleep =>
    intro hc' hc
    simp only [check] at hc
    split at hc
    · exact ⟨Option.some.inj hc, id⟩
    · exact absurd hc (by simp)
  | @acq h k c l hl =>
    intro hc' hc
    simp only [check] at hc
    split at hc
    · rename_i hall
      refine ⟨?_, ?_⟩
      · rw [← Option.some.inj hc]; simp [hl]
      · intro hk
        simp only [CodeWf]
        refine ⟨?_, hk⟩
        intro x hx
        rw [List.all_eq_true] at hall
        have := hall (cls x) (List.mem_map.2 ⟨x, hx, rfl⟩)
        rw [hl]
        simpa using this
    · exact absurd hc (by simp)
  | @rel h k c l hl =>
    intro hc' hc
    simp only [check, List.map_cons, hl, if_true] at hc
    refine ⟨Option.some.inj hc, ?_⟩
    intro hk
    simp only [CodeWf]
    exact ⟨by simp, by simpa using hk⟩
  | @seq h h1 h2 p q k c1 c _ _ ih1 ih2 =>
    intro hc' hc
    obtain ⟨x, hp, hq⟩ := check_seq hc
    obtain ⟨e1, w1⟩ := ih1 x hp
    rw [← e1] at hq
    obtain ⟨e2, w2⟩ := ih2 hc' hq
    exact ⟨e2, fun hk => w1 (w2 hk)⟩
  | altL _ ih =>
    intro hc' hc
    exact ih hc' (check_alt hc).1
  | altR _ ih =>
    intro hc' hc
    exact ih hc' (check_alt hc).2
  | loopZ =>
    intro hc' hc
    exact ⟨(check_inv_of_loop hc).2.symm, id⟩
  | @loopS h h1 h2 n p k c1 c _ _ ih1 ih2 =>
    intro hc' hc
    obtain ⟨hp, he⟩ := check_inv_of_loop hc
    obtain ⟨e1, w1⟩ := ih1 _ hp
    have hc2 : check rank (.loop n p) (h1.map cls) = some hc' := by
      rw [e1, check_loop_irrel rank n (n + 1)]; exact hc
    obtain ⟨e2, w2⟩ := ih2 hc' hc2
    exact ⟨e2, fun hk => w1 (w2 hk)⟩
  | starZ =>
    intro hc' hc
    exact ⟨(check_inv_of_star hc).2.symm, id⟩
  | @starS h h1 h2 p k c1 c _ _ ih1 ih2 =>
    intro hc' hc
    obtain ⟨hp, he⟩ := check_inv_of_star hc
    obtain ⟨e1, w1⟩ := ih1 _ hp
    have hc2 : check rank (.star p) (h1.map cls) = some hc' := by
      rw [e1]; exact hc
    obtain ⟨e2, w2⟩ := ih2 hc' hc2
    exact ⟨e2, fun hk => w1 (w2 hk)⟩
  | @tryL h h' cl ok fail k c1 c2 l hl _ _ ih1 ih2 =>
    intro hc' hc
    obtain ⟨hok, hfail⟩ := check_try hc
    have hok' : check rank ok ((l :: h).map cls) = some hc' := by
      simp only [List.map_cons, hl]; exact hok
    obtain ⟨e1, w1⟩ := ih1 hc' hok'
    obtain ⟨_, w2⟩ := ih2 hc' hfail
    refine ⟨e1, ?_⟩
    intro hk
    simp only [CodeWf]
    exact ⟨w1 hk, w2 hk⟩

end Check

/-! ## A computable default unfolding (used only for non-vacuity examples) -/

/-- One particular unfolding, computed: instance 0 everywhere, the right arm of every
branch (for `opt p` that is `p`), zero rounds of every loop. Returns the resulting stack
and the code as a function of the continuation. -/
def unf : Prog Cls → List Lock → Option (List Lock × (Code Lock → Code Lock))
  | .skip, h => some (h, id)
  | .sleep, h => some (h, id)
  | .acq c, h => some (⟨c, 0⟩ :: h, fun k => .acq ⟨c, 0⟩ k)
  | .rel _, [] => none
  | .rel c, l :: h => if l.cls = c then some (h, fun k => .rel l k) else none
  | .seq p q, h =>
      match unf p h with
      | some (h1, f1) =>
          match unf q h1 with
          | some (h2, f2) => some (h2, fun k => f1 (f2 k))
          | none => none
      | none => none
  | .alt _ q, h => unf q h
  | .loop _ _, h => some (h, id)
  | .star _, h => some (h, id)
  | .tryL c a b, h =>
      match unf a (⟨c, 0⟩ :: h), unf b h with
      | some (h1, f1), some (h2, f2) =>
          if h1 = h2 then some (h1, fun k => .tryL ⟨c, 0⟩ (f1 k) (f2 k)) else none
      | _, _ => none

theorem unf_sound (p : Prog Cls) :
    ∀ (h h' : List Lock) (f : Code Lock → Code Lock), unf p h = some (h', f) →
      ∀ k, Unfolds Lock.cls h p h' k (f k) := by
  induction p with
  | skip => intro h h' f hu k; simp only [unf, Option.some.injEq, Prod.mk.injEq] at hu
            obtain ⟨rfl, rfl⟩ := hu; exact .skip
  | sleep => intro h h' f hu k; simp only [unf, Option.some.injEq, Prod.mk.injEq] at hu
             obtain ⟨rfl, rfl⟩ := hu; exact .sleep
  | acq c =>
    intro h h' f hu k
    simp only [unf, Option.some.injEq, Prod.mk.injEq] at hu
    obtain ⟨rfl, rfl⟩ := hu
    exact .acq _ rfl
  | rel c =>
    intro h h' f hu k
    cases h with
    | nil => simp [unf] at hu
    | cons l h0 =>
      simp only [unf] at hu
      split at hu
      · rename_i hl
        simp only [Option.some.injEq, Prod.mk.injEq] at hu
        obtain ⟨rfl, rfl⟩ := hu
        exact .rel l hl
      · exact absurd hu (by simp)
  | seq p q ihp ihq =>
    intro h h' f hu k
    simp only [unf] at hu
    split at hu
    · rename_i h1 f1 hp
      split at hu
      · rename_i h2 f2 hq
        simp only [Option.some.injEq, Prod.mk.injEq] at hu
        obtain ⟨rfl, rfl⟩ := hu
        exact .seq (ihp _ _ _ hp _) (ihq _ _ _ hq k)
      · exact absurd hu (by simp)
    · exact absurd hu (by simp)
  | alt p q _ ihq =>
    intro h h' f hu k
    simp only [unf] at hu
    exact .altR (ihq _ _ _ hu k)
  | loop n p _ =>
    intro h h' f hu k; simp only [unf, Option.some.injEq, Prod.mk.injEq] at hu
    obtain ⟨rfl, rfl⟩ := hu; exact .loopZ
  | star p _ =>
    intro h h' f hu k; simp only [unf, Option.some.injEq, Prod.mk.injEq] at hu
    obtain ⟨rfl, rfl⟩ := hu; exact .starZ
  | tryL c a b iha ihb =>
    intro h h' f hu k
    simp only [unf] at hu
    split at hu
    · rename_i h1 f1 h2 f2 ha hb
      split at hu
      · rename_i h12
        subst h12
        simp only [Option.some.injEq, Prod.mk.injEq] at hu
        obtain ⟨rfl, rfl⟩ := hu
        exact .tryL _ rfl (iha _ _ _ ha k) (ihb _ _ _ hb k)
      · exact absurd hu (by simp)
    · exact absurd hu (by simp)

/-- Number of lock events of the default unfolding started with no lock held (0 if there
is none). -/
def unfSize (p : Prog Cls) : Nat :=
  match unf p [] with
  | some (_, f) => (f .done).size
  | none => 0

theorem unfolds_of_unfSize {p : Prog Cls} (h : 0 < unfSize p) :
    ∃ h' c, Unfolds Lock.cls [] p h' .done c ∧ c ≠ .done := by
  unfold unfSize at h
  split at h
  · rename_i h' f hu
    refine ⟨h', f .done, unf_sound p _ _ _ hu _, ?_⟩
    intro hd
    rw [hd] at h
    simp [Code.size] at h
  · omega

/-! ## The table of `sync::Cache` -/

/-- The decidable check of the table, evaluated by the kernel (`decide`). -/
theorem tableOk_true : tableOk = true := by decide

theorem check_table (o : Op) : check Cls.rank (table o) [] = some [] := by
  cases o <;> decide

theorem check_trySync : check Cls.rank trySync [] = some [] := by decide

theorem check_opsProg (ops : List Op) : check Cls.rank (opsProg ops) [] = some [] := by
  induction ops with
  | nil => rfl
  | cons o os ih => simp only [opsProg, check, check_table, ih]

theorem cacheThread_wf {t : Thread Lock} (ht : IsCacheThread t) :
    t.held = [] ∧ CodeWf Lock.rank [] t.code := by
  obtain ⟨hh, ops, h', hu⟩ := ht
  refine ⟨hh, ?_⟩
  have := check_sound Cls.rank Lock.cls hu [] (by simpa using check_opsProg ops)
  obtain ⟨e, w⟩ := this
  have hnil : h' = [] := by simpa using e
  subst hnil
  exact w (by simp [CodeWf])

theorem cache_inv {n : Nat} {s0 : State Lock} (hth : ∀ i, i < n → IsCacheThread (s0 i))
    (hidle : ∀ i, n ≤ i → s0 i = ⟨[], .done⟩) : Inv Lock.rank n s0 := by
  apply inv_init
  · intro i
    by_cases h : i < n
    · exact cacheThread_wf (hth i h)
    · rw [hidle i (by omega)]; simp [CodeWf]
  · intro i hi
    rw [hidle i hi]

end MiniMoka.ConcL
