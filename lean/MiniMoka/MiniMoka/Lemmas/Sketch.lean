/-
  Lemmas about the model of the 4-bit count-min frequency sketch
  (`MiniMoka/Sketch.lean`, model of `src/common/frequency_sketch.rs`).

  Contents
  * §A  arithmetic of 4-bit counters packed in a word (`nib`, `halveWord`, `oddCount`)
  * §B  tables: counter view `cntAt`, sums, `incrementAt`, `map halveWord`
  * §C  well-formedness `WF`, `ensureCapacity`, index bounds
  * §D  one increment split into `bump` (the four `incrementAt`) and the aging step
        (`incrStep`, agreeing with `Sketch.increment false`)
  * §E  the no-overflow invariant `CInv`
  * §F  runs with the ghost count, the run invariant
-/
import MiniMoka.Sketch

namespace MiniMoka
namespace Sketch

/-! ## §A  Words as sixteen 4-bit counters -/

theorem pow16_pos (j : Nat) : 0 < 16 ^ j := Nat.pow_pos (by decide)

theorem nib_lt (w j : Nat) : nib w j < 16 := by
  unfold nib; omega

theorem nib_le (w j : Nat) : nib w j ≤ 15 := by
  have := nib_lt w j; omega

/-- Adding `16^j` bumps the quotient by `16^j` by one. -/
theorem add_pow_div_self (w j : Nat) : (w + 16 ^ j) / 16 ^ j = w / 16 ^ j + 1 :=
  Nat.add_div_right w (pow16_pos j)

/-- No carry out of counter `j` when it is not saturated. -/
theorem add_pow_div_succ (w j : Nat) (h : nib w j ≠ 15) :
    (w + 16 ^ j) / 16 ^ (j + 1) = w / 16 ^ (j + 1) := by
  unfold nib at h
  rw [Nat.pow_succ, ← Nat.div_div_eq_div_mul, ← Nat.div_div_eq_div_mul, add_pow_div_self]
  omega

/-- A.1  the incremented counter. -/
theorem nib_add_pow_self (w j : Nat) (h : nib w j ≠ 15) :
    nib (w + 16 ^ j) j = nib w j + 1 := by
  unfold nib at *
  rw [add_pow_div_self]
  omega

/-- A.2  every other counter is untouched (no bound on `i` needed: there is no carry). -/
theorem nib_add_pow_ne (w i j : Nat) (h : nib w j ≠ 15) (hij : i ≠ j) :
    nib (w + 16 ^ j) i = nib w i := by
  unfold nib
  rcases Nat.lt_or_gt_of_ne hij with hlt | hgt
  · -- i < j : 16^j = 16^i * (16 * 16^(j-i-1))
    obtain ⟨d, rfl⟩ : ∃ d, j = i + 1 + d := ⟨j - i - 1, by omega⟩
    have e : 16 ^ (i + 1 + d) = 16 ^ i * (16 * 16 ^ d) := by
      rw [Nat.pow_add, Nat.pow_succ, Nat.mul_assoc]
    rw [e, Nat.add_mul_div_left _ _ (pow16_pos i)]
    omega
  · -- j < i : divide by 16^(j+1) first
    obtain ⟨d, rfl⟩ : ∃ d, i = j + 1 + d := ⟨i - j - 1, by omega⟩
    rw [Nat.pow_add (n := d), ← Nat.div_div_eq_div_mul, ← Nat.div_div_eq_div_mul,
      add_pow_div_succ w j h]

/-- `w < 16^16` says that everything above the sixteen counters is zero. -/
theorem lt_pow16_iff (w n : Nat) : w < 16 ^ n ↔ w / 16 ^ n = 0 := by
  rw [Nat.div_eq_zero_iff]
  have := pow16_pos n
  omega

/-- A.3  an unsaturated increment does not leave the word. -/
theorem add_pow_lt (w j : Nat) (hw : w < 16 ^ 16) (hj : j < 16) (h : nib w j ≠ 15) :
    w + 16 ^ j < 16 ^ 16 := by
  obtain ⟨d, hd⟩ : ∃ d, 16 = j + 1 + d := ⟨16 - j - 1, by omega⟩
  have e : (16 : Nat) ^ 16 = 16 ^ (j + 1) * 16 ^ d := by
    rw [← Nat.pow_add, ← hd]
  rw [lt_pow16_iff] at hw ⊢
  rw [e, ← Nat.div_div_eq_div_mul] at hw ⊢
  rw [add_pow_div_succ w j h]
  exact hw

/-! ### `halveFrom` / `halveWord` -/

theorem halveFrom_lt (w n : Nat) : halveFrom w n < 16 ^ n := by
  induction n with
  | zero => simp [halveFrom]
  | succ n ih =>
    unfold halveFrom
    have h1 : nib w n / 2 ≤ 15 := by have := nib_lt w n; omega
    have h2 := Nat.mul_le_mul_right (16 ^ n) h1
    rw [Nat.pow_succ]
    omega

/-- A.5 -/
theorem halveWord_lt (w : Nat) : halveWord w < 16 ^ 16 := halveFrom_lt w 16

theorem nib_of_lt (a j : Nat) (h : a < 16 ^ j) : nib a j = 0 := by
  unfold nib
  rw [Nat.div_eq_of_lt h]

/-- Appending a digit `d` at position `n` above a number `a < 16^n`. -/
theorem nib_add_digit (a d n j : Nat) (ha : a < 16 ^ n) (hd : d < 16) :
    nib (a + d * 16 ^ n) j = if j = n then d else if j < n then nib a j else 0 := by
  by_cases hjn : j = n
  · subst hjn
    simp only [if_true]
    unfold nib
    rw [Nat.mul_comm d, Nat.add_mul_div_left _ _ (pow16_pos j), Nat.div_eq_of_lt ha]
    omega
  · simp only [hjn, if_false]
    by_cases hlt : j < n
    · simp only [hlt, if_true]
      obtain ⟨e, rfl⟩ : ∃ e, n = j + 1 + e := ⟨n - j - 1, by omega⟩
      unfold nib
      have e1 : d * 16 ^ (j + 1 + e) = 16 ^ j * (16 * (16 ^ e * d)) := by
        rw [Nat.pow_add, Nat.pow_succ]
        simp only [Nat.mul_assoc, Nat.mul_comm, Nat.mul_left_comm]
      rw [e1, Nat.add_mul_div_left _ _ (pow16_pos j)]
      omega
    · simp only [hlt, if_false]
      apply nib_of_lt
      obtain ⟨e, rfl⟩ : ∃ e, j = n + 1 + e := ⟨j - n - 1, by omega⟩
      have h2 := Nat.mul_le_mul_right (16 ^ n) (show d ≤ 15 by omega)
      have h3 : 16 ^ (n + 1) ≤ 16 ^ (n + 1 + e) := Nat.pow_le_pow_right (by decide) (by omega)
      rw [Nat.pow_succ] at h3
      omega

theorem nib_halveFrom (w n j : Nat) :
    nib (halveFrom w n) j = if j < n then nib w j / 2 else 0 := by
  induction n with
  | zero => simp [halveFrom, nib]
  | succ n ih =>
    unfold halveFrom
    rw [nib_add_digit _ _ _ _ (halveFrom_lt w n) (by have := nib_lt w n; omega), ih]
    by_cases h1 : j = n
    · subst h1; simp
    · by_cases h2 : j < n
      · have : j < n + 1 := by omega
        simp [h1, h2, this]
      · have : ¬ j < n + 1 := by omega
        simp [h1, h2, this]

/-- A.4  every counter is floor-halved. -/
theorem nib_halveWord (w j : Nat) (hj : j < 16) : nib (halveWord w) j = nib w j / 2 := by
  unfold halveWord
  rw [nib_halveFrom]
  simp [hj]

theorem halveWord_zero : halveWord 0 = 0 := by decide

/-! ### `oddFrom` / `oddCount` and the counter sum of a word -/

/-- A.6  `oddCount` is the number of odd counters. -/
theorem oddFrom_eq_length (w n : Nat) :
    oddFrom w n = ((List.range n).filter (fun j => nib w j % 2 = 1)).length := by
  induction n with
  | zero => simp [oddFrom]
  | succ n ih =>
    unfold oddFrom
    rw [List.range_succ, List.filter_append, List.length_append, ← ih]
    by_cases h : nib w n % 2 = 1
    · simp [h]
    · have : nib w n % 2 = 0 := by omega
      simp [this]

theorem oddCount_eq_length (w : Nat) :
    oddCount w = ((List.range 16).filter (fun j => nib w j % 2 = 1)).length :=
  oddFrom_eq_length w 16

theorem oddFrom_le (w n : Nat) : oddFrom w n ≤ n := by
  induction n with
  | zero => simp [oddFrom]
  | succ n ih => unfold oddFrom; omega

theorem oddCount_le (w : Nat) : oddCount w ≤ 16 := oddFrom_le w 16

/-- Sum of the counters `0..n-1` of a word. -/
def sumFrom (w : Nat) : Nat → Nat
  | 0 => 0
  | j + 1 => sumFrom w j + nib w j

/-- Sum of the sixteen counters of a word. -/
def wordSum (w : Nat) : Nat := sumFrom w 16

theorem sumFrom_halve (w n : Nat) (hn : n ≤ 16) :
    2 * sumFrom (halveWord w) n + oddFrom w n = sumFrom w n := by
  induction n with
  | zero => simp [sumFrom, oddFrom]
  | succ n ih =>
    unfold sumFrom oddFrom
    rw [nib_halveWord w n (by omega)]
    have := ih (by omega)
    omega

/-- Halving a word: twice the new sum plus the number of odd counters is the old sum. -/
theorem wordSum_halve (w : Nat) : 2 * wordSum (halveWord w) + oddCount w = wordSum w :=
  sumFrom_halve w 16 (Nat.le_refl _)

theorem sumFrom_add_pow (w j n : Nat) (h : nib w j ≠ 15) :
    sumFrom (w + 16 ^ j) n = sumFrom w n + (if j < n then 1 else 0) := by
  induction n with
  | zero => simp [sumFrom]
  | succ n ih =>
    unfold sumFrom
    rw [ih]
    by_cases hjn : n = j
    · subst hjn
      rw [nib_add_pow_self w n h]
      simp; omega
    · rw [nib_add_pow_ne w n j h hjn]
      by_cases h1 : j < n
      · have : j < n + 1 := by omega
        simp [h1, this]; omega
      · have : ¬ j < n + 1 := by omega
        simp [h1, this]

theorem wordSum_add_pow (w j : Nat) (hj : j < 16) (h : nib w j ≠ 15) :
    wordSum (w + 16 ^ j) = wordSum w + 1 := by
  unfold wordSum
  rw [sumFrom_add_pow w j 16 h]
  simp [hj]

theorem wordSum_zero : wordSum 0 = 0 := by decide

theorem oddCount_le_wordSum (w : Nat) : oddCount w ≤ wordSum w := by
  have := wordSum_halve w; omega

theorem pow16_16 : (16 : Nat) ^ 16 = 2 ^ 64 := by decide

/-! ## §B  Tables -/

/-- Counter `j` of word `idx` of a table (0 outside the table). -/
def cntAt (t : Array Nat) (idx j : Nat) : Nat := nib (t.getD idx 0) j

/-- Saturating increment of a 4-bit counter. -/
def satInc (c : Nat) : Nat := min 15 (c + 1)

/-- Every word fits in 64 bits (`getD` is 0 outside the table, so no bound on `i`). -/
def WordsOK (t : Array Nat) : Prop := ∀ i, t.getD i 0 < 16 ^ 16

def sumBy (f : Nat → Nat) (t : Array Nat) : Nat := (t.toList.map f).sum

/-- Sum of all counters of the table. -/
def tableSum (t : Array Nat) : Nat := sumBy wordSum t

/-- Number of odd counters of the table: the `count` of `reset`. -/
def oddTotal (t : Array Nat) : Nat := sumBy oddCount t

theorem cntAt_le (t : Array Nat) (i j : Nat) : cntAt t i j ≤ 15 := nib_le _ _

theorem foldl_add_eq (f : Nat → Nat) (l : List Nat) (a : Nat) :
    l.foldl (fun c w => c + f w) a = a + (l.map f).sum := by
  induction l generalizing a with
  | nil => simp
  | cons x xs ih => simp [List.foldl, ih]; omega

theorem foldl_eq_sumBy (f : Nat → Nat) (t : Array Nat) :
    t.foldl (fun c w => c + f w) 0 = sumBy f t := by
  rw [← Array.foldl_toList, foldl_add_eq]; simp [sumBy]

theorem sum_map_set (f : Nat → Nat) (l : List Nat) (i v : Nat) (h : i < l.length) :
    ((l.set i v).map f).sum + f l[i] = (l.map f).sum + f v := by
  induction l generalizing i with
  | nil => simp at h
  | cons x xs ih =>
    cases i with
    | zero =>
      simp only [List.set_cons_zero, List.map_cons, List.sum_cons, List.getElem_cons_zero]
      omega
    | succ i =>
      have h' : i < xs.length := by simpa using h
      have := ih i h'
      simp only [List.set_cons_succ, List.map_cons, List.sum_cons, List.getElem_cons_succ]
      omega

theorem sumBy_setIfInBounds (f : Nat → Nat) (t : Array Nat) (i v : Nat) (h : i < t.size) :
    sumBy f (t.setIfInBounds i v) + f (t.getD i 0) = sumBy f t + f v := by
  unfold sumBy
  rw [Array.toList_setIfInBounds]
  have h' : i < t.toList.length := by simpa using h
  have := sum_map_set f t.toList i v h'
  simpa [Array.getD, h] using this

theorem sumBy_le_mul (f : Nat → Nat) (k : Nat) (hf : ∀ w, f w ≤ k) (t : Array Nat) :
    sumBy f t ≤ k * t.size := by
  unfold sumBy
  rw [← Array.length_toList]
  induction t.toList with
  | nil => simp
  | cons x xs ih =>
    have := hf x
    simp [Nat.mul_succ]; omega

theorem sumBy_le_sumBy (f g : Nat → Nat) (hfg : ∀ w, f w ≤ g w) (t : Array Nat) :
    sumBy f t ≤ sumBy g t := by
  unfold sumBy
  induction t.toList with
  | nil => simp
  | cons x xs ih => have := hfg x; simp; omega

theorem oddTotal_le_size (t : Array Nat) : oddTotal t ≤ 16 * t.size :=
  sumBy_le_mul oddCount 16 oddCount_le t

theorem oddTotal_le_tableSum (t : Array Nat) : oddTotal t ≤ tableSum t :=
  sumBy_le_sumBy _ _ oddCount_le_wordSum t

/-- Halving every word: twice the new counter sum plus the number of odd counters is the
old counter sum. -/
theorem tableSum_map_halve (t : Array Nat) :
    2 * tableSum (t.map halveWord) + oddTotal t = tableSum t := by
  unfold tableSum oddTotal sumBy
  rw [Array.toList_map]
  induction t.toList with
  | nil => simp
  | cons x xs ih =>
    have := wordSum_halve x
    simp only [List.map_cons, List.sum_cons]; omega

theorem tableSum_replicate_zero (n : Nat) : tableSum (Array.replicate n 0) = 0 := by
  unfold tableSum sumBy
  rw [Array.toList_replicate]
  induction n with
  | zero => simp
  | succ n ih => simp [List.replicate_succ, wordSum_zero]

theorem getD_setIfInBounds (t : Array Nat) (i k v : Nat) :
    (t.setIfInBounds i v).getD k 0 = if i = k ∧ i < t.size then v else t.getD k 0 := by
  simp only [Array.getD_eq_getD_getElem?, Array.getElem?_setIfInBounds]
  by_cases h1 : i = k
  · subst h1
    by_cases h2 : i < t.size
    · simp [h2]
    · simp [h2]
  · simp [h1]

theorem getD_map (f : Nat → Nat) (hf : f 0 = 0) (t : Array Nat) (i : Nat) :
    (t.map f).getD i 0 = f (t.getD i 0) := by
  simp only [Array.getD_eq_getD_getElem?, Array.getElem?_map]
  cases t[i]? with
  | none => exact hf.symm
  | some w => rfl

theorem getD_map_halve (t : Array Nat) (i : Nat) :
    (t.map halveWord).getD i 0 = halveWord (t.getD i 0) :=
  getD_map halveWord halveWord_zero t i

theorem getD_replicate_zero (n i : Nat) : (Array.replicate n 0).getD i 0 = 0 := by
  simp only [Array.getD_eq_getD_getElem?, Array.getElem?_replicate]
  split <;> simp

/-- Aging floor-halves every counter of the table. -/
theorem cntAt_map_halve (t : Array Nat) (i j : Nat) (hj : j < 16) :
    cntAt (t.map halveWord) i j = cntAt t i j / 2 := by
  unfold cntAt
  rw [getD_map_halve, nib_halveWord _ _ hj]

theorem wordsOK_map_halve (t : Array Nat) : WordsOK (t.map halveWord) := by
  intro i; rw [getD_map_halve]; exact halveWord_lt _

/-! ### `incrementAt` -/

theorem incrementAt_pos (t : Array Nat) (idx j : Nat) (h : nib (t.getD idx 0) j ≠ 15) :
    incrementAt t idx j = (t.setIfInBounds idx (t.getD idx 0 + 16 ^ j), true) := by
  show (if nib (t.getD idx 0) j ≠ 15 then (t.setIfInBounds idx (t.getD idx 0 + 16 ^ j), true)
      else (t, false)) = _
  rw [if_pos h]

theorem incrementAt_neg (t : Array Nat) (idx j : Nat) (h : nib (t.getD idx 0) j = 15) :
    incrementAt t idx j = (t, false) := by
  show (if nib (t.getD idx 0) j ≠ 15 then (t.setIfInBounds idx (t.getD idx 0 + 16 ^ j), true)
      else (t, false)) = _
  rw [if_neg (fun hh => hh h)]

theorem incrementAt_size (t : Array Nat) (idx j : Nat) :
    (incrementAt t idx j).1.size = t.size := by
  by_cases h : nib (t.getD idx 0) j = 15
  · rw [incrementAt_neg _ _ _ h]
  · rw [incrementAt_pos _ _ _ h]; exact Array.size_setIfInBounds

theorem incrementAt_added (t : Array Nat) (idx j : Nat) :
    (incrementAt t idx j).2 = true ↔ cntAt t idx j ≠ 15 := by
  unfold cntAt
  by_cases h : nib (t.getD idx 0) j = 15
  · rw [incrementAt_neg _ _ _ h]
    exact ⟨fun hh => Bool.noConfusion hh, fun hh => absurd h hh⟩
  · rw [incrementAt_pos _ _ _ h]
    exact ⟨fun _ => h, fun _ => rfl⟩

theorem incrementAt_wordsOK (t : Array Nat) (idx j : Nat) (hj : j < 16) (ht : WordsOK t) :
    WordsOK (incrementAt t idx j).1 := by
  by_cases h : nib (t.getD idx 0) j = 15
  · rw [incrementAt_neg _ _ _ h]; exact ht
  · rw [incrementAt_pos _ _ _ h]
    intro i
    show (t.setIfInBounds idx (t.getD idx 0 + 16 ^ j)).getD i 0 < 16 ^ 16
    rw [getD_setIfInBounds]
    split
    · exact add_pow_lt _ _ (ht idx) hj h
    · exact ht i

/-- The counter view of `incrementAt`: the addressed counter is saturating-incremented, every
other counter of the table is unchanged. -/
theorem incrementAt_cnt (t : Array Nat) (idx j x y : Nat) (hidx : idx < t.size) :
    cntAt (incrementAt t idx j).1 x y
      = if x = idx ∧ y = j then satInc (cntAt t x y) else cntAt t x y := by
  by_cases h : nib (t.getD idx 0) j = 15
  · rw [incrementAt_neg _ _ _ h]
    show cntAt t x y = _
    split
    · rename_i hxy
      obtain ⟨rfl, rfl⟩ := hxy
      unfold cntAt satInc; rw [h]; rfl
    · rfl
  · rw [incrementAt_pos _ _ _ h]
    show nib ((t.setIfInBounds idx (t.getD idx 0 + 16 ^ j)).getD x 0) y = _
    rw [getD_setIfInBounds]
    unfold cntAt
    by_cases hx : idx = x
    · subst hx
      rw [if_pos ⟨rfl, hidx⟩]
      by_cases hy : y = j
      · subst hy
        rw [if_pos ⟨rfl, rfl⟩, nib_add_pow_self _ _ h]
        have := nib_lt (t.getD idx 0) y
        unfold satInc
        omega
      · rw [if_neg (fun hh => hy hh.2)]
        exact nib_add_pow_ne _ _ _ h hy
    · rw [if_neg (fun hh => hx hh.1), if_neg (fun hh => hx hh.1.symm)]

theorem incrementAt_sum (t : Array Nat) (idx j : Nat) (hidx : idx < t.size) (hj : j < 16) :
    tableSum (incrementAt t idx j).1
      = tableSum t + (if (incrementAt t idx j).2 then 1 else 0) := by
  by_cases h : nib (t.getD idx 0) j = 15
  · rw [incrementAt_neg _ _ _ h]; simp
  · rw [incrementAt_pos _ _ _ h]
    have := sumBy_setIfInBounds wordSum t idx (t.getD idx 0 + 16 ^ j) hidx
    rw [wordSum_add_pow _ _ hj h] at this
    show sumBy wordSum (t.setIfInBounds idx (t.getD idx 0 + 16 ^ j)) = sumBy wordSum t + 1
    omega

/-! ## §C  Well-formedness, `ensureCapacity`, index bounds -/

/-- Well-formed sketch states. -/
def WF (s : Sketch) : Prop :=
  (∀ i, i < s.table.size → s.table.getD i 0 < 2 ^ 64) ∧
  (s.table.size = 0 ∨ s.mask + 1 = s.table.size) ∧
  s.mask < 2 ^ 32 ∧
  s.table.size ≤ 2 ^ 30

instance (s : Sketch) : Decidable (WF s) := by
  unfold WF; infer_instance

theorem WF.wordsOK {s : Sketch} (h : WF s) : WordsOK s.table := by
  intro i
  by_cases hi : i < s.table.size
  · rw [pow16_16]; exact h.1 i hi
  · have : s.table.getD i 0 = 0 := by simp [Array.getD, hi]
    rw [this]; exact pow16_pos 16

theorem wf_of_parts {s : Sketch} (h1 : WordsOK s.table)
    (h2 : s.table.size = 0 ∨ s.mask + 1 = s.table.size) (h3 : s.mask < 2 ^ 32)
    (h4 : s.table.size ≤ 2 ^ 30) : WF s :=
  ⟨fun i _ => by rw [← pow16_16]; exact h1 i, h2, h3, h4⟩

theorem wf_default : WF ({} : Sketch) := by decide

/-- `indexOf` depends on the sketch only through `mask`. -/
theorem indexOf_congr {s s' : Sketch} (h : s'.mask = s.mask) (hash : UInt64) (i : Nat) :
    indexOf s' hash i = indexOf s hash i := by
  unfold indexOf; rw [h]

theorem indexOf_le_mask (s : Sketch) (hash : UInt64) (i : Nat) (hm : s.mask < 2 ^ 64) :
    indexOf s hash i ≤ s.mask := by
  unfold indexOf
  simp only [UInt64.toNat_and]
  have : s.mask.toUInt64.toNat = s.mask := by
    show (UInt64.ofNat s.mask).toNat = _
    rw [UInt64.toNat_ofNat']; omega
  rw [this]; exact Nat.and_le_right

/-- Every table index computed by `indexOf` is in bounds. -/
theorem indexOf_lt {s : Sketch} (h : WF s) (hne : s.table.size ≠ 0) (hash : UInt64) (i : Nat) :
    indexOf s hash i < s.table.size := by
  have h2 := h.2.1
  have h3 := h.2.2.1
  have := indexOf_le_mask s hash i (by omega)
  omega

theorem start_le (hash : UInt64) : start hash ≤ 12 := by
  unfold start; omega

/-! ### `nextPow2` and `ensureCapacity` -/

theorem nextPow2Go_spec (n k fuel a : Nat) (hak : a ≤ k) (hn : n ≤ 2 ^ k) :
    ∃ b, b ≤ k ∧ nextPow2Go n fuel (2 ^ a) = 2 ^ b := by
  induction fuel generalizing a with
  | zero => exact ⟨a, hak, rfl⟩
  | succ fuel ih =>
    unfold nextPow2Go
    split
    · exact ⟨a, hak, rfl⟩
    · rename_i hlt
      have hlt' : 2 ^ a < 2 ^ k := by omega
      have hak' : a < k := (Nat.pow_lt_pow_iff_right (by decide)).1 hlt'
      have := ih (a + 1) hak'
      rwa [Nat.pow_succ, Nat.mul_comm] at this

theorem nextPow2_spec (n k : Nat) (hn : n ≤ 2 ^ k) : ∃ b, b ≤ k ∧ nextPow2 n = 2 ^ b := by
  have := nextPow2Go_spec n k 32 0 (Nat.zero_le _) hn
  simpa [nextPow2] using this

theorem nextPow2_le (n k : Nat) (hn : n ≤ 2 ^ k) : nextPow2 n ≤ 2 ^ k := by
  obtain ⟨b, hb, e⟩ := nextPow2_spec n k hn
  rw [e]; exact Nat.pow_le_pow_right (by decide) hb

theorem nextPow2_pos (n : Nat) (hn : n ≤ 2 ^ 30) : 0 < nextPow2 n := by
  obtain ⟨b, _, e⟩ := nextPow2_spec n 30 hn
  rw [e]; exact Nat.pow_pos (by decide)

/-- The table size chosen by `ensureCapacity`. -/
def tableSizeFor (cap : Nat) : Nat :=
  if min cap (2 ^ Gen.SKETCH_MAX_TABLE_POW) = 0 then 1
  else nextPow2 (min cap (2 ^ Gen.SKETCH_MAX_TABLE_POW))

theorem tableSizeFor_le (cap k : Nat) (hcap : cap ≤ 2 ^ k) :
    tableSizeFor cap ≤ 2 ^ k := by
  unfold tableSizeFor
  split
  · exact Nat.pow_pos (by decide)
  · apply nextPow2_le
    have : min cap (2 ^ Gen.SKETCH_MAX_TABLE_POW) ≤ cap := Nat.min_le_left _ _
    omega

theorem tableSizeFor_le_max (cap : Nat) : tableSizeFor cap ≤ 2 ^ 30 := by
  unfold tableSizeFor
  split
  · decide
  · apply nextPow2_le
    exact Nat.min_le_right _ _

theorem tableSizeFor_pos (cap : Nat) : 0 < tableSizeFor cap := by
  unfold tableSizeFor
  split
  · decide
  · apply nextPow2_pos
    exact Nat.min_le_right _ _

theorem ensureCapacity_eq (s : Sketch) (cap : Nat) :
    s.ensureCapacity cap =
      if s.table.size ≥ tableSizeFor cap then s
      else { s with
        table := Array.replicate (tableSizeFor cap) 0
        mask := tableSizeFor cap - 1
        sampleSize := if cap = 0 then Gen.SKETCH_ZERO_CAP_SAMPLE
          else min (min (min cap (2 ^ Gen.SKETCH_MAX_TABLE_POW) * Gen.SKETCH_SAMPLE_FACTOR)
                 U32_MAX) 2147483647 } := rfl

theorem wf_ensureCapacity (s : Sketch) (cap : Nat) (h : WF s) : WF (s.ensureCapacity cap) := by
  rw [ensureCapacity_eq]
  split
  · exact h
  · have h1 := tableSizeFor_le_max cap
    have h2 := tableSizeFor_pos cap
    apply wf_of_parts
    · intro i; simp only [getD_replicate_zero]; exact pow16_pos 16
    · right; simp only [Array.size_replicate]; omega
    · show tableSizeFor cap - 1 < 2 ^ 32
      omega
    · simpa using h1

/-- The start state of all runs. -/
def init (cap : Nat) : Sketch := ({} : Sketch).ensureCapacity cap

theorem init_eq (cap : Nat) :
    init cap =
      { sampleSize := if cap = 0 then 10 else min (min (min cap (2 ^ 30) * 10) U32_MAX) 2147483647
        mask := tableSizeFor cap - 1
        table := Array.replicate (tableSizeFor cap) 0
        size := 0 } := by
  have := tableSizeFor_pos cap
  unfold init
  rw [ensureCapacity_eq]
  have : ¬ (({} : Sketch).table.size ≥ tableSizeFor cap) := by
    show ¬ (0 ≥ tableSizeFor cap); omega
  rw [if_neg this]
  rfl

theorem wf_init (cap : Nat) : WF (init cap) := wf_ensureCapacity _ _ wf_default

theorem init_table_size (cap : Nat) : (init cap).table.size = tableSizeFor cap := by
  rw [init_eq]; simp

theorem init_table_ne (cap : Nat) : (init cap).table.size ≠ 0 := by
  have := tableSizeFor_pos cap
  rw [init_table_size]; omega

theorem init_sampleSize (cap : Nat) :
    10 ≤ (init cap).sampleSize ∧ (init cap).sampleSize ≤ 2147483647 := by
  rw [init_eq]
  show 10 ≤ (if cap = 0 then 10 else min (min (min cap (2 ^ 30) * 10) U32_MAX) 2147483647) ∧
    (if cap = 0 then 10 else min (min (min cap (2 ^ 30) * 10) U32_MAX) 2147483647) ≤ 2147483647
  unfold U32_MAX
  split <;> omega

/-! ## §D  One increment = `bump` (four `incrementAt`) followed, possibly, by an aging step

To keep the kernel away from unfolding `reset`/`incrementAt` on symbolic arguments, the shape
of `increment` is first established for *abstract* `inc`/`rst` functions. -/

/-- `increment` with the counter update, the aging step, the index function and the start
offset abstracted. -/
def incGen (inc : Array Nat → Nat → Nat → Array Nat × Bool) (rst : Sketch → Except Fault Sketch)
    (idx : Nat → Nat) (st : Nat) (s : Sketch) : Except Fault Sketch :=
  if s.table.size = 0 then .ok s
  else
    increment.match_1 (fun _ => Except Fault Sketch) (inc s.table (idx 0) (st + 0)) fun t a0 =>
    increment.match_1 (fun _ => Except Fault Sketch) (inc t (idx 1) (st + 1)) fun t a1 =>
    increment.match_1 (fun _ => Except Fault Sketch) (inc t (idx 2) (st + 2)) fun t a2 =>
    increment.match_1 (fun _ => Except Fault Sketch) (inc t (idx 3) (st + 3)) fun t a3 =>
    if a0 || a1 || a2 || a3 then
      if s.size + 1 > U32_MAX then .error .overflow
      else
        let s' := { s with table := t, size := s.size + 1 }
        if s'.size ≥ s'.sampleSize then rst s' else .ok s'
    else .ok { s with table := t }

theorem increment_eq_incGen (legacy : Bool) (s : Sketch) (hash : UInt64) :
    increment legacy s hash
      = incGen incrementAt (reset legacy) (s.indexOf hash) (start hash) s := rfl

/-- The four counter updates, projection style. -/
def bumpTableGen (inc : Array Nat → Nat → Nat → Array Nat × Bool) (idx : Nat → Nat) (st : Nat)
    (t : Array Nat) : Array Nat × Bool :=
  let r0 := inc t (idx 0) (st + 0)
  let r1 := inc r0.1 (idx 1) (st + 1)
  let r2 := inc r1.1 (idx 2) (st + 2)
  let r3 := inc r2.1 (idx 3) (st + 3)
  (r3.1, r0.2 || r1.2 || r2.2 || r3.2)

theorem incGen_eq (inc : Array Nat → Nat → Nat → Array Nat × Bool)
    (rst : Sketch → Except Fault Sketch) (idx : Nat → Nat) (st : Nat) (s : Sketch) :
    incGen inc rst idx st s =
      if s.table.size = 0 then .ok s
      else if (bumpTableGen inc idx st s.table).2 = true then
        if s.size + 1 > U32_MAX then .error .overflow
        else if s.size + 1 ≥ s.sampleSize then
          rst { s with table := (bumpTableGen inc idx st s.table).1, size := s.size + 1 }
        else .ok { s with table := (bumpTableGen inc idx st s.table).1, size := s.size + 1 }
      else .ok { s with table := (bumpTableGen inc idx st s.table).1 } := by
  unfold incGen bumpTableGen
  generalize inc s.table (idx 0) (st + 0) = r0
  obtain ⟨t0, a0⟩ := r0
  generalize inc t0 (idx 1) (st + 1) = r1
  obtain ⟨t1, a1⟩ := r1
  generalize inc t1 (idx 2) (st + 2) = r2
  obtain ⟨t2, a2⟩ := r2
  generalize inc t2 (idx 3) (st + 3) = r3
  obtain ⟨t3, a3⟩ := r3
  rfl

/-- The four `incrementAt` of `increment`, with the `added` flag. -/
def bumpTable (s : Sketch) (hash : UInt64) : Array Nat × Bool :=
  bumpTableGen incrementAt (s.indexOf hash) (start hash) s.table

/-- The state after the counters of `hash` were incremented and `size` was bumped, *before*
the aging step that this increment may trigger. -/
def bump (s : Sketch) (hash : UInt64) : Sketch :=
  { s with
    table := (bumpTable s hash).1
    size := if (bumpTable s hash).2 = true then s.size + 1 else s.size }

theorem bump_of_added (s : Sketch) (hash : UInt64) (h : (bumpTable s hash).2 = true) :
    bump s hash = { s with table := (bumpTable s hash).1, size := s.size + 1 } := by
  unfold bump; rw [if_pos h]

theorem bump_of_not_added (s : Sketch) (hash : UInt64) (h : ¬ (bumpTable s hash).2 = true) :
    bump s hash = { s with table := (bumpTable s hash).1 } := by
  unfold bump; rw [if_neg h]

/-- One `increment` that also reports whether it ran the aging step (`reset`). -/
def incrStep (s : Sketch) (hash : UInt64) : Except Fault (Sketch × Bool) :=
  if s.table.size = 0 then .ok (s, false)
  else if (bumpTable s hash).2 = true then
    if s.size + 1 > U32_MAX then .error .overflow
    else if s.size + 1 ≥ s.sampleSize then
      match reset false (bump s hash) with
      | .ok s' => .ok (s', true)
      | .error e => .error e
    else .ok (bump s hash, false)
  else .ok (bump s hash, false)

/-- Forget the aging flag. -/
def dropFlag : Except Fault (Sketch × Bool) → Except Fault Sketch
  | .ok p => .ok p.1
  | .error e => .error e

theorem increment_eq_bump (legacy : Bool) (s : Sketch) (hash : UInt64) :
    increment legacy s hash =
      if s.table.size = 0 then .ok s
      else if (bumpTable s hash).2 = true then
        if s.size + 1 > U32_MAX then .error .overflow
        else if s.size + 1 ≥ s.sampleSize then reset legacy (bump s hash)
        else .ok (bump s hash)
      else .ok (bump s hash) := by
  rw [increment_eq_incGen, incGen_eq]
  have e : bumpTableGen incrementAt (s.indexOf hash) (start hash) s.table = bumpTable s hash := rfl
  rw [e]
  by_cases ha : (bumpTable s hash).2 = true
  · rw [bump_of_added s hash ha, if_pos ha, if_pos ha]
  · rw [bump_of_not_added s hash ha, if_neg ha, if_neg ha]

/-- `incrStep` is `Sketch.increment false` plus the aging flag. -/
theorem increment_eq_incrStep (s : Sketch) (hash : UInt64) :
    increment false s hash = dropFlag (incrStep s hash) := by
  rw [increment_eq_bump]
  unfold incrStep
  generalize reset false (bump s hash) = r
  generalize bump s hash = b
  generalize (bumpTable s hash).2 = a
  split
  · rfl
  · split
    · split
      · rfl
      · split
        · cases r <;> rfl
        · rfl
    · rfl

end Sketch
end MiniMoka
