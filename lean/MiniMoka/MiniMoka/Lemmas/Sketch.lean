/-
  Lemmas about the model of the 4-bit count-min frequency sketch
  (`MiniMoka/Sketch.lean`, model of `src/common/frequency_sketch.rs`).

  Contents
  * §A  arithmetic of 4-bit counters packed in a word (`nib`, `halveWord`, `oddCount`)
  * §B  tables: counter view `cntAt`, sums, `incrementAt`, `map halveWord`
  * §C  well-formedness `WF`, `ensureCapacity`, index bounds
  * §D  one increment split into `bump` (the four `incrementAt`) and the aging step
        (`incrStep`, agreeing with `Sketch.increment false`)
  * §E  the no-overflow invariant `CInv`
  * §F  runs with the ghost count (`runG`), the run invariant `RInv`
  * §G  the only possible fault (`step_total`), helpers for evaluating concrete runs, witnesses

  Proof-engineering note.  `nib`, `halveWord`, `incrementAt`, `reset` … must never be unfolded by
  the kernel (or by `omega`'s atom matching, which uses `isDefEq`) on symbolic arguments: a
  failing definitional-equality test ends up evaluating `Nat.mod`/`Nat.mul` on huge literals in
  unary.  Hence: record projections go through `mk_*`/`bump_*` rewrite lemmas instead of `rfl`,
  the shape of `increment` is established for abstract `inc`/`rst` (`incGen`), and compound
  terms are `generalize`d before `omega`.
-/
import MiniMoka.Sketch

namespace MiniMoka
namespace Sketch

/-! ## §A  Words as sixteen 4-bit counters -/

theorem pow16_pos (j : Nat) : 0 < 16 ^ j := Nat.pow_pos (by decide)

theorem nib_lt (w j : Nat) : nib w j < 16 := by
  unfold nib; omega

theorem nib_le (w j : Nat) : nib w j ≤ 15 := by
  have := nib_lt w j; omega

/-- Adding `16^j` bumps the quotient by `16^j` by one. -/
theorem add_pow_div_self (w j : Nat) : (w + 16 ^ j) / 16 ^ j = w / 16 ^ j + 1 :=
  Nat.add_div_right w (pow16_pos j)

/-- No carry out of counter `j` when it is not saturated. -/
theorem add_pow_div_succ (w j : Nat) (h : nib w j ≠ 15) :
    (w + 16 ^ j) / 16 ^ (j + 1) = w / 16 ^ (j + 1) := by
  unfold nib at h
  rw [Nat.pow_succ, ← Nat.div_div_eq_div_mul, ← Nat.div_div_eq_div_mul, add_pow_div_self]
  omega

/-- A.1  the incremented counter. -/
theorem nib_add_pow_self (w j : Nat) (h : nib w j ≠ 15) :
    nib (w + 16 ^ j) j = nib w j + 1 := by
  unfold nib at *
  rw [add_pow_div_self]
  omega

/-- A.2  every other counter is untouched (no bound on `i` needed: there is no carry). -/
theorem nib_add_pow_ne (w i j : Nat) (h : nib w j ≠ 15) (hij : i ≠ j) :
    nib (w + 16 ^ j) i = nib w i := by
  unfold nib
  rcases Nat.lt_or_gt_of_ne hij with hlt | hgt
  · -- i < j : 16^j = 16^i * (16 * 16^(j-i-1))
    obtain ⟨d, rfl⟩ : ∃ d, j = i + 1 + d := ⟨j - i - 1, by omega⟩
    have e : 16 ^ (i + 1 + d) = 16 ^ i * (16 * 16 ^ d) := by
      rw [Nat.pow_add, Nat.pow_succ, Nat.mul_assoc]
    rw [e, Nat.add_mul_div_left _ _ (pow16_pos i)]
    omega
  · -- j < i : divide by 16^(j+1) first
    obtain ⟨d, rfl⟩ : ∃ d, i = j + 1 + d := ⟨i - j - 1, by omega⟩
    rw [Nat.pow_add (n := d), ← Nat.div_div_eq_div_mul, ← Nat.div_div_eq_div_mul,
      add_pow_div_succ w j h]

/-- `w < 16^16` says that everything above the sixteen counters is zero. -/
theorem lt_pow16_iff (w n : Nat) : w < 16 ^ n ↔ w / 16 ^ n = 0 := by
  rw [Nat.div_eq_zero_iff]
  have := pow16_pos n
  omega

/-- A.3  an unsaturated increment does not leave the word. -/
theorem add_pow_lt (w j : Nat) (hw : w < 16 ^ 16) (hj : j < 16) (h : nib w j ≠ 15) :
    w + 16 ^ j < 16 ^ 16 := by
  obtain ⟨d, hd⟩ : ∃ d, 16 = j + 1 + d := ⟨16 - j - 1, by omega⟩
  have e : (16 : Nat) ^ 16 = 16 ^ (j + 1) * 16 ^ d := by
    rw [← Nat.pow_add, ← hd]
  rw [lt_pow16_iff] at hw ⊢
  rw [e, ← Nat.div_div_eq_div_mul] at hw ⊢
  rw [add_pow_div_succ w j h]
  exact hw

/-! ### `halveFrom` / `halveWord` -/

theorem halveFrom_lt (w n : Nat) : halveFrom w n < 16 ^ n := by
  induction n with
  | zero => simp [halveFrom]
  | succ n ih =>
    unfold halveFrom
    have h1 : nib w n / 2 ≤ 15 := by have := nib_lt w n; omega
    have h2 := Nat.mul_le_mul_right (16 ^ n) h1
    rw [Nat.pow_succ]
    omega

/-- A.5 -/
theorem halveWord_lt (w : Nat) : halveWord w < 16 ^ 16 := halveFrom_lt w 16

theorem nib_of_lt (a j : Nat) (h : a < 16 ^ j) : nib a j = 0 := by
  unfold nib
  rw [Nat.div_eq_of_lt h]

/-- Appending a digit `d` at position `n` above a number `a < 16^n`. -/
theorem nib_add_digit (a d n j : Nat) (ha : a < 16 ^ n) (hd : d < 16) :
    nib (a + d * 16 ^ n) j = if j = n then d else if j < n then nib a j else 0 := by
  by_cases hjn : j = n
  · subst hjn
    simp only [if_true]
    unfold nib
    rw [Nat.mul_comm d, Nat.add_mul_div_left _ _ (pow16_pos j), Nat.div_eq_of_lt ha]
    omega
  · simp only [hjn, if_false]
    by_cases hlt : j < n
    · simp only [hlt, if_true]
      obtain ⟨e, rfl⟩ : ∃ e, n = j + 1 + e := ⟨n - j - 1, by omega⟩
      unfold nib
      have e1 : d * 16 ^ (j + 1 + e) = 16 ^ j * (16 * (16 ^ e * d)) := by
        rw [Nat.pow_add, Nat.pow_succ]
        simp only [Nat.mul_assoc, Nat.mul_comm, Nat.mul_left_comm]
      rw [e1, Nat.add_mul_div_left _ _ (pow16_pos j)]
      omega
    · simp only [hlt, if_false]
      apply nib_of_lt
      obtain ⟨e, rfl⟩ : ∃ e, j = n + 1 + e := ⟨j - n - 1, by omega⟩
      have h2 := Nat.mul_le_mul_right (16 ^ n) (show d ≤ 15 by omega)
      have h3 : 16 ^ (n + 1) ≤ 16 ^ (n + 1 + e) := Nat.pow_le_pow_right (by decide) (by omega)
      rw [Nat.pow_succ] at h3
      omega

theorem nib_halveFrom (w n j : Nat) :
    nib (halveFrom w n) j = if j < n then nib w j / 2 else 0 := by
  induction n with
  | zero => simp [halveFrom, nib]
  | succ n ih =>
    unfold halveFrom
    rw [nib_add_digit _ _ _ _ (halveFrom_lt w n) (by have := nib_lt w n; omega), ih]
    by_cases h1 : j = n
    · subst h1; simp
    · by_cases h2 : j < n
      · have : j < n + 1 := by omega
        simp [h1, h2, this]
      · have : ¬ j < n + 1 := by omega
        simp [h1, h2, this]

/-- A.4  every counter is floor-halved. -/
theorem nib_halveWord (w j : Nat) (hj : j < 16) : nib (halveWord w) j = nib w j / 2 := by
  unfold halveWord
  rw [nib_halveFrom]
  simp [hj]

theorem halveWord_zero : halveWord 0 = 0 := by decide

/-! ### `oddFrom` / `oddCount` and the counter sum of a word -/

/-- A.6  `oddCount` is the number of odd counters. -/
theorem oddFrom_eq_length (w n : Nat) :
    oddFrom w n = ((List.range n).filter (fun j => nib w j % 2 = 1)).length := by
  induction n with
  | zero => simp [oddFrom]
  | succ n ih =>
    unfold oddFrom
    rw [List.range_succ, List.filter_append, List.length_append, ← ih]
    by_cases h : nib w n % 2 = 1
    · simp [h]
    · have : nib w n % 2 = 0 := by omega
      simp [this]

theorem oddCount_eq_length (w : Nat) :
    oddCount w = ((List.range 16).filter (fun j => nib w j % 2 = 1)).length :=
  oddFrom_eq_length w 16

theorem oddFrom_le (w n : Nat) : oddFrom w n ≤ n := by
  induction n with
  | zero => simp [oddFrom]
  | succ n ih => unfold oddFrom; omega

theorem oddCount_le (w : Nat) : oddCount w ≤ 16 := oddFrom_le w 16

/-- Sum of the counters `0..n-1` of a word. -/
def sumFrom (w : Nat) : Nat → Nat
  | 0 => 0
  | j + 1 => sumFrom w j + nib w j

/-- Sum of the sixteen counters of a word. -/
def wordSum (w : Nat) : Nat := sumFrom w 16

theorem sumFrom_halve (w n : Nat) (hn : n ≤ 16) :
    2 * sumFrom (halveWord w) n + oddFrom w n = sumFrom w n := by
  induction n with
  | zero => simp [sumFrom, oddFrom]
  | succ n ih =>
    unfold sumFrom oddFrom
    rw [nib_halveWord w n (by omega)]
    have := ih (by omega)
    omega

/-- Halving a word: twice the new sum plus the number of odd counters is the old sum. -/
theorem wordSum_halve (w : Nat) : 2 * wordSum (halveWord w) + oddCount w = wordSum w :=
  sumFrom_halve w 16 (Nat.le_refl _)

theorem sumFrom_add_pow (w j n : Nat) (h : nib w j ≠ 15) :
    sumFrom (w + 16 ^ j) n = sumFrom w n + (if j < n then 1 else 0) := by
  induction n with
  | zero => simp [sumFrom]
  | succ n ih =>
    unfold sumFrom
    rw [ih]
    by_cases hjn : n = j
    · subst hjn
      rw [nib_add_pow_self w n h]
      simp; omega
    · rw [nib_add_pow_ne w n j h hjn]
      by_cases h1 : j < n
      · have : j < n + 1 := by omega
        simp [h1, this]; omega
      · have : ¬ j < n + 1 := by omega
        simp [h1, this]

theorem wordSum_add_pow (w j : Nat) (hj : j < 16) (h : nib w j ≠ 15) :
    wordSum (w + 16 ^ j) = wordSum w + 1 := by
  unfold wordSum
  rw [sumFrom_add_pow w j 16 h]
  simp [hj]

theorem wordSum_zero : wordSum 0 = 0 := by decide

theorem oddCount_le_wordSum (w : Nat) : oddCount w ≤ wordSum w := by
  have := wordSum_halve w; omega

theorem pow16_16 : (16 : Nat) ^ 16 = 2 ^ 64 := by decide

/-! ## §B  Tables -/

/-- Counter `j` of word `idx` of a table (0 outside the table). -/
def cntAt (t : Array Nat) (idx j : Nat) : Nat := nib (t.getD idx 0) j

/-- Saturating increment of a 4-bit counter. -/
def satInc (c : Nat) : Nat := min 15 (c + 1)

/-- Every word fits in 64 bits (`getD` is 0 outside the table, so no bound on `i`). -/
def WordsOK (t : Array Nat) : Prop := ∀ i, t.getD i 0 < 16 ^ 16

def sumBy (f : Nat → Nat) (t : Array Nat) : Nat := (t.toList.map f).sum

/-- Sum of all counters of the table. -/
def tableSum (t : Array Nat) : Nat := sumBy wordSum t

/-- Number of odd counters of the table: the `count` of `reset`. -/
def oddTotal (t : Array Nat) : Nat := sumBy oddCount t

theorem cntAt_le (t : Array Nat) (i j : Nat) : cntAt t i j ≤ 15 := nib_le _ _

theorem foldl_add_eq (f : Nat → Nat) (l : List Nat) (a : Nat) :
    l.foldl (fun c w => c + f w) a = a + (l.map f).sum := by
  induction l generalizing a with
  | nil => simp
  | cons x xs ih => simp [List.foldl, ih]; omega

theorem foldl_eq_sumBy (f : Nat → Nat) (t : Array Nat) :
    t.foldl (fun c w => c + f w) 0 = sumBy f t := by
  rw [← Array.foldl_toList, foldl_add_eq]; simp [sumBy]

theorem sum_map_set (f : Nat → Nat) (l : List Nat) (i v : Nat) (h : i < l.length) :
    ((l.set i v).map f).sum + f l[i] = (l.map f).sum + f v := by
  induction l generalizing i with
  | nil => simp at h
  | cons x xs ih =>
    cases i with
    | zero =>
      simp only [List.set_cons_zero, List.map_cons, List.sum_cons, List.getElem_cons_zero]
      omega
    | succ i =>
      have h' : i < xs.length := by simpa using h
      have := ih i h'
      simp only [List.set_cons_succ, List.map_cons, List.sum_cons, List.getElem_cons_succ]
      omega

theorem sumBy_setIfInBounds (f : Nat → Nat) (t : Array Nat) (i v : Nat) (h : i < t.size) :
    sumBy f (t.setIfInBounds i v) + f (t.getD i 0) = sumBy f t + f v := by
  unfold sumBy
  rw [Array.toList_setIfInBounds]
  have h' : i < t.toList.length := by simpa using h
  have := sum_map_set f t.toList i v h'
  simpa [Array.getD, h] using this

theorem sumBy_le_mul (f : Nat → Nat) (k : Nat) (hf : ∀ w, f w ≤ k) (t : Array Nat) :
    sumBy f t ≤ k * t.size := by
  unfold sumBy
  rw [← Array.length_toList]
  induction t.toList with
  | nil => simp
  | cons x xs ih =>
    have := hf x
    simp [Nat.mul_succ]; omega

theorem sumBy_le_sumBy (f g : Nat → Nat) (hfg : ∀ w, f w ≤ g w) (t : Array Nat) :
    sumBy f t ≤ sumBy g t := by
  unfold sumBy
  induction t.toList with
  | nil => simp
  | cons x xs ih => have := hfg x; simp; omega

theorem oddTotal_le_size (t : Array Nat) : oddTotal t ≤ 16 * t.size :=
  sumBy_le_mul oddCount 16 oddCount_le t

theorem oddTotal_le_tableSum (t : Array Nat) : oddTotal t ≤ tableSum t :=
  sumBy_le_sumBy _ _ oddCount_le_wordSum t

/-- Halving every word: twice the new counter sum plus the number of odd counters is the
old counter sum. -/
theorem tableSum_map_halve (t : Array Nat) :
    2 * tableSum (t.map halveWord) + oddTotal t = tableSum t := by
  unfold tableSum oddTotal sumBy
  rw [Array.toList_map]
  induction t.toList with
  | nil => simp
  | cons x xs ih =>
    have := wordSum_halve x
    simp only [List.map_cons, List.sum_cons]; omega

theorem tableSum_replicate_zero (n : Nat) : tableSum (Array.replicate n 0) = 0 := by
  unfold tableSum sumBy
  rw [Array.toList_replicate]
  induction n with
  | zero => simp
  | succ n ih => simp [List.replicate_succ, wordSum_zero]

theorem getD_setIfInBounds (t : Array Nat) (i k v : Nat) :
    (t.setIfInBounds i v).getD k 0 = if i = k ∧ i < t.size then v else t.getD k 0 := by
  simp only [Array.getD_eq_getD_getElem?, Array.getElem?_setIfInBounds]
  by_cases h1 : i = k
  · subst h1
    by_cases h2 : i < t.size
    · simp [h2]
    · simp [h2]
  · simp [h1]

theorem getD_map (f : Nat → Nat) (hf : f 0 = 0) (t : Array Nat) (i : Nat) :
    (t.map f).getD i 0 = f (t.getD i 0) := by
  simp only [Array.getD_eq_getD_getElem?, Array.getElem?_map]
  cases t[i]? with
  | none => exact hf.symm
  | some w => rfl

theorem getD_map_halve (t : Array Nat) (i : Nat) :
    (t.map halveWord).getD i 0 = halveWord (t.getD i 0) :=
  getD_map halveWord halveWord_zero t i

theorem getD_replicate_zero (n i : Nat) : (Array.replicate n 0).getD i 0 = 0 := by
  simp only [Array.getD_eq_getD_getElem?, Array.getElem?_replicate]
  split <;> simp

/-- Aging floor-halves every counter of the table. -/
theorem cntAt_map_halve (t : Array Nat) (i j : Nat) (hj : j < 16) :
    cntAt (t.map halveWord) i j = cntAt t i j / 2 := by
  unfold cntAt
  rw [getD_map_halve, nib_halveWord _ _ hj]

theorem wordsOK_map_halve (t : Array Nat) : WordsOK (t.map halveWord) := by
  intro i; rw [getD_map_halve]; exact halveWord_lt _

/-! ### `incrementAt` -/

theorem incrementAt_pos (t : Array Nat) (idx j : Nat) (h : nib (t.getD idx 0) j ≠ 15) :
    incrementAt t idx j = (t.setIfInBounds idx (t.getD idx 0 + 16 ^ j), true) := by
  show (if nib (t.getD idx 0) j ≠ 15 then (t.setIfInBounds idx (t.getD idx 0 + 16 ^ j), true)
      else (t, false)) = _
  rw [if_pos h]

theorem incrementAt_neg (t : Array Nat) (idx j : Nat) (h : nib (t.getD idx 0) j = 15) :
    incrementAt t idx j = (t, false) := by
  show (if nib (t.getD idx 0) j ≠ 15 then (t.setIfInBounds idx (t.getD idx 0 + 16 ^ j), true)
      else (t, false)) = _
  rw [if_neg (fun hh => hh h)]

theorem incrementAt_size (t : Array Nat) (idx j : Nat) :
    (incrementAt t idx j).1.size = t.size := by
  by_cases h : nib (t.getD idx 0) j = 15
  · rw [incrementAt_neg _ _ _ h]
  · rw [incrementAt_pos _ _ _ h]; exact Array.size_setIfInBounds

theorem incrementAt_added (t : Array Nat) (idx j : Nat) :
    (incrementAt t idx j).2 = true ↔ cntAt t idx j ≠ 15 := by
  unfold cntAt
  by_cases h : nib (t.getD idx 0) j = 15
  · rw [incrementAt_neg _ _ _ h]
    exact ⟨fun hh => Bool.noConfusion hh, fun hh => absurd h hh⟩
  · rw [incrementAt_pos _ _ _ h]
    exact ⟨fun _ => h, fun _ => rfl⟩

theorem incrementAt_wordsOK (t : Array Nat) (idx j : Nat) (hj : j < 16) (ht : WordsOK t) :
    WordsOK (incrementAt t idx j).1 := by
  by_cases h : nib (t.getD idx 0) j = 15
  · rw [incrementAt_neg _ _ _ h]; exact ht
  · rw [incrementAt_pos _ _ _ h]
    intro i
    show (t.setIfInBounds idx (t.getD idx 0 + 16 ^ j)).getD i 0 < 16 ^ 16
    rw [getD_setIfInBounds]
    split
    · exact add_pow_lt _ _ (ht idx) hj h
    · exact ht i

/-- The counter view of `incrementAt`: the addressed counter is saturating-incremented, every
other counter of the table is unchanged. -/
theorem incrementAt_cnt (t : Array Nat) (idx j x y : Nat) (hidx : idx < t.size) :
    cntAt (incrementAt t idx j).1 x y
      = if x = idx ∧ y = j then satInc (cntAt t x y) else cntAt t x y := by
  by_cases h : nib (t.getD idx 0) j = 15
  · rw [incrementAt_neg _ _ _ h]
    show cntAt t x y = _
    split
    · rename_i hxy
      obtain ⟨rfl, rfl⟩ := hxy
      unfold cntAt satInc; rw [h]; rfl
    · rfl
  · rw [incrementAt_pos _ _ _ h]
    show nib ((t.setIfInBounds idx (t.getD idx 0 + 16 ^ j)).getD x 0) y = _
    rw [getD_setIfInBounds]
    unfold cntAt
    by_cases hx : idx = x
    · subst hx
      rw [if_pos ⟨rfl, hidx⟩]
      by_cases hy : y = j
      · subst hy
        rw [if_pos ⟨rfl, rfl⟩, nib_add_pow_self _ _ h]
        have := nib_lt (t.getD idx 0) y
        unfold satInc
        omega
      · rw [if_neg (fun hh => hy hh.2)]
        exact nib_add_pow_ne _ _ _ h hy
    · rw [if_neg (fun hh => hx hh.1), if_neg (fun hh => hx hh.1.symm)]

theorem incrementAt_sum (t : Array Nat) (idx j : Nat) (hidx : idx < t.size) (hj : j < 16) :
    tableSum (incrementAt t idx j).1
      = tableSum t + (if (incrementAt t idx j).2 then 1 else 0) := by
  by_cases h : nib (t.getD idx 0) j = 15
  · rw [incrementAt_neg _ _ _ h]; simp
  · rw [incrementAt_pos _ _ _ h]
    have := sumBy_setIfInBounds wordSum t idx (t.getD idx 0 + 16 ^ j) hidx
    rw [wordSum_add_pow _ _ hj h] at this
    show sumBy wordSum (t.setIfInBounds idx (t.getD idx 0 + 16 ^ j)) = sumBy wordSum t + 1
    omega

/-! ## §C  Well-formedness, `ensureCapacity`, index bounds -/

/-- Well-formed sketch states. -/
def WF (s : Sketch) : Prop :=
  (∀ i, i < s.table.size → s.table.getD i 0 < 2 ^ 64) ∧
  (s.table.size = 0 ∨ s.mask + 1 = s.table.size) ∧
  s.mask < 2 ^ 32 ∧
  s.table.size ≤ 2 ^ 30

instance (s : Sketch) : Decidable (WF s) := by
  unfold WF; infer_instance

theorem WF.wordsOK {s : Sketch} (h : WF s) : WordsOK s.table := by
  intro i
  by_cases hi : i < s.table.size
  · rw [pow16_16]; exact h.1 i hi
  · have : s.table.getD i 0 = 0 := by simp [Array.getD, hi]
    rw [this]; exact pow16_pos 16

theorem wf_of_parts {s : Sketch} (h1 : WordsOK s.table)
    (h2 : s.table.size = 0 ∨ s.mask + 1 = s.table.size) (h3 : s.mask < 2 ^ 32)
    (h4 : s.table.size ≤ 2 ^ 30) : WF s :=
  ⟨fun i _ => by rw [← pow16_16]; exact h1 i, h2, h3, h4⟩

theorem wf_default : WF ({} : Sketch) := by decide

/-- `indexOf` depends on the sketch only through `mask`. -/
theorem indexOf_congr {s s' : Sketch} (h : s'.mask = s.mask) (hash : UInt64) (i : Nat) :
    indexOf s' hash i = indexOf s hash i := by
  unfold indexOf; rw [h]

theorem indexOf_le_mask (s : Sketch) (hash : UInt64) (i : Nat) (hm : s.mask < 2 ^ 64) :
    indexOf s hash i ≤ s.mask := by
  unfold indexOf
  simp only [UInt64.toNat_and]
  have : s.mask.toUInt64.toNat = s.mask := by
    show (UInt64.ofNat s.mask).toNat = _
    rw [UInt64.toNat_ofNat']; omega
  rw [this]; exact Nat.and_le_right

/-- Every table index computed by `indexOf` is in bounds. -/
theorem indexOf_lt {s : Sketch} (h : WF s) (hne : s.table.size ≠ 0) (hash : UInt64) (i : Nat) :
    indexOf s hash i < s.table.size := by
  have h2 := h.2.1
  have h3 := h.2.2.1
  have := indexOf_le_mask s hash i (by omega)
  omega

theorem start_le (hash : UInt64) : start hash ≤ 12 := by
  unfold start; omega

/-! ### `nextPow2` and `ensureCapacity` -/

theorem nextPow2Go_spec (n k fuel a : Nat) (hak : a ≤ k) (hn : n ≤ 2 ^ k) :
    ∃ b, b ≤ k ∧ nextPow2Go n fuel (2 ^ a) = 2 ^ b := by
  induction fuel generalizing a with
  | zero => exact ⟨a, hak, rfl⟩
  | succ fuel ih =>
    unfold nextPow2Go
    split
    · exact ⟨a, hak, rfl⟩
    · rename_i hlt
      have hlt' : 2 ^ a < 2 ^ k := by omega
      have hak' : a < k := (Nat.pow_lt_pow_iff_right (by decide)).1 hlt'
      have := ih (a + 1) hak'
      rwa [Nat.pow_succ, Nat.mul_comm] at this

theorem nextPow2_spec (n k : Nat) (hn : n ≤ 2 ^ k) : ∃ b, b ≤ k ∧ nextPow2 n = 2 ^ b := by
  have := nextPow2Go_spec n k 32 0 (Nat.zero_le _) hn
  simpa [nextPow2] using this

theorem nextPow2_le (n k : Nat) (hn : n ≤ 2 ^ k) : nextPow2 n ≤ 2 ^ k := by
  obtain ⟨b, hb, e⟩ := nextPow2_spec n k hn
  rw [e]; exact Nat.pow_le_pow_right (by decide) hb

theorem nextPow2_pos (n : Nat) (hn : n ≤ 2 ^ 30) : 0 < nextPow2 n := by
  obtain ⟨b, _, e⟩ := nextPow2_spec n 30 hn
  rw [e]; exact Nat.pow_pos (by decide)

/-- The table size chosen by `ensureCapacity`. -/
def tableSizeFor (cap : Nat) : Nat :=
  if min cap (2 ^ Gen.SKETCH_MAX_TABLE_POW) = 0 then 1
  else nextPow2 (min cap (2 ^ Gen.SKETCH_MAX_TABLE_POW))

theorem tableSizeFor_le (cap k : Nat) (hcap : cap ≤ 2 ^ k) :
    tableSizeFor cap ≤ 2 ^ k := by
  unfold tableSizeFor
  split
  · exact Nat.pow_pos (by decide)
  · apply nextPow2_le
    have : min cap (2 ^ Gen.SKETCH_MAX_TABLE_POW) ≤ cap := Nat.min_le_left _ _
    omega

theorem tableSizeFor_le_max (cap : Nat) : tableSizeFor cap ≤ 2 ^ 30 := by
  unfold tableSizeFor
  split
  · decide
  · apply nextPow2_le
    exact Nat.min_le_right _ _

theorem tableSizeFor_pos (cap : Nat) : 0 < tableSizeFor cap := by
  unfold tableSizeFor
  split
  · decide
  · apply nextPow2_pos
    exact Nat.min_le_right _ _

theorem ensureCapacity_eq (s : Sketch) (cap : Nat) :
    s.ensureCapacity cap =
      if s.table.size ≥ tableSizeFor cap then s
      else { s with
        table := Array.replicate (tableSizeFor cap) 0
        mask := tableSizeFor cap - 1
        sampleSize := if cap = 0 then Gen.SKETCH_ZERO_CAP_SAMPLE
          else min (min (min cap (2 ^ Gen.SKETCH_MAX_TABLE_POW) * Gen.SKETCH_SAMPLE_FACTOR)
                 U32_MAX) 2147483647 } := rfl

theorem wf_ensureCapacity (s : Sketch) (cap : Nat) (h : WF s) : WF (s.ensureCapacity cap) := by
  rw [ensureCapacity_eq]
  split
  · exact h
  · have h1 := tableSizeFor_le_max cap
    have h2 := tableSizeFor_pos cap
    apply wf_of_parts
    · intro i; simp only [getD_replicate_zero]; exact pow16_pos 16
    · right; simp only [Array.size_replicate]; omega
    · show tableSizeFor cap - 1 < 2 ^ 32
      omega
    · simpa using h1

/-- The start state of all runs. -/
def init (cap : Nat) : Sketch := ({} : Sketch).ensureCapacity cap

theorem init_eq (cap : Nat) :
    init cap =
      { sampleSize := if cap = 0 then 10 else min (min (min cap (2 ^ 30) * 10) U32_MAX) 2147483647
        mask := tableSizeFor cap - 1
        table := Array.replicate (tableSizeFor cap) 0
        size := 0 } := by
  have := tableSizeFor_pos cap
  unfold init
  rw [ensureCapacity_eq]
  have : ¬ (({} : Sketch).table.size ≥ tableSizeFor cap) := by
    show ¬ (0 ≥ tableSizeFor cap); omega
  rw [if_neg this]
  rfl

theorem wf_init (cap : Nat) : WF (init cap) := wf_ensureCapacity _ _ wf_default

theorem init_table_size (cap : Nat) : (init cap).table.size = tableSizeFor cap := by
  rw [init_eq]; simp

theorem init_table_ne (cap : Nat) : (init cap).table.size ≠ 0 := by
  have := tableSizeFor_pos cap
  rw [init_table_size]; omega

theorem init_sampleSize (cap : Nat) :
    10 ≤ (init cap).sampleSize ∧ (init cap).sampleSize ≤ 2147483647 := by
  rw [init_eq]
  show 10 ≤ (if cap = 0 then 10 else min (min (min cap (2 ^ 30) * 10) U32_MAX) 2147483647) ∧
    (if cap = 0 then 10 else min (min (min cap (2 ^ 30) * 10) U32_MAX) 2147483647) ≤ 2147483647
  unfold U32_MAX
  split <;> omega

/-! ## §D  One increment = `bump` (four `incrementAt`) followed, possibly, by an aging step

To keep the kernel away from unfolding `reset`/`incrementAt` on symbolic arguments, the shape
of `increment` is first established for *abstract* `inc`/`rst` functions. -/

/-- `increment` with the counter update, the aging step, the index function and the start
offset abstracted. -/
def incGen (inc : Array Nat → Nat → Nat → Array Nat × Bool) (rst : Sketch → Except Fault Sketch)
    (idx : Nat → Nat) (st : Nat) (s : Sketch) : Except Fault Sketch :=
  if s.table.size = 0 then .ok s
  else
    increment.match_1 (fun _ => Except Fault Sketch) (inc s.table (idx 0) (st + 0)) fun t a0 =>
    increment.match_1 (fun _ => Except Fault Sketch) (inc t (idx 1) (st + 1)) fun t a1 =>
    increment.match_1 (fun _ => Except Fault Sketch) (inc t (idx 2) (st + 2)) fun t a2 =>
    increment.match_1 (fun _ => Except Fault Sketch) (inc t (idx 3) (st + 3)) fun t a3 =>
    if a0 || a1 || a2 || a3 then
      if s.size + 1 > U32_MAX then .error .overflow
      else
        let s' := { s with table := t, size := s.size + 1 }
        if s'.size ≥ s'.sampleSize then rst s' else .ok s'
    else .ok { s with table := t }

theorem increment_eq_incGen (legacy : Bool) (s : Sketch) (hash : UInt64) :
    increment legacy s hash
      = incGen incrementAt (reset legacy) (s.indexOf hash) (start hash) s := rfl

/-- The four counter updates, projection style. -/
def bumpTableGen (inc : Array Nat → Nat → Nat → Array Nat × Bool) (idx : Nat → Nat) (st : Nat)
    (t : Array Nat) : Array Nat × Bool :=
  let r0 := inc t (idx 0) (st + 0)
  let r1 := inc r0.1 (idx 1) (st + 1)
  let r2 := inc r1.1 (idx 2) (st + 2)
  let r3 := inc r2.1 (idx 3) (st + 3)
  (r3.1, r0.2 || r1.2 || r2.2 || r3.2)

theorem incGen_eq (inc : Array Nat → Nat → Nat → Array Nat × Bool)
    (rst : Sketch → Except Fault Sketch) (idx : Nat → Nat) (st : Nat) (s : Sketch) :
    incGen inc rst idx st s =
      if s.table.size = 0 then .ok s
      else if (bumpTableGen inc idx st s.table).2 = true then
        if s.size + 1 > U32_MAX then .error .overflow
        else if s.size + 1 ≥ s.sampleSize then
          rst { s with table := (bumpTableGen inc idx st s.table).1, size := s.size + 1 }
        else .ok { s with table := (bumpTableGen inc idx st s.table).1, size := s.size + 1 }
      else .ok { s with table := (bumpTableGen inc idx st s.table).1 } := by
  unfold incGen bumpTableGen
  generalize inc s.table (idx 0) (st + 0) = r0
  obtain ⟨t0, a0⟩ := r0
  generalize inc t0 (idx 1) (st + 1) = r1
  obtain ⟨t1, a1⟩ := r1
  generalize inc t1 (idx 2) (st + 2) = r2
  obtain ⟨t2, a2⟩ := r2
  generalize inc t2 (idx 3) (st + 3) = r3
  obtain ⟨t3, a3⟩ := r3
  rfl

/-- The four `incrementAt` of `increment`, with the `added` flag. -/
def bumpTable (s : Sketch) (hash : UInt64) : Array Nat × Bool :=
  bumpTableGen incrementAt (s.indexOf hash) (start hash) s.table

/-- The state after the counters of `hash` were incremented and `size` was bumped, *before*
the aging step that this increment may trigger. -/
def bump (s : Sketch) (hash : UInt64) : Sketch :=
  { s with
    table := (bumpTable s hash).1
    size := if (bumpTable s hash).2 = true then s.size + 1 else s.size }

theorem bump_of_added (s : Sketch) (hash : UInt64) (h : (bumpTable s hash).2 = true) :
    bump s hash = { s with table := (bumpTable s hash).1, size := s.size + 1 } := by
  unfold bump; rw [if_pos h]

theorem bump_of_not_added (s : Sketch) (hash : UInt64) (h : ¬ (bumpTable s hash).2 = true) :
    bump s hash = { s with table := (bumpTable s hash).1 } := by
  unfold bump; rw [if_neg h]

/-- One `increment` that also reports whether it ran the aging step (`reset`). -/
def incrStep (s : Sketch) (hash : UInt64) : Except Fault (Sketch × Bool) :=
  if s.table.size = 0 then .ok (s, false)
  else if (bumpTable s hash).2 = true then
    if s.size + 1 > U32_MAX then .error .overflow
    else if s.size + 1 ≥ s.sampleSize then
      match reset false (bump s hash) with
      | .ok s' => .ok (s', true)
      | .error e => .error e
    else .ok (bump s hash, false)
  else .ok (bump s hash, false)

/-- Forget the aging flag. -/
def dropFlag : Except Fault (Sketch × Bool) → Except Fault Sketch
  | .ok p => .ok p.1
  | .error e => .error e

theorem increment_eq_bump (legacy : Bool) (s : Sketch) (hash : UInt64) :
    increment legacy s hash =
      if s.table.size = 0 then .ok s
      else if (bumpTable s hash).2 = true then
        if s.size + 1 > U32_MAX then .error .overflow
        else if s.size + 1 ≥ s.sampleSize then reset legacy (bump s hash)
        else .ok (bump s hash)
      else .ok (bump s hash) := by
  rw [increment_eq_incGen, incGen_eq]
  have e : bumpTableGen incrementAt (s.indexOf hash) (start hash) s.table = bumpTable s hash := rfl
  rw [e]
  by_cases ha : (bumpTable s hash).2 = true
  · rw [bump_of_added s hash ha, if_pos ha, if_pos ha]
  · rw [bump_of_not_added s hash ha, if_neg ha, if_neg ha]

/-- `incrStep` is `Sketch.increment false` plus the aging flag. -/
theorem increment_eq_incrStep (s : Sketch) (hash : UInt64) :
    increment false s hash = dropFlag (incrStep s hash) := by
  rw [increment_eq_bump]
  unfold incrStep
  generalize reset false (bump s hash) = r
  generalize bump s hash = b
  generalize (bumpTable s hash).2 = a
  split
  · rfl
  · split
    · split
      · rfl
      · split
        · cases r <;> rfl
        · rfl
    · rfl

/-! ### The effect of the four counter updates -/

/-- `(x, y)` is one of the four counter positions `(idx i, st + i)`. -/
def hitsGen (idx : Nat → Nat) (st x y : Nat) : Prop := ∃ i, i < 4 ∧ x = idx i ∧ y = st + i

instance (idx : Nat → Nat) (st x y : Nat) : Decidable (hitsGen idx st x y) := by
  unfold hitsGen; infer_instance

theorem bumpGen_size (idx : Nat → Nat) (st : Nat) (t : Array Nat) :
    (bumpTableGen incrementAt idx st t).1.size = t.size := by
  unfold bumpTableGen
  simp only [incrementAt_size]

theorem bumpGen_wordsOK (idx : Nat → Nat) (st : Nat) (t : Array Nat) (hst : st ≤ 12)
    (ht : WordsOK t) : WordsOK (bumpTableGen incrementAt idx st t).1 := by
  unfold bumpTableGen
  exact incrementAt_wordsOK _ _ _ (by omega) <| incrementAt_wordsOK _ _ _ (by omega) <|
    incrementAt_wordsOK _ _ _ (by omega) <| incrementAt_wordsOK _ _ _ (by omega) ht

theorem bumpGen_cnt (idx : Nat → Nat) (st : Nat) (t : Array Nat) (x y : Nat)
    (hidx : ∀ i, idx i < t.size) :
    cntAt (bumpTableGen incrementAt idx st t).1 x y
      = if hitsGen idx st x y then satInc (cntAt t x y) else cntAt t x y := by
  unfold bumpTableGen
  simp only []
  rw [incrementAt_cnt _ _ _ _ _ (by simp only [incrementAt_size]; exact hidx 3),
    incrementAt_cnt _ _ _ _ _ (by simp only [incrementAt_size]; exact hidx 2),
    incrementAt_cnt _ _ _ _ _ (by simp only [incrementAt_size]; exact hidx 1),
    incrementAt_cnt _ _ _ _ _ (hidx 0)]
  by_cases h : hitsGen idx st x y
  · rw [if_pos h]
    obtain ⟨i, hi, rfl, rfl⟩ := h
    have : i = 0 ∨ i = 1 ∨ i = 2 ∨ i = 3 := by omega
    rcases this with rfl | rfl | rfl | rfl <;> simp
  · rw [if_neg h]
    have h0 : ¬ (x = idx 0 ∧ y = st + 0) := fun hh => h ⟨0, by omega, hh.1, hh.2⟩
    have h1 : ¬ (x = idx 1 ∧ y = st + 1) := fun hh => h ⟨1, by omega, hh.1, hh.2⟩
    have h2 : ¬ (x = idx 2 ∧ y = st + 2) := fun hh => h ⟨2, by omega, hh.1, hh.2⟩
    have h3 : ¬ (x = idx 3 ∧ y = st + 3) := fun hh => h ⟨3, by omega, hh.1, hh.2⟩
    rw [if_neg h3, if_neg h2, if_neg h1, if_neg h0]

theorem incrementAt_sum' (t : Array Nat) (idx j : Nat) (hidx : idx < t.size) (hj : j < 16) :
    tableSum (incrementAt t idx j).1 = tableSum t + (incrementAt t idx j).2.toNat := by
  rw [incrementAt_sum t idx j hidx hj]
  cases (incrementAt t idx j).2 <;> rfl

theorem bool4 (b0 b1 b2 b3 : Bool) :
    b0.toNat + b1.toNat + b2.toNat + b3.toNat ≤ if (b0 || b1 || b2 || b3) = true then 4 else 0 := by
  revert b0 b1 b2 b3; decide

theorem bumpGen_sum (idx : Nat → Nat) (st : Nat) (t : Array Nat) (hst : st ≤ 12)
    (hidx : ∀ i, idx i < t.size) :
    tableSum (bumpTableGen incrementAt idx st t).1
      ≤ tableSum t + (if (bumpTableGen incrementAt idx st t).2 = true then 4 else 0) := by
  unfold bumpTableGen
  simp only []
  have e0 := incrementAt_sum' t (idx 0) (st + 0) (hidx 0) (by omega)
  have e1 := incrementAt_sum' (incrementAt t (idx 0) (st + 0)).1 (idx 1) (st + 1)
    (by simp only [incrementAt_size]; exact hidx 1) (by omega)
  have e2 := incrementAt_sum' (incrementAt (incrementAt t (idx 0) (st + 0)).1 (idx 1)
    (st + 1)).1 (idx 2) (st + 2) (by simp only [incrementAt_size]; exact hidx 2) (by omega)
  have e3 := incrementAt_sum' (incrementAt (incrementAt (incrementAt t (idx 0) (st + 0)).1
    (idx 1) (st + 1)).1 (idx 2) (st + 2)).1 (idx 3) (st + 3)
    (by simp only [incrementAt_size]; exact hidx 3) (by omega)
  have e4 := bool4 (incrementAt t (idx 0) (st + 0)).2
    (incrementAt (incrementAt t (idx 0) (st + 0)).1 (idx 1) (st + 1)).2
    (incrementAt (incrementAt (incrementAt t (idx 0) (st + 0)).1 (idx 1)
      (st + 1)).1 (idx 2) (st + 2)).2
    (incrementAt (incrementAt (incrementAt (incrementAt t (idx 0) (st + 0)).1
      (idx 1) (st + 1)).1 (idx 2) (st + 2)).1 (idx 3) (st + 3)).2
  omega

/-! ### Sketch-level statements about `bump` -/

/-- Counter position `(x, y)` is one of the four positions of `hash`. -/
def hits (s : Sketch) (hash : UInt64) (x y : Nat) : Prop :=
  hitsGen (s.indexOf hash) (start hash) x y

instance (s : Sketch) (hash : UInt64) (x y : Nat) : Decidable (hits s hash x y) := by
  unfold hits; infer_instance

theorem hits_congr {s s' : Sketch} (h : s'.mask = s.mask) (hash : UInt64) (x y : Nat) :
    hits s' hash x y ↔ hits s hash x y := by
  unfold hits hitsGen
  simp only [indexOf_congr h]

theorem hits_self (s : Sketch) (hash : UInt64) (i : Nat) (hi : i < 4) :
    hits s hash (s.indexOf hash i) (start hash + i) := ⟨i, hi, rfl, rfl⟩

/-! Projections of explicit records, with abstract fields: the kernel must never be asked to
compare a concrete table expression with `s.table` by unfolding. -/
theorem mk_sampleSize (a b : Nat) (c : Array Nat) (d : Nat) : (Sketch.mk a b c d).sampleSize = a := rfl
theorem mk_mask (a b : Nat) (c : Array Nat) (d : Nat) : (Sketch.mk a b c d).mask = b := rfl
theorem mk_table (a b : Nat) (c : Array Nat) (d : Nat) : (Sketch.mk a b c d).table = c := rfl
theorem mk_size (a b : Nat) (c : Array Nat) (d : Nat) : (Sketch.mk a b c d).size = d := rfl

theorem bump_mask (s : Sketch) (hash : UInt64) : (bump s hash).mask = s.mask := by
  unfold bump; exact mk_mask _ _ _ _
theorem bump_sampleSize (s : Sketch) (hash : UInt64) :
    (bump s hash).sampleSize = s.sampleSize := by
  unfold bump; exact mk_sampleSize _ _ _ _
theorem bump_table (s : Sketch) (hash : UInt64) : (bump s hash).table = (bumpTable s hash).1 := by
  unfold bump; exact mk_table _ _ _ _
theorem bump_size (s : Sketch) (hash : UInt64) :
    (bump s hash).size = if (bumpTable s hash).2 = true then s.size + 1 else s.size := by
  unfold bump; exact mk_size _ _ _ _

theorem bump_table_size (s : Sketch) (hash : UInt64) :
    (bump s hash).table.size = s.table.size := by
  rw [bump_table]; exact bumpGen_size (s.indexOf hash) (start hash) s.table

theorem wf_bump {s : Sketch} (h : WF s) (hash : UInt64) : WF (bump s hash) := by
  apply wf_of_parts
  · rw [bump_table]
    exact bumpGen_wordsOK (s.indexOf hash) (start hash) s.table (start_le hash) h.wordsOK
  · rw [bump_table_size, bump_mask]; exact h.2.1
  · rw [bump_mask]; exact h.2.2.1
  · rw [bump_table_size]; exact h.2.2.2

/-- `bump` saturating-increments exactly the four counters of `hash`. -/
theorem bump_cnt {s : Sketch} (h : WF s) (hne : s.table.size ≠ 0) (hash : UInt64) (x y : Nat) :
    cntAt (bump s hash).table x y
      = if hits s hash x y then satInc (cntAt s.table x y) else cntAt s.table x y := by
  rw [bump_table]
  exact bumpGen_cnt (s.indexOf hash) (start hash) s.table x y (fun i => indexOf_lt h hne hash i)

theorem bump_sum {s : Sketch} (h : WF s) (hne : s.table.size ≠ 0) (hash : UInt64) :
    tableSum (bump s hash).table
      ≤ tableSum s.table + (if (bumpTable s hash).2 = true then 4 else 0) := by
  rw [bump_table]
  exact bumpGen_sum (s.indexOf hash) (start hash) s.table (start_le hash)
    (fun i => indexOf_lt h hne hash i)

theorem bump_cnt_ge {s : Sketch} (h : WF s) (hne : s.table.size ≠ 0) (hash : UInt64) (x y : Nat) :
    cntAt s.table x y ≤ cntAt (bump s hash).table x y := by
  rw [bump_cnt h hne]
  unfold satInc
  have := cntAt_le s.table x y
  split <;> omega

/-! ### `frequency` through `cntAt` -/

theorem counterAt_eq (s : Sketch) (hash : UInt64) (i : Nat) :
    counterAt s hash i = cntAt s.table (s.indexOf hash i) (start hash + i) := rfl

theorem frequency_eq (s : Sketch) (hash : UInt64) (hne : s.table.size ≠ 0) :
    frequency s hash =
      min (min (counterAt s hash 0) (counterAt s hash 1))
          (min (counterAt s hash 2) (counterAt s hash 3)) := by
  unfold frequency; rw [if_neg hne]

theorem counterAt_le (s : Sketch) (hash : UInt64) (i : Nat) : counterAt s hash i ≤ 15 := by
  rw [counterAt_eq]; exact cntAt_le _ _ _

/-- C14 (1) at the level of single states. -/
theorem frequency_le (s : Sketch) (hash : UInt64) : frequency s hash ≤ 15 := by
  unfold frequency
  split
  · omega
  · have := counterAt_le s hash 0
    omega

theorem le_frequency_iff (s : Sketch) (hash : UInt64) (hne : s.table.size ≠ 0) (k : Nat) :
    k ≤ frequency s hash ↔ ∀ i, i < 4 → k ≤ counterAt s hash i := by
  rw [frequency_eq s hash hne]
  constructor
  · intro h i hi
    have : i = 0 ∨ i = 1 ∨ i = 2 ∨ i = 3 := by omega
    rcases this with rfl | rfl | rfl | rfl <;> omega
  · intro h
    have h0 := h 0 (by omega); have h1 := h 1 (by omega)
    have h2 := h 2 (by omega); have h3 := h 3 (by omega)
    omega

theorem frequency_le_counterAt (s : Sketch) (hash : UInt64) (hne : s.table.size ≠ 0) (i : Nat)
    (hi : i < 4) : frequency s hash ≤ counterAt s hash i :=
  (le_frequency_iff s hash hne _).1 (Nat.le_refl _) i hi

/-- Pointwise monotone change of the table, same mask: frequencies do not decrease. -/
theorem frequency_mono {s s' : Sketch} (hm : s'.mask = s.mask) (hne : s.table.size ≠ 0)
    (hne' : s'.table.size ≠ 0) (hc : ∀ x y, cntAt s.table x y ≤ cntAt s'.table x y)
    (hash : UInt64) : frequency s hash ≤ frequency s' hash := by
  rw [le_frequency_iff s' hash hne']
  intro i hi
  have h1 := frequency_le_counterAt s hash hne i hi
  rw [counterAt_eq] at h1 ⊢
  rw [indexOf_congr hm]
  exact Nat.le_trans h1 (hc _ _)

/-- Pointwise halving of the table, same mask: every frequency is floor-halved
(min commutes with floor-halving). -/
theorem frequency_halved {s s' : Sketch} (hm : s'.mask = s.mask)
    (hsz : s'.table.size = s.table.size)
    (hc : ∀ x y, y < 16 → cntAt s'.table x y = cntAt s.table x y / 2)
    (hash : UInt64) : frequency s' hash = frequency s hash / 2 := by
  by_cases hne : s.table.size = 0
  · unfold frequency; rw [if_pos hne, if_pos (hsz.trans hne)]
  · have hne' : s'.table.size ≠ 0 := by rw [hsz]; exact hne
    rw [frequency_eq s hash hne, frequency_eq s' hash hne']
    rw [counterAt_eq, counterAt_eq, counterAt_eq, counterAt_eq, counterAt_eq, counterAt_eq, counterAt_eq, counterAt_eq]
    rw [indexOf_congr hm, indexOf_congr hm, indexOf_congr hm, indexOf_congr hm]
    have hs := start_le hash
    rw [hc _ _ (show start hash + 0 < 16 by omega), hc _ _ (show start hash + 1 < 16 by omega),
      hc _ _ (show start hash + 2 < 16 by omega), hc _ _ (show start hash + 3 < 16 by omega)]
    generalize cntAt s.table (s.indexOf hash 0) (start hash + 0) = a
    generalize cntAt s.table (s.indexOf hash 1) (start hash + 1) = b
    generalize cntAt s.table (s.indexOf hash 2) (start hash + 2) = c
    generalize cntAt s.table (s.indexOf hash 3) (start hash + 3) = d
    omega

/-! ### `reset` -/

theorem reset_false_eq (s : Sketch) :
    reset false s =
      if oddTotal s.table > U32_MAX then .error .overflow
      else if s.size < oddTotal s.table / 4 then .error .overflow
      else .ok { s with table := s.table.map halveWord,
                        size := (s.size - oddTotal s.table / 4) / 2 } := by
  unfold reset oddTotal
  rw [foldl_eq_sumBy]
  rfl

theorem reset_true_eq (s : Sketch) :
    reset true s =
      if oddTotal s.table > U32_MAX then .error .overflow
      else if s.size / 2 < oddTotal s.table / 4 then .error .overflow
      else .ok { s with table := s.table.map halveWord,
                        size := s.size / 2 - oddTotal s.table / 4 } := by
  unfold reset oddTotal
  rw [foldl_eq_sumBy]
  rfl

/-- What a successful aging step does. -/
theorem reset_ok {s s' : Sketch} (h : reset false s = .ok s') :
    s'.table = s.table.map halveWord ∧ s'.mask = s.mask ∧ s'.sampleSize = s.sampleSize ∧
      s'.size = (s.size - oddTotal s.table / 4) / 2 ∧ oddTotal s.table ≤ U32_MAX ∧
      oddTotal s.table / 4 ≤ s.size := by
  rw [reset_false_eq] at h
  split at h
  · cases h
  · split at h
    · cases h
    · cases h
      exact ⟨mk_table _ _ _ _, mk_mask _ _ _ _, mk_sampleSize _ _ _ _, mk_size _ _ _ _,
        by omega, by omega⟩

theorem wf_reset {s s' : Sketch} (hwf : WF s) (h : reset false s = .ok s') : WF s' := by
  obtain ⟨ht, hm, _, _, _, _⟩ := reset_ok h
  apply wf_of_parts
  · rw [ht]; exact wordsOK_map_halve _
  · rw [ht, hm, Array.size_map]; exact hwf.2.1
  · rw [hm]; exact hwf.2.2.1
  · rw [ht, Array.size_map]; exact hwf.2.2.2

/-- An aging step floor-halves every counter. -/
theorem reset_cnt {s s' : Sketch} (h : reset false s = .ok s') (x y : Nat) (hy : y < 16) :
    cntAt s'.table x y = cntAt s.table x y / 2 := by
  rw [(reset_ok h).1]; exact cntAt_map_halve _ _ _ hy

/-- An aging step floor-halves every frequency estimate. -/
theorem reset_frequency {s s' : Sketch} (h : reset false s = .ok s') (hash : UInt64) :
    frequency s' hash = frequency s hash / 2 := by
  obtain ⟨ht, hm, _⟩ := reset_ok h
  exact frequency_halved hm (by rw [ht, Array.size_map]) (fun x y hy => reset_cnt h x y hy) hash

/-! ## §E  Case analysis of one step; the no-overflow invariant -/

theorem incrStep_empty {s : Sketch} (hash : UInt64) (h0 : s.table.size = 0) :
    incrStep s hash = .ok (s, false) := by
  unfold incrStep; rw [if_pos h0]

/-- The two ways a step on a non-empty table can succeed. -/
theorem incrStep_cases {s s' : Sketch} {r : Bool} {hash : UInt64} (hne : s.table.size ≠ 0)
    (h : incrStep s hash = .ok (s', r)) :
    (r = false ∧ s' = bump s hash ∧ ((bumpTable s hash).2 = true → s.size + 1 < s.sampleSize)) ∨
    (r = true ∧ reset false (bump s hash) = .ok s' ∧ (bumpTable s hash).2 = true ∧
      s.sampleSize ≤ s.size + 1) := by
  unfold incrStep at h
  rw [if_neg hne] at h
  generalize hres : reset false (bump s hash) = res at h
  generalize bump s hash = b at h hres ⊢
  generalize (bumpTable s hash).2 = a at h ⊢
  by_cases ha : a = true
  · rw [if_pos ha] at h
    by_cases ho : s.size + 1 > U32_MAX
    · rw [if_pos ho] at h; cases h
    · rw [if_neg ho] at h
      by_cases hs : s.size + 1 ≥ s.sampleSize
      · rw [if_pos hs] at h
        cases res with
        | error e => cases h
        | ok s2 =>
          cases h
          exact Or.inr ⟨rfl, rfl, ha, hs⟩
      · rw [if_neg hs] at h
        cases h
        exact Or.inl ⟨rfl, rfl, fun _ => by omega⟩
  · rw [if_neg ha] at h
    cases h
    exact Or.inl ⟨rfl, rfl, fun hh => absurd hh ha⟩

/-- The no-overflow invariant: the counters sum to at most `4 * size + 3`, and
`size < sampleSize ≤ i32::MAX` between increments. -/
def CInv (s : Sketch) : Prop :=
  tableSum s.table ≤ 4 * s.size + 3 ∧ s.size < s.sampleSize ∧ s.sampleSize ≤ 2147483647

theorem bump_sum_size {s : Sketch} (hwf : WF s) (hne : s.table.size ≠ 0) (hash : UInt64) :
    tableSum (bump s hash).table + 4 * s.size ≤ tableSum s.table + 4 * (bump s hash).size ∧
      s.size ≤ (bump s hash).size ∧ (bump s hash).size ≤ s.size + 1 ∧
      ((bumpTable s hash).2 = true → (bump s hash).size = s.size + 1) ∧
      (¬ (bumpTable s hash).2 = true → (bump s hash).size = s.size) := by
  have h1 := bump_sum hwf hne hash
  have h2 := bump_size s hash
  generalize tableSum (bump s hash).table = A at h1 ⊢
  generalize (bump s hash).size = B at h2 ⊢
  generalize tableSum s.table = C at h1 ⊢
  generalize (bumpTable s hash).2 = a at h1 h2 ⊢
  cases a
  · simp at h1 h2 ⊢; omega
  · simp at h1 h2 ⊢; omega

/-- Arithmetic heart of the repair: Caffeine's formula keeps `Σ ≤ 4·size + 3`. -/
theorem reset_arith (sumB sumR count n : Nat) (h1 : 2 * sumR + count = sumB)
    (h2 : sumB ≤ 4 * n + 3) : sumR ≤ 4 * ((n - count / 4) / 2) + 3 ∧ count / 4 ≤ n := by
  omega

theorem cinv_step {s s' : Sketch} {r : Bool} {hash : UInt64} (hwf : WF s)
    (hne : s.table.size ≠ 0) (hc : CInv s) (h : incrStep s hash = .ok (s', r)) : CInv s' := by
  obtain ⟨c1, c2, c3⟩ := hc
  obtain ⟨b1, b2, b3, b4, b5⟩ := bump_sum_size hwf hne hash
  have bs := bump_sampleSize s hash
  rcases incrStep_cases hne h with ⟨_, rfl, hlt⟩ | ⟨_, hres, ha, hge⟩
  · unfold CInv
    rw [bs]
    generalize tableSum (bump s hash).table = A at *
    generalize (bump s hash).size = B at *
    generalize tableSum s.table = C at *
    by_cases ha : (bumpTable s hash).2 = true
    · have := hlt ha; have := b4 ha
      exact ⟨by omega, by omega, c3⟩
    · have := b5 ha
      exact ⟨by omega, by omega, c3⟩
  · obtain ⟨rt, _, rs, rz, _, _⟩ := reset_ok hres
    have ht := tableSum_map_halve (bump s hash).table
    have := b4 ha
    unfold CInv
    rw [rt, rs, rz, bs]
    generalize tableSum (Array.map halveWord (bump s hash).table) = R at *
    generalize oddTotal (bump s hash).table = K at *
    generalize tableSum (bump s hash).table = A at *
    generalize (bump s hash).size = B at *
    generalize tableSum s.table = C at *
    have := reset_arith A R K B ht (by omega)
    exact ⟨this.1, by omega, c3⟩

/-- `increment false` preserves well-formedness (no other invariant needed). -/
theorem wf_step {s s' : Sketch} {r : Bool} {hash : UInt64} (hwf : WF s)
    (h : incrStep s hash = .ok (s', r)) : WF s' := by
  by_cases hne : s.table.size = 0
  · rw [incrStep_empty hash hne] at h
    cases h; exact hwf
  · rcases incrStep_cases hne h with ⟨_, rfl, _⟩ | ⟨_, hres, _, _⟩
    · exact wf_bump hwf hash
    · exact wf_reset (wf_bump hwf hash) hres

theorem dropFlag_ok {x : Except Fault (Sketch × Bool)} {s' : Sketch} (h : dropFlag x = .ok s') :
    ∃ r, x = .ok (s', r) := by
  cases x with
  | error e => cases h
  | ok p =>
    obtain ⟨a, b⟩ := p
    cases h
    exact ⟨b, rfl⟩

theorem wf_increment {s s' : Sketch} (hash : UInt64) (hwf : WF s)
    (h : increment false s hash = .ok s') : WF s' := by
  rw [increment_eq_incrStep] at h
  obtain ⟨r, hr⟩ := dropFlag_ok h
  exact wf_step hwf hr

/-- Mask, sample size and table size never change. -/
theorem step_frame {s s' : Sketch} {r : Bool} {hash : UInt64}
    (h : incrStep s hash = .ok (s', r)) :
    s'.mask = s.mask ∧ s'.sampleSize = s.sampleSize ∧ s'.table.size = s.table.size := by
  by_cases hne : s.table.size = 0
  · rw [incrStep_empty hash hne] at h
    cases h; exact ⟨rfl, rfl, rfl⟩
  · rcases incrStep_cases hne h with ⟨_, rfl, _⟩ | ⟨_, hres, _, _⟩
    · exact ⟨bump_mask s hash, bump_sampleSize s hash, bump_table_size s hash⟩
    · obtain ⟨rt, rm, rs, _⟩ := reset_ok hres
      refine ⟨by rw [rm, bump_mask], by rw [rs, bump_sampleSize], ?_⟩
      rw [rt, Array.size_map, bump_table_size]

/-- With the invariant and a table below `2^28` words a step cannot fault. -/
theorem step_ok {s : Sketch} (hwf : WF s) (hne : s.table.size ≠ 0) (hc : CInv s)
    (hsmall : s.table.size < 2 ^ 28) (hash : UInt64) :
    ∃ s' r, incrStep s hash = .ok (s', r) := by
  obtain ⟨c1, c2, c3⟩ := hc
  obtain ⟨b1, b2, b3, b4, b5⟩ := bump_sum_size hwf hne hash
  unfold incrStep
  rw [if_neg hne]
  by_cases ha : (bumpTable s hash).2 = true
  · rw [if_pos ha]
    have ho : ¬ s.size + 1 > U32_MAX := by unfold U32_MAX; omega
    rw [if_neg ho]
    by_cases hs : s.size + 1 ≥ s.sampleSize
    · rw [if_pos hs, reset_false_eq]
      have k1 := oddTotal_le_size (bump s hash).table
      have k2 := oddTotal_le_tableSum (bump s hash).table
      rw [bump_table_size] at k1
      have := b4 ha
      generalize oddTotal (bump s hash).table = K at *
      generalize tableSum (bump s hash).table = A at *
      generalize (bump s hash).size = B at *
      generalize tableSum s.table = C at *
      have n1 : ¬ K > U32_MAX := by unfold U32_MAX; omega
      have n2 : ¬ B < K / 4 := by omega
      rw [if_neg n1, if_neg n2]
      exact ⟨_, _, rfl⟩
    · rw [if_neg hs]; exact ⟨_, _, rfl⟩
  · rw [if_neg ha]; exact ⟨_, _, rfl⟩

/-! ## §F  Runs with the ghost count -/

/-- The ghost: for every hash, the number of times it was recorded, saturating at 15,
floor-halved at every aging step. -/
abbrev Ghost := UInt64 → Nat

/-- Update of the ghost when `h` is recorded; `aged` tells whether this very increment ran the
aging step. -/
def ghostStep (g : Ghost) (h : UInt64) (aged : Bool) : Ghost :=
  fun x => if aged then (if x = h then satInc (g x) else g x) / 2
           else (if x = h then satInc (g x) else g x)

/-- Record one hash: the model's `increment false` (through `incrStep`), and the ghost. -/
def stepG (st : Sketch × Ghost) (h : UInt64) : Except Fault (Sketch × Ghost) :=
  match incrStep st.1 h with
  | .ok p => .ok (p.1, ghostStep st.2 h p.2)
  | .error e => .error e

/-- Record a sequence of hashes. -/
def runG : Sketch × Ghost → List UInt64 → Except Fault (Sketch × Ghost)
  | st, [] => .ok st
  | st, h :: hs =>
    match stepG st h with
    | .ok st' => runG st' hs
    | .error e => .error e

/-- The same run on the model alone. -/
def run : Sketch → List UInt64 → Except Fault Sketch
  | s, [] => .ok s
  | s, h :: hs =>
    match increment false s h with
    | .ok s' => run s' hs
    | .error e => .error e

theorem runG_nil (st : Sketch × Ghost) : runG st [] = .ok st := rfl

theorem runG_cons (st : Sketch × Ghost) (h : UInt64) (hs : List UInt64) :
    runG st (h :: hs) = match stepG st h with
      | .ok st' => runG st' hs
      | .error e => .error e := rfl

theorem run_nil (s : Sketch) : run s [] = .ok s := rfl

theorem run_cons (s : Sketch) (h : UInt64) (hs : List UInt64) :
    run s (h :: hs) = match increment false s h with
      | .ok s' => run s' hs
      | .error e => .error e := rfl

theorem run_eq_foldlM (s : Sketch) (hs : List UInt64) :
    run s hs = hs.foldlM (increment false) s := by
  induction hs generalizing s with
  | nil => rfl
  | cons h hs ih =>
    rw [List.foldlM_cons, run_cons]
    generalize increment false s h = r
    cases r with
    | error e => rfl
    | ok s' => exact ih s'

/-- The ghost run projects onto the model run. -/
theorem run_of_runG (s : Sketch) (g : Ghost) (hs : List UInt64) :
    run s hs = match runG (s, g) hs with
      | .ok st => .ok st.1
      | .error e => .error e := by
  induction hs generalizing s g with
  | nil => rfl
  | cons h hs ih =>
    rw [run_cons, runG_cons]
    unfold stepG
    rw [increment_eq_incrStep]
    generalize incrStep s h = r
    cases r with
    | error e => rfl
    | ok p => exact ih p.1 _

theorem runG_append (st : Sketch × Ghost) (hs hs' : List UInt64) :
    runG st (hs ++ hs') = match runG st hs with
      | .ok st' => runG st' hs'
      | .error e => .error e := by
  induction hs generalizing st with
  | nil => rfl
  | cons h hs ih =>
    rw [List.cons_append, runG_cons, runG_cons]
    generalize stepG st h = r
    cases r with
    | error e => rfl
    | ok st' => exact ih st'

/-- Every prefix of a successful run is a successful run. -/
theorem runG_prefix_ok {st st' : Sketch × Ghost} {hs hs' : List UInt64}
    (h : runG st (hs ++ hs') = .ok st') : ∃ st1, runG st hs = .ok st1 ∧ runG st1 hs' = .ok st' := by
  rw [runG_append] at h
  generalize runG st hs = r at h
  cases r with
  | error e => cases h
  | ok st1 => exact ⟨st1, rfl, h⟩

theorem stepG_ok {s s' : Sketch} {g g' : Ghost} {h : UInt64}
    (hst : stepG (s, g) h = .ok (s', g')) :
    ∃ r, incrStep s h = .ok (s', r) ∧ g' = ghostStep g h r := by
  unfold stepG at hst
  generalize incrStep s h = res at hst
  cases res with
  | error e => cases hst
  | ok p =>
    obtain ⟨a, b⟩ := p
    cases hst
    exact ⟨b, rfl, rfl⟩

/-! ### Counters of a hash across `bump` and `reset` -/

theorem satInc_mono {a b : Nat} (h : a ≤ b) : satInc a ≤ satInc b := by
  unfold satInc; omega

theorem counterAt_bump {s : Sketch} (hwf : WF s) (hne : s.table.size ≠ 0) (h x : UInt64)
    (i : Nat) :
    counterAt (bump s h) x i =
      if hits s h (s.indexOf x i) (start x + i) then satInc (counterAt s x i)
      else counterAt s x i := by
  rw [counterAt_eq, counterAt_eq, indexOf_congr (bump_mask s h), bump_cnt hwf hne]

theorem counterAt_reset {s s' : Sketch} (h : reset false s = .ok s') (x : UInt64) (i : Nat)
    (hi : i < 4) : counterAt s' x i = counterAt s x i / 2 := by
  have hs := start_le x
  rw [counterAt_eq, counterAt_eq, indexOf_congr (reset_ok h).2.1,
    reset_cnt h _ _ (show start x + i < 16 by omega)]

/-- The invariant of runs started in `s0`, after the hashes `pre` were recorded. -/
structure RInv (s0 : Sketch) (pre : List UInt64) (s : Sketch) (g : Ghost) : Prop where
  wf : WF s
  ne : s.table.size ≠ 0
  cinv : CInv s
  mask : s.mask = s0.mask
  sample : s.sampleSize = s0.sampleSize
  tsize : s.table.size = s0.table.size
  /-- no counter of `h` is below the ghost count of `h` -/
  lower : ∀ h i, i < 4 → g h ≤ counterAt s h i
  /-- a counter of `h` that no other recorded hash uses equals the ghost count of `h` -/
  exact : ∀ h i, i < 4 →
    (∀ h', h' ∈ pre → h' ≠ h → ¬ hits s0 h' (s0.indexOf h i) (start h + i)) →
    counterAt s h i = g h
  /-- the ghost is itself a 4-bit value -/
  gle : ∀ h, g h ≤ 15

theorem rinv_step {s0 s s' : Sketch} {pre : List UInt64} {g g' : Ghost} {h : UInt64}
    (inv : RInv s0 pre s g) (hst : stepG (s, g) h = .ok (s', g')) :
    RInv s0 (pre ++ [h]) s' g' := by
  obtain ⟨r, hstep, rfl⟩ := stepG_ok hst
  obtain ⟨fm, fs, ft⟩ := step_frame hstep
  have hwf' := wf_step inv.wf hstep
  have hc' := cinv_step inv.wf inv.ne inv.cinv hstep
  -- the state between the counter updates and the aging step
  have lowerB : ∀ x i, i < 4 →
      (if x = h then satInc (g x) else g x) ≤ counterAt (bump s h) x i := by
    intro x i hi
    have l := inv.lower x i hi
    rw [counterAt_bump inv.wf inv.ne]
    by_cases hx : x = h
    · subst hx
      rw [if_pos rfl, if_pos (hits_self s x i hi)]
      exact satInc_mono l
    · rw [if_neg hx]
      split
      · have : counterAt s x i ≤ satInc (counterAt s x i) := by
          have := counterAt_le s x i; unfold satInc; omega
        exact Nat.le_trans l this
      · exact l
  have exactB : ∀ x i, i < 4 →
      (∀ h', h' ∈ pre ++ [h] → h' ≠ x → ¬ hits s0 h' (s0.indexOf x i) (start x + i)) →
      counterAt (bump s h) x i = (if x = h then satInc (g x) else g x) := by
    intro x i hi hfree
    have e := inv.exact x i hi (fun h' hm => hfree h' (List.mem_append_left _ hm))
    rw [counterAt_bump inv.wf inv.ne]
    by_cases hx : x = h
    · subst hx
      rw [if_pos rfl, if_pos (hits_self s x i hi), e]
    · have hn := hfree h (List.mem_append_right _ (List.mem_singleton.2 rfl)) (fun e => hx e.symm)
      rw [← indexOf_congr inv.mask, ← hits_congr inv.mask] at hn
      rw [if_neg hx, if_neg hn, e]
  have gleB : ∀ x, (if x = h then satInc (g x) else g x) ≤ 15 := by
    intro x
    have := inv.gle x
    unfold satInc
    split <;> omega
  refine ⟨hwf', by rw [ft]; exact inv.ne, hc', by rw [fm]; exact inv.mask,
    by rw [fs]; exact inv.sample, by rw [ft]; exact inv.tsize, ?_, ?_, ?_⟩
  · intro x i hi
    rcases incrStep_cases inv.ne hstep with ⟨rfl, rfl, _⟩ | ⟨rfl, hres, _, _⟩
    · exact lowerB x i hi
    · rw [counterAt_reset hres x i hi]
      show (if x = h then satInc (g x) else g x) / 2 ≤ _
      exact Nat.div_le_div_right (lowerB x i hi)
  · intro x i hi hfree
    rcases incrStep_cases inv.ne hstep with ⟨rfl, rfl, _⟩ | ⟨rfl, hres, _, _⟩
    · exact exactB x i hi hfree
    · rw [counterAt_reset hres x i hi, exactB x i hi hfree]
      rfl
  · intro x
    have := gleB x
    cases r
    · exact this
    · show (if x = h then satInc (g x) else g x) / 2 ≤ 15
      omega

theorem rinv_run {s0 : Sketch} {pre hs : List UInt64} {st st' : Sketch × Ghost}
    (inv : RInv s0 pre st.1 st.2) (h : runG st hs = .ok st') :
    RInv s0 (pre ++ hs) st'.1 st'.2 := by
  induction hs generalizing st pre with
  | nil =>
    cases h
    rw [List.append_nil]; exact inv
  | cons x hs ih =>
    rw [runG_cons] at h
    generalize hr : stepG st x = res at h
    cases res with
    | error e => cases h
    | ok st1 =>
      have i1 : RInv s0 (pre ++ [x]) st1.1 st1.2 := rinv_step (s := st.1) (g := st.2) inv hr
      have := ih i1 h
      rwa [List.append_assoc, List.singleton_append] at this

/-- With a table below `2^28` words a run from an invariant state never faults. -/
theorem run_ok_of_rinv {s0 : Sketch} {pre : List UInt64} {st : Sketch × Ghost}
    (inv : RInv s0 pre st.1 st.2) (hsmall : s0.table.size < 2 ^ 28) (hs : List UInt64) :
    ∃ st', runG st hs = .ok st' := by
  induction hs generalizing st pre with
  | nil => exact ⟨st, rfl⟩
  | cons x hs ih =>
    obtain ⟨s1, r, hstep⟩ :=
      step_ok inv.wf inv.ne inv.cinv (by rw [inv.tsize]; exact hsmall) x
    have hst : stepG st x = .ok (s1, ghostStep st.2 x r) := by
      unfold stepG; rw [hstep]
    have i1 := rinv_step (s := st.1) (g := st.2) inv hst
    obtain ⟨st', h'⟩ := ih (st := (s1, ghostStep st.2 x r)) i1
    exact ⟨st', by rw [runG_cons, hst]; exact h'⟩

/-! ### The initial state -/

/-- Nothing recorded yet. -/
def ghost0 : Ghost := fun _ => 0

theorem nib_zero (j : Nat) : nib 0 j = 0 := by
  unfold nib; rw [Nat.zero_div, Nat.zero_mod]

theorem init_table (cap : Nat) : (init cap).table = Array.replicate (tableSizeFor cap) 0 := by
  rw [init_eq]
theorem init_size (cap : Nat) : (init cap).size = 0 := by
  rw [init_eq]

theorem counterAt_init (cap : Nat) (h : UInt64) (i : Nat) : counterAt (init cap) h i = 0 := by
  rw [counterAt_eq, init_table]
  unfold cntAt
  rw [getD_replicate_zero, nib_zero]

theorem cinv_init (cap : Nat) : CInv (init cap) := by
  have h := init_sampleSize cap
  refine ⟨?_, ?_, h.2⟩
  · rw [init_table, tableSum_replicate_zero]; omega
  · rw [init_size]; omega

theorem rinv_init (cap : Nat) : RInv (init cap) [] (init cap) ghost0 where
  wf := wf_init cap
  ne := init_table_ne cap
  cinv := cinv_init cap
  mask := rfl
  sample := rfl
  tsize := rfl
  lower := fun _ _ _ => Nat.zero_le _
  exact := fun h i _ _ => counterAt_init cap h i
  gle := fun _ => Nat.zero_le _

/-- Every state of every run from `init cap` satisfies the run invariant. -/
theorem rinv_of_run {cap : Nat} {hs : List UInt64} {s : Sketch} {g : Ghost}
    (h : runG (init cap, ghost0) hs = .ok (s, g)) : RInv (init cap) hs s g := by
  have := rinv_run (st := (init cap, ghost0)) (pre := []) (rinv_init cap) h
  rwa [List.nil_append] at this

theorem init_small {cap : Nat} (hcap : cap ≤ 2 ^ 27) : (init cap).table.size < 2 ^ 28 := by
  rw [init_table_size]
  have := tableSizeFor_le cap 27 hcap
  omega

/-- Frequencies in terms of the ghost, for states satisfying the invariant. -/
theorem ghost_le_frequency {s0 s : Sketch} {pre : List UInt64} {g : Ghost}
    (inv : RInv s0 pre s g) (h : UInt64) : g h ≤ frequency s h :=
  (le_frequency_iff s h inv.ne _).2 (fun i hi => inv.lower h i hi)

theorem frequency_eq_ghost {s0 s : Sketch} {pre : List UInt64} {g : Ghost}
    (inv : RInv s0 pre s g) (h : UInt64) (i : Nat) (hi : i < 4)
    (hfree : ∀ h', h' ∈ pre → h' ≠ h → ¬ hits s0 h' (s0.indexOf h i) (start h + i)) :
    frequency s h = g h := by
  have h1 := ghost_le_frequency inv h
  have h2 := frequency_le_counterAt s h inv.ne i hi
  rw [inv.exact h i hi hfree] at h2
  omega

/-- A step without aging never lowers any frequency. -/
theorem frequency_step_mono {s s' : Sketch} {h' : UInt64} (hwf : WF s)
    (hstep : incrStep s h' = .ok (s', false)) (h : UInt64) :
    frequency s h ≤ frequency s' h := by
  by_cases hne : s.table.size = 0
  · rw [incrStep_empty h' hne] at hstep
    cases hstep; exact Nat.le_refl _
  · rcases incrStep_cases hne hstep with ⟨_, rfl, _⟩ | ⟨hr, _⟩
    · exact frequency_mono (bump_mask s h') hne (by rw [bump_table_size]; exact hne)
        (fun x y => bump_cnt_ge hwf hne h' x y) h
    · cases hr

theorem frequency_bump_mono {s : Sketch} (hwf : WF s) (hne : s.table.size ≠ 0) (h' h : UInt64) :
    frequency s h ≤ frequency (bump s h') h :=
  frequency_mono (bump_mask s h') hne (by rw [bump_table_size]; exact hne)
    (fun x y => bump_cnt_ge hwf hne h' x y) h

/-- A step with aging: the result is the aging step applied to `bump s h'`. -/
theorem step_aged {s s' : Sketch} {h' : UInt64} (hstep : incrStep s h' = .ok (s', true)) :
    reset false (bump s h') = .ok s' := by
  by_cases hne : s.table.size = 0
  · rw [incrStep_empty h' hne] at hstep
    cases hstep
  · rcases incrStep_cases hne hstep with ⟨hr, _⟩ | ⟨_, hres, _, _⟩
    · cases hr
    · exact hres

/-- The table bound for `count : u32` is tight at the level of tables: a table of `n` words
whose sixteen counters are all 1 has `16 * n` odd counters. -/
theorem oddTotal_all_ones (n : Nat) :
    oddTotal (Array.replicate n 0x1111111111111111) = 16 * n := by
  unfold oddTotal sumBy
  rw [Array.toList_replicate]
  induction n with
  | zero => rfl
  | succ n ih =>
    rw [List.replicate_succ, List.map_cons, List.sum_cons, ih]
    have : oddCount 0x1111111111111111 = 16 := by decide
    omega

/-! ## §G  The only possible fault; helpers for evaluating concrete runs -/

/-- In an invariant state the only way a step can fault is the `u32` counter of odd nibbles
in `reset` (`count`) exceeding `u32::MAX`; everything else (`size + 1`, `size - count/4`) is
safe. -/
theorem step_total {s : Sketch} (hwf : WF s) (hne : s.table.size ≠ 0) (hc : CInv s)
    (hash : UInt64) :
    (∃ s' r, incrStep s hash = .ok (s', r)) ∨
    (incrStep s hash = .error .overflow ∧ U32_MAX < oddTotal (bump s hash).table ∧
      s.sampleSize ≤ s.size + 1) := by
  obtain ⟨c1, c2, c3⟩ := hc
  obtain ⟨b1, b2, b3, b4, b5⟩ := bump_sum_size hwf hne hash
  unfold incrStep
  rw [if_neg hne]
  by_cases ha : (bumpTable s hash).2 = true
  · rw [if_pos ha]
    have ho : ¬ s.size + 1 > U32_MAX := by unfold U32_MAX; omega
    rw [if_neg ho]
    by_cases hs : s.size + 1 ≥ s.sampleSize
    · rw [if_pos hs, reset_false_eq]
      by_cases n1 : oddTotal (bump s hash).table > U32_MAX
      · rw [if_pos n1]
        exact Or.inr ⟨rfl, n1, hs⟩
      · rw [if_neg n1]
        have k2 := oddTotal_le_tableSum (bump s hash).table
        have := b4 ha
        have n2 : ¬ (bump s hash).size < oddTotal (bump s hash).table / 4 := by
          generalize oddTotal (bump s hash).table = K at *
          generalize tableSum (bump s hash).table = A at *
          generalize (bump s hash).size = B at *
          generalize tableSum s.table = C at *
          omega
        rw [if_neg n2]
        exact Or.inl ⟨_, _, rfl⟩
    · rw [if_neg hs]; exact Or.inl ⟨_, _, rfl⟩
  · rw [if_neg ha]; exact Or.inl ⟨_, _, rfl⟩

/-- What makes every check of one increment pass, spelled out: `size + 1` fits `u32`, `count`
fits `u32` (tables below `2^28` words), `count >> 2 ≤ size`. -/
theorem bump_safe {s : Sketch} (hwf : WF s) (hne : s.table.size ≠ 0) (hc : CInv s)
    (hsmall : s.table.size < 2 ^ 28) (hash : UInt64) (ha : (bumpTable s hash).2 = true) :
    s.size + 1 ≤ U32_MAX ∧ oddTotal (bump s hash).table ≤ U32_MAX ∧
      oddTotal (bump s hash).table / 4 ≤ (bump s hash).size := by
  obtain ⟨c1, c2, c3⟩ := hc
  obtain ⟨b1, b2, b3, b4, b5⟩ := bump_sum_size hwf hne hash
  have k1 := oddTotal_le_size (bump s hash).table
  have k2 := oddTotal_le_tableSum (bump s hash).table
  rw [bump_table_size] at k1
  have := b4 ha
  generalize oddTotal (bump s hash).table = K at *
  generalize tableSum (bump s hash).table = A at *
  generalize (bump s hash).size = B at *
  generalize tableSum s.table = C at *
  unfold U32_MAX
  omega

theorem increment_of_incrStep {s s' : Sketch} {r : Bool} {hash : UInt64}
    (h : incrStep s hash = .ok (s', r)) : increment false s hash = .ok s' := by
  rw [increment_eq_incrStep, h]; rfl

deriving instance DecidableEq for Sketch

instance (s : Sketch) : Decidable (CInv s) := by
  unfold CInv; infer_instance

/-- Boolean test of the outcome of a ghost run. -/
def checkRun (r : Except Fault (Sketch × Ghost)) (p : Sketch → Ghost → Bool) : Bool :=
  match r with
  | .ok st => p st.1 st.2
  | .error _ => false

theorem exists_of_checkRun {r : Except Fault (Sketch × Ghost)} {P : Sketch → Ghost → Prop}
    [∀ s g, Decidable (P s g)] (h : checkRun r (fun s g => decide (P s g)) = true) :
    ∃ s g, r = .ok (s, g) ∧ P s g := by
  cases r with
  | error e => cases h
  | ok st => exact ⟨st.1, st.2, rfl, of_decide_eq_true h⟩

def isOkEq (r : Except Fault Sketch) (s : Sketch) : Bool :=
  match r with
  | .ok s' => decide (s' = s)
  | .error _ => false

theorem eq_ok_of_isOkEq {r : Except Fault Sketch} {s : Sketch} (h : isOkEq r s = true) :
    r = .ok s := by
  cases r with
  | error e => cases h
  | ok s' => rw [of_decide_eq_true h]

def isOverflow (r : Except Fault Sketch) : Bool :=
  match r with
  | .error .overflow => true
  | _ => false

theorem eq_overflow_of_isOverflow {r : Except Fault Sketch} (h : isOverflow r = true) :
    r = .error .overflow := by
  cases r with
  | ok s => cases h
  | error e => cases e <;> first | rfl | cases h

/-! ### Witnesses used by the examples -/

/-- Capacity 3: table of 4 words (64 counters), `sampleSize = 30`.  The sixteen hashes of
`legacyCover` use the 64 counters exactly once each; after them seven of these hashes are
recorded twice more, minus the last recording: 29 increments, every counter is 1 or 3. -/
def legacyCover : List UInt64 :=
  [0, 28, 52, 212, 1, 37, 121, 241, 2, 78, 154, 338, 3, 47, 119, 123]

def legacyHs : List UInt64 :=
  legacyCover ++ [0, 0, 28, 28, 52, 52, 212, 212, 1, 1, 37, 37, 121]

/-- The state reached by `legacyHs` from `init 3`. -/
def legacyState : Sketch :=
  { sampleSize := 30, mask := 3,
    table := #[1229782938803188531, 1229782938282963763, 1229782938818851635,
               1229782938515878707],
    size := 29 }

end Sketch
end MiniMoka
