/-
  Counter invariant of the unsync model and the specifications of the eviction loops.
-/
import MiniMoka.Lemmas.UnsyncStruct

namespace MiniMoka
namespace Unsync

def totalW : List (Nat × UEntry) → Nat
  | [] => 0
  | (_, e) :: rest => e.weight + totalW rest

theorem totalW_erase {m : List (Nat × UEntry)} {k : Nat} {e : UEntry}
    (h : AL.get? m k = some e) : totalW (AL.erase m k) + e.weight = totalW m := by
  induction m with
  | nil => simp at h
  | cons a m ih =>
    obtain ⟨k', e'⟩ := a
    rw [AL.get?_cons] at h
    rw [AL.erase_cons]
    by_cases hk : k' = k
    · simp [hk] at h; subst h; simp [hk, totalW]; omega
    · simp [hk] at h; simp [hk, totalW]; have := ih h; omega

theorem totalW_put_none {m : List (Nat × UEntry)} {k : Nat} (e : UEntry)
    (h : AL.get? m k = none) : totalW (AL.put m k e) = totalW m + e.weight := by
  induction m with
  | nil => simp [AL.put, totalW]
  | cons a m ih =>
    obtain ⟨k', e'⟩ := a
    rw [AL.get?_cons] at h
    rw [AL.put_cons]
    by_cases hk : k' = k
    · simp [hk] at h
    · simp [hk] at h; simp [hk, totalW, ih h]; omega

theorem totalW_put_some {m : List (Nat × UEntry)} {k : Nat} {old : UEntry} (e : UEntry)
    (h : AL.get? m k = some old) : totalW (AL.put m k e) + old.weight = totalW m + e.weight := by
  induction m with
  | nil => simp at h
  | cons a m ih =>
    obtain ⟨k', e'⟩ := a
    rw [AL.get?_cons] at h
    rw [AL.put_cons]
    by_cases hk : k' = k
    · simp [hk] at h; subst h; simp [hk, totalW]; omega
    · simp [hk] at h; simp [hk, totalW]; have := ih h; omega

theorem weight_le_totalW {m : List (Nat × UEntry)} {k : Nat} {e : UEntry}
    (h : AL.get? m k = some e) : e.weight ≤ totalW m := by
  have := totalW_erase h; omega

/-- The model without any of the defect switches: the current (repaired) code. -/
def NoQuirks (p : Params) : Prop := p.q = {}

structure Counted (p : Params) (s : UState) : Prop where
  ec : s.ec = s.map.length
  ws : s.ws = totalW s.map
  weights : ∀ k e, AL.get? s.map k = some e → e.weight = p.weigh k e.val

/-- The invariant of the unsync cache between operations. -/
structure InvU (p : Params) (s : UState) : Prop where
  struct : Struct p s
  counted : Counted p s

/-- Result of an eviction loop started in `s` with accumulators `(c, w)`. -/
structure LoopSpec (p : Params) (s : UState) (c w : Nat) (r : UState × Nat × Nat) : Prop where
  struct : Struct p r.1
  env : SameEnv s r.1
  shrinks : Shrinks s r.1
  count : r.1.map.length + r.2.1 = s.map.length + c
  weight : totalW r.1.map + r.2.2 = totalW s.map + w
  probSub : ∀ n, n ∈ r.1.prob → n ∈ s.prob
  woSub : ∀ n, n ∈ r.1.wo → n ∈ s.wo

theorem LoopSpec.refl {p : Params} {s : UState} (hs : Struct p s) (c w : Nat) :
    LoopSpec p s c w (s, c, w) :=
  ⟨hs, SameEnv.refl s, Shrinks.refl s, rfl, rfl, fun _ h => h, fun _ h => h⟩

/-- One removal followed by the rest of the loop. -/
theorem LoopSpec.step {p : Params} {s : UState} {k : Nat} {e : UEntry} {c w : Nat}
    {r : UState × Nat × Nat} (hs : Struct p s) (hk : AL.get? s.map k = some e)
    (hr : LoopSpec p (takeOut s k e) (c + 1) (w + e.weight) r) : LoopSpec p s c w r := by
  obtain ⟨_, hto, _⟩ := takeOut_spec hs hk (by simp)
  refine ⟨hr.struct, hto.env.trans hr.env, hto.shrinks.trans hr.shrinks, ?_, ?_,
    fun n h => hto.probSub n (hr.probSub n h), fun n h => hto.woSub n (hr.woSub n h)⟩
  · have h1 := hr.count
    rw [hto.map] at h1
    have := AL.length_erase_of_get? hk
    omega
  · have h1 := hr.weight
    rw [hto.map] at h1
    have := totalW_erase hk
    omega

theorem evictLruLoop_spec {p : Params} (fuel : Nat) :
    ∀ (s : UState) (wte c w : Nat), Struct p s →
      LoopSpec p s c w (evictLruLoop fuel s wte c w) := by
  induction fuel with
  | zero => intro s wte c w hs; simpa [evictLruLoop] using LoopSpec.refl hs c w
  | succ fuel ih =>
    intro s wte c w hs
    unfold evictLruLoop
    by_cases hw : w ≥ wte
    · simpa [hw] using LoopSpec.refl hs c w
    · simp only [hw, if_false]
      cases hp : s.prob with
      | nil => simpa using LoopSpec.refl hs c w
      | cons n rest =>
        simp only
        obtain ⟨e, he, _⟩ := hs.aoBack n (by rw [hp]; exact List.mem_cons_self)
        simp only [he]
        obtain ⟨hs', _, _⟩ := takeOut_spec hs he (by simp)
        exact LoopSpec.step hs he (ih _ wte _ _ hs')

theorem removeExpiredAo_spec {p : Params} (fuel : Nat) :
    ∀ (s : UState) (c w : Nat), Struct p s →
      LoopSpec p s c w (removeExpiredAo p fuel s c w) := by
  induction fuel with
  | zero => intro s c w hs; simpa [removeExpiredAo] using LoopSpec.refl hs c w
  | succ fuel ih =>
    intro s c w hs
    unfold removeExpiredAo
    cases hp : s.prob with
    | nil => simpa using LoopSpec.refl hs c w
    | cons n rest =>
      simp only
      by_cases hx : expiredAt p.tti n.ts s.now = true
      · simp only [hx, if_true]
        obtain ⟨e, he, _⟩ := hs.aoBack n (by rw [hp]; exact List.mem_cons_self)
        simp only [he]
        obtain ⟨hs', _, _⟩ := takeOut_spec hs he (by simp)
        exact LoopSpec.step hs he (ih _ _ _ hs')
      · simpa [hx] using LoopSpec.refl hs c w

theorem removeExpiredWo_spec {p : Params} (hq : NoQuirks p) (fuel : Nat) :
    ∀ (s : UState) (c w : Nat), Struct p s →
      LoopSpec p s c w (removeExpiredWo p fuel s c w) := by
  have hd4 : p.q.d4 = false := by rw [hq]
  induction fuel with
  | zero => intro s c w hs; simpa [removeExpiredWo] using LoopSpec.refl hs c w
  | succ fuel ih =>
    intro s c w hs
    unfold removeExpiredWo
    cases hp : s.wo with
    | nil => simpa using LoopSpec.refl hs c w
    | cons n rest =>
      simp only
      by_cases hx : expiredAt p.ttl n.ts s.now = true
      · simp only [hx, if_true]
        obtain ⟨e, he, _⟩ := hs.woBack n (by rw [hp]; exact List.mem_cons_self)
        simp only [he, hd4]
        obtain ⟨hs', _, _⟩ := takeOut_spec hs he (by simp)
        exact LoopSpec.step hs he (ih _ _ _ hs')
      · simpa [hx] using LoopSpec.refl hs c w

end Unsync
end MiniMoka
