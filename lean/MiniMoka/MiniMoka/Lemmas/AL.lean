/-
  Lemmas about the association-list operations of `MiniMoka.Basic`.
-/
import MiniMoka.Basic

namespace MiniMoka
namespace AL

variable {β : Type}

@[simp] theorem get?_nil (x : Nat) : get? ([] : List (Nat × β)) x = none := rfl

@[simp] theorem keys_nil : keys ([] : List (Nat × β)) = [] := rfl

@[simp] theorem keys_cons (k : Nat) (v : β) (m : List (Nat × β)) :
    keys ((k, v) :: m) = k :: keys m := rfl

theorem get?_cons (k : Nat) (v : β) (m : List (Nat × β)) (x : Nat) :
    get? ((k, v) :: m) x = if k = x then some v else get? m x := rfl

theorem keys_eq_map (m : List (Nat × β)) : keys m = m.map (·.1) := by
  induction m with
  | nil => rfl
  | cons a m ih => obtain ⟨k, v⟩ := a; simp [ih]

theorem get?_eq_none_iff (m : List (Nat × β)) (x : Nat) : get? m x = none ↔ x ∉ keys m := by
  induction m with
  | nil => simp
  | cons a m ih =>
    obtain ⟨k, v⟩ := a
    simp only [get?_cons, keys_cons, List.mem_cons, not_or]
    by_cases h : k = x
    · simp [h]
    · have h2 : ¬ x = k := fun e => h e.symm
      simp [h, h2, ih]

theorem get?_isSome_iff (m : List (Nat × β)) (x : Nat) : (get? m x).isSome ↔ x ∈ keys m := by
  have := get?_eq_none_iff m x
  cases hg : get? m x with
  | none => simp [hg] at this; simp [this]
  | some v =>
    simp [hg] at this; simp [this]

theorem mem_keys_of_get? {m : List (Nat × β)} {x : Nat} {v : β} (h : get? m x = some v) :
    x ∈ keys m := by
  rw [← get?_isSome_iff, h]; rfl

theorem mem_of_get? {m : List (Nat × β)} {x : Nat} {v : β} (h : get? m x = some v) :
    (x, v) ∈ m := by
  induction m with
  | nil => simp at h
  | cons a m ih =>
    obtain ⟨k, w⟩ := a
    rw [get?_cons] at h
    by_cases hk : k = x
    · simp [hk] at h; simp [hk, h]
    · simp [hk] at h; exact List.mem_cons_of_mem _ (ih h)

theorem get?_of_mem {m : List (Nat × β)} {x : Nat} {v : β} (hn : (keys m).Nodup)
    (h : (x, v) ∈ m) : get? m x = some v := by
  induction m with
  | nil => simp at h
  | cons a m ih =>
    obtain ⟨k, w⟩ := a
    simp only [keys_cons, List.nodup_cons] at hn
    rw [get?_cons]
    rcases List.mem_cons.mp h with h | h
    · cases h; simp
    · have : x ∈ keys m := by rw [keys_eq_map]; exact List.mem_map.mpr ⟨(x, v), h, rfl⟩
      have hne : k ≠ x := fun e => hn.1 (e ▸ this)
      simp [hne, ih hn.2 h]

/-! ### erase -/

@[simp] theorem erase_nil (x : Nat) : erase ([] : List (Nat × β)) x = [] := rfl

theorem erase_cons (k : Nat) (v : β) (m : List (Nat × β)) (x : Nat) :
    erase ((k, v) :: m) x = if k = x then m else (k, v) :: erase m x := rfl

theorem mem_keys_erase_of_mem {m : List (Nat × β)} {x y : Nat} (h : y ∈ keys (erase m x)) :
    y ∈ keys m := by
  induction m with
  | nil => simp at h
  | cons a m ih =>
    obtain ⟨k, v⟩ := a
    rw [erase_cons] at h
    by_cases hk : k = x
    · simp [hk] at h; simp [h]
    · simp [hk] at h
      rcases h with h | h
      · simp [h]
      · simp [ih h]

theorem nodup_erase {m : List (Nat × β)} (x : Nat) (h : (keys m).Nodup) :
    (keys (erase m x)).Nodup := by
  induction m with
  | nil => simp
  | cons a m ih =>
    obtain ⟨k, v⟩ := a
    simp only [keys_cons, List.nodup_cons] at h
    rw [erase_cons]
    by_cases hk : k = x
    · simp [hk, h.2]
    · simp only [hk, if_false, keys_cons, List.nodup_cons]
      exact ⟨fun hm => h.1 (mem_keys_erase_of_mem hm), ih h.2⟩

theorem get?_erase_ne {m : List (Nat × β)} {x y : Nat} (h : x ≠ y) :
    get? (erase m x) y = get? m y := by
  induction m with
  | nil => rfl
  | cons a m ih =>
    obtain ⟨k, v⟩ := a
    rw [erase_cons]
    by_cases hk : k = x
    · have : k ≠ y := fun e => h (hk ▸ e)
      simp [hk, get?_cons]; intro e; exact absurd e h
    · simp only [hk, if_false, get?_cons, ih]

theorem get?_erase_self {m : List (Nat × β)} (x : Nat) (h : (keys m).Nodup) :
    get? (erase m x) x = none := by
  induction m with
  | nil => rfl
  | cons a m ih =>
    obtain ⟨k, v⟩ := a
    simp only [keys_cons, List.nodup_cons] at h
    rw [erase_cons]
    by_cases hk : k = x
    · simp only [hk, if_true]; rw [get?_eq_none_iff]; exact hk ▸ h.1
    · simp only [hk, if_false, get?_cons, ih h.2]

theorem get?_erase {m : List (Nat × β)} (x y : Nat) (h : (keys m).Nodup) :
    get? (erase m x) y = if x = y then none else get? m y := by
  by_cases hxy : x = y
  · subst hxy; simp [get?_erase_self x h]
  · simp [hxy, get?_erase_ne hxy]

theorem length_erase_of_get? {m : List (Nat × β)} {x : Nat} {v : β} (h : get? m x = some v) :
    (erase m x).length + 1 = m.length := by
  induction m with
  | nil => simp at h
  | cons a m ih =>
    obtain ⟨k, w⟩ := a
    rw [get?_cons] at h
    rw [erase_cons]
    by_cases hk : k = x
    · simp [hk]
    · simp [hk] at h; simp [hk, ih h]

theorem erase_of_get?_none {m : List (Nat × β)} {x : Nat} (h : get? m x = none) :
    erase m x = m := by
  induction m with
  | nil => rfl
  | cons a m ih =>
    obtain ⟨k, w⟩ := a
    rw [get?_cons] at h
    rw [erase_cons]
    by_cases hk : k = x
    · simp [hk] at h
    · simp [hk] at h; simp [hk, ih h]

/-! ### put -/

theorem put_cons (k : Nat) (v : β) (m : List (Nat × β)) (x : Nat) (b : β) :
    put ((k, v) :: m) x b = if k = x then (k, b) :: m else (k, v) :: put m x b := rfl

theorem get?_put_self (m : List (Nat × β)) (x : Nat) (b : β) : get? (put m x b) x = some b := by
  induction m with
  | nil => simp [put, get?_cons]
  | cons a m ih =>
    obtain ⟨k, v⟩ := a
    rw [put_cons]
    by_cases hk : k = x
    · simp [hk, get?_cons]
    · simp [hk, get?_cons, ih]

theorem get?_put_ne {m : List (Nat × β)} {x y : Nat} (b : β) (h : x ≠ y) :
    get? (put m x b) y = get? m y := by
  induction m with
  | nil => simp [put, get?_cons, h]
  | cons a m ih =>
    obtain ⟨k, v⟩ := a
    rw [put_cons]
    by_cases hk : k = x
    · simp [hk, get?_cons, h]
    · simp only [hk, if_false, get?_cons, ih]

theorem get?_put (m : List (Nat × β)) (x y : Nat) (b : β) :
    get? (put m x b) y = if x = y then some b else get? m y := by
  by_cases hxy : x = y
  · subst hxy; simp [get?_put_self]
  · simp [hxy, get?_put_ne b hxy]

theorem keys_put_of_mem {m : List (Nat × β)} {x : Nat} (b : β) (h : x ∈ keys m) :
    keys (put m x b) = keys m := by
  induction m with
  | nil => simp at h
  | cons a m ih =>
    obtain ⟨k, v⟩ := a
    rw [put_cons]
    by_cases hk : k = x
    · simp [hk]
    · simp only [keys_cons, List.mem_cons] at h
      rcases h with h | h
      · exact absurd h.symm hk
      · simp [hk, ih h]

theorem keys_put_of_not_mem {m : List (Nat × β)} {x : Nat} (b : β) (h : x ∉ keys m) :
    keys (put m x b) = keys m ++ [x] := by
  induction m with
  | nil => simp [put]
  | cons a m ih =>
    obtain ⟨k, v⟩ := a
    rw [put_cons]
    simp only [keys_cons, List.mem_cons, not_or] at h
    have hk : k ≠ x := fun e => h.1 e.symm
    simp [hk, ih h.2]

theorem nodup_put {m : List (Nat × β)} (x : Nat) (b : β) (h : (keys m).Nodup) :
    (keys (put m x b)).Nodup := by
  by_cases hx : x ∈ keys m
  · rw [keys_put_of_mem b hx]; exact h
  · rw [keys_put_of_not_mem b hx]
    exact List.nodup_append.mpr ⟨h, by simp, by
      intro a ha b' hb'; simp at hb'; subst hb'; exact fun e => hx (e ▸ ha)⟩

theorem length_put_of_none {m : List (Nat × β)} {x : Nat} (b : β) (h : get? m x = none) :
    (put m x b).length = m.length + 1 := by
  induction m with
  | nil => simp [put]
  | cons a m ih =>
    obtain ⟨k, v⟩ := a
    rw [get?_cons] at h
    rw [put_cons]
    by_cases hk : k = x
    · simp [hk] at h
    · simp [hk] at h; simp [hk, ih h]

theorem length_put_of_some {m : List (Nat × β)} {x : Nat} {v : β} (b : β) (h : get? m x = some v) :
    (put m x b).length = m.length := by
  induction m with
  | nil => simp at h
  | cons a m ih =>
    obtain ⟨k, w⟩ := a
    rw [get?_cons] at h
    rw [put_cons]
    by_cases hk : k = x
    · simp [hk]
    · simp [hk] at h; simp [hk, ih h]

end AL
end MiniMoka

namespace MiniMoka
namespace AL

variable {β : Type}

theorem put_put (m : List (Nat × β)) (k : Nat) (a b : β) : put (put m k a) k b = put m k b := by
  induction m with
  | nil => simp [put]
  | cons x m ih =>
    obtain ⟨k', v⟩ := x
    rw [put_cons]
    by_cases hk : k' = k
    · simp [hk, put_cons]
    · simp [hk, put_cons, ih]

theorem erase_put_of_none {m : List (Nat × β)} {k : Nat} (b : β) (h : get? m k = none) :
    erase (put m k b) k = m := by
  induction m with
  | nil => simp [put, erase]
  | cons x m ih =>
    obtain ⟨k', v⟩ := x
    rw [get?_cons] at h
    rw [put_cons]
    by_cases hk : k' = k
    · simp [hk] at h
    · simp [hk] at h; simp [hk, erase_cons, ih h]

end AL
end MiniMoka
