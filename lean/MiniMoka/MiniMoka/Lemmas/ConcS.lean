/-
  The invariant of `MiniMoka/ConcS.lean` (any number of threads, steps "map step /
  maintenance run / enqueue"): the node-ownership invariant of `Lemmas/SyncNodes.lean` and the
  counters invariant of `Lemmas/SyncCounters.lean`, for the logical write queue

      physical write queue ++ the write operations threads hold.

  `CInv` mentions its logical queue through membership only, so the order in which threads
  performed their map steps and the order in which they enqueue are irrelevant.
-/
import MiniMoka.ConcS
import MiniMoka.Lemmas.SyncCounters

namespace MiniMoka
namespace ConcS

open Sync Sync.Nodes Sync.Counters

/-! ### the pending list -/

theorem pendWrites_append_write (l : List (Tid × Pend)) (t : Tid) (op : WOp) :
    pendWrites (l ++ [(t, .write op)]) = pendWrites l ++ [op] := by
  induction l with
  | nil => rfl
  | cons x l ih =>
    obtain ⟨t', pd⟩ := x
    cases pd with
    | write op' => simp only [List.cons_append, pendWrites, ih]
    | read op' => simp only [List.cons_append, pendWrites, ih]

theorem pendWrites_append_read (l : List (Tid × Pend)) (t : Tid) (op : ROp) :
    pendWrites (l ++ [(t, .read op)]) = pendWrites l := by
  induction l with
  | nil => rfl
  | cons x l ih =>
    obtain ⟨t', pd⟩ := x
    cases pd with
    | write op' => simp only [List.cons_append, pendWrites, ih]
    | read op' => simp only [List.cons_append, pendWrites, ih]

theorem mem_pendWrites {l : List (Tid × Pend)} {op : WOp} :
    op ∈ pendWrites l ↔ ∃ t, (t, Pend.write op) ∈ l := by
  induction l with
  | nil => simp [pendWrites]
  | cons x l ih =>
    obtain ⟨t', pd⟩ := x
    cases pd with
    | write op' =>
      simp only [pendWrites, List.mem_cons, ih]
      constructor
      · rintro (e | ⟨t, ht⟩)
        · exact ⟨t', Or.inl (by rw [e])⟩
        · exact ⟨t, Or.inr ht⟩
      · rintro ⟨t, e | ht⟩
        · injection e with _ e2
          injection e2 with e3
          exact Or.inl e3
        · exact Or.inr ⟨t, ht⟩
    | read op' =>
      simp only [pendWrites, List.mem_cons, ih]
      constructor
      · rintro ⟨t, ht⟩; exact ⟨t, Or.inr ht⟩
      · rintro ⟨t, e | ht⟩
        · injection e with _ e2
          cases e2
        · exact ⟨t, ht⟩

theorem pendOf_none {l : List (Tid × Pend)} {t : Tid} (h : pendOf l t = none) :
    t ∉ l.map (·.1) := by
  induction l with
  | nil => simp
  | cons x l ih =>
    simp only [pendOf] at h
    by_cases e : x.1 = t
    · rw [if_pos e] at h; cases h
    · rw [if_neg e] at h
      simp only [List.map_cons, List.mem_cons, not_or]
      exact ⟨fun e' => e e'.symm, ih h⟩

theorem mem_dropPend {l : List (Tid × Pend)} {t : Tid} {x : Tid × Pend} :
    x ∈ dropPend l t ↔ x ∈ l ∧ x.1 ≠ t := by
  induction l with
  | nil => simp [dropPend]
  | cons y l ih =>
    simp only [dropPend]
    by_cases e : y.1 = t
    · rw [if_pos e, ih]
      constructor
      · rintro ⟨h1, h2⟩; exact ⟨List.mem_cons_of_mem _ h1, h2⟩
      · rintro ⟨h1, h2⟩
        rcases List.mem_cons.mp h1 with e' | h1
        · rw [e'] at h2; exact absurd e h2
        · exact ⟨h1, h2⟩
    · rw [if_neg e, List.mem_cons, ih]
      constructor
      · rintro (e' | ⟨h1, h2⟩)
        · rw [e']; exact ⟨List.mem_cons_self, e⟩
        · exact ⟨List.mem_cons_of_mem _ h1, h2⟩
      · rintro ⟨h1, h2⟩
        rcases List.mem_cons.mp h1 with e' | h1
        · exact Or.inl e'
        · exact Or.inr ⟨h1, h2⟩

theorem dropPend_tids_nodup {l : List (Tid × Pend)} (t : Tid) (h : (l.map (·.1)).Nodup) :
    ((dropPend l t).map (·.1)).Nodup := by
  induction l with
  | nil => exact List.nodup_nil
  | cons y l ih =>
    simp only [List.map_cons, List.nodup_cons] at h
    simp only [dropPend]
    by_cases e : y.1 = t
    · rw [if_pos e]; exact ih h.2
    · rw [if_neg e]
      simp only [List.map_cons, List.nodup_cons]
      refine ⟨?_, ih h.2⟩
      intro hm
      obtain ⟨z, hz, ez⟩ := List.mem_map.mp hm
      exact h.1 (List.mem_map.mpr ⟨z, (mem_dropPend.mp hz).1, ez⟩)

/-- With distinct thread ids the pending list is the entry of `t` plus the rest. -/
theorem mem_of_pendOf {l : List (Tid × Pend)} {t : Tid} {pd : Pend} (hn : (l.map (·.1)).Nodup)
    (h : pendOf l t = some pd) (x : Tid × Pend) : x ∈ l ↔ x = (t, pd) ∨ x ∈ dropPend l t := by
  induction l with
  | nil => cases h
  | cons y l ih =>
    simp only [List.map_cons, List.nodup_cons] at hn
    simp only [pendOf] at h
    simp only [dropPend]
    by_cases e : y.1 = t
    · rw [if_pos e] at h
      rw [if_pos e]
      have hy : y = (t, pd) := by
        obtain ⟨a, b⟩ := y
        simp only at e h
        rw [e, Option.some.inj h]
      have hnot : t ∉ l.map (·.1) := by rw [← e]; exact hn.1
      rw [List.mem_cons, hy, mem_dropPend]
      constructor
      · rintro (e' | h1)
        · exact Or.inl e'
        · exact Or.inr ⟨h1, fun e' => hnot (List.mem_map.mpr ⟨x, h1, e'⟩)⟩
      · rintro (e' | ⟨h1, _⟩)
        · exact Or.inl e'
        · exact Or.inr h1
    · rw [if_neg e] at h
      rw [if_neg e, List.mem_cons, List.mem_cons, ih hn.2 h]
      constructor
      · rintro (e' | e' | h1)
        · exact Or.inr (Or.inl e')
        · exact Or.inl e'
        · exact Or.inr (Or.inr h1)
      · rintro (e' | e' | h1)
        · exact Or.inr (Or.inl e')
        · exact Or.inl e'
        · exact Or.inr (Or.inr h1)

/-! ### the map steps -/

theorem CTop.of_mem {p : Params} {s : SState} {Q Q' : List WOp} (h : CTop p s Q)
    (hm : ∀ op, op ∈ Q' ↔ op ∈ Q) : CTop p s Q' :=
  CInv.of_mem (Q := Q) h hm

/-- The map step of `insert`: the node and map invariants are kept, the operation the thread
now holds joins the logical queue, the queues and the housekeeper are untouched. -/
theorem insertMap_inv {p : Params} (hq : NoQuirks p) {s : SState} {Q : List WOp}
    (ht : TopInv Sketch.Good s) (hc : CTop p s Q) (k v : Nat) :
    TopInv Sketch.Good (insertMap p s k v).1 ∧
    CTop p (insertMap p s k v).1 (Q ++ [(insertMap p s k v).2]) ∧
    (insertMap p s k v).1.writeQ = s.writeQ ∧ (insertMap p s k v).1.readQ = s.readQ ∧
    (insertMap p s k v).1.running = s.running := by
  have hd8 : p.q.d8 = false := by rw [hq]
  have hc : CInv p { s with cec := s.ec, cws := s.ws } Q := hc
  have hnc : NodesCore { s with cec := s.ec, cws := s.ws } :=
    ht.nodes.toNodesCore.congr (fun _ => rfl) (fun _ => rfl) (fun _ => rfl)
      (List.Perm.refl _) (List.Perm.refl _) (Nat.le_refl _)
  have hmo : MapOK { s with cec := s.ec, cws := s.ws } := ⟨ht.map.kn, ht.map.bound⟩
  unfold insertMap
  dsimp only
  split
  · rename_i old hg
    have hold := ht.map.bound k old hg
    dsimp only
    refine ⟨?_, ?_, rfl, rfl, rfl⟩
    · have h1 : TopInv Sketch.Good (refreshInfo p s old.info s.now (p.weigh k v)) :=
        ht.withInfo _ _ rfl rfl rfl
      have hm1 : (refreshInfo p s old.info s.now (p.weigh k v)).map = s.map := rfl
      have hn1 : (refreshInfo p s old.info s.now (p.weigh k v)).nextId = s.nextId := rfl
      generalize refreshInfo p s old.info s.now (p.weigh k v) = s1 at h1 hm1 hn1 ⊢
      refine ⟨⟨⟨h1.nodes.toNodesCore.congr (fun _ => rfl) (fun _ => rfl) (fun _ => rfl)
        (List.Perm.refl _) (List.Perm.refl _) (Nat.le_succ _), h1.nodes.count⟩, ?_,
        ⟨h1.sk.sk, h1.sk.skOff⟩⟩, h1.nofault⟩
      exact mapOK_put h1.map k _ (s1.nextId + 1) (by simp only; rw [hn1]; omega) (Nat.le_succ _) _
        rfl rfl rfl
    · refine CInv.put hc hnc hmo k (p.hash k)
        { id := s.nextId, val := v, info := old.info, slot := old.slot }
        (getInfo s old.info).weight (p.weigh k v) rfl (Nat.le_succ _) ?_ ?_ ?_ ?_ ?_
        (fun _ => ⟨k, old, hg, rfl⟩) rfl rfl rfl
      · intro j _
        show (getInfo (refreshInfo p s old.info s.now (p.weigh k v)) j).key = (getInfo s j).key ∧
          (getInfo (refreshInfo p s old.info s.now (p.weigh k v)) j).weight = (getInfo s j).weight ∧
          (getInfo (refreshInfo p s old.info s.now (p.weigh k v)) j).admitted
            = (getInfo s j).admitted ∧
          (j ≠ old.info → (getInfo (refreshInfo p s old.info s.now (p.weigh k v)) j).dirty = true →
            (getInfo s j).dirty = true)
        unfold refreshInfo
        rw [getInfo_withInfo]
        by_cases e : old.info = j
        · rw [if_pos e, ← e]
          simp only [hd8, Bool.false_eq_true, if_false, true_and]
          exact fun hne => absurd rfl hne
        · rw [if_neg e]; exact ⟨rfl, rfl, rfl, fun _ hd => hd⟩
      · show (getInfo (refreshInfo p s old.info s.now (p.weigh k v)) old.info).key = k
        unfold refreshInfo
        rw [getInfo_withInfo, if_pos rfl]
        exact hc.mapKey k old hg
      · exact ⟨Nat.lt_succ_of_lt hold, Nat.lt_succ_self _,
          Nat.lt_succ_of_lt (hc.mapId k old hg).2, Nat.le_refl _⟩
      · intro k' c hk'
        constructor
        · intro e; exact hc.slotInj k' k c old hk' hg e
        · intro e
          rw [e] at hk'
          have : old = c := Option.some.inj (hg.symm.trans hk')
          rw [this]
      · intro k' c hk'
        constructor
        · intro e
          have a1 := hc.mapKey k' c hk'
          have a2 := hc.mapKey k old hg
          rw [e] at a1
          exact a1.symm.trans a2
        · intro e
          rw [e] at hk'
          have : old = c := Option.some.inj (hg.symm.trans hk')
          rw [this]
  · rename_i hg
    dsimp only
    have hna := ht.nodes.infoFresh s.nextId (Nat.le_refl _)
    have hao := ht.nodes.toNodesCore.notAdm_ao hna
    have hwo := ht.nodes.toNodesCore.notAdm_wo hna
    refine ⟨?_, ?_, rfl, rfl, rfl⟩
    · refine ⟨⟨⟨ht.nodes.toNodesCore.congr ?_ ?_ ?_ (List.Perm.refl _) (List.Perm.refl _)
        (Nat.le_add_right _ 2), ht.nodes.count⟩, ?_, ⟨ht.sk.sk, ht.sk.skOff⟩⟩,
        ht.nofault⟩
      · intro j
        simp only [getInfo, AL.get?_put]
        by_cases e : s.nextId = j
        · subst e; simp only [if_true, Option.getD_some]; exact hao.symm
        · simp only [e, if_false]
      · intro j
        simp only [getInfo, AL.get?_put]
        by_cases e : s.nextId = j
        · subst e; simp only [if_true, Option.getD_some]; exact hwo.symm
        · simp only [e, if_false]
      · intro j
        simp only [getInfo, AL.get?_put]
        by_cases e : s.nextId = j
        · subst e; simp only [if_true, Option.getD_some]; exact hna.symm
        · simp only [e, if_false]
      · exact mapOK_put ht.map k _ (s.nextId + 2) (by simp only; omega)
          (Nat.le_add_right _ 2) _ rfl rfl rfl
    · refine CInv.put hc hnc hmo k (p.hash k)
        { id := s.nextId + 1, val := v, info := s.nextId, slot := s.nextId + 1 }
        0 (p.weigh k v) rfl (Nat.le_add_right _ 2) ?_ ?_ ?_ ?_ ?_ ?_ rfl rfl rfl
      · intro j hj
        have e : ¬ s.nextId = j := fun e => Nat.lt_irrefl _ (e ▸ hj)
        simp only [getInfo, AL.get?_put, if_neg e, true_and]
        exact fun _ hd => hd
      · simp only [getInfo, AL.get?_put, if_true, Option.getD_some]
      · refine ⟨?_, ?_, ?_, ?_⟩ <;> simp only <;> omega
      · intro k' c hk'
        constructor
        · intro e
          have := (hc.mapId k' c hk').2
          simp only at e this
          omega
        · intro e
          rw [e] at hk'
          rw [hg] at hk'; cases hk'
      · intro k' c hk'
        constructor
        · intro e
          have := hmo.bound k' c hk'
          simp only at e this
          omega
        · intro e
          rw [e] at hk'
          rw [hg] at hk'; cases hk'
      · intro hlt
        exact absurd hlt (Nat.lt_irrefl _)

/-- `insertMap` followed by `schedule_write_op` is `Sync.insert`. -/
theorem insert_eq (p : Params) (s : SState) (k v : Nat) :
    Sync.insert p s k v = scheduleWriteOp p 3 (insertMap p s k v).1 (insertMap p s k v).2 := by
  unfold Sync.insert insertMap
  dsimp only
  generalize AL.get? s.map k = o
  cases o <;> rfl

/-- The map step of `invalidate` that finds an entry. -/
theorem invalidateMap_inv {p : Params} {s : SState} {Q : List WOp}
    (ht : TopInv Sketch.Good s) (hc : CTop p s Q) (k : Nat) (op : WOp)
    (hop : (invalidateMap s k).2 = some op) :
    TopInv Sketch.Good (invalidateMap s k).1 ∧ CTop p (invalidateMap s k).1 (Q ++ [op]) ∧
    (invalidateMap s k).1.writeQ = s.writeQ ∧ (invalidateMap s k).1.readQ = s.readQ ∧
    (invalidateMap s k).1.running = s.running := by
  unfold invalidateMap at hop ⊢
  cases hg : AL.get? s.map k with
  | none => rw [hg] at hop; cases hop
  | some ve =>
    rw [hg] at hop
    dsimp only at hop ⊢
    have e := Option.some.inj hop
    subst e
    refine ⟨?_, ?_, rfl, rfl, rfl⟩
    · exact ⟨⟨⟨ht.nodes.toNodesCore.congr (fun _ => rfl) (fun _ => rfl) (fun _ => rfl)
        (List.Perm.refl _) (List.Perm.refl _) (Nat.le_refl _), ht.nodes.count⟩,
        ht.map.frame0 (frame0_erase s k), ⟨ht.sk.sk, ht.sk.skOff⟩⟩, ht.nofault⟩
    · exact CInv.invalidate (s := { s with cec := s.ec, cws := s.ws }) hc
        ⟨ht.map.kn, ht.map.bound⟩ hg

/-- `invalidateMap` followed by `schedule_write_op` is `Sync.invalidate`. -/
theorem invalidate_eq (p : Params) (s : SState) (k : Nat) :
    Sync.invalidate p s k = match (invalidateMap s k).2 with
      | some op => scheduleWriteOp p 3 (invalidateMap s k).1 op
      | none => s := by
  unfold Sync.invalidate invalidateMap
  generalize AL.get? s.map k = o
  cases o <;> rfl

/-- `lookup` followed by `record_read_op` is `Sync.get`. -/
theorem get_eq (p : Params) (s : SState) (k : Nat) :
    Sync.get p s k = (recordReadOp p s (lookup p s k).1, (lookup p s k).2) := by
  unfold Sync.get lookup
  dsimp only
  generalize AL.get? s.map k = o
  cases o with
  | none => rfl
  | some ve =>
    dsimp only
    split <;> rfl

/-! ### maintenance -/

/-- `Housekeeper::try_sync`, whatever operations threads hold: what is queued is applied,
what is held stays pending. -/
theorem trySync_ctop {p : Params} (hq : NoQuirks p) (hsm : SmallSketch p) {s : SState}
    (ex : List WOp) (ht : TopInv Sketch.Good s) (hr : s.running = false)
    (hc : CTop p s (s.writeQ ++ ex)) :
    TopInv Sketch.Good (trySync p s) ∧ CTop p (trySync p s) ((trySync p s).writeQ ++ ex) ∧
    (trySync p s).writeQ = [] ∧ (trySync p s).readQ = [] ∧ (trySync p s).running = false := by
  have hs := trySync_spec p s hr
  refine ⟨trySync_inv sketchLaws hq hsm ht, ?_, hs.writeQ, hs.readQ, hs.running⟩
  rw [hs.writeQ, List.nil_append]
  unfold trySync
  rw [if_neg (by rw [hr]; exact Bool.false_ne_true)]
  dsimp only
  have h0 : ∀ a, TopInv Sketch.Good { s with running := true, syncAfter := a } :=
    fun a => ht.of_eq rfl rfl rfl rfl rfl rfl rfl rfl rfl
  have c0 : ∀ a, CTop p { s with running := true, syncAfter := a }
      (({ s with running := true, syncAfter := a } : SState).writeQ ++ ex) :=
    fun a => hc.of_eq rfl rfl rfl rfl rfl rfl
  exact (syncRun_ctop sketchLaws hq hsm ex (h0 _) (c0 _)).of_eq rfl rfl rfl rfl rfl rfl

/-! ### the invariant -/

/-- The invariant of the reachable states of the many-thread system. -/
structure CSInv (p : Params) (c : CState) : Prop where
  top : TopInv Sketch.Good c.s
  running : c.s.running = false
  tids : (c.pending.map (·.1)).Nodup
  cinv : CTop p c.s (c.s.writeQ ++ pendWrites c.pending)
  wq : c.s.writeQ.length ≤ Gen.WRITE_LOG_SIZE
  rq : c.s.readQ.length ≤ Gen.READ_LOG_SIZE

theorem csinv_init (p : Params) : CSInv p {} :=
  ⟨init_inv sketchLaws, rfl, List.nodup_nil, (init_t p).c, Nat.zero_le _, Nat.zero_le _⟩

theorem tids_append {l : List (Tid × Pend)} {t : Tid} (x : Pend) (hn : (l.map (·.1)).Nodup)
    (h : pendOf l t = none) : ((l ++ [(t, x)]).map (·.1)).Nodup := by
  rw [List.map_append, List.nodup_append]
  refine ⟨hn, by simp, ?_⟩
  intro a ha b hb
  simp only [List.map_cons, List.map_nil, List.mem_singleton] at hb
  rw [hb]
  intro e
  exact pendOf_none h (e ▸ ha)

/-- Every step keeps the invariant. -/
theorem step_csinv {p : Params} (hq : NoQuirks p) (hsm : SmallSketch p) {c c' : CState}
    (h : CSInv p c) (e : Ev) (hs : step p c e = some c') : CSInv p c' := by
  cases e with
  | insMap t k v =>
    simp only [step] at hs
    cases hp : pendOf c.pending t with
    | some x => rw [hp] at hs; cases hs
    | none =>
      rw [hp] at hs
      have e := Option.some.inj hs
      subst e
      obtain ⟨a1, a2, a3, a4, a5⟩ := insertMap_inv hq h.top h.cinv k v
      refine ⟨a1, by rw [a5]; exact h.running, tids_append _ h.tids hp, ?_,
        by rw [a3]; exact h.wq, by rw [a4]; exact h.rq⟩
      show CTop p _ ((insertMap p c.s k v).1.writeQ ++
        pendWrites (c.pending ++ [(t, Pend.write (insertMap p c.s k v).2)]))
      rw [a3, pendWrites_append_write, ← List.append_assoc]
      exact a2
  | invMap t k =>
    simp only [step] at hs
    cases hp : pendOf c.pending t with
    | some x => rw [hp] at hs; cases hs
    | none =>
      rw [hp] at hs
      dsimp only at hs
      cases ho : (invalidateMap c.s k).2 with
      | none =>
        rw [ho] at hs
        have e := Option.some.inj hs
        subst e
        exact h
      | some op =>
        rw [ho] at hs
        have e := Option.some.inj hs
        subst e
        obtain ⟨a1, a2, a3, a4, a5⟩ := invalidateMap_inv h.top h.cinv k op ho
        refine ⟨a1, by rw [a5]; exact h.running, tids_append _ h.tids hp, ?_,
          by rw [a3]; exact h.wq, by rw [a4]; exact h.rq⟩
        show CTop p _ ((invalidateMap c.s k).1.writeQ ++
          pendWrites (c.pending ++ [(t, Pend.write op)]))
        rw [a3, pendWrites_append_write, ← List.append_assoc]
        exact a2
  | getMap t k =>
    simp only [step] at hs
    cases hp : pendOf c.pending t with
    | some x => rw [hp] at hs; cases hs
    | none =>
      rw [hp] at hs
      have e := Option.some.inj hs
      subst e
      refine ⟨h.top, h.running, tids_append _ h.tids hp, ?_, h.wq, h.rq⟩
      show CTop p c.s (c.s.writeQ ++ pendWrites (c.pending ++ [(t, Pend.read (lookup p c.s k).1)]))
      rw [pendWrites_append_read]
      exact h.cinv
  | maint t =>
    simp only [step, h.running, Bool.false_eq_true, if_false] at hs
    have e := Option.some.inj hs
    subst e
    obtain ⟨a1, a2, a3, a4, a5⟩ := trySync_ctop hq hsm _ h.top h.running h.cinv
    exact ⟨a1, a5, h.tids, a2, by show (trySync p c.s).writeQ.length ≤ _; rw [a3]; exact Nat.zero_le _,
      by show (trySync p c.s).readQ.length ≤ _; rw [a4]; exact Nat.zero_le _⟩
  | sync t =>
    simp only [step, h.running, Bool.false_eq_true, if_false] at hs
    have e := Option.some.inj hs
    subst e
    have hw := syncRun_writeQ p c.s
    have hr := syncRun_readQ p c.s
    refine ⟨syncRun_inv sketchLaws hq hsm h.top, (syncRun_running p c.s).trans h.running, h.tids, ?_,
      by show (syncRun p c.s).writeQ.length ≤ _; rw [hw]; exact Nat.zero_le _,
      by show (syncRun p c.s).readQ.length ≤ _; rw [hr]; exact Nat.zero_le _⟩
    show CTop p (syncRun p c.s) ((syncRun p c.s).writeQ ++ pendWrites c.pending)
    rw [hw, List.nil_append]
    exact syncRun_ctop sketchLaws hq hsm _ h.top h.cinv
  | enq t =>
    simp only [step] at hs
    cases hp : pendOf c.pending t with
    | none => rw [hp] at hs; cases hs
    | some pd =>
      rw [hp] at hs
      have hmem := mem_of_pendOf h.tids hp
      cases pd with
      | write op =>
        dsimp only at hs
        by_cases hl : c.s.writeQ.length < Gen.WRITE_LOG_SIZE
        · rw [if_pos hl] at hs
          have e := Option.some.inj hs
          subst e
          refine ⟨h.top.of_eq rfl rfl rfl rfl rfl rfl rfl rfl rfl, h.running,
            dropPend_tids_nodup t h.tids, ?_, ?_, h.rq⟩
          · have h1 : CTop p c.s ((c.s.writeQ ++ [op]) ++ pendWrites (dropPend c.pending t)) := by
              refine CTop.of_mem h.cinv ?_
              intro o
              simp only [List.mem_append, List.mem_singleton, mem_pendWrites]
              constructor
              · rintro ((h1 | h1) | ⟨t', h1⟩)
                · exact Or.inl h1
                · exact Or.inr ⟨t, by rw [h1]; exact (hmem _).mpr (Or.inl rfl)⟩
                · exact Or.inr ⟨t', (hmem _).mpr (Or.inr h1)⟩
              · rintro (h1 | ⟨t', h1⟩)
                · exact Or.inl (Or.inl h1)
                · rcases (hmem _).mp h1 with e' | h2
                  · injection e' with _ e2
                    injection e2 with e3
                    exact Or.inl (Or.inr e3)
                  · exact Or.inr ⟨t', h2⟩
            exact h1.of_eq rfl rfl rfl rfl rfl rfl
          · show (c.s.writeQ ++ [op]).length ≤ _
            rw [List.length_append]
            exact hl
        · rw [if_neg hl] at hs; cases hs
      | read op =>
        dsimp only at hs
        have hpw : ∀ o, o ∈ c.s.writeQ ++ pendWrites (dropPend c.pending t) ↔
            o ∈ c.s.writeQ ++ pendWrites c.pending := by
          intro o
          simp only [List.mem_append, mem_pendWrites]
          constructor
          · rintro (h1 | ⟨t', h1⟩)
            · exact Or.inl h1
            · exact Or.inr ⟨t', (hmem _).mpr (Or.inr h1)⟩
          · rintro (h1 | ⟨t', h1⟩)
            · exact Or.inl h1
            · rcases (hmem _).mp h1 with e' | h2
              · injection e' with _ e2
                cases e2
              · exact Or.inr ⟨t', h2⟩
        by_cases hl : c.s.readQ.length < Gen.READ_LOG_SIZE
        · rw [if_pos hl] at hs
          have e := Option.some.inj hs
          subst e
          refine ⟨h.top.of_eq rfl rfl rfl rfl rfl rfl rfl rfl rfl, h.running,
            dropPend_tids_nodup t h.tids, ?_, h.wq, ?_⟩
          · exact (CTop.of_mem h.cinv hpw).of_eq rfl rfl rfl rfl rfl rfl
          · show (c.s.readQ ++ [op]).length ≤ _
            rw [List.length_append]
            exact hl
        · rw [if_neg hl] at hs
          have e := Option.some.inj hs
          subst e
          exact ⟨h.top, h.running, dropPend_tids_nodup t h.tids, CTop.of_mem h.cinv hpw, h.wq, h.rq⟩
  | tick d =>
    simp only [step] at hs
    have e := Option.some.inj hs
    subst e
    exact ⟨h.top.of_eq rfl rfl rfl rfl rfl rfl rfl rfl rfl, h.running, h.tids,
      h.cinv.of_eq rfl rfl rfl rfl rfl rfl, h.wq, h.rq⟩
  | invAll t =>
    simp only [step] at hs
    have e := Option.some.inj hs
    subst e
    exact ⟨h.top.of_eq rfl rfl rfl rfl rfl rfl rfl rfl rfl, h.running, h.tids,
      h.cinv.of_eq rfl rfl rfl rfl rfl rfl, h.wq, h.rq⟩

theorem reach_csinv {p : Params} (hq : NoQuirks p) (hsm : SmallSketch p) {c : CState}
    (h : Reach p c) : CSInv p c := by
  induction h with
  | init => exact csinv_init p
  | step e _ hs ih => exact step_csinv hq hsm ih e hs

/-! ### what the invariant says about a state -/

/-- The map holds at most `entry_count + |write queue| + (threads holding a write)` entries. -/
theorem csinv_map_length_le {p : Params} {c : CState} (h : CSInv p c) :
    c.s.map.length ≤ c.s.ec + c.s.writeQ.length + (pendWrites c.pending).length := by
  have hc : CInv p { c.s with cec := c.s.ec, cws := c.s.ws } (c.s.writeQ ++ pendWrites c.pending) :=
    h.cinv
  have hnc := h.top.nodes
  let opKey : WOp → Nat := fun op => match op with
    | .upsert k _ _ _ _ => k
    | .remove k _ => k
  have h1 : (AL.keys c.s.map).length ≤
      (c.s.prob.map (·.key) ++ (c.s.writeQ ++ pendWrites c.pending).map opKey).length := by
    refine nodup_length_le _ _ h.top.map.kn ?_
    intro k hk
    obtain ⟨ve, hve⟩ : ∃ ve, AL.get? c.s.map k = some ve := by
      have := (AL.get?_isSome_iff c.s.map k).mpr hk
      cases hx : AL.get? c.s.map k with
      | none => rw [hx] at this; cases this
      | some ve => exact ⟨ve, rfl⟩
    rcases hc.cur k ve hve with ⟨hh, o, w, hq⟩ | ⟨hadm, _⟩
    · exact List.mem_append_right _ (List.mem_map.mpr ⟨_, hq, rfl⟩)
    · obtain ⟨id, hao⟩ := hnc.toNodesCore.adm_ao hadm
      obtain ⟨n, hn, _, hni⟩ := hnc.aoNode _ _ hao
      refine List.mem_append_left _ (List.mem_map.mpr ⟨n, hn, ?_⟩)
      have a1 := hc.nodeKey n hn
      have a2 := hc.mapKey k ve hve
      rw [hni] at a1
      exact a1.symm.trans a2
  rw [AL.keys_eq_map, List.length_map, List.length_append, List.length_map, List.length_map,
    List.length_append, ← hnc.count] at h1
  omega

/-- With nothing held and an empty write queue, the state (its read queue set aside) satisfies
the invariant of the one-thread model, so everything proved there applies. -/
theorem csinv_quiescent_tinv {p : Params} {c : CState} (h : CSInv p c) (hp : c.pending = [])
    (hw : c.s.writeQ = []) : TInv p { c.s with readQ := [] } [] := by
  refine ⟨h.top.of_eq rfl rfl rfl rfl rfl rfl rfl rfl rfl, ⟨h.running, ?_, Nat.zero_le _⟩, ?_⟩
  · show c.s.writeQ.length ≤ _
    rw [hw]; exact Nat.zero_le _
  · have h1 := h.cinv
    rw [hp] at h1
    exact h1.of_eq rfl rfl rfl rfl rfl rfl

/-! ### one thread: the paths of `ConcS` that are the steps of `Sync` -/

theorem pendOf_single (t : Tid) (x : Pend) : pendOf [(t, x)] t = some x := by
  simp [pendOf]

theorem dropPend_single (t : Tid) (x : Pend) : dropPend [(t, x)] t = [] := by
  simp [dropPend]

theorem runEvs_append (p : Params) (c : CState) (l1 l2 : List Ev) :
    runEvs p c (l1 ++ l2) = match runEvs p c l1 with
      | some c' => runEvs p c' l2
      | none => none := by
  induction l1 generalizing c with
  | nil => rfl
  | cons e l1 ih =>
    simp only [List.cons_append, runEvs]
    cases step p c e with
    | none => rfl
    | some c' => exact ih c'

/-- `schedule_write_op` of one thread is `[maint] ; enq`. -/
theorem path_scheduleWriteOp (p : Params) {s : SState} (hq : QInv s) (t : Tid) (op : WOp) :
    ∃ evs, runEvs p ⟨s, [(t, .write op)]⟩ evs = some ⟨scheduleWriteOp p 3 s op, []⟩ := by
  rw [scheduleWriteOp_enqueues p 2 hq]
  have hlt := Nat.lt_trans (housekeepW_spec p hq).2.1 wfp_lt_size
  unfold housekeepW at hlt ⊢
  by_cases ha : shouldApply s s.writeQ.length Gen.WRITE_LOG_FLUSH_POINT = true
  · rw [if_pos ha] at hlt ⊢
    refine ⟨[.maint t, .enq t], ?_⟩
    simp only [runEvs, step, hq.running, Bool.false_eq_true, if_false, pendOf_single, if_pos hlt,
      dropPend_single]
  · rw [if_neg ha] at hlt ⊢
    refine ⟨[.enq t], ?_⟩
    simp only [runEvs, step, pendOf_single, if_pos hlt, dropPend_single]

/-- `record_read_op` of one thread is `[maint] ; enq`. -/
theorem path_recordReadOp (p : Params) {s : SState} (hq : QInv s) (t : Tid) (op : ROp) :
    ∃ evs, runEvs p ⟨s, [(t, .read op)]⟩ evs = some ⟨recordReadOp p s op, []⟩ := by
  rw [recordReadOp_enqueues p hq]
  have hlt := Nat.lt_trans (housekeepR_spec p hq).2.1 rfp_lt_size
  unfold housekeepR at hlt ⊢
  by_cases ha : shouldApply s s.readQ.length Gen.READ_LOG_FLUSH_POINT = true
  · rw [if_pos ha] at hlt ⊢
    refine ⟨[.maint t, .enq t], ?_⟩
    simp only [runEvs, step, hq.running, Bool.false_eq_true, if_false, pendOf_single, if_pos hlt,
      dropPend_single]
  · rw [if_neg ha] at hlt ⊢
    refine ⟨[.enq t], ?_⟩
    simp only [runEvs, step, pendOf_single, if_pos hlt, dropPend_single]

theorem pendOf_nil (t : Tid) : pendOf [] t = none := rfl

/-- Every API call of the one-thread model is a path of the many-thread system run by a single
thread `t`: `insMap ; [maint] ; enq` for `insert`, `invMap ; [maint] ; enq` for `invalidate`,
`getMap ; [maint] ; enq` for `get`, `sync`, `tick`, `invAll`; the `maint` step is taken exactly
when `should_apply` says so (both regimes). -/
theorem path_of_step (p : Params) {s : SState} (hq : QInv s) (op : Op) (t : Tid) :
    ∃ evs, runEvs p ⟨s, []⟩ evs = some ⟨(Sync.step p s op).1, []⟩ := by
  unfold Sync.step
  by_cases hf : s.fault.isSome = true
  · rw [if_pos hf]; exact ⟨[], rfl⟩
  · rw [if_neg hf]
    dsimp only
    have key : ∀ r : SState × Obs, (∃ evs, runEvs p ⟨s, []⟩ evs = some ⟨r.1, []⟩) →
        ∃ evs, runEvs p ⟨s, []⟩ evs =
          some ⟨(match r.1.fault with | some f => (r.1, Obs.panic f) | none => r).1, []⟩ := by
      intro r hr
      split <;> exact hr
    apply key
    cases op with
    | ins k v =>
      show ∃ evs, runEvs p ⟨s, []⟩ evs = some ⟨Sync.insert p s k v, []⟩
      rw [insert_eq]
      have hqM : QInv (insertMap p s k v).1 := by
        unfold insertMap; dsimp only; split <;> exact qinv_of_eq hq rfl rfl rfl
      obtain ⟨evs, he⟩ := path_scheduleWriteOp p hqM t (insertMap p s k v).2
      refine ⟨.insMap t k v :: evs, ?_⟩
      simp only [runEvs, step, pendOf_nil, List.nil_append]
      exact he
    | get k =>
      show ∃ evs, runEvs p ⟨s, []⟩ evs = some ⟨(Sync.get p s k).1, []⟩
      rw [get_eq]
      obtain ⟨evs, he⟩ := path_recordReadOp p hq t (lookup p s k).1
      refine ⟨.getMap t k :: evs, ?_⟩
      simp only [runEvs, step, pendOf_nil, List.nil_append]
      exact he
    | has k => exact ⟨[], rfl⟩
    | iter => exact ⟨[], rfl⟩
    | inv k =>
      show ∃ evs, runEvs p ⟨s, []⟩ evs = some ⟨Sync.invalidate p s k, []⟩
      rw [invalidate_eq]
      cases ho : (invalidateMap s k).2 with
      | none =>
        refine ⟨[.invMap t k], ?_⟩
        simp only [runEvs, step, pendOf_nil, ho]
      | some wop =>
        have hqM : QInv (invalidateMap s k).1 := by
          unfold invalidateMap; split <;> exact qinv_of_eq hq rfl rfl rfl
        obtain ⟨evs, he⟩ := path_scheduleWriteOp p hqM t wop
        refine ⟨.invMap t k :: evs, ?_⟩
        simp only [runEvs, step, pendOf_nil, ho, List.nil_append]
        exact he
    | invAll => exact ⟨[.invAll t], rfl⟩
    | invIf pr => exact ⟨[], rfl⟩
    | sync =>
      refine ⟨[.sync t], ?_⟩
      simp only [runEvs, step, hq.running, Bool.false_eq_true, if_false]
    | adv d => exact ⟨[.tick d], rfl⟩
    | snap => exact ⟨[], rfl⟩
    | freq k => exact ⟨[], rfl⟩

/-! ### progress -/

theorem step_maint_eq (p : Params) {c : CState} (hr : c.s.running = false) (t : Tid) :
    step p c (.maint t) = some { c with s := trySync p c.s } := by
  simp only [step, hr, Bool.false_eq_true, if_false]

theorem step_sync_eq' (p : Params) {c : CState} (hr : c.s.running = false) (t : Tid) :
    step p c (.sync t) = some { c with s := syncRun p c.s } := by
  simp only [step, hr, Bool.false_eq_true, if_false]

/-- Enqueuing what thread `t` holds is enabled as soon as the write queue has room (always,
for a read), and the thread is idle afterwards. -/
theorem step_enq_enabled (p : Params) {c : CState} {t : Tid} {pd : Pend}
    (hp : pendOf c.pending t = some pd)
    (hroom : ∀ op, pd = .write op → c.s.writeQ.length < Gen.WRITE_LOG_SIZE) :
    ∃ c', step p c (.enq t) = some c' ∧ c'.pending = dropPend c.pending t := by
  simp only [step, hp]
  cases pd with
  | write op =>
    dsimp only
    rw [if_pos (hroom op rfl)]
    exact ⟨_, rfl, rfl⟩
  | read op =>
    dsimp only
    by_cases hl : c.s.readQ.length < Gen.READ_LOG_SIZE
    · rw [if_pos hl]; exact ⟨_, rfl, rfl⟩
    · rw [if_neg hl]; exact ⟨_, rfl, rfl⟩

/-- After one maintenance run (by any thread `t'`) thread `t` can enqueue what it holds. -/
theorem maint_then_enq (p : Params) {c : CState} (hr : c.s.running = false) {t : Tid} {pd : Pend}
    (hp : pendOf c.pending t = some pd) (t' : Tid) :
    ∃ c1 c2, step p c (.maint t') = some c1 ∧ step p c1 (.enq t) = some c2 ∧
      c2.pending = dropPend c.pending t := by
  refine ⟨{ c with s := trySync p c.s }, ?_⟩
  have hw := (trySync_spec p c.s hr).writeQ
  obtain ⟨c2, h2, h3⟩ := step_enq_enabled p (c := { c with s := trySync p c.s }) (t := t) hp
    (fun op _ => by
      show (trySync p c.s).writeQ.length < _
      rw [hw]; decide)
  exact ⟨c2, step_maint_eq p hr t', h2, h3⟩

theorem dropPend_length_le (l : List (Tid × Pend)) (t : Tid) : (dropPend l t).length ≤ l.length := by
  induction l with
  | nil => exact Nat.le_refl _
  | cons x l ih =>
    simp only [dropPend]
    split
    · exact Nat.le_succ_of_le ih
    · exact Nat.succ_le_succ ih

theorem dropPend_head_length (t : Tid) (pd : Pend) (l : List (Tid × Pend)) :
    (dropPend ((t, pd) :: l) t).length ≤ l.length := by
  simp only [dropPend, if_true]
  exact dropPend_length_le l t

theorem pendOf_head (t : Tid) (pd : Pend) (l : List (Tid × Pend)) :
    pendOf ((t, pd) :: l) t = some pd := by
  simp only [pendOf, if_true]

/-- From every reachable state every started call can complete: two events (`maint`, `enq`) per
thread that holds an operation lead to a state in which nobody holds anything. -/
theorem drain {p : Params} (hq : NoQuirks p) (hsm : SmallSketch p) : ∀ (n : Nat) (c : CState),
    Reach p c → c.pending.length ≤ n →
      ∃ evs c', evs.length ≤ 2 * n ∧ runEvs p c evs = some c' ∧ c'.pending = [] ∧ Reach p c' := by
  intro n
  induction n with
  | zero =>
    intro c hr hn
    exact ⟨[], c, Nat.le_refl _, rfl, List.eq_nil_of_length_eq_zero (Nat.le_zero.mp hn), hr⟩
  | succ n ih =>
    intro c hr hn
    cases hp : c.pending with
    | nil => exact ⟨[], c, Nat.zero_le _, rfl, hp, hr⟩
    | cons x rest =>
      obtain ⟨t, pd⟩ := x
      have hrun := (reach_csinv hq hsm hr).running
      have hpo : pendOf c.pending t = some pd := by rw [hp]; exact pendOf_head t pd rest
      obtain ⟨c1, c2, h1, h2, h3⟩ := maint_then_enq p hrun hpo t
      have hr2 : Reach p c2 := Reach.step _ (Reach.step _ hr h1) h2
      have hlen : c2.pending.length ≤ n := by
        rw [h3, hp]
        have := dropPend_head_length t pd rest
        rw [hp, List.length_cons] at hn
        omega
      obtain ⟨evs, c', e1, e2, e3, e4⟩ := ih c2 hr2 hlen
      refine ⟨.maint t :: .enq t :: evs, c', ?_, ?_, e3, e4⟩
      · simp only [List.length_cons]; omega
      · simp only [runEvs, h1, h2]
        exact e2

end ConcS
end MiniMoka
