/-
  Capacity bound (C04) on the unsync model: how each operation moves `weighted_size`
  relative to `max_capacity`.
-/
import MiniMoka.Lemmas.UnsyncNoLoss
import MiniMoka.Lemmas.SketchLaws

namespace MiniMoka
namespace Unsync

/-! ### sub-maps -/

theorem totalW_le_of_sub : ∀ (m' m : List (Nat × UEntry)), (AL.keys m').Nodup →
    (∀ k e, AL.get? m' k = some e → AL.get? m k = some e) → totalW m' ≤ totalW m := by
  intro m'
  induction m' with
  | nil => intro m _ _; simp [totalW]
  | cons a rest ih =>
    obtain ⟨k0, e0⟩ := a
    intro m hn hsub
    simp only [AL.keys_cons, List.nodup_cons] at hn
    have h0 := hsub k0 e0 (by simp [AL.get?_cons])
    have := ih (AL.erase m k0) hn.2 (by
      intro k' e' h'
      have hne : k0 ≠ k' := fun e => hn.1 (e ▸ AL.mem_keys_of_get? h')
      rw [AL.get?_erase_ne hne]
      exact hsub k' e' (by rw [AL.get?_cons]; simp [hne, h']))
    have h3 := totalW_erase h0
    simp only [totalW]; omega

theorem length_le_of_sub : ∀ (m' m : List (Nat × UEntry)), (AL.keys m').Nodup →
    (∀ k e, AL.get? m' k = some e → AL.get? m k = some e) → m'.length ≤ m.length := by
  intro m'
  induction m' with
  | nil => intro m _ _; simp
  | cons a rest ih =>
    obtain ⟨k0, e0⟩ := a
    intro m hn hsub
    simp only [AL.keys_cons, List.nodup_cons] at hn
    have h0 := hsub k0 e0 (by simp [AL.get?_cons])
    have := ih (AL.erase m k0) hn.2 (by
      intro k' e' h'
      have hne : k0 ≠ k' := fun e => hn.1 (e ▸ AL.mem_keys_of_get? h')
      rw [AL.get?_erase_ne hne]
      exact hsub k' e' (by rw [AL.get?_cons]; simp [hne, h']))
    have h3 := AL.length_erase_of_get? h0
    simp only [List.length_cons]; omega

/-- A state holding a sub-map of another (both counted) weighs no more. -/
theorem ws_le_of_sub {p : Params} {s s' : UState} (hi : InvU p s) (hi' : InvU p s')
    (hsub : ∀ k e, AL.get? s'.map k = some e → AL.get? s.map k = some e) : s'.ws ≤ s.ws := by
  rw [hi.counted.ws, hi'.counted.ws]
  exact totalW_le_of_sub _ _ hi'.struct.keysNodup hsub

theorem maintain_ws_le {p : Params} (hq : NoQuirks p) {s : UState} (hi : InvU p s) :
    (maintain p s).ws ≤ s.ws := by
  obtain ⟨h1, h2, _⟩ := maintain_spec hq hi
  exact ws_le_of_sub hi h1 h2.sub

theorem maintain_length_le {p : Params} (hq : NoQuirks p) {s : UState} (hi : InvU p s) :
    (maintain p s).map.length ≤ s.map.length := by
  obtain ⟨h1, h2, _⟩ := maintain_spec hq hi
  exact length_le_of_sub _ _ h1.struct.keysNodup h2.sub

/-- In a well-structured state an empty probation list means an empty map. -/
theorem map_nil_of_prob_nil {p : Params} {s : UState} (hs : Struct p s) (hp : s.prob = []) :
    s.map = [] := by
  cases hm : s.map with
  | nil => rfl
  | cons a rest =>
    obtain ⟨k, e⟩ := a
    have hk : AL.get? s.map k = some e := by rw [hm]; simp [AL.get?_cons]
    obtain ⟨id, n, _, hf, _⟩ := hs.aoLink k e hk (by simp)
    rw [hp] at hf
    simp [findAo] at hf

/-! ### fields that the list plumbing never touches -/

theorem fail_ws (s : UState) (f : Fault) : (s.fail f).ws = s.ws := by
  unfold UState.fail; split <;> rfl

theorem fail_map (s : UState) (f : Fault) : (s.fail f).map = s.map := by
  unfold UState.fail; split <;> rfl

theorem sketchIncrement_ws (p : Params) (s : UState) (h : UInt64) :
    (sketchIncrement p s h).ws = s.ws := by
  unfold sketchIncrement; split
  · rfl
  · exact fail_ws _ _

theorem sketchIncrement_map (p : Params) (s : UState) (h : UInt64) :
    (sketchIncrement p s h).map = s.map := by
  unfold sketchIncrement; split
  · rfl
  · exact fail_map _ _

theorem moveToBackAoE_ws (s : UState) (e : UEntry) : (moveToBackAoE s e).ws = s.ws := by
  unfold moveToBackAoE
  split
  · rfl
  · split
    · rfl
    · exact fail_ws _ _

theorem moveToBackAoE_map (s : UState) (e : UEntry) : (moveToBackAoE s e).map = s.map := by
  unfold moveToBackAoE
  split
  · rfl
  · split
    · rfl
    · exact fail_map _ _

theorem recordHit_ws (s : UState) (e : UEntry) (ts : Option Nat) : (recordHit s e ts).ws = s.ws := by
  unfold recordHit
  rw [moveToBackAoE_ws]
  split <;> rfl

theorem recordHit_map (s : UState) (e : UEntry) (ts : Option Nat) :
    (recordHit s e ts).map = s.map := by
  unfold recordHit
  rw [moveToBackAoE_map]
  split <;> rfl

theorem get_ws (p : Params) (s : UState) (k : Nat) : (get p s k).1.ws = (maintain p s).ws := by
  unfold get
  dsimp only
  split
  · exact sketchIncrement_ws _ _ _
  · split
    · rw [recordHit_ws]; exact sketchIncrement_ws _ _ _
    · split
      · exact sketchIncrement_ws _ _ _
      · rw [recordHit_ws]; exact sketchIncrement_ws _ _ _

theorem get_map (p : Params) (s : UState) (k : Nat) : (get p s k).1.map = (maintain p s).map := by
  unfold get
  dsimp only
  split
  · exact sketchIncrement_map _ _ _
  · split
    · rw [recordHit_map]; exact sketchIncrement_map _ _ _
    · split
      · exact sketchIncrement_map _ _ _
      · rw [recordHit_map]; exact sketchIncrement_map _ _ _

theorem containsKey_state (p : Params) (s : UState) (k : Nat) :
    (containsKey p s k).1 = maintain p s := by
  unfold containsKey
  dsimp only
  split
  · rfl
  · split <;> rfl

end Unsync
end MiniMoka

namespace MiniMoka
namespace Unsync

theorem unlinkAo_ws (s : UState) (e : UEntry) : (unlinkAo s e).ws = s.ws := by
  unfold unlinkAo
  split
  · rfl
  · split
    · rfl
    · exact fail_ws _ _

theorem unlinkWo_ws (s : UState) (e : UEntry) : (unlinkWo s e).ws = s.ws := by
  unfold unlinkWo
  split
  · rfl
  · split
    · rfl
    · exact fail_ws _ _

theorem takeOut_ws (s : UState) (k : Nat) (e : UEntry) : (takeOut s k e).ws = s.ws := by
  unfold takeOut
  rw [unlinkWo_ws, unlinkAo_ws]

theorem subEc_ws (s : UState) (n : Nat) : (subEc s n).ws = s.ws := by
  unfold subEc; split
  · exact fail_ws _ _
  · rfl

theorem removeVictims_ws : ∀ (l : List AoNode) (s : UState), (removeVictims l s).ws = s.ws := by
  intro l
  induction l with
  | nil => intro s; rfl
  | cons v rest ih =>
    intro s
    unfold removeVictims
    split
    · rw [ih, fail_ws]
    · rw [ih, subEc_ws, takeOut_ws]

theorem pushCandidate_ws (p : Params) (s : UState) (k : Nat) (hash : UInt64) (ts : Option Nat) :
    (pushCandidate p s k hash ts).ws = s.ws := by
  unfold pushCandidate
  split
  · exact fail_ws _ _
  · dsimp only
    split <;> rfl

theorem maybeEnableSketch_ws (p : Params) (s : UState) : (maybeEnableSketch p s).ws = s.ws := by
  unfold maybeEnableSketch enableSketch
  split
  · split <;> rfl
  · rfl

/-- The three ways `handle_insert` can move `weighted_size`: the candidate fits, it leaves
the counter alone (rejected, oversized), or it is admitted against victims that weigh at
least as much as it does (and it is not heavier than the capacity). -/
theorem handleInsert_ws (p : Params) (s : UState) (k : Nat) (hash : UInt64) (w : Nat)
    (ts : Option Nat) :
    (hasEnoughCapacity p w s.ws = true ∧ (handleInsert p s k hash w ts).ws = s.ws + w) ∨
    (hasEnoughCapacity p w s.ws = false ∧ (handleInsert p s k hash w ts).ws = s.ws) ∨
    (hasEnoughCapacity p w s.ws = false ∧ tooBig p w = false ∧
      ∃ vw, w ≤ vw ∧ (handleInsert p s k hash w ts).ws = s.ws - vw + w) := by
  unfold handleInsert
  by_cases hcap : hasEnoughCapacity p w s.ws = true
  · left
    refine ⟨hcap, ?_⟩
    rw [if_pos hcap, maybeEnableSketch_ws]
    simp only [pushCandidate_ws]
  · right
    have hcap' : hasEnoughCapacity p w s.ws = false := by simpa using hcap
    rw [if_neg hcap]
    by_cases htb : tooBig p w = true
    · left; rw [if_pos htb]; exact ⟨hcap', rfl⟩
    · have htb' : tooBig p w = false := by simpa using htb
      rw [if_neg htb]
      unfold admitOrReject
      dsimp only
      split
      · left; exact ⟨hcap', fail_ws _ _⟩
      · split
        · rename_i hadm
          right
          refine ⟨hcap', htb', _, hadm.1, ?_⟩
          rw [maybeEnableSketch_ws]
          simp only [pushCandidate_ws, removeVictims_ws]
        · left; exact ⟨hcap', rfl⟩

end Unsync
end MiniMoka

namespace MiniMoka
namespace Unsync

/-- `insert` keeps `weighted_size` within the capacity unless it is an in-place update that
makes the entry heavier. -/
theorem insert_ws_le {p : Params} (hq : NoQuirks p) {s : UState} (hi : InvU p s) {c : Nat}
    (hcap : p.cap = some c) (k v : Nat)
    (hng : ∀ old, AL.get? (maintain p s).map k = some old → ¬ old.weight < p.weigh k v)
    (hle : s.ws ≤ c) : (insert p s k v).ws ≤ c := by
  obtain ⟨h1, _, _⟩ := maintain_spec hq hi
  have hle1 : (maintain p s).ws ≤ c := Nat.le_trans (maintain_ws_le hq hi) hle
  unfold insert
  dsimp only
  cases hg : AL.get? (maintain p s).map k with
  | some old =>
    dsimp only
    have hold : old.weight ≤ (maintain p s).ws := by
      rw [h1.counted.ws]; exact weight_le_totalW hg
    have hnot := hng old hg
    obtain ⟨id, n, _, _, _, heq⟩ := handleUpdate_eq (entry := { val := v, weight := p.weigh k v })
      h1.struct hg (opTs p (maintain p s)) (p.weigh k v) (opTs_isSome p _)
    rw [heq]
    dsimp only
    cases old.wo with
    | none => simp only [touchAo]; omega
    | some wid =>
      dsimp only
      split
      · simp only [touchAo, touchWo]; omega
      · split <;> (simp only [touchAo]; omega)
  | none =>
    dsimp only
    rcases handleInsert_ws p
        { maintain p s with
          map := (AL.put (maintain p s).map k ({ val := v, weight := p.weigh k v } : UEntry)) }
        k (p.hash k) (p.weigh k v) (opTs p (maintain p s))
      with ⟨hfit, hws⟩ | ⟨_, hws⟩ | ⟨_, htb, vw, hvw, hws⟩
    · rw [hws]
      simpa [hasEnoughCapacity, hcap] using hfit
    · rw [hws]; exact hle1
    · rw [hws]
      have : p.weigh k v ≤ c := by simpa [tooBig, hcap] using htb
      dsimp only
      omega

end Unsync
end MiniMoka

namespace MiniMoka
namespace Unsync

/-- The state after a step from a state satisfying the invariant (no fault arises). -/
theorem step_state {P : Sketch → Prop} (L : SketchLaws P) {p : Params} (hq : NoQuirks p)
    (hsm : SmallSketch p) {s : UState} (hi : Inv P p s) (op : Op) :
    (step p s op).1 = match op with
      | .ins k v => insert p s k v
      | .get k => (get p s k).1
      | .has k => (containsKey p s k).1
      | .iter => s
      | .inv k => invalidate p s k
      | .invAll => invalidateAll p s
      | .invIf pr => invalidateEntriesIf p s pr
      | .sync => s
      | .adv d => { s with now := s.now + d }
      | .snap => s
      | .freq _ => s := by
  have hnf := hi.inv.struct.noFault
  have hnext := (step_inv L hq hsm hi op).inv.struct.noFault
  unfold step at hnext ⊢
  simp only [hnf, Option.isSome_none, Bool.false_eq_true, if_false] at hnext ⊢
  cases op <;> dsimp only at hnext ⊢ <;> (split at hnext <;> simp_all)

/-- "Growing update": an `insert` of a key that is resident (after the operation's own
maintenance) with a new weight above the old one. -/
def GrowingUpdate (p : Params) (s : UState) : Op → Prop
  | .ins k v => ∃ old, AL.get? (maintain p s).map k = some old ∧ old.weight < p.weigh k v
  | _ => False

theorem invalidate_ws_le {P : Sketch → Prop} {p : Params} (hq : NoQuirks p) {s : UState}
    (hi : Inv P p s) (k : Nat) : (invalidate p s k).ws ≤ s.ws := by
  refine ws_le_of_sub hi.inv (invalidate_inv hq hi k).inv ?_
  intro k' e h
  rw [invalidate_exact hq hi k k'] at h
  obtain ⟨_, h2, _⟩ := maintain_spec hq hi.inv
  split at h
  · cases h
  · exact h2.sub k' e h

theorem invalidateEntriesIf_ws_le {P : Sketch → Prop} {p : Params} (hq : NoQuirks p) {s : UState}
    (hi : Inv P p s) (pr : Pred) : (invalidateEntriesIf p s pr).ws ≤ s.ws := by
  refine ws_le_of_sub hi.inv (invalidateEntriesIf_inv hq hi pr).inv ?_
  intro k e h
  exact ((invalidateEntriesIf_exact hq hi pr k e).mp h).1

/-- C04, one step: an operation that is not a growing update keeps `weighted_size` within
the capacity. -/
theorem step_ws_le {P : Sketch → Prop} (L : SketchLaws P) {p : Params} (hq : NoQuirks p)
    (hsm : SmallSketch p) {s : UState} (hi : Inv P p s) {c : Nat} (hcap : p.cap = some c)
    (op : Op) (hng : ¬ GrowingUpdate p s op) (hle : s.ws ≤ c) : (step p s op).1.ws ≤ c := by
  rw [step_state L hq hsm hi op]
  cases op with
  | ins k v =>
    exact insert_ws_le hq hi.inv hcap k v (fun old h1 h2 => hng ⟨old, h1, h2⟩) hle
  | get k => dsimp only; rw [get_ws]; exact Nat.le_trans (maintain_ws_le hq hi.inv) hle
  | has k =>
    dsimp only; rw [containsKey_state]; exact Nat.le_trans (maintain_ws_le hq hi.inv) hle
  | iter => exact hle
  | inv k => exact Nat.le_trans (invalidate_ws_le hq hi k) hle
  | invAll => simp [invalidateAll]
  | invIf pr => exact Nat.le_trans (invalidateEntriesIf_ws_le hq hi pr) hle
  | sync => exact hle
  | adv d => exact hle
  | snap => exact hle
  | freq k => exact hle

/-- A fresh key heavier than the whole capacity is turned away: `insert` is just the
maintenance (no hypothesis on the state is needed). -/
theorem insert_oversized {p : Params} {s : UState} {c : Nat} (hcap : p.cap = some c) (k v : Nat)
    (hfresh : AL.get? (maintain p s).map k = none) (hbig : c < p.weigh k v) :
    insert p s k v = maintain p s := by
  unfold insert
  dsimp only
  rw [hfresh]
  dsimp only
  unfold handleInsert
  dsimp only
  have h1 : hasEnoughCapacity p (p.weigh k v) (maintain p s).ws = false := by
    simp [hasEnoughCapacity, hcap]; omega
  have h2 : tooBig p (p.weigh k v) = true := by
    simp [tooBig, hcap]; omega
  rw [h1, h2]
  simp only [Bool.false_eq_true, if_false, if_true]
  exact state_restore hfresh

/-! ### working off an excess -/

/-- The size-eviction loop stops only when enough weight has been collected, or the map is
empty, or the fuel (one batch) is used up having removed one entry per iteration. -/
theorem evictLruLoop_sharp {p : Params} (fuel : Nat) :
    ∀ (s : UState) (wte c w : Nat), Struct p s →
      wte ≤ (evictLruLoop fuel s wte c w).2.2 ∨
      (evictLruLoop fuel s wte c w).1.map = [] ∨
      (evictLruLoop fuel s wte c w).2.1 = c + fuel := by
  induction fuel with
  | zero => intro s wte c w _; right; right; rfl
  | succ fuel ih =>
    intro s wte c w hs
    unfold evictLruLoop
    by_cases hw : w ≥ wte
    · left; simp [hw]
    · simp only [hw, if_false]
      cases hp : s.prob with
      | nil => right; left; exact map_nil_of_prob_nil hs hp
      | cons n rest =>
        simp only
        obtain ⟨e, he, _⟩ := hs.aoBack n (by rw [hp]; exact List.mem_cons_self)
        simp only [he]
        obtain ⟨hs', _, _⟩ := takeOut_spec hs he (by simp)
        rcases ih (takeOut s n.key e) wte (c + 1) (w + e.weight) hs' with h | h | h
        · exact Or.inl h
        · exact Or.inr (Or.inl h)
        · right; right; rw [h]; omega

/-- `evict_lru_entries` on an over-capacity cache: afterwards the cache is within its
capacity or a full batch of entries has left. -/
theorem evictLru_works_off {p : Params} {s : UState} (hi : InvU p s) {c : Nat}
    (hcap : p.cap = some c) :
    (evictLru p s).ws ≤ c ∨ (evictLru p s).map.length + EVICTION_BATCH_SIZE = s.map.length := by
  have hl := evictLruLoop_spec (p := p) EVICTION_BATCH_SIZE s (weightsToEvict p s) 0 0 hi.struct
  have hsh := evictLruLoop_sharp (p := p) EVICTION_BATCH_SIZE s (weightsToEvict p s) 0 0 hi.struct
  unfold evictLru
  generalize hr : evictLruLoop EVICTION_BATCH_SIZE s (weightsToEvict p s) 0 0 = r at hl hsh
  obtain ⟨s1, c1, w1⟩ := r
  obtain ⟨hi3, _, _, hmap, _, _⟩ := settle hi hl
  have hcount := hl.count
  have hweight := hl.weight
  simp only at hcount hweight hsh hmap ⊢
  have hws3 := hi3.counted.ws
  simp only at hws3
  rw [hws3, hmap]
  rcases hsh with h | h | h
  · left
    have : weightsToEvict p s = s.ws - c := by simp [weightsToEvict, hcap]
    rw [this, hi.counted.ws] at h
    omega
  · left; rw [h]; simp [totalW]
  · right; omega

end Unsync
end MiniMoka

namespace MiniMoka
namespace Unsync

theorem evictExpiredIfNeeded_spec {p : Params} (hq : NoQuirks p) {s : UState} (hi : InvU p s) :
    InvU p (evictExpiredIfNeeded p s) ∧ Shrinks s (evictExpiredIfNeeded p s) := by
  unfold evictExpiredIfNeeded
  split
  · obtain ⟨h1, h2, _⟩ := evictExpired_spec hq hi
    exact ⟨h1, h2⟩
  · exact ⟨hi, Shrinks.refl s⟩

/-- C04, working off an excess: the maintenance that starts every `get`, `contains_key`,
`insert` and `invalidate` leaves the cache within its capacity, or else has removed a full
batch of entries.  (An empty map has `weighted_size = 0`, so "the map is empty" is covered by
the first alternative.) -/
theorem maintain_works_off {p : Params} (hq : NoQuirks p) {s : UState} (hi : InvU p s) {c : Nat}
    (hcap : p.cap = some c) :
    (maintain p s).ws ≤ c ∨ (maintain p s).map.length + EVICTION_BATCH_SIZE ≤ s.map.length := by
  obtain ⟨h1, h2⟩ := evictExpiredIfNeeded_spec hq hi
  have hlen := length_le_of_sub _ _ h1.struct.keysNodup h2.sub
  unfold maintain
  rcases evictLru_works_off h1 hcap with h | h
  · exact Or.inl h
  · right; omega

/-- `get` and `contains_key`. -/
def isLookup : Op → Bool
  | .get _ => true
  | .has _ => true
  | _ => false

/-- After `j` lookups the cache is within its capacity or `j` full batches of entries have
left. -/
theorem lookups_work_off {P : Sketch → Prop} (L : SketchLaws P) {p : Params} (hq : NoQuirks p)
    (hsm : SmallSketch p) {c : Nat} (hcap : p.cap = some c) :
    ∀ (ops : List Op) (s : UState), Inv P p s → (∀ op ∈ ops, isLookup op = true) →
      (runState p s ops).ws ≤ c ∨
      (runState p s ops).map.length + ops.length * EVICTION_BATCH_SIZE ≤ s.map.length := by
  intro ops
  induction ops with
  | nil => intro s _ _; right; simp [runState]
  | cons op rest ih =>
    intro s hi hall
    have hi' := step_inv L hq hsm hi op
    have hop := hall op List.mem_cons_self
    -- one lookup: state = maintenance up to list order and the sketch
    have hone : (step p s op).1.ws = (maintain p s).ws ∧ (step p s op).1.map = (maintain p s).map := by
      rw [step_state L hq hsm hi op]
      cases op with
      | get k => exact ⟨get_ws p s k, get_map p s k⟩
      | has k => dsimp only; rw [containsKey_state]; exact ⟨rfl, rfl⟩
      | _ => simp [isLookup] at hop
    have hw := maintain_works_off hq hi.inv hcap
    rw [← hone.1, ← hone.2] at hw
    simp only [runState, List.length_cons]
    rcases ih _ hi' (fun o ho => hall o (List.mem_cons_of_mem _ ho)) with h | h
    · exact Or.inl h
    · rcases hw with hw | hw
      · -- already within capacity: the remaining lookups keep it there
        left
        clear h
        have keep : ∀ (ops : List Op) (t : UState), Inv P p t → (∀ o ∈ ops, isLookup o = true) →
            t.ws ≤ c → (runState p t ops).ws ≤ c := by
          intro ops
          induction ops with
          | nil => intro t _ _ h; exact h
          | cons o r ih2 =>
            intro t ht hl hle
            refine ih2 _ (step_inv L hq hsm ht o) (fun o' ho' => hl o' (List.mem_cons_of_mem _ ho')) ?_
            refine step_ws_le L hq hsm ht hcap o ?_ hle
            have := hl o List.mem_cons_self
            cases o <;> simp [isLookup] at this <;> simp [GrowingUpdate]
        exact keep rest _ hi' (fun o ho => hall o (List.mem_cons_of_mem _ ho)) hw
      · right
        rw [Nat.add_mul]
        omega

/-- The cache is within its capacity after `j` lookups if it held at most `j` batches of
entries (whatever its excess was): `⌈n / batch⌉` operations work any excess off. -/
theorem lookups_work_off' {P : Sketch → Prop} (L : SketchLaws P) {p : Params} (hq : NoQuirks p)
    (hsm : SmallSketch p) {c : Nat} (hcap : p.cap = some c) (ops : List Op) (s : UState)
    (hi : Inv P p s) (hall : ∀ op ∈ ops, isLookup op = true)
    (hn : s.map.length ≤ ops.length * EVICTION_BATCH_SIZE) : (runState p s ops).ws ≤ c := by
  rcases lookups_work_off L hq hsm hcap ops s hi hall with h | h
  · exact h
  · have hI := (runState_inv L hq hsm ops hi).inv
    have : (runState p s ops).map.length = 0 := by omega
    have hm : (runState p s ops).map = [] := List.eq_nil_of_length_eq_zero this
    rw [hI.counted.ws, hm]; simp [totalW]

end Unsync
end MiniMoka

namespace MiniMoka
namespace Unsync

open Spec

/-! ### snapshots: weight and per-key lookup -/

theorem find?_key_of_mem {α : Type} (key : α → Nat) {l : List α} {x : α} {k : Nat}
    (hn : (l.map key).Nodup) (hx : x ∈ l) (hk : key x = k) :
    l.find? (fun e => key e == k) = some x := by
  induction l with
  | nil => simp at hx
  | cons a l ih =>
    simp only [List.map_cons, List.nodup_cons] at hn
    rcases List.mem_cons.mp hx with h | h
    · subst h; simp [hk]
    · have hne : key a ≠ k := by
        intro e
        exact hn.1 (List.mem_map.mpr ⟨x, h, by rw [hk, e]⟩)
      simp [hne, ih hn.2 h]

theorem find?_key_perm {α : Type} (key : α → Nat) {l l' : List α} (k : Nat)
    (hn : (l.map key).Nodup) (hp : l'.Perm l) :
    l'.find? (fun e => key e == k) = l.find? (fun e => key e == k) := by
  have hn' : (l'.map key).Nodup := (hp.map key).nodup_iff.mpr hn
  cases h : l.find? (fun e => key e == k) with
  | none =>
    rw [List.find?_eq_none] at h ⊢
    intro x hx
    exact h x (hp.mem_iff.mp hx)
  | some x =>
    have hx := List.mem_of_find?_eq_some h
    have hk : key x = k := by simpa using List.find?_some h
    exact find?_key_of_mem key hn' (hp.mem_iff.mpr hx) hk

theorem find?_entryView (s : UState) (k : Nat) : ∀ (m : List (Nat × UEntry)),
    (m.map (entryView s)).find? (fun e => e.key == k) =
      (AL.get? m k).map (fun e => entryView s (k, e)) := by
  intro m
  induction m with
  | nil => rfl
  | cons a m ih =>
    obtain ⟨k', e⟩ := a
    simp only [List.map_cons, List.find?_cons, AL.get?_cons]
    by_cases h : k' = k
    · subst h; simp [entryView]
    · have : ((entryView s (k', e)).key == k) = false := by simp [entryView, h]
      rw [this]; simp [h, ih]

theorem snapshot_find? {p : Params} {s : UState} (hs : Struct p s) (k : Nat) :
    (snapshot p s).entries.find? (fun e => e.key == k) =
      (AL.get? s.map k).map (fun e => entryView s (k, e)) := by
  have hn : ((s.map.map (entryView s)).map (·.key)).Nodup := by
    rw [List.map_map]
    have : (s.map.map ((·.key) ∘ entryView s)) = AL.keys s.map := by
      rw [AL.keys_eq_map]; apply List.map_congr_left; intro a _; rfl
    rw [this]; exact hs.keysNodup
  have h1 := find?_key_perm (fun e : EntryView => e.key) k hn (sortBy_perm (·.key) (s.map.map (entryView s)))
  exact h1.trans (find?_entryView s k s.map)

theorem snapshot_any {p : Params} {s : UState} (hs : Struct p s) (k : Nat) :
    (snapshot p s).entries.any (fun e => e.key == k) = (AL.get? s.map k).isSome := by
  have hgen : ∀ (l : List EntryView) (q : EntryView → Bool), l.any q = (l.find? q).isSome := by
    intro l q
    induction l with
    | nil => rfl
    | cons a l ih =>
      simp only [List.any_cons, List.find?_cons]
      cases q a <;> simp [ih]
  rw [hgen, snapshot_find? hs k]
  cases AL.get? s.map k <;> rfl

theorem snapshot_weight {p : Params} {s : UState} (hi : InvU p s) :
    snapWeight (snapshot p s) = s.ws := by
  have := snapshot_counters hi
  simp only [snapCountersOk, Bool.and_eq_true, beq_iff_eq] at this
  exact this.1.2.symm

end Unsync
end MiniMoka

namespace MiniMoka
namespace Unsync

open Spec

/-! ### the trace oracle `boundC04` -/

/-- The per-triple check of `Spec.boundC04` (`snap, op, snap`). -/
def checkC04 (cap : Nat) (before : Snap) (op : Op) (after : Snap) : Bool :=
  match op with
  | .ins k _ =>
    let wasThere := before.entries.any (fun e => e.key == k)
    let grew := match before.entries.find? (fun e => e.key == k), after.entries.find? (fun e => e.key == k) with
      | some b, some a => decide (b.weight < a.weight)
      | _, _ => false
    (grew || decide (snapWeight before > cap) || decide (snapWeight after ≤ cap)) &&
    (wasThere || (match after.entries.find? (fun e => e.key == k) with
                  | some a => decide (a.weight ≤ cap)
                  | none => true))
  | _ => decide (snapWeight before > cap) || decide (snapWeight after ≤ cap)

theorem boundC04_triple (c : Nat) (before : Snap) (op : Op) (ob : Obs) (after : Snap) (rest : Trace) :
    boundC04 c ((.snap, .snap before) :: (op, ob) :: (.snap, .snap after) :: rest) =
      (checkC04 c before op after &&
        (match ob with
         | .panic _ => true
         | _ => boundC04 c ((.snap, .snap after) :: rest))) := by
  conv => lhs; unfold boundC04
  rfl

theorem boundC04_skip (c : Nat) (x : Op × Obs) (tr : Trace)
    (h : ∀ b op ob a rest, x :: tr ≠ (.snap, .snap b) :: (op, ob) :: (.snap, .snap a) :: rest) :
    boundC04 c (x :: tr) = boundC04 c tr := by
  conv => lhs; unfold boundC04
  split
  · rename_i heq
    exact absurd heq (h _ _ _ _ _)
  · rename_i heq
    cases heq
    rfl
  · rename_i heq
    cases heq

/-- An in-place update: the new entry replaces the old one under the same key. -/
theorem insert_map_of_resident {p : Params} (hq : NoQuirks p) {s : UState} (hi : InvU p s)
    {k : Nat} (v : Nat) {old : UEntry} (hg : AL.get? (maintain p s).map k = some old) :
    (insert p s k v).map = AL.put (maintain p s).map k
      { val := v, weight := p.weigh k v, ao := old.ao, wo := old.wo } := by
  obtain ⟨h1, _, _⟩ := maintain_spec hq hi
  unfold insert
  dsimp only
  rw [hg]
  dsimp only
  obtain ⟨id, n, _, _, _, heq⟩ := handleUpdate_eq (entry := { val := v, weight := p.weigh k v })
    h1.struct hg (opTs p (maintain p s)) (p.weigh k v) (opTs_isSome p _)
  rw [heq]
  dsimp only
  cases old.wo with
  | none => simp only [touchAo]
  | some wid =>
    dsimp only
    split
    · simp only [touchAo, touchWo]
    · split <;> simp only [touchAo]

/-- The check of `boundC04` holds across every step of the model (from a state coupled with
the reference bookkeeping, which is where the value of a freshly inserted entry comes from). -/
theorem step_checkC04 {P : Sketch → Prop} (L : SketchLaws P) {p : Params} (hq : NoQuirks p)
    (hsm : SmallSketch p) {s : UState} {g : Ghost} (hi : Inv P p s) (hc : Coupled p s g) {c : Nat}
    (hcap : p.cap = some c) (op : Op) :
    checkC04 c (snapshot p s) op (snapshot p (step p s op).1) = true := by
  have hi' := step_inv L hq hsm hi op
  have hbound : ¬ GrowingUpdate p s op →
      (decide (snapWeight (snapshot p s) > c) ||
        decide (snapWeight (snapshot p (step p s op).1) ≤ c)) = true := by
    intro hng
    rw [snapshot_weight hi.inv, snapshot_weight hi'.inv]
    by_cases hle : s.ws ≤ c
    · have := step_ws_le L hq hsm hi hcap op hng hle
      simp [this]
    · have : s.ws > c := by omega
      simp [this]
  cases op with
  | ins k v =>
    have hc' := (step_coupled L hq hsm hi hc (.ins k v)).2
    have hst := step_state L hq hsm hi (.ins k v)
    dsimp only at hst
    obtain ⟨hm1, hm2, _⟩ := maintain_spec hq hi.inv
    simp only [checkC04, Bool.and_eq_true]
    rw [snapshot_find? hi.inv.struct, snapshot_find? hi'.inv.struct, snapshot_any hi.inv.struct]
    refine ⟨?_, ?_⟩
    · by_cases hgu : GrowingUpdate p s (.ins k v)
      · obtain ⟨old, h1, h2⟩ := hgu
        have h3 := hm2.sub k old h1
        have h4 : AL.get? (step p s (.ins k v)).1.map k =
            some { val := v, weight := p.weigh k v, ao := old.ao, wo := old.wo } := by
          rw [hst, insert_map_of_resident hq hi.inv v h1, AL.get?_put_self]
        rw [h3, h4]
        simp [entryView, h2]
      · have := hbound hgu
        simp only [Bool.or_eq_true] at this ⊢
        rcases this with h | h
        · exact Or.inl (Or.inr h)
        · exact Or.inr h
    · cases hwas : AL.get? s.map k with
      | some e0 => simp
      | none =>
        have hfresh : AL.get? (maintain p s).map k = none := by
          cases h : AL.get? (maintain p s).map k with
          | none => rfl
          | some e => have := hm2.sub k e h; rw [hwas] at this; cases this
        simp only [Option.isSome_none, Bool.false_or]
        cases hafter : AL.get? (step p s (.ins k v)).1.map k with
        | none => rfl
        | some e =>
          simp only [Option.map_some, entryView, decide_eq_true_eq]
          by_cases hbig : c < p.weigh k v
          · rw [hst, insert_oversized hcap k v hfresh hbig, hfresh] at hafter
            cases hafter
          · obtain ⟨ge, g1, _, g3, _⟩ := hc'.ents k e hafter
            have hge : ge.val = v := by
              simp only [ghostStep, AL.get?_put_self, Option.some.injEq] at g1
              rw [← g1]
            rw [hi'.inv.counted.weights k e hafter, ← g3, hge]
            omega
  | get k => exact hbound (by simp [GrowingUpdate])
  | has k => exact hbound (by simp [GrowingUpdate])
  | iter => exact hbound (by simp [GrowingUpdate])
  | inv k => exact hbound (by simp [GrowingUpdate])
  | invAll => exact hbound (by simp [GrowingUpdate])
  | invIf pr => exact hbound (by simp [GrowingUpdate])
  | sync => exact hbound (by simp [GrowingUpdate])
  | adv d => exact hbound (by simp [GrowingUpdate])
  | snap => exact hbound (by simp [GrowingUpdate])
  | freq k => exact hbound (by simp [GrowingUpdate])

end Unsync
end MiniMoka

namespace MiniMoka
namespace Unsync

open Spec

theorem run_cons (p : Params) (s : UState) (op : Op) (rest : List Op) :
    run p s (op :: rest) = (op, (step p s op).2) :: run p (step p s op).1 rest := rfl

theorem step_snap {P : Sketch → Prop} (L : SketchLaws P) {p : Params} (hq : NoQuirks p)
    (hsm : SmallSketch p) {s : UState} (hi : Inv P p s) :
    step p s .snap = (s, .snap (snapshot p s)) := by
  have h1 := step_state L hq hsm hi .snap
  have h2 := step_obs L hq hsm hi .snap
  dsimp only at h1 h2
  exact Prod.ext h1 h2

/-- `boundC04` accepts every run of the model from a state satisfying the invariant. -/
theorem boundC04_run {P : Sketch → Prop} (L : SketchLaws P) {p : Params} (hq : NoQuirks p)
    (hsm : SmallSketch p) {c : Nat} (hcap : p.cap = some c) :
    ∀ (n : Nat) (h : List Op), h.length ≤ n → ∀ (s : UState) (g : Ghost), Inv P p s →
      Coupled p s g → boundC04 c (run p s h) = true := by
  intro n
  induction n with
  | zero =>
    intro h hl s g _ _
    have : h = [] := List.eq_nil_of_length_eq_zero (by omega)
    subst this
    simp [run, boundC04]
  | succ n ih =>
    intro h hl s g hi hc
    cases h with
    | nil => simp [run, boundC04]
    | cons op1 t1 =>
      rw [run_cons]
      have hi1 := step_inv L hq hsm hi op1
      have hc1 := (step_coupled L hq hsm hi hc op1).2
      simp only [List.length_cons] at hl
      have IH1 := ih t1 (by omega) _ _ hi1 hc1
      by_cases hm : ∃ op2 t3, op1 = .snap ∧ t1 = op2 :: .snap :: t3
      · obtain ⟨op2, t3, rfl, rfl⟩ := hm
        rw [step_snap L hq hsm hi]
        dsimp only
        rw [run_cons, run_cons]
        have hi2 := step_inv L hq hsm hi op2
        have hc2 := (step_coupled L hq hsm hi hc op2).2
        rw [step_snap L hq hsm hi2]
        dsimp only
        rw [boundC04_triple, Bool.and_eq_true]
        refine ⟨step_checkC04 L hq hsm hi hc hcap op2, ?_⟩
        have IH2 := ih (.snap :: t3) (by simp only [List.length_cons] at hl ⊢; omega) _ _ hi2 hc2
        rw [run_cons, step_snap L hq hsm hi2] at IH2
        dsimp only at IH2
        split
        · rfl
        · exact IH2
      · rw [boundC04_skip, IH1]
        intro b op ob a rest heq
        apply hm
        injection heq with h1 h2
        have hop1 : op1 = .snap := by injection h1
        cases t1 with
        | nil => simp [run] at h2
        | cons op2 t2 =>
          rw [run_cons] at h2
          injection h2 with _ h3
          cases t2 with
          | nil => simp [run] at h3
          | cons op3 t3 =>
            rw [run_cons] at h3
            injection h3 with h4 _
            have hop3 : op3 = .snap := by injection h4
            exact ⟨op2, t3, hop1, by rw [hop3]⟩

end Unsync
end MiniMoka

namespace MiniMoka
namespace Unsync

open Spec

/-! ### the trace oracle `workedOffC04` -/

/-- The per-triple check of `Spec.workedOffC04` (`snap, lookup, snap`). -/
def checkWorkedOff (cap batch : Nat) (before : Snap) (op : Op) (after : Snap) : Bool :=
  let lookup := match op with
    | .has _ => true
    | .get _ => true
    | _ => false
  !(lookup && decide (snapWeight before > cap)) || decide (snapWeight after ≤ cap) ||
    decide (after.entries.length + batch ≤ before.entries.length)

theorem workedOffC04_triple (c b : Nat) (before : Snap) (op : Op) (ob : Obs) (after : Snap)
    (rest : Trace) :
    workedOffC04 c b ((.snap, .snap before) :: (op, ob) :: (.snap, .snap after) :: rest) =
      (checkWorkedOff c b before op after &&
        (match ob with
         | .panic _ => true
         | _ => workedOffC04 c b ((.snap, .snap after) :: rest))) := by
  conv => lhs; unfold workedOffC04
  rfl

theorem workedOffC04_skip (c b : Nat) (x : Op × Obs) (tr : Trace)
    (h : ∀ bf op ob a rest, x :: tr ≠ (.snap, .snap bf) :: (op, ob) :: (.snap, .snap a) :: rest) :
    workedOffC04 c b (x :: tr) = workedOffC04 c b tr := by
  conv => lhs; unfold workedOffC04
  split
  · rename_i heq
    exact absurd heq (h _ _ _ _ _)
  · rename_i heq
    cases heq
    rfl
  · rename_i heq
    cases heq

theorem snapshot_length (p : Params) (s : UState) :
    (snapshot p s).entries.length = s.map.length := by
  show (sortBy (·.key) (s.map.map (entryView s))).length = _
  rw [length_sortBy, List.length_map]

/-- A lookup is the maintenance as far as the residents and their weight go; so it brings an
over-capacity cache back within capacity or removes a full batch. -/
theorem step_checkWorkedOff {P : Sketch → Prop} (L : SketchLaws P) {p : Params} (hq : NoQuirks p)
    (hsm : SmallSketch p) {s : UState} (hi : Inv P p s) {c : Nat} (hcap : p.cap = some c)
    (op : Op) :
    checkWorkedOff c EVICTION_BATCH_SIZE (snapshot p s) op (snapshot p (step p s op).1) = true := by
  have hi' := step_inv L hq hsm hi op
  have hw := maintain_works_off hq hi.inv hcap
  have hlook : ∀ (s' : UState), s' = (step p s op).1 → s'.ws = (maintain p s).ws →
      s'.map = (maintain p s).map →
      (decide (snapWeight (snapshot p (step p s op).1) ≤ c) ||
        decide ((snapshot p (step p s op).1).entries.length + EVICTION_BATCH_SIZE ≤
          (snapshot p s).entries.length)) = true := by
    intro s' hs' h1 h2
    subst hs'
    rw [snapshot_weight hi'.inv, snapshot_length, snapshot_length, h1, h2]
    rcases hw with h | h
    · simp [h]
    · simp [h]
  have hst := step_state L hq hsm hi op
  cases op with
  | get k =>
    dsimp only at hst
    have := hlook _ rfl (by rw [hst]; exact get_ws p s k) (by rw [hst]; exact get_map p s k)
    simp only [checkWorkedOff, Bool.or_eq_true] at this ⊢
    rcases this with h | h
    · exact Or.inl (Or.inr h)
    · exact Or.inr h
  | has k =>
    dsimp only at hst
    have := hlook _ rfl (by rw [hst, containsKey_state]) (by rw [hst, containsKey_state])
    simp only [checkWorkedOff, Bool.or_eq_true] at this ⊢
    rcases this with h | h
    · exact Or.inl (Or.inr h)
    · exact Or.inr h
  | _ => simp [checkWorkedOff]

/-- `workedOffC04` accepts every run of the model from a state satisfying the invariant. -/
theorem workedOffC04_run {P : Sketch → Prop} (L : SketchLaws P) {p : Params} (hq : NoQuirks p)
    (hsm : SmallSketch p) {c : Nat} (hcap : p.cap = some c) :
    ∀ (n : Nat) (h : List Op), h.length ≤ n → ∀ (s : UState), Inv P p s →
      workedOffC04 c EVICTION_BATCH_SIZE (run p s h) = true := by
  intro n
  induction n with
  | zero =>
    intro h hl s _
    have : h = [] := List.eq_nil_of_length_eq_zero (by omega)
    subst this
    simp [run, workedOffC04]
  | succ n ih =>
    intro h hl s hi
    cases h with
    | nil => simp [run, workedOffC04]
    | cons op1 t1 =>
      rw [run_cons]
      have hi1 := step_inv L hq hsm hi op1
      simp only [List.length_cons] at hl
      have IH1 := ih t1 (by omega) _ hi1
      by_cases hm : ∃ op2 t3, op1 = .snap ∧ t1 = op2 :: .snap :: t3
      · obtain ⟨op2, t3, rfl, rfl⟩ := hm
        rw [step_snap L hq hsm hi]
        dsimp only
        rw [run_cons, run_cons]
        have hi2 := step_inv L hq hsm hi op2
        rw [step_snap L hq hsm hi2]
        dsimp only
        rw [workedOffC04_triple, Bool.and_eq_true]
        refine ⟨step_checkWorkedOff L hq hsm hi hcap op2, ?_⟩
        have IH2 := ih (.snap :: t3) (by simp only [List.length_cons] at hl ⊢; omega) _ hi2
        rw [run_cons, step_snap L hq hsm hi2] at IH2
        dsimp only at IH2
        split
        · rfl
        · exact IH2
      · rw [workedOffC04_skip, IH1]
        intro b op ob a rest heq
        apply hm
        injection heq with h1 h2
        have hop1 : op1 = .snap := by injection h1
        cases t1 with
        | nil => simp [run] at h2
        | cons op2 t2 =>
          rw [run_cons] at h2
          injection h2 with _ h3
          cases t2 with
          | nil => simp [run] at h3
          | cons op3 t3 =>
            rw [run_cons] at h3
            injection h3 with h4 _
            have hop3 : op3 = .snap := by injection h4
            exact ⟨op2, t3, hop1, by rw [hop3]⟩

end Unsync
end MiniMoka

namespace MiniMoka
namespace Unsync

open Spec

/-! ### the trace oracle `fitsC03` (C03 part B) -/

/-- The per-window check of `Spec.fitsC03` (`snap, [freq,] ins k v, snap`). -/
def checkFits (cap : Nat) (ttl tti : Option Nat) (w : Nat → Nat → Nat) (before : Snap)
    (k v : Nat) (after : Snap) : Bool :=
  let fresh := !(before.entries.any (fun e => e.key == k))
  let fits := decide (snapWeight before + w k v ≤ cap)
  !(fresh && fits) ||
    (after.entries.any (fun e => e.key == k && e.val == v) &&
     before.entries.all (fun e => !(entryLiveAt ttl tti after.now none e) ||
       after.entries.any (fun e' => e'.key == e.key)))

theorem fitsC03_win1 (c : Nat) (ttl tti : Option Nat) (w : Nat → Nat → Nat) (b : Snap)
    (k0 f k v : Nat) (a : Snap) (rest : Trace) :
    fitsC03 c ttl tti w
        ((.snap, .snap b) :: (.freq k0, .freq f) :: (.ins k v, .ok) :: (.snap, .snap a) :: rest) =
      (checkFits c ttl tti w b k v a && fitsC03 c ttl tti w ((.snap, .snap a) :: rest)) := by
  conv => lhs; unfold fitsC03
  rfl

theorem fitsC03_win2 (c : Nat) (ttl tti : Option Nat) (w : Nat → Nat → Nat) (b : Snap)
    (k v : Nat) (a : Snap) (rest : Trace) :
    fitsC03 c ttl tti w ((.snap, .snap b) :: (.ins k v, .ok) :: (.snap, .snap a) :: rest) =
      (checkFits c ttl tti w b k v a && fitsC03 c ttl tti w ((.snap, .snap a) :: rest)) := by
  conv => lhs; unfold fitsC03
  rfl

theorem fitsC03_skip (c : Nat) (ttl tti : Option Nat) (w : Nat → Nat → Nat) (x : Op × Obs)
    (tr : Trace)
    (h1 : ∀ b k0 f k v a rest, x :: tr ≠
      (.snap, .snap b) :: (.freq k0, .freq f) :: (.ins k v, .ok) :: (.snap, .snap a) :: rest)
    (h2 : ∀ b k v a rest, x :: tr ≠ (.snap, .snap b) :: (.ins k v, .ok) :: (.snap, .snap a) :: rest) :
    fitsC03 c ttl tti w (x :: tr) = fitsC03 c ttl tti w tr := by
  conv => lhs; unfold fitsC03
  split
  · rename_i heq
    exact absurd heq (h1 _ _ _ _ _ _ _)
  · rename_i heq
    exact absurd heq (h2 _ _ _ _ _)
  · rename_i heq
    cases heq
    rfl
  · rename_i heq
    cases heq

theorem mem_snapshot_entries {p : Params} {s : UState} {x : EntryView} :
    x ∈ (snapshot p s).entries ↔ ∃ k e, (k, e) ∈ s.map ∧ x = entryView s (k, e) := by
  show x ∈ sortBy (·.key) (s.map.map (entryView s)) ↔ _
  rw [mem_sortBy, List.mem_map]
  constructor
  · rintro ⟨⟨k, e⟩, h1, h2⟩; exact ⟨k, e, h1, h2.symm⟩
  · rintro ⟨k, e, h1, h2⟩; exact ⟨(k, e), h1, h2.symm⟩

/-- Part B across an `insert` of the model: a key that is not resident and whose weight fits
beside the residents is resident afterwards with its value, and every resident that is
unexpired at the time of the call is still resident. -/
theorem insert_checkFits {P : Sketch → Prop} (L : SketchLaws P) {p : Params} (hq : NoQuirks p)
    (hsm : SmallSketch p) {s : UState} {g : Ghost} (hi : Inv P p s) (hc : Coupled p s g) {c : Nat}
    (hcap : p.cap = some c) (k v : Nat) :
    checkFits c p.ttl p.tti p.weigh (snapshot p s) k v (snapshot p (insert p s k v)) = true := by
  have hi' := insert_inv L hq hsm hi k v
  have hnow : (insert p s k v).now = s.now := by
    have h1 := (insert_coupled hq hi hc k v).now
    have h2 := hc.now
    simp only [ghostStep] at h1
    rw [← h1, h2]
  unfold checkFits
  rw [snapshot_any hi.inv.struct, snapshot_weight hi.inv]
  cases hk : AL.get? s.map k with
  | some e0 => simp
  | none =>
    by_cases hfit : s.ws + p.weigh k v ≤ c
    · obtain ⟨hm1, hm2, _⟩ := maintain_spec hq hi.inv
      have hnew : AL.get? (maintain p s).map k = none := by
        cases h : AL.get? (maintain p s).map k with
        | none => rfl
        | some e => have := hm2.sub k e h; rw [hk] at this; cases this
      have hcf : hasEnoughCapacity p (p.weigh k v) (maintain p s).ws = true := by
        have := maintain_ws_le hq hi.inv
        simp only [hasEnoughCapacity, hcap, decide_eq_true_eq]
        omega
      obtain ⟨⟨e, he, hev⟩, hkeep⟩ := C03B_unsync_aux hq hi k v hnew hcf
      have hroom : ∀ c', p.cap = some c' → s.ws ≤ c' := by
        intro c' hc'; rw [hcap] at hc'; cases hc'; omega
      simp only [Option.isSome_none, Bool.not_false, Bool.true_and, hfit, decide_true, Bool.not_true,
        Bool.false_or, Bool.and_eq_true]
      refine ⟨?_, ?_⟩
      · rw [List.any_eq_true]
        refine ⟨entryView (insert p s k v) (k, e),
          mem_snapshot_entries.mpr ⟨k, e, AL.mem_of_get? he, rfl⟩, ?_⟩
        simp [entryView, hev]
      · rw [List.all_eq_true]
        intro x hx
        obtain ⟨k', e', hmem, rfl⟩ := mem_snapshot_entries.mp hx
        have hk' := AL.get?_of_mem hi.inv.struct.keysNodup hmem
        by_cases hlive : entryLiveAt p.ttl p.tti (snapshot p (insert p s k v)).now none
            (entryView s (k', e')) = true
        · have hx' : isExpiredEntry p s e' s.now = false := by
            have hn : (snapshot p (insert p s k v)).now = s.now := hnow
            rw [hn] at hlive
            simp only [entryLiveAt, entryView, Bool.and_true, Bool.and_eq_true,
              Bool.not_eq_true'] at hlive
            simp only [isExpiredEntry, Bool.or_eq_false_iff]
            exact hlive
          have hkept : AL.get? (maintain p s).map k' = some e' := by
            cases h : AL.get? (maintain p s).map k' with
            | none =>
              have := maintain_only_expired hq hi hroom k' e' ⟨hk', h⟩
              rw [hx'] at this; cases this
            | some e'' =>
              have := hm2.sub k' e'' h
              rw [hk'] at this
              rw [Option.some.inj this]
          obtain ⟨e'', he'', _⟩ := hkeep k' e' hkept
          have hany := snapshot_any hi'.inv.struct (p := p) k'
          rw [he''] at hany
          simp only [Bool.or_eq_true]
          right
          exact hany
        · simp [hlive]
    · simp [hfit]

theorem step_ins {P : Sketch → Prop} (L : SketchLaws P) {p : Params} (hq : NoQuirks p)
    (hsm : SmallSketch p) {s : UState} (hi : Inv P p s) (k v : Nat) :
    step p s (.ins k v) = (insert p s k v, .ok) := by
  have h1 := step_state L hq hsm hi (.ins k v)
  have h2 := step_obs L hq hsm hi (.ins k v)
  dsimp only at h1 h2
  exact Prod.ext h1 h2

theorem step_freq {P : Sketch → Prop} (L : SketchLaws P) {p : Params} (hq : NoQuirks p)
    (hsm : SmallSketch p) {s : UState} (hi : Inv P p s) (k : Nat) :
    step p s (.freq k) = (s, .freq (s.sk.frequency (p.hash k))) := by
  have h1 := step_state L hq hsm hi (.freq k)
  have h2 := step_obs L hq hsm hi (.freq k)
  dsimp only at h1 h2
  exact Prod.ext h1 h2

end Unsync
end MiniMoka

namespace MiniMoka
namespace Unsync

open Spec

theorem run_eq_cons {p : Params} {s : UState} {t : List Op} {op : Op} {ob : Obs} {rest : Trace}
    (h : run p s t = (op, ob) :: rest) :
    ∃ t', t = op :: t' ∧ rest = run p (step p s op).1 t' := by
  cases t with
  | nil => simp [run] at h
  | cons op' t' =>
    rw [run_cons] at h
    injection h with h1 h2
    injection h1 with h3 _
    subst h3
    exact ⟨t', rfl, h2.symm⟩

/-- `fitsC03` accepts every run of the model from a state satisfying the invariant. -/
theorem fitsC03_run {P : Sketch → Prop} (L : SketchLaws P) {p : Params} (hq : NoQuirks p)
    (hsm : SmallSketch p) {c : Nat} (hcap : p.cap = some c) :
    ∀ (n : Nat) (h : List Op), h.length ≤ n → ∀ (s : UState) (g : Ghost), Inv P p s →
      Coupled p s g → fitsC03 c p.ttl p.tti p.weigh (run p s h) = true := by
  intro n
  induction n with
  | zero =>
    intro h hl s g _ _
    have : h = [] := List.eq_nil_of_length_eq_zero (by omega)
    subst this
    simp [run, fitsC03]
  | succ n ih =>
    intro h hl s g hi hc
    cases h with
    | nil => simp [run, fitsC03]
    | cons op1 t1 =>
      rw [run_cons]
      have hi1 := step_inv L hq hsm hi op1
      have hc1 := (step_coupled L hq hsm hi hc op1).2
      simp only [List.length_cons] at hl
      have IH1 := ih t1 (by omega) _ _ hi1 hc1
      -- the state and ghost after `insert`, and the induction hypothesis from the closing snapshot
      have tail : ∀ (k v : Nat) (t : List Op), t.length + 1 ≤ n →
          fitsC03 c p.ttl p.tti p.weigh
            ((.snap, .snap (snapshot p (insert p s k v))) :: run p (insert p s k v) t) = true := by
        intro k v t hlen
        have hi2 := insert_inv L hq hsm hi k v
        have hc2 := insert_coupled hq hi hc k v
        have IH2 := ih (.snap :: t) (by simp only [List.length_cons]; omega) _ _ hi2 hc2
        rw [run_cons, step_snap L hq hsm hi2] at IH2
        exact IH2
      by_cases hm1 : ∃ k0 k v t, op1 = .snap ∧ t1 = .freq k0 :: .ins k v :: .snap :: t
      · obtain ⟨k0, k, v, t, rfl, rfl⟩ := hm1
        have hi2 := insert_inv L hq hsm hi k v
        rw [step_snap L hq hsm hi]
        dsimp only
        rw [run_cons, step_freq L hq hsm hi]
        dsimp only
        rw [run_cons, step_ins L hq hsm hi]
        dsimp only
        rw [run_cons, step_snap L hq hsm hi2]
        dsimp only
        rw [fitsC03_win1, Bool.and_eq_true]
        simp only [List.length_cons] at hl
        exact ⟨insert_checkFits L hq hsm hi hc hcap k v, tail k v t (by omega)⟩
      · by_cases hm2 : ∃ k v t, op1 = .snap ∧ t1 = .ins k v :: .snap :: t
        · obtain ⟨k, v, t, rfl, rfl⟩ := hm2
          have hi2 := insert_inv L hq hsm hi k v
          rw [step_snap L hq hsm hi]
          dsimp only
          rw [run_cons, step_ins L hq hsm hi]
          dsimp only
          rw [run_cons, step_snap L hq hsm hi2]
          dsimp only
          rw [fitsC03_win2, Bool.and_eq_true]
          simp only [List.length_cons] at hl
          exact ⟨insert_checkFits L hq hsm hi hc hcap k v, tail k v t (by omega)⟩
        · rw [fitsC03_skip, IH1]
          · intro b k0 f k v a rest heq
            apply hm1
            injection heq with h1 h2
            have hop1 : op1 = .snap := by injection h1
            obtain ⟨t2, rfl, h3⟩ := run_eq_cons h2
            obtain ⟨t3, rfl, h4⟩ := run_eq_cons h3.symm
            obtain ⟨t4, rfl, _⟩ := run_eq_cons h4.symm
            exact ⟨k0, k, v, t4, hop1, rfl⟩
          · intro b k v a rest heq
            apply hm2
            injection heq with h1 h2
            have hop1 : op1 = .snap := by injection h1
            obtain ⟨t2, rfl, h3⟩ := run_eq_cons h2
            obtain ⟨t3, rfl, _⟩ := run_eq_cons h3.symm
            exact ⟨k, v, t3, hop1, rfl⟩

end Unsync
end MiniMoka
