/-
  Every execution of the many-thread small-step model `ConcS` (`MiniMoka/ConcS.lean`)
  projects to an execution that model R (`MiniMoka/ConcR.lean`) accepts.
  Theorems: `Props/C02ConcS.lean`.

  The projection needs, per pending thread, the id of the R operation it is performing and the
  result that its map step decided; `ConcS.CState` does not record them, so the projection is a
  fold that carries a ghost component (`Ghost`: next id = position of the event, and
  thread ↦ id / R operation / result).
-/
import MiniMoka.ConcS
import MiniMoka.Lemmas.SyncRefinesR

namespace MiniMoka
namespace ConcSR

open ConcR (KV Key Val Tid Oid State lookup remove store runFrom threadIdle)
open Sync (SState VE KN NoQuirks Frame)
open ConcS (CState Pend pendOf dropPend)
open SyncR

/-! ## Ghost state and the projection -/

/-- What the projection remembers about the operation a thread holds. -/
structure Held where
  oid : Nat
  op : ConcR.Op
  /-- the result decided at the map step (`none` for `ins` / `del`) -/
  res : Option Val
  deriving DecidableEq, Repr, Inhabited

structure Ghost where
  /-- id for the next operation: the number of ConcS events so far -/
  next : Nat := 0
  held : List (Nat × Held) := []
  deriving Repr, Inhabited

/-- Thread and R operation of a per-key map step of ConcS. -/
def mapEvOp : ConcS.Ev → Option (Tid × ConcR.Op)
  | .insMap t k v => some (t, .ins k v)
  | .invMap t k => some (t, .del k)
  | .getMap t k => some (t, .get k)
  | _ => none

/-- The events of R for one event of ConcS performed in state `c` (ghost `g`).
A map step of an idle thread is the invocation and the map step of a new instance (id = the
position of the event); an `invMap` that finds nothing returns at once (the thread holds
nothing and stays idle), so it also responds.  A maintenance run is one `daemon` per key it
deletes.  `enq t` is the response of the instance `t` holds, with the result decided at its
map step.  The clock and `invalidate_all` (watermark) are invisible to R. -/
def projEv (p : Params) (c : CState) (g : Ghost) : ConcS.Ev → List ConcR.Ev
  | .insMap t k v => [.invoke t g.next (.ins k v), .mapStep g.next]
  | .invMap t k =>
    match (ConcS.invalidateMap c.s k).2 with
    | some _ => [.invoke t g.next (.del k), .mapStep g.next]
    | none => [.invoke t g.next (.del k), .mapStep g.next, .respond g.next none]
  | .getMap t k => [.invoke t g.next (.get k), .mapStep g.next]
  | .maint _ => (delKeys (absMap c.s) (absMap (Sync.trySync p c.s))).map .daemon
  | .sync _ => (delKeys (absMap c.s) (absMap (Sync.syncRun p c.s))).map .daemon
  | .enq t =>
    match AL.get? g.held t with
    | some h => [.respond h.oid h.res]
    | none => []
  | .tick _ => []
  | .invAll _ => []

def ghostStep (p : Params) (c : CState) (g : Ghost) : ConcS.Ev → Ghost
  | .insMap t k v => { next := g.next + 1, held := AL.put g.held t ⟨g.next, .ins k v, none⟩ }
  | .invMap t k =>
    match (ConcS.invalidateMap c.s k).2 with
    | some _ => { next := g.next + 1, held := AL.put g.held t ⟨g.next, .del k, none⟩ }
    | none => { g with next := g.next + 1 }
  | .getMap t k =>
    { next := g.next + 1, held := AL.put g.held t ⟨g.next, .get k, (ConcS.lookup p c.s k).2⟩ }
  | .enq t => { next := g.next + 1, held := AL.erase g.held t }
  | _ => { g with next := g.next + 1 }

/-- The projection of a path of ConcS from state `c` (it stops where the path does). -/
def projFrom (p : Params) : CState → Ghost → List ConcS.Ev → List ConcR.Ev
  | _, _, [] => []
  | c, g, e :: rest =>
    projEv p c g e ++
      (match ConcS.step p c e with
       | some c' => projFrom p c' (ghostStep p c g e) rest
       | none => [])

/-- The R execution of an interleaving of ConcS from the empty cache. -/
def projEvs (p : Params) (evs : List ConcS.Ev) : List ConcR.Ev := projFrom p {} {} evs

/-- The ghost after a path. -/
def ghostFrom (p : Params) : CState → Ghost → List ConcS.Ev → Ghost
  | _, g, [] => g
  | c, g, e :: rest =>
    match ConcS.step p c e with
    | some c' => ghostFrom p c' (ghostStep p c g e) rest
    | none => g

/-! ## Small facts -/

theorem pendOf_append_single (l : List (Nat × Pend)) (t : Nat) (x : Pend) (t' : Nat) :
    pendOf (l ++ [(t, x)]) t' = (pendOf l t').or (if t = t' then some x else none) := by
  induction l with
  | nil => simp [pendOf]
  | cons y l ih =>
    simp only [List.cons_append, pendOf]
    by_cases e : y.1 = t'
    · simp [e]
    · simp only [e, if_false]; exact ih

theorem pendOf_dropPend (l : List (Nat × Pend)) (t t' : Nat) :
    pendOf (dropPend l t) t' = if t = t' then none else pendOf l t' := by
  induction l with
  | nil => simp [pendOf, dropPend]
  | cons y l ih =>
    simp only [dropPend]
    by_cases e : y.1 = t
    · rw [if_pos e, ih]
      by_cases e' : t = t'
      · simp [e']
      · have : ¬ y.1 = t' := fun h => e' (e ▸ h)
        simp [e', pendOf, this]
    · rw [if_neg e]
      simp only [pendOf]
      by_cases e2 : y.1 = t'
      · have : ¬ t = t' := fun h => e (h ▸ e2)
        simp [e2, this]
      · simp only [e2, if_false]; exact ih

theorem mem_erase {β : Type} {m : List (Nat × β)} {k : Nat} {x : Nat × β}
    (h : x ∈ AL.erase m k) : x ∈ m := by
  induction m with
  | nil => cases h
  | cons y m ih =>
    obtain ⟨k', v⟩ := y
    rw [AL.erase_cons] at h
    by_cases hk : k' = k
    · rw [if_pos hk] at h; exact List.mem_cons_of_mem _ h
    · rw [if_neg hk] at h
      rcases List.mem_cons.1 h with h | h
      · rw [h]; exact List.mem_cons_self
      · exact List.mem_cons_of_mem _ (ih h)

theorem runFrom_invoke_mapStep (a : State) (t : Tid) (o : Oid) (op : ConcR.Op)
    (hfresh : AL.get? a.ops o = none) (hidle : threadIdle a t = true) :
    runFrom a [ConcR.Ev.invoke t o op, ConcR.Ev.mapStep o] =
      some { map := mapAfter a.map op,
             ops := AL.put a.ops o ⟨t, op, .stepped, retOf a.map op⟩ } := by
  have hi : ConcR.step a (.invoke t o op) =
      some { a with ops := AL.put a.ops o ⟨t, op, .invoked, none⟩ } := by
    simp [ConcR.step, hfresh, hidle]
  simp only [runFrom, hi]
  cases op <;>
    simp [ConcR.step, AL.get?_put_self, AL.put_put, mapAfter, retOf]

/-! ## The map parts of the ConcS steps, seen through `absMap` -/

theorem insertMap_abs (p : Params) (s : SState) (k v : Nat) :
    KVEq (store (absMap s) k v) (absMap (ConcS.insertMap p s k v).1) := by
  unfold ConcS.insertMap
  dsimp only
  split
  · rename_i old _
    exact absKV_put s.map k ⟨s.nextId, v, old.info, old.slot⟩
  · exact absKV_put s.map k ⟨s.nextId + 1, v, s.nextId, s.nextId + 1⟩

theorem insertMap_kn (p : Params) {s : SState} (hk : KN s) (k v : Nat) :
    KN (ConcS.insertMap p s k v).1 := by
  unfold ConcS.insertMap
  dsimp only
  split
  · exact AL.nodup_put k _ hk
  · exact AL.nodup_put k _ hk

theorem invalidateMap_abs {s : SState} (hk : KN s) (k : Nat) :
    KVEq (remove (absMap s) k) (absMap (ConcS.invalidateMap s k).1) := by
  unfold ConcS.invalidateMap
  split
  · rename_i hnone
    intro k'
    rw [ConcR.lookup_remove]
    by_cases e : k = k'
    · subst e; rw [if_pos rfl, lookup_absMap, hnone]; rfl
    · rw [if_neg e]
  · exact absKV_erase hk k

theorem invalidateMap_kn {s : SState} (hk : KN s) (k : Nat) : KN (ConcS.invalidateMap s k).1 := by
  unfold ConcS.invalidateMap
  split
  · exact hk
  · exact AL.nodup_erase k hk

/-- The result a `getMap` decides is what R's map step reads, or `none` (filtered lookup). -/
theorem lookup_ret (p : Params) (s : SState) (k : Nat) :
    (ConcS.lookup p s k).2 = lookup (absMap s) k ∨ (ConcS.lookup p s k).2 = none := by
  unfold ConcS.lookup
  dsimp only
  split
  · exact Or.inr rfl
  · rename_i ve hve
    split
    · exact Or.inr rfl
    · left; rw [lookup_absMap, hve]; rfl

/-- Distinctness of the map's keys along ConcS steps (no other invariant is needed). -/
theorem step_kn {p : Params} (hq : NoQuirks p) {c c' : CState} (hk : KN c.s) (e : ConcS.Ev)
    (hs : ConcS.step p c e = some c') : KN c'.s := by
  cases e with
  | insMap t k v =>
    simp only [ConcS.step] at hs
    split at hs
    · cases hs
    · cases hs; exact insertMap_kn p hk k v
  | invMap t k =>
    simp only [ConcS.step] at hs
    split at hs
    · cases hs
    · split at hs
      · cases hs; exact invalidateMap_kn hk k
      · cases hs; exact hk
  | getMap t k =>
    simp only [ConcS.step] at hs
    split at hs
    · cases hs
    · cases hs; exact hk
  | maint t =>
    simp only [ConcS.step] at hs
    split at hs
    · cases hs
    · cases hs; exact (Sync.trySync_frame hq c.s).kn hk
  | sync t =>
    simp only [ConcS.step] at hs
    split at hs
    · cases hs
    · cases hs; exact (Sync.syncRun_frame hq c.s).kn hk
  | enq t =>
    simp only [ConcS.step] at hs
    split at hs
    · cases hs
    · split at hs
      · cases hs; exact hk
      · cases hs
    · split at hs
      · cases hs; exact hk
      · cases hs; exact hk
  | tick d => simp only [ConcS.step] at hs; cases hs; exact hk
  | invAll t => simp only [ConcS.step] at hs; cases hs; exact hk

/-! ## The simulation relation -/

/-- State `a` of R, state `c` of ConcS and ghost `g` correspond. -/
structure Rel (a : State) (c : CState) (g : Ghost) : Prop where
  map : KVEq a.map (absMap c.s)
  pend : ∀ t, (pendOf c.pending t).isSome = (AL.get? g.held t).isSome
  hn : (AL.keys g.held).Nodup
  on : (AL.keys a.ops).Nodup
  /-- every record is below `next`, and is complete or is the one its thread holds -/
  recs : ∀ o r, AL.get? a.ops o = some r → o < g.next ∧
    (r.phase = .done ∨ (r.phase = .stepped ∧
      ∃ h, AL.get? g.held r.tid = some h ∧ h.oid = o))
  /-- what a thread holds is a record that has made its map step and awaits its response -/
  held : ∀ t h, AL.get? g.held t = some h → ∃ r, AL.get? a.ops h.oid = some r ∧
    r.tid = t ∧ r.phase = .stepped ∧ r.op = h.op ∧ (h.res = r.ret ∨ h.res = none)

theorem rel_init : Rel State.init {} {} :=
  ⟨KVEq.refl _, fun _ => rfl, List.nodup_nil, List.nodup_nil, fun _ _ h => (by cases h),
   fun _ _ h => (by cases h)⟩

theorem Rel.fresh {a : State} {c : CState} {g : Ghost} (h : Rel a c g) :
    AL.get? a.ops g.next = none := by
  cases hg : AL.get? a.ops g.next with
  | none => rfl
  | some r => exact absurd (h.recs _ r hg).1 (Nat.lt_irrefl _)

theorem Rel.idle {a : State} {c : CState} {g : Ghost} (h : Rel a c g) {t : Nat}
    (ht : AL.get? g.held t = none) : threadIdle a t = true := by
  unfold threadIdle
  rw [List.all_eq_true]
  intro x hx
  have hx' : AL.get? a.ops x.1 = some x.2 := AL.get?_of_mem h.on hx
  rcases (h.recs _ _ hx').2 with hd | ⟨_, hh, hh1, _⟩
  · simp [hd]
  · have : x.2.tid ≠ t := by
      intro e; rw [e, ht] at hh1; cases hh1
    simp [this]

/-- The next id only grows. -/
theorem Rel.next_succ {a : State} {c : CState} {g : Ghost} (h : Rel a c g) :
    Rel a c { g with next := g.next + 1 } :=
  ⟨h.map, h.pend, h.hn, h.on,
   fun o r hr => ⟨Nat.lt_succ_of_lt (h.recs o r hr).1, (h.recs o r hr).2⟩, h.held⟩

/-- An idle thread makes a map step and holds the operation. -/
theorem rel_mapStep {a : State} {c c' : CState} {g : Ghost} (h : Rel a c g) (t : Nat)
    (rop : ConcR.Op) (res : Option Val) (x : Pend)
    (ht : pendOf c.pending t = none)
    (hp : c'.pending = c.pending ++ [(t, x)])
    (hm : KVEq (mapAfter (absMap c.s) rop) (absMap c'.s))
    (hres : res = retOf (absMap c.s) rop ∨ res = none) :
    ∃ a', runFrom a [ConcR.Ev.invoke t g.next rop, ConcR.Ev.mapStep g.next] = some a' ∧
      Rel a' c' { next := g.next + 1, held := AL.put g.held t ⟨g.next, rop, res⟩ } := by
  have hht : AL.get? g.held t = none := by
    have := h.pend t
    rw [ht] at this
    cases hg : AL.get? g.held t with
    | none => rfl
    | some _ => rw [hg] at this; cases this
  refine ⟨_, runFrom_invoke_mapStep a t g.next rop h.fresh (h.idle hht), ?_⟩
  have hres' : res = retOf a.map rop ∨ res = none := by
    rw [retOf_congr h.map rop]; exact hres
  refine ⟨?_, ?_, AL.nodup_put _ _ h.hn, AL.nodup_put _ _ h.on, ?_, ?_⟩
  · exact (h.map.mapAfter rop).trans hm
  · intro t'
    rw [hp, pendOf_append_single, AL.get?_put]
    by_cases e : t = t'
    · rw [if_pos e, if_pos e]; cases pendOf c.pending t' <;> rfl
    · rw [if_neg e, if_neg e, ← h.pend t']; cases pendOf c.pending t' <;> rfl
  · intro o r hr
    simp only at hr ⊢
    rw [AL.get?_put] at hr
    by_cases e : g.next = o
    · rw [if_pos e] at hr
      cases hr
      refine ⟨e ▸ Nat.lt_succ_self _, Or.inr ⟨rfl, ⟨g.next, rop, res⟩, ?_, e⟩⟩
      simp only
      rw [AL.get?_put, if_pos rfl]
    · rw [if_neg e] at hr
      obtain ⟨h1, h2⟩ := h.recs o r hr
      refine ⟨Nat.lt_succ_of_lt h1, ?_⟩
      rcases h2 with hd | ⟨hs, hh, hh1, hh2⟩
      · exact Or.inl hd
      · refine Or.inr ⟨hs, hh, ?_, hh2⟩
        have : t ≠ r.tid := by intro e'; rw [← e', hht] at hh1; cases hh1
        rw [AL.get?_put, if_neg this]; exact hh1
  · intro t' h' hg
    simp only at hg ⊢
    rw [AL.get?_put] at hg
    by_cases e : t = t'
    · rw [if_pos e] at hg
      cases hg
      simp only
      rw [AL.get?_put, if_pos rfl]
      exact ⟨_, rfl, e, rfl, rfl, hres'⟩
    · rw [if_neg e] at hg
      obtain ⟨r, hr, h1, h2, h3, h4⟩ := h.held t' h' hg
      have hne : g.next ≠ h'.oid := Nat.ne_of_gt (h.recs _ r hr).1
      rw [AL.get?_put, if_neg hne]
      exact ⟨r, hr, h1, h2, h3, h4⟩

/-- A thread that holds an operation responds and becomes idle. -/
theorem rel_enq {a : State} {c c' : CState} {g : Ghost} (h : Rel a c g) (t : Nat) (x : Pend)
    (ht : pendOf c.pending t = some x)
    (hp : c'.pending = dropPend c.pending t) (hm : absMap c'.s = absMap c.s) :
    ∃ a', runFrom a (match AL.get? g.held t with
        | some hd => [ConcR.Ev.respond hd.oid hd.res]
        | none => []) = some a' ∧
      Rel a' c' { next := g.next + 1, held := AL.erase g.held t } := by
  have hht : ∃ hd, AL.get? g.held t = some hd := by
    have := h.pend t
    rw [ht] at this
    cases hg : AL.get? g.held t with
    | none => rw [hg] at this; cases this
    | some hd => exact ⟨hd, rfl⟩
  obtain ⟨hd, hhd⟩ := hht
  obtain ⟨r, hr, hr1, hr2, hr3, hr4⟩ := h.held t hd hhd
  simp only [hhd]
  have hstep : ConcR.step a (.respond hd.oid hd.res) =
      some { a with ops := AL.put a.ops hd.oid { r with phase := .done } } := by
    simp only [ConcR.step, hr]
    rw [if_pos ⟨hr2, hr4⟩]
  have hrun : runFrom a [ConcR.Ev.respond hd.oid hd.res] =
      some { a with ops := AL.put a.ops hd.oid { r with phase := .done } } := by
    simp only [runFrom, hstep]
  refine ⟨_, hrun, ?_⟩
  refine ⟨?_, ?_, AL.nodup_erase _ h.hn, AL.nodup_put _ _ h.on, ?_, ?_⟩
  · rw [hm]; exact h.map
  · intro t'
    rw [hp, pendOf_dropPend, AL.get?_erase t t' h.hn]
    by_cases e : t = t'
    · rw [if_pos e, if_pos e]; rfl
    · rw [if_neg e, if_neg e]; exact h.pend t'
  · intro o r' hr'
    simp only at hr' ⊢
    rw [AL.get?_put] at hr'
    by_cases e : hd.oid = o
    · rw [if_pos e] at hr'
      cases hr'
      exact ⟨e ▸ Nat.lt_succ_of_lt (h.recs _ r hr).1, Or.inl rfl⟩
    · rw [if_neg e] at hr'
      obtain ⟨h1, h2⟩ := h.recs o r' hr'
      refine ⟨Nat.lt_succ_of_lt h1, ?_⟩
      rcases h2 with hdn | ⟨hs, hh, hh1, hh2⟩
      · exact Or.inl hdn
      · refine Or.inr ⟨hs, hh, ?_, hh2⟩
        have hne : t ≠ r'.tid := by
          intro e'
          rw [← e', hhd] at hh1
          cases hh1
          exact e hh2
        rw [AL.get?_erase t r'.tid h.hn, if_neg hne]; exact hh1
  · intro t' h' hg
    simp only at hg ⊢
    rw [AL.get?_erase t t' h.hn] at hg
    by_cases e : t = t'
    · rw [if_pos e] at hg; cases hg
    · rw [if_neg e] at hg
      obtain ⟨r', hr', h1, h2, h3, h4⟩ := h.held t' h' hg
      have hne : hd.oid ≠ h'.oid := by
        intro e'
        rw [← e', hr] at hr'
        cases hr'
        exact e (hr1.symm.trans h1)
      rw [AL.get?_put, if_neg hne]
      exact ⟨r', hr', h1, h2, h3, h4⟩

/-- Deletions by a maintenance run. -/
theorem rel_daemons {a : State} {c c' : CState} {g : Ghost} (h : Rel a c g)
    (hp : c'.pending = c.pending) (hsub : KVSub (absMap c.s) (absMap c'.s)) :
    ∃ a', runFrom a ((delKeys (absMap c.s) (absMap c'.s)).map ConcR.Ev.daemon) = some a' ∧
      Rel a' c' { g with next := g.next + 1 } := by
  refine ⟨_, runFrom_daemons _ a, ?_⟩
  have h' := h.next_succ
  exact ⟨removeAll_delKeys h.map hsub, fun t => by rw [hp]; exact h'.pend t, h'.hn, h'.on,
    h'.recs, h'.held⟩

/-- A step that R does not see. -/
theorem rel_silent {a : State} {c c' : CState} {g : Ghost} (h : Rel a c g)
    (hp : c'.pending = c.pending) (hm : absMap c'.s = absMap c.s) :
    Rel a c' { g with next := g.next + 1 } := by
  have h' := h.next_succ
  exact ⟨by rw [hm]; exact h'.map, fun t => by rw [hp]; exact h'.pend t, h'.hn, h'.on,
    h'.recs, h'.held⟩

/-- An `invMap` that finds nothing: a complete `del` call that does not change the lookups. -/
theorem rel_inv_nothing {a : State} {c : CState} {g : Ghost} (h : Rel a c g) (t k : Nat)
    (ht : pendOf c.pending t = none) (hnone : lookup (absMap c.s) k = none) :
    ∃ a', runFrom a [ConcR.Ev.invoke t g.next (.del k), ConcR.Ev.mapStep g.next,
        ConcR.Ev.respond g.next none] = some a' ∧
      Rel a' c { g with next := g.next + 1 } := by
  have hht : AL.get? g.held t = none := by
    have := h.pend t
    rw [ht] at this
    cases hg : AL.get? g.held t with
    | none => rfl
    | some _ => rw [hg] at this; cases this
  have hrun := runFrom_callFrag a t g.next (.del k) [] none h.fresh (h.idle hht) (Or.inr rfl)
  refine ⟨_, hrun, ?_⟩
  refine ⟨?_, h.pend, h.hn, AL.nodup_put _ _ h.on, ?_, ?_⟩
  · intro k'
    show lookup (remove a.map k) k' = _
    rw [ConcR.lookup_remove, h.map k']
    by_cases e : k = k'
    · rw [if_pos e, ← e, hnone]
    · rw [if_neg e]
  · intro o r hr
    simp only at hr ⊢
    rw [AL.get?_put] at hr
    by_cases e : g.next = o
    · rw [if_pos e] at hr; cases hr
      exact ⟨e ▸ Nat.lt_succ_self _, Or.inl rfl⟩
    · rw [if_neg e] at hr
      exact ⟨Nat.lt_succ_of_lt (h.recs o r hr).1, (h.recs o r hr).2⟩
  · intro t' h' hg
    obtain ⟨r, hr, h1, h2, h3, h4⟩ := h.held t' h' hg
    have hne : g.next ≠ h'.oid := Nat.ne_of_gt (h.recs _ r hr).1
    simp only
    rw [AL.get?_put, if_neg hne]
    exact ⟨r, hr, h1, h2, h3, h4⟩

theorem invalidateMap_none {s : SState} {k : Nat} (h : (ConcS.invalidateMap s k).2 = none) :
    lookup (absMap s) k = none := by
  unfold ConcS.invalidateMap at h
  split at h
  · rename_i hnone; rw [lookup_absMap, hnone]; rfl
  · cases h

/-- **One step of ConcS is a fragment of R.** -/
theorem step_rel {p : Params} (hq : NoQuirks p) {a : State} {c c' : CState} {g : Ghost}
    (h : Rel a c g) (hk : KN c.s) (e : ConcS.Ev) (hs : ConcS.step p c e = some c') :
    ∃ a', runFrom a (projEv p c g e) = some a' ∧ Rel a' c' (ghostStep p c g e) := by
  cases e with
  | insMap t k v =>
    simp only [ConcS.step] at hs
    split at hs
    · cases hs
    · rename_i hpo
      cases hs
      exact rel_mapStep h t (.ins k v) none _ hpo rfl (insertMap_abs p c.s k v) (Or.inr rfl)
  | invMap t k =>
    simp only [ConcS.step] at hs
    split at hs
    · cases hs
    · rename_i hpo
      split at hs
      · rename_i op hop
        cases hs
        simp only [projEv, ghostStep, hop]
        exact rel_mapStep h t (.del k) none (.write op) hpo rfl (invalidateMap_abs hk k)
          (Or.inr rfl)
      · rename_i hop
        cases hs
        simp only [projEv, ghostStep, hop]
        exact rel_inv_nothing h t k hpo (invalidateMap_none hop)
  | getMap t k =>
    simp only [ConcS.step] at hs
    split at hs
    · cases hs
    · rename_i hpo
      cases hs
      exact rel_mapStep h t (.get k) (ConcS.lookup p c.s k).2 _ hpo rfl (KVEq.refl _)
        (lookup_ret p c.s k)
  | maint t =>
    simp only [ConcS.step] at hs
    split at hs
    · cases hs
    · cases hs
      exact rel_daemons (c' := { c with s := Sync.trySync p c.s }) h rfl
        (sub_of_frame (Sync.trySync_frame hq c.s) hk)
  | sync t =>
    simp only [ConcS.step] at hs
    split at hs
    · cases hs
    · cases hs
      exact rel_daemons (c' := { c with s := Sync.syncRun p c.s }) h rfl
        (sub_of_frame (Sync.syncRun_frame hq c.s) hk)
  | enq t =>
    simp only [ConcS.step] at hs
    split at hs
    · cases hs
    · rename_i op hpo
      split at hs
      · cases hs; exact rel_enq h t _ hpo rfl rfl
      · cases hs
    · rename_i op hpo
      split at hs
      · cases hs; exact rel_enq h t _ hpo rfl rfl
      · cases hs; exact rel_enq h t _ hpo rfl rfl
  | tick d =>
    simp only [ConcS.step] at hs
    cases hs
    exact ⟨a, rfl, rel_silent h rfl rfl⟩
  | invAll t =>
    simp only [ConcS.step] at hs
    cases hs
    exact ⟨a, rfl, rel_silent h rfl rfl⟩

/-- **A path of ConcS is an execution of R** (from any corresponding pair of states). -/
theorem projFrom_refines {p : Params} (hq : NoQuirks p) (evs : List ConcS.Ev) :
    ∀ (a : State) (c c' : CState) (g : Ghost), Rel a c g → KN c.s →
      ConcS.runEvs p c evs = some c' →
      ∃ a', runFrom a (projFrom p c g evs) = some a' ∧ Rel a' c' (ghostFrom p c g evs) ∧
        KN c'.s := by
  induction evs with
  | nil =>
    intro a c c' g h hk hr
    simp only [ConcS.runEvs] at hr
    cases hr
    exact ⟨a, rfl, h, hk⟩
  | cons e rest ih =>
    intro a c c' g h hk hr
    simp only [ConcS.runEvs] at hr
    cases hs : ConcS.step p c e with
    | none => rw [hs] at hr; cases hr
    | some c1 =>
      rw [hs] at hr
      obtain ⟨a1, hr1, hrel1⟩ := step_rel hq h hk e hs
      obtain ⟨a2, hr2, hrel2, hk2⟩ := ih a1 c1 c' _ hrel1 (step_kn hq hk e hs) hr
      refine ⟨a2, ?_, ?_, hk2⟩
      · simp only [projFrom, hs]
        rw [ConcR.runFrom_append, hr1]; exact hr2
      · simp only [ghostFrom, hs]; exact hrel2

/-! ## Calls: what was invoked by whom and what it returned -/

/-- What the map step at position `n` (state `c`) decides: instance, thread, operation, and the
result (that of `ConcS.lookup` for a `getMap`, `none` for `insMap` / `invMap`). -/
def decidedEv (p : Params) (c : CState) (n : Nat) : ConcS.Ev → List (Oid × Tid × ConcR.Op × Option Val)
  | .insMap t k v => [(n, t, .ins k v, none)]
  | .invMap t k => [(n, t, .del k, none)]
  | .getMap t k => [(n, t, .get k, (ConcS.lookup p c.s k).2)]
  | _ => []

/-- The decisions of a path, in the order of the map steps (ids are positions). -/
def decidedFrom (p : Params) : CState → Nat → List ConcS.Ev → List (Oid × Tid × ConcR.Op × Option Val)
  | _, _, [] => []
  | c, n, e :: rest =>
    decidedEv p c n e ++
      (match ConcS.step p c e with
       | some c' => decidedFrom p c' (n + 1) rest
       | none => [])

/-- The call that returns at a ConcS event: at `enq t` the one `t` holds; at an `invMap` that
finds nothing, that `invalidate`. -/
def respCalls (c : CState) (g : Ghost) : ConcS.Ev → List (Oid × Tid × ConcR.Op × Option Val)
  | .enq t =>
    match AL.get? g.held t with
    | some h => [(h.oid, t, h.op, h.res)]
    | none => []
  | .invMap t k =>
    match (ConcS.invalidateMap c.s k).2 with
    | some _ => []
    | none => [(g.next, t, .del k, none)]
  | _ => []

/-- The calls of a path of ConcS in the order in which they return. -/
def callsFrom (p : Params) : CState → Ghost → List ConcS.Ev → List (Oid × Tid × ConcR.Op × Option Val)
  | _, _, [] => []
  | c, g, e :: rest =>
    respCalls c g e ++
      (match ConcS.step p c e with
       | some c' => callsFrom p c' (ghostStep p c g e) rest
       | none => [])

theorem ghostStep_next (p : Params) (c : CState) (g : Ghost) (e : ConcS.Ev) :
    (ghostStep p c g e).next = g.next + 1 := by
  cases e <;> try rfl
  simp only [ghostStep]; split <;> rfl

theorem opOf_projEv (p : Params) (c : CState) (g : Ghost) (e : ConcS.Ev) (o : Oid) :
    ConcR.opOf (projEv p c g e) o = if g.next = o then mapEvOp e else none := by
  cases e with
  | insMap t k v => simp only [projEv, ConcR.opOf, mapEvOp]
  | invMap t k =>
    simp only [projEv, mapEvOp]
    split <;> simp only [ConcR.opOf]
  | getMap t k => simp only [projEv, ConcR.opOf, mapEvOp]
  | maint t => simp only [projEv, mapEvOp, opOf_daemons, ite_self]
  | sync t => simp only [projEv, mapEvOp, opOf_daemons, ite_self]
  | enq t =>
    simp only [projEv, mapEvOp, ite_self]
    split <;> rfl
  | tick d => simp only [projEv, mapEvOp, ConcR.opOf, ite_self]
  | invAll t => simp only [projEv, mapEvOp, ConcR.opOf, ite_self]

theorem mem_decidedEv {p : Params} {c : CState} {n : Nat} {e : ConcS.Ev}
    {y : Oid × Tid × ConcR.Op × Option Val} (h : y ∈ decidedEv p c n e) :
    y.1 = n ∧ mapEvOp e = some (y.2.1, y.2.2.1) := by
  cases e <;> simp only [decidedEv, List.mem_singleton, List.not_mem_nil] at h <;>
    (subst h; exact ⟨rfl, rfl⟩)

/-- What a thread holds after a step it held before, or it was decided by this step. -/
theorem mem_held_step {p : Params} {c : CState} {g : Ghost} {e : ConcS.Ev} {x : Nat × Held}
    (h : x ∈ (ghostStep p c g e).held) :
    x ∈ g.held ∨ (x.2.oid, x.1, x.2.op, x.2.res) ∈ decidedEv p c g.next e := by
  cases e with
  | insMap t k v =>
    rcases mem_put h with h | h
    · exact Or.inl h
    · subst h; exact Or.inr List.mem_cons_self
  | invMap t k =>
    simp only [ghostStep] at h
    split at h
    · rcases mem_put h with h | h
      · exact Or.inl h
      · subst h; exact Or.inr List.mem_cons_self
    · exact Or.inl h
  | getMap t k =>
    rcases mem_put h with h | h
    · exact Or.inl h
    · subst h; exact Or.inr List.mem_cons_self
  | enq t => exact Or.inl (mem_erase h)
  | maint t => exact Or.inl h
  | sync t => exact Or.inl h
  | tick d => exact Or.inl h
  | invAll t => exact Or.inl h

/-- The prefix `pre` of the R trace knows the invocations of the held instances and nothing
of future ids. -/
def PreOk (pre : List ConcR.Ev) (g : Ghost) : Prop :=
  (∀ x ∈ g.held, ConcR.opOf pre x.2.oid = some (x.1, x.2.op)) ∧
  (∀ o, g.next ≤ o → ConcR.opOf pre o = none)

theorem preOk_step {p : Params} {c : CState} {g : Ghost} {pre : List ConcR.Ev} (h : PreOk pre g)
    (e : ConcS.Ev) : PreOk (pre ++ projEv p c g e) (ghostStep p c g e) := by
  constructor
  · intro x hx
    rcases mem_held_step hx with hx | hx
    · exact ConcR.opOf_append_of_some _ (h.1 x hx)
    · obtain ⟨h1, h2⟩ := mem_decidedEv hx
      simp only at h1 h2
      rw [ConcR.opOf_append, h1, h.2 g.next (Nat.le_refl _), opOf_projEv, if_pos rfl, h2]
      rfl
  · intro o ho
    rw [ghostStep_next] at ho
    rw [ConcR.opOf_append, h.2 o (Nat.le_of_succ_le ho), opOf_projEv,
      if_neg (Nat.ne_of_lt ho)]
    rfl

theorem calls_step {p : Params} {c : CState} {g : Ghost} {pre : List ConcR.Ev} (h : PreOk pre g)
    (e : ConcS.Ev) (T : List ConcR.Ev) :
    (resps (projEv p c g e)).filterMap
        (fun x => (ConcR.opOf (pre ++ projEv p c g e ++ T) x.1).map
          fun y => (x.1, y.1, y.2, x.2)) =
      respCalls c g e := by
  cases e with
  | insMap t k v => rfl
  | getMap t k => rfl
  | maint t => simp only [projEv, resps_daemons]; rfl
  | sync t => simp only [projEv, resps_daemons]; rfl
  | tick d => rfl
  | invAll t => rfl
  | invMap t k =>
    have hop : ConcR.opOf (pre ++ projEv p c g (.invMap t k) ++ T) g.next =
        some (t, .del k) := by
      rw [List.append_assoc, ConcR.opOf_append, h.2 g.next (Nat.le_refl _), ConcR.opOf_append,
        opOf_projEv, if_pos rfl]
      rfl
    revert hop
    simp only [projEv, respCalls]
    split
    · intro _; rfl
    · intro hop
      simp only [resps, List.filterMap_cons, hop, Option.map_some, List.filterMap_nil]
  | enq t =>
    cases hg : AL.get? g.held t with
    | none => simp only [projEv, respCalls, hg]; rfl
    | some hd =>
      have hop : ConcR.opOf (pre ++ projEv p c g (.enq t) ++ T) hd.oid = some (t, hd.op) := by
        rw [List.append_assoc]
        exact ConcR.opOf_append_of_some _ (h.1 (t, hd) (AL.mem_of_get? hg))
      revert hop
      simp only [projEv, respCalls, hg]
      intro hop
      simp only [resps, List.filterMap_cons, hop, Option.map_some, List.filterMap_nil]

theorem callsOf_projFrom (p : Params) (evs : List ConcS.Ev) :
    ∀ (c : CState) (g : Ghost) (pre : List ConcR.Ev), PreOk pre g →
      (resps (projFrom p c g evs)).filterMap
          (fun x => (ConcR.opOf (pre ++ projFrom p c g evs) x.1).map
            fun y => (x.1, y.1, y.2, x.2)) =
        callsFrom p c g evs := by
  induction evs with
  | nil => intro c g pre _; rfl
  | cons e rest ih =>
    intro c g pre h
    simp only [projFrom, callsFrom]
    rw [resps_append, List.filterMap_append, ← List.append_assoc, calls_step h]
    cases hs : ConcS.step p c e with
    | none => simp only [resps, List.filterMap_nil]
    | some c1 =>
      simp only
      rw [ih c1 _ (pre ++ projEv p c g e) (preOk_step h e)]

theorem preOk_init : PreOk [] {} := ⟨fun _ hx => (by cases hx), fun _ _ => rfl⟩

/-- Every call that returns returns what its map step decided. -/
theorem callsFrom_decided (p : Params) (evs : List ConcS.Ev) :
    ∀ (c : CState) (g : Ghost) (D : List (Oid × Tid × ConcR.Op × Option Val)),
      (∀ x ∈ g.held, (x.2.oid, x.1, x.2.op, x.2.res) ∈ D) →
      ∀ y ∈ callsFrom p c g evs, y ∈ D ++ decidedFrom p c g.next evs := by
  induction evs with
  | nil => intro c g D _ y hy; cases hy
  | cons e rest ih =>
    intro c g D hD y hy
    simp only [callsFrom, decidedFrom] at hy ⊢
    rcases List.mem_append.1 hy with hy | hy
    · cases e with
      | enq t =>
        simp only [respCalls] at hy
        cases hg : AL.get? g.held t with
        | none => rw [hg] at hy; cases hy
        | some hd =>
          rw [hg] at hy
          simp only [List.mem_singleton] at hy
          subst hy
          exact List.mem_append_left _ (hD (t, hd) (AL.mem_of_get? hg))
      | invMap t k =>
        simp only [respCalls] at hy
        split at hy
        · cases hy
        · simp only [List.mem_singleton] at hy
          subst hy
          exact List.mem_append_right _ (List.mem_append_left _ List.mem_cons_self)
      | _ => cases hy
    · cases hs : ConcS.step p c e with
      | none => rw [hs] at hy; cases hy
      | some c1 =>
        rw [hs] at hy
        simp only at hy ⊢
        have := ih c1 (ghostStep p c g e) (D ++ decidedEv p c g.next e) (by
          intro x hx
          rcases mem_held_step hx with hx | hx
          · exact List.mem_append_left _ (hD x hx)
          · exact List.mem_append_right _ hx) y hy
        rw [ghostStep_next, List.append_assoc] at this
        exact this

/-! ## Reading the projected trace in terms of the ConcS events -/

/-- Instance `o` of the projection is the map step at position `o` of the path. -/
theorem opOf_projFrom (p : Params) (evs : List ConcS.Ev) :
    ∀ (c c' : CState) (g : Ghost) (o : Nat), ConcS.runEvs p c evs = some c' →
      ConcR.opOf (projFrom p c g evs) o =
        if g.next ≤ o then (evs[o - g.next]?).bind mapEvOp else none := by
  induction evs with
  | nil => intro c c' g o _; simp [projFrom, ConcR.opOf]
  | cons e rest ih =>
    intro c c' g o hr
    simp only [ConcS.runEvs] at hr
    cases hs : ConcS.step p c e with
    | none => rw [hs] at hr; cases hr
    | some c1 =>
      rw [hs] at hr
      simp only [projFrom, hs]
      rw [ConcR.opOf_append, opOf_projEv, ih c1 c' _ o hr, ghostStep_next]
      by_cases h1 : g.next = o
      · have h2 : ¬ (g.next + 1 ≤ o) := by omega
        have h3 : g.next ≤ o := by omega
        have h4 : o - g.next = 0 := by omega
        rw [if_pos h1, if_neg h2, if_pos h3, h4]
        simp
      · rw [if_neg h1]
        by_cases h2 : g.next + 1 ≤ o
        · have h3 : g.next ≤ o := by omega
          have h4 : o - g.next = (o - (g.next + 1)) + 1 := by omega
          rw [if_pos h2, if_pos h3, h4]
          simp
        · have h3 : ¬ g.next ≤ o := by omega
          rw [if_neg h2, if_neg h3]
          rfl

theorem stepOids_projEv (p : Params) (c : CState) (g : Ghost) (e : ConcS.Ev) :
    ConcR.stepOids (projEv p c g e) = if (mapEvOp e).isSome then [g.next] else [] := by
  have hd : ∀ ds : List Key, ConcR.stepOids (ds.map ConcR.Ev.daemon) = [] := by
    intro ds
    induction ds with
    | nil => rfl
    | cons d ds ih => simpa [ConcR.stepOids] using ih
  cases e with
  | insMap t k v => rfl
  | invMap t k => simp only [projEv, mapEvOp]; split <;> rfl
  | getMap t k => rfl
  | maint t => simp only [projEv, mapEvOp, hd]; rfl
  | sync t => simp only [projEv, mapEvOp, hd]; rfl
  | enq t => simp only [projEv, mapEvOp]; split <;> rfl
  | tick d => rfl
  | invAll t => rfl

/-- The map steps of the projection: one per per-key map event, its id the position. -/
theorem mem_stepOids_projFrom (p : Params) (evs : List ConcS.Ev) :
    ∀ (c c' : CState) (g : Ghost) (o : Nat), ConcS.runEvs p c evs = some c' →
      (o ∈ ConcR.stepOids (projFrom p c g evs) ↔
        g.next ≤ o ∧ ((evs[o - g.next]?).bind mapEvOp).isSome = true) := by
  induction evs with
  | nil => intro c c' g o _; simp [projFrom, ConcR.stepOids]
  | cons e rest ih =>
    intro c c' g o hr
    simp only [ConcS.runEvs] at hr
    cases hs : ConcS.step p c e with
    | none => rw [hs] at hr; cases hr
    | some c1 =>
      rw [hs] at hr
      simp only [projFrom, hs]
      rw [ConcR.stepOids_append, List.mem_append, stepOids_projEv, ih c1 c' _ o hr,
        ghostStep_next]
      by_cases h1 : g.next = o
      · have h4 : o - g.next = 0 := by omega
        rw [h4]
        cases hm : (mapEvOp e).isSome <;> simp [hm] <;> omega
      · by_cases h2 : g.next + 1 ≤ o
        · have h4 : o - g.next = (o - (g.next + 1)) + 1 := by omega
          rw [h4]
          have h5 : ¬ o = g.next := fun e' => h1 e'.symm
          cases (mapEvOp e).isSome <;> simp [h5] <;> omega
        · have h5 : ¬ o = g.next := fun e' => h1 e'.symm
          cases (mapEvOp e).isSome <;> simp [h5] <;> omega

/-- Map steps occur in the order of their ids. -/
theorem stepOids_projFrom_sorted (p : Params) (evs : List ConcS.Ev) :
    ∀ (c : CState) (g : Ghost),
      (∀ o ∈ ConcR.stepOids (projFrom p c g evs), g.next ≤ o) ∧
      (ConcR.stepOids (projFrom p c g evs)).Pairwise (· < ·) := by
  induction evs with
  | nil => intro c g; simp [projFrom, ConcR.stepOids]
  | cons e rest ih =>
    intro c g
    simp only [projFrom]
    rw [ConcR.stepOids_append, stepOids_projEv]
    cases hs : ConcS.step p c e with
    | none =>
      simp only [ConcR.stepOids, List.append_nil]
      split <;> simp
    | some c1 =>
      simp only
      obtain ⟨ih1, ih2⟩ := ih c1 (ghostStep p c g e)
      rw [ghostStep_next] at ih1
      constructor
      · intro o ho
        rcases List.mem_append.1 ho with ho | ho
        · split at ho
          · simp only [List.mem_singleton] at ho; rw [ho]; exact Nat.le_refl _
          · cases ho
        · exact Nat.le_of_succ_le (ih1 o ho)
      · rw [List.pairwise_append]
        refine ⟨by split <;> simp, ih2, ?_⟩
        intro a ha b hb
        split at ha
        · simp only [List.mem_singleton] at ha; rw [ha]; exact ih1 b hb
        · cases ha

/-- From the order of the ids to the order of the positions of two map steps, and back. -/
theorem pairwise_stepOids_pos {R : Oid → Oid → Prop} :
    ∀ {E : List ConcR.Ev}, (ConcR.stepOids E).Pairwise R → ∀ {i j : Nat} {o1 o2 : Oid}, i < j →
      E[i]? = some (.mapStep o1) → E[j]? = some (.mapStep o2) → R o1 o2 := by
  intro E
  induction E with
  | nil => intro _ i j o1 o2 _ h1 _; simp at h1
  | cons e es ih =>
    intro hp i j o1 o2 hij h1 h2
    have hp' : (ConcR.stepOids es).Pairwise R := by
      cases e <;> simp only [ConcR.stepOids] at hp <;> first | exact hp | exact (List.pairwise_cons.1 hp).2
    cases j with
    | zero => omega
    | succ j' =>
      have h2' : es[j']? = some (.mapStep o2) := by simpa using h2
      cases i with
      | succ i' =>
        have h1' : es[i']? = some (.mapStep o1) := by simpa using h1
        exact ih hp' (by omega) h1' h2'
      | zero =>
        have he : e = .mapStep o1 := by simpa using h1
        subst he
        simp only [ConcR.stepOids] at hp
        exact (List.pairwise_cons.1 hp).1 o2
          (ConcR.mem_stepOids.2 (List.mem_of_getElem? h2'))

/-! ## Membership in `callsOf`; inverting `mapEvOp` -/

theorem mem_resps {E : List ConcR.Ev} {o : Oid} {r : Option Val} :
    (o, r) ∈ resps E ↔ ConcR.Ev.respond o r ∈ E := by
  induction E with
  | nil => simp [resps]
  | cons e es ih =>
    cases e <;> simp [resps, ih]

theorem mem_callsOf {E : List ConcR.Ev} {o : Oid} {t : Tid} {op : ConcR.Op} {r : Option Val}
    (h : (o, t, op, r) ∈ callsOf E) :
    ConcR.Ev.respond o r ∈ E ∧ ConcR.opOf E o = some (t, op) := by
  unfold callsOf at h
  rw [List.mem_filterMap] at h
  obtain ⟨x, hx, hm⟩ := h
  cases ho : ConcR.opOf E x.1 with
  | none => rw [ho] at hm; cases hm
  | some y =>
    rw [ho] at hm
    simp only [Option.map_some, Option.some.injEq, Prod.mk.injEq] at hm
    obtain ⟨h1, h2, h3, h4⟩ := hm
    subst h1 h2 h3 h4
    exact ⟨mem_resps.1 hx, ho⟩

theorem mapEvOp_ins {e : ConcS.Ev} {t k v : Nat} (h : mapEvOp e = some (t, .ins k v)) :
    e = .insMap t k v := by
  cases e <;> simp only [mapEvOp, Option.some.injEq, Prod.mk.injEq, reduceCtorEq, and_false,
    ConcR.Op.ins.injEq] at h
  obtain ⟨rfl, rfl, rfl⟩ := h; rfl

theorem mapEvOp_del {e : ConcS.Ev} {t k : Nat} (h : mapEvOp e = some (t, .del k)) :
    e = .invMap t k := by
  cases e <;> simp only [mapEvOp, Option.some.injEq, Prod.mk.injEq, reduceCtorEq, and_false,
    ConcR.Op.del.injEq] at h
  obtain ⟨rfl, rfl⟩ := h; rfl

theorem mapEvOp_get {e : ConcS.Ev} {t k : Nat} (h : mapEvOp e = some (t, .get k)) :
    e = .getMap t k := by
  cases e <;> simp only [mapEvOp, Option.some.injEq, Prod.mk.injEq, reduceCtorEq, and_false,
    ConcR.Op.get.injEq] at h
  obtain ⟨rfl, rfl⟩ := h; rfl

/-- The calls of an interleaving from the empty cache, in response order. -/
def callsC (p : Params) (evs : List ConcS.Ev) : List (Oid × Tid × ConcR.Op × Option Val) :=
  callsFrom p {} {} evs

/-- What the map steps of an interleaving from the empty cache decided. -/
def decidedC (p : Params) (evs : List ConcS.Ev) : List (Oid × Tid × ConcR.Op × Option Val) :=
  decidedFrom p {} 0 evs

end ConcSR
end MiniMoka
