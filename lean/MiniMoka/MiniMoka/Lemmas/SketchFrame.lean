/-
  Who touches the popularity sketch of the two cache models (property C14, clause "only
  lookups are recorded").

  Unsync: every function of `MiniMoka/Unsync.lean` except `sketchIncrement` (called by `get`
  only) and `enableSketch` (called by `insert` through `maybeEnableSketch`) leaves the fields
  `sk` / `skOn` alone: `Unsync.SkF.SkSame`, proved without any invariant (the `fail` branches
  do not touch the sketch either).  `Enabled` describes what an `insert` may do.

  Sync: the write/eviction path is covered by the `*_sk` lemmas of `Lemmas/SyncNodes.lean`;
  here: `applyRead` is exactly one `incr1`, `applyReads` a `feed`, the loop of `Inner::sync`
  runs its body once, and the effect of `syncRun`, `trySync`, `scheduleWriteOp`,
  `recordReadOp` and of every step on the sketch and on the read queue (`Drain`).

  Whole histories: `Recorded` (the sketch is a freshly sized one that has recorded exactly the
  lookups made since it was switched on) is an invariant of both models
  (`Unsync.SkF.runState_recorded`, `Sync.SkF.stateAfter_recQ`).

  `Sketch.increment` is never unfolded on symbolic arguments: `incr1` / `feed` treat it as an
  opaque function; the only fact used about it is `increment_of_empty` (through
  `Sketch.incGenQ`) and the abstract `SketchLaws`.
-/
import MiniMoka.Lemmas.UnsyncStep
import MiniMoka.Lemmas.SketchLaws
import MiniMoka.Lemmas.SyncNodes
import MiniMoka.Lemmas.SyncQueues

namespace MiniMoka

/-! ### the sketch by itself -/

namespace Sketch

/-- One recorded lookup as the caches perform it: `increment`, the sketch staying as it is
when `increment` faults (the caches then set their sticky fault). -/
def incr1 (legacy : Bool) (s : Sketch) (h : UInt64) : Sketch :=
  match s.increment legacy h with
  | .ok s' => s'
  | .error _ => s

/-- Recording the hashes `hs` one after the other. -/
def feed (legacy : Bool) (s : Sketch) (hs : List UInt64) : Sketch := hs.foldl (incr1 legacy) s

theorem feed_nil (l : Bool) (s : Sketch) : feed l s [] = s := rfl

theorem feed_cons (l : Bool) (s : Sketch) (h : UInt64) (hs : List UInt64) :
    feed l s (h :: hs) = feed l (incr1 l s h) hs := rfl

theorem feed_append (l : Bool) (s : Sketch) (a b : List UInt64) :
    feed l s (a ++ b) = feed l (feed l s a) b := List.foldl_append

/-- A sketch without table ignores `increment` (`if self.table.is_empty() { return; }`). -/
theorem increment_of_empty (l : Bool) {s : Sketch} (h0 : s.table.size = 0) (h : UInt64) :
    s.increment l h = .ok s := by
  rw [increment_eq_incGenQ]
  unfold incGenQ
  rw [if_pos h0]

theorem incr1_of_empty (l : Bool) {s : Sketch} (h0 : s.table.size = 0) (h : UInt64) :
    incr1 l s h = s := by
  unfold incr1
  rw [increment_of_empty l h0 h]

theorem feed_of_empty (l : Bool) {s : Sketch} (h0 : s.table.size = 0) (hs : List UInt64) :
    feed l s hs = s := by
  induction hs with
  | nil => rfl
  | cons h hs ih => rw [feed_cons, incr1_of_empty l h0 h, ih]

theorem feed_default (l : Bool) (hs : List UInt64) : feed l {} hs = {} :=
  feed_of_empty l rfl hs

/-- Under the sketch laws no `increment` of a `feed` faults: `feed` is the monadic fold. -/
theorem feed_ok {P : Sketch → Prop} (L : SketchLaws P) (hs : List UInt64) :
    ∀ {s : Sketch}, P s → hs.foldlM (increment false) s = .ok (feed false s hs) ∧
      P (feed false s hs) := by
  induction hs with
  | nil => intro s hp; exact ⟨rfl, hp⟩
  | cons h hs ih =>
    intro s hp
    obtain ⟨s', h1, h2⟩ := L.incr s h hp
    have e : incr1 false s h = s' := by unfold incr1; rw [h1]
    rw [feed_cons, e, List.foldlM_cons, h1]
    exact ih h2

/-- Every estimate of the empty sketch is 0. -/
theorem frequency_default (x : UInt64) : ({} : Sketch).frequency x = 0 := rfl

/-- Every estimate of a freshly sized sketch is 0. -/
theorem frequency_init (cap : Nat) (x : UInt64) : (init cap).frequency x = 0 := by
  unfold frequency
  rw [if_neg (init_table_ne cap), counterAt_init, counterAt_init, counterAt_init, counterAt_init]
  rfl

end Sketch

/-- What may happen to the pair (`sk`, `skOn`) when no lookup is recorded: nothing, or the
sketch is switched on (`enable_frequency_sketch`: `ensure_capacity` and the flag), which
happens only while the flag is off. -/
def Enabled (sk : Sketch) (on : Bool) (sk' : Sketch) (on' : Bool) : Prop :=
  (sk' = sk ∧ on' = on) ∨ (on = false ∧ on' = true ∧ ∃ cap, sk' = sk.ensureCapacity cap)

theorem Enabled.same (sk : Sketch) (on : Bool) : Enabled sk on sk on := Or.inl ⟨rfl, rfl⟩

/-- With the invariant "flag off → nothing recorded" (`Inv.skOff` / `SkOK.skOff`) no estimate
changes: either the sketch is the same or all estimates were 0 and are 0. -/
theorem Enabled.frequency {sk sk' : Sketch} {on on' : Bool} (h : Enabled sk on sk' on')
    (hoff : on = false → sk = {}) (x : UInt64) : sk'.frequency x = sk.frequency x := by
  rcases h with ⟨h1, _⟩ | ⟨h1, _, cap, h3⟩
  · rw [h1]
  · rw [h3, hoff h1]
    exact Sketch.frequency_init cap x

/-- The hashes of the lookups (`get`) of a history, in order. -/
def getHashes (p : Params) (h : List Op) : List UInt64 :=
  h.filterMap (fun op => match op with
    | .get k => some (p.hash k)
    | _ => none)

theorem getHashes_cons_get (p : Params) (k : Nat) (h : List Op) :
    getHashes p (.get k :: h) = p.hash k :: getHashes p h := rfl

theorem getHashes_cons_of_not_get (p : Params) (op : Op) (h : List Op) (hop : ∀ k, op ≠ .get k) :
    getHashes p (op :: h) = getHashes p h := by
  cases op <;> first | rfl | exact absurd rfl (hop _)

/-- What the sketch of a cache is, given the sequence `hs` of hashes that have been handed to
it so far: still off and empty, or switched on at some point (`hs = pre ++ post`) as a freshly
sized sketch that has since recorded exactly `post`, in order, each hash once. -/
def Recorded (P : Sketch → Prop) (sk : Sketch) (on : Bool) (hs : List UInt64) : Prop :=
  (on = false ∧ sk = {}) ∨
  ∃ pre post cap, hs = pre ++ post ∧ on = true ∧ P (Sketch.init cap) ∧
    sk = Sketch.feed false (Sketch.init cap) post

theorem Recorded.init (P : Sketch → Prop) : Recorded P {} false [] := Or.inl ⟨rfl, rfl⟩

/-- Feeding more hashes. -/
theorem Recorded.feed {P : Sketch → Prop} {sk : Sketch} {on : Bool} {hs : List UInt64}
    (h : Recorded P sk on hs) (more : List UInt64) :
    Recorded P (Sketch.feed false sk more) on (hs ++ more) := by
  rcases h with ⟨h1, h2⟩ | ⟨pre, post, cap, h1, h2, h3, h4⟩
  · exact Or.inl ⟨h1, by rw [h2, Sketch.feed_default]⟩
  · refine Or.inr ⟨pre, post ++ more, cap, by rw [h1, List.append_assoc], h2, h3, ?_⟩
    rw [h4, Sketch.feed_append]

/-- Possibly switching the sketch on. -/
theorem Recorded.enabled {P : Sketch → Prop} {sk sk' : Sketch} {on on' : Bool}
    {hs : List UInt64} (h : Recorded P sk on hs) (he : Enabled sk on sk' on') (hp : P sk') :
    Recorded P sk' on' hs := by
  rcases he with ⟨e1, e2⟩ | ⟨e1, e2, cap, e3⟩
  · rw [e1, e2]; exact h
  · rcases h with ⟨_, h2⟩ | ⟨_, _, _, _, h2, _⟩
    · have e4 : sk' = Sketch.init cap := by rw [e3, h2]; rfl
      exact Or.inr ⟨hs, [], cap, (List.append_nil _).symm, e2, e4 ▸ hp, e4⟩
    · rw [e1] at h2; cases h2

/-- The recording as a run of the sketch model (`Props/C14.lean` speaks about such runs). -/
theorem Recorded.run {sk : Sketch} {on : Bool} {hs : List UInt64}
    (h : Recorded Sketch.Good sk on hs) :
    (on = false ∧ sk = {}) ∨
    ∃ pre post cap g, hs = pre ++ post ∧ on = true ∧
      Sketch.runG (Sketch.init cap, Sketch.ghost0) post = .ok (sk, g) := by
  rcases h with h | ⟨pre, post, cap, h1, h2, h3, h4⟩
  · exact Or.inl h
  · refine Or.inr ⟨pre, post, cap, ?_⟩
    have hr := (Sketch.feed_ok sketchLaws post h3).1
    rw [← Sketch.run_eq_foldlM, ← h4, Sketch.run_of_runG _ Sketch.ghost0] at hr
    cases hg : Sketch.runG (Sketch.init cap, Sketch.ghost0) post with
    | error e => rw [hg] at hr; cases hr
    | ok st =>
      rw [hg] at hr
      obtain ⟨s1, g⟩ := st
      simp only [Except.ok.injEq] at hr
      exact ⟨g, h1, h2, by rw [hr]⟩

namespace Unsync
namespace SkF

/-- The sketch and its flag are unchanged. -/
def SkSame (s s' : UState) : Prop := s'.sk = s.sk ∧ s'.skOn = s.skOn

theorem SkSame.refl (s : UState) : SkSame s s := ⟨rfl, rfl⟩

theorem SkSame.trans {a b c : UState} (h1 : SkSame a b) (h2 : SkSame b c) : SkSame a c :=
  ⟨h2.1.trans h1.1, h2.2.trans h1.2⟩

theorem fail_sk (s : UState) (f : Fault) : SkSame s (s.fail f) := by
  unfold UState.fail; split <;> exact ⟨rfl, rfl⟩

theorem unlinkAo_sk (s : UState) (e : UEntry) : SkSame s (unlinkAo s e) := by
  unfold unlinkAo
  split
  · exact SkSame.refl s
  · split
    · exact ⟨rfl, rfl⟩
    · exact fail_sk _ _

theorem unlinkWo_sk (s : UState) (e : UEntry) : SkSame s (unlinkWo s e) := by
  unfold unlinkWo
  split
  · exact SkSame.refl s
  · split
    · exact ⟨rfl, rfl⟩
    · exact fail_sk _ _

theorem moveToBackAoE_sk (s : UState) (e : UEntry) : SkSame s (moveToBackAoE s e) := by
  unfold moveToBackAoE
  split
  · exact SkSame.refl s
  · split
    · exact ⟨rfl, rfl⟩
    · exact fail_sk _ _

theorem moveToBackWoE_sk (s : UState) (e : UEntry) : SkSame s (moveToBackWoE s e) := by
  unfold moveToBackWoE
  split
  · exact fail_sk _ _
  · split
    · exact ⟨rfl, rfl⟩
    · exact SkSame.refl s

theorem takeOut_sk (s : UState) (k : Nat) (e : UEntry) : SkSame s (takeOut s k e) := by
  unfold takeOut
  refine SkSame.trans ?_ (unlinkWo_sk _ _)
  refine SkSame.trans ?_ (unlinkAo_sk _ _)
  exact ⟨rfl, rfl⟩

theorem subEc_sk (s : UState) (n : Nat) : SkSame s (subEc s n) := by
  unfold subEc
  split
  · exact fail_sk _ _
  · exact ⟨rfl, rfl⟩

/-- Settling the counters after an eviction loop. -/
theorem settle_sk (s : UState) (c w : Nat) :
    SkSame s { subEc s c with ws := (subEc s c).ws - w } :=
  SkSame.trans (subEc_sk s c) ⟨rfl, rfl⟩

theorem removeExpiredWo_sk (p : Params) (fuel : Nat) :
    ∀ (s : UState) (c w : Nat), SkSame s (removeExpiredWo p fuel s c w).1 := by
  induction fuel with
  | zero => intro s c w; exact SkSame.refl s
  | succ n ih =>
    intro s c w
    unfold removeExpiredWo
    split
    · exact SkSame.refl s
    · split
      · split
        · exact (takeOut_sk s _ _).trans (ih _ _ _)
        · exact SkSame.trans ⟨rfl, rfl⟩ (ih _ _ _)
      · exact SkSame.refl s

theorem removeExpiredAo_sk (p : Params) (fuel : Nat) :
    ∀ (s : UState) (c w : Nat), SkSame s (removeExpiredAo p fuel s c w).1 := by
  induction fuel with
  | zero => intro s c w; exact SkSame.refl s
  | succ n ih =>
    intro s c w
    unfold removeExpiredAo
    split
    · exact SkSame.refl s
    · split
      · split
        · exact (takeOut_sk s _ _).trans (ih _ _ _)
        · exact SkSame.trans ⟨rfl, rfl⟩ (ih _ _ _)
      · exact SkSame.refl s

theorem evictLruLoop_sk (fuel : Nat) :
    ∀ (s : UState) (wte c w : Nat), SkSame s (evictLruLoop fuel s wte c w).1 := by
  induction fuel with
  | zero => intro s wte c w; exact SkSame.refl s
  | succ n ih =>
    intro s wte c w
    unfold evictLruLoop
    split
    · exact SkSame.refl s
    · split
      · exact SkSame.refl s
      · split
        · exact (takeOut_sk s _ _).trans (ih _ _ _ _)
        · exact SkSame.trans ⟨rfl, rfl⟩ (ih _ _ _ _)

/-- The shape `let (s1, c, w) := loop; settle` shared by the three eviction passes. -/
def settleR (r : UState × Nat × Nat) : UState :=
  match r with
  | (s1, c, w) =>
    let s2 := subEc s1 c
    { s2 with ws := s2.ws - w }

theorem settleR_sk {s : UState} (r : UState × Nat × Nat) : SkSame s r.1 → SkSame s (settleR r) := by
  obtain ⟨s1, c, w⟩ := r
  intro h
  exact h.trans (settle_sk s1 c w)

theorem evictLru_sk (p : Params) (s : UState) : SkSame s (evictLru p s) :=
  settleR_sk (evictLruLoop EVICTION_BATCH_SIZE s (weightsToEvict p s) 0 0) (evictLruLoop_sk _ _ _ _ _)

theorem evictExpired_sk (p : Params) (s : UState) : SkSame s (evictExpired p s) := by
  have h1 : SkSame s (if p.ttl.isSome = true then
      settleR (removeExpiredWo p EVICTION_BATCH_SIZE s 0 0) else s) := by
    split
    · exact settleR_sk _ (removeExpiredWo_sk _ _ _ _ _)
    · exact SkSame.refl s
  show SkSame s (if p.tti.isSome = true then
      settleR (removeExpiredAo p EVICTION_BATCH_SIZE (if p.ttl.isSome = true then
        settleR (removeExpiredWo p EVICTION_BATCH_SIZE s 0 0) else s) 0 0)
      else (if p.ttl.isSome = true then
        settleR (removeExpiredWo p EVICTION_BATCH_SIZE s 0 0) else s))
  generalize (if p.ttl.isSome = true then
      settleR (removeExpiredWo p EVICTION_BATCH_SIZE s 0 0) else s) = s1 at h1
  split
  · exact h1.trans (settleR_sk _ (removeExpiredAo_sk _ _ _ _ _))
  · exact h1

theorem maintain_sk (p : Params) (s : UState) : SkSame s (maintain p s) := by
  unfold maintain evictExpiredIfNeeded
  split
  · exact (evictExpired_sk p s).trans (evictLru_sk p _)
  · exact evictLru_sk p s

theorem pushCandidate_sk (p : Params) (s : UState) (k : Nat) (hash : UInt64) (ts : Option Nat) :
    SkSame s (pushCandidate p s k hash ts) := by
  unfold pushCandidate
  split
  · exact fail_sk _ _
  · dsimp only
    split <;> exact ⟨rfl, rfl⟩

theorem removeVictims_sk (vs : List AoNode) : ∀ (s : UState), SkSame s (removeVictims vs s) := by
  induction vs with
  | nil => intro s; exact SkSame.refl s
  | cons v rest ih =>
    intro s
    unfold removeVictims
    split
    · exact (fail_sk s _).trans (ih _)
    · exact ((takeOut_sk s _ _).trans (subEc_sk _ _)).trans (ih _)

def retime (s : UState) (e : UEntry) (ts : Option Nat) : UState :=
  match ts with
  | none => s
  | some t =>
    let s := match e.ao with
      | some id => { s with prob := setTsAo s.prob id t }
      | none => s
    match e.wo with
      | some id => { s with wo := setTsWo s.wo id t }
      | none => s

theorem retime_sk (s : UState) (e : UEntry) (ts : Option Nat) : SkSame s (retime s e ts) := by
  unfold retime
  cases ts with
  | none => exact SkSame.refl s
  | some t => cases e.ao <;> cases e.wo <;> exact ⟨rfl, rfl⟩

theorem handleUpdate_eq_retime (p : Params) (s : UState) (k : Nat) (ts : Option Nat)
    (weight : Nat) (old : UEntry) :
    handleUpdate p s k ts weight old =
      match AL.get? s.map k with
      | none => s.fail .expect
      | some e =>
        let e' : UEntry := { e with ao := old.ao, wo := old.wo, weight := weight }
        let s2 := moveToBackAoE (retime { s with map := AL.put s.map k e' } e' ts) e'
        let s3 := if p.ttl.isSome then moveToBackWoE s2 e' else s2
        { s3 with ws := s3.ws - old.weight + weight } := rfl

theorem handleUpdate_sk (p : Params) (s : UState) (k : Nat) (ts : Option Nat) (weight : Nat)
    (old : UEntry) : SkSame s (handleUpdate p s k ts weight old) := by
  rw [handleUpdate_eq_retime]
  split
  · exact fail_sk _ _
  · rename_i e _
    have h2 := ((show SkSame s { s with map := AL.put s.map k { e with ao := old.ao, wo := old.wo, weight := weight } } from ⟨rfl, rfl⟩).trans
      (retime_sk _ { e with ao := old.ao, wo := old.wo, weight := weight } ts)).trans (moveToBackAoE_sk _ { e with ao := old.ao, wo := old.wo, weight := weight })
    dsimp only
    generalize moveToBackAoE _ _ = s2 at h2 ⊢
    have h3 : SkSame s (if p.ttl.isSome = true then moveToBackWoE s2 { e with ao := old.ao, wo := old.wo, weight := weight } else s2) := by
      split
      · exact h2.trans (moveToBackWoE_sk _ _)
      · exact h2
    generalize (if p.ttl.isSome = true then moveToBackWoE s2 { e with ao := old.ao, wo := old.wo, weight := weight } else s2) = s3 at h3 ⊢
    exact h3.trans ⟨rfl, rfl⟩

theorem recordHit_sk (s : UState) (e : UEntry) (ts : Option Nat) : SkSame s (recordHit s e ts) := by
  unfold recordHit
  refine SkSame.trans ?_ (moveToBackAoE_sk _ _)
  split <;> exact ⟨rfl, rfl⟩

theorem containsKey_sk (p : Params) (s : UState) (k : Nat) : SkSame s (containsKey p s k).1 := by
  unfold containsKey
  dsimp only
  split
  · exact maintain_sk p s
  · split <;> exact maintain_sk p s

theorem invalidate_sk (p : Params) (s : UState) (k : Nat) : SkSame s (invalidate p s k) := by
  unfold invalidate
  dsimp only
  split
  · exact maintain_sk p s
  · refine SkSame.trans (maintain_sk p s) ?_
    generalize maintain p s = s1
    rename_i e _
    have h1 := takeOut_sk s1 k e
    generalize takeOut s1 k e = s2 at h1 ⊢
    have h2 : SkSame s1 (if p.q.d1 = true then s2 else subEc s2 1) := by
      split
      · exact h1
      · exact h1.trans (subEc_sk _ _)
    generalize (if p.q.d1 = true then s2 else subEc s2 1) = s3 at h2 ⊢
    exact h2.trans ⟨rfl, rfl⟩

theorem invalidateAll_sk (p : Params) (s : UState) : SkSame s (invalidateAll p s) := ⟨rfl, rfl⟩

theorem invalidateKeys_sk (p : Params) (keys : List Nat) :
    ∀ (s : UState) (c w : Nat), SkSame s (invalidateKeys p keys s c w).1 := by
  induction keys with
  | nil => intro s c w; exact SkSame.refl s
  | cons k rest ih =>
    intro s c w
    unfold invalidateKeys
    split
    · exact ih _ _ _
    · exact (takeOut_sk s _ _).trans (ih _ _ _)

theorem invalidateEntriesIf_sk (p : Params) (s : UState) (pr : Pred) :
    SkSame s (invalidateEntriesIf p s pr) := by
  unfold invalidateEntriesIf
  dsimp only
  have h1 := invalidateKeys_sk p ((s.map.filter (fun kv => pr.eval kv.1 kv.2.val)).map (·.1)) s 0 0
  generalize invalidateKeys p _ s 0 0 = r at h1 ⊢
  obtain ⟨s1, c, w⟩ := r
  dsimp only at h1 ⊢
  have h2 : SkSame s (if p.q.d3 = true then s1 else subEc s1 c) := by
    split
    · exact h1
    · exact h1.trans (subEc_sk _ _)
  generalize (if p.q.d3 = true then s1 else subEc s1 c) = s2 at h2 ⊢
  exact h2.trans ⟨rfl, rfl⟩

/-! ### `insert`: the only place where the sketch is switched on -/

/-- `Enabled` on states. -/
def En (s s' : UState) : Prop := Enabled s.sk s.skOn s'.sk s'.skOn

theorem En.of_same {s s' : UState} (h : SkSame s s') : En s s' := Or.inl h

theorem En.after {a b c : UState} (h1 : SkSame a b) (h2 : En b c) : En a c := by
  unfold En at h2 ⊢
  rw [← h1.1, ← h1.2]
  exact h2

theorem shouldEnableSketch_off {p : Params} {s : UState} (h : shouldEnableSketch p s = true) :
    s.skOn = false := by
  unfold shouldEnableSketch at h
  cases hs : s.skOn with
  | false => rfl
  | true => rw [hs] at h; simp at h

theorem maybeEnableSketch_en (p : Params) (s : UState) : En s (maybeEnableSketch p s) := by
  unfold maybeEnableSketch
  split
  · rename_i hen
    unfold enableSketch
    split
    · exact Or.inr ⟨shouldEnableSketch_off hen, rfl, _, rfl⟩
    · exact Or.inl ⟨rfl, rfl⟩
  · exact Or.inl ⟨rfl, rfl⟩

theorem admitOrReject_en (p : Params) (s : UState) (k : Nat) (hash : UInt64) (weight : Nat)
    (ts : Option Nat) : En s (admitOrReject p s k hash weight ts) := by
  unfold admitOrReject
  dsimp only
  split
  · exact En.of_same (fail_sk _ _)
  · split
    · refine En.after ?_ (maybeEnableSketch_en p _)
      have h1 := (removeVictims_sk (admitLoop p s weight (s.sk.frequency hash) s.prob {}).victims s).trans
        (pushCandidate_sk p _ k hash ts)
      generalize pushCandidate p _ k hash ts = s1 at h1 ⊢
      exact h1.trans ⟨rfl, rfl⟩
    · exact Or.inl ⟨rfl, rfl⟩

theorem handleInsert_en (p : Params) (s : UState) (k : Nat) (hash : UInt64) (weight : Nat)
    (ts : Option Nat) : En s (handleInsert p s k hash weight ts) := by
  unfold handleInsert
  split
  · refine En.after ?_ (maybeEnableSketch_en p _)
    have h1 := pushCandidate_sk p s k hash ts
    generalize pushCandidate p s k hash ts = s1 at h1 ⊢
    exact h1.trans ⟨rfl, rfl⟩
  · split
    · exact Or.inl ⟨rfl, rfl⟩
    · exact admitOrReject_en _ _ _ _ _ _

theorem insert_en (p : Params) (s : UState) (k v : Nat) : En s (insert p s k v) := by
  unfold insert
  dsimp only
  refine En.after (maintain_sk p s) ?_
  generalize maintain p s = s1
  split
  · exact En.of_same (SkSame.trans ⟨rfl, rfl⟩ (handleUpdate_sk _ _ _ _ _ _))
  · exact En.after ⟨rfl, rfl⟩ (handleInsert_en _ _ _ _ _ _)

/-! ### `get`: exactly one `increment`, after the maintenance -/

theorem sketchIncrement_sk (p : Params) (s : UState) (h : UInt64) :
    (sketchIncrement p s h).sk = Sketch.incr1 p.q.d5 s.sk h ∧
    (sketchIncrement p s h).skOn = s.skOn := by
  unfold sketchIncrement Sketch.incr1
  cases s.sk.increment p.q.d5 h with
  | ok sk' => exact ⟨rfl, rfl⟩
  | error f => exact ⟨(fail_sk s f).1, (fail_sk s f).2⟩

theorem get_sk (p : Params) (s : UState) (k : Nat) :
    SkSame (sketchIncrement p (maintain p s) (p.hash k)) (get p s k).1 := by
  unfold get
  dsimp only
  generalize sketchIncrement p (maintain p s) (p.hash k) = s1
  split
  · exact SkSame.refl _
  · split
    · exact recordHit_sk _ _ _
    · split
      · exact SkSame.refl _
      · exact recordHit_sk _ _ _

/-! ### one step -/

/-- The state component of a step: the fault wrapper of `step` never changes the state. -/
theorem step_fst (p : Params) (s : UState) (op : Op) :
    (step p s op).1 =
      if s.fault.isSome then s
      else match op with
        | .ins k v => insert p s k v
        | .get k => (get p s k).1
        | .has k => (containsKey p s k).1
        | .inv k => invalidate p s k
        | .invAll => invalidateAll p s
        | .invIf pr => invalidateEntriesIf p s pr
        | .adv d => { s with now := s.now + d }
        | _ => s := by
  unfold step
  split
  · rfl
  · dsimp only
    split <;> cases op <;> rfl

/-- An operation other than `get` leaves the sketch alone or (only `insert`) switches it on. -/
theorem step_en (p : Params) (s : UState) (op : Op) (hop : ∀ k, op ≠ .get k) :
    En s (step p s op).1 := by
  rw [step_fst]
  split
  · exact Or.inl ⟨rfl, rfl⟩
  · cases op with
    | ins k v => exact insert_en p s k v
    | get k => exact absurd rfl (hop k)
    | has k => exact En.of_same (containsKey_sk p s k)
    | iter => exact Or.inl ⟨rfl, rfl⟩
    | inv k => exact En.of_same (invalidate_sk p s k)
    | invAll => exact Or.inl ⟨rfl, rfl⟩
    | invIf pr => exact En.of_same (invalidateEntriesIf_sk p s pr)
    | sync => exact Or.inl ⟨rfl, rfl⟩
    | adv d => exact Or.inl ⟨rfl, rfl⟩
    | snap => exact Or.inl ⟨rfl, rfl⟩
    | freq k => exact Or.inl ⟨rfl, rfl⟩

/-- An operation other than `get` and `insert` leaves the sketch and its flag alone. -/
theorem step_same (p : Params) (s : UState) (op : Op) (hop : ∀ k, op ≠ .get k)
    (hins : ∀ k v, op ≠ .ins k v) : SkSame s (step p s op).1 := by
  rw [step_fst]
  split
  · exact SkSame.refl s
  · cases op with
    | ins k v => exact absurd rfl (hins k v)
    | get k => exact absurd rfl (hop k)
    | has k => exact containsKey_sk p s k
    | iter => exact SkSame.refl s
    | inv k => exact invalidate_sk p s k
    | invAll => exact SkSame.refl s
    | invIf pr => exact invalidateEntriesIf_sk p s pr
    | sync => exact SkSame.refl s
    | adv d => exact ⟨rfl, rfl⟩
    | snap => exact SkSame.refl s
    | freq k => exact SkSame.refl s

/-- `get` records its key exactly once (hit, miss or expired alike), after its maintenance. -/
theorem step_get (p : Params) (s : UState) (k : Nat) (hf : s.fault = none) :
    (step p s (.get k)).1.sk = Sketch.incr1 p.q.d5 (maintain p s).sk (p.hash k) ∧
    (step p s (.get k)).1.skOn = s.skOn := by
  rw [step_fst, hf]
  dsimp only [Option.isSome]
  rw [if_neg Bool.false_ne_true]
  have h1 := get_sk p s k
  have h2 := sketchIncrement_sk p (maintain p s) (p.hash k)
  have h3 := maintain_sk p s
  exact ⟨h1.1.trans h2.1, (h1.2.trans h2.2).trans h3.2⟩

/-! ### whole histories -/

theorem step_recorded {P : Sketch → Prop} (L : SketchLaws P) {p : Params} (hq : NoQuirks p)
    (hsm : SmallSketch p) {s : UState} (hi : Inv P p s) (op : Op) {hs : List UInt64}
    (hr : Recorded P s.sk s.skOn hs) :
    Recorded P (step p s op).1.sk (step p s op).1.skOn (hs ++ getHashes p [op]) := by
  have hi' := step_inv L hq hsm hi op
  by_cases hop : ∀ k, op ≠ .get k
  · rw [getHashes_cons_of_not_get p op [] hop]
    show Recorded P _ _ (hs ++ [])
    rw [List.append_nil]
    exact hr.enabled (step_en p s op hop) hi'.sk
  · have : ∃ k, op = .get k := by
      cases op <;> first | exact ⟨_, rfl⟩ | exact absurd (fun k hk => by cases hk) hop
    obtain ⟨k, rfl⟩ := this
    have hd5 : p.q.d5 = false := by rw [hq]
    obtain ⟨h1, h2⟩ := step_get p s k hi.inv.struct.noFault
    rw [hd5, (maintain_sk p s).1] at h1
    rw [h1, h2]
    exact hr.feed [p.hash k]

theorem runState_recorded {P : Sketch → Prop} (L : SketchLaws P) {p : Params} (hq : NoQuirks p)
    (hsm : SmallSketch p) (h : List Op) : ∀ {s : UState} {hs : List UInt64}, Inv P p s →
      Recorded P s.sk s.skOn hs →
      Recorded P (runState p s h).sk (runState p s h).skOn (hs ++ getHashes p h) := by
  induction h with
  | nil => intro s hs _ hr; rw [show getHashes p [] = [] from rfl, List.append_nil]; exact hr
  | cons op rest ih =>
    intro s hs hi hr
    have h1 := ih (step_inv L hq hsm hi op) (step_recorded L hq hsm hi op hr)
    have e : getHashes p (op :: rest) = getHashes p [op] ++ getHashes p rest := by
      show List.filterMap _ ([op] ++ rest) = _
      rw [List.filterMap_append]; rfl
    rw [e, ← List.append_assoc]
    exact h1

end SkF
end Unsync
namespace Sync

/-- The hash a queued read operation carries. -/
def ROp.hash : ROp → UInt64
  | .hit h _ _ => h
  | .miss h => h

/-- The read operation that `get k` records in state `s`: a hit (with the value entry and the
time of the lookup) or a miss (key absent or expired), with the hash of `k` either way. -/
def readOf (p : Params) (s : SState) (k : Nat) : ROp :=
  match AL.get? s.map k with
  | none => .miss (p.hash k)
  | some ve =>
    if isExpiredInfo p s (getInfo s ve.info) s.now then .miss (p.hash k)
    else .hit (p.hash k) ve s.now

theorem readOf_hash (p : Params) (s : SState) (k : Nat) : (readOf p s k).hash = p.hash k := by
  unfold readOf
  split
  · rfl
  · split <;> rfl

theorem get_fst (p : Params) (s : SState) (k : Nat) :
    (get p s k).1 = recordReadOp p s (readOf p s k) := by
  unfold get readOf
  dsimp only
  cases AL.get? s.map k with
  | none => rfl
  | some ve =>
    dsimp only
    split <;> rfl

namespace SkF
open Nodes

theorem sketchIncrement_sk (p : Params) (s : SState) (h : UInt64) :
    (sketchIncrement p s h).sk = Sketch.incr1 p.q.d5 s.sk h ∧
    (sketchIncrement p s h).skOn = s.skOn := by
  unfold sketchIncrement Sketch.incr1
  cases s.sk.increment p.q.d5 h with
  | ok sk' => exact ⟨rfl, rfl⟩
  | error f => exact ⟨(skSame_fail s f).1, (skSame_fail s f).2⟩

/-- `apply_reads`, one operation: exactly one recorded lookup, with the hash of the op. -/
theorem applyRead_sk (p : Params) (s : SState) (op : ROp) :
    (applyRead p s op).sk = Sketch.incr1 p.q.d5 s.sk op.hash ∧
    (applyRead p s op).skOn = s.skOn := by
  cases op with
  | miss hash => exact sketchIncrement_sk p s hash
  | hit hash ve ts =>
    have h1 := sketchIncrement_sk p s hash
    show (applyRead p s (.hit hash ve ts)).sk = Sketch.incr1 p.q.d5 s.sk hash ∧ _
    rw [← h1.1, ← h1.2]
    unfold applyRead
    dsimp only
    generalize sketchIncrement p s hash = s1
    have h2 : SkSame s1 (if p.q.d6 = true then withInfo s1 ve.info (fun i => { i with la := ts })
        else if (getInfo s1 ve.info).la < ts then withInfo s1 ve.info (fun i => { i with la := ts })
        else s1) := by
      split
      · exact skSame_withInfo _ _ _
      · split
        · exact skSame_withInfo _ _ _
        · exact SkSame.refl _
    generalize (if p.q.d6 = true then withInfo s1 ve.info (fun i => { i with la := ts })
        else if (getInfo s1 ve.info).la < ts then withInfo s1 ve.info (fun i => { i with la := ts })
        else s1) = s2 at h2 ⊢
    split
    · exact h2.trans (moveToBackAoE_sk _ _)
    · exact h2

/-- `apply_reads`: the first `n` queued reads are recorded, in queue order. -/
theorem applyReads_sk (p : Params) (n : Nat) : ∀ (s : SState),
    (applyReads p n s).sk = Sketch.feed p.q.d5 s.sk ((s.readQ.take n).map ROp.hash) ∧
    (applyReads p n s).skOn = s.skOn := by
  induction n with
  | zero => intro s; exact ⟨rfl, rfl⟩
  | succ n ih =>
    intro s
    unfold applyReads
    split
    · rename_i hq
      rw [hq]; exact ⟨rfl, rfl⟩
    · rename_i op rest hq
      obtain ⟨a, b⟩ := ih (applyRead p { s with readQ := rest } op)
      obtain ⟨c, d⟩ := applyRead_sk p { s with readQ := rest } op
      have hr : (applyRead p { s with readQ := rest } op).readQ = rest :=
        (applyRead_qframe p { s with readQ := rest } op).readQ
      rw [a, b, c, d, hr, hq]
      exact ⟨rfl, rfl⟩

/-- The loop of `Inner::sync` runs its body exactly once: one pass empties both queues. -/
theorem syncLoop_one (p : Params) (fuel : Nat) (s : SState) :
    syncLoop p (fuel + 1) s = syncPass p s := by
  obtain ⟨a, b, _⟩ := syncPass_spec p s
  rw [syncLoop_succ, a, b]
  rfl

theorem shouldEnableSketch_off {p : Params} {s : SState} (hen : shouldEnableSketch p s = true) :
    s.skOn = false := by
  unfold shouldEnableSketch at hen
  cases hs : s.skOn with
  | false => rfl
  | true => rw [hs] at hen; simp at hen

theorem enableSketch_en (p : Params) (s : SState) (hen : shouldEnableSketch p s = true) :
    Enabled s.sk s.skOn (enableSketch p s).sk (enableSketch p s).skOn := by
  unfold enableSketch
  split
  · exact Or.inr ⟨shouldEnableSketch_off hen, rfl, _, rfl⟩
  · exact Or.inl ⟨rfl, rfl⟩

theorem Enabled.sameR {sk : Sketch} {on : Bool} {s s' : SState}
    (h : Enabled sk on s.sk s.skOn) (hs : SkSame s s') : Enabled sk on s'.sk s'.skOn := by
  rw [hs.1, hs.2]; exact h

/-- One pass of the loop: all queued reads are recorded, the writes leave the sketch alone,
then the sketch may be switched on. -/
theorem syncPass_sk (p : Params) (s : SState) :
    Enabled (Sketch.feed p.q.d5 s.sk (s.readQ.map ROp.hash)) s.skOn
      (syncPass p s).sk (syncPass p s).skOn := by
  unfold syncPass
  dsimp only
  have h1 : (if s.readQ.length > 0 then applyReads p s.readQ.length s else s).sk =
        Sketch.feed p.q.d5 s.sk (s.readQ.map ROp.hash) ∧
      (if s.readQ.length > 0 then applyReads p s.readQ.length s else s).skOn = s.skOn := by
    split
    · have := applyReads_sk p s.readQ.length s
      rw [List.take_length] at this
      exact this
    · rename_i h
      have : s.readQ = [] := by
        cases hq : s.readQ with
        | nil => rfl
        | cons a t => rw [hq] at h; exact absurd (Nat.succ_pos _) h
      rw [this]; exact ⟨rfl, rfl⟩
  generalize (if s.readQ.length > 0 then applyReads p s.readQ.length s else s) = s1 at h1 ⊢
  rw [← h1.1, ← h1.2]
  have h2 : SkSame s1 (if s1.writeQ.length > 0 then applyWrites p s1.writeQ.length s1 else s1) := by
    split
    · exact applyWrites_sk _ _ _
    · exact SkSame.refl _
  generalize (if s1.writeQ.length > 0 then applyWrites p s1.writeQ.length s1 else s1) = s2 at h2 ⊢
  rw [← h2.1, ← h2.2]
  split
  · rename_i hen
    exact enableSketch_en p s2 hen
  · exact Enabled.same _ _

/-- `Inner::sync`: the sketch is fed with all queued reads, then possibly switched on; the
eviction passes leave it alone. -/
theorem syncRun_sk (p : Params) (s : SState) :
    Enabled (Sketch.feed p.q.d5 s.sk (s.readQ.map ROp.hash)) s.skOn
      (syncRun p s).sk (syncRun p s).skOn := by
  unfold syncRun
  dsimp only
  rw [syncLoop_one]
  have h1 := syncPass_sk p { s with cec := s.ec, cws := s.ws }
  dsimp only at h1
  generalize syncPass p { s with cec := s.ec, cws := s.ws } = s1 at h1 ⊢
  have h2 : SkSame s1 (if (p.hasExpiry || s1.va.isSome) = true then evictExpired p s1 else s1) := by
    split
    · exact evictExpired_sk _ _
    · exact SkSame.refl _
  generalize (if (p.hasExpiry || s1.va.isSome) = true then evictExpired p s1 else s1) = s2 at h2 ⊢
  have h3 : SkSame s2 (if weightsToEvict p s2 > 0
      then evictLruLoop p Gen.SYNC_EVICTION_BATCH_SIZE s2 (weightsToEvict p s2) 0 else s2) := by
    split
    · exact evictLruLoop_sk _ _ _ _ _
    · exact SkSame.refl _
  generalize (if weightsToEvict p s2 > 0
      then evictLruLoop p Gen.SYNC_EVICTION_BATCH_SIZE s2 (weightsToEvict p s2) 0 else s2) = s3
    at h3 ⊢
  exact Enabled.sameR h1 ((h2.trans h3).trans ⟨rfl, rfl⟩)

/-- From `s` to `s'`: a prefix `drained` of the read queue (nothing, or the whole queue) was
recorded in the sketch in queue order and removed from the queue, `tail` was appended to the
queue, and after the recording the sketch may have been switched on. -/
def Drain (legacy : Bool) (s s' : SState) (tail : List ROp) : Prop :=
  ∃ drained rest, s.readQ = drained ++ rest ∧ (drained = [] ∨ rest = []) ∧
    s'.readQ = rest ++ tail ∧
    Enabled (Sketch.feed legacy s.sk (drained.map ROp.hash)) s.skOn s'.sk s'.skOn

theorem Drain.none {l : Bool} {s s' : SState} (tail : List ROp) (hq : s'.readQ = s.readQ ++ tail)
    (hs : SkSame s s') : Drain l s s' tail :=
  ⟨[], s.readQ, rfl, Or.inl rfl, hq, Or.inl hs⟩

theorem Drain.refl (l : Bool) (s : SState) : Drain l s s [] :=
  Drain.none [] (List.append_nil _).symm (SkSame.refl s)

theorem Drain.all {l : Bool} {s s' : SState} (hq : s'.readQ = [])
    (he : Enabled (Sketch.feed l s.sk (s.readQ.map ROp.hash)) s.skOn s'.sk s'.skOn) :
    Drain l s s' [] :=
  ⟨s.readQ, [], (List.append_nil _).symm, Or.inr rfl, hq, he⟩

/-- The source state may be replaced by one with the same sketch and read queue. -/
theorem Drain.congr_left {l : Bool} {s0 s s' : SState} {tail : List ROp} (h : Drain l s0 s' tail)
    (hsk : s0.sk = s.sk) (hon : s0.skOn = s.skOn) (hq : s0.readQ = s.readQ) :
    Drain l s s' tail := by
  unfold Drain at h ⊢
  rw [hsk, hon, hq] at h
  exact h

/-- The target state may be changed in fields other than the sketch, and `tail` appended. -/
theorem Drain.push {l : Bool} {s s1 s' : SState} (h : Drain l s s1 []) (tail : List ROp)
    (hsk : s'.sk = s1.sk) (hon : s'.skOn = s1.skOn) (hq : s'.readQ = s1.readQ ++ tail) :
    Drain l s s' tail := by
  obtain ⟨d, r, h1, h2, h3, h4⟩ := h
  refine ⟨d, r, h1, h2, ?_, ?_⟩
  · rw [hq, h3, List.append_nil]
  · rw [hsk, hon]; exact h4

theorem syncRun_drain (p : Params) (s : SState) : Drain p.q.d5 s (syncRun p s) [] :=
  Drain.all (syncRun_readQ p s) (syncRun_sk p s)

theorem trySync_drain (p : Params) (s : SState) : Drain p.q.d5 s (trySync p s) [] := by
  unfold trySync
  split
  · exact Drain.refl _ s
  · dsimp only
    have h := syncRun_drain p
      { s with running := true, syncAfter := s.now + Gen.PERIODICAL_SYNC_INTERVAL_MILLIS * 1000000 }
    exact (h.congr_left rfl rfl rfl).push [] rfl rfl (List.append_nil _).symm

theorem housekeepW_drain (p : Params) (s : SState) : Drain p.q.d5 s (housekeepW p s) [] := by
  unfold housekeepW
  split
  · exact trySync_drain p s
  · exact Drain.refl _ s

theorem housekeepR_drain (p : Params) (s : SState) : Drain p.q.d5 s (housekeepR p s) [] := by
  unfold housekeepR
  split
  · exact trySync_drain p s
  · exact Drain.refl _ s

theorem scheduleWriteOp_drain (p : Params) (fuel : Nat) {s : SState} (h : QInv s) (op : WOp) :
    Drain p.q.d5 s (scheduleWriteOp p (fuel + 1) s op) [] := by
  rw [scheduleWriteOp_enqueues p fuel h]
  exact (housekeepW_drain p s).push [] rfl rfl (List.append_nil _).symm

/-- The form in which `insert` / `invalidate` call it: on a state that differs from `s` only in
the map, the infos and the id counter. -/
theorem scheduleWriteOp_drain' (p : Params) {s s0 : SState} (h : QInv s) (op : WOp)
    (hsk : s0.sk = s.sk) (hon : s0.skOn = s.skOn) (hq : s0.readQ = s.readQ)
    (hr : s0.running = s.running) (hw : s0.writeQ = s.writeQ) :
    Drain p.q.d5 s (scheduleWriteOp p 3 s0 op) [] :=
  (scheduleWriteOp_drain p 2 (qinv_of_eq h hr hw hq) op).congr_left hsk hon hq

theorem recordReadOp_drain (p : Params) {s : SState} (h : QInv s) (op : ROp) :
    Drain p.q.d5 s (recordReadOp p s op) [op] := by
  rw [recordReadOp_enqueues p h]
  exact (housekeepR_drain p s).push [op] rfl rfl rfl

theorem insert_drain (p : Params) {s : SState} (h : QInv s) (k v : Nat) :
    Drain p.q.d5 s (insert p s k v) [] := by
  unfold insert
  dsimp only
  split
  · exact scheduleWriteOp_drain' p h _ rfl rfl rfl rfl rfl
  · exact scheduleWriteOp_drain' p h _ rfl rfl rfl rfl rfl

theorem invalidate_drain (p : Params) {s : SState} (h : QInv s) (k : Nat) :
    Drain p.q.d5 s (invalidate p s k) [] := by
  unfold invalidate
  split
  · exact Drain.refl _ s
  · dsimp only
    exact scheduleWriteOp_drain' p h _ rfl rfl rfl rfl rfl

theorem get_drain (p : Params) {s : SState} (h : QInv s) (k : Nat) :
    Drain p.q.d5 s (get p s k).1 [readOf p s k] := by
  rw [get_fst]
  exact recordReadOp_drain p h _

/-- The state component of a step: the fault wrapper of `step` never changes the state. -/
theorem step_fst (p : Params) (s : SState) (op : Op) :
    (step p s op).1 =
      if s.fault.isSome then s
      else match op with
        | .ins k v => insert p s k v
        | .get k => (get p s k).1
        | .inv k => invalidate p s k
        | .invAll => invalidateAll s
        | .sync => syncRun p s
        | .adv d => { s with now := s.now + d }
        | _ => s := by
  unfold step
  split
  · rfl
  · dsimp only
    split <;> cases op <;> rfl

/-- The read operations a step appends to the read queue: one for a `get` (in a fault-free
state), none otherwise. -/
def newReads (p : Params) (s : SState) (op : Op) : List ROp :=
  if s.fault.isSome then []
  else match op with
    | .get k => [readOf p s k]
    | _ => []

/-- Every step, between the operations of one thread. -/
theorem step_drain (p : Params) {s : SState} (h : QInv s) (op : Op) :
    Drain p.q.d5 s (step p s op).1 (newReads p s op) := by
  rw [step_fst]
  unfold newReads
  split
  · exact Drain.refl _ s
  · cases op with
    | ins k v => exact insert_drain p h k v
    | get k => exact get_drain p h k
    | has k => exact Drain.refl _ s
    | iter => exact Drain.refl _ s
    | inv k => exact invalidate_drain p h k
    | invAll => exact Drain.none [] (List.append_nil _).symm ⟨rfl, rfl⟩
    | invIf pr => exact Drain.refl _ s
    | sync => exact syncRun_drain p s
    | adv d => exact Drain.none [] (List.append_nil _).symm ⟨rfl, rfl⟩
    | snap => exact Drain.refl _ s
    | freq k => exact Drain.refl _ s

theorem newReads_of_not_get (p : Params) (s : SState) (op : Op) (hop : ∀ k, op ≠ .get k) :
    newReads p s op = [] := by
  unfold newReads
  split
  · rfl
  · cases op <;> first | rfl | exact absurd rfl (hop _)

theorem newReads_get (p : Params) (s : SState) (k : Nat) (hf : s.fault = none) :
    newReads p s (.get k) = [readOf p s k] := by
  unfold newReads
  rw [hf]
  rfl

/-- The operations that neither queue anything nor run maintenance leave the sketch and the
read queue exactly as they are. -/
theorem step_pure (p : Params) (s : SState) (op : Op)
    (hop : ∀ k, op ≠ .get k) (hins : ∀ k v, op ≠ .ins k v) (hinv : ∀ k, op ≠ .inv k)
    (hsync : op ≠ .sync) :
    (step p s op).1.sk = s.sk ∧ (step p s op).1.skOn = s.skOn ∧
    (step p s op).1.readQ = s.readQ := by
  rw [step_fst]
  split
  · exact ⟨rfl, rfl, rfl⟩
  · cases op with
    | ins k v => exact absurd rfl (hins k v)
    | get k => exact absurd rfl (hop k)
    | inv k => exact absurd rfl (hinv k)
    | sync => exact absurd rfl hsync
    | _ => exact ⟨rfl, rfl, rfl⟩

/-- Single-threaded use never raises `hang`, so the state after a history has it only if the
initial state had. -/
theorem stateAfter_hang (p : Params) (h : List Op) : ∀ {s : SState}, QInv s →
    (stateAfter p s h).fault = some Fault.hang → s.fault = some Fault.hang := by
  induction h with
  | nil => intro s _ hf; exact hf
  | cons op rest ih =>
    intro s hs hf
    exact (step_qinv p hs op).2 (ih (step_qinv p hs op).1 hf)

theorem finalState_eq_stateAfter (p : Params) (h : List Op) :
    ∀ (s : SState), Nodes.finalState p s h = stateAfter p s h := by
  induction h with
  | nil => intro s; rfl
  | cons op rest ih => intro s; exact ih _

/-- Reachable states of the current code (no quirks, documented sketch limit): no fault, and
the sketch predicate holds. -/
theorem reachable_ok {P : Sketch → Prop} (L : SketchLaws P) {p : Params} (hq : NoQuirks p)
    (hsm : SmallSketch p) (h : List Op) :
    (stateAfter p {} h).fault = none ∧ Nodes.SkOK P (stateAfter p {} h) ∧
    QInv (stateAfter p {} h) := by
  have h1 := Nodes.finalState_core L hq hsm h {} (Nodes.init_inv L).toTopCore (Or.inl rfl)
  rw [finalState_eq_stateAfter] at h1
  refine ⟨?_, h1.1.sk, stateAfter_qinv p h qinv_init⟩
  rcases h1.2 with hf | hf
  · exact hf
  · have := stateAfter_hang p h qinv_init hf
    cases this

/-! ### whole histories -/

theorem newReads_hash (p : Params) (s : SState) (op : Op) (hf : s.fault = none) :
    (newReads p s op).map ROp.hash = getHashes p [op] := by
  by_cases hop : ∀ k, op ≠ .get k
  · rw [newReads_of_not_get p s op hop, getHashes_cons_of_not_get p op [] hop]; rfl
  · have : ∃ k, op = .get k := by
      cases op <;> first | exact ⟨_, rfl⟩ | exact absurd (fun k hk => by cases hk) hop
    obtain ⟨k, rfl⟩ := this
    rw [newReads_get p s k hf]
    show [(readOf p s k).hash] = [p.hash k]
    rw [readOf_hash]

/-- Reachable states of the current code between two calls of the one thread. -/
structure Reach (P : Sketch → Prop) (s : SState) : Prop where
  top : TopInv P s
  q : QInv s

theorem reach_init {P : Sketch → Prop} (L : SketchLaws P) : Reach P {} :=
  ⟨init_inv L, qinv_init⟩

theorem step_reach {P : Sketch → Prop} (L : SketchLaws P) {p : Params} (hq : NoQuirks p)
    (hsm : SmallSketch p) {s : SState} (h : Reach P s) (op : Op) : Reach P (step p s op).1 := by
  obtain ⟨h1, h2, _⟩ := Nodes.step_inv L hq hsm h.top op
  obtain ⟨h3, h4⟩ := step_qinv p h.q op
  refine ⟨⟨h1, ?_⟩, h3⟩
  rcases h2 with hf | hf
  · exact hf
  · have := h4 hf
    rw [h.top.nofault] at this
    cases this

/-- The hashes `hs` handed to the cache so far are those already applied to the sketch followed
by those still waiting in the read queue. -/
def RecQ (P : Sketch → Prop) (s : SState) (hs : List UInt64) : Prop :=
  ∃ applied, hs = applied ++ s.readQ.map ROp.hash ∧ Recorded P s.sk s.skOn applied

theorem step_recQ {P : Sketch → Prop} (L : SketchLaws P) {p : Params} (hq : NoQuirks p)
    (hsm : SmallSketch p) {s : SState} (h : Reach P s) (op : Op) {hs : List UInt64}
    (hr : RecQ P s hs) : RecQ P (step p s op).1 (hs ++ getHashes p [op]) := by
  have h' := step_reach L hq hsm h op
  have hd5 : p.q.d5 = false := by rw [hq]
  obtain ⟨applied, e1, r1⟩ := hr
  obtain ⟨d, r, e2, _, e3, e4⟩ := step_drain p h.q op
  rw [hd5] at e4
  refine ⟨applied ++ d.map ROp.hash, ?_, (r1.feed _).enabled e4 h'.top.sk.sk⟩
  rw [e1, e2, e3, ← newReads_hash p s op h.top.nofault]
  simp only [List.map_append, List.append_assoc]

theorem stateAfter_recQ {P : Sketch → Prop} (L : SketchLaws P) {p : Params} (hq : NoQuirks p)
    (hsm : SmallSketch p) (h : List Op) : ∀ {s : SState} {hs : List UInt64}, Reach P s →
      RecQ P s hs → RecQ P (stateAfter p s h) (hs ++ getHashes p h) := by
  induction h with
  | nil => intro s hs _ hr; rw [show getHashes p [] = [] from rfl, List.append_nil]; exact hr
  | cons op rest ih =>
    intro s hs hi hr
    have h1 := ih (step_reach L hq hsm hi op) (step_recQ L hq hsm hi op hr)
    have e : getHashes p (op :: rest) = getHashes p [op] ++ getHashes p rest := by
      show List.filterMap _ ([op] ++ rest) = _
      rw [List.filterMap_append]; rfl
    rw [e, ← List.append_assoc]
    exact h1

end SkF
end Sync
end MiniMoka
