/-
  Growth eviction on the sequential model of `sync::Cache` (C12, kind `.sync`): in a quiescent
  calm cache an insert of a key that is already RESIDENT queues an update; the next maintenance
  run applies it (the entry keeps its nodes, which move to the back of both lists; the local
  weighted size changes by `- old + new`) and then `evict_lru_entries` works off the excess from
  the front of the access-order list: exactly the shortest prefix whose weights cover the excess
  leaves.  Lemmas behind `Props/C12SyncGrowth.lean`.
-/
import MiniMoka.Lemmas.SyncAdmit
import MiniMoka.Lemmas.SyncCounters
import MiniMoka.Spec.OraclesExt

namespace MiniMoka
namespace Sync
namespace Growth

open Nodes Spec Admit
open Unsync.Admit (sameKeys_iff nodup_map_of_inj)

/-! ### the prefix that covers an excess -/

/-- Number of elements `evict_lru_entries` removes from a list of weights: it stops as soon as
the evicted weight `got` reaches `need`, or the list is exhausted. -/
def evictCount (need : Nat) : List Nat → Nat → Nat
  | [], _ => 0
  | w :: rest, got => if got ≥ need then 0 else evictCount need rest (got + w) + 1

theorem evictCount_done {need got : Nat} (h : got ≥ need) (ws : List Nat) :
    evictCount need ws got = 0 := by
  cases ws with
  | nil => rfl
  | cons w rest => simp [evictCount, h]

theorem evictCount_cons {need got : Nat} (h : ¬ got ≥ need) (w : Nat) (rest : List Nat) :
    evictCount need (w :: rest) got = evictCount need rest (got + w) + 1 := by
  simp [evictCount, h]

theorem evictCount_le (need : Nat) : ∀ (ws : List Nat) (got : Nat),
    evictCount need ws got ≤ ws.length := by
  intro ws
  induction ws with
  | nil => intro _; exact Nat.le_refl _
  | cons w rest ih =>
    intro got
    by_cases h : got ≥ need
    · rw [evictCount_done h]; exact Nat.zero_le _
    · rw [evictCount_cons h]
      have := ih (got + w)
      simp only [List.length_cons]
      omega

/-- The oracle's prefix search, in terms of `evictCount`. -/
theorem shortestPrefixBy_eq (w : Nat → Nat) (need : Nat) :
    ∀ (order : List Nat) (got : Nat) (acc : List Nat),
      (match shortestPrefixBy w need order got acc with
       | some pre => pre
       | none => acc ++ order) = acc ++ order.take (evictCount need (order.map w) got) := by
  intro order
  induction order with
  | nil =>
    intro got acc
    unfold shortestPrefixBy
    by_cases h : got ≥ need
    · simp [h, evictCount]
    · simp [h, evictCount]
  | cons x rest ih =>
    intro got acc
    unfold shortestPrefixBy
    by_cases h : got ≥ need
    · rw [if_pos h, List.map_cons, evictCount_done h]
      simp
    · rw [if_neg h, List.map_cons, evictCount_cons h]
      dsimp only
      have := ih (got + w x) (acc ++ [x])
      cases hsp : shortestPrefixBy w need rest (got + w x) (acc ++ [x]) with
      | some pre =>
        rw [hsp] at this
        dsimp only at this ⊢
        rw [this]
        simp
      | none =>
        rw [hsp] at this
        dsimp only at this ⊢
        rw [List.take_succ_cons]
        simpa using this

/-! ### `evict_lru_entries` on a list of current, clean nodes -/

theorem eraseKeys_cons (m : List (Nat × VE)) (k : Nat) (ks : List Nat) :
    eraseKeys m (k :: ks) = eraseKeys (AL.erase m k) ks := rfl

/-- One round of `evict_lru_entries`: the head of the list is current and clean, it leaves. -/
theorem evictLruLoop_head {p : Params} (hd7 : p.q.d7 = false) {s : SState} (fuel wte ev : Nat)
    (hlt : ¬ ev ≥ wte) {n : AoNode} {rest : List AoNode} (hp : s.prob = n :: rest)
    {ve : VE} (hve : AL.get? s.map n.key = some ve) (hvi : ve.info = n.info)
    (hnd : (getInfo s n.info).dirty = false) :
    evictLruLoop p (fuel + 1) s wte ev =
      evictLruLoop p fuel (handleRemove { s with map := AL.erase s.map n.key } ve) wte
        (ev + (getInfo s ve.info).weight) := by
  have hE : entryOfNode p s n.key n.info = some ve := entryOfNode_cur hd7 hve hvi
  rw [evictLruLoop, if_neg hlt]
  simp only [hp]
  rw [hnd]
  simp only [Bool.false_eq_true, if_false]
  rw [hE]
  dsimp only
  rw [hvi, if_pos (beq_self_eq_true _)]
  dsimp only
  rw [hvi]

/-- `evict_lru_entries` on an access-order list all of whose nodes are current and none of
whose entries is dirty, with enough fuel for the whole list: exactly the shortest prefix whose
weights cover `wte - ev` is removed (the whole list if even that does not suffice). -/
theorem evictLruLoop_prefix {p : Params} (hd7 : p.q.d7 = false) :
    ∀ (fuel : Nat) (s : SState) (wte ev : Nat), Safe s → AllCur s s.prob →
      (AL.keys s.map).Nodup → (∀ n, n ∈ s.prob → (getInfo s n.info).dirty = false) →
      s.prob.length ≤ fuel →
      (evictLruLoop p fuel s wte ev).prob = s.prob.drop (evictCount wte (probWeights s) ev) ∧
      (evictLruLoop p fuel s wte ev).map =
        eraseKeys s.map ((s.prob.take (evictCount wte (probWeights s) ev)).map (·.key)) := by
  intro fuel
  induction fuel with
  | zero =>
    intro s wte ev _ _ _ _ hlen
    have hnil : s.prob = [] := List.length_eq_zero_iff.mp (Nat.le_zero.mp hlen)
    have hw : probWeights s = [] := by unfold probWeights; rw [hnil]; rfl
    rw [hw, hnil]
    exact ⟨hnil, rfl⟩
  | succ fuel ih =>
    intro s wte ev h hcur hkn hclean hlen
    by_cases hge : ev ≥ wte
    · have : evictLruLoop p (fuel + 1) s wte ev = s := by rw [evictLruLoop, if_pos hge]
      rw [this, evictCount_done hge]
      exact ⟨rfl, rfl⟩
    · cases hp : s.prob with
      | nil =>
        have : evictLruLoop p (fuel + 1) s wte ev = s := by
          rw [evictLruLoop, if_neg hge]; simp only [hp]
        have hw : probWeights s = [] := by unfold probWeights; rw [hp]; rfl
        rw [this, hw]
        exact ⟨hp, rfl⟩
      | cons v rest =>
        have hv : v ∈ s.prob := by rw [hp]; exact List.mem_cons_self
        obtain ⟨e, he, hei⟩ := hcur v hv
        rw [evictLruLoop_head hd7 fuel wte ev hge hp he hei (hclean v hv)]
        have h0 := safe_eraseMap h v.key
        obtain ⟨x1, x2, x3, x4⟩ := handleRemove_exact h0 e (n := v) hv hei.symm
        obtain ⟨hs1, _, _⟩ := handleRemove_safe h0 e
        generalize handleRemove { s with map := AL.erase s.map v.key } e = s1 at x1 x2 x3 x4 hs1 ⊢
        have hp1 : s1.prob = rest := by
          rw [x1]; show eraseAo s.prob v.id = _; rw [hp]; exact eraseAo_head v _
        have hm1 : s1.map = AL.erase s.map v.key := x2
        have hids : ((v :: rest).map (·.id)).Nodup := by
          have := h.probIds
          rw [hp] at this
          exact this
        simp only [List.map_cons, List.nodup_cons] at hids
        have hne : ∀ n, n ∈ rest → n.info ≠ v.info ∧ n.key ≠ v.key := by
          intro n hnv
          have hnp : n ∈ s.prob := by rw [hp]; exact List.mem_cons_of_mem _ hnv
          have hid : n.id ≠ v.id := fun e' => hids.1 (e' ▸ List.mem_map.mpr ⟨n, hnv, rfl⟩)
          have hi : n.info ≠ v.info := fun e' => hid (h.info_inj hnp hv e')
          refine ⟨hi, fun e' => hi ?_⟩
          obtain ⟨e2, he2, hei2⟩ := hcur n hnp
          rw [e', he] at he2
          cases he2
          rw [← hei2, hei]
        have hinfo1 : ∀ n, n ∈ rest → getInfo s1 n.info = getInfo s n.info := by
          intro n hnv
          rw [x4 _ (by rw [hei]; exact (hne n hnv).1)]
          rfl
        have hcur1 : AllCur s1 s1.prob := by
          rw [hp1]
          intro n hnv
          obtain ⟨e2, he2, hei2⟩ := hcur n (by rw [hp]; exact List.mem_cons_of_mem _ hnv)
          refine ⟨e2, ?_, hei2⟩
          rw [hm1, AL.get?_erase_ne (fun e' => (hne n hnv).2 e'.symm)]
          exact he2
        have hkn1 : (AL.keys s1.map).Nodup := by rw [hm1]; exact AL.nodup_erase _ hkn
        have hclean1 : ∀ n, n ∈ s1.prob → (getInfo s1 n.info).dirty = false := by
          rw [hp1]
          intro n hnv
          rw [hinfo1 n hnv]
          exact hclean n (by rw [hp]; exact List.mem_cons_of_mem _ hnv)
        have hlen1 : s1.prob.length ≤ fuel := by
          rw [hp1]; rw [hp] at hlen; simp only [List.length_cons] at hlen; omega
        have hW1 : probWeights s1 = rest.map (fun n => (getInfo s n.info).weight) := by
          unfold probWeights
          rw [hp1]
          apply List.map_congr_left
          intro n hnv
          rw [hinfo1 n hnv]
        have hW : probWeights s = (getInfo s e.info).weight ::
            rest.map (fun n => (getInfo s n.info).weight) := by
          unfold probWeights
          rw [hp, List.map_cons, hei]
        obtain ⟨r1, r2⟩ := ih s1 wte (ev + (getInfo s e.info).weight) hs1 hcur1 hkn1 hclean1 hlen1
        rw [hW, evictCount_cons hge, ← hW1]
        refine ⟨?_, ?_⟩
        · rw [r1, hp1]; rfl
        · rw [r2, hp1, hm1]; rfl

/-! ### `handle_upsert` for an entry that is already admitted: an update -/

theorem moveToBackWoE_infos (s : SState) (i : Nat) : (moveToBackWoE s i).infos = s.infos := by
  unfold moveToBackWoE; split
  · rfl
  · unfold moveNodeToBackWo; split
    · rfl
    · exact fail_infos _ _

theorem moveToBackWoE_cws (s : SState) (i : Nat) : (moveToBackWoE s i).cws = s.cws := by
  unfold moveToBackWoE; split
  · rfl
  · unfold moveNodeToBackWo; split
    · rfl
    · exact fail_cws _ _

/-- The queued write of an insert whose entry is the map's and is admitted (node `n`): the entry
is re-weighed, the local weighted size changes by `- old + new`, the node moves to the back of
the access-order list, the info is clean again; nothing else changes. -/
theorem handleUpsert_update {p : Params} (hq : NoQuirks p) {s : SState} (hs : Safe s) {k : Nat}
    {ve : VE} (hash : UInt64) (oldW w0 : Nat) (hcur : AL.get? s.map k = some ve) {n : AoNode}
    (hn : n ∈ s.prob) (hni : n.info = ve.info) :
    (handleUpsert p s k hash ve oldW w0).map = s.map ∧
    (handleUpsert p s k hash ve oldW w0).prob = eraseAo s.prob n.id ++ [n] ∧
    (handleUpsert p s k hash ve oldW w0).cws =
      s.cws - (getInfo s ve.info).weight + p.weigh k ve.val ∧
    (∀ j, getInfo (handleUpsert p s k hash ve oldW w0) j =
      if ve.info = j then { getInfo s ve.info with dirty := false, weight := p.weigh k ve.val }
      else getInfo s j) := by
  have hd8 : p.q.d8 = false := by rw [hq]
  have hd10 : p.q.d10 = false := by rw [hq]
  have hcw : currentWeight p s k ve w0 = p.weigh k ve.val := by
    unfold currentWeight
    rw [hd10, hcur]
    simp only [Bool.false_eq_true, if_false, beq_self_eq_true, if_true]
  have hadm : (getInfo s ve.info).admitted = true := by rw [← hni]; exact hs.probAdm hn
  have hao : (getInfo s ve.info).ao = some n.id := by rw [← hni]; exact hs.probOwn n hn
  have hfind : findAo s.prob n.id = some n := findAo_of_mem hs.probIds hn
  unfold handleUpsert
  dsimp only
  rw [hcw]
  generalize hs1 : withInfo s ve.info (fun i => { i with dirty := false }) = s1
  have hg : ∀ j, getInfo s1 j =
      if ve.info = j then { getInfo s ve.info with dirty := false } else getInfo s j := by
    intro j; rw [← hs1]; exact getInfo_withInfo _ _ _ _
  have hm1 : s1.map = s.map := by rw [← hs1]; rfl
  have hp1 : s1.prob = s.prob := by rw [← hs1]; rfl
  have hc1 : s1.cws = s.cws := by rw [← hs1]; rfl
  have hadm1 : (getInfo s1 ve.info).admitted = true := by
    rw [hg, if_pos rfl]; exact hadm
  rw [if_pos hadm1]
  unfold applyUpdate
  dsimp only
  rw [subCounters_eq (Nat.zero_le _)]
  simp only [hd8, Bool.false_eq_true, if_false]
  generalize hs2 : addCounters { s1 with cec := s1.cec - 0, cws := s1.cws - (getInfo s1 ve.info).weight } 0 (p.weigh k ve.val) = s2
  have hg2 : ∀ j, getInfo s2 j = getInfo s1 j := by intro j; rw [← hs2]; rfl
  have hm2 : s2.map = s1.map := by rw [← hs2]; rfl
  have hp2 : s2.prob = s1.prob := by rw [← hs2]; rfl
  have hc2 : s2.cws = s1.cws - (getInfo s1 ve.info).weight + p.weigh k ve.val := by
    rw [← hs2]; rfl
  generalize hs3 : withInfo s2 ve.info (fun i => { i with weight := p.weigh k ve.val }) = s3
  have hg3 : ∀ j, getInfo s3 j =
      if ve.info = j then { getInfo s ve.info with dirty := false, weight := p.weigh k ve.val }
      else getInfo s j := by
    intro j
    rw [← hs3, getInfo_withInfo]
    by_cases e : ve.info = j
    · rw [if_pos e, if_pos e, hg2, hg, if_pos rfl]
    · rw [if_neg e, if_neg e, hg2, hg, if_neg e]
  have hm3 : s3.map = s.map := by rw [← hs3]; exact hm2.trans hm1
  have hp3 : s3.prob = s.prob := by rw [← hs3]; exact hp2.trans hp1
  have hc3 : s3.cws = s.cws - (getInfo s ve.info).weight + p.weigh k ve.val := by
    rw [← hs3]
    show s2.cws = _
    rw [hc2, hc1, hg, if_pos rfl]
  have hao3 : (getInfo s3 ve.info).ao = some n.id := by rw [hg3, if_pos rfl]; exact hao
  have hmv : moveToBackAoE s3 ve.info = { s3 with prob := eraseAo s3.prob n.id ++ [n] } := by
    unfold moveToBackAoE
    rw [hao3]
    dsimp only
    exact moveNodeToBackAo_eq (by rw [hp3]; exact hfind)
  rw [hmv]
  refine ⟨?_, ?_, ?_, ?_⟩
  · rw [moveToBackWoE_map]; exact hm3
  · rw [moveToBackWoE_prob]; show eraseAo s3.prob n.id ++ [n] = _; rw [hp3]
  · rw [moveToBackWoE_cws]; exact hc3
  · intro j
    rw [getInfo_congr (moveToBackWoE_infos _ _)]
    exact hg3 j

/-! ### a maintenance run with one queued write, followed by the size eviction -/

/-- `Inner::sync` with an empty read queue and one queued write that leaves nothing expired:
the run is that write (and possibly the enabling of the sketch) followed by
`evict_lru_entries` for the excess of the local weighted size over the capacity. -/
theorem syncRun_one_evict {p : Params} {cap : Nat} (hcap : p.cap = some cap) {s : SState} (op : WOp)
    (hr : s.readQ = []) (hw : s.writeQ = [op])
    (hne : NoExp p (applyWrite p { s with cec := s.ec, cws := s.ws, writeQ := [] } op)) :
    ∃ s2, (s2 = applyWrite p { s with cec := s.ec, cws := s.ws, writeQ := [] } op ∨
        s2 = enableSketch p (applyWrite p { s with cec := s.ec, cws := s.ws, writeQ := [] } op)) ∧
      (syncRun p s).map =
        (if s2.cws - cap > 0
          then evictLruLoop p Gen.SYNC_EVICTION_BATCH_SIZE s2 (s2.cws - cap) 0 else s2).map ∧
      (syncRun p s).prob =
        (if s2.cws - cap > 0
          then evictLruLoop p Gen.SYNC_EVICTION_BATCH_SIZE s2 (s2.cws - cap) 0 else s2).prob := by
  rw [syncRun_eq]
  dsimp only
  rw [syncPass_one p { s with cec := s.ec, cws := s.ws } op hr hw]
  generalize applyWrite p { s with cec := s.ec, cws := s.ws, writeQ := [] } op = s1 at hne ⊢
  have key : ∀ s2, SameCore s1 s2 →
      (let s2' := if (p.hasExpiry || s2.va.isSome) = true then evictExpired p s2 else s2
       let s3 := if weightsToEvict p s2' > 0
         then evictLruLoop p Gen.SYNC_EVICTION_BATCH_SIZE s2' (weightsToEvict p s2') 0 else s2'
       ({ s3 with ec := s3.cec, ws := s3.cws } : SState)).map =
        (if s2.cws - cap > 0
          then evictLruLoop p Gen.SYNC_EVICTION_BATCH_SIZE s2 (s2.cws - cap) 0 else s2).map ∧
      (let s2' := if (p.hasExpiry || s2.va.isSome) = true then evictExpired p s2 else s2
       let s3 := if weightsToEvict p s2' > 0
         then evictLruLoop p Gen.SYNC_EVICTION_BATCH_SIZE s2' (weightsToEvict p s2') 0 else s2'
       ({ s3 with ec := s3.cec, ws := s3.cws } : SState)).prob =
        (if s2.cws - cap > 0
          then evictLruLoop p Gen.SYNC_EVICTION_BATCH_SIZE s2 (s2.cws - cap) 0 else s2).prob := by
    intro s2 hsame
    dsimp only
    have e3 : (if (p.hasExpiry || s2.va.isSome) = true then evictExpired p s2 else s2) = s2 := by
      split
      · exact evictExpired_noop (hne.same hsame)
      · rfl
    rw [e3]
    have e4 : weightsToEvict p s2 = s2.cws - cap := by
      unfold weightsToEvict
      rw [hcap]
    rw [e4]
    exact ⟨rfl, rfl⟩
  by_cases hen : shouldEnableSketch p s1 = true
  · rw [if_pos hen]
    exact ⟨_, Or.inr rfl, key _ (enableSketch_same _ _)⟩
  · rw [if_neg hen]
    exact ⟨_, Or.inl rfl, key _ ⟨rfl, rfl, rfl, rfl, rfl, rfl, rfl, rfl⟩⟩

/-! ### a quiescent calm cache, an insert of a resident key, a maintenance run -/

/-- The value entry `insert` creates for a key that is resident: it shares the info (and the
key object) of the entry it replaces. -/
def updVE (s : SState) (old : VE) (v : Nat) : VE :=
  { id := s.nextId, val := v, info := old.info, slot := old.slot }

/-- The map step of the insert of a resident key: the shared info is marked dirty and re-timed,
the map holds the new value entry. -/
def withUpd (p : Params) (s : SState) (k v : Nat) (old : VE) : SState :=
  { refreshInfo p s old.info s.now (p.weigh k v) with
    nextId := s.nextId + 1, map := AL.put s.map k (updVE s old v) }

/-- The write operation `insert` queues for a resident key. -/
def updOp (p : Params) (s : SState) (k v : Nat) (old : VE) : WOp :=
  .upsert k (p.hash k) (updVE s old v) (getInfo s old.info).weight (p.weigh k v)

theorem insert_resident (p : Params) {s : SState} (hq : QInv s) {k : Nat} (v : Nat) {old : VE}
    (hold : AL.get? s.map k = some old) :
    insert p s k v =
      { housekeepW p (withUpd p s k v old) with
        writeQ := (housekeepW p (withUpd p s k v old)).writeQ ++ [updOp p s k v old] } := by
  unfold insert
  dsimp only
  rw [hold]
  dsimp only
  exact scheduleWriteOp3 p (s := withUpd p s k v old) (qinv_of_eq hq rfl rfl rfl) _

theorem getInfo_withUpd {p : Params} (hd8 : p.q.d8 = false) (s : SState) (k v : Nat) (old : VE)
    (j : Nat) :
    getInfo (withUpd p s k v old) j =
      if old.info = j then { getInfo s old.info with dirty := true, la := s.now, lm := s.now }
      else getInfo s j := by
  show getInfo (refreshInfo p s old.info s.now (p.weigh k v)) j = _
  unfold refreshInfo
  rw [getInfo_withInfo]
  by_cases e : old.info = j
  · rw [if_pos e, if_pos e]; simp [hd8]
  · rw [if_neg e, if_neg e]

/-- Number of residents the maintenance run after the update of `k` (node `n`) evicts: the
access order is the old one with `n` moved to the back, `n` weighs the new weight, the excess
is `ws - old + new - cap`. -/
def growCount (p : Params) (cap : Nat) (s : SState) (k v : Nat) (old : VE) (n : AoNode) : Nat :=
  evictCount (s.ws - (getInfo s old.info).weight + p.weigh k v - cap)
    ((eraseAo s.prob n.id).map (fun m => (getInfo s m.info).weight) ++ [p.weigh k v]) 0

/-- In a quiescent state no resident entry is dirty. -/
theorem clean_of_quiet {p : Params} {s : SState} (hr : RInv p s) (hw : s.writeQ = [])
    {k : Nat} {e : VE} (he : AL.get? s.map k = some e) : (getInfo s e.info).dirty = false := by
  cases hx : (getInfo s e.info).dirty with
  | false => rfl
  | true =>
    rcases hr.gd k e he hx with ⟨_, _, _, _, _, hmem, _⟩ | h
    · rw [hw] at hmem; cases hmem
    · cases h

/-- **Growth eviction on the concurrent cache, state level.**  In a quiescent calm state `s`,
the insert of a key `k` that is resident (entry `old`, node `n`), followed by a maintenance
run: the node of `k` moves to the most recently used end, and exactly the shortest prefix of
that order whose weights (`k` counted with its new weight) cover the excess
`ws - old + new - cap` leaves (`growCount` residents; none if there is no excess). Both
housekeeping regimes of `insert` are covered. -/
theorem insert_sync_grow {p : Params} (hq : NoQuirks p) (hsm : SmallSketch p) {cap : Nat}
    (hcap : p.cap = some cap) {s : SState} (hr : RInv p s) (hc : CalmS p cap s) (k v : Nat)
    {old : VE} {n : AoNode} (hold : AL.get? s.map k = some old) (hn : n ∈ s.prob)
    (hni : n.info = old.info) (httl : p.ttl ≠ some 0) (htti : p.tti ≠ some 0)
    (hlen : s.prob.length ≤ Gen.SYNC_EVICTION_BATCH_SIZE) :
    (syncRun p (insert p s k v)).map =
      eraseKeys (AL.put s.map k (updVE s old v))
        (((eraseAo s.prob n.id ++ [n]).take (growCount p cap s k v old n)).map (·.key)) ∧
    (syncRun p (insert p s k v)).prob =
      (eraseAo s.prob n.id ++ [n]).drop (growCount p cap s k v old n) := by
  have hi := hr.ainv
  have hd7 : p.q.d7 = false := by rw [hq]
  have hd8 : p.q.d8 = false := by rw [hq]
  have hnc := hi.top.nodes.toNodesCore
  have hne := hc.noExp hnc
  have hfind : findAo s.prob n.id = some n := findAo_of_mem hnc.probIds hn
  have hins := insert_resident p hi.q v hold
  have hi2 : AInv p (insert p s k v) := by
    have := step_ainv hq hsm hi (.ins k v)
    rw [step_fst p s _ hi.top.nofault] at this
    exact this
  have hclean_s : ∀ m, m ∈ s.prob → (getInfo s m.info).dirty = false := by
    intro m hm
    obtain ⟨e, he, hei⟩ := hc.cur m hm
    rw [← hei]
    exact clean_of_quiet hr hc.writeQ he
  -- the nodes other than `n` belong to other infos
  have hother : ∀ m, m ∈ eraseAo s.prob n.id → m ∈ s.prob ∧ old.info ≠ m.info := by
    intro m hm
    obtain ⟨h1, h2⟩ := (mem_eraseAo_iff hfind hnc.probIds m).mp hm
    refine ⟨h1, fun e => h2 ?_⟩
    exact hnc.info_inj h1 hn (by rw [hni, e])
  have hmemP : ∀ m, m ∈ eraseAo s.prob n.id ++ [n] → m ∈ s.prob := by
    intro m hm
    rcases List.mem_append.mp hm with h | h
    · exact (hother m h).1
    · rw [List.mem_singleton.mp h]; exact hn
  -- the state after the map step
  have c_info := getInfo_withUpd (p := p) hd8 s k v old
  have c_map : (withUpd p s k v old).map = AL.put s.map k (updVE s old v) := rfl
  have c_prob : (withUpd p s k v old).prob = s.prob := rfl
  have c_wo : (withUpd p s k v old).wo = s.wo := rfl
  have c_va : (withUpd p s k v old).va = s.va := rfl
  have c_now : (withUpd p s k v old).now = s.now := rfl
  have c_ws : (withUpd p s k v old).ws = s.ws := rfl
  have c_wq : (withUpd p s k v old).writeQ = [] := hc.writeQ
  have c_rq : (withUpd p s k v old).readQ = [] := hc.readQ
  have hne_c : NoExp p (withUpd p s k v old) := by
    refine ⟨?_, ?_⟩
    · intro m hm
      show expiredTs p.tti s.va (getInfo (withUpd p s k v old) m.info).la s.now = false
      rw [c_info]
      by_cases e : old.info = m.info
      · rw [if_pos e]; exact expiredTs_now hi.ts.va htti
      · rw [if_neg e]; exact hne.ao m hm
    · intro m hm
      show expiredTs p.ttl s.va (getInfo (withUpd p s k v old) m.info).lm s.now = false
      rw [c_info]
      by_cases e : old.info = m.info
      · rw [if_pos e]; exact expiredTs_now hi.ts.va httl
      · rw [if_neg e]; exact hne.wo m hm
  have hQ := housekeepW_quiet hcap (s := withUpd p s k v old) hc.readQ hc.writeQ hne_c hc.ws
    hi.top.sk.skOff
  generalize withUpd p s k v old = c at hins c_info c_map c_prob c_wo c_va c_now c_ws c_wq c_rq hne_c hQ
  generalize housekeepW p c = H at hins hQ
  have hHw : H.writeQ = [] := by rw [hQ.writeQ]; exact c_wq
  rw [hHw, List.nil_append] at hins
  rw [hins] at hi2 ⊢
  -- the queued write and the eviction, on a state `g` that agrees with `H`
  have key : ∀ g : SState, g.map = H.map → g.infos = H.infos → g.prob = H.prob → g.wo = H.wo →
      g.va = H.va → g.now = H.now → g.cws = H.ws → g.cec = H.ec → g.nextId = H.nextId →
      g.fault = H.fault →
      NoExp p (handleUpsert p g k (p.hash k) (updVE s old v) (getInfo s old.info).weight
        (p.weigh k v)) ∧
      ∀ s2, (s2 = handleUpsert p g k (p.hash k) (updVE s old v) (getInfo s old.info).weight
            (p.weigh k v) ∨
          s2 = enableSketch p (handleUpsert p g k (p.hash k) (updVE s old v)
            (getInfo s old.info).weight (p.weigh k v))) →
        (if s2.cws - cap > 0
          then evictLruLoop p Gen.SYNC_EVICTION_BATCH_SIZE s2 (s2.cws - cap) 0 else s2).map =
          eraseKeys (AL.put s.map k (updVE s old v))
            (((eraseAo s.prob n.id ++ [n]).take (growCount p cap s k v old n)).map (·.key)) ∧
        (if s2.cws - cap > 0
          then evictLruLoop p Gen.SYNC_EVICTION_BATCH_SIZE s2 (s2.cws - cap) 0 else s2).prob =
          (eraseAo s.prob n.id ++ [n]).drop (growCount p cap s k v old n) := by
    intro g gm gi gp gw gva gnow gcws gcec gnid gf
    have hgm : g.map = AL.put s.map k (updVE s old v) := by rw [gm, hQ.map, c_map]
    have hgp : g.prob = s.prob := by rw [gp, hQ.prob, c_prob]
    have hgva : g.va = s.va := by rw [gva, hQ.va, c_va]
    have hgnow : g.now = s.now := by rw [gnow, hQ.now, c_now]
    have hgI : ∀ j, getInfo g j =
        if old.info = j then { getInfo s old.info with dirty := true, la := s.now, lm := s.now }
        else getInfo s j := by
      intro j; rw [getInfo_congr gi, getInfo_congr hQ.infos, c_info]
    have hgc : g.cws = s.ws := by rw [gcws, hQ.ws, c_ws]
    have hu := hi2.top
    have hsafe : Safe g := by
      refine ⟨⟨hu.nodes.toNodesCore.congr (s' := g) ?_ ?_ ?_ ?_ ?_ ?_, ?_⟩, ?_⟩
      · intro j; rw [getInfo_congr (s := { H with writeQ := [updOp p s k v old] }) gi]
      · intro j; rw [getInfo_congr (s := { H with writeQ := [updOp p s k v old] }) gi]
      · intro j; rw [getInfo_congr (s := { H with writeQ := [updOp p s k v old] }) gi]
      · exact gp ▸ List.Perm.refl _
      · exact gw ▸ List.Perm.refl _
      · exact Nat.le_of_eq gnid.symm
      · rw [gcec, gp]; exact hu.nodes.count
      · rw [gf]; exact hu.nofault
    have hmapok : MapOK g := by
      refine ⟨by rw [gm]; exact hu.map.kn, ?_⟩
      intro k' ve' h'
      rw [gnid]
      exact hu.map.bound k' ve' (by rw [gm] at h'; exact h')
    have hcand : AL.get? g.map k = some (updVE s old v) := by rw [hgm]; exact AL.get?_put_self _ _ _
    have hng : n ∈ g.prob := by rw [hgp]; exact hn
    have hneg : NoExp p g := by
      refine ⟨?_, ?_⟩
      · intro m hm
        rw [gp, hQ.prob] at hm
        rw [gva, hQ.va, getInfo_congr gi, getInfo_congr hQ.infos, gnow, hQ.now]
        exact hne_c.ao m hm
      · intro m hm
        rw [gw, hQ.wo] at hm
        rw [gva, hQ.va, getInfo_congr gi, getInfo_congr hQ.infos, gnow, hQ.now]
        exact hne_c.wo m hm
    obtain ⟨u1, u2, u3, u4⟩ := handleUpsert_update hq hsafe (p.hash k) (getInfo s old.info).weight
      (p.weigh k v) hcand hng (show n.info = (updVE s old v).info from hni)
    have hs1safe := handleUpsert_safe hq hsafe hmapok k (p.hash k) (updVE s old v)
      (getInfo s old.info).weight (p.weigh k v)
    have hfr := handleUpsert_frame0 p g k (p.hash k) (updVE s old v) (getInfo s old.info).weight
      (p.weigh k v)
    have hsc := handleUpsert_subc p g k (p.hash k) (updVE s old v) (getInfo s old.info).weight
      (p.weigh k v)
    have hne1 : NoExp p (handleUpsert p g k (p.hash k) (updVE s old v) (getInfo s old.info).weight
        (p.weigh k v)) := by
      refine hneg.of_frame_subc hfr hsc ?_ ?_
      · rw [hgva, hgnow, hgI, if_pos (show old.info = (updVE s old v).info from rfl)]
        exact expiredTs_now hi.ts.va htti
      · rw [hgva, hgnow, hgI, if_pos (show old.info = (updVE s old v).info from rfl)]
        exact expiredTs_now hi.ts.va httl
    refine ⟨hne1, ?_⟩
    generalize handleUpsert p g k (p.hash k) (updVE s old v) (getInfo s old.info).weight
      (p.weigh k v) = s1 at u1 u2 u3 u4 hs1safe
    intro s2 hs2
    have hsame : SameCore s1 s2 := by
      rcases hs2 with e | e
      · rw [e]; exact ⟨rfl, rfl, rfl, rfl, rfl, rfl, rfl, rfl⟩
      · rw [e]; exact enableSketch_same _ _
    have hsafe2 : Safe s2 := by
      rcases hs2 with e | e
      · rw [e]; exact hs1safe
      · rw [e]; exact enableSketch_safe p hs1safe
    have hP2 : s2.prob = eraseAo s.prob n.id ++ [n] := by rw [hsame.prob, u2, hgp]
    have hM2 : s2.map = AL.put s.map k (updVE s old v) := by rw [hsame.map, u1, hgm]
    have hC2 : s2.cws = s.ws - (getInfo s old.info).weight + p.weigh k v := by
      rw [hsame.cws, u3, hgc, hgI, if_pos (show old.info = (updVE s old v).info from rfl)]
      rfl
    have hI2n : getInfo s2 n.info =
        { getInfo g old.info with dirty := false, weight := p.weigh k v } := by
      rw [getInfo_congr hsame.infos, u4, hni,
        if_pos (show (updVE s old v).info = old.info from rfl)]
      rfl
    have hI2o : ∀ m, m ∈ eraseAo s.prob n.id → getInfo s2 m.info = getInfo s m.info := by
      intro m hm
      have hne' := (hother m hm).2
      rw [getInfo_congr hsame.infos, u4, if_neg (show ¬ (updVE s old v).info = m.info from hne'),
        hgI, if_neg hne']
    have hcur2 : AllCur s2 s2.prob := by
      rw [hP2]
      intro m hm
      obtain ⟨e, he, hei⟩ := hc.cur m (hmemP m hm)
      by_cases hk : k = m.key
      · rw [← hk, hold] at he
        cases he
        exact ⟨updVE s old v, by rw [hM2, ← hk]; exact AL.get?_put_self _ _ _, hei⟩
      · exact ⟨e, by rw [hM2, AL.get?_put_ne _ hk]; exact he, hei⟩
    have hkn2 : (AL.keys s2.map).Nodup := by rw [hM2]; exact AL.nodup_put _ _ hi.top.map.kn
    have hclean2 : ∀ m, m ∈ s2.prob → (getInfo s2 m.info).dirty = false := by
      rw [hP2]
      intro m hm
      rcases List.mem_append.mp hm with h | h
      · rw [hI2o m h]; exact hclean_s m (hother m h).1
      · rw [List.mem_singleton.mp h, hI2n]
    have hlen2 : s2.prob.length ≤ Gen.SYNC_EVICTION_BATCH_SIZE := by
      rw [hP2, List.length_append, List.length_singleton, length_eraseAo hfind]
      exact hlen
    have hW2 : probWeights s2 =
        (eraseAo s.prob n.id).map (fun m => (getInfo s m.info).weight) ++ [p.weigh k v] := by
      unfold probWeights
      rw [hP2, List.map_append, List.map_singleton, hI2n]
      congr 1
      apply List.map_congr_left
      intro m hm
      rw [hI2o m hm]
    by_cases hpos : s2.cws - cap > 0
    · rw [if_pos hpos]
      obtain ⟨r1, r2⟩ := evictLruLoop_prefix hd7 Gen.SYNC_EVICTION_BATCH_SIZE s2 (s2.cws - cap) 0
        hsafe2 hcur2 hkn2 hclean2 hlen2
      rw [r1, r2, hW2, hP2, hM2, hC2]
      exact ⟨rfl, rfl⟩
    · rw [if_neg hpos]
      have h0 : growCount p cap s k v old n = 0 := by
        unfold growCount
        apply evictCount_done
        rw [hC2] at hpos
        omega
      rw [h0, hM2, hP2]
      exact ⟨rfl, rfl⟩
  have hrq : ({ H with writeQ := [updOp p s k v old] } : SState).readQ = [] := by
    show H.readQ = []
    rw [hQ.readQ]; exact c_rq
  obtain ⟨kne, kev⟩ := key
    { { H with writeQ := [updOp p s k v old] } with cec := H.ec, cws := H.ws, writeQ := [] }
    rfl rfl rfl rfl rfl rfl rfl rfl rfl rfl
  obtain ⟨s2, hs2, em, ep⟩ := syncRun_one_evict hcap (s := { H with writeQ := [updOp p s k v old] })
    (updOp p s k v old) hrq rfl kne
  obtain ⟨m1, m2⟩ := kev s2 hs2
  exact ⟨em.trans m1, ep.trans m2⟩

/-! ### snapshots versus states -/

theorem shortestPrefixBy_nil (w : Nat → Nat) (need : Nat) (order : List Nat) :
    (match shortestPrefixBy w need order 0 [] with
     | some pre => pre
     | none => order) = order.take (evictCount need (order.map w) 0) := by
  have := shortestPrefixBy_eq w need order 0 []
  cases h : shortestPrefixBy w need order 0 [] with
  | some pre => rw [h] at this; simpa using this
  | none => rw [h] at this; simpa using this

/-- Taking a node out of a list with distinct ids and distinct keys removes its key from the
list of keys. -/
theorem eraseAo_map_key {n : AoNode} : ∀ (l : List AoNode), (l.map (·.key)).Nodup →
    (l.map (·.id)).Nodup → n ∈ l →
    (eraseAo l n.id).map (·.key) = (l.map (·.key)).filter (fun x => x != n.key) := by
  intro l
  induction l with
  | nil => intro _ _ h; cases h
  | cons a l ih =>
    intro hk hid hn
    simp only [List.map_cons, List.nodup_cons] at hk hid
    by_cases ha : a.id = n.id
    · have han : n = a := by
        rcases List.mem_cons.mp hn with e | h
        · exact e
        · exact absurd (List.mem_map.mpr ⟨n, h, ha.symm⟩) hid.1
      subst han
      simp only [eraseAo, if_true, List.map_cons]
      rw [List.filter_cons_of_neg (by simp)]
      symm
      rw [List.filter_eq_self]
      intro x hx
      have : x ≠ n.key := fun e => hk.1 (e ▸ hx)
      simpa using this
    · have hnl : n ∈ l := by
        rcases List.mem_cons.mp hn with e | h
        · rw [e] at ha; exact absurd rfl ha
        · exact h
      have hak : a.key ≠ n.key := fun e => hk.1 (e ▸ List.mem_map.mpr ⟨n, hnl, rfl⟩)
      simp only [eraseAo, if_neg ha, List.map_cons]
      rw [List.filter_cons_of_pos (by simpa using hak), ih hk.2 hid.2 hnl]

/-- The check the growth oracle performs around `insert` + `sync` holds for the model. -/
theorem growthSyncOk_model {p : Params} (hq : NoQuirks p) (hsm : SmallSketch p) {cap : Nat}
    (hcap : p.cap = some cap) {s : SState} (hr : RInv p s) (k v : Nat) :
    growthSyncOk cap p.ttl p.tti p.weigh Gen.SYNC_EVICTION_BATCH_SIZE (snapshot p s) k v
      (snapshot p (syncRun p (insert p s k v))) = true := by
  unfold growthSyncOk
  dsimp only
  generalize hafter : snapshot p (syncRun p (insert p s k v)) = after
  cases happ : (((snapshot p s).rq == 0 && (snapshot p s).wq == 0 && after.rq == 0 &&
      after.wq == 0) && calm cap p.ttl p.tti (snapshot p s) &&
      (keysOf (snapshot p s)).contains k && (!(p.ttl == some 0) && !(p.tti == some 0)) &&
      (snapshot p s).entries.all (entryLiveAt p.ttl p.tti after.now after.va) &&
      decide (p.weigh k v ≤ cap) &&
      decide ((snapshot p s).entries.length ≤ Gen.SYNC_EVICTION_BATCH_SIZE)) with
  | false => rfl
  | true =>
  simp only [Bool.not_true, Bool.false_or]
  simp only [Bool.and_eq_true, Bool.not_eq_true', decide_eq_true_eq, beq_iff_eq,
    beq_eq_false_iff_ne, ne_eq] at happ
  obtain ⟨⟨⟨⟨⟨⟨⟨⟨⟨hrq, hwq⟩, _⟩, _⟩, hcalm⟩, hres⟩, httl, htti⟩, _⟩, _⟩, hlenE⟩ := happ
  have hi := hr.ainv
  have hnc := hi.top.nodes.toNodesCore
  have hkn := hi.top.map.kn
  have hc := calmS_of_snapshot hcalm hrq hwq
  obtain ⟨old, hold⟩ := (mem_keysOf_snapshot p s k).mp (List.contains_iff_mem.mp hres)
  -- the entry of `k` owns a node
  have haoOk : ∀ k' e, (k', e) ∈ s.map → (entryView s (k', e)).aoOk = true := by
    simp only [calm, Bool.and_eq_true] at hcalm
    exact (snapshot_entries_all (fun e => e.aoOk)).mp hcalm.1.2
  obtain ⟨n, hn, hni⟩ : ∃ n, n ∈ s.prob ∧ n.info = old.info := by
    have := haoOk k old (AL.mem_of_get? hold)
    unfold entryView at this
    dsimp only at this
    cases hao : (getInfo s old.info).ao with
    | none => rw [hao] at this; cases this
    | some id =>
      obtain ⟨n, hn, _, hni⟩ := hnc.aoNode _ _ hao
      exact ⟨n, hn, hni⟩
  have hnk : n.key = k := by
    rw [← hr.key.prob n hn, hni]; exact hr.key.map k old hold
  have hknodup : (s.prob.map (·.key)).Nodup := prob_keys_nodup hnc hc.cur
  have hlen : s.prob.length ≤ Gen.SYNC_EVICTION_BATCH_SIZE := by
    have h1 : (s.prob.map (·.key)).length ≤ (AL.keys s.map).length := by
      refine Counters.nodup_length_le _ _ hknodup ?_
      intro x hx
      obtain ⟨m, hm, rfl⟩ := List.mem_map.mp hx
      obtain ⟨e, he, _⟩ := hc.cur m hm
      exact AL.mem_keys_of_get? he
    rw [List.length_map, AL.keys_eq_map, List.length_map] at h1
    have h2 : (snapshot p s).entries.length = s.map.length := by
      simp only [snapshot, length_sortBy, List.length_map]
    omega
  obtain ⟨hmap, _⟩ := insert_sync_grow hq hsm hcap hr hc k v hold hn hni httl htti hlen
  -- the oracle's victims are the model's
  have hfind : findAo s.prob n.id = some n := findAo_of_mem hnc.probIds hn
  have horder : (lruOrder (snapshot p s)).filter (fun x => x != k) ++ [k] =
      (eraseAo s.prob n.id ++ [n]).map (·.key) := by
    rw [lruOrder_snapshot, List.map_append, List.map_singleton, hnk,
      eraseAo_map_key s.prob hknodup hnc.probIds hn, hnk]
  have hwk : weightOfKey (snapshot p s) k = (getInfo s old.info).weight := by
    rw [weightOfKey_snapshot hkn, hold]
  have hweights : ((eraseAo s.prob n.id ++ [n]).map (·.key)).map
      (growWeight (snapshot p s) k (p.weigh k v)) =
      (eraseAo s.prob n.id).map (fun m => (getInfo s m.info).weight) ++ [p.weigh k v] := by
    rw [List.map_append, List.map_append, List.map_singleton, List.map_singleton, hnk]
    congr 1
    · rw [List.map_map]
      apply List.map_congr_left
      intro m hm
      obtain ⟨hms, hmid⟩ := (mem_eraseAo_iff hfind hnc.probIds m).mp hm
      have hmk : m.key ≠ k := by
        have : m.key ∈ (eraseAo s.prob n.id).map (·.key) := List.mem_map.mpr ⟨m, hm, rfl⟩
        rw [eraseAo_map_key s.prob hknodup hnc.probIds hn, List.mem_filter, hnk] at this
        simpa using this.2
      obtain ⟨e, he, hei⟩ := hc.cur m hms
      simp only [Function.comp, growWeight]
      rw [if_neg (by simpa using hmk), weightOfKey_snapshot hkn, he]
      dsimp only
      rw [hei]
    · simp [growWeight]
  have hvict : (match shortestPrefixBy (growWeight (snapshot p s) k (p.weigh k v))
        ((snapshot p s).ws - weightOfKey (snapshot p s) k + p.weigh k v - cap)
        ((lruOrder (snapshot p s)).filter (fun x => x != k) ++ [k]) 0 [] with
      | some pre => pre
      | none => (lruOrder (snapshot p s)).filter (fun x => x != k) ++ [k]) =
      ((eraseAo s.prob n.id ++ [n]).take (growCount p cap s k v old n)).map (·.key) := by
    rw [shortestPrefixBy_nil, horder, hweights, hwk, List.map_take]
    rfl
  have hfin : ∀ V, V = ((eraseAo s.prob n.id ++ [n]).take (growCount p cap s k v old n)).map (·.key) →
      sameKeys (keysOf after)
        ((keysOf (snapshot p s)).filter (fun x => !V.contains x)) = true := by
    intro V hV
    rw [sameKeys_iff]
    intro x
    have hkn2 : (AL.keys (AL.put s.map k (updVE s old v))).Nodup := AL.nodup_put _ _ hkn
    rw [← hafter, mem_keysOf_snapshot, hmap, get?_eraseKeys hkn2, ← hV]
    simp only [List.mem_filter, Bool.not_eq_true', mem_keysOf_snapshot]
    by_cases hin : x ∈ V
    · rw [if_pos hin]
      constructor
      · rintro ⟨e', he'⟩; cases he'
      · rintro ⟨_, h⟩
        rw [← List.contains_iff_mem] at hin
        rw [hin] at h; cases h
    · rw [if_neg hin]
      have hcn : V.contains x = false := by
        cases hcn : V.contains x with
        | false => rfl
        | true => exact absurd (List.contains_iff_mem.mp hcn) hin
      by_cases hx : k = x
      · subst hx
        rw [AL.get?_put_self]
        exact ⟨fun _ => ⟨⟨old, hold⟩, hcn⟩, fun _ => ⟨_, rfl⟩⟩
      · rw [AL.get?_put_ne _ hx]
        exact ⟨fun h => ⟨h, hcn⟩, fun h => h.1⟩
  cases hsp : shortestPrefixBy (growWeight (snapshot p s) k (p.weigh k v))
      ((snapshot p s).ws - weightOfKey (snapshot p s) k + p.weigh k v - cap)
      ((lruOrder (snapshot p s)).filter (fun x => x != k) ++ [k]) 0 [] with
  | some pre =>
    rw [hsp] at hvict
    dsimp only at hvict
    exact hfin _ hvict
  | none =>
    rw [hsp] at hvict
    dsimp only at hvict
    exact hfin _ hvict

/-! ### the growth oracle on model traces -/

theorem run_cons_r {p : Params} (hq : NoQuirks p) (hsm : SmallSketch p) {s : SState}
    (hr : RInv p s) (op : Op) (rest : List Op) :
    run p s (op :: rest) = (op, (rawStep p s op).2) :: run p (rawStep p s op).1 rest ∧
    RInv p (rawStep p s op).1 :=
  ⟨(run_cons_ok hq hsm hr.ainv op rest).1, rawStep_rinv hq hsm hr op⟩

theorem run_eq_cons_r {p : Params} (hq : NoQuirks p) (hsm : SmallSketch p) {s : SState}
    (hr : RInv p s) {h : List Op} {x : Op × Obs} {t : List (Op × Obs)} (e : run p s h = x :: t) :
    ∃ op rest, h = op :: rest ∧ x = (op, (rawStep p s op).2) ∧
      t = run p (rawStep p s op).1 rest ∧ RInv p (rawStep p s op).1 := by
  obtain ⟨op, rest, h1, h2, h3, _⟩ := run_eq_cons hq hsm hr.ainv e
  exact ⟨op, rest, h1, h2, h3, rawStep_rinv hq hsm hr op⟩

theorem growthC12Sync_run {p : Params} (hq : NoQuirks p) (hsm : SmallSketch p) {cap : Nat}
    (hcap : p.cap = some cap) :
    ∀ (n : Nat) (h : List Op), h.length ≤ n → ∀ (s : SState), RInv p s →
      growthC12Sync cap p.ttl p.tti p.weigh Gen.SYNC_EVICTION_BATCH_SIZE (run p s h) = true := by
  intro n
  induction n with
  | zero =>
    intro h hl s _
    have : h = [] := List.length_eq_zero_iff.mp (Nat.le_zero.mp hl)
    subst this
    simp [run, growthC12Sync]
  | succ n ih =>
    intro h hl s hi
    cases h with
    | nil => simp [run, growthC12Sync]
    | cons op rest =>
      have hlr : rest.length ≤ n := by simpa using hl
      obtain ⟨hrun, hi1⟩ := run_cons_r hq hsm hi op rest
      rw [hrun]
      unfold growthC12Sync
      split
      · rename_i before k v after rest' heq
        obtain ⟨e1, e2⟩ := List.cons.inj heq
        have hop : op = .sync := (Prod.mk.inj e1).1
        subst hop
        obtain ⟨op2, r2, hr2, hx2, ht2, hi2⟩ := run_eq_cons_r hq hsm hi1 e2
        have hop2 : op2 = .snap := (Prod.mk.inj hx2).1.symm
        subst hop2
        obtain ⟨op3, r3, hr3, hx3, ht3, hi3⟩ := run_eq_cons_r hq hsm hi2 ht2.symm
        have hop3 : op3 = .ins k v := (Prod.mk.inj hx3).1.symm
        subst hop3
        obtain ⟨op4, r4, hr4, hx4, ht4, hi4⟩ := run_eq_cons_r hq hsm hi3 ht3.symm
        have hop4 : op4 = .sync := (Prod.mk.inj hx4).1.symm
        subst hop4
        obtain ⟨op5, r5, hr5, hx5, ht5, hi5⟩ := run_eq_cons_r hq hsm hi4 ht4.symm
        have hop5 : op5 = .snap := (Prod.mk.inj hx5).1.symm
        subst hop5
        have hbefore : before = snapshot p (syncRun p s) := Obs.snap.inj (Prod.mk.inj hx2).2
        have hafter : after = snapshot p (syncRun p (insert p (syncRun p s) k v)) :=
          Obs.snap.inj (Prod.mk.inj hx5).2
        subst hr2 hr3 hr4 hr5
        rw [Bool.and_eq_true]
        refine ⟨?_, ?_⟩
        · rw [hbefore, hafter]; exact growthSyncOk_model hq hsm hcap hi1 k v
        · have : ((Op.sync, Obs.ok) :: (Op.snap, Obs.snap after) :: rest') =
              run p (insert p (syncRun p s) k v) (.sync :: .snap :: r5) := by
            have hiA : RInv p (insert p (syncRun p s) k v) := hi3
            have hiB : RInv p (syncRun p (insert p (syncRun p s) k v)) := hi4
            rw [(run_cons_r hq hsm hiA _ _).1]
            show _ = _ :: run p (syncRun p (insert p (syncRun p s) k v)) (.snap :: r5)
            rw [(run_cons_r hq hsm hiB _ _).1, hafter, ht5]
            rfl
          rw [this]
          refine ih _ ?_ _ hi3
          simp only [List.length_cons] at hlr ⊢
          omega
      · rename_i before kf f k v after rest' heq
        obtain ⟨e1, e2⟩ := List.cons.inj heq
        have hop : op = .sync := (Prod.mk.inj e1).1
        subst hop
        obtain ⟨op2, r2, hr2, hx2, ht2, hi2⟩ := run_eq_cons_r hq hsm hi1 e2
        have hop2 : op2 = .snap := (Prod.mk.inj hx2).1.symm
        subst hop2
        obtain ⟨op3, r3, hr3, hx3, ht3, hi3⟩ := run_eq_cons_r hq hsm hi2 ht2.symm
        have hop3 : op3 = .freq kf := (Prod.mk.inj hx3).1.symm
        subst hop3
        obtain ⟨op4, r4, hr4, hx4, ht4, hi4⟩ := run_eq_cons_r hq hsm hi3 ht3.symm
        have hop4 : op4 = .ins k v := (Prod.mk.inj hx4).1.symm
        subst hop4
        obtain ⟨op5, r5, hr5, hx5, ht5, hi5⟩ := run_eq_cons_r hq hsm hi4 ht4.symm
        have hop5 : op5 = .sync := (Prod.mk.inj hx5).1.symm
        subst hop5
        obtain ⟨op6, r6, hr6, hx6, ht6, hi6⟩ := run_eq_cons_r hq hsm hi5 ht5.symm
        have hop6 : op6 = .snap := (Prod.mk.inj hx6).1.symm
        subst hop6
        have hbefore : before = snapshot p (syncRun p s) := Obs.snap.inj (Prod.mk.inj hx2).2
        have hafter : after = snapshot p (syncRun p (insert p (syncRun p s) k v)) :=
          Obs.snap.inj (Prod.mk.inj hx6).2
        subst hr2 hr3 hr4 hr5 hr6
        rw [Bool.and_eq_true]
        refine ⟨?_, ?_⟩
        · rw [hbefore, hafter]; exact growthSyncOk_model hq hsm hcap hi1 k v
        · have : ((Op.sync, Obs.ok) :: (Op.snap, Obs.snap after) :: rest') =
              run p (insert p (syncRun p s) k v) (.sync :: .snap :: r6) := by
            have hiA : RInv p (insert p (syncRun p s) k v) := hi4
            have hiB : RInv p (syncRun p (insert p (syncRun p s) k v)) := hi5
            rw [(run_cons_r hq hsm hiA _ _).1]
            show _ = _ :: run p (syncRun p (insert p (syncRun p s) k v)) (.snap :: r6)
            rw [(run_cons_r hq hsm hiB _ _).1, hafter, ht6]
            rfl
          rw [this]
          refine ih _ ?_ _ hi4
          simp only [List.length_cons] at hlr ⊢
          omega
      · rename_i before k v mid after rest' heq
        obtain ⟨e1, e2⟩ := List.cons.inj heq
        have hop : op = .sync := (Prod.mk.inj e1).1
        subst hop
        obtain ⟨op2, r2, hr2, hx2, ht2, hi2⟩ := run_eq_cons_r hq hsm hi1 e2
        have hop2 : op2 = .snap := (Prod.mk.inj hx2).1.symm
        subst hop2
        obtain ⟨op3, r3, hr3, hx3, ht3, hi3⟩ := run_eq_cons_r hq hsm hi2 ht2.symm
        have hop3 : op3 = .ins k v := (Prod.mk.inj hx3).1.symm
        subst hop3
        obtain ⟨op4, r4, hr4, hx4, ht4, hi4⟩ := run_eq_cons_r hq hsm hi3 ht3.symm
        have hop4 : op4 = .snap := (Prod.mk.inj hx4).1.symm
        subst hop4
        obtain ⟨op5, r5, hr5, hx5, ht5, hi5⟩ := run_eq_cons_r hq hsm hi4 ht4.symm
        have hop5 : op5 = .sync := (Prod.mk.inj hx5).1.symm
        subst hop5
        obtain ⟨op6, r6, hr6, hx6, ht6, hi6⟩ := run_eq_cons_r hq hsm hi5 ht5.symm
        have hop6 : op6 = .snap := (Prod.mk.inj hx6).1.symm
        subst hop6
        have hbefore : before = snapshot p (syncRun p s) := Obs.snap.inj (Prod.mk.inj hx2).2
        have hmid : mid = snapshot p (insert p (syncRun p s) k v) := Obs.snap.inj (Prod.mk.inj hx4).2
        have hafter : after = snapshot p (syncRun p (insert p (syncRun p s) k v)) :=
          Obs.snap.inj (Prod.mk.inj hx6).2
        subst hr2 hr3 hr4 hr5 hr6
        rw [Bool.and_eq_true]
        refine ⟨?_, ?_⟩
        · rw [hbefore, hafter]; exact growthSyncOk_model hq hsm hcap hi1 k v
        · have : ((Op.snap, Obs.snap mid) :: (Op.sync, Obs.ok) :: (Op.snap, Obs.snap after) :: rest') =
              run p (insert p (syncRun p s) k v) (.snap :: .sync :: .snap :: r6) := by
            have hiA : RInv p (insert p (syncRun p s) k v) := hi3
            have hiB : RInv p (syncRun p (insert p (syncRun p s) k v)) := hi5
            rw [(run_cons_r hq hsm hiA _ _).1]
            show _ = _ :: run p (insert p (syncRun p s) k v) (.sync :: .snap :: r6)
            rw [(run_cons_r hq hsm hiA _ _).1]
            show _ = _ :: _ :: run p (syncRun p (insert p (syncRun p s) k v)) (.snap :: r6)
            rw [(run_cons_r hq hsm hiB _ _).1, hmid, hafter, ht6]
            rfl
          rw [this]
          refine ih _ ?_ _ hi3
          simp only [List.length_cons] at hlr ⊢
          omega
      · rename_i before kf f k v mid after rest' heq
        obtain ⟨e1, e2⟩ := List.cons.inj heq
        have hop : op = .sync := (Prod.mk.inj e1).1
        subst hop
        obtain ⟨op2, r2, hr2, hx2, ht2, hi2⟩ := run_eq_cons_r hq hsm hi1 e2
        have hop2 : op2 = .snap := (Prod.mk.inj hx2).1.symm
        subst hop2
        obtain ⟨op3, r3, hr3, hx3, ht3, hi3⟩ := run_eq_cons_r hq hsm hi2 ht2.symm
        have hop3 : op3 = .freq kf := (Prod.mk.inj hx3).1.symm
        subst hop3
        obtain ⟨op4, r4, hr4, hx4, ht4, hi4⟩ := run_eq_cons_r hq hsm hi3 ht3.symm
        have hop4 : op4 = .ins k v := (Prod.mk.inj hx4).1.symm
        subst hop4
        obtain ⟨op5, r5, hr5, hx5, ht5, hi5⟩ := run_eq_cons_r hq hsm hi4 ht4.symm
        have hop5 : op5 = .snap := (Prod.mk.inj hx5).1.symm
        subst hop5
        obtain ⟨op6, r6, hr6, hx6, ht6, hi6⟩ := run_eq_cons_r hq hsm hi5 ht5.symm
        have hop6 : op6 = .sync := (Prod.mk.inj hx6).1.symm
        subst hop6
        obtain ⟨op7, r7, hr7, hx7, ht7, hi7⟩ := run_eq_cons_r hq hsm hi6 ht6.symm
        have hop7 : op7 = .snap := (Prod.mk.inj hx7).1.symm
        subst hop7
        have hbefore : before = snapshot p (syncRun p s) := Obs.snap.inj (Prod.mk.inj hx2).2
        have hmid : mid = snapshot p (insert p (syncRun p s) k v) := Obs.snap.inj (Prod.mk.inj hx5).2
        have hafter : after = snapshot p (syncRun p (insert p (syncRun p s) k v)) :=
          Obs.snap.inj (Prod.mk.inj hx7).2
        subst hr2 hr3 hr4 hr5 hr6 hr7
        rw [Bool.and_eq_true]
        refine ⟨?_, ?_⟩
        · rw [hbefore, hafter]; exact growthSyncOk_model hq hsm hcap hi1 k v
        · have : ((Op.snap, Obs.snap mid) :: (Op.sync, Obs.ok) :: (Op.snap, Obs.snap after) :: rest') =
              run p (insert p (syncRun p s) k v) (.snap :: .sync :: .snap :: r7) := by
            have hiA : RInv p (insert p (syncRun p s) k v) := hi4
            have hiB : RInv p (syncRun p (insert p (syncRun p s) k v)) := hi6
            rw [(run_cons_r hq hsm hiA _ _).1]
            show _ = _ :: run p (insert p (syncRun p s) k v) (.sync :: .snap :: r7)
            rw [(run_cons_r hq hsm hiA _ _).1]
            show _ = _ :: _ :: run p (syncRun p (insert p (syncRun p s) k v)) (.snap :: r7)
            rw [(run_cons_r hq hsm hiB _ _).1, hmid, hafter, ht7]
            rfl
          rw [this]
          refine ih _ ?_ _ hi4
          simp only [List.length_cons] at hlr ⊢
          omega
      · rename_i x t heq
        obtain ⟨_, e2⟩ := List.cons.inj heq
        rw [← e2]
        exact ih rest hlr _ hi1
      · rfl

/-- **Growth eviction on traces** (concurrent cache driven by one thread): the oracle accepts
every trace of the model. -/
theorem growthC12Sync_trace {p : Params} (hq : NoQuirks p) (hsm : SmallSketch p) {cap : Nat}
    (hcap : p.cap = some cap) (h : List Op) :
    growthC12Sync cap p.ttl p.tti p.weigh Gen.SYNC_EVICTION_BATCH_SIZE (trace p h) = true :=
  growthC12Sync_run hq hsm hcap h.length h (Nat.le_refl _) {} (init_rinv p)

end Growth
end Sync
end MiniMoka
