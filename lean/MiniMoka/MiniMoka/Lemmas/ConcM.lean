/-
  Lemmas about `MiniMoka/ConcM.lean` (maintenance runs as interleavable micro-steps):
   * the loops of `Sync.syncRun` unfold into the one-iteration bodies of `ConcM`, and a run
     executed back to back is `Sync.trySync` / `Sync.syncRun` (`run_is_trySync`,
     `run_is_syncRun`);
   * the invariant of all reachable states (`MInv`): between micro-steps of a run the run-local
     form (`RInv`: `Safe`, `MapOK`, the sketch, `CInv` for the logical queue), otherwise the
     invariant `CSInv` of `ConcS`; both are the same statement about a *view* of the state in
     which the run-local counters are published, which is how the map steps of other threads
     are handled by the lemmas of `Lemmas/ConcS.lean`.
-/
import MiniMoka.ConcM
import MiniMoka.Lemmas.ConcS

namespace MiniMoka
namespace ConcM

open Sync Sync.Nodes Sync.Counters ConcS

/-! ### the loops, one iteration at a time -/

theorem removeExpiredAo_succ (p : Params) (n : Nat) (s : SState) :
    removeExpiredAo p (n + 1) s =
      if (expireAoBody p s).2 = true then removeExpiredAo p n (expireAoBody p s).1
      else (expireAoBody p s).1 := by
  rw [removeExpiredAo]
  unfold expireAoBody
  generalize s.prob = l
  cases l with
  | nil => rfl
  | cons nd rest =>
    dsimp only
    by_cases he : expiredTs p.tti s.va (getInfo s nd.info).la s.now = true
    · simp only [if_pos he]
      generalize entryOfNode p s nd.key nd.info = eo
      have hskip : (match trySkipUpdated s nd.key with
          | (s', cont) => if cont = true then removeExpiredAo p n s' else s') =
          if (trySkipUpdated s nd.key).2 = true then removeExpiredAo p n (trySkipUpdated s nd.key).1
          else (trySkipUpdated s nd.key).1 := by
        generalize trySkipUpdated s nd.key = r
        obtain ⟨s', c⟩ := r
        rfl
      cases eo with
      | none => exact hskip
      | some ve =>
        dsimp only
        by_cases h2 : expiredTs p.tti s.va (getInfo s ve.info).la s.now = true
        · simp only [if_pos h2, if_true]
        · simp only [if_neg h2] <;> try exact hskip
    · simp only [if_neg he]
      rfl

theorem removeExpiredWo_succ (p : Params) (n : Nat) (s : SState) :
    removeExpiredWo p (n + 1) s =
      if (expireWoBody p s).2 = true then removeExpiredWo p n (expireWoBody p s).1
      else (expireWoBody p s).1 := by
  rw [removeExpiredWo]
  unfold expireWoBody
  generalize s.wo = l
  cases l with
  | nil => rfl
  | cons nd rest =>
    dsimp only
    by_cases he : expiredTs p.ttl s.va (getInfo s nd.info).lm s.now = true
    · simp only [if_pos he]
      generalize entryOfNode p s nd.key nd.info = eo
      have hskip : (match AL.get? s.map nd.key with
          | some ve =>
            if (getInfo s ve.info).dirty = true then
              removeExpiredWo p n (moveToBackWoE (moveToBackAoE s ve.info) ve.info)
            else s
          | none => removeExpiredWo p n (moveNodeToBackWo s nd.id)) =
          if (match AL.get? s.map nd.key with
            | some ve =>
              if (getInfo s ve.info).dirty = true then
                (moveToBackWoE (moveToBackAoE s ve.info) ve.info, true)
              else (s, false)
            | none => (moveNodeToBackWo s nd.id, true)).2 = true
          then removeExpiredWo p n (match AL.get? s.map nd.key with
            | some ve =>
              if (getInfo s ve.info).dirty = true then
                (moveToBackWoE (moveToBackAoE s ve.info) ve.info, true)
              else (s, false)
            | none => (moveNodeToBackWo s nd.id, true)).1
          else (match AL.get? s.map nd.key with
            | some ve =>
              if (getInfo s ve.info).dirty = true then
                (moveToBackWoE (moveToBackAoE s ve.info) ve.info, true)
              else (s, false)
            | none => (moveNodeToBackWo s nd.id, true)).1 := by
        generalize AL.get? s.map nd.key = o
        cases o with
        | none => rfl
        | some ve =>
          dsimp only
          by_cases hd : (getInfo s ve.info).dirty = true
          · simp only [if_pos hd, if_true]
          · simp only [if_neg hd, Bool.false_eq_true, if_false]
      cases eo with
      | none => exact hskip
      | some ve =>
        dsimp only
        by_cases h2 : expiredTs p.ttl s.va (getInfo s ve.info).lm s.now = true
        · simp only [if_pos h2, if_true]
        · simp only [if_neg h2] <;> try exact hskip
    · simp only [if_neg he]
      rfl

theorem evictLruLoop_succ (p : Params) (n : Nat) (s : SState) (wte ev : Nat) :
    evictLruLoop p (n + 1) s wte ev =
      if (lruBody p s wte ev).2.2 = true then
        evictLruLoop p n (lruBody p s wte ev).1 wte (lruBody p s wte ev).2.1
      else (lruBody p s wte ev).1 := by
  rw [evictLruLoop]
  unfold lruBody
  by_cases hge : ev ≥ wte
  · simp only [if_pos hge]
    rfl
  · simp only [if_neg hge]
    generalize s.prob = l
    cases l with
    | nil => rfl
    | cons nd rest =>
      dsimp only
      have hskip : (match trySkipUpdated s nd.key with
          | (s', cont) => if cont = true then evictLruLoop p n s' wte ev else s') =
          if (trySkipUpdated s nd.key).2 = true then
            evictLruLoop p n (trySkipUpdated s nd.key).1 wte ev
          else (trySkipUpdated s nd.key).1 := by
        generalize trySkipUpdated s nd.key = r
        obtain ⟨s', c⟩ := r
        rfl
      by_cases hd : (getInfo s nd.info).dirty = true
      · simp only [if_pos hd] <;> try exact hskip
      · simp only [if_neg hd]
        generalize entryOfNode p s nd.key nd.info = eo
        cases eo with
        | none => exact hskip
        | some ve =>
          dsimp only
          by_cases h2 : ((getInfo s ve.info).lm == (getInfo s nd.info).lm) = true
          · simp only [if_pos h2, if_true]
          · simp only [if_neg h2] <;> try exact hskip

/-- One iteration is the loop with fuel 1: the lemmas about the loops apply to the bodies. -/
theorem expireAoBody_eq (p : Params) (s : SState) :
    (expireAoBody p s).1 = removeExpiredAo p 1 s := by
  rw [removeExpiredAo_succ]
  split <;> rfl

theorem expireWoBody_eq (p : Params) (s : SState) :
    (expireWoBody p s).1 = removeExpiredWo p 1 s := by
  rw [removeExpiredWo_succ]
  split <;> rfl

theorem lruBody_eq (p : Params) (s : SState) (wte ev : Nat) :
    (lruBody p s wte ev).1 = evictLruLoop p 1 s wte ev := by
  rw [evictLruLoop_succ]
  split <;> rfl

/-! ### a run executed back to back -/

/-- Micro-steps of one run with nothing in between. -/
inductive MPath (p : Params) (ex : Bool) : SState × Phase → SState × Option Phase → Prop where
  | refl (s : SState) (ph : Phase) : MPath p ex (s, ph) (s, some ph)
  | step {s s1 : SState} {ph ph1 : Phase} {r : SState × Option Phase} :
      micro p ex s ph = (s1, some ph1) → MPath p ex (s1, ph1) r → MPath p ex (s, ph) r
  | last {s s1 : SState} {ph : Phase} : micro p ex s ph = (s1, none) → MPath p ex (s, ph) (s1, none)

theorem MPath.trans {p : Params} {ex : Bool} {a : SState × Phase} {b r : SState × Option Phase}
    (h1 : MPath p ex a b) : ∀ {s1 : SState} {ph1 : Phase}, b = (s1, some ph1) →
      MPath p ex (s1, ph1) r → MPath p ex a r := by
  induction h1 with
  | refl s ph =>
    intro s1 ph1 e h2
    injection e with e1 e2
    injection e2 with e2
    subst e1; subst e2
    exact h2
  | step hm _ ih => intro s1 ph1 e h2; exact MPath.step hm (ih e h2)
  | last hm => intro s1 ph1 e _; injection e with _ e2; cases e2

theorem MPath.one {p : Params} {ex : Bool} {s s1 : SState} {ph ph1 : Phase}
    (h : micro p ex s ph = (s1, some ph1)) : MPath p ex (s, ph) (s1, some ph1) :=
  MPath.step h (MPath.refl _ _)

theorem mpath_reads (p : Params) (ex : Bool) (f : Nat) : ∀ (n : Nat) (s : SState),
    MPath p ex (s, .reads f n)
      (applyReads p n s, some (.writes f (applyReads p n s).writeQ.length)) := by
  intro n
  induction n with
  | zero => intro s; exact MPath.one rfl
  | succ n ih =>
    intro s
    cases hq : s.readQ with
    | nil =>
      have h1 : applyReads p (n + 1) s = s := by rw [applyReads, hq]
      rw [h1]
      exact MPath.one (by simp only [micro, hq])
    | cons op rest =>
      have h1 : applyReads p (n + 1) s = applyReads p n (applyRead p { s with readQ := rest } op) := by
        rw [applyReads, hq]
      rw [h1]
      exact MPath.step (by simp only [micro, hq]) (ih _)

theorem mpath_writes (p : Params) (ex : Bool) (f : Nat) : ∀ (n : Nat) (s : SState),
    MPath p ex (s, .writes f n) (applyWrites p n s, some (.enable f)) := by
  intro n
  induction n with
  | zero => intro s; exact MPath.one rfl
  | succ n ih =>
    intro s
    cases hq : s.writeQ with
    | nil =>
      have h1 : applyWrites p (n + 1) s = s := by rw [applyWrites, hq]
      rw [h1]
      exact MPath.one (by simp only [micro, hq])
    | cons op rest =>
      have h1 : applyWrites p (n + 1) s
          = applyWrites p n (applyWrite p { s with writeQ := rest } op) := by
        rw [applyWrites, hq]
      rw [h1]
      exact MPath.step (by simp only [micro, hq]) (ih _)

theorem applyReads_all (p : Params) (s : SState) :
    (if s.readQ.length > 0 then applyReads p s.readQ.length s else s)
      = applyReads p s.readQ.length s := by
  split
  · rfl
  · rename_i h
    have : s.readQ.length = 0 := by omega
    rw [this]; rfl

theorem applyWrites_all (p : Params) (s : SState) :
    (if s.writeQ.length > 0 then applyWrites p s.writeQ.length s else s)
      = applyWrites p s.writeQ.length s := by
  split
  · rfl
  · rename_i h
    have : s.writeQ.length = 0 := by omega
    rw [this]; rfl

/-- The `while should_sync` loop. -/
theorem mpath_loop (p : Params) (ex : Bool) : ∀ (fuel : Nat) (s : SState),
    MPath p ex (s, passStart p fuel s)
      (syncLoop p fuel s, some (afterLoop p (syncLoop p fuel s))) := by
  intro fuel
  induction fuel with
  | zero => intro s; exact MPath.refl _ _
  | succ f ih =>
    intro s
    have hr := mpath_reads p ex f s.readQ.length s
    generalize hs1 : applyReads p s.readQ.length s = s1 at hr
    have hw := mpath_writes p ex f s1.writeQ.length s1
    generalize hs2 : applyWrites p s1.writeQ.length s1 = s2 at hw
    have hunf : syncLoop p (f + 1) s =
        if ((if shouldEnableSketch p s2 = true then enableSketch p s2 else s2).readQ.length
              ≥ Gen.READ_LOG_FLUSH_POINT ||
            (if shouldEnableSketch p s2 = true then enableSketch p s2 else s2).writeQ.length
              ≥ Gen.WRITE_LOG_FLUSH_POINT) = true
        then syncLoop p f (if shouldEnableSketch p s2 = true then enableSketch p s2 else s2)
        else (if shouldEnableSketch p s2 = true then enableSketch p s2 else s2) := by
      have e1 : (if s.readQ.length > 0 then applyReads p s.readQ.length s else s) = s1 :=
        (applyReads_all p s).trans hs1
      have e2 : (if s1.writeQ.length > 0 then applyWrites p s1.writeQ.length s1 else s1) = s2 :=
        (applyWrites_all p s1).trans hs2
      rw [syncLoop_succ]
      unfold syncPass
      simp only [e1]
      simp only [e2]
    refine (hr.trans rfl (hw.trans rfl ?_))
    rw [hunf]
    by_cases hc : ((if shouldEnableSketch p s2 = true then enableSketch p s2 else s2).readQ.length
          ≥ Gen.READ_LOG_FLUSH_POINT ||
        (if shouldEnableSketch p s2 = true then enableSketch p s2 else s2).writeQ.length
          ≥ Gen.WRITE_LOG_FLUSH_POINT) = true
    · rw [if_pos hc]
      refine MPath.step (ph1 := passStart p f
        (if shouldEnableSketch p s2 = true then enableSketch p s2 else s2)) ?_ (ih _)
      simp only [micro]
      rw [if_pos hc]
    · rw [if_neg hc]
      refine MPath.one ?_
      simp only [micro]
      rw [if_neg hc]

theorem mpath_expireWo (p : Params) (ex : Bool) : ∀ (n : Nat) (s : SState),
    MPath p ex (s, .expireWo n)
      (removeExpiredWo p n s, some (aoStart p (removeExpiredWo p n s))) := by
  intro n
  induction n with
  | zero => intro s; exact MPath.one rfl
  | succ n ih =>
    intro s
    rw [removeExpiredWo_succ]
    by_cases hc : (expireWoBody p s).2 = true
    · rw [if_pos hc]
      exact MPath.step (by simp only [micro, if_pos hc]) (ih _)
    · rw [if_neg hc]
      exact MPath.one (by simp only [micro, if_neg hc])

theorem mpath_expireAo (p : Params) (ex : Bool) : ∀ (n : Nat) (s : SState),
    MPath p ex (s, .expireAo n)
      (removeExpiredAo p n s, some (lruStart p (removeExpiredAo p n s))) := by
  intro n
  induction n with
  | zero => intro s; exact MPath.one rfl
  | succ n ih =>
    intro s
    rw [removeExpiredAo_succ]
    by_cases hc : (expireAoBody p s).2 = true
    · rw [if_pos hc]
      exact MPath.step (by simp only [micro, if_pos hc]) (ih _)
    · rw [if_neg hc]
      exact MPath.one (by simp only [micro, if_neg hc])

theorem mpath_lru (p : Params) (ex : Bool) (wte : Nat) : ∀ (n : Nat) (s : SState) (ev : Nat),
    MPath p ex (s, .lru n wte ev) (evictLruLoop p n s wte ev, some .finish) := by
  intro n
  induction n with
  | zero => intro s ev; exact MPath.one rfl
  | succ n ih =>
    intro s ev
    rw [evictLruLoop_succ]
    by_cases hc : (lruBody p s wte ev).2.2 = true
    · rw [if_pos hc]
      exact MPath.step (by simp only [micro, if_pos hc]) (ih _ _)
    · rw [if_neg hc]
      exact MPath.one (by simp only [micro, if_neg hc])

/-- The LRU eviction part of `Inner::sync`. -/
theorem mpath_lruStart (p : Params) (ex : Bool) (s : SState) :
    MPath p ex (s, lruStart p s)
      (if weightsToEvict p s > 0
        then evictLruLoop p Gen.SYNC_EVICTION_BATCH_SIZE s (weightsToEvict p s) 0 else s,
       some .finish) := by
  unfold lruStart
  by_cases h : weightsToEvict p s > 0
  · rw [if_pos h, if_pos h]; exact mpath_lru p ex _ _ _ _
  · rw [if_neg h, if_neg h]; exact MPath.refl _ _

/-- The expiry part of `Inner::sync`. -/
theorem mpath_afterLoop (p : Params) (ex : Bool) (s : SState) :
    MPath p ex (s, afterLoop p s)
      (if (p.hasExpiry || s.va.isSome) = true then evictExpired p s else s,
       some (lruStart p (if (p.hasExpiry || s.va.isSome) = true then evictExpired p s else s))) := by
  unfold afterLoop
  by_cases h : (p.hasExpiry || s.va.isSome) = true
  · rw [if_pos h, if_pos h]
    unfold evictExpired
    dsimp only
    have hao : ∀ s1 : SState, MPath p ex (s1, aoStart p s1)
        (if (p.tti.isSome || s1.va.isSome) = true
          then removeExpiredAo p Gen.SYNC_EVICTION_BATCH_SIZE s1 else s1,
         some (lruStart p (if (p.tti.isSome || s1.va.isSome) = true
          then removeExpiredAo p Gen.SYNC_EVICTION_BATCH_SIZE s1 else s1))) := by
      intro s1
      unfold aoStart
      by_cases h2 : (p.tti.isSome || s1.va.isSome) = true
      · rw [if_pos h2, if_pos h2]; exact mpath_expireAo p ex _ _
      · rw [if_neg h2, if_neg h2]; exact MPath.refl _ _
    by_cases h1 : p.ttl.isSome = true
    · rw [if_pos h1, if_pos h1]
      exact (mpath_expireWo p ex _ s).trans rfl (hao _)
    · rw [if_neg h1, if_neg h1]
      exact hao s
  · rw [if_neg h, if_neg h]; exact MPath.refl _ _

/-- A whole explicit run, micro-step by micro-step with nothing in between, is
`Sync.syncRun`. -/
theorem run_is_syncRun (p : Params) (s : SState) :
    MPath p true (beginRun s true, passStart p (Gen.MAX_SYNC_REPEATS + 1) (beginRun s true))
      (syncRun p s, none) := by
  have h1 := mpath_loop p true (Gen.MAX_SYNC_REPEATS + 1) (beginRun s true)
  have e0 : beginRun s true = { s with cec := s.ec, cws := s.ws } := rfl
  unfold syncRun
  dsimp only
  rw [e0] at h1 ⊢
  generalize syncLoop p (Gen.MAX_SYNC_REPEATS + 1) { s with cec := s.ec, cws := s.ws } = s1 at h1 ⊢
  have h2 := mpath_afterLoop p true s1
  generalize (if (p.hasExpiry || s1.va.isSome) = true then evictExpired p s1 else s1) = s2 at h2 ⊢
  have h3 := mpath_lruStart p true s2
  generalize (if weightsToEvict p s2 > 0
    then evictLruLoop p Gen.SYNC_EVICTION_BATCH_SIZE s2 (weightsToEvict p s2) 0 else s2) = s3
    at h3 ⊢
  exact h1.trans rfl (h2.trans rfl (h3.trans rfl (MPath.last rfl)))

/-- A whole housekeeping run, micro-step by micro-step with nothing in between, is
`Sync.trySync`. -/
theorem run_is_trySync (p : Params) (s : SState) (hr : s.running = false) :
    MPath p false (beginRun s false, passStart p (Gen.MAX_SYNC_REPEATS + 1) (beginRun s false))
      (trySync p s, none) := by
  have h1 := mpath_loop p false (Gen.MAX_SYNC_REPEATS + 1) (beginRun s false)
  unfold trySync
  rw [if_neg (by rw [hr]; exact Bool.false_ne_true)]
  unfold syncRun
  dsimp only
  have e0 : beginRun s false =
      { ({ s with running := true,
                  syncAfter := s.now + Gen.PERIODICAL_SYNC_INTERVAL_MILLIS * 1000000 } : SState) with
        cec := s.ec, cws := s.ws } := rfl
  rw [e0] at h1
  generalize syncLoop p (Gen.MAX_SYNC_REPEATS + 1)
    { ({ s with running := true,
                syncAfter := s.now + Gen.PERIODICAL_SYNC_INTERVAL_MILLIS * 1000000 } : SState) with
      cec := s.ec, cws := s.ws } = s1 at h1 ⊢
  have h2 := mpath_afterLoop p false s1
  generalize (if (p.hasExpiry || s1.va.isSome) = true then evictExpired p s1 else s1) = s2 at h2 ⊢
  have h3 := mpath_lruStart p false s2
  generalize (if weightsToEvict p s2 > 0
    then evictLruLoop p Gen.SYNC_EVICTION_BATCH_SIZE s2 (weightsToEvict p s2) 0 else s2) = s3
    at h3 ⊢
  exact h1.trans rfl (h2.trans rfl (h3.trans rfl (MPath.last rfl)))

/-! ### micro-step paths as paths of `ConcM` -/

theorem runEvs_append (p : Params) (c : MState) (l1 l2 : List Ev) :
    runEvs p c (l1 ++ l2) = match runEvs p c l1 with
      | some c' => runEvs p c' l2
      | none => none := by
  induction l1 generalizing c with
  | nil => rfl
  | cons e l1 ih =>
    simp only [List.cons_append, runEvs]
    cases step p c e with
    | none => rfl
    | some c' => exact ih c'

/-- A back-to-back micro-step path is a path of `mStep t` events. -/
theorem runEvs_of_mpath {p : Params} {ex : Bool} {a : SState × Phase} {b : SState × Option Phase}
    (h : MPath p ex a b) (t : Tid) (pd : List (Tid × Pend)) :
    ∃ evs, runEvs p ⟨a.1, pd, some ⟨t, ex, a.2⟩⟩ evs =
      some ⟨b.1, pd, b.2.map fun ph => ⟨t, ex, ph⟩⟩ := by
  induction h with
  | refl s ph => exact ⟨[], rfl⟩
  | step hm _ ih =>
    obtain ⟨evs, he⟩ := ih
    refine ⟨.mStep t :: evs, ?_⟩
    simp only [runEvs, step, if_true, hm, Option.map_some]
    exact he
  | last hm =>
    refine ⟨[.mStep t], ?_⟩
    simp only [runEvs, step, if_true, hm, Option.map_none]

/-! ### the invariant -/

/-- The state of a run with its run-local counters published and the flag released: what the
state would be if the run ended now. -/
def view (s : SState) : SState := { s with ec := s.cec, ws := s.cws, running := false }

/-- The invariant between two micro-steps of a run. -/
structure RInv (p : Params) (s : SState) (pd : List (Tid × Pend)) : Prop where
  run : RunInv Sketch.Good s
  cinv : CInv p s (s.writeQ ++ pendWrites pd)
  tids : (pd.map (·.1)).Nodup
  wq : s.writeQ.length ≤ Gen.WRITE_LOG_SIZE
  rq : s.readQ.length ≤ Gen.READ_LOG_SIZE

theorem rinv_of_view {p : Params} {s : SState} {pd : List (Tid × Pend)}
    (h : CSInv p ⟨view s, pd⟩) : RInv p s pd := by
  refine ⟨⟨⟨⟨h.top.nodes.toNodesCore.congr (fun _ => rfl) (fun _ => rfl) (fun _ => rfl)
    (List.Perm.refl _) (List.Perm.refl _) (Nat.le_refl _), h.top.nodes.count⟩, h.top.nofault⟩,
    ⟨h.top.map.kn, h.top.map.bound⟩, ⟨h.top.sk.sk, h.top.sk.skOff⟩⟩, ?_, h.tids, h.wq, h.rq⟩
  have h1 : CInv p { view s with cec := (view s).ec, cws := (view s).ws }
      (s.writeQ ++ pendWrites pd) := h.cinv
  exact h1.same (same_of_eq rfl rfl rfl rfl rfl rfl)

theorem view_of_rinv {p : Params} {s : SState} {pd : List (Tid × Pend)} (h : RInv p s pd) :
    CSInv p ⟨view s, pd⟩ := by
  refine ⟨⟨⟨⟨h.run.safe.toNodesCore.congr (fun _ => rfl) (fun _ => rfl) (fun _ => rfl)
    (List.Perm.refl _) (List.Perm.refl _) (Nat.le_refl _), h.run.safe.count⟩,
    ⟨h.run.map.kn, h.run.map.bound⟩, ⟨h.run.sk.sk, h.run.sk.skOff⟩⟩, h.run.safe.nofault⟩,
    rfl, h.tids, ?_, h.wq, h.rq⟩
  show CInv p { view s with cec := (view s).ec, cws := (view s).ws } (s.writeQ ++ pendWrites pd)
  exact h.cinv.same (same_of_eq rfl rfl rfl rfl rfl rfl)

/-- The invariant of the reachable states of `ConcM`. -/
def MInv (p : Params) (c : MState) : Prop :=
  match c.run with
  | none => CSInv p ⟨c.s, c.pending⟩
  | some r => CSInv p ⟨view c.s, c.pending⟩ ∧ (r.explicit = true → c.s.running = false)

/-! ### micro-steps keep the invariant -/

theorem rinv_of_g {p : Params} {s s' : SState} {pd : List (Tid × Pend)} (h : RInv p s pd)
    (g : G p s' (s'.writeQ ++ pendWrites pd)) (hk : SkOK Sketch.Good s')
    (hw : s'.writeQ.length ≤ s.writeQ.length) (hr : s'.readQ.length ≤ s.readQ.length) :
    RInv p s' pd :=
  ⟨⟨g.safe, g.map, hk⟩, g.inv, h.tids, Nat.le_trans hw h.wq, Nat.le_trans hr h.rq⟩

theorem RInv.g {p : Params} {s : SState} {pd : List (Tid × Pend)} (h : RInv p s pd) :
    G p s (s.writeQ ++ pendWrites pd) := ⟨h.run.safe, h.run.map, h.cinv⟩

/-- Every micro-step keeps the run-local invariant and the housekeeper flag (except that the
last step of a housekeeping run releases it). -/
theorem micro_rinv {p : Params} (hq : NoQuirks p) (hsm : SmallSketch p) {s : SState}
    {pd : List (Tid × Pend)} (ex : Bool) (h : RInv p s pd) (ph : Phase) :
    RInv p (micro p ex s ph).1 pd ∧
      ((micro p ex s ph).2.isSome = true ∨ ex = true → (micro p ex s ph).1.running = s.running) := by
  cases ph with
  | reads f n =>
    cases n with
    | zero => exact ⟨h, fun _ => rfl⟩
    | succ n =>
      cases hrq : s.readQ with
      | nil =>
        have hm : (micro p ex s (.reads f (n + 1))).1 = s := by simp only [micro, hrq]
        rw [hm]; exact ⟨h, fun _ => rfl⟩
      | cons op rest =>
        have hm : (micro p ex s (.reads f (n + 1))).1 = applyRead p { s with readQ := rest } op := by
          simp only [micro, hrq]
        rw [hm]
        have hs0 : Safe { s with readQ := rest } :=
          h.run.safe.of_eq rfl rfl rfl (Nat.le_refl _) rfl rfl
        have hk0 : SkOK Sketch.Good { s with readQ := rest } := ⟨h.run.sk.sk, h.run.sk.skOff⟩
        obtain ⟨a1, a2⟩ := applyRead_inv sketchLaws hq hs0 hk0 op
        have hqf := applyRead_qframe p { s with readQ := rest } op
        have hc0 : CInv p { s with readQ := rest } (s.writeQ ++ pendWrites pd) :=
          h.cinv.same (same_of_eq rfl rfl rfl rfl rfl rfl)
        refine ⟨rinv_of_g h ⟨a1, h.run.map.frame (applyRead_frame hq s op rest hrq), ?_⟩ a2
          (by rw [hqf.writeQ]; exact Nat.le_refl _)
          (by rw [hqf.readQ]; show rest.length ≤ _; rw [hrq]; exact Nat.le_succ _),
          fun _ => hqf.running⟩
        rw [hqf.writeQ]
        exact hc0.same (applyRead_same p _ op)
  | writes f n =>
    cases n with
    | zero => exact ⟨h, fun _ => rfl⟩
    | succ n =>
      cases hwq : s.writeQ with
      | nil =>
        have hm : (micro p ex s (.writes f (n + 1))).1 = s := by simp only [micro, hwq]
        rw [hm]; exact ⟨h, fun _ => rfl⟩
      | cons op rest =>
        have hm : (micro p ex s (.writes f (n + 1))).1
            = applyWrite p { s with writeQ := rest } op := by simp only [micro, hwq]
        rw [hm]
        have g0 : G p { s with writeQ := rest } (op :: (rest ++ pendWrites pd)) := by
          have hc := h.cinv
          rw [hwq] at hc
          exact ⟨safe_setWriteQ h.run.safe rest, ⟨h.run.map.kn, h.run.map.bound⟩,
            hc.same (same_of_eq rfl rfl rfl rfl rfl rfl)⟩
        have g1 := applyWrite_g hq op g0
        have hqf := applyWrite_qframe p { s with writeQ := rest } op
        have hk0 : SkOK Sketch.Good { s with writeQ := rest } := ⟨h.run.sk.sk, h.run.sk.skOff⟩
        refine ⟨rinv_of_g h (by rw [hqf.writeQ]; exact g1) (hk0.same (applyWrite_sk _ _ _))
          (by rw [hqf.writeQ]; show rest.length ≤ _; rw [hwq]; exact Nat.le_succ _)
          (by rw [hqf.readQ]; exact Nat.le_refl _), fun _ => hqf.running⟩
  | enable f =>
    have hm : (micro p ex s (.enable f)).1
        = (if shouldEnableSketch p s = true then enableSketch p s else s) := by
      simp only [micro]; split <;> (split <;> rfl)
    rw [hm]
    split
    · rename_i hen
      have hqf := enableSketch_qframe p s
      refine ⟨rinv_of_g h ⟨enableSketch_safe p h.run.safe,
        h.run.map.frame0 (enableSketch_frame0 _ _), ?_⟩
        (enableSketch_skOK sketchLaws hsm h.run.sk hen)
        (by rw [hqf.writeQ]; exact Nat.le_refl _) (by rw [hqf.readQ]; exact Nat.le_refl _),
        fun _ => hqf.running⟩
      rw [hqf.writeQ]
      exact h.cinv.same (enableSketch_same p s)
    · exact ⟨h, fun _ => rfl⟩
  | expireWo n =>
    cases n with
    | zero => exact ⟨h, fun _ => rfl⟩
    | succ n =>
      have hm : (micro p ex s (.expireWo (n + 1))).1 = (expireWoBody p s).1 := by
        simp only [micro]; split <;> rfl
      rw [hm, expireWoBody_eq]
      have hqf := removeExpiredWo_qframe p 1 s
      exact ⟨rinv_of_g h (by rw [hqf.writeQ]; exact removeExpiredWo_g 1 s h.g)
        (h.run.sk.same (removeExpiredWo_sk p 1 s))
        (by rw [hqf.writeQ]; exact Nat.le_refl _) (by rw [hqf.readQ]; exact Nat.le_refl _),
        fun _ => hqf.running⟩
  | expireAo n =>
    cases n with
    | zero => exact ⟨h, fun _ => rfl⟩
    | succ n =>
      have hm : (micro p ex s (.expireAo (n + 1))).1 = (expireAoBody p s).1 := by
        simp only [micro]; split <;> rfl
      rw [hm, expireAoBody_eq]
      have hqf := removeExpiredAo_qframe p 1 s
      exact ⟨rinv_of_g h (by rw [hqf.writeQ]; exact removeExpiredAo_g 1 s h.g)
        (h.run.sk.same (removeExpiredAo_sk p 1 s))
        (by rw [hqf.writeQ]; exact Nat.le_refl _) (by rw [hqf.readQ]; exact Nat.le_refl _),
        fun _ => hqf.running⟩
  | lru n wte ev =>
    cases n with
    | zero => exact ⟨h, fun _ => rfl⟩
    | succ n =>
      have hm : (micro p ex s (.lru (n + 1) wte ev)).1 = (lruBody p s wte ev).1 := by
        simp only [micro]; split <;> rfl
      rw [hm, lruBody_eq]
      have hqf := evictLruLoop_qframe p 1 s wte ev
      exact ⟨rinv_of_g h (by rw [hqf.writeQ]; exact evictLruLoop_g 1 s wte ev h.g)
        (h.run.sk.same (evictLruLoop_sk p 1 s wte ev))
        (by rw [hqf.writeQ]; exact Nat.le_refl _) (by rw [hqf.readQ]; exact Nat.le_refl _),
        fun _ => hqf.running⟩
  | finish =>
    have hfin : ∀ s' : SState, s'.map = s.map → s'.infos = s.infos → s'.prob = s.prob →
        s'.wo = s.wo → s'.cec = s.cec → s'.cws = s.cws → s'.nextId = s.nextId → s'.sk = s.sk →
        s'.skOn = s.skOn → s'.fault = s.fault → s'.writeQ = s.writeQ → s'.readQ = s.readQ →
        RInv p s' pd := by
      intro s' e1 e2 e3 e4 e5 e6 e7 e8 e9 e10 e11 e12
      refine ⟨⟨h.run.safe.of_eq e2 e3 e4 (by rw [e7]; exact Nat.le_refl _) e5 e10,
        ⟨by rw [e1]; exact h.run.map.kn, by rw [e1, e7]; exact h.run.map.bound⟩,
        ⟨by rw [e8]; exact h.run.sk.sk, by rw [e8, e9]; exact h.run.sk.skOff⟩⟩, ?_, h.tids,
        by rw [e11]; exact h.wq, by rw [e12]; exact h.rq⟩
      rw [e11]
      exact h.cinv.same (same_of_eq e1 e2 e3 e4 e6 e7)
    cases ex with
    | true =>
      have hm : micro p true s .finish = ({ s with ec := s.cec, ws := s.cws }, none) := rfl
      rw [hm]
      exact ⟨hfin _ rfl rfl rfl rfl rfl rfl rfl rfl rfl rfl rfl rfl, fun _ => rfl⟩
    | false =>
      have hm : micro p false s .finish =
          ({ ({ s with ec := s.cec, ws := s.cws } : SState) with running := false }, none) := rfl
      rw [hm]
      refine ⟨hfin _ rfl rfl rfl rfl rfl rfl rfl rfl rfl rfl rfl rfl, ?_⟩
      intro hx
      rcases hx with hx | hx
      · cases hx
      · cases hx

/-! ### the steps of other threads commute with the view -/

theorem insertMap_view (p : Params) (s : SState) (k v : Nat) :
    insertMap p (view s) k v = (view (insertMap p s k v).1, (insertMap p s k v).2) := by
  unfold insertMap view
  dsimp only
  generalize AL.get? s.map k = o
  cases o <;> rfl

theorem invalidateMap_view (s : SState) (k : Nat) :
    invalidateMap (view s) k = (view (invalidateMap s k).1, (invalidateMap s k).2) := by
  unfold invalidateMap view
  dsimp only
  generalize AL.get? s.map k = o
  cases o <;> rfl

theorem lookup_view (p : Params) (s : SState) (k : Nat) : lookup p (view s) k = lookup p s k := rfl

/-- A step of another thread acts on the view as on the state. -/
theorem step_view (p : Params) (s : SState) (pd : List (Tid × Pend)) (e : ConcS.Ev)
    (he : isPlain e = true) :
    ConcS.step p ⟨view s, pd⟩ e =
      (ConcS.step p ⟨s, pd⟩ e).map fun c' => ⟨view c'.s, c'.pending⟩ := by
  cases e with
  | insMap t k v =>
    simp only [ConcS.step, insertMap_view]
    cases pendOf pd t <;> rfl
  | invMap t k =>
    simp only [ConcS.step, invalidateMap_view]
    cases pendOf pd t with
    | some x => rfl
    | none =>
      dsimp only
      cases (invalidateMap s k).2 <;> rfl
  | getMap t k =>
    simp only [ConcS.step, lookup_view]
    cases pendOf pd t <;> rfl
  | maint t => cases he
  | sync t => cases he
  | enq t =>
    simp only [ConcS.step]
    cases pendOf pd t with
    | none => rfl
    | some x =>
      cases x with
      | write op =>
        dsimp only
        show (if s.writeQ.length < Gen.WRITE_LOG_SIZE then _ else _) = _
        split <;> rfl
      | read op =>
        dsimp only
        show (if s.readQ.length < Gen.READ_LOG_SIZE then _ else _) = _
        split <;> rfl
  | tick d => rfl
  | invAll t => rfl

/-- The steps of other threads do not touch the housekeeper flag. -/
theorem step_running (p : Params) (c c' : CState) (e : ConcS.Ev) (he : isPlain e = true)
    (hs : ConcS.step p c e = some c') : c'.s.running = c.s.running := by
  cases e with
  | insMap t k v =>
    simp only [ConcS.step] at hs
    cases hp : pendOf c.pending t with
    | some x => rw [hp] at hs; cases hs
    | none =>
      rw [hp] at hs
      rw [← Option.some.inj hs]
      show (insertMap p c.s k v).1.running = _
      unfold insertMap
      dsimp only
      generalize AL.get? c.s.map k = o
      cases o <;> rfl
  | invMap t k =>
    simp only [ConcS.step] at hs
    cases hp : pendOf c.pending t with
    | some x => rw [hp] at hs; cases hs
    | none =>
      rw [hp] at hs
      dsimp only at hs
      cases ho : (invalidateMap c.s k).2 with
      | none => rw [ho] at hs; rw [← Option.some.inj hs]
      | some op =>
        rw [ho] at hs
        rw [← Option.some.inj hs]
        show (invalidateMap c.s k).1.running = _
        unfold invalidateMap
        generalize AL.get? c.s.map k = o
        cases o <;> rfl
  | getMap t k =>
    simp only [ConcS.step] at hs
    cases hp : pendOf c.pending t with
    | some x => rw [hp] at hs; cases hs
    | none => rw [hp] at hs; rw [← Option.some.inj hs]
  | maint t => cases he
  | sync t => cases he
  | enq t =>
    simp only [ConcS.step] at hs
    cases hp : pendOf c.pending t with
    | none => rw [hp] at hs; cases hs
    | some pd =>
      rw [hp] at hs
      cases pd with
      | write op =>
        dsimp only at hs
        split at hs
        · rw [← Option.some.inj hs]
        · cases hs
      | read op =>
        dsimp only at hs
        split at hs
        · rw [← Option.some.inj hs]
        · rw [← Option.some.inj hs]
  | tick d =>
    simp only [ConcS.step] at hs
    rw [← Option.some.inj hs]
  | invAll t =>
    simp only [ConcS.step] at hs
    rw [← Option.some.inj hs]; rfl

/-- Only the `finish` step ends a run. -/
theorem micro_none {p : Params} {ex : Bool} {s : SState} {ph : Phase}
    (h : (micro p ex s ph).2 = none) : ph = .finish := by
  cases ph with
  | finish => rfl
  | reads f n =>
    cases n with
    | zero => cases h
    | succ n => simp only [micro] at h; split at h <;> cases h
  | writes f n =>
    cases n with
    | zero => cases h
    | succ n => simp only [micro] at h; split at h <;> cases h
  | enable f => simp only [micro] at h; split at h <;> (split at h <;> cases h)
  | expireWo n =>
    cases n with
    | zero => cases h
    | succ n => simp only [micro] at h; split at h <;> cases h
  | expireAo n =>
    cases n with
    | zero => cases h
    | succ n => simp only [micro] at h; split at h <;> cases h
  | lru n wte ev =>
    cases n with
    | zero => cases h
    | succ n => simp only [micro] at h; split at h <;> cases h

/-! ### all steps keep the invariant -/

theorem begin_view {p : Params} {s : SState} {pd : List (Tid × Pend)} (h : CSInv p ⟨s, pd⟩)
    (ex : Bool) : CSInv p ⟨view (beginRun s ex), pd⟩ := by
  cases ex with
  | true =>
    exact ⟨h.top.of_eq rfl rfl rfl rfl rfl rfl rfl rfl rfl, rfl, h.tids,
      h.cinv.of_eq rfl rfl rfl rfl rfl rfl, h.wq, h.rq⟩
  | false =>
    exact ⟨h.top.of_eq rfl rfl rfl rfl rfl rfl rfl rfl rfl, rfl, h.tids,
      h.cinv.of_eq rfl rfl rfl rfl rfl rfl, h.wq, h.rq⟩

theorem view_eq_of_not_running {s : SState} (h : s.running = false) :
    ({ s with ec := s.cec, ws := s.cws } : SState) = view s := by
  unfold view
  rw [← h]

theorem step_minv {p : Params} (hq : NoQuirks p) (hsm : SmallSketch p) {c c' : MState}
    (h : MInv p c) (e : Ev) (hs : step p c e = some c') : MInv p c' := by
  cases e with
  | other e0 =>
    simp only [step] at hs
    by_cases hpl : isPlain e0 = true
    · rw [if_pos hpl] at hs
      cases h0 : ConcS.step p ⟨c.s, c.pending⟩ e0 with
      | none => rw [h0] at hs; cases hs
      | some c1 =>
        rw [h0] at hs
        have e := Option.some.inj hs
        subst e
        unfold MInv at h ⊢
        cases hr : c.run with
        | none =>
          rw [hr] at h
          simp only
          exact step_csinv hq hsm h e0 h0
        | some r =>
          rw [hr] at h
          simp only
          have hv := step_view p c.s c.pending e0 hpl
          rw [h0] at hv
          refine ⟨step_csinv hq hsm h.1 e0 hv, fun hx => ?_⟩
          rw [step_running p _ _ e0 hpl h0]
          exact h.2 hx
    · rw [if_neg hpl] at hs; cases hs
  | mBegin t ex =>
    simp only [step] at hs
    unfold MInv at h ⊢
    cases hr : c.run with
    | some r =>
      rw [hr] at hs h
      dsimp only at hs
      cases ex with
      | true => simp only [if_true] at hs; cases hs
      | false =>
        simp only [Bool.false_eq_true, if_false] at hs
        split at hs
        · rw [← Option.some.inj hs]
          simp only [hr]
          exact h
        · cases hs
    | none =>
      rw [hr] at hs h
      dsimp only at hs
      rw [← Option.some.inj hs]
      dsimp only
      refine ⟨begin_view h ex, fun hx => ?_⟩
      rw [hx]
      exact h.running
  | mStep t =>
    simp only [step] at hs
    unfold MInv at h ⊢
    cases hr : c.run with
    | none => rw [hr] at hs; cases hs
    | some r =>
      rw [hr] at hs h
      dsimp only at hs
      by_cases ht : r.tid = t
      · rw [if_pos ht] at hs
        rw [← Option.some.inj hs]
        obtain ⟨m1, m2⟩ := micro_rinv hq hsm r.explicit (rinv_of_view h.1) r.phase
        cases hph : (micro p r.explicit c.s r.phase).2 with
        | some ph =>
          simp only [Option.map_some]
          refine ⟨view_of_rinv m1, fun hx => ?_⟩
          rw [m2 (Or.inl (by rw [hph]; rfl))]
          exact h.2 hx
        | none =>
          simp only [Option.map_none]
          have hfin := micro_none hph
          rw [hfin]
          cases hex : r.explicit with
          | true =>
            have hm : (micro p true c.s .finish).1 = { c.s with ec := c.s.cec, ws := c.s.cws } := rfl
            rw [hm, view_eq_of_not_running (h.2 hex)]
            exact h.1
          | false => exact h.1
      · rw [if_neg ht] at hs; cases hs

theorem minv_init (p : Params) : MInv p {} := csinv_init p

theorem reach_minv {p : Params} (hq : NoQuirks p) (hsm : SmallSketch p) {c : MState}
    (h : Reach p c) : MInv p c := by
  induction h with
  | init => exact minv_init p
  | step e _ hs ih => exact step_minv hq hsm ih e hs

/-- The view of a state of `ConcM`: the state itself when no run is in progress. -/
def viewOf (c : MState) : SState :=
  match c.run with
  | none => c.s
  | some _ => view c.s

theorem minv_csinv {p : Params} {c : MState} (h : MInv p c) : CSInv p ⟨viewOf c, c.pending⟩ := by
  unfold MInv at h
  unfold viewOf
  cases hr : c.run with
  | none => rw [hr] at h; exact h
  | some r => rw [hr] at h; exact h.1

/-! ### `ConcS` is contained in `ConcM` -/

/-- The embedding of the states of `ConcS`: no run in progress. -/
def embed (c : CState) : MState := ⟨c.s, c.pending, none⟩

/-- Every step of `ConcS` is a path of `ConcM`: the plain steps are steps, `maint` is
`mBegin t false` followed by the micro-steps of the run, `sync` is `mBegin t true` followed by
the micro-steps. -/
theorem path_of_concS_step (p : Params) {c c' : CState} (e : ConcS.Ev)
    (hs : ConcS.step p c e = some c') : ∃ evs, runEvs p (embed c) evs = some (embed c') := by
  by_cases hpl : isPlain e = true
  · refine ⟨[.other e], ?_⟩
    simp only [runEvs, step, if_pos hpl, embed, hs, Option.map_some]
  · cases e with
    | maint t =>
      simp only [ConcS.step] at hs
      by_cases hr : c.s.running = true
      · rw [if_pos hr] at hs; cases hs
      · rw [if_neg hr] at hs
        have hr' : c.s.running = false := by
          cases hx : c.s.running with
          | false => rfl
          | true => exact absurd hx hr
        rw [← Option.some.inj hs]
        obtain ⟨evs, he⟩ := runEvs_of_mpath (run_is_trySync p c.s hr') t c.pending
        refine ⟨.mBegin t false :: evs, ?_⟩
        simp only [runEvs, step, embed]
        exact he
    | sync t =>
      simp only [ConcS.step] at hs
      by_cases hr : c.s.running = true
      · rw [if_pos hr] at hs; cases hs
      · rw [if_neg hr] at hs
        rw [← Option.some.inj hs]
        obtain ⟨evs, he⟩ := runEvs_of_mpath (run_is_syncRun p c.s) t c.pending
        refine ⟨.mBegin t true :: evs, ?_⟩
        simp only [runEvs, step, embed]
        exact he
    | insMap t k v => exact absurd rfl hpl
    | invMap t k => exact absurd rfl hpl
    | getMap t k => exact absurd rfl hpl
    | enq t => exact absurd rfl hpl
    | tick d => exact absurd rfl hpl
    | invAll t => exact absurd rfl hpl

theorem reach_of_runEvs {p : Params} : ∀ (evs : List Ev) (c c' : MState), Reach p c →
    runEvs p c evs = some c' → Reach p c' := by
  intro evs
  induction evs with
  | nil => intro c c' hr h; simp only [runEvs] at h; rw [← Option.some.inj h]; exact hr
  | cons e rest ih =>
    intro c c' hr h
    simp only [runEvs] at h
    cases hs : step p c e with
    | none => rw [hs] at h; cases h
    | some c1 => rw [hs] at h; exact ih c1 c' (Reach.step e hr hs) h

/-- Every state reachable in `ConcS` is reachable in `ConcM`. -/
theorem reach_embed {p : Params} {c : CState} (h : ConcS.Reach p c) : Reach p (embed c) := by
  induction h with
  | init => exact Reach.init
  | step e _ hs ih =>
    obtain ⟨evs, he⟩ := path_of_concS_step p e hs
    exact reach_of_runEvs evs _ _ ih he

end ConcM
end MiniMoka
