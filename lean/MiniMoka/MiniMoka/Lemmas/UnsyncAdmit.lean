/-
  TinyLFU admission and LRU victim selection on the unsync model (C13, C12):
  the closed formula of the victim-aggregation loop, the exact effect of an insert
  that finds no room, the exact effect of `evict_lru_entries`, and the recency order
  kept by hits, updates and admissions.  Then the correspondence between a state and its
  snapshot (plus the invariant `HashOk`: a node stores the hash of its key), from which the
  trace oracles `oracleC13` and `oracleC12` are shown to accept every model trace.
-/
import MiniMoka.Lemmas.UnsyncNoLoss

namespace MiniMoka
namespace Unsync

/- Everything below lives in `MiniMoka.Unsync.Admit` so that its helper names cannot clash
with those of lemma files written concurrently for other properties. -/
namespace Admit

/-! ### shortest sufficient prefix of a list of weights -/

/-- The least `n` such that the first `n` weights sum to at least `cw`; `none` when even
the whole list does not reach `cw`. (`cw - w` is truncated subtraction: `0` = reached.) -/
def shortestPre : Nat → List Nat → Option Nat
  | cw, [] => if cw = 0 then some 0 else none
  | cw, w :: rest => if cw = 0 then some 0 else (shortestPre (cw - w) rest).map (· + 1)

/-- `n` is the length of the shortest prefix of `ws` whose sum reaches `cw`. -/
def IsShortestPre (cw : Nat) (ws : List Nat) (n : Nat) : Prop :=
  n ≤ ws.length ∧ cw ≤ (ws.take n).sum ∧ ∀ m, m < n → (ws.take m).sum < cw

@[simp] theorem shortestPre_zero (ws : List Nat) : shortestPre 0 ws = some 0 := by
  cases ws <;> simp [shortestPre]

theorem shortestPre_cons_pos {cw : Nat} (h : cw ≠ 0) (w : Nat) (rest : List Nat) :
    shortestPre cw (w :: rest) = (shortestPre (cw - w) rest).map (· + 1) := by
  simp [shortestPre, h]

theorem shortestPre_nil_pos {cw : Nat} (h : cw ≠ 0) : shortestPre cw [] = none := by
  simp [shortestPre, h]

/-- `shortestPre` computes the least sufficient prefix length. -/
theorem shortestPre_eq_some_iff (ws : List Nat) :
    ∀ (cw n : Nat), shortestPre cw ws = some n ↔ IsShortestPre cw ws n := by
  induction ws with
  | nil =>
    intro cw n
    unfold IsShortestPre
    by_cases h : cw = 0
    · subst h
      simp only [shortestPre_zero, Option.some.injEq, List.length_nil, List.take_nil, List.sum_nil]
      constructor
      · intro e; subst e; simp
      · intro ⟨h1, _, _⟩; omega
    · rw [shortestPre_nil_pos h]
      simp only [List.length_nil, List.take_nil, List.sum_nil]
      constructor
      · intro e; cases e
      · intro ⟨_, h2, _⟩; omega
  | cons w rest ih =>
    intro cw n
    by_cases h : cw = 0
    · subst h
      unfold IsShortestPre
      simp only [shortestPre_zero, Option.some.injEq]
      constructor
      · intro e; subst e; simp
      · intro ⟨_, _, h3⟩
        cases n with
        | zero => rfl
        | succ n => exact absurd (h3 0 (Nat.succ_pos _)) (by simp)
    · rw [shortestPre_cons_pos h]
      cases n with
      | zero =>
        unfold IsShortestPre
        constructor
        · intro e
          cases hh : shortestPre (cw - w) rest <;> simp [hh] at e
        · intro ⟨_, h2, _⟩
          simp at h2; exact absurd h2 h
      | succ n =>
        have : (Option.map (· + 1) (shortestPre (cw - w) rest) = some (n + 1)) ↔
            shortestPre (cw - w) rest = some n := by
          cases hh : shortestPre (cw - w) rest <;> simp
        rw [this, ih (cw - w) n]
        unfold IsShortestPre
        simp only [List.length_cons, List.take_succ_cons, List.sum_cons]
        constructor
        · intro ⟨h1, h2, h3⟩
          refine ⟨by omega, by omega, ?_⟩
          intro m hm
          cases m with
          | zero => simp; omega
          | succ m =>
            have := h3 m (by omega)
            simp only [List.take_succ_cons, List.sum_cons]; omega
        · intro ⟨h1, h2, h3⟩
          refine ⟨by omega, by omega, ?_⟩
          intro m hm
          have := h3 (m + 1) (by omega)
          simp only [List.take_succ_cons, List.sum_cons] at this; omega

theorem shortestPre_eq_none_iff (ws : List Nat) :
    ∀ (cw : Nat), shortestPre cw ws = none ↔ ws.sum < cw := by
  induction ws with
  | nil =>
    intro cw
    by_cases h : cw = 0
    · subst h; simp
    · rw [shortestPre_nil_pos h]; simp; omega
  | cons w rest ih =>
    intro cw
    by_cases h : cw = 0
    · subst h; simp
    · rw [shortestPre_cons_pos h]
      have : (Option.map (· + 1) (shortestPre (cw - w) rest) = none) ↔
          shortestPre (cw - w) rest = none := by
        cases hh : shortestPre (cw - w) rest <;> simp
      rw [this, ih (cw - w)]
      simp only [List.sum_cons]; omega

theorem shortestPre_le_length {cw : Nat} {ws : List Nat} {n : Nat}
    (h : shortestPre cw ws = some n) : n ≤ ws.length :=
  ((shortestPre_eq_some_iff ws cw n).mp h).1

/-- The shortest sufficient prefix is unique. -/
theorem IsShortestPre.unique {cw : Nat} {ws : List Nat} {n m : Nat}
    (h1 : IsShortestPre cw ws n) (h2 : IsShortestPre cw ws m) : n = m := by
  have a := (shortestPre_eq_some_iff ws cw n).mpr h1
  have b := (shortestPre_eq_some_iff ws cw m).mpr h2
  rw [a] at b; exact Option.some.inj b

/-- Length of the shortest prefix reaching `need`, or of the whole list if none does. -/
def prefLen (need : Nat) (ws : List Nat) : Nat := (shortestPre need ws).getD ws.length

@[simp] theorem prefLen_zero (ws : List Nat) : prefLen 0 ws = 0 := by simp [prefLen]

theorem prefLen_cons_pos {need : Nat} (h : need ≠ 0) (w : Nat) (rest : List Nat) :
    prefLen need (w :: rest) = prefLen (need - w) rest + 1 := by
  unfold prefLen
  rw [shortestPre_cons_pos h]
  cases shortestPre (need - w) rest <;> simp

theorem prefLen_le_length (need : Nat) (ws : List Nat) : prefLen need ws ≤ ws.length := by
  unfold prefLen
  cases h : shortestPre need ws with
  | none => simp
  | some n => simpa using shortestPre_le_length h

theorem prefLen_nil (need : Nat) : prefLen need [] = 0 := by
  have := prefLen_le_length need []
  simpa using this

/-! ### closed formula of the victim-aggregation loop -/

/-- The admission loop, started with accumulator `a`: the final test succeeds iff the
shortest prefix of the nodes whose weight covers what is still missing exists and its
summed popularity (added to what was aggregated so far) stays below the candidate's; the
victims are then exactly that prefix. The early exit `cf < a.vf` is harmless because
popularities only add up. -/
theorem admitLoop_closed_gen {p : Params} {s : UState} {cw cf : Nat}
    (hw : ∀ k e, AL.get? s.map k = some e → e.weight = p.weigh k e.val) :
    ∀ (nodes : List AoNode) (a : Admission),
      (∀ n ∈ nodes, ∃ e, AL.get? s.map n.key = some e) →
      ((cw ≤ (admitLoop p s cw cf nodes a).vw ∧ (admitLoop p s cw cf nodes a).vf < cf) ↔
        ∃ n, shortestPre (cw - a.vw) (nodes.map (fun n => wOf s n.key)) = some n ∧
          a.vf + ((nodes.map (fOf s)).take n).sum < cf) ∧
      (∀ n, shortestPre (cw - a.vw) (nodes.map (fun n => wOf s n.key)) = some n →
          a.vf + ((nodes.map (fOf s)).take n).sum < cf →
          (admitLoop p s cw cf nodes a).victims = a.victims ++ nodes.take n ∧
          (admitLoop p s cw cf nodes a).vw =
            a.vw + ((nodes.map (fun n => wOf s n.key)).take n).sum ∧
          (admitLoop p s cw cf nodes a).vf = a.vf + ((nodes.map (fOf s)).take n).sum) := by
  intro nodes
  induction nodes with
  | nil =>
    intro a _
    simp only [admitLoop, List.map_nil, List.take_nil, List.sum_nil, Nat.add_zero,
      List.append_nil]
    by_cases h : cw - a.vw = 0
    · rw [h]
      simp only [shortestPre_zero, Option.some.injEq]
      refine ⟨⟨fun ⟨_, h2⟩ => ⟨0, rfl, h2⟩, fun ⟨_, _, h2⟩ => ⟨by omega, h2⟩⟩, ?_⟩
      intro n _ _; simp
    · rw [shortestPre_nil_pos h]
      refine ⟨⟨fun ⟨h1, _⟩ => absurd h1 (by omega), fun ⟨_, h1, _⟩ => by cases h1⟩, ?_⟩
      intro n h1; cases h1
  | cons nd rest ih =>
    intro a hall
    unfold admitLoop
    by_cases hc : a.vw < cw ∧ ¬ cf < a.vf
    · rw [if_pos hc]
      obtain ⟨e, he⟩ := hall nd List.mem_cons_self
      simp only [he]
      have hne : cw - a.vw ≠ 0 := by omega
      have hwn : wOf s nd.key = p.weigh nd.key e.val := by
        simp only [wOf, he]; exact hw nd.key e he
      have := ih { a with vw := a.vw + p.weigh nd.key e.val, vf := a.vf + s.sk.frequency nd.hash,
                          victims := a.victims ++ [nd] }
        (fun m hm => hall m (List.mem_cons_of_mem _ hm))
      simp only at this
      obtain ⟨ih1, ih2⟩ := this
      simp only [List.map_cons]
      rw [shortestPre_cons_pos hne, hwn]
      have hsub : cw - a.vw - p.weigh nd.key e.val = cw - (a.vw + p.weigh nd.key e.val) := by omega
      rw [hsub]
      refine ⟨ih1.trans ⟨?_, ?_⟩, ?_⟩
      · rintro ⟨n, h1, h2⟩
        refine ⟨n + 1, by simp [h1], ?_⟩
        simp only [List.take_succ_cons, List.sum_cons, fOf] at h2 ⊢
        omega
      · rintro ⟨n, h1, h2⟩
        cases n with
        | zero =>
          cases hh : shortestPre (cw - (a.vw + p.weigh nd.key e.val))
            (rest.map (fun n => wOf s n.key)) <;> simp [hh] at h1
        | succ n =>
          have h1' : shortestPre (cw - (a.vw + p.weigh nd.key e.val))
              (rest.map (fun n => wOf s n.key)) = some n := by
            cases hh : shortestPre (cw - (a.vw + p.weigh nd.key e.val))
              (rest.map (fun n => wOf s n.key)) <;> simp [hh] at h1
            exact congrArg some h1
          refine ⟨n, h1', ?_⟩
          simp only [List.take_succ_cons, List.sum_cons, fOf] at h2 ⊢
          omega
      · intro n h1 h2
        cases n with
        | zero =>
          cases hh : shortestPre (cw - (a.vw + p.weigh nd.key e.val))
            (rest.map (fun n => wOf s n.key)) <;> simp [hh] at h1
        | succ n =>
          have h1' : shortestPre (cw - (a.vw + p.weigh nd.key e.val))
              (rest.map (fun n => wOf s n.key)) = some n := by
            cases hh : shortestPre (cw - (a.vw + p.weigh nd.key e.val))
              (rest.map (fun n => wOf s n.key)) <;> simp [hh] at h1
            exact congrArg some h1
          simp only [List.take_succ_cons, List.sum_cons, fOf] at h2 ⊢
          obtain ⟨r1, r2, r3⟩ := ih2 n h1' (by omega)
          refine ⟨by rw [r1]; simp, by rw [r2]; omega, by rw [r3]; omega⟩
    · rw [if_neg hc]
      by_cases hge : cw ≤ a.vw
      · have h0 : cw - a.vw = 0 := by omega
        rw [h0]
        simp only [shortestPre_zero, Option.some.injEq]
        refine ⟨⟨fun ⟨_, h2⟩ => ⟨0, rfl, by simpa using h2⟩,
          fun ⟨n, hn, h2⟩ => ⟨hge, by subst hn; simpa using h2⟩⟩, ?_⟩
        intro n hn _; subst hn; simp
      · -- early exit: the aggregated popularity already exceeds the candidate's
        have hlt : cf < a.vf := by
          by_cases h : cf < a.vf
          · exact h
          · exact absurd ⟨by omega, h⟩ hc
        refine ⟨⟨fun ⟨h1, _⟩ => absurd h1 hge, fun ⟨n, _, h2⟩ => by omega⟩, ?_⟩
        intro n _ h2; omega

/-- **Closed formula of `admit`.** With `nodes` the probation list (LRU first), weights
`wOf s n.key` and popularities `fOf s n`: the candidate of weight `cw` and popularity `cf`
passes the final test iff the shortest prefix whose weight reaches `cw` exists and `cf`
exceeds its summed popularity; the victims are then that prefix (`cw = 0`: the empty
prefix, admitted iff `cf > 0`). -/
theorem admitLoop_closed {p : Params} {s : UState} {cw cf : Nat}
    (hw : ∀ k e, AL.get? s.map k = some e → e.weight = p.weigh k e.val)
    (nodes : List AoNode) (hall : ∀ n ∈ nodes, ∃ e, AL.get? s.map n.key = some e) :
    ((admitLoop p s cw cf nodes {}).vw ≥ cw ∧ cf > (admitLoop p s cw cf nodes {}).vf ↔
      ∃ n, shortestPre cw (nodes.map (fun n => wOf s n.key)) = some n ∧
        cf > ((nodes.map (fOf s)).take n).sum) ∧
    (∀ n, shortestPre cw (nodes.map (fun n => wOf s n.key)) = some n →
        cf > ((nodes.map (fOf s)).take n).sum →
        (admitLoop p s cw cf nodes {}).victims = nodes.take n ∧
        (admitLoop p s cw cf nodes {}).vw = ((nodes.map (fun n => wOf s n.key)).take n).sum ∧
        (admitLoop p s cw cf nodes {}).vf = ((nodes.map (fOf s)).take n).sum) := by
  have := admitLoop_closed_gen (cw := cw) (cf := cf) hw nodes {} hall
  simpa using this

/-! ### what removals do to the map (no invariant needed) -/

@[simp] theorem fail_map (s : UState) (f : Fault) : (s.fail f).map = s.map := by
  unfold UState.fail; split <;> rfl

@[simp] theorem fail_prob (s : UState) (f : Fault) : (s.fail f).prob = s.prob := by
  unfold UState.fail; split <;> rfl

@[simp] theorem unlinkAo_map (s : UState) (e : UEntry) : (unlinkAo s e).map = s.map := by
  unfold unlinkAo; split
  · rfl
  · split <;> simp

@[simp] theorem unlinkWo_map (s : UState) (e : UEntry) : (unlinkWo s e).map = s.map := by
  unfold unlinkWo; split
  · rfl
  · split <;> simp

@[simp] theorem takeOut_map (s : UState) (k : Nat) (e : UEntry) :
    (takeOut s k e).map = AL.erase s.map k := by
  simp [takeOut]

@[simp] theorem subEc_map (s : UState) (n : Nat) : (subEc s n).map = s.map := by
  unfold subEc; split <;> simp

@[simp] theorem subEc_prob (s : UState) (n : Nat) : (subEc s n).prob = s.prob := by
  unfold subEc; split <;> simp

/-- Erasing a list of keys one after the other. -/
def eraseKeys (m : List (Nat × UEntry)) (ks : List Nat) : List (Nat × UEntry) :=
  ks.foldl (fun m k => AL.erase m k) m

theorem get?_eraseKeys {m : List (Nat × UEntry)} (hn : (AL.keys m).Nodup) (ks : List Nat) (x : Nat) :
    AL.get? (eraseKeys m ks) x = if x ∈ ks then none else AL.get? m x := by
  induction ks generalizing m with
  | nil => simp [eraseKeys]
  | cons k ks ih =>
    have := ih (m := AL.erase m k) (AL.nodup_erase k hn)
    simp only [eraseKeys, List.foldl_cons] at this ⊢
    rw [this, AL.get?_erase k x hn]
    by_cases h1 : x ∈ ks
    · simp [h1]
    · by_cases h2 : k = x
      · subst h2; simp
      · have : ¬ x = k := fun e => h2 e.symm
        simp [h1, h2, this]

theorem eraseKeys_append (m : List (Nat × UEntry)) (a b : List Nat) :
    eraseKeys m (a ++ b) = eraseKeys (eraseKeys m a) b := by
  simp [eraseKeys, List.foldl_append]

/-- `removeVictims` erases the victims' keys from the map, whatever else happens. -/
theorem removeVictims_map (victims : List AoNode) :
    ∀ s : UState, (removeVictims victims s).map = eraseKeys s.map (victims.map (·.key)) := by
  induction victims with
  | nil => intro s; rfl
  | cons v rest ih =>
    intro s
    unfold removeVictims
    cases he : AL.get? s.map v.key with
    | none =>
      simp only
      rw [ih]
      simp [eraseKeys, AL.erase_of_get?_none he]
    | some e =>
      simp only
      rw [ih]
      simp [eraseKeys]

/-! ### key-level facts about the probation list -/

theorem nodup_map_of_inj {α β γ : Type} (f : α → β) (g : α → γ) :
    ∀ (l : List α), (l.map f).Nodup → (∀ a ∈ l, ∀ b ∈ l, g a = g b → f a = f b) →
      (l.map g).Nodup := by
  intro l
  induction l with
  | nil => intro _ _; simp
  | cons a l ih =>
    intro hn hinj
    simp only [List.map_cons, List.nodup_cons] at hn ⊢
    refine ⟨?_, ih hn.2 (fun x hx y hy => hinj x (List.mem_cons_of_mem _ hx) y (List.mem_cons_of_mem _ hy))⟩
    intro hm
    obtain ⟨b, hb, hgb⟩ := List.mem_map.mp hm
    have := hinj b (List.mem_cons_of_mem _ hb) a List.mem_cons_self hgb
    exact hn.1 (this ▸ List.mem_map.mpr ⟨b, hb, rfl⟩)

/-- Under the structural invariant, the nodes of the probation list carry distinct keys. -/
theorem prob_keys_nodup {p : Params} {pend : Option Nat} {s : UState} (hs : StructP p pend s) :
    (s.prob.map (·.key)).Nodup := by
  refine nodup_map_of_inj (·.id) (·.key) s.prob hs.probIds ?_
  intro a ha b hb hk
  obtain ⟨ea, h1, h2⟩ := hs.aoBack a ha
  obtain ⟨eb, h3, h4⟩ := hs.aoBack b hb
  have hk' : a.key = b.key := hk
  rw [hk', h3] at h1
  cases h1
  rw [h2] at h4
  exact Option.some.inj h4

/-- The keys of the probation list are exactly the keys of the map (for the non-pending keys). -/
theorem mem_prob_keys_iff {p : Params} {s : UState} (hs : Struct p s) (x : Nat) :
    x ∈ s.prob.map (·.key) ↔ ∃ e, AL.get? s.map x = some e := by
  constructor
  · intro h
    obtain ⟨n, hn, rfl⟩ := List.mem_map.mp h
    obtain ⟨e, he, _⟩ := hs.aoBack n hn
    exact ⟨e, he⟩
  · rintro ⟨e, he⟩
    obtain ⟨id, n, _, hf, hk⟩ := hs.aoLink x e he (by simp)
    exact List.mem_map.mpr ⟨n, (findAo_some hf).1, hk⟩

/-- Removing the node of key `n.key` from the list removes `n.key` from the key list. -/
theorem keys_eraseAo {l : List AoNode} {id : Nat} {n : AoNode} (hk : (l.map (·.key)).Nodup)
    (hf : findAo l id = some n) :
    (eraseAo l id).map (·.key) = (l.map (·.key)).erase n.key := by
  induction l with
  | nil => simp [findAo] at hf
  | cons a l ih =>
    simp only [List.map_cons, List.nodup_cons] at hk
    simp only [findAo] at hf
    simp only [eraseAo]
    by_cases ha : a.id = id
    · simp only [ha, if_true, Option.some.injEq] at hf
      subst hf
      simp [ha]
    · simp only [ha, if_false] at hf
      have hmem : n.key ∈ l.map (·.key) := List.mem_map.mpr ⟨n, (findAo_some hf).1, rfl⟩
      have hne : a.key ≠ n.key := fun e => hk.1 (e ▸ hmem)
      simp only [ha, if_false, List.map_cons]
      rw [ih hk.2 hf, List.erase_cons_tail (by simpa using hne)]

theorem keys_setTsAo (l : List AoNode) (id t : Nat) :
    (setTsAo l id t).map (·.key) = l.map (·.key) := by
  induction l with
  | nil => rfl
  | cons a l ih =>
    simp only [setTsAo]
    by_cases ha : a.id = id
    · simp [ha]
    · simp [ha, ih]

/-- A touch (optional re-timing, move to the back) on the key list: the key of the touched
node goes last, the relative order of the others is unchanged. -/
theorem keys_touchAo {s : UState} {id : Nat} {n : AoNode} (ts : Option Nat)
    (hk : (s.prob.map (·.key)).Nodup) (hf : findAo s.prob id = some n) :
    (touchAo s id ts).prob.map (·.key) = (s.prob.map (·.key)).erase n.key ++ [n.key] := by
  cases ts with
  | none =>
    simp only [touchAo]
    rw [moveToBackAo_eq hf, List.map_append, keys_eraseAo hk hf]
    simp
  | some t =>
    simp only [touchAo]
    have hf' : findAo (setTsAo s.prob id t) id = some { n with ts := some t } := by
      rw [findAo_setTsAo]; simp [hf]
    rw [moveToBackAo_eq hf', List.map_append,
      keys_eraseAo (by rw [keys_setTsAo]; exact hk) hf', keys_setTsAo]
    simp

/-! ### removal of a prefix of the probation list -/

/-- `removeVictims` on a prefix of the probation list leaves the rest of the list. -/
theorem removeVictims_prob {p : Params} {k : Nat} :
    ∀ (victims : List AoNode) (s : UState) (rest : List AoNode), StructP p (some k) s →
      s.prob = victims ++ rest → s.ec + 1 = s.map.length →
      (removeVictims victims s).prob = rest := by
  intro victims
  induction victims with
  | nil => intro s rest _ hp _; simpa [removeVictims] using hp
  | cons v vs ih =>
    intro s rest hs hp hc
    have hv : v ∈ s.prob := by rw [hp]; simp
    obtain ⟨e, he, heao⟩ := hs.aoBack v hv
    have hvk : v.key ≠ k := pending_no_node_ao hs hv
    have hpend : (some k : Option Nat) ≠ some v.key := fun h => hvk (Option.some.inj h).symm
    obtain ⟨hs', hto, id, n, hao, hfind, _, hprob⟩ := takeOut_spec hs he hpend
    obtain ⟨ep, hep, _⟩ := hs.pendIn k rfl
    have hlen := two_keys_length he hep hvk
    have hec : ¬ (takeOut s v.key e).ec < 1 := by rw [hto.env.ec]; omega
    have hsub : subEc (takeOut s v.key e) 1 =
        { takeOut s v.key e with ec := (takeOut s v.key e).ec - 1 } := by
      simp [subEc, hec]
    have hid : id = v.id := by rw [heao] at hao; exact (Option.some.inj hao).symm
    have hrv : removeVictims (v :: vs) s = removeVictims vs (subEc (takeOut s v.key e) 1) := by
      simp only [removeVictims, he]
    rw [hrv, hsub]
    refine ih _ rest (structP_congr hs' rfl rfl rfl rfl rfl) ?_ ?_
    · simp only
      rw [hprob, hid, hp]
      simp [eraseAo]
    · simp only
      rw [hto.env.ec, hto.map]
      have := AL.length_erase_of_get? he
      omega

/-! ### an insert that finds no room -/

/-- Weights of the residents in recency order (front = least recently used). -/
def probWeights (s : UState) : List Nat := s.prob.map (fun n => wOf s n.key)

/-- Popularity estimates of the residents in recency order. -/
def probFreqs (s : UState) : List Nat := s.prob.map (fOf s)

/-- The node pushed for a candidate `k` by an insert into `s1` (the state after maintenance). -/
def candNode (p : Params) (s1 : UState) (k : Nat) : AoNode :=
  { id := s1.nextId, key := k, hash := p.hash k, ts := opTs p s1 }

/-- The insert of a new key takes the `handle_insert` path. -/
theorem insert_new_eq {p : Params} {s : UState} {k v : Nat}
    (hnew : AL.get? (maintain p s).map k = none) :
    insert p s k v =
      handleInsert p { maintain p s with
          map := AL.put (maintain p s).map k { val := v, weight := p.weigh k v } }
        k (p.hash k) (p.weigh k v) (opTs p (maintain p s)) := by
  unfold insert
  dsimp only
  rw [hnew]

/-- An oversized candidate that finds no room is dropped; the state is the one left by the
maintenance. -/
theorem insert_toobig {p : Params} {s : UState} {k v : Nat}
    (hnew : AL.get? (maintain p s).map k = none)
    (hroom : hasEnoughCapacity p (p.weigh k v) (maintain p s).ws = false)
    (hbig : tooBig p (p.weigh k v) = true) :
    insert p s k v = maintain p s := by
  rw [insert_new_eq hnew]
  unfold handleInsert
  dsimp only
  rw [hroom, hbig]
  simp only [Bool.false_eq_true, if_false, if_true]
  exact state_restore hnew

/-- Exact effect of the insert of a new, not oversized key that finds no room, in terms of the
closed formula: admitted with the shortest sufficient LRU prefix as victims, or rejected
with the state untouched. -/
theorem insert_noroom {p : Params} (hq : NoQuirks p) {s : UState} (hi : InvU p s) (k v : Nat)
    (hnew : AL.get? (maintain p s).map k = none)
    (hroom : hasEnoughCapacity p (p.weigh k v) (maintain p s).ws = false)
    (hbig : tooBig p (p.weigh k v) = false) :
    (∀ n, shortestPre (p.weigh k v) (probWeights (maintain p s)) = some n →
      (maintain p s).sk.frequency (p.hash k) > ((probFreqs (maintain p s)).take n).sum →
      (∃ e, AL.get? (insert p s k v).map k = some e ∧ e.val = v ∧ e.weight = p.weigh k v) ∧
      (∀ k', k' ≠ k → AL.get? (insert p s k v).map k' =
        if k' ∈ ((maintain p s).prob.take n).map (·.key) then none
        else AL.get? (maintain p s).map k') ∧
      (insert p s k v).prob = (maintain p s).prob.drop n ++ [candNode p (maintain p s) k]) ∧
    ((¬ ∃ n, shortestPre (p.weigh k v) (probWeights (maintain p s)) = some n ∧
        (maintain p s).sk.frequency (p.hash k) > ((probFreqs (maintain p s)).take n).sum) →
      insert p s k v = maintain p s) := by
  obtain ⟨h1, _, _⟩ := maintain_spec hq hi
  rw [insert_new_eq hnew]
  generalize hs1 : maintain p s = s1 at *
  generalize hent : ({ val := v, weight := p.weigh k v } : UEntry) = entry
  have heao : entry.ao = none := by rw [← hent]
  have hewo : entry.wo = none := by rw [← hent]
  have hew : entry.weight = p.weigh k v := by rw [← hent]
  have hev : entry.val = v := by rw [← hent]
  have hsp := struct_put_pending (entry := entry) h1.struct hnew heao hewo
  have hlen := AL.length_put_of_none entry hnew
  have hwts2 : ∀ k' e', AL.get? (AL.put s1.map k entry) k' = some e' →
      e'.weight = p.weigh k' e'.val := by
    intro k' e2 h2
    rw [AL.get?_put] at h2
    by_cases hkk : k = k'
    · subst hkk; simp at h2; subst h2; rw [hew, hev]
    · simp [hkk] at h2; exact h1.counted.weights k' e2 h2
  have hall : ∀ n ∈ s1.prob, ∃ e, AL.get? (AL.put s1.map k entry) n.key = some e := by
    intro n hn
    obtain ⟨e2, h2, _⟩ := hsp.aoBack n hn
    exact ⟨e2, h2⟩
  -- the weights and popularities seen by the loop are those of the residents
  have hW : s1.prob.map (fun n => wOf { s1 with map := AL.put s1.map k entry } n.key) =
      probWeights s1 := by
    unfold probWeights
    apply List.map_congr_left
    intro n hn
    have hne : k ≠ n.key := fun e => pending_no_node_ao hsp hn e.symm
    simp only [wOf, AL.get?_put_ne entry hne]
  have hF : s1.prob.map (fOf { s1 with map := AL.put s1.map k entry }) = probFreqs s1 := rfl
  obtain ⟨hf, _⟩ := admitLoop_spec (p := p) (s := { s1 with map := AL.put s1.map k entry })
    (cw := p.weigh k v) (cf := s1.sk.frequency (p.hash k)) hwts2 s1.prob {} hall rfl
  obtain ⟨c1, c2⟩ := admitLoop_closed (p := p) (s := { s1 with map := AL.put s1.map k entry })
    (cw := p.weigh k v) (cf := s1.sk.frequency (p.hash k)) hwts2 s1.prob hall
  rw [hW, hF] at c1 c2
  unfold handleInsert
  dsimp only
  rw [hroom, hbig]
  simp only [Bool.false_eq_true, if_false]
  unfold admitOrReject
  dsimp only
  simp only [hf, Bool.false_eq_true, if_false]
  refine ⟨?_, ?_⟩
  · intro n hn1 hn2
    rw [if_pos (c1.mpr ⟨n, hn1, hn2⟩)]
    obtain ⟨hvic, _, _⟩ := c2 n hn1 hn2
    rw [hvic]
    have hin : ∀ v' ∈ s1.prob.take n,
        v' ∈ ({ s1 with map := AL.put s1.map k entry } : UState).prob :=
      fun v' hv' => List.mem_of_mem_take hv'
    have hnd : ((s1.prob.take n).map (·.id)).Nodup := by
      have := h1.struct.probIds
      rw [← List.take_append_drop n s1.prob, List.map_append] at this
      exact (List.nodup_append.mp this).1
    have hc : ({ s1 with map := AL.put s1.map k entry } : UState).ec + 1 =
        ({ s1 with map := AL.put s1.map k entry } : UState).map.length := by
      simp only; rw [hlen, h1.counted.ec]
    obtain ⟨r1, _, _, _, _, r6, _, r8⟩ := removeVictims_spec (s1.prob.take n) _ hsp hin hnd hc
    have rmap := removeVictims_map (s1.prob.take n) { s1 with map := AL.put s1.map k entry }
    have rprob := removeVictims_prob (s1.prob.take n) { s1 with map := AL.put s1.map k entry }
      (s1.prob.drop n) hsp (by simp) hc
    obtain ⟨entry', hk', e', hv', hw', hmap, _, _, _, _, _, _, hprob⟩ :=
      pushCandidate_spec (p.hash k) (opTs p s1) r1
    have hk3 : AL.get? (removeVictims (s1.prob.take n)
        { s1 with map := AL.put s1.map k entry }).map k = some entry := by
      rw [r8]; simp [AL.get?_put_self]
    rw [hk3] at hk'; cases hk'
    obtain ⟨m1, m2, _, _⟩ := maybeEnableSketch_frame p
      (let s4 := pushCandidate p (removeVictims (s1.prob.take n)
          { s1 with map := AL.put s1.map k entry }) k (p.hash k) (opTs p s1)
       let s5 := { s4 with ec := s4.ec + 1 }
       let s6 := { s5 with ws := s5.ws - ((probWeights s1).take n).sum }
       { s6 with ws := s6.ws + p.weigh k v })
    have hvw := (c2 n hn1 hn2).2.1
    rw [hvw]
    dsimp only at m1 m2
    rw [m1, m2, hmap, hprob, rprob, r6.nextId]
    refine ⟨⟨e', AL.get?_put_self _ _ _, by rw [hv', hev], by rw [hw', hew]⟩, ?_, rfl⟩
    intro k' hne
    rw [AL.get?_put_ne _ (Ne.symm hne), rmap, get?_eraseKeys hsp.keysNodup]
    simp only
    rw [AL.get?_put_ne _ (Ne.symm hne)]
  · intro hno
    rw [if_neg (fun h => hno (c1.mp h))]
    exact state_restore hnew

/-- An insert of a new key that fits: the candidate's node goes to the back of the recency
order and no resident is touched. -/
theorem insert_hasroom {p : Params} (hq : NoQuirks p) {s : UState} (hi : InvU p s) (k v : Nat)
    (hnew : AL.get? (maintain p s).map k = none)
    (hfit : hasEnoughCapacity p (p.weigh k v) (maintain p s).ws = true) :
    (∃ e, AL.get? (insert p s k v).map k = some e ∧ e.val = v ∧ e.weight = p.weigh k v) ∧
    (∀ k', k' ≠ k → AL.get? (insert p s k v).map k' = AL.get? (maintain p s).map k') ∧
    (insert p s k v).prob = (maintain p s).prob ++ [candNode p (maintain p s) k] := by
  obtain ⟨h1, _, _⟩ := maintain_spec hq hi
  rw [insert_new_eq hnew]
  generalize hs1 : maintain p s = s1 at *
  generalize hent : ({ val := v, weight := p.weigh k v } : UEntry) = entry
  have heao : entry.ao = none := by rw [← hent]
  have hewo : entry.wo = none := by rw [← hent]
  have hew : entry.weight = p.weigh k v := by rw [← hent]
  have hev : entry.val = v := by rw [← hent]
  have hsp := struct_put_pending (p := p) (entry := entry) h1.struct hnew heao hewo
  obtain ⟨entry', hk', e', hv', hw', hmap, _, _, _, _, _, _, hprob⟩ :=
    pushCandidate_spec (p.hash k) (opTs p s1) hsp
  simp only [AL.get?_put_self, Option.some.injEq] at hk'
  subst hk'
  unfold handleInsert
  dsimp only
  rw [if_pos hfit]
  obtain ⟨m1, m2, _, _⟩ := maybeEnableSketch_frame p
    (let s4 := pushCandidate p { s1 with map := AL.put s1.map k entry } k (p.hash k) (opTs p s1)
     { s4 with ec := s4.ec + 1, ws := s4.ws + p.weigh k v })
  dsimp only at m1 m2
  rw [m1, m2, hmap, hprob]
  refine ⟨⟨e', AL.get?_put_self _ _ _, by rw [hv', hev], by rw [hw', hew]⟩, ?_, rfl⟩
  intro k' hne
  rw [AL.get?_put_ne _ (Ne.symm hne), AL.get?_put_ne _ (Ne.symm hne)]

/-! ### the exact effect of `evict_lru_entries` -/

/-- The size-eviction loop removes the nodes at the front of the probation list one by one
while the evicted weight is below the target and the batch is not exhausted: `m` nodes,
`m = min fuel (shortest prefix covering the missing weight, or the whole list)`. -/
theorem evictLruLoop_exact {p : Params} (wt : Nat → Nat) (fuel : Nat) :
    ∀ (s : UState) (wte c w : Nat), Struct p s →
      (∀ k e, AL.get? s.map k = some e → e.weight = wt k) →
      (evictLruLoop fuel s wte c w).1.prob =
        s.prob.drop (min fuel (prefLen (wte - w) (s.prob.map (fun n => wt n.key)))) ∧
      (evictLruLoop fuel s wte c w).1.map =
        eraseKeys s.map ((s.prob.take
          (min fuel (prefLen (wte - w) (s.prob.map (fun n => wt n.key))))).map (·.key)) ∧
      (evictLruLoop fuel s wte c w).2.1 =
        c + min fuel (prefLen (wte - w) (s.prob.map (fun n => wt n.key))) ∧
      (evictLruLoop fuel s wte c w).2.2 =
        w + ((s.prob.take (min fuel (prefLen (wte - w) (s.prob.map (fun n => wt n.key))))).map
          (fun n => wt n.key)).sum := by
  induction fuel with
  | zero => intro s wte c w _ _; simp [evictLruLoop, eraseKeys]
  | succ fuel ih =>
    intro s wte c w hs hwt
    unfold evictLruLoop
    by_cases hw : w ≥ wte
    · have h0 : wte - w = 0 := by omega
      simp [hw, h0, eraseKeys]
    · simp only [hw, if_false]
      cases hp : s.prob with
      | nil => simp [prefLen_nil, eraseKeys, hp]
      | cons n rest =>
        simp only
        obtain ⟨e, he, heao⟩ := hs.aoBack n (by rw [hp]; exact List.mem_cons_self)
        simp only [he]
        obtain ⟨hs', hto, id, n', hao, _, _, hprob⟩ := takeOut_spec hs he (by simp)
        have hid : id = n.id := by rw [heao] at hao; exact (Option.some.inj hao).symm
        have hprob' : (takeOut s n.key e).prob = rest := by
          rw [hprob, hid, hp]; simp [eraseAo]
        have hwt' : ∀ k e', AL.get? (takeOut s n.key e).map k = some e' → e'.weight = wt k :=
          fun k e' h => hwt k e' (hto.shrinks.sub k e' h)
        obtain ⟨i1, i2, i3, i4⟩ := ih (takeOut s n.key e) wte (c + 1) (w + e.weight) hs' hwt'
        rw [hprob'] at i1 i2 i3 i4
        have hne : wte - w ≠ 0 := by omega
        have hew : e.weight = wt n.key := hwt n.key e he
        have hm : min (fuel + 1) (prefLen (wte - w) ((n :: rest).map (fun n => wt n.key))) =
            min fuel (prefLen (wte - (w + e.weight)) (rest.map (fun n => wt n.key))) + 1 := by
          simp only [List.map_cons]
          rw [prefLen_cons_pos hne, hew]
          have : wte - w - wt n.key = wte - (w + wt n.key) := by omega
          rw [this]; omega
        rw [hm, i1, i2, i3, i4]
        refine ⟨by simp, ?_, by omega, ?_⟩
        · simp [eraseKeys]
        · simp only [List.take_succ_cons, List.map_cons, List.sum_cons, hew]; omega

/-- Number of residents that one call of `evict_lru_entries` removes. -/
def lruCut (p : Params) (s : UState) : Nat :=
  min (prefLen (weightsToEvict p s) (probWeights s)) EVICTION_BATCH_SIZE

/-- `evict_lru_entries` on an invariant state removes exactly the first `lruCut p s` nodes of
the recency order and their entries. -/
theorem evictLru_exact {p : Params} {s : UState} (hi : InvU p s) :
    (evictLru p s).prob = s.prob.drop (lruCut p s) ∧
    (evictLru p s).map = eraseKeys s.map ((s.prob.take (lruCut p s)).map (·.key)) := by
  have hwt : ∀ k e, AL.get? s.map k = some e → e.weight = wOf s k := by
    intro k e h; simp [wOf, h]
  obtain ⟨h1, h2, _, _⟩ := evictLruLoop_exact (p := p) (wOf s) EVICTION_BATCH_SIZE s
    (weightsToEvict p s) 0 0 hi.struct hwt
  unfold evictLru lruCut probWeights
  generalize evictLruLoop EVICTION_BATCH_SIZE s (weightsToEvict p s) 0 0 = r at h1 h2 ⊢
  obtain ⟨s1, c, w⟩ := r
  simp only [Nat.sub_zero] at h1 h2
  rw [Nat.min_comm]
  exact ⟨by simpa using h1, by simpa using h2⟩

/-! ### recency order under hits and updates -/

@[simp] theorem sketchIncrement_map (p : Params) (s : UState) (h : UInt64) :
    (sketchIncrement p s h).map = s.map := by
  unfold sketchIncrement; split <;> simp

@[simp] theorem sketchIncrement_prob (p : Params) (s : UState) (h : UInt64) :
    (sketchIncrement p s h).prob = s.prob := by
  unfold sketchIncrement; split <;> simp

/-- A hit moves the key to the back of the recency order and keeps the relative order of
the other residents. -/
theorem get_hit_prob {p : Params} (hq : NoQuirks p) {s : UState} (hi : InvU p s) (k v : Nat)
    (hhit : (get p s k).2 = some v) :
    (get p s k).1.prob.map (·.key) = ((maintain p s).prob.map (·.key)).erase k ++ [k] := by
  obtain ⟨h1, _, _⟩ := maintain_spec hq hi
  unfold get at hhit ⊢
  dsimp only at hhit ⊢
  generalize maintain p s = s1 at *
  have hm2 := sketchIncrement_map p s1 (p.hash k)
  have hp2 := sketchIncrement_prob p s1 (p.hash k)
  generalize sketchIncrement p s1 (p.hash k) = s2 at *
  cases hg : AL.get? s2.map k with
  | none => simp [hg] at hhit
  | some e =>
    simp only [hg] at hhit ⊢
    obtain ⟨id, n, hao, hf, hnk⟩ := h1.struct.aoLink k e (hm2 ▸ hg) (by simp)
    have hf2 : findAo s2.prob id = some n := by rw [hp2]; exact hf
    have hkn : (s2.prob.map (·.key)).Nodup := by rw [hp2]; exact prob_keys_nodup h1.struct
    have key : ∀ ts, (recordHit s2 e ts).prob.map (·.key) =
        (s1.prob.map (·.key)).erase k ++ [k] := by
      intro ts
      rw [recordHit_eq ts hao hf2, keys_touchAo ts hkn hf2, hp2, hnk]
    cases hts : opTs p s1 with
    | none => simp only [hts] at hhit ⊢; exact key none
    | some t =>
      simp only [hts] at hhit ⊢
      split
      · rename_i hx; simp [hx] at hhit
      · exact key _

/-- An update of a resident key moves it to the back of the recency order and keeps the
relative order of the other residents. -/
theorem insert_update_prob {p : Params} (hq : NoQuirks p) {s : UState} (hi : InvU p s) (k v : Nat)
    {old : UEntry} (hold : AL.get? (maintain p s).map k = some old) :
    (insert p s k v).prob.map (·.key) = ((maintain p s).prob.map (·.key)).erase k ++ [k] := by
  obtain ⟨h1, _, _⟩ := maintain_spec hq hi
  unfold insert
  dsimp only
  rw [hold]
  dsimp only
  obtain ⟨id, n, _, hf, hnk, heq⟩ := handleUpdate_eq (entry := { val := v, weight := p.weigh k v })
    h1.struct hold (opTs p (maintain p s)) (p.weigh k v) (opTs_isSome p _)
  rw [heq]
  dsimp only
  have hkn := prob_keys_nodup h1.struct
  have key := keys_touchAo (s := { maintain p s with map := (AL.put (maintain p s).map k
      ({ val := v, weight := p.weigh k v, ao := old.ao, wo := old.wo } : UEntry)) })
    (opTs p (maintain p s)) hkn hf
  rw [hnk] at key
  cases old.wo with
  | none => exact key
  | some wid =>
    dsimp only
    split
    · exact key
    · split <;> exact key

/-! ### concrete instances for the non-vacuity examples of `Props/C13.lean`, `Props/C12.lean` -/

namespace Ex

/-- Capacity 2, unit weights. -/
def cfg2 : Params := { cap := some 2 }

/-- Two residents (1 is the least recently used), key 3 looked up twice, key 4 never seen. -/
def full2 : UState := runState cfg2 {} [.ins 1 10, .ins 2 20, .get 3, .get 3]

/-- Capacity 3, the weight of an entry is its value. -/
def cfgW : Params := { cap := some 3, hasWeigher := true, w := fun _ v => v }

/-- Residents 2 (weight 1, LRU), 3 (weight 1), 1 (weight 3 after an update): weighted size 5
exceeds the capacity 3 by 2. -/
def overW : UState := runState cfgW {} [.ins 1 1, .ins 2 1, .ins 3 1, .ins 1 3]

/-- Residents 1 (weight 2, LRU) and 2 (weight 1); key 5 looked up three times. -/
def fullW : UState := runState cfgW {} [.ins 1 2, .ins 2 1, .get 5, .get 5, .get 5]

theorem nq_cfg2 : NoQuirks cfg2 := by unfold NoQuirks; rfl

theorem nq_cfgW : NoQuirks cfgW := by unfold NoQuirks; rfl

theorem small_cfg2 : SmallSketch cfg2 :=
  ⟨fun c h => by cases h; decide, fun _ _ _ => by show Sketch.sketchCapacity 0 ≤ 2 ^ 27; decide⟩

theorem small_cfgW : SmallSketch cfgW :=
  ⟨fun c h => by cases h; decide, fun _ _ _ => by show Sketch.sketchCapacity 0 ≤ 2 ^ 27; decide⟩

end Ex

/-! ### the hash stored in a node is the hash of its key -/

/-- Every node of the probation list stores the hash of its key (as `insert` computed it). -/
def HashOk (p : Params) (s : UState) : Prop := ∀ n ∈ s.prob, n.hash = p.hash n.key

/-- Every node of `l'` agrees in key and hash with some node of `l`. -/
def ProbFrom (l l' : List AoNode) : Prop := ∀ n' ∈ l', ∃ n ∈ l, n'.key = n.key ∧ n'.hash = n.hash

theorem ProbFrom.refl (l : List AoNode) : ProbFrom l l := fun n hn => ⟨n, hn, rfl, rfl⟩

theorem ProbFrom.of_sub {l l' : List AoNode} (h : ∀ n ∈ l', n ∈ l) : ProbFrom l l' :=
  fun n hn => ⟨n, h n hn, rfl, rfl⟩

theorem ProbFrom.trans {a b c : List AoNode} (h1 : ProbFrom a b) (h2 : ProbFrom b c) :
    ProbFrom a c := by
  intro n hn
  obtain ⟨m, hm, e1, e2⟩ := h2 n hn
  obtain ⟨m', hm', e3, e4⟩ := h1 m hm
  exact ⟨m', hm', e1.trans e3, e2.trans e4⟩

theorem HashOk.of_probFrom {p : Params} {s s' : UState} (h : HashOk p s)
    (hf : ProbFrom s.prob s'.prob) : HashOk p s' := by
  intro n hn
  obtain ⟨m, hm, e1, e2⟩ := hf n hn
  rw [e2, e1]; exact h m hm

theorem probFrom_setTsAo (l : List AoNode) (id t : Nat) : ProbFrom l (setTsAo l id t) := by
  induction l with
  | nil => intro n hn; simp [setTsAo] at hn
  | cons a l ih =>
    intro n hn
    simp only [setTsAo] at hn
    by_cases ha : a.id = id
    · simp only [ha, if_true, List.mem_cons] at hn
      rcases hn with hn | hn
      · subst hn; exact ⟨a, List.mem_cons_self, rfl, rfl⟩
      · exact ⟨n, List.mem_cons_of_mem _ hn, rfl, rfl⟩
    · simp only [ha, if_false, List.mem_cons] at hn
      rcases hn with hn | hn
      · subst hn; exact ⟨n, List.mem_cons_self, rfl, rfl⟩
      · obtain ⟨m, hm, e⟩ := ih n hn
        exact ⟨m, List.mem_cons_of_mem _ hm, e⟩

theorem mem_moveToBackAo {l : List AoNode} {id : Nat} {n : AoNode} (h : n ∈ moveToBackAo l id) :
    n ∈ l := by
  unfold moveToBackAo at h
  cases hf : findAo l id with
  | none => simpa [hf] using h
  | some m =>
    simp only [hf, List.mem_append, List.mem_singleton] at h
    rcases h with h | h
    · exact mem_eraseAo h
    · subst h; exact (findAo_some hf).1

theorem probFrom_touchAo (s : UState) (id : Nat) (ts : Option Nat) :
    ProbFrom s.prob (touchAo s id ts).prob := by
  cases ts with
  | none => exact ProbFrom.of_sub (fun n hn => mem_moveToBackAo hn)
  | some t =>
    exact (probFrom_setTsAo s.prob id t).trans (ProbFrom.of_sub (fun n hn => mem_moveToBackAo hn))

theorem evictLru_probSub {p : Params} {s : UState} (hs : Struct p s) :
    ∀ n ∈ (evictLru p s).prob, n ∈ s.prob := by
  have hl := evictLruLoop_spec (p := p) EVICTION_BATCH_SIZE s (weightsToEvict p s) 0 0 hs
  unfold evictLru
  generalize evictLruLoop EVICTION_BATCH_SIZE s (weightsToEvict p s) 0 0 = r at hl
  obtain ⟨s1, c, w⟩ := r
  intro n hn
  simp only [subEc_prob] at hn
  exact hl.probSub n hn

theorem evictExpired_probSub {p : Params} (hq : NoQuirks p) {s : UState} (hi : InvU p s) :
    ∀ n ∈ (evictExpired p s).prob, n ∈ s.prob := by
  unfold evictExpired
  have h1 : ∃ s1, (if p.ttl.isSome = true then
        (let (s1, c, w) := removeExpiredWo p EVICTION_BATCH_SIZE s 0 0
         let s2 := subEc s1 c
         { s2 with ws := s2.ws - w })
      else s) = s1 ∧ InvU p s1 ∧ ∀ n ∈ s1.prob, n ∈ s.prob := by
    by_cases ht : p.ttl.isSome = true
    · simp only [ht, if_true]
      have hl := removeExpiredWo_spec hq EVICTION_BATCH_SIZE s 0 0 hi.struct
      generalize hr : removeExpiredWo p EVICTION_BATCH_SIZE s 0 0 = r at hl
      obtain ⟨s1, c, w⟩ := r
      have := settle hi hl
      refine ⟨_, rfl, this.1, ?_⟩
      intro n hn
      simp only [subEc_prob] at hn
      exact hl.probSub n hn
    · simp only [ht]
      exact ⟨s, rfl, hi, fun n hn => hn⟩
  obtain ⟨s1, he1, hi1, hsub1⟩ := h1
  simp only at he1
  rw [he1]
  by_cases ht : p.tti.isSome = true
  · simp only [ht, if_true]
    have hl := removeExpiredAo_spec (p := p) EVICTION_BATCH_SIZE s1 0 0 hi1.struct
    generalize hr : removeExpiredAo p EVICTION_BATCH_SIZE s1 0 0 = r at hl
    obtain ⟨s2, c, w⟩ := r
    intro n hn
    simp only [subEc_prob] at hn
    exact hsub1 n (hl.probSub n hn)
  · simp only [ht]
    exact hsub1

theorem maintain_probSub {p : Params} (hq : NoQuirks p) {s : UState} (hi : InvU p s) :
    ∀ n ∈ (maintain p s).prob, n ∈ s.prob := by
  unfold maintain evictExpiredIfNeeded
  by_cases hx : p.hasExpiry = true
  · simp only [hx, if_true]
    obtain ⟨h1, _, _⟩ := evictExpired_spec hq hi
    intro n hn
    exact evictExpired_probSub hq hi n (evictLru_probSub h1.struct n hn)
  · simp only [hx]
    exact evictLru_probSub hi.struct

theorem HashOk.maintain {p : Params} (hq : NoQuirks p) {s : UState} (hi : InvU p s)
    (hh : HashOk p s) : HashOk p (maintain p s) :=
  fun n hn => hh n (maintain_probSub hq hi n hn)


/-! ### provenance of the nodes of the probation list, operation by operation -/

@[simp] theorem unlinkWo_prob (s : UState) (e : UEntry) : (unlinkWo s e).prob = s.prob := by
  unfold unlinkWo; split
  · rfl
  · split <;> simp

theorem unlinkAo_probSub (s : UState) (e : UEntry) : ∀ n ∈ (unlinkAo s e).prob, n ∈ s.prob := by
  unfold unlinkAo
  split
  · exact fun n hn => hn
  · split
    · exact fun n hn => mem_eraseAo hn
    · simp

theorem takeOut_probSub (s : UState) (k : Nat) (e : UEntry) :
    ∀ n ∈ (takeOut s k e).prob, n ∈ s.prob := by
  intro n hn
  simp only [takeOut, unlinkWo_prob] at hn
  exact unlinkAo_probSub { s with map := AL.erase s.map k } e n hn

@[simp] theorem moveToBackWoE_prob (s : UState) (e : UEntry) :
    (moveToBackWoE s e).prob = s.prob := by
  unfold moveToBackWoE; split
  · simp
  · split <;> simp

theorem probFrom_moveToBackAoE (s : UState) (e : UEntry) :
    ProbFrom s.prob (moveToBackAoE s e).prob := by
  unfold moveToBackAoE
  split
  · exact ProbFrom.refl _
  · split
    · exact ProbFrom.of_sub (fun n hn => mem_moveToBackAo hn)
    · simp only [fail_prob]; exact ProbFrom.refl _

theorem probFrom_recordHit (s : UState) (e : UEntry) (ts : Option Nat) :
    ProbFrom s.prob (recordHit s e ts).prob := by
  unfold recordHit
  refine ProbFrom.trans ?_ (probFrom_moveToBackAoE _ e)
  split
  · exact probFrom_setTsAo _ _ _
  · exact ProbFrom.refl _

theorem get_probFrom (p : Params) (s : UState) (k : Nat) :
    ProbFrom (maintain p s).prob (get p s k).1.prob := by
  unfold get
  dsimp only
  have hp2 := sketchIncrement_prob p (maintain p s) (p.hash k)
  generalize sketchIncrement p (maintain p s) (p.hash k) = s2 at *
  rw [← hp2]
  split
  · exact ProbFrom.refl _
  · split
    · exact probFrom_recordHit _ _ _
    · split
      · exact ProbFrom.refl _
      · exact probFrom_recordHit _ _ _

theorem invalidate_probSub (p : Params) (s : UState) (k : Nat) :
    ∀ n ∈ (invalidate p s k).prob, n ∈ (maintain p s).prob := by
  unfold invalidate
  dsimp only
  split
  · exact fun n hn => hn
  · rename_i e _
    intro n hn
    have : n ∈ (takeOut (maintain p s) k e).prob := by
      dsimp only at hn
      split at hn <;> simpa using hn
    exact takeOut_probSub _ _ _ n this

theorem invalidateKeys_probSub (p : Params) (keys : List Nat) :
    ∀ (s : UState) (c w : Nat), ∀ n ∈ (invalidateKeys p keys s c w).1.prob, n ∈ s.prob := by
  induction keys with
  | nil => intro s c w n hn; simpa [invalidateKeys] using hn
  | cons k rest ih =>
    intro s c w n hn
    unfold invalidateKeys at hn
    split at hn
    · exact ih _ _ _ n hn
    · exact takeOut_probSub _ _ _ n (ih _ _ _ n hn)

theorem invalidateEntriesIf_probSub (p : Params) (s : UState) (pr : Pred) :
    ∀ n ∈ (invalidateEntriesIf p s pr).prob, n ∈ s.prob := by
  unfold invalidateEntriesIf
  dsimp only
  have := invalidateKeys_probSub p
    ((s.map.filter (fun kv => pr.eval kv.1 kv.2.val)).map (·.1)) s 0 0
  generalize invalidateKeys p _ s 0 0 = r at this ⊢
  obtain ⟨s1, c, w⟩ := r
  intro n hn
  apply this
  split at hn <;> simpa using hn

theorem probFrom_handleUpdate (p : Params) (s : UState) (k : Nat) (ts : Option Nat) (weight : Nat)
    (old : UEntry) : ProbFrom s.prob (handleUpdate p s k ts weight old).prob := by
  unfold handleUpdate
  split
  · simp only [fail_prob]; exact ProbFrom.refl _
  · dsimp only
    -- the state handed to `moveToBackAoE`
    have key : ∀ (s' : UState) (e : UEntry), ProbFrom s.prob s'.prob →
        ProbFrom s.prob
          ({ (let s2 := moveToBackAoE s' e
              let s3 := if p.ttl.isSome then moveToBackWoE s2 e else s2
              { s3 with ws := s3.ws - old.weight }) with
             ws := (let s2 := moveToBackAoE s' e
              let s3 := if p.ttl.isSome then moveToBackWoE s2 e else s2
              { s3 with ws := s3.ws - old.weight }).ws + weight } : UState).prob := by
      intro s' e h
      dsimp only
      have : (if p.ttl.isSome = true then moveToBackWoE (moveToBackAoE s' e) e
          else moveToBackAoE s' e).prob = (moveToBackAoE s' e).prob := by
        split <;> simp
      rw [this]
      exact h.trans (probFrom_moveToBackAoE s' e)
    apply key
    split
    · exact ProbFrom.refl _
    · have : ∀ (s' : UState) (e : UEntry) (t : Nat), ProbFrom s.prob s'.prob →
          ProbFrom s.prob (match e.wo with
            | some id => { s' with wo := setTsWo s'.wo id t }
            | none => s').prob := by
        intro s' e t h
        split <;> exact h
      apply this
      split
      · exact probFrom_setTsAo _ _ _
      · exact ProbFrom.refl _


theorem removeVictims_probSub (victims : List AoNode) :
    ∀ (s : UState), ∀ n ∈ (removeVictims victims s).prob, n ∈ s.prob := by
  induction victims with
  | nil => intro s n hn; simpa [removeVictims] using hn
  | cons v rest ih =>
    intro s n hn
    unfold removeVictims at hn
    split at hn
    · simpa using ih _ n hn
    · have := ih _ n hn
      simp only [subEc_prob] at this
      exact takeOut_probSub _ _ _ n this

theorem pushCandidate_prob_mem (p : Params) (s : UState) (k : Nat) (hash : UInt64) (ts : Option Nat) :
    ∀ n ∈ (pushCandidate p s k hash ts).prob, n ∈ s.prob ∨ (n.key = k ∧ n.hash = hash) := by
  intro n hn
  unfold pushCandidate at hn
  split at hn
  · left; simpa using hn
  · dsimp only at hn
    split at hn <;>
    · simp only [List.mem_append, List.mem_singleton] at hn
      rcases hn with hn | hn
      · exact Or.inl hn
      · subst hn; exact Or.inr ⟨rfl, rfl⟩

theorem handleInsert_prob_mem (p : Params) (s : UState) (k : Nat) (hash : UInt64) (w : Nat)
    (ts : Option Nat) :
    ∀ n ∈ (handleInsert p s k hash w ts).prob, n ∈ s.prob ∨ (n.key = k ∧ n.hash = hash) := by
  intro n hn
  unfold handleInsert at hn
  split at hn
  · rw [(maybeEnableSketch_frame p _).2.1] at hn
    exact pushCandidate_prob_mem p s k hash ts n hn
  · split at hn
    · exact Or.inl hn
    · unfold admitOrReject at hn
      dsimp only at hn
      split at hn
      · left; simpa using hn
      · split at hn
        · rw [(maybeEnableSketch_frame p _).2.1] at hn
          rcases pushCandidate_prob_mem p _ k hash ts n hn with h | h
          · exact Or.inl (removeVictims_probSub _ _ n h)
          · exact Or.inr h
        · exact Or.inl hn

theorem HashOk.insert {p : Params} (hq : NoQuirks p) {s : UState} (hi : InvU p s)
    (hh : HashOk p s) (k v : Nat) : HashOk p (insert p s k v) := by
  have h1 := hh.maintain hq hi
  unfold Unsync.insert
  dsimp only
  split
  · exact h1.of_probFrom (probFrom_handleUpdate p _ k _ _ _)
  · intro n hn
    rcases handleInsert_prob_mem p _ k (p.hash k) _ _ n hn with h | ⟨e1, e2⟩
    · exact h1 n h
    · rw [e2, e1]

/-- The state after a step from a state satisfying the invariant. -/
theorem step_state {P : Sketch → Prop} (L : SketchLaws P) {p : Params} (hq : NoQuirks p)
    (hsm : SmallSketch p) {s : UState} (hi : Inv P p s) (op : Op) :
    (step p s op).1 = match op with
      | .ins k v => insert p s k v
      | .get k => (get p s k).1
      | .has k => (containsKey p s k).1
      | .iter => s
      | .inv k => invalidate p s k
      | .invAll => invalidateAll p s
      | .invIf pr => invalidateEntriesIf p s pr
      | .sync => s
      | .adv d => { s with now := s.now + d }
      | .snap => s
      | .freq _ => s := by
  have hnf := hi.inv.struct.noFault
  have hnext := (step_inv L hq hsm hi op).inv.struct.noFault
  unfold step at hnext ⊢
  simp only [hnf, Option.isSome_none, Bool.false_eq_true, if_false] at hnext ⊢
  cases op <;> dsimp only at hnext ⊢ <;> (split at hnext <;> simp_all)

theorem containsKey_state (p : Params) (s : UState) (k : Nat) :
    (containsKey p s k).1 = maintain p s := by
  unfold containsKey
  dsimp only
  split
  · rfl
  · split <;> rfl

theorem step_hashOk {P : Sketch → Prop} (L : SketchLaws P) {p : Params} (hq : NoQuirks p)
    (hsm : SmallSketch p) {s : UState} (hi : Inv P p s) (hh : HashOk p s) (op : Op) :
    HashOk p (step p s op).1 := by
  rw [step_state L hq hsm hi op]
  have h1 := hh.maintain hq hi.inv
  cases op with
  | ins k v => exact hh.insert hq hi.inv k v
  | get k => exact h1.of_probFrom (get_probFrom p s k)
  | has k => dsimp only; rw [containsKey_state]; exact h1
  | iter => exact hh
  | inv k => exact fun n hn => h1 n (invalidate_probSub p s k n hn)
  | invAll => intro n hn; simp [invalidateAll] at hn
  | invIf pr => exact fun n hn => hh n (invalidateEntriesIf_probSub p s pr n hn)
  | sync => exact hh
  | adv d => exact hh
  | snap => exact hh
  | freq k => exact hh


open Spec

/-! ### snapshots versus states -/

theorem snapshot_entries_all {p : Params} {s : UState} (f : EntryView → Bool) :
    (snapshot p s).entries.all f = true ↔ ∀ k e, (k, e) ∈ s.map → f (entryView s (k, e)) = true := by
  simp only [snapshot, List.all_eq_true, mem_sortBy, List.mem_map]
  constructor
  · intro h k e hm; exact h _ ⟨(k, e), hm, rfl⟩
  · rintro h x ⟨⟨k, e⟩, hm, rfl⟩; exact h k e hm

/-- A settled state: nothing is expired at the state's clock reading and the weighted size is
within the capacity. Maintenance does nothing to it. -/
theorem removeExpiredWo_noop {p : Params} {s : UState} (hs : Struct p s)
    (hlive : ∀ k e, AL.get? s.map k = some e → expiredAt p.ttl (entryLm s e) s.now = false)
    (fuel c w : Nat) : removeExpiredWo p fuel s c w = (s, c, w) := by
  cases fuel with
  | zero => rfl
  | succ fuel =>
    unfold removeExpiredWo
    cases hp : s.wo with
    | nil => rfl
    | cons n rest =>
      dsimp only
      have hn : n ∈ s.wo := by rw [hp]; exact List.mem_cons_self
      obtain ⟨e, he, hwo⟩ := hs.woBack n hn
      have := hlive n.key e he
      simp only [entryLm, hwo, findWo_of_mem hs.woIds hn, Option.bind_some] at this
      rw [this]; rfl

theorem removeExpiredAo_noop {p : Params} {s : UState} (hs : Struct p s)
    (hlive : ∀ k e, AL.get? s.map k = some e → expiredAt p.tti (entryLa s e) s.now = false)
    (fuel c w : Nat) : removeExpiredAo p fuel s c w = (s, c, w) := by
  cases fuel with
  | zero => rfl
  | succ fuel =>
    unfold removeExpiredAo
    cases hp : s.prob with
    | nil => rfl
    | cons n rest =>
      dsimp only
      have hn : n ∈ s.prob := by rw [hp]; exact List.mem_cons_self
      obtain ⟨e, he, hao⟩ := hs.aoBack n hn
      have := hlive n.key e he
      simp only [entryLa, hao, findAo_of_mem hs.probIds hn, Option.bind_some] at this
      rw [this]; rfl

theorem subEc_zero (s : UState) : subEc s 0 = s := by
  simp [subEc]

theorem evictExpired_noop {p : Params} {s : UState} (hs : Struct p s)
    (hlive : ∀ k e, AL.get? s.map k = some e → isExpiredEntry p s e s.now = false) :
    evictExpired p s = s := by
  have h1 : ∀ k e, AL.get? s.map k = some e → expiredAt p.ttl (entryLm s e) s.now = false :=
    fun k e h => by have := hlive k e h; simp only [isExpiredEntry, Bool.or_eq_false_iff] at this; exact this.1
  have h2 : ∀ k e, AL.get? s.map k = some e → expiredAt p.tti (entryLa s e) s.now = false :=
    fun k e h => by have := hlive k e h; simp only [isExpiredEntry, Bool.or_eq_false_iff] at this; exact this.2
  unfold evictExpired
  have e1 : (if p.ttl.isSome = true then
        (let (s1, c, w) := removeExpiredWo p EVICTION_BATCH_SIZE s 0 0
         let s2 := subEc s1 c
         { s2 with ws := s2.ws - w })
      else s) = s := by
    split
    · rw [removeExpiredWo_noop hs h1]; simp [subEc_zero]
    · rfl
  simp only at e1
  rw [e1]
  dsimp only
  split
  · rw [removeExpiredAo_noop hs h2]; simp [subEc_zero]
  · rfl

theorem evictLru_noop {p : Params} {s : UState} (h : weightsToEvict p s = 0) :
    evictLru p s = s := by
  unfold evictLru
  have : evictLruLoop EVICTION_BATCH_SIZE s 0 0 0 = (s, 0, 0) := by
    unfold EVICTION_BATCH_SIZE
    cases hb : Gen.UNSYNC_EVICTION_BATCH_SIZE with
    | zero => rfl
    | succ n => simp [evictLruLoop]
  rw [h, this]
  simp [subEc_zero]

theorem maintain_noop {p : Params} {s : UState} (hs : Struct p s)
    (hlive : ∀ k e, AL.get? s.map k = some e → isExpiredEntry p s e s.now = false)
    (hfit : weightsToEvict p s = 0) : maintain p s = s := by
  unfold maintain evictExpiredIfNeeded
  split
  · rw [evictExpired_noop hs hlive, evictLru_noop hfit]
  · exact evictLru_noop hfit

/-- `calm` on the snapshot of a state means maintenance leaves the state alone. -/
theorem maintain_of_calm {p : Params} {s : UState} (hs : Struct p s) {cap : Nat}
    (hcap : p.cap = some cap) (hcalm : calm cap p.ttl p.tti (snapshot p s) = true) :
    maintain p s = s := by
  simp only [calm, Bool.and_eq_true, decide_eq_true_eq] at hcalm
  obtain ⟨⟨⟨hws, hlive⟩, _⟩, _⟩ := hcalm
  rw [snapshot_entries_all] at hlive
  apply maintain_noop hs
  · intro k e he
    have := hlive k e (AL.mem_of_get? he)
    simp only [entryLiveAt, entryView, snapshot, Bool.and_eq_true, Bool.not_eq_true'] at this
    simp only [isExpiredEntry, Bool.or_eq_false_iff]
    exact ⟨this.1.1, this.1.2⟩
  · have : (snapshot p s).ws = s.ws := rfl
    rw [this] at hws
    simp [weightsToEvict, hcap]; omega


/-! ### what the snapshot shows of a state (weights, estimates, recency order, keys) -/

theorem find?_key_of_nodup {α : Type} (key : α → Nat) :
    ∀ (l : List α), (l.map key).Nodup → ∀ {a : α}, a ∈ l →
      l.find? (fun x => key x == key a) = some a := by
  intro l
  induction l with
  | nil => intro _ a ha; simp at ha
  | cons b l ih =>
    intro hn a ha
    simp only [List.map_cons, List.nodup_cons] at hn
    rcases List.mem_cons.mp ha with h | h
    · subst h; simp
    · have hne : key b ≠ key a := fun e => hn.1 (e ▸ List.mem_map.mpr ⟨a, h, rfl⟩)
      rw [List.find?_cons_of_neg (by simpa using hne)]
      exact ih hn.2 h

/-- Looking a key up in a sorted list of per-entry records. -/
theorem find?_sortBy_map {α : Type} (key : α → Nat) (g : Nat × UEntry → α)
    (hg : ∀ kv, key (g kv) = kv.1) (m : List (Nat × UEntry)) (hn : (AL.keys m).Nodup) (k : Nat) :
    (sortBy key (m.map g)).find? (fun x => key x == k) =
      (AL.get? m k).map (fun e => g (k, e)) := by
  have hperm := sortBy_perm key (m.map g)
  have hkeys : ((sortBy key (m.map g)).map key).Nodup := by
    refine ((hperm.map key).nodup_iff).mpr ?_
    have : (m.map g).map key = AL.keys m := by
      rw [AL.keys_eq_map, List.map_map]
      exact List.map_congr_left (fun kv _ => hg kv)
    rw [this]; exact hn
  cases hget : AL.get? m k with
  | none =>
    simp only [Option.map_none]
    rw [List.find?_eq_none]
    intro x hx
    rw [mem_sortBy, List.mem_map] at hx
    obtain ⟨kv, hkv, rfl⟩ := hx
    rw [hg]
    intro hk
    have hk' : kv.1 = k := by simpa using hk
    have : k ∈ AL.keys m := by
      rw [AL.keys_eq_map]; exact List.mem_map.mpr ⟨kv, hkv, hk'⟩
    rw [← AL.get?_isSome_iff, hget] at this
    cases this
  | some e =>
    simp only [Option.map_some]
    have hmem : g (k, e) ∈ sortBy key (m.map g) := by
      rw [mem_sortBy]; exact List.mem_map.mpr ⟨(k, e), AL.mem_of_get? hget, rfl⟩
    have := find?_key_of_nodup key _ hkeys hmem
    rw [hg] at this
    exact this

theorem weightOfKey_snapshot {p : Params} {s : UState} (hs : Struct p s) (k : Nat) :
    weightOfKey (snapshot p s) k = wOf s k := by
  unfold weightOfKey wOf
  have := find?_sortBy_map (·.key) (entryView s) (fun _ => rfl) s.map hs.keysNodup k
  simp only [snapshot]
  rw [this]
  cases AL.get? s.map k <;> simp [entryView]

theorem freqOfKey_snapshot {p : Params} {s : UState} (hs : Struct p s) (k : Nat) :
    freqOfKey (snapshot p s) k =
      match AL.get? s.map k with
      | some _ => s.sk.frequency (p.hash k)
      | none => 0 := by
  unfold freqOfKey
  have := find?_sortBy_map (α := Nat × Nat) (·.1)
    (fun kv => (kv.1, s.sk.frequency (p.hash kv.1))) (fun _ => rfl) s.map hs.keysNodup k
  simp only [snapshot]
  rw [this]
  cases AL.get? s.map k <;> simp

theorem lruOrder_snapshot (p : Params) (s : UState) :
    lruOrder (snapshot p s) = s.prob.map (·.key) := by
  simp [lruOrder, snapshot, List.map_map, Function.comp_def]

theorem mem_keysOf_snapshot (p : Params) (s : UState) (k : Nat) :
    k ∈ keysOf (snapshot p s) ↔ ∃ e, AL.get? s.map k = some e := by
  simp only [keysOf, snapshot, List.mem_map, mem_sortBy]
  constructor
  · rintro ⟨ev, ⟨kv, hkv, rfl⟩, rfl⟩
    have : kv.1 ∈ AL.keys s.map := by
      rw [AL.keys_eq_map]; exact List.mem_map.mpr ⟨kv, hkv, rfl⟩
    rw [← AL.get?_isSome_iff] at this
    cases h : AL.get? s.map kv.1 with
    | none => rw [h] at this; cases this
    | some e => exact ⟨e, by simpa [entryView] using h⟩
  · rintro ⟨e, he⟩
    exact ⟨entryView s (k, e), ⟨(k, e), AL.mem_of_get? he, rfl⟩, rfl⟩

/-- The oracle's prefix search is `shortestPre` on the weights of the listed keys. -/
theorem shortestPrefix_eq (sn : Snap) (need : Nat) :
    ∀ (rest : List Nat) (got : Nat) (acc : List Nat),
      shortestPrefix sn need rest got acc =
        (shortestPre (need - got) (rest.map (weightOfKey sn))).map (fun n => acc ++ rest.take n) := by
  intro rest
  induction rest with
  | nil =>
    intro got acc
    unfold shortestPrefix
    by_cases h : got ≥ need
    · have h0 : need - got = 0 := by omega
      simp [h, h0]
    · have h0 : need - got ≠ 0 := by omega
      simp [h, shortestPre_nil_pos h0]
  | cons k rest ih =>
    intro got acc
    unfold shortestPrefix
    by_cases h : got ≥ need
    · have h0 : need - got = 0 := by omega
      simp [h, h0]
    · have h0 : need - got ≠ 0 := by omega
      simp only [h, if_false, List.map_cons]
      rw [ih, shortestPre_cons_pos h0]
      have : need - got - weightOfKey sn k = need - (got + weightOfKey sn k) := by omega
      rw [this, Option.map_map]
      congr 1
      funext n
      simp

/-- The oracle's prediction, read off the state. -/
theorem predictAdmission_snapshot {p : Params} {s : UState} (hs : Struct p s) (hh : HashOk p s)
    (w f : Nat) :
    predictAdmission (snapshot p s) w f =
      match shortestPre w (probWeights s) with
      | none => none
      | some n =>
        if f > ((probFreqs s).take n).sum then some ((s.prob.take n).map (·.key)) else none := by
  unfold predictAdmission
  rw [shortestPrefix_eq, lruOrder_snapshot]
  have hW : (s.prob.map (·.key)).map (weightOfKey (snapshot p s)) = probWeights s := by
    rw [List.map_map]
    exact List.map_congr_left (fun n _ => weightOfKey_snapshot hs n.key)
  have hF : (s.prob.map (·.key)).map (freqOfKey (snapshot p s)) = probFreqs s := by
    rw [List.map_map]
    apply List.map_congr_left
    intro n hn
    obtain ⟨e, he, _⟩ := hs.aoBack n hn
    simp only [Function.comp, freqOfKey_snapshot hs, he, fOf, hh n hn]
  rw [hW, Nat.sub_zero]
  cases shortestPre w (probWeights s) with
  | none => rfl
  | some n =>
    simp only [Option.map_some, List.nil_append]
    rw [← hF, List.map_take, List.map_take]


/-! ### the C13 trace oracle on model traces -/

theorem sameKeys_iff (a b : List Nat) : sameKeys a b = true ↔ ∀ x, x ∈ a ↔ x ∈ b := by
  simp only [sameKeys, Bool.and_eq_true, List.all_eq_true, List.contains_iff_mem]
  constructor
  · rintro ⟨h1, h2⟩ x; exact ⟨h1 x, h2 x⟩
  · intro h; exact ⟨fun x hx => (h x).mp hx, fun x hx => (h x).mpr hx⟩

/-- The check the C13 oracle performs around an insert holds for the model: the snapshot
after `insert p s k v` is what the closed formula predicts from the snapshot of `s` and the
estimate of `k` read in `s`. -/
theorem admissionOk_model {p : Params} (hq : NoQuirks p) {s : UState} (hi : InvU p s)
    (hh : HashOk p s) {cap : Nat} (hcap : p.cap = some cap) (k v : Nat) :
    admissionOk cap p.ttl p.tti p.weigh (snapshot p s) k v (s.sk.frequency (p.hash k))
      (snapshot p (insert p s k v)) = true := by
  unfold admissionOk
  dsimp only
  cases happ : (!(keysOf (snapshot p s)).contains k && calm cap p.ttl p.tti (snapshot p s) &&
      decide (p.weigh k v ≤ cap) && decide ((snapshot p s).ws + p.weigh k v > cap)) with
  | false => rfl
  | true =>
  simp only [Bool.not_true, Bool.false_or]
  simp only [Bool.and_eq_true, Bool.not_eq_true', decide_eq_true_eq] at happ
  obtain ⟨⟨⟨hfresh, hcalm⟩, hle⟩, hgt⟩ := happ
  have hnew : AL.get? s.map k = none := by
    cases hg : AL.get? s.map k with
    | none => rfl
    | some e =>
      have : k ∈ keysOf (snapshot p s) := (mem_keysOf_snapshot p s k).mpr ⟨e, hg⟩
      rw [← List.contains_iff_mem, hfresh] at this; cases this
  have hm : maintain p s = s := maintain_of_calm hi.struct hcap hcalm
  have hroom : hasEnoughCapacity p (p.weigh k v) s.ws = false := by
    have : (snapshot p s).ws = s.ws := rfl
    rw [this] at hgt
    simp [hasEnoughCapacity, hcap]; omega
  have hbig : tooBig p (p.weigh k v) = false := by
    simp [tooBig, hcap]; omega
  have hins := insert_noroom hq hi k v (by rw [hm]; exact hnew) (by rw [hm]; exact hroom) hbig
  rw [hm] at hins
  obtain ⟨hadm, hrej⟩ := hins
  rw [predictAdmission_snapshot hi.struct hh]
  have hrejected : (¬ ∃ n, shortestPre (p.weigh k v) (probWeights s) = some n ∧
      s.sk.frequency (p.hash k) > ((probFreqs s).take n).sum) →
      sameKeys (keysOf (snapshot p (insert p s k v))) (keysOf (snapshot p s)) = true := by
    intro hno
    rw [hrej hno, sameKeys_iff]
    exact fun _ => Iff.rfl
  cases hsp : shortestPre (p.weigh k v) (probWeights s) with
  | none =>
    dsimp only
    apply hrejected
    rintro ⟨n, h1, _⟩
    rw [hsp] at h1; cases h1
  | some n =>
    dsimp only
    by_cases hf : s.sk.frequency (p.hash k) > ((probFreqs s).take n).sum
    · rw [if_pos hf]
      dsimp only
      obtain ⟨⟨e, he, _⟩, hmap, _⟩ := hadm n hsp hf
      rw [sameKeys_iff]
      intro x
      rw [mem_keysOf_snapshot]
      simp only [List.mem_cons, List.mem_filter, Bool.not_eq_true', mem_keysOf_snapshot]
      by_cases hx : x = k
      · subst hx
        exact ⟨fun _ => Or.inl rfl, fun _ => ⟨e, he⟩⟩
      · rw [hmap x hx]
        by_cases hin : x ∈ (s.prob.take n).map (·.key)
        · rw [if_pos hin]
          constructor
          · rintro ⟨e', he'⟩; cases he'
          · rintro (h | ⟨_, h⟩)
            · exact absurd h hx
            · rw [← List.contains_iff_mem] at hin
              rw [hin] at h; cases h
        · rw [if_neg hin]
          constructor
          · intro h
            refine Or.inr ⟨h, ?_⟩
            cases hc : ((s.prob.take n).map (·.key)).contains x with
            | false => rfl
            | true => exact absurd (List.contains_iff_mem.mp hc) hin
          · rintro (h | ⟨h, _⟩)
            · exact absurd h hx
            · exact h
    · rw [if_neg hf]
      dsimp only
      apply hrejected
      rintro ⟨n', h1, h2⟩
      rw [hsp] at h1; cases h1
      exact hf h2


theorem run_cons (p : Params) (s : UState) (op : Op) (rest : List Op) :
    run p s (op :: rest) = (op, (step p s op).2) :: run p (step p s op).1 rest := by
  simp [run]

theorem run_eq_cons {p : Params} {s : UState} {h : List Op} {x : Op × Obs} {t : List (Op × Obs)}
    (e : run p s h = x :: t) :
    ∃ op rest, h = op :: rest ∧ x = (op, (step p s op).2) ∧ t = run p (step p s op).1 rest := by
  cases h with
  | nil => simp [run] at e
  | cons op rest =>
    rw [run_cons] at e
    obtain ⟨e1, e2⟩ := List.cons.inj e
    exact ⟨op, rest, rfl, e1.symm, e2.symm⟩

theorem step_snap {P : Sketch → Prop} (L : SketchLaws P) {p : Params} (hq : NoQuirks p)
    (hsm : SmallSketch p) {s : UState} (hi : Inv P p s) :
    step p s .snap = (s, .snap (snapshot p s)) :=
  Prod.ext (step_state L hq hsm hi .snap) (step_obs L hq hsm hi .snap)

theorem step_freq {P : Sketch → Prop} (L : SketchLaws P) {p : Params} (hq : NoQuirks p)
    (hsm : SmallSketch p) {s : UState} (hi : Inv P p s) (k : Nat) :
    step p s (.freq k) = (s, .freq (s.sk.frequency (p.hash k))) :=
  Prod.ext (step_state L hq hsm hi (.freq k)) (step_obs L hq hsm hi (.freq k))

theorem step_ins {P : Sketch → Prop} (L : SketchLaws P) {p : Params} (hq : NoQuirks p)
    (hsm : SmallSketch p) {s : UState} (hi : Inv P p s) (k v : Nat) :
    step p s (.ins k v) = (insert p s k v, .ok) :=
  Prod.ext (step_state L hq hsm hi (.ins k v)) (step_obs L hq hsm hi (.ins k v))

/-- The C13 walk over a model trace: every `snap, freq k, ins k v, snap` window passes. -/
theorem admitC13_run {P : Sketch → Prop} (L : SketchLaws P) {p : Params} (hq : NoQuirks p)
    (hsm : SmallSketch p) {cap : Nat} (hcap : p.cap = some cap) :
    ∀ (n : Nat) (h : List Op), h.length ≤ n → ∀ (s : UState), Inv P p s → HashOk p s →
      admitC13 cap p.ttl p.tti p.weigh (run p s h) = true := by
  intro n
  induction n with
  | zero =>
    intro h hl s _ _
    have : h = [] := List.length_eq_zero_iff.mp (Nat.le_zero.mp hl)
    subst this
    simp [run, admitC13]
  | succ n ih =>
    intro h hl s hi hh
    cases h with
    | nil => simp [run, admitC13]
    | cons op rest =>
      have hlr : rest.length ≤ n := by simpa using hl
      rw [run_cons]
      unfold admitC13
      split
      · rename_i before k f k' v after rest' heq
        obtain ⟨e1, e2⟩ := List.cons.inj heq
        have hop : op = .snap := (Prod.mk.inj e1).1
        subst hop
        rw [step_snap L hq hsm hi] at e1 e2
        have hbefore : before = snapshot p s := by
          have := (Prod.mk.inj e1).2; exact (Obs.snap.inj this).symm
        obtain ⟨op2, r2, hr2, hx2, ht2⟩ := run_eq_cons e2
        have hop2 : op2 = .freq k := (Prod.mk.inj hx2).1.symm
        subst hop2
        rw [step_freq L hq hsm hi] at hx2 ht2
        have hf : f = s.sk.frequency (p.hash k) := by
          have := (Prod.mk.inj hx2).2; exact Obs.freq.inj this
        obtain ⟨op3, r3, hr3, hx3, ht3⟩ := run_eq_cons ht2.symm
        have hop3 : op3 = .ins k' v := (Prod.mk.inj hx3).1.symm
        subst hop3
        rw [step_ins L hq hsm hi] at hx3 ht3
        have hi3 : Inv P p (insert p s k' v) := by
          have := step_inv L hq hsm hi (.ins k' v)
          rwa [step_ins L hq hsm hi] at this
        have hh3 : HashOk p (insert p s k' v) := hh.insert hq hi.inv k' v
        obtain ⟨op4, r4, hr4, hx4, ht4⟩ := run_eq_cons ht3.symm
        have hop4 : op4 = .snap := (Prod.mk.inj hx4).1.symm
        subst hop4
        rw [step_snap L hq hsm hi3] at hx4 ht4
        have hafter : after = snapshot p (insert p s k' v) := by
          have := (Prod.mk.inj hx4).2; exact Obs.snap.inj this
        subst hr2 hr3 hr4
        rw [Bool.and_eq_true]
        refine ⟨?_, ?_⟩
        · by_cases hk : k = k'
          · subst hk
            rw [hbefore, hf, hafter, admissionOk_model hq hi.inv hh hcap]
            simp
          · simp [hk]
        · have : (Op.snap, Obs.snap after) :: rest' = run p (insert p s k' v) (.snap :: r4) := by
            rw [run_cons, step_snap L hq hsm hi3, hafter, ht4]
          rw [this]
          refine ih _ ?_ _ hi3 hh3
          simp only [List.length_cons] at hlr ⊢
          omega
      · rename_i x t heq
        obtain ⟨_, e2⟩ := List.cons.inj heq
        rw [← e2]
        exact ih rest hlr _ (step_inv L hq hsm hi op) (step_hashOk L hq hsm hi hh op)
      · rfl

/-- **C13 on traces** (single-threaded cache): the oracle accepts every trace of the model. -/
theorem oracleC13_trace {P : Sketch → Prop} (L : SketchLaws P) {p : Params} (hq : NoQuirks p)
    (hsm : SmallSketch p) (h : List Op) :
    oracleC13 .unsync p.cap p.ttl p.tti p.weigh (trace p h) = true := by
  unfold oracleC13 trace
  cases hcap : p.cap with
  | none => rfl
  | some cap =>
    dsimp only
    exact admitC13_run L hq hsm hcap h.length h (Nat.le_refl _) {} (init_inv L p)
      (fun n hn => by simp at hn)


/-! ### the C12 trace oracle (growth eviction) on model traces -/

theorem length_le_of_nodup_subset : ∀ (l m : List Nat), l.Nodup → (∀ x ∈ l, x ∈ m) →
    l.length ≤ m.length := by
  intro l
  induction l with
  | nil => intro m _ _; simp
  | cons a l ih =>
    intro m hn hsub
    simp only [List.nodup_cons] at hn
    have ha : a ∈ m := hsub a List.mem_cons_self
    have := ih (m.erase a) hn.2 (by
      intro x hx
      have hne : x ≠ a := fun e => hn.1 (e ▸ hx)
      exact (List.mem_erase_of_ne hne).mpr (hsub x (List.mem_cons_of_mem _ hx)))
    rw [List.length_erase_of_mem ha] at this
    have hpos : 0 < m.length := List.length_pos_of_mem ha
    simp only [List.length_cons]; omega

theorem prob_length_le_map {p : Params} {s : UState} (hs : Struct p s) :
    s.prob.length ≤ s.map.length := by
  have h1 := length_le_of_nodup_subset (s.prob.map (·.key)) (AL.keys s.map) (prob_keys_nodup hs)
    (by
      intro x hx
      obtain ⟨e, he⟩ := (mem_prob_keys_iff hs x).mp hx
      exact AL.mem_keys_of_get? he)
  rw [List.length_map, AL.keys_eq_map, List.length_map] at h1
  exact h1

@[simp] theorem moveToBackAoE_map (s : UState) (e : UEntry) : (moveToBackAoE s e).map = s.map := by
  unfold moveToBackAoE; split
  · rfl
  · split <;> simp

@[simp] theorem moveToBackAoE_now (s : UState) (e : UEntry) : (moveToBackAoE s e).now = s.now := by
  unfold moveToBackAoE; split
  · rfl
  · split
    · rfl
    · unfold UState.fail; split <;> rfl

@[simp] theorem recordHit_map (s : UState) (e : UEntry) (ts : Option Nat) :
    (recordHit s e ts).map = s.map := by
  unfold recordHit
  simp only [moveToBackAoE_map]
  split <;> rfl

@[simp] theorem recordHit_now (s : UState) (e : UEntry) (ts : Option Nat) :
    (recordHit s e ts).now = s.now := by
  unfold recordHit
  simp only [moveToBackAoE_now]
  split <;> rfl

theorem sketchIncrement_now (p : Params) (s : UState) (h : UInt64) :
    (sketchIncrement p s h).now = s.now := by
  unfold sketchIncrement; split
  · rfl
  · unfold UState.fail; split <;> rfl

/-- A lookup changes the map and the clock only through its maintenance. -/
theorem get_map_now (p : Params) (s : UState) (k : Nat) :
    (get p s k).1.map = (maintain p s).map ∧ (get p s k).1.now = (maintain p s).now := by
  unfold get
  dsimp only
  have h1 := sketchIncrement_map p (maintain p s) (p.hash k)
  have h2 := sketchIncrement_now p (maintain p s) (p.hash k)
  generalize sketchIncrement p (maintain p s) (p.hash k) = s2 at *
  rw [← h1, ← h2]
  split
  · exact ⟨rfl, rfl⟩
  · split
    · simp
    · split
      · exact ⟨rfl, rfl⟩
      · simp

/-- The check the C12 oracle performs around a lookup on a cache that is over capacity. -/
theorem growthCheck_model {p : Params} (hq : NoQuirks p) {s : UState} (hi : InvU p s)
    {cap : Nat} (hcap : p.cap = some cap) (s' : UState) (b : Bool)
    (hb : b = true → s'.map = (maintain p s).map ∧ s'.now = (maintain p s).now) :
    (!(b && ((snapshot p s).entries.all (entryLiveAt p.ttl p.tti (snapshot p s').now none) &&
           (snapshot p s).entries.all (fun e => e.aoOk) && (snapshot p s).prob.all (·.current)) &&
         decide ((snapshot p s).ws > cap) &&
         decide ((snapshot p s).entries.length ≤ Gen.UNSYNC_EVICTION_BATCH_SIZE)) ||
      sameKeys (keysOf (snapshot p s'))
        ((keysOf (snapshot p s)).filter (fun x =>
          !(match shortestPrefix (snapshot p s) ((snapshot p s).ws - cap)
                (lruOrder (snapshot p s)) 0 [] with
            | some pre => pre
            | none => lruOrder (snapshot p s)).contains x))) = true := by
  cases happ : (b && ((snapshot p s).entries.all (entryLiveAt p.ttl p.tti (snapshot p s').now none) &&
           (snapshot p s).entries.all (fun e => e.aoOk) && (snapshot p s).prob.all (·.current)) &&
         decide ((snapshot p s).ws > cap) &&
         decide ((snapshot p s).entries.length ≤ Gen.UNSYNC_EVICTION_BATCH_SIZE)) with
  | false => rfl
  | true =>
  simp only [Bool.not_true, Bool.false_or]
  simp only [Bool.and_eq_true, decide_eq_true_eq] at happ
  obtain ⟨⟨⟨hbt, ⟨⟨hlive, _⟩, _⟩⟩, hover⟩, hlen⟩ := happ
  obtain ⟨hmap, hnow⟩ := hb hbt
  obtain ⟨_, _, haux⟩ := maintain_spec hq hi
  have hnow' : (snapshot p s').now = s.now := by
    show s'.now = s.now
    rw [hnow, haux.now]
  rw [hnow', snapshot_entries_all] at hlive
  -- nothing is expired, so maintenance is the growth eviction
  have hexp : ∀ k e, AL.get? s.map k = some e → isExpiredEntry p s e s.now = false := by
    intro k e he
    have := hlive k e (AL.mem_of_get? he)
    simp only [entryLiveAt, entryView, Bool.and_eq_true, Bool.not_eq_true'] at this
    simp only [isExpiredEntry, Bool.or_eq_false_iff]
    exact ⟨this.1.1, this.1.2⟩
  have hmt : maintain p s = evictLru p s := by
    unfold maintain evictExpiredIfNeeded
    split
    · rw [evictExpired_noop hi.struct hexp]
    · rfl
  obtain ⟨_, hmapE⟩ := evictLru_exact hi
  have hlenE : (snapshot p s).entries.length = s.map.length := by
    simp [snapshot, length_sortBy]
  have hcut : lruCut p s = prefLen (s.ws - cap) (probWeights s) := by
    have h1 := prefLen_le_length (s.ws - cap) (probWeights s)
    have h2 := prob_length_le_map hi.struct
    have h3 : (probWeights s).length = s.prob.length := by simp [probWeights]
    simp only [lruCut, weightsToEvict, hcap, EVICTION_BATCH_SIZE]
    rw [hlenE] at hlen
    omega
  -- the victims named by the oracle
  have hvict : (match shortestPrefix (snapshot p s) ((snapshot p s).ws - cap)
        (lruOrder (snapshot p s)) 0 [] with
      | some pre => pre
      | none => lruOrder (snapshot p s)) = (s.prob.take (lruCut p s)).map (·.key) := by
    rw [shortestPrefix_eq, lruOrder_snapshot, hcut]
    have hW : (s.prob.map (·.key)).map (weightOfKey (snapshot p s)) = probWeights s := by
      rw [List.map_map]
      exact List.map_congr_left (fun n _ => weightOfKey_snapshot hi.struct n.key)
    have hws : (snapshot p s).ws = s.ws := rfl
    rw [hW, hws, Nat.sub_zero]
    unfold prefLen
    cases shortestPre (s.ws - cap) (probWeights s) with
    | none => simp [probWeights]
    | some n => simp [List.map_take]
  rw [hvict, sameKeys_iff]
  intro x
  rw [mem_keysOf_snapshot, hmap, hmt, hmapE, get?_eraseKeys hi.struct.keysNodup]
  simp only [List.mem_filter, Bool.not_eq_true', mem_keysOf_snapshot]
  by_cases hin : x ∈ (s.prob.take (lruCut p s)).map (·.key)
  · rw [if_pos hin]
    constructor
    · rintro ⟨e, he⟩; cases he
    · rintro ⟨_, h⟩
      rw [← List.contains_iff_mem] at hin
      rw [hin] at h; cases h
  · rw [if_neg hin]
    constructor
    · intro h
      refine ⟨h, ?_⟩
      cases hc : ((s.prob.take (lruCut p s)).map (·.key)).contains x with
      | false => rfl
      | true => exact absurd (List.contains_iff_mem.mp hc) hin
    · exact fun h => h.1


/-- The C12 growth walk over a model trace: every `snap, lookup, snap` window passes. -/
theorem growthC12_run {P : Sketch → Prop} (L : SketchLaws P) {p : Params} (hq : NoQuirks p)
    (hsm : SmallSketch p) {cap : Nat} (hcap : p.cap = some cap) :
    ∀ (n : Nat) (h : List Op), h.length ≤ n → ∀ (s : UState), Inv P p s →
      growthC12 cap p.ttl p.tti Gen.UNSYNC_EVICTION_BATCH_SIZE (run p s h) = true := by
  intro n
  induction n with
  | zero =>
    intro h hl s _
    have : h = [] := List.length_eq_zero_iff.mp (Nat.le_zero.mp hl)
    subst this
    simp [run, growthC12]
  | succ n ih =>
    intro h hl s hi
    cases h with
    | nil => simp [run, growthC12]
    | cons op rest =>
      have hlr : rest.length ≤ n := by simpa using hl
      rw [run_cons]
      unfold growthC12
      split
      · rename_i before op2 ob after rest' heq
        obtain ⟨e1, e2⟩ := List.cons.inj heq
        have hop : op = .snap := (Prod.mk.inj e1).1
        subst hop
        rw [step_snap L hq hsm hi] at e1 e2
        have hbefore : before = snapshot p s := by
          have := (Prod.mk.inj e1).2; exact (Obs.snap.inj this).symm
        obtain ⟨op2', r2, hr2, hx2, ht2⟩ := run_eq_cons e2
        have hop2 : op2' = op2 := (Prod.mk.inj hx2).1.symm
        subst hop2
        have hi2 := step_inv L hq hsm hi op2'
        obtain ⟨op3, r3, hr3, hx3, ht3⟩ := run_eq_cons ht2.symm
        have hop3 : op3 = .snap := (Prod.mk.inj hx3).1.symm
        subst hop3
        rw [step_snap L hq hsm hi2] at hx3 ht3
        have hafter : after = snapshot p (step p s op2').1 := by
          have := (Prod.mk.inj hx3).2; exact Obs.snap.inj this
        subst hr2 hr3
        rw [Bool.and_eq_true]
        refine ⟨?_, ?_⟩
        · dsimp only
          rw [hbefore, hafter]
          refine growthCheck_model hq hi.inv hcap _ _ ?_
          intro hb
          rw [step_state L hq hsm hi op2']
          cases op2' with
          | get k => exact get_map_now p s k
          | has k => dsimp only; rw [containsKey_state]; exact ⟨rfl, rfl⟩
          | _ => simp at hb
        · split
          · rfl
          · have : (Op.snap, Obs.snap after) :: rest' = run p (step p s op2').1 (.snap :: r3) := by
              rw [run_cons, step_snap L hq hsm hi2, hafter, ht3]
            rw [this]
            refine ih _ ?_ _ hi2
            simp only [List.length_cons] at hlr ⊢
            omega
      · rename_i x t heq
        obtain ⟨_, e2⟩ := List.cons.inj heq
        rw [← e2]
        exact ih rest hlr _ (step_inv L hq hsm hi op)
      · rfl

/-- The admission and growth parts of the C12 oracle on model traces (the recency part, and the
oracle itself, are in `Lemmas/UnsyncRecency.lean`). -/
theorem admit_growth_trace {P : Sketch → Prop} (L : SketchLaws P) {p : Params} (hq : NoQuirks p)
    (hsm : SmallSketch p) {cap : Nat} (hcap : p.cap = some cap) (h : List Op) :
    admitC13 cap p.ttl p.tti p.weigh (trace p h) = true ∧
    growthC12 cap p.ttl p.tti Gen.UNSYNC_EVICTION_BATCH_SIZE (trace p h) = true :=
  ⟨admitC13_run L hq hsm hcap h.length h (Nat.le_refl _) {} (init_inv L p)
      (fun n hn => by simp at hn),
    growthC12_run L hq hsm hcap h.length h (Nat.le_refl _) {} (init_inv L p)⟩

end Admit
end Unsync
end MiniMoka
