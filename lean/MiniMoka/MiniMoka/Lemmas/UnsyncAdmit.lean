/-
  TinyLFU admission and LRU victim selection on the unsync model (C13, C12):
  the closed formula of the victim-aggregation loop, the exact effect of an insert
  that finds no room, the exact effect of `evict_lru_entries`, and the recency order
  kept by hits, updates and admissions.
-/
import MiniMoka.Lemmas.UnsyncNoLoss

namespace MiniMoka
namespace Unsync

/-! ### shortest sufficient prefix of a list of weights -/

/-- The least `n` such that the first `n` weights sum to at least `cw`; `none` when even
the whole list does not reach `cw`. (`cw - w` is truncated subtraction: `0` = reached.) -/
def shortestPre : Nat → List Nat → Option Nat
  | cw, [] => if cw = 0 then some 0 else none
  | cw, w :: rest => if cw = 0 then some 0 else (shortestPre (cw - w) rest).map (· + 1)

/-- `n` is the length of the shortest prefix of `ws` whose sum reaches `cw`. -/
def IsShortestPre (cw : Nat) (ws : List Nat) (n : Nat) : Prop :=
  n ≤ ws.length ∧ cw ≤ (ws.take n).sum ∧ ∀ m, m < n → (ws.take m).sum < cw

@[simp] theorem shortestPre_zero (ws : List Nat) : shortestPre 0 ws = some 0 := by
  cases ws <;> simp [shortestPre]

theorem shortestPre_cons_pos {cw : Nat} (h : cw ≠ 0) (w : Nat) (rest : List Nat) :
    shortestPre cw (w :: rest) = (shortestPre (cw - w) rest).map (· + 1) := by
  simp [shortestPre, h]

theorem shortestPre_nil_pos {cw : Nat} (h : cw ≠ 0) : shortestPre cw [] = none := by
  simp [shortestPre, h]

/-- `shortestPre` computes the least sufficient prefix length. -/
theorem shortestPre_eq_some_iff (ws : List Nat) :
    ∀ (cw n : Nat), shortestPre cw ws = some n ↔ IsShortestPre cw ws n := by
  induction ws with
  | nil =>
    intro cw n
    unfold IsShortestPre
    by_cases h : cw = 0
    · subst h
      simp only [shortestPre_zero, Option.some.injEq, List.length_nil, List.take_nil, List.sum_nil]
      constructor
      · intro e; subst e; simp
      · intro ⟨h1, _, _⟩; omega
    · rw [shortestPre_nil_pos h]
      simp only [List.length_nil, List.take_nil, List.sum_nil]
      constructor
      · intro e; cases e
      · intro ⟨_, h2, _⟩; omega
  | cons w rest ih =>
    intro cw n
    by_cases h : cw = 0
    · subst h
      unfold IsShortestPre
      simp only [shortestPre_zero, Option.some.injEq]
      constructor
      · intro e; subst e; simp
      · intro ⟨_, _, h3⟩
        cases n with
        | zero => rfl
        | succ n => exact absurd (h3 0 (Nat.succ_pos _)) (by simp)
    · rw [shortestPre_cons_pos h]
      cases n with
      | zero =>
        unfold IsShortestPre
        constructor
        · intro e
          cases hh : shortestPre (cw - w) rest <;> simp [hh] at e
        · intro ⟨_, h2, _⟩
          simp at h2; exact absurd h2 h
      | succ n =>
        have : (Option.map (· + 1) (shortestPre (cw - w) rest) = some (n + 1)) ↔
            shortestPre (cw - w) rest = some n := by
          cases hh : shortestPre (cw - w) rest <;> simp
        rw [this, ih (cw - w) n]
        unfold IsShortestPre
        simp only [List.length_cons, List.take_succ_cons, List.sum_cons]
        constructor
        · intro ⟨h1, h2, h3⟩
          refine ⟨by omega, by omega, ?_⟩
          intro m hm
          cases m with
          | zero => simp; omega
          | succ m =>
            have := h3 m (by omega)
            simp only [List.take_succ_cons, List.sum_cons]; omega
        · intro ⟨h1, h2, h3⟩
          refine ⟨by omega, by omega, ?_⟩
          intro m hm
          have := h3 (m + 1) (by omega)
          simp only [List.take_succ_cons, List.sum_cons] at this; omega

theorem shortestPre_eq_none_iff (ws : List Nat) :
    ∀ (cw : Nat), shortestPre cw ws = none ↔ ws.sum < cw := by
  induction ws with
  | nil =>
    intro cw
    by_cases h : cw = 0
    · subst h; simp
    · rw [shortestPre_nil_pos h]; simp; omega
  | cons w rest ih =>
    intro cw
    by_cases h : cw = 0
    · subst h; simp
    · rw [shortestPre_cons_pos h]
      have : (Option.map (· + 1) (shortestPre (cw - w) rest) = none) ↔
          shortestPre (cw - w) rest = none := by
        cases hh : shortestPre (cw - w) rest <;> simp
      rw [this, ih (cw - w)]
      simp only [List.sum_cons]; omega

theorem shortestPre_le_length {cw : Nat} {ws : List Nat} {n : Nat}
    (h : shortestPre cw ws = some n) : n ≤ ws.length :=
  ((shortestPre_eq_some_iff ws cw n).mp h).1

/-- The shortest sufficient prefix is unique. -/
theorem IsShortestPre.unique {cw : Nat} {ws : List Nat} {n m : Nat}
    (h1 : IsShortestPre cw ws n) (h2 : IsShortestPre cw ws m) : n = m := by
  have a := (shortestPre_eq_some_iff ws cw n).mpr h1
  have b := (shortestPre_eq_some_iff ws cw m).mpr h2
  rw [a] at b; exact Option.some.inj b

/-- Length of the shortest prefix reaching `need`, or of the whole list if none does. -/
def prefLen (need : Nat) (ws : List Nat) : Nat := (shortestPre need ws).getD ws.length

@[simp] theorem prefLen_zero (ws : List Nat) : prefLen 0 ws = 0 := by simp [prefLen]

theorem prefLen_cons_pos {need : Nat} (h : need ≠ 0) (w : Nat) (rest : List Nat) :
    prefLen need (w :: rest) = prefLen (need - w) rest + 1 := by
  unfold prefLen
  rw [shortestPre_cons_pos h]
  cases shortestPre (need - w) rest <;> simp

theorem prefLen_le_length (need : Nat) (ws : List Nat) : prefLen need ws ≤ ws.length := by
  unfold prefLen
  cases h : shortestPre need ws with
  | none => simp
  | some n => simpa using shortestPre_le_length h

theorem prefLen_nil (need : Nat) : prefLen need [] = 0 := by
  have := prefLen_le_length need []
  simpa using this

/-! ### closed formula of the victim-aggregation loop -/

/-- The admission loop, started with accumulator `a`: the final test succeeds iff the
shortest prefix of the nodes whose weight covers what is still missing exists and its
summed popularity (added to what was aggregated so far) stays below the candidate's; the
victims are then exactly that prefix. The early exit `cf < a.vf` is harmless because
popularities only add up. -/
theorem admitLoop_closed_gen {p : Params} {s : UState} {cw cf : Nat}
    (hw : ∀ k e, AL.get? s.map k = some e → e.weight = p.weigh k e.val) :
    ∀ (nodes : List AoNode) (a : Admission),
      (∀ n ∈ nodes, ∃ e, AL.get? s.map n.key = some e) →
      ((cw ≤ (admitLoop p s cw cf nodes a).vw ∧ (admitLoop p s cw cf nodes a).vf < cf) ↔
        ∃ n, shortestPre (cw - a.vw) (nodes.map (fun n => wOf s n.key)) = some n ∧
          a.vf + ((nodes.map (fOf s)).take n).sum < cf) ∧
      (∀ n, shortestPre (cw - a.vw) (nodes.map (fun n => wOf s n.key)) = some n →
          a.vf + ((nodes.map (fOf s)).take n).sum < cf →
          (admitLoop p s cw cf nodes a).victims = a.victims ++ nodes.take n ∧
          (admitLoop p s cw cf nodes a).vw =
            a.vw + ((nodes.map (fun n => wOf s n.key)).take n).sum ∧
          (admitLoop p s cw cf nodes a).vf = a.vf + ((nodes.map (fOf s)).take n).sum) := by
  intro nodes
  induction nodes with
  | nil =>
    intro a _
    simp only [admitLoop, List.map_nil, List.take_nil, List.sum_nil, Nat.add_zero,
      List.append_nil]
    by_cases h : cw - a.vw = 0
    · rw [h]
      simp only [shortestPre_zero, Option.some.injEq]
      refine ⟨⟨fun ⟨_, h2⟩ => ⟨0, rfl, h2⟩, fun ⟨_, _, h2⟩ => ⟨by omega, h2⟩⟩, ?_⟩
      intro n _ _; simp
    · rw [shortestPre_nil_pos h]
      refine ⟨⟨fun ⟨h1, _⟩ => absurd h1 (by omega), fun ⟨_, h1, _⟩ => by cases h1⟩, ?_⟩
      intro n h1; cases h1
  | cons nd rest ih =>
    intro a hall
    unfold admitLoop
    by_cases hc : a.vw < cw ∧ ¬ cf < a.vf
    · rw [if_pos hc]
      obtain ⟨e, he⟩ := hall nd List.mem_cons_self
      simp only [he]
      have hne : cw - a.vw ≠ 0 := by omega
      have hwn : wOf s nd.key = p.weigh nd.key e.val := by
        simp only [wOf, he]; exact hw nd.key e he
      have := ih { a with vw := a.vw + p.weigh nd.key e.val, vf := a.vf + s.sk.frequency nd.hash,
                          victims := a.victims ++ [nd] }
        (fun m hm => hall m (List.mem_cons_of_mem _ hm))
      simp only at this
      obtain ⟨ih1, ih2⟩ := this
      simp only [List.map_cons]
      rw [shortestPre_cons_pos hne, hwn]
      have hsub : cw - a.vw - p.weigh nd.key e.val = cw - (a.vw + p.weigh nd.key e.val) := by omega
      rw [hsub]
      refine ⟨ih1.trans ⟨?_, ?_⟩, ?_⟩
      · rintro ⟨n, h1, h2⟩
        refine ⟨n + 1, by simp [h1], ?_⟩
        simp only [List.take_succ_cons, List.sum_cons, fOf] at h2 ⊢
        omega
      · rintro ⟨n, h1, h2⟩
        cases n with
        | zero =>
          cases hh : shortestPre (cw - (a.vw + p.weigh nd.key e.val))
            (rest.map (fun n => wOf s n.key)) <;> simp [hh] at h1
        | succ n =>
          have h1' : shortestPre (cw - (a.vw + p.weigh nd.key e.val))
              (rest.map (fun n => wOf s n.key)) = some n := by
            cases hh : shortestPre (cw - (a.vw + p.weigh nd.key e.val))
              (rest.map (fun n => wOf s n.key)) <;> simp [hh] at h1
            exact congrArg some h1
          refine ⟨n, h1', ?_⟩
          simp only [List.take_succ_cons, List.sum_cons, fOf] at h2 ⊢
          omega
      · intro n h1 h2
        cases n with
        | zero =>
          cases hh : shortestPre (cw - (a.vw + p.weigh nd.key e.val))
            (rest.map (fun n => wOf s n.key)) <;> simp [hh] at h1
        | succ n =>
          have h1' : shortestPre (cw - (a.vw + p.weigh nd.key e.val))
              (rest.map (fun n => wOf s n.key)) = some n := by
            cases hh : shortestPre (cw - (a.vw + p.weigh nd.key e.val))
              (rest.map (fun n => wOf s n.key)) <;> simp [hh] at h1
            exact congrArg some h1
          simp only [List.take_succ_cons, List.sum_cons, fOf] at h2 ⊢
          obtain ⟨r1, r2, r3⟩ := ih2 n h1' (by omega)
          refine ⟨by rw [r1]; simp, by rw [r2]; omega, by rw [r3]; omega⟩
    · rw [if_neg hc]
      by_cases hge : cw ≤ a.vw
      · have h0 : cw - a.vw = 0 := by omega
        rw [h0]
        simp only [shortestPre_zero, Option.some.injEq]
        refine ⟨⟨fun ⟨_, h2⟩ => ⟨0, rfl, by simpa using h2⟩,
          fun ⟨n, hn, h2⟩ => ⟨hge, by subst hn; simpa using h2⟩⟩, ?_⟩
        intro n hn _; subst hn; simp
      · -- early exit: the aggregated popularity already exceeds the candidate's
        have hlt : cf < a.vf := by
          by_cases h : cf < a.vf
          · exact h
          · exact absurd ⟨by omega, h⟩ hc
        refine ⟨⟨fun ⟨h1, _⟩ => absurd h1 hge, fun ⟨n, _, h2⟩ => by omega⟩, ?_⟩
        intro n _ h2; omega

/-- **Closed formula of `admit`.** With `nodes` the probation list (LRU first), weights
`wOf s n.key` and popularities `fOf s n`: the candidate of weight `cw` and popularity `cf`
passes the final test iff the shortest prefix whose weight reaches `cw` exists and `cf`
exceeds its summed popularity; the victims are then that prefix (`cw = 0`: the empty
prefix, admitted iff `cf > 0`). -/
theorem admitLoop_closed {p : Params} {s : UState} {cw cf : Nat}
    (hw : ∀ k e, AL.get? s.map k = some e → e.weight = p.weigh k e.val)
    (nodes : List AoNode) (hall : ∀ n ∈ nodes, ∃ e, AL.get? s.map n.key = some e) :
    ((admitLoop p s cw cf nodes {}).vw ≥ cw ∧ cf > (admitLoop p s cw cf nodes {}).vf ↔
      ∃ n, shortestPre cw (nodes.map (fun n => wOf s n.key)) = some n ∧
        cf > ((nodes.map (fOf s)).take n).sum) ∧
    (∀ n, shortestPre cw (nodes.map (fun n => wOf s n.key)) = some n →
        cf > ((nodes.map (fOf s)).take n).sum →
        (admitLoop p s cw cf nodes {}).victims = nodes.take n ∧
        (admitLoop p s cw cf nodes {}).vw = ((nodes.map (fun n => wOf s n.key)).take n).sum ∧
        (admitLoop p s cw cf nodes {}).vf = ((nodes.map (fOf s)).take n).sum) := by
  have := admitLoop_closed_gen (cw := cw) (cf := cf) hw nodes {} hall
  simpa using this

/-! ### what removals do to the map (no invariant needed) -/

@[simp] theorem fail_map (s : UState) (f : Fault) : (s.fail f).map = s.map := by
  unfold UState.fail; split <;> rfl

@[simp] theorem fail_prob (s : UState) (f : Fault) : (s.fail f).prob = s.prob := by
  unfold UState.fail; split <;> rfl

@[simp] theorem unlinkAo_map (s : UState) (e : UEntry) : (unlinkAo s e).map = s.map := by
  unfold unlinkAo; split
  · rfl
  · split <;> simp

@[simp] theorem unlinkWo_map (s : UState) (e : UEntry) : (unlinkWo s e).map = s.map := by
  unfold unlinkWo; split
  · rfl
  · split <;> simp

@[simp] theorem takeOut_map (s : UState) (k : Nat) (e : UEntry) :
    (takeOut s k e).map = AL.erase s.map k := by
  simp [takeOut]

@[simp] theorem subEc_map (s : UState) (n : Nat) : (subEc s n).map = s.map := by
  unfold subEc; split <;> simp

@[simp] theorem subEc_prob (s : UState) (n : Nat) : (subEc s n).prob = s.prob := by
  unfold subEc; split <;> simp

/-- Erasing a list of keys one after the other. -/
def eraseKeys (m : List (Nat × UEntry)) (ks : List Nat) : List (Nat × UEntry) :=
  ks.foldl (fun m k => AL.erase m k) m

theorem get?_eraseKeys {m : List (Nat × UEntry)} (hn : (AL.keys m).Nodup) (ks : List Nat) (x : Nat) :
    AL.get? (eraseKeys m ks) x = if x ∈ ks then none else AL.get? m x := by
  induction ks generalizing m with
  | nil => simp [eraseKeys]
  | cons k ks ih =>
    have := ih (m := AL.erase m k) (AL.nodup_erase k hn)
    simp only [eraseKeys, List.foldl_cons] at this ⊢
    rw [this, AL.get?_erase k x hn]
    by_cases h1 : x ∈ ks
    · simp [h1]
    · by_cases h2 : k = x
      · subst h2; simp
      · have : ¬ x = k := fun e => h2 e.symm
        simp [h1, h2, this]

theorem eraseKeys_append (m : List (Nat × UEntry)) (a b : List Nat) :
    eraseKeys m (a ++ b) = eraseKeys (eraseKeys m a) b := by
  simp [eraseKeys, List.foldl_append]

/-- `removeVictims` erases the victims' keys from the map, whatever else happens. -/
theorem removeVictims_map (victims : List AoNode) :
    ∀ s : UState, (removeVictims victims s).map = eraseKeys s.map (victims.map (·.key)) := by
  induction victims with
  | nil => intro s; rfl
  | cons v rest ih =>
    intro s
    unfold removeVictims
    cases he : AL.get? s.map v.key with
    | none =>
      simp only
      rw [ih]
      simp [eraseKeys, AL.erase_of_get?_none he]
    | some e =>
      simp only
      rw [ih]
      simp [eraseKeys]

/-! ### key-level facts about the probation list -/

theorem nodup_map_of_inj {α β γ : Type} (f : α → β) (g : α → γ) :
    ∀ (l : List α), (l.map f).Nodup → (∀ a ∈ l, ∀ b ∈ l, g a = g b → f a = f b) →
      (l.map g).Nodup := by
  intro l
  induction l with
  | nil => intro _ _; simp
  | cons a l ih =>
    intro hn hinj
    simp only [List.map_cons, List.nodup_cons] at hn ⊢
    refine ⟨?_, ih hn.2 (fun x hx y hy => hinj x (List.mem_cons_of_mem _ hx) y (List.mem_cons_of_mem _ hy))⟩
    intro hm
    obtain ⟨b, hb, hgb⟩ := List.mem_map.mp hm
    have := hinj b (List.mem_cons_of_mem _ hb) a List.mem_cons_self hgb
    exact hn.1 (this ▸ List.mem_map.mpr ⟨b, hb, rfl⟩)

/-- Under the structural invariant, the nodes of the probation list carry distinct keys. -/
theorem prob_keys_nodup {p : Params} {pend : Option Nat} {s : UState} (hs : StructP p pend s) :
    (s.prob.map (·.key)).Nodup := by
  refine nodup_map_of_inj (·.id) (·.key) s.prob hs.probIds ?_
  intro a ha b hb hk
  obtain ⟨ea, h1, h2⟩ := hs.aoBack a ha
  obtain ⟨eb, h3, h4⟩ := hs.aoBack b hb
  have hk' : a.key = b.key := hk
  rw [hk', h3] at h1
  cases h1
  rw [h2] at h4
  exact Option.some.inj h4

/-- The keys of the probation list are exactly the keys of the map (for the non-pending keys). -/
theorem mem_prob_keys_iff {p : Params} {s : UState} (hs : Struct p s) (x : Nat) :
    x ∈ s.prob.map (·.key) ↔ ∃ e, AL.get? s.map x = some e := by
  constructor
  · intro h
    obtain ⟨n, hn, rfl⟩ := List.mem_map.mp h
    obtain ⟨e, he, _⟩ := hs.aoBack n hn
    exact ⟨e, he⟩
  · rintro ⟨e, he⟩
    obtain ⟨id, n, _, hf, hk⟩ := hs.aoLink x e he (by simp)
    exact List.mem_map.mpr ⟨n, (findAo_some hf).1, hk⟩

/-- Removing the node of key `n.key` from the list removes `n.key` from the key list. -/
theorem keys_eraseAo {l : List AoNode} {id : Nat} {n : AoNode} (hk : (l.map (·.key)).Nodup)
    (hf : findAo l id = some n) :
    (eraseAo l id).map (·.key) = (l.map (·.key)).erase n.key := by
  induction l with
  | nil => simp [findAo] at hf
  | cons a l ih =>
    simp only [List.map_cons, List.nodup_cons] at hk
    simp only [findAo] at hf
    simp only [eraseAo]
    by_cases ha : a.id = id
    · simp only [ha, if_true, Option.some.injEq] at hf
      subst hf
      simp [ha]
    · simp only [ha, if_false] at hf
      have hmem : n.key ∈ l.map (·.key) := List.mem_map.mpr ⟨n, (findAo_some hf).1, rfl⟩
      have hne : a.key ≠ n.key := fun e => hk.1 (e ▸ hmem)
      simp only [ha, if_false, List.map_cons]
      rw [ih hk.2 hf, List.erase_cons_tail (by simpa using hne)]

theorem keys_setTsAo (l : List AoNode) (id t : Nat) :
    (setTsAo l id t).map (·.key) = l.map (·.key) := by
  induction l with
  | nil => rfl
  | cons a l ih =>
    simp only [setTsAo]
    by_cases ha : a.id = id
    · simp [ha]
    · simp [ha, ih]

/-- A touch (optional re-timing, move to the back) on the key list: the key of the touched
node goes last, the relative order of the others is unchanged. -/
theorem keys_touchAo {s : UState} {id : Nat} {n : AoNode} (ts : Option Nat)
    (hk : (s.prob.map (·.key)).Nodup) (hf : findAo s.prob id = some n) :
    (touchAo s id ts).prob.map (·.key) = (s.prob.map (·.key)).erase n.key ++ [n.key] := by
  cases ts with
  | none =>
    simp only [touchAo]
    rw [moveToBackAo_eq hf, List.map_append, keys_eraseAo hk hf]
    simp
  | some t =>
    simp only [touchAo]
    have hf' : findAo (setTsAo s.prob id t) id = some { n with ts := some t } := by
      rw [findAo_setTsAo]; simp [hf]
    rw [moveToBackAo_eq hf', List.map_append,
      keys_eraseAo (by rw [keys_setTsAo]; exact hk) hf', keys_setTsAo]
    simp

/-! ### removal of a prefix of the probation list -/

/-- `removeVictims` on a prefix of the probation list leaves the rest of the list. -/
theorem removeVictims_prob {p : Params} {k : Nat} :
    ∀ (victims : List AoNode) (s : UState) (rest : List AoNode), StructP p (some k) s →
      s.prob = victims ++ rest → s.ec + 1 = s.map.length →
      (removeVictims victims s).prob = rest := by
  intro victims
  induction victims with
  | nil => intro s rest _ hp _; simpa [removeVictims] using hp
  | cons v vs ih =>
    intro s rest hs hp hc
    have hv : v ∈ s.prob := by rw [hp]; simp
    obtain ⟨e, he, heao⟩ := hs.aoBack v hv
    have hvk : v.key ≠ k := pending_no_node_ao hs hv
    have hpend : (some k : Option Nat) ≠ some v.key := fun h => hvk (Option.some.inj h).symm
    obtain ⟨hs', hto, id, n, hao, hfind, _, hprob⟩ := takeOut_spec hs he hpend
    obtain ⟨ep, hep, _⟩ := hs.pendIn k rfl
    have hlen := two_keys_length he hep hvk
    have hec : ¬ (takeOut s v.key e).ec < 1 := by rw [hto.env.ec]; omega
    have hsub : subEc (takeOut s v.key e) 1 =
        { takeOut s v.key e with ec := (takeOut s v.key e).ec - 1 } := by
      simp [subEc, hec]
    have hid : id = v.id := by rw [heao] at hao; exact (Option.some.inj hao).symm
    have hrv : removeVictims (v :: vs) s = removeVictims vs (subEc (takeOut s v.key e) 1) := by
      simp only [removeVictims, he]
    rw [hrv, hsub]
    refine ih _ rest (structP_congr hs' rfl rfl rfl rfl rfl) ?_ ?_
    · simp only
      rw [hprob, hid, hp]
      simp [eraseAo]
    · simp only
      rw [hto.env.ec, hto.map]
      have := AL.length_erase_of_get? he
      omega

end Unsync
end MiniMoka
