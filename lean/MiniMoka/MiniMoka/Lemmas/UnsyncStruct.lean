/-
  The structural invariant of the unsync model: map entries and list nodes point at
  each other, node ids are distinct, no fault.  `pend` names a key that is in the map
  but does not have its nodes yet (the window inside `insert` between `cache.insert`
  and `push_back_*`).
-/
import MiniMoka.Lemmas.UnsyncNodes

namespace MiniMoka
namespace Unsync

structure StructP (p : Params) (pend : Option Nat) (s : UState) : Prop where
  keysNodup : (AL.keys s.map).Nodup
  probIds : (s.prob.map (·.id)).Nodup
  woIds : (s.wo.map (·.id)).Nodup
  aoLink : ∀ k e, AL.get? s.map k = some e → pend ≠ some k →
    ∃ id n, e.ao = some id ∧ findAo s.prob id = some n ∧ n.key = k
  aoBack : ∀ n ∈ s.prob, ∃ e, AL.get? s.map n.key = some e ∧ e.ao = some n.id
  woLink : ∀ k e, AL.get? s.map k = some e → pend ≠ some k →
    (p.ttl.isSome = true → ∃ id n, e.wo = some id ∧ findWo s.wo id = some n ∧ n.key = k) ∧
    (p.ttl.isSome = false → e.wo = none)
  woBack : ∀ n ∈ s.wo, ∃ e, AL.get? s.map n.key = some e ∧ e.wo = some n.id
  pendIn : ∀ k, pend = some k → ∃ e, AL.get? s.map k = some e ∧ e.ao = none ∧ e.wo = none
  freshAo : ∀ n ∈ s.prob, n.id < s.nextId
  freshWo : ∀ n ∈ s.wo, n.id < s.nextId
  noFault : s.fault = none

abbrev Struct (p : Params) (s : UState) : Prop := StructP p none s

/-- Fields that the removal of entries never touches. -/
structure SameEnv (s s' : UState) : Prop where
  ec : s'.ec = s.ec
  ws : s'.ws = s.ws
  sk : s'.sk = s.sk
  skOn : s'.skOn = s.skOn
  now : s'.now = s.now
  nextId : s'.nextId = s.nextId

theorem SameEnv.refl (s : UState) : SameEnv s s := ⟨rfl, rfl, rfl, rfl, rfl, rfl⟩

theorem SameEnv.trans {a b c : UState} (h1 : SameEnv a b) (h2 : SameEnv b c) : SameEnv a c :=
  ⟨h2.ec.trans h1.ec, h2.ws.trans h1.ws, h2.sk.trans h1.sk, h2.skOn.trans h1.skOn,
   h2.now.trans h1.now, h2.nextId.trans h1.nextId⟩

/-- `s'` holds a subset of the entries of `s`, each with unchanged timestamps. -/
structure Shrinks (s s' : UState) : Prop where
  sub : ∀ k e, AL.get? s'.map k = some e → AL.get? s.map k = some e
  la : ∀ k e, AL.get? s'.map k = some e → entryLa s' e = entryLa s e
  lm : ∀ k e, AL.get? s'.map k = some e → entryLm s' e = entryLm s e

theorem Shrinks.refl (s : UState) : Shrinks s s := ⟨fun _ _ h => h, fun _ _ _ => rfl, fun _ _ _ => rfl⟩

theorem Shrinks.trans {a b c : UState} (h1 : Shrinks a b) (h2 : Shrinks b c) : Shrinks a c :=
  ⟨fun k e h => h1.sub k e (h2.sub k e h),
   fun k e h => (h2.la k e h).trans (h1.la k e (h2.sub k e h)),
   fun k e h => (h2.lm k e h).trans (h1.lm k e (h2.sub k e h))⟩

/-- What `takeOut` does to a well-structured state. -/
structure TakenOut (s : UState) (k : Nat) (s' : UState) : Prop where
  map : s'.map = AL.erase s.map k
  env : SameEnv s s'
  shrinks : Shrinks s s'
  probSub : ∀ n, n ∈ s'.prob → n ∈ s.prob
  woSub : ∀ n, n ∈ s'.wo → n ∈ s.wo

theorem takeOut_spec {p : Params} {pend : Option Nat} {s : UState} {k : Nat} {e : UEntry}
    (hs : StructP p pend s) (hk : AL.get? s.map k = some e) (hp : pend ≠ some k) :
    StructP p pend (takeOut s k e) ∧ TakenOut s k (takeOut s k e) ∧
    (∃ id n, e.ao = some id ∧ findAo s.prob id = some n ∧ n.key = k ∧
      (takeOut s k e).prob = eraseAo s.prob id) := by
  obtain ⟨id, n, hao, hfind, hnk⟩ := hs.aoLink k e hk hp
  have hwl := hs.woLink k e hk hp
  -- the state after unlinkAo
  have h1 : unlinkAo { s with map := AL.erase s.map k } e =
      { s with map := AL.erase s.map k, prob := eraseAo s.prob id } := by
    simp [unlinkAo, hao, hfind]
  -- distinctness facts
  have hn_in := (findAo_some hfind)
  cases httl : p.ttl.isSome with
  | false =>
    have hwo : e.wo = none := hwl.2 httl
    have h2 : takeOut s k e = { s with map := AL.erase s.map k, prob := eraseAo s.prob id } := by
      simp [takeOut, h1, unlinkWo, hwo]
    rw [h2]
    refine ⟨?_, ?_, ⟨id, n, hao, hfind, hnk, rfl⟩⟩
    · refine ⟨AL.nodup_erase k hs.keysNodup, nodup_eraseAo id hs.probIds, hs.woIds, ?_, ?_, ?_, ?_, ?_, ?_,
        hs.freshWo, hs.noFault⟩
      · intro k' e' hk' hp'
        simp only at hk'
        rw [AL.get?_erase k k' hs.keysNodup] at hk'
        by_cases hkk : k = k'
        · simp [hkk] at hk'
        · simp [hkk] at hk'
          obtain ⟨id2, n2, hao2, hf2, hk2⟩ := hs.aoLink k' e' hk' hp'
          refine ⟨id2, n2, hao2, ?_, hk2⟩
          have : id2 ≠ id := by
            intro eid
            rw [eid, hfind] at hf2
            cases hf2
            exact hkk (hnk.symm.trans hk2)
          simp only
          rw [findAo_eraseAo_ne this]; exact hf2
      · intro n2 hn2
        simp only at hn2
        have hn2' := mem_eraseAo hn2
        have hne := not_mem_eraseAo_self hs.probIds hn2
        obtain ⟨e2, he2, hao2⟩ := hs.aoBack n2 hn2'
        refine ⟨e2, ?_, hao2⟩
        simp only
        rw [AL.get?_erase k n2.key hs.keysNodup]
        by_cases hkk : k = n2.key
        · rw [← hkk, hk] at he2
          cases he2
          rw [hao] at hao2
          exact absurd (Option.some.inj hao2).symm hne
        · simp [hkk, he2]
      · intro k' e' hk' hp'
        simp only at hk'
        rw [AL.get?_erase k k' hs.keysNodup] at hk'
        by_cases hkk : k = k'
        · simp [hkk] at hk'
        · simp [hkk] at hk'
          exact hs.woLink k' e' hk' hp'
      · intro n2 hn2
        simp only at hn2
        obtain ⟨e2, he2, hwo2⟩ := hs.woBack n2 hn2
        refine ⟨e2, ?_, hwo2⟩
        simp only
        rw [AL.get?_erase k n2.key hs.keysNodup]
        by_cases hkk : k = n2.key
        · rw [← hkk, hk] at he2
          cases he2
          rw [hwo] at hwo2; cases hwo2
        · simp [hkk, he2]
      · intro kp hkp
        obtain ⟨ep, hep, h3⟩ := hs.pendIn kp hkp
        refine ⟨ep, ?_, h3⟩
        simp only
        have : k ≠ kp := fun e => hp (e ▸ hkp)
        rw [AL.get?_erase_ne this]; exact hep
      · intro n2 hn2
        exact hs.freshAo n2 (mem_eraseAo hn2)
    · refine ⟨rfl, ⟨rfl, rfl, rfl, rfl, rfl, rfl⟩, ⟨?_, ?_, ?_⟩, fun n2 hn2 => mem_eraseAo hn2,
        fun n2 hn2 => hn2⟩
      · intro k' e' hk'
        simp only at hk'
        rw [AL.get?_erase k k' hs.keysNodup] at hk'
        by_cases hkk : k = k'
        · simp [hkk] at hk'
        · simpa [hkk] using hk'
      · intro k' e' hk'
        simp only at hk'
        rw [AL.get?_erase k k' hs.keysNodup] at hk'
        by_cases hkk : k = k'
        · simp [hkk] at hk'
        · simp [hkk] at hk'
          simp only [entryLa]
          cases hao' : e'.ao with
          | none => rfl
          | some id2 =>
            simp only
            by_cases hid : id2 = id
            · -- the entry of k' cannot own the node of k
              subst hid
              by_cases hpk : pend = some k'
              · obtain ⟨ep, hep, h3⟩ := hs.pendIn k' hpk
                rw [hk'] at hep; cases hep
                rw [h3.1] at hao'; cases hao'
              · obtain ⟨id3, n3, hao3, hf3, hk3⟩ := hs.aoLink k' e' hk' hpk
                rw [hao'] at hao3; cases hao3
                rw [hfind] at hf3; cases hf3
                exact absurd (hnk.symm.trans hk3) hkk
            · rw [findAo_eraseAo_ne hid]
      · intro k' e' hk'
        rfl
  | true =>
    obtain ⟨wid, wn, hwo, hwfind, hwk⟩ := hwl.1 httl
    have h2 : takeOut s k e =
        { s with map := AL.erase s.map k, prob := eraseAo s.prob id, wo := eraseWo s.wo wid } := by
      simp [takeOut, h1, unlinkWo, hwo, hwfind]
    rw [h2]
    refine ⟨?_, ?_, ⟨id, n, hao, hfind, hnk, rfl⟩⟩
    · refine ⟨AL.nodup_erase k hs.keysNodup, nodup_eraseAo id hs.probIds, nodup_eraseWo wid hs.woIds,
        ?_, ?_, ?_, ?_, ?_, ?_, ?_, hs.noFault⟩
      · intro k' e' hk' hp'
        simp only at hk'
        rw [AL.get?_erase k k' hs.keysNodup] at hk'
        by_cases hkk : k = k'
        · simp [hkk] at hk'
        · simp [hkk] at hk'
          obtain ⟨id2, n2, hao2, hf2, hk2⟩ := hs.aoLink k' e' hk' hp'
          refine ⟨id2, n2, hao2, ?_, hk2⟩
          have : id2 ≠ id := by
            intro eid
            rw [eid, hfind] at hf2
            cases hf2
            exact hkk (hnk.symm.trans hk2)
          simp only
          rw [findAo_eraseAo_ne this]; exact hf2
      · intro n2 hn2
        simp only at hn2
        have hn2' := mem_eraseAo hn2
        have hne := not_mem_eraseAo_self hs.probIds hn2
        obtain ⟨e2, he2, hao2⟩ := hs.aoBack n2 hn2'
        refine ⟨e2, ?_, hao2⟩
        simp only
        rw [AL.get?_erase k n2.key hs.keysNodup]
        by_cases hkk : k = n2.key
        · rw [← hkk, hk] at he2
          cases he2
          rw [hao] at hao2
          exact absurd (Option.some.inj hao2).symm hne
        · simp [hkk, he2]
      · intro k' e' hk' hp'
        simp only at hk'
        rw [AL.get?_erase k k' hs.keysNodup] at hk'
        by_cases hkk : k = k'
        · simp [hkk] at hk'
        · simp [hkk] at hk'
          have := hs.woLink k' e' hk' hp'
          refine ⟨fun ht => ?_, this.2⟩
          obtain ⟨id2, n2, hwo2, hf2, hk2⟩ := this.1 ht
          refine ⟨id2, n2, hwo2, ?_, hk2⟩
          have : id2 ≠ wid := by
            intro eid
            rw [eid, hwfind] at hf2
            cases hf2
            exact hkk (hwk.symm.trans hk2)
          simp only
          rw [findWo_eraseWo_ne this]; exact hf2
      · intro n2 hn2
        simp only at hn2
        have hn2' := mem_eraseWo hn2
        have hne := not_mem_eraseWo_self hs.woIds hn2
        obtain ⟨e2, he2, hwo2⟩ := hs.woBack n2 hn2'
        refine ⟨e2, ?_, hwo2⟩
        simp only
        rw [AL.get?_erase k n2.key hs.keysNodup]
        by_cases hkk : k = n2.key
        · rw [← hkk, hk] at he2
          cases he2
          rw [hwo] at hwo2
          exact absurd (Option.some.inj hwo2).symm hne
        · simp [hkk, he2]
      · intro kp hkp
        obtain ⟨ep, hep, h3⟩ := hs.pendIn kp hkp
        refine ⟨ep, ?_, h3⟩
        simp only
        have : k ≠ kp := fun e => hp (e ▸ hkp)
        rw [AL.get?_erase_ne this]; exact hep
      · intro n2 hn2
        exact hs.freshAo n2 (mem_eraseAo hn2)
      · intro n2 hn2
        exact hs.freshWo n2 (mem_eraseWo hn2)
    · refine ⟨rfl, ⟨rfl, rfl, rfl, rfl, rfl, rfl⟩, ⟨?_, ?_, ?_⟩, fun n2 hn2 => mem_eraseAo hn2,
        fun n2 hn2 => mem_eraseWo hn2⟩
      · intro k' e' hk'
        simp only at hk'
        rw [AL.get?_erase k k' hs.keysNodup] at hk'
        by_cases hkk : k = k'
        · simp [hkk] at hk'
        · simpa [hkk] using hk'
      · intro k' e' hk'
        simp only at hk'
        rw [AL.get?_erase k k' hs.keysNodup] at hk'
        by_cases hkk : k = k'
        · simp [hkk] at hk'
        · simp [hkk] at hk'
          simp only [entryLa]
          cases hao' : e'.ao with
          | none => rfl
          | some id2 =>
            simp only
            by_cases hid : id2 = id
            · subst hid
              by_cases hpk : pend = some k'
              · obtain ⟨ep, hep, h3⟩ := hs.pendIn k' hpk
                rw [hk'] at hep; cases hep
                rw [h3.1] at hao'; cases hao'
              · obtain ⟨id3, n3, hao3, hf3, hk3⟩ := hs.aoLink k' e' hk' hpk
                rw [hao'] at hao3; cases hao3
                rw [hfind] at hf3; cases hf3
                exact absurd (hnk.symm.trans hk3) hkk
            · rw [findAo_eraseAo_ne hid]
      · intro k' e' hk'
        simp only at hk'
        rw [AL.get?_erase k k' hs.keysNodup] at hk'
        by_cases hkk : k = k'
        · simp [hkk] at hk'
        · simp [hkk] at hk'
          simp only [entryLm]
          cases hwo' : e'.wo with
          | none => rfl
          | some id2 =>
            simp only
            by_cases hid : id2 = wid
            · subst hid
              by_cases hpk : pend = some k'
              · obtain ⟨ep, hep, h3⟩ := hs.pendIn k' hpk
                rw [hk'] at hep; cases hep
                rw [h3.2] at hwo'; cases hwo'
              · obtain ⟨id3, n3, hwo3, hf3, hk3⟩ := (hs.woLink k' e' hk' hpk).1 httl
                rw [hwo'] at hwo3; cases hwo3
                rw [hwfind] at hf3; cases hf3
                exact absurd (hwk.symm.trans hk3) hkk
            · rw [findWo_eraseWo_ne hid]

end Unsync
end MiniMoka

namespace MiniMoka
namespace Unsync

/-- The probation list may be re-ordered and re-timed as long as every id keeps its key. -/
theorem struct_reorder_ao {p : Params} {pend : Option Nat} {s s' : UState} (hs : StructP p pend s)
    (hm : s'.map = s.map) (hw : s'.wo = s.wo) (hn : s'.nextId = s.nextId)
    (hf : s'.fault = s.fault) (hnd : (s'.prob.map (·.id)).Nodup)
    (bwd : ∀ id n', findAo s'.prob id = some n' → ∃ n, findAo s.prob id = some n ∧ n.key = n'.key)
    (fwd : ∀ id n, findAo s.prob id = some n → ∃ n', findAo s'.prob id = some n' ∧ n'.key = n.key) :
    StructP p pend s' := by
  refine ⟨hm ▸ hs.keysNodup, hnd, hw ▸ hs.woIds, ?_, ?_, ?_, ?_, ?_, ?_, ?_, hf ▸ hs.noFault⟩
  · intro k e hk hp
    rw [hm] at hk
    obtain ⟨id, n, h1, h2, h3⟩ := hs.aoLink k e hk hp
    obtain ⟨n', h4, h5⟩ := fwd id n h2
    exact ⟨id, n', h1, h4, h5.trans h3⟩
  · intro n' hn'
    have h1 := findAo_of_mem hnd hn'
    obtain ⟨n, h2, h3⟩ := bwd _ _ h1
    have h4 := findAo_some h2
    obtain ⟨e, h5, h6⟩ := hs.aoBack n h4.1
    refine ⟨e, ?_, ?_⟩
    · rw [hm, ← h3]; exact h5
    · rw [h6, h4.2]
  · intro k e hk hp
    rw [hm] at hk
    rw [hw]
    exact hs.woLink k e hk hp
  · intro n hn'
    rw [hw] at hn'
    rw [hm]
    exact hs.woBack n hn'
  · intro k hk
    rw [hm]
    exact hs.pendIn k hk
  · intro n' hn'
    have h1 := findAo_of_mem hnd hn'
    obtain ⟨n, h2, _⟩ := bwd _ _ h1
    have h4 := findAo_some h2
    rw [hn, ← h4.2]
    exact hs.freshAo n h4.1
  · intro n hn'
    rw [hw] at hn'
    rw [hn]
    exact hs.freshWo n hn'

theorem struct_reorder_wo {p : Params} {pend : Option Nat} {s s' : UState} (hs : StructP p pend s)
    (hm : s'.map = s.map) (hw : s'.prob = s.prob) (hn : s'.nextId = s.nextId)
    (hf : s'.fault = s.fault) (hnd : (s'.wo.map (·.id)).Nodup)
    (bwd : ∀ id n', findWo s'.wo id = some n' → ∃ n, findWo s.wo id = some n ∧ n.key = n'.key)
    (fwd : ∀ id n, findWo s.wo id = some n → ∃ n', findWo s'.wo id = some n' ∧ n'.key = n.key) :
    StructP p pend s' := by
  refine ⟨hm ▸ hs.keysNodup, hw ▸ hs.probIds, hnd, ?_, ?_, ?_, ?_, ?_, ?_, ?_, hf ▸ hs.noFault⟩
  · intro k e hk hp
    rw [hm] at hk
    rw [hw]
    exact hs.aoLink k e hk hp
  · intro n hn'
    rw [hw] at hn'
    rw [hm]
    exact hs.aoBack n hn'
  · intro k e hk hp
    rw [hm] at hk
    have := hs.woLink k e hk hp
    refine ⟨fun ht => ?_, this.2⟩
    obtain ⟨id, n, h1, h2, h3⟩ := this.1 ht
    obtain ⟨n', h4, h5⟩ := fwd id n h2
    exact ⟨id, n', h1, h4, h5.trans h3⟩
  · intro n' hn'
    have h1 := findWo_of_mem hnd hn'
    obtain ⟨n, h2, h3⟩ := bwd _ _ h1
    have h4 := findWo_some h2
    obtain ⟨e, h5, h6⟩ := hs.woBack n h4.1
    refine ⟨e, ?_, ?_⟩
    · rw [hm, ← h3]; exact h5
    · rw [h6, h4.2]
  · intro k hk
    rw [hm]
    exact hs.pendIn k hk
  · intro n hn'
    rw [hw] at hn'
    rw [hn]
    exact hs.freshAo n hn'
  · intro n' hn'
    have h1 := findWo_of_mem hnd hn'
    obtain ⟨n, h2, _⟩ := bwd _ _ h1
    have h4 := findWo_some h2
    rw [hn, ← h4.2]
    exact hs.freshWo n h4.1

end Unsync
end MiniMoka
