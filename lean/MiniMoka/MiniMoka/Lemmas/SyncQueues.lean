/-
  Queue lemmas for the sequential sync model (property C09, sequential part).

  `QFrame s s'`: the two operation queues, the housekeeper's `running` flag and
  `sync_after`, and the clock are unchanged, and no `Fault.hang` has been raised.  Every
  building block of maintenance satisfies it.  `QKeep` is `QFrame` without the queues
  (`apply_reads` / `apply_writes` pop them).  On top of that: `applyWrites` pops exactly
  `min n len` operations, a maintenance run (`syncRun`) always leaves both queues empty, and
  the invariant `QInv` under which `scheduleWriteOp` enqueues in its first iteration.
-/
import MiniMoka.Sync

namespace MiniMoka

/-- The sketch raises only `overflow`. -/
theorem Sketch.reset_error {l : Bool} {s : Sketch} {f : Fault}
    (h : Sketch.reset l s = .error f) : f = .overflow := by
  unfold Sketch.reset at h
  dsimp only at h
  split at h
  · cases h; rfl
  · split at h
    · split at h
      · cases h; rfl
      · cases h
    · split at h
      · cases h; rfl
      · cases h

/-- `Sketch.increment` with the counter update and the aging step abstracted (keeps the
kernel away from unfolding `incrementAt` / `reset` on symbolic arguments). -/
def Sketch.incGenQ (inc : Array Nat → Nat → Nat → Array Nat × Bool)
    (rst : Sketch → Except Fault Sketch) (idx : Nat → Nat) (st : Nat) (s : Sketch) :
    Except Fault Sketch :=
  if s.table.size = 0 then .ok s
  else
    Sketch.increment.match_1 (fun _ => Except Fault Sketch) (inc s.table (idx 0) (st + 0)) fun t a0 =>
    Sketch.increment.match_1 (fun _ => Except Fault Sketch) (inc t (idx 1) (st + 1)) fun t a1 =>
    Sketch.increment.match_1 (fun _ => Except Fault Sketch) (inc t (idx 2) (st + 2)) fun t a2 =>
    Sketch.increment.match_1 (fun _ => Except Fault Sketch) (inc t (idx 3) (st + 3)) fun t a3 =>
    if a0 || a1 || a2 || a3 then
      if s.size + 1 > U32_MAX then .error .overflow
      else
        let s' := { s with table := t, size := s.size + 1 }
        if s'.size ≥ s'.sampleSize then rst s' else .ok s'
    else .ok { s with table := t }

theorem Sketch.increment_eq_incGenQ (legacy : Bool) (s : Sketch) (hash : UInt64) :
    Sketch.increment legacy s hash
      = Sketch.incGenQ Sketch.incrementAt (Sketch.reset legacy) (s.indexOf hash)
          (Sketch.start hash) s := rfl

theorem Sketch.incGenQ_error (inc : Array Nat → Nat → Nat → Array Nat × Bool)
    (rst : Sketch → Except Fault Sketch) (idx : Nat → Nat) (st : Nat) (s : Sketch)
    (hr : ∀ s f, rst s = .error f → f = .overflow) {f : Fault}
    (h : Sketch.incGenQ inc rst idx st s = .error f) : f = .overflow := by
  unfold Sketch.incGenQ at h
  generalize inc s.table (idx 0) (st + 0) = r0 at h
  obtain ⟨t0, a0⟩ := r0
  generalize inc t0 (idx 1) (st + 1) = r1 at h
  obtain ⟨t1, a1⟩ := r1
  generalize inc t1 (idx 2) (st + 2) = r2 at h
  obtain ⟨t2, a2⟩ := r2
  generalize inc t2 (idx 3) (st + 3) = r3 at h
  obtain ⟨t3, a3⟩ := r3
  dsimp only at h
  split at h
  · cases h
  · split at h
    · split at h
      · cases h; rfl
      · split at h
        · exact hr _ _ h
        · cases h
    · cases h

theorem Sketch.increment_error {l : Bool} {s : Sketch} {hash : UInt64} {f : Fault}
    (h : Sketch.increment l s hash = .error f) : f = .overflow := by
  rw [Sketch.increment_eq_incGenQ] at h
  exact Sketch.incGenQ_error _ _ _ _ _ (fun _ _ h => Sketch.reset_error h) h

namespace Sync

/-! ### the frame -/

structure QFrame (s s' : SState) : Prop where
  writeQ : s'.writeQ = s.writeQ
  readQ : s'.readQ = s.readQ
  running : s'.running = s.running
  now : s'.now = s.now
  syncAfter : s'.syncAfter = s.syncAfter
  hang : s'.fault = some Fault.hang → s.fault = some Fault.hang

theorem QFrame.refl (s : SState) : QFrame s s := ⟨rfl, rfl, rfl, rfl, rfl, fun h => h⟩

theorem QFrame.trans {a b c : SState} (h1 : QFrame a b) (h2 : QFrame b c) : QFrame a c :=
  ⟨h2.writeQ.trans h1.writeQ, h2.readQ.trans h1.readQ, h2.running.trans h1.running,
   h2.now.trans h1.now, h2.syncAfter.trans h1.syncAfter, fun h => h1.hang (h2.hang h)⟩

/-- A state that differs only in fields the frame does not mention. -/
theorem qframe_of_eq {s s' : SState} (hw : s'.writeQ = s.writeQ) (hr : s'.readQ = s.readQ)
    (hg : s'.running = s.running) (hn : s'.now = s.now) (ha : s'.syncAfter = s.syncAfter)
    (hf : s'.fault = s.fault) : QFrame s s' :=
  ⟨hw, hr, hg, hn, ha, fun h => by rw [← hf]; exact h⟩

theorem qframe_fail (s : SState) (f : Fault) (hf : f ≠ Fault.hang) : QFrame s (s.fail f) := by
  unfold SState.fail; split
  · exact QFrame.refl s
  · refine ⟨rfl, rfl, rfl, rfl, rfl, ?_⟩
    intro h
    simp only [Option.some.injEq] at h
    exact absurd h hf

theorem qframe_withInfo (s : SState) (i : Nat) (f : Info → Info) : QFrame s (withInfo s i f) :=
  qframe_of_eq rfl rfl rfl rfl rfl rfl

/-! ### record updates of fields the frame does not mention -/

theorem qframe_set_map (s : SState) (x : List (Nat × VE)) : QFrame s { s with map := x } :=
  qframe_of_eq rfl rfl rfl rfl rfl rfl
theorem qframe_set_prob (s : SState) (x : List AoNode) : QFrame s { s with prob := x } :=
  qframe_of_eq rfl rfl rfl rfl rfl rfl
theorem qframe_set_wo (s : SState) (x : List WoNode) : QFrame s { s with wo := x } :=
  qframe_of_eq rfl rfl rfl rfl rfl rfl
theorem qframe_set_cec (s : SState) (x : Nat) : QFrame s { s with cec := x } :=
  qframe_of_eq rfl rfl rfl rfl rfl rfl
theorem qframe_set_cws (s : SState) (x : Nat) : QFrame s { s with cws := x } :=
  qframe_of_eq rfl rfl rfl rfl rfl rfl
theorem qframe_set_cec_cws (s : SState) (x y : Nat) : QFrame s { s with cec := x, cws := y } :=
  qframe_of_eq rfl rfl rfl rfl rfl rfl
theorem qframe_set_ec_ws (s : SState) (x y : Nat) : QFrame s { s with ec := x, ws := y } :=
  qframe_of_eq rfl rfl rfl rfl rfl rfl
theorem qframe_set_sk (s : SState) (x : Sketch) : QFrame s { s with sk := x } :=
  qframe_of_eq rfl rfl rfl rfl rfl rfl
theorem qframe_set_sk_on (s : SState) (x : Sketch) (b : Bool) :
    QFrame s { s with sk := x, skOn := b } :=
  qframe_of_eq rfl rfl rfl rfl rfl rfl
theorem qframe_push_ao (s : SState) (x : List AoNode) :
    QFrame s { s with prob := x, nextId := s.nextId + 1 } :=
  qframe_of_eq rfl rfl rfl rfl rfl rfl
theorem qframe_push_wo (s : SState) (x : List WoNode) :
    QFrame s { s with wo := x, nextId := s.nextId + 1 } :=
  qframe_of_eq rfl rfl rfl rfl rfl rfl

/-- Peels one layer off the target state, working backwards from the result. -/
macro "qframe_step" : tactic => `(tactic| first
  | exact QFrame.refl _
  | exact qframe_fail _ _ (by decide)
  | refine QFrame.trans ?_ (qframe_fail _ _ (by decide))
  | refine QFrame.trans ?_ (qframe_withInfo _ _ _)
  | refine QFrame.trans ?_ (qframe_set_map _ _)
  | refine QFrame.trans ?_ (qframe_set_prob _ _)
  | refine QFrame.trans ?_ (qframe_set_wo _ _)
  | refine QFrame.trans ?_ (qframe_set_cec _ _)
  | refine QFrame.trans ?_ (qframe_set_cws _ _)
  | refine QFrame.trans ?_ (qframe_set_cec_cws _ _ _)
  | refine QFrame.trans ?_ (qframe_set_ec_ws _ _ _)
  | refine QFrame.trans ?_ (qframe_set_sk _ _)
  | refine QFrame.trans ?_ (qframe_set_sk_on _ _ _)
  | refine QFrame.trans ?_ (qframe_push_ao _ _)
  | refine QFrame.trans ?_ (qframe_push_wo _ _))

/-! ### the primitives of maintenance -/

theorem moveNodeToBackAo_qframe (s : SState) (id : Nat) : QFrame s (moveNodeToBackAo s id) := by
  unfold moveNodeToBackAo; split <;> repeat qframe_step

theorem moveNodeToBackWo_qframe (s : SState) (id : Nat) : QFrame s (moveNodeToBackWo s id) := by
  unfold moveNodeToBackWo; split <;> repeat qframe_step

theorem moveToBackAoE_qframe (s : SState) (i : Nat) : QFrame s (moveToBackAoE s i) := by
  unfold moveToBackAoE; split
  · exact QFrame.refl s
  · exact moveNodeToBackAo_qframe s _

theorem moveToBackWoE_qframe (s : SState) (i : Nat) : QFrame s (moveToBackWoE s i) := by
  unfold moveToBackWoE; split
  · exact QFrame.refl s
  · exact moveNodeToBackWo_qframe s _

theorem unlinkAo_qframe (s : SState) (i : Nat) : QFrame s (unlinkAo s i) := by
  unfold unlinkAo; split
  · exact QFrame.refl s
  · dsimp only; split <;> repeat qframe_step

theorem unlinkWo_qframe (s : SState) (i : Nat) : QFrame s (unlinkWo s i) := by
  unfold unlinkWo; split
  · exact QFrame.refl s
  · dsimp only; split <;> repeat qframe_step

theorem subCounters_qframe (s : SState) (n w : Nat) : QFrame s (subCounters s n w) := by
  unfold subCounters
  dsimp only
  split <;> repeat qframe_step

theorem addCounters_qframe (s : SState) (n w : Nat) : QFrame s (addCounters s n w) :=
  qframe_of_eq rfl rfl rfl rfl rfl rfl

theorem sketchIncrement_qframe (p : Params) (s : SState) (h : UInt64) :
    QFrame s (sketchIncrement p s h) := by
  unfold sketchIncrement
  split
  · qframe_step; exact QFrame.refl s
  · rename_i f hf
    rw [Sketch.increment_error hf]
    exact qframe_fail _ _ (by decide)

theorem applyRead_qframe (p : Params) (s : SState) (op : ROp) : QFrame s (applyRead p s op) := by
  cases op with
  | miss hash => exact sketchIncrement_qframe _ _ _
  | hit hash ve ts =>
    unfold applyRead
    dsimp only
    have h1 : QFrame s (sketchIncrement p s hash) := sketchIncrement_qframe _ _ _
    generalize sketchIncrement p s hash = s1 at h1 ⊢
    have h2 : QFrame s1 (if p.q.d6 = true then withInfo s1 ve.info (fun i => { i with la := ts })
        else if (getInfo s1 ve.info).la < ts then withInfo s1 ve.info (fun i => { i with la := ts })
        else s1) := by
      split
      · exact qframe_withInfo _ _ _
      · split
        · exact qframe_withInfo _ _ _
        · exact QFrame.refl _
    generalize (if p.q.d6 = true then withInfo s1 ve.info (fun i => { i with la := ts })
        else if (getInfo s1 ve.info).la < ts then withInfo s1 ve.info (fun i => { i with la := ts })
        else s1) = s2 at h2 ⊢
    split
    · exact (h1.trans h2).trans (moveToBackAoE_qframe _ _)
    · exact h1.trans h2

theorem handleRemove_qframe (s : SState) (ve : VE) : QFrame s (handleRemove s ve) := by
  unfold handleRemove
  dsimp only
  split
  · refine QFrame.trans ?_ (unlinkWo_qframe _ _)
    refine QFrame.trans ?_ (unlinkAo_qframe _ _)
    refine QFrame.trans ?_ (subCounters_qframe _ _ _)
    repeat qframe_step
  · repeat qframe_step

theorem handleAdmit_qframe (p : Params) (s : SState) (key : Nat) (hash : UInt64) (ve : VE)
    (w : Nat) : QFrame s (handleAdmit p s key hash ve w) := by
  unfold handleAdmit
  dsimp only
  qframe_step
  split
  · qframe_step
    qframe_step
    qframe_step
    qframe_step
    split
    · exact addCounters_qframe _ _ _
    · qframe_step
      exact addCounters_qframe _ _ _
  · qframe_step
    qframe_step
    split
    · exact addCounters_qframe _ _ _
    · qframe_step
      exact addCounters_qframe _ _ _

theorem removeVictims_qframe (p : Params) (vs : List AoNode) :
    ∀ (s : SState) (sk : List AoNode), QFrame s (removeVictims p vs s sk).1 := by
  induction vs with
  | nil => intro s sk; exact QFrame.refl s
  | cons v rest ih =>
    intro s sk
    unfold removeVictims
    split
    · exact (qframe_fail s _ (by decide)).trans (ih _ _)
    · split
      · refine QFrame.trans ?_ (ih _ _)
        refine QFrame.trans ?_ (handleRemove_qframe _ _)
        qframe_step; exact QFrame.refl s
      · exact ih _ _

theorem moveSkipped_qframe (ns : List AoNode) : ∀ (s : SState), QFrame s (moveSkipped ns s) := by
  induction ns with
  | nil => intro s; exact QFrame.refl s
  | cons n rest ih => intro s; exact (moveNodeToBackAo_qframe s n.id).trans (ih _)

theorem removeCandidate_qframe (p : Params) (s : SState) (key : Nat) (ve : VE) :
    QFrame s (removeCandidate p s key ve) := by
  unfold removeCandidate
  split
  · split
    · qframe_step; exact QFrame.refl s
    · exact QFrame.refl s
  · exact QFrame.refl s

theorem applyUpdate_qframe (p : Params) (s : SState) (ve : VE) (oldW newW : Nat) :
    QFrame s (applyUpdate p s ve oldW newW) := by
  unfold applyUpdate
  dsimp only
  refine QFrame.trans ?_ (moveToBackWoE_qframe _ _)
  refine QFrame.trans ?_ (moveToBackAoE_qframe _ _)
  split
  · refine QFrame.trans ?_ (addCounters_qframe _ _ _)
    exact subCounters_qframe _ _ _
  · qframe_step
    refine QFrame.trans ?_ (addCounters_qframe _ _ _)
    exact subCounters_qframe _ _ _

theorem admitOrReject_qframe (p : Params) (s : SState) (key : Nat) (hash : UInt64) (ve : VE)
    (newW : Nat) : QFrame s (admitOrReject p s key hash ve newW) := by
  unfold admitOrReject
  dsimp only
  split
  · refine QFrame.trans ?_ (moveSkipped_qframe _ _)
    refine QFrame.trans ?_ (handleAdmit_qframe _ _ _ _ _ _)
    exact removeVictims_qframe _ _ _ _
  · refine QFrame.trans ?_ (moveSkipped_qframe _ _)
    exact removeCandidate_qframe _ _ _ _

theorem handleUpsert_qframe (p : Params) (s : SState) (key : Nat) (hash : UInt64) (ve : VE)
    (oldW newW : Nat) : QFrame s (handleUpsert p s key hash ve oldW newW) := by
  unfold handleUpsert
  dsimp only
  have h0 : QFrame s (withInfo s ve.info (fun i => { i with dirty := false })) :=
    qframe_withInfo _ _ _
  refine QFrame.trans h0 ?_
  generalize withInfo s ve.info (fun i => { i with dirty := false }) = s1
  repeat' split
  all_goals first
    | exact applyUpdate_qframe _ _ _ _ _
    | exact QFrame.refl _
    | exact handleAdmit_qframe _ _ _ _ _ _
    | exact removeCandidate_qframe _ _ _ _
    | exact admitOrReject_qframe _ _ _ _ _ _

theorem applyWrite_qframe (p : Params) (s : SState) (op : WOp) : QFrame s (applyWrite p s op) := by
  cases op with
  | upsert key hash ve oldW newW => exact handleUpsert_qframe _ _ _ _ _ _ _
  | remove key ve => exact handleRemove_qframe _ _

theorem trySkipUpdated_qframe (s : SState) (key : Nat) : QFrame s (trySkipUpdated s key).1 := by
  unfold trySkipUpdated
  split
  · split
    · exact (moveToBackAoE_qframe _ _).trans (moveToBackWoE_qframe _ _)
    · exact QFrame.refl s
  · split
    · exact moveNodeToBackAo_qframe _ _
    · exact QFrame.refl s

theorem removeExpiredAo_qframe (p : Params) (n : Nat) :
    ∀ (s : SState), QFrame s (removeExpiredAo p n s) := by
  induction n with
  | zero => intro s; exact QFrame.refl s
  | succ n ih =>
    intro s
    unfold removeExpiredAo
    split
    · exact QFrame.refl s
    · split
      · dsimp only
        split
        · refine QFrame.trans ?_ (ih _)
          refine QFrame.trans ?_ (handleRemove_qframe _ _)
          qframe_step; exact QFrame.refl s
        · split
          · exact (trySkipUpdated_qframe s _).trans (ih _)
          · exact trySkipUpdated_qframe s _
      · exact QFrame.refl s

theorem removeExpiredWo_qframe (p : Params) (n : Nat) :
    ∀ (s : SState), QFrame s (removeExpiredWo p n s) := by
  induction n with
  | zero => intro s; exact QFrame.refl s
  | succ n ih =>
    intro s
    unfold removeExpiredWo
    split
    · exact QFrame.refl s
    · split
      · dsimp only
        split
        · refine QFrame.trans ?_ (ih _)
          refine QFrame.trans ?_ (handleRemove_qframe _ _)
          qframe_step; exact QFrame.refl s
        · split
          · split
            · exact ((moveToBackAoE_qframe _ _).trans (moveToBackWoE_qframe _ _)).trans (ih _)
            · exact QFrame.refl s
          · exact (moveNodeToBackWo_qframe _ _).trans (ih _)
      · exact QFrame.refl s

theorem evictExpired_qframe (p : Params) (s : SState) : QFrame s (evictExpired p s) := by
  unfold evictExpired
  dsimp only
  split
  · split
    · exact (removeExpiredWo_qframe _ _ _).trans (removeExpiredAo_qframe _ _ _)
    · exact removeExpiredWo_qframe _ _ _
  · split
    · exact removeExpiredAo_qframe _ _ _
    · exact QFrame.refl s

theorem evictLruLoop_qframe (p : Params) (n : Nat) :
    ∀ (s : SState) (wte ev : Nat), QFrame s (evictLruLoop p n s wte ev) := by
  induction n with
  | zero => intro s _ _; exact QFrame.refl s
  | succ n ih =>
    intro s wte ev
    unfold evictLruLoop
    split
    · exact QFrame.refl s
    · split
      · exact QFrame.refl s
      · dsimp only
        split
        · split
          · exact (trySkipUpdated_qframe s _).trans (ih _ _ _)
          · exact trySkipUpdated_qframe s _
        · split
          · refine QFrame.trans ?_ (ih _ _ _)
            refine QFrame.trans ?_ (handleRemove_qframe _ _)
            qframe_step; exact QFrame.refl s
          · split
            · exact (trySkipUpdated_qframe s _).trans (ih _ _ _)
            · exact trySkipUpdated_qframe s _

theorem enableSketch_qframe (p : Params) (s : SState) : QFrame s (enableSketch p s) := by
  unfold enableSketch
  split
  · qframe_step; exact QFrame.refl s
  · exact QFrame.refl s

/-! ### `QKeep`: the frame without the queues -/

structure QKeep (s s' : SState) : Prop where
  running : s'.running = s.running
  now : s'.now = s.now
  syncAfter : s'.syncAfter = s.syncAfter
  hang : s'.fault = some Fault.hang → s.fault = some Fault.hang

theorem QKeep.refl (s : SState) : QKeep s s := ⟨rfl, rfl, rfl, fun h => h⟩

theorem QKeep.trans {a b c : SState} (h1 : QKeep a b) (h2 : QKeep b c) : QKeep a c :=
  ⟨h2.running.trans h1.running, h2.now.trans h1.now, h2.syncAfter.trans h1.syncAfter,
   fun h => h1.hang (h2.hang h)⟩

theorem QFrame.toKeep {s s' : SState} (h : QFrame s s') : QKeep s s' :=
  ⟨h.running, h.now, h.syncAfter, h.hang⟩

/-! ### `apply_writes` / `apply_reads` pop their queue -/

/-- `applyWrites p n` removes exactly the first `min n len` operations of the write queue and
touches neither the read queue nor the housekeeper. -/
theorem applyWrites_spec (p : Params) (n : Nat) : ∀ (s : SState),
    (applyWrites p n s).writeQ = s.writeQ.drop n ∧ (applyWrites p n s).readQ = s.readQ ∧
    QKeep s (applyWrites p n s) := by
  induction n with
  | zero => intro s; exact ⟨rfl, rfl, QKeep.refl s⟩
  | succ n ih =>
    intro s
    unfold applyWrites
    split
    · rename_i hq
      exact ⟨by rw [hq]; rfl, rfl, QKeep.refl s⟩
    · rename_i op rest hq
      have hf := applyWrite_qframe p { s with writeQ := rest } op
      obtain ⟨h1, h2, h3⟩ := ih (applyWrite p { s with writeQ := rest } op)
      refine ⟨?_, ?_, ?_⟩
      · rw [h1, hf.writeQ, hq]; rfl
      · rw [h2, hf.readQ]
      · exact QKeep.trans ⟨hf.running, hf.now, hf.syncAfter, hf.hang⟩ h3

theorem applyWrites_writeQ (p : Params) (n : Nat) (s : SState) :
    (applyWrites p n s).writeQ = s.writeQ.drop n := (applyWrites_spec p n s).1

theorem applyWrites_writeQ_length (p : Params) (n : Nat) (s : SState) :
    (applyWrites p n s).writeQ.length = s.writeQ.length - n := by
  rw [applyWrites_writeQ, List.length_drop]

theorem applyWrites_running (p : Params) (n : Nat) (s : SState) :
    (applyWrites p n s).running = s.running := (applyWrites_spec p n s).2.2.running

theorem applyReads_spec (p : Params) (n : Nat) : ∀ (s : SState),
    (applyReads p n s).readQ = s.readQ.drop n ∧ (applyReads p n s).writeQ = s.writeQ ∧
    QKeep s (applyReads p n s) := by
  induction n with
  | zero => intro s; exact ⟨rfl, rfl, QKeep.refl s⟩
  | succ n ih =>
    intro s
    unfold applyReads
    split
    · rename_i hq
      exact ⟨by rw [hq]; rfl, rfl, QKeep.refl s⟩
    · rename_i op rest hq
      have hf := applyRead_qframe p { s with readQ := rest } op
      obtain ⟨h1, h2, h3⟩ := ih (applyRead p { s with readQ := rest } op)
      refine ⟨?_, ?_, ?_⟩
      · rw [h1, hf.readQ, hq]; rfl
      · rw [h2, hf.writeQ]
      · exact QKeep.trans ⟨hf.running, hf.now, hf.syncAfter, hf.hang⟩ h3

theorem applyReads_readQ (p : Params) (n : Nat) (s : SState) :
    (applyReads p n s).readQ = s.readQ.drop n := (applyReads_spec p n s).1

theorem applyReads_writeQ (p : Params) (n : Nat) (s : SState) :
    (applyReads p n s).writeQ = s.writeQ := (applyReads_spec p n s).2.1

theorem applyReads_running (p : Params) (n : Nat) (s : SState) :
    (applyReads p n s).running = s.running := (applyReads_spec p n s).2.2.running

/-! ### one pass of the `Inner::sync` loop empties both queues -/

/-- The body of the `while` loop of `Inner::sync`. -/
def syncPass (p : Params) (s : SState) : SState :=
  let s := if s.readQ.length > 0 then applyReads p s.readQ.length s else s
  let s := if s.writeQ.length > 0 then applyWrites p s.writeQ.length s else s
  if shouldEnableSketch p s then enableSketch p s else s

theorem syncLoop_succ (p : Params) (fuel : Nat) (s : SState) :
    syncLoop p (fuel + 1) s =
      if ((syncPass p s).readQ.length ≥ Gen.READ_LOG_FLUSH_POINT ||
          (syncPass p s).writeQ.length ≥ Gen.WRITE_LOG_FLUSH_POINT) = true
      then syncLoop p fuel (syncPass p s) else syncPass p s := rfl

private theorem nil_of_not_pos {α : Type} {l : List α} (h : ¬ l.length > 0) : l = [] := by
  cases l with
  | nil => rfl
  | cons a t => exact absurd (Nat.succ_pos _) h

theorem syncPass_spec (p : Params) (s : SState) :
    (syncPass p s).writeQ = [] ∧ (syncPass p s).readQ = [] ∧ QKeep s (syncPass p s) := by
  unfold syncPass
  dsimp only
  have h1 : (if s.readQ.length > 0 then applyReads p s.readQ.length s else s).readQ = [] ∧
      (if s.readQ.length > 0 then applyReads p s.readQ.length s else s).writeQ = s.writeQ ∧
      QKeep s (if s.readQ.length > 0 then applyReads p s.readQ.length s else s) := by
    split
    · obtain ⟨a, b, c⟩ := applyReads_spec p s.readQ.length s
      exact ⟨by rw [a, List.drop_length], b, c⟩
    · rename_i h
      exact ⟨nil_of_not_pos h, rfl, QKeep.refl s⟩
  generalize (if s.readQ.length > 0 then applyReads p s.readQ.length s else s) = s1 at h1 ⊢
  obtain ⟨h1r, _, h1k⟩ := h1
  have h2 : (if s1.writeQ.length > 0 then applyWrites p s1.writeQ.length s1 else s1).writeQ = [] ∧
      (if s1.writeQ.length > 0 then applyWrites p s1.writeQ.length s1 else s1).readQ = s1.readQ ∧
      QKeep s1 (if s1.writeQ.length > 0 then applyWrites p s1.writeQ.length s1 else s1) := by
    split
    · obtain ⟨a, b, c⟩ := applyWrites_spec p s1.writeQ.length s1
      exact ⟨by rw [a, List.drop_length], b, c⟩
    · rename_i h
      exact ⟨nil_of_not_pos h, rfl, QKeep.refl s1⟩
  generalize (if s1.writeQ.length > 0 then applyWrites p s1.writeQ.length s1 else s1) = s2 at h2 ⊢
  obtain ⟨h2w, h2r, h2k⟩ := h2
  split
  · have hf := enableSketch_qframe p s2
    exact ⟨by rw [hf.writeQ, h2w], by rw [hf.readQ, h2r, h1r], (h1k.trans h2k).trans hf.toKeep⟩
  · exact ⟨h2w, by rw [h2r, h1r], h1k.trans h2k⟩

theorem syncLoop_keep (p : Params) (fuel : Nat) : ∀ (s : SState), QKeep s (syncLoop p fuel s) := by
  induction fuel with
  | zero => intro s; exact QKeep.refl s
  | succ fuel ih =>
    intro s
    rw [syncLoop_succ]
    split
    · exact (syncPass_spec p s).2.2.trans (ih _)
    · exact (syncPass_spec p s).2.2

/-- With both queues empty the loop has nothing to do to them (whatever the flush points). -/
theorem syncLoop_empty (p : Params) (fuel : Nat) : ∀ (s : SState), s.writeQ = [] → s.readQ = [] →
    (syncLoop p fuel s).writeQ = [] ∧ (syncLoop p fuel s).readQ = [] := by
  induction fuel with
  | zero => intro s hw hr; exact ⟨hw, hr⟩
  | succ fuel ih =>
    intro s _ _
    obtain ⟨a, b, _⟩ := syncPass_spec p s
    rw [syncLoop_succ]
    split
    · exact ih _ a b
    · exact ⟨a, b⟩

/-- The loop of `Inner::sync`, run at least once, ends with both queues empty. -/
theorem syncLoop_queues (p : Params) (fuel : Nat) (s : SState) :
    (syncLoop p (fuel + 1) s).writeQ = [] ∧ (syncLoop p (fuel + 1) s).readQ = [] := by
  obtain ⟨a, b, _⟩ := syncPass_spec p s
  rw [syncLoop_succ]
  split
  · exact syncLoop_empty p fuel _ a b
  · exact ⟨a, b⟩

/-! ### `Inner::sync` and the housekeeper -/

theorem syncRun_spec (p : Params) (s : SState) :
    (syncRun p s).writeQ = [] ∧ (syncRun p s).readQ = [] ∧ QKeep s (syncRun p s) := by
  unfold syncRun
  dsimp only
  have h0 : QFrame s { s with cec := s.ec, cws := s.ws } := qframe_set_cec_cws _ _ _
  have h1 := syncLoop_queues p Gen.MAX_SYNC_REPEATS { s with cec := s.ec, cws := s.ws }
  have h1k := syncLoop_keep p (Gen.MAX_SYNC_REPEATS + 1) { s with cec := s.ec, cws := s.ws }
  generalize syncLoop p (Gen.MAX_SYNC_REPEATS + 1) { s with cec := s.ec, cws := s.ws } = s1
    at h1 h1k ⊢
  have h2 : QFrame s1 (if (p.hasExpiry || s1.va.isSome) = true then evictExpired p s1 else s1) := by
    split
    · exact evictExpired_qframe _ _
    · exact QFrame.refl _
  generalize (if (p.hasExpiry || s1.va.isSome) = true then evictExpired p s1 else s1) = s2 at h2 ⊢
  have h3 : QFrame s2 (if weightsToEvict p s2 > 0
      then evictLruLoop p Gen.SYNC_EVICTION_BATCH_SIZE s2 (weightsToEvict p s2) 0 else s2) := by
    split
    · exact evictLruLoop_qframe _ _ _ _ _
    · exact QFrame.refl _
  generalize (if weightsToEvict p s2 > 0
      then evictLruLoop p Gen.SYNC_EVICTION_BATCH_SIZE s2 (weightsToEvict p s2) 0 else s2) = s3
    at h3 ⊢
  have h4 : QFrame s1 { s3 with ec := s3.cec, ws := s3.cws } :=
    (h2.trans h3).trans (qframe_set_ec_ws _ _ _)
  exact ⟨by rw [h4.writeQ, h1.1], by rw [h4.readQ, h1.2], (h0.toKeep.trans h1k).trans h4.toKeep⟩

theorem syncRun_writeQ (p : Params) (s : SState) : (syncRun p s).writeQ = [] :=
  (syncRun_spec p s).1

theorem syncRun_readQ (p : Params) (s : SState) : (syncRun p s).readQ = [] :=
  (syncRun_spec p s).2.1

theorem syncRun_running (p : Params) (s : SState) : (syncRun p s).running = s.running :=
  (syncRun_spec p s).2.2.running

/-- What `Housekeeper::try_sync` does when no maintenance run is in progress. -/
structure Synced (s s' : SState) : Prop where
  writeQ : s'.writeQ = []
  readQ : s'.readQ = []
  running : s'.running = false
  now : s'.now = s.now
  hang : s'.fault = some Fault.hang → s.fault = some Fault.hang

theorem trySync_spec (p : Params) (s : SState) (hr : s.running = false) :
    Synced s (trySync p s) := by
  unfold trySync
  rw [if_neg (by rw [hr]; exact Bool.false_ne_true)]
  dsimp only
  obtain ⟨a, b, c⟩ := syncRun_spec p
    { s with running := true, syncAfter := s.now + Gen.PERIODICAL_SYNC_INTERVAL_MILLIS * 1000000 }
  exact ⟨a, b, rfl, c.now, c.hang⟩

/-- While a maintenance run is in progress (`running`), `try_sync` does nothing. -/
theorem trySync_running (p : Params) (s : SState) (hr : s.running = true) : trySync p s = s := by
  unfold trySync
  rw [if_pos hr]

/-! ### the queue invariant of single-threaded use -/

/-- Between two API calls of the one thread: no maintenance run is in progress and both
queues are at most at their flush points. -/
structure QInv (s : SState) : Prop where
  running : s.running = false
  writeQ : s.writeQ.length ≤ Gen.WRITE_LOG_FLUSH_POINT
  readQ : s.readQ.length ≤ Gen.READ_LOG_FLUSH_POINT

/-- The only facts about the (regenerated) constants that the argument uses. -/
theorem wfp_pos : 0 < Gen.WRITE_LOG_FLUSH_POINT := by decide
theorem wfp_lt_size : Gen.WRITE_LOG_FLUSH_POINT < Gen.WRITE_LOG_SIZE := by decide
theorem rfp_pos : 0 < Gen.READ_LOG_FLUSH_POINT := by decide
theorem rfp_lt_size : Gen.READ_LOG_FLUSH_POINT < Gen.READ_LOG_SIZE := by decide

theorem qinv_init : QInv ({} : SState) :=
  ⟨rfl, Nat.zero_le _, Nat.zero_le _⟩

/-- A state that differs only in fields the invariant does not mention. -/
theorem qinv_of_eq {s s' : SState} (h : QInv s) (hg : s'.running = s.running)
    (hw : s'.writeQ = s.writeQ) (hr : s'.readQ = s.readQ) : QInv s' :=
  ⟨by rw [hg]; exact h.running, by rw [hw]; exact h.writeQ, by rw [hr]; exact h.readQ⟩

/-- The maintenance that `schedule_write_op` performs before it tries to send. -/
def housekeepW (p : Params) (s : SState) : SState :=
  if shouldApply s s.writeQ.length Gen.WRITE_LOG_FLUSH_POINT then trySync p s else s

/-- The maintenance that `record_read_op` performs before it tries to send. -/
def housekeepR (p : Params) (s : SState) : SState :=
  if shouldApply s s.readQ.length Gen.READ_LOG_FLUSH_POINT then trySync p s else s

/-- Both housekeeping regimes: if maintenance is due (queue at the flush point, or within the
periodic-sync interval) it runs and empties the queues; if not, the write queue is below its
flush point. Either way there is room. -/
theorem housekeepW_spec (p : Params) {s : SState} (h : QInv s) :
    QInv (housekeepW p s) ∧ (housekeepW p s).writeQ.length < Gen.WRITE_LOG_FLUSH_POINT ∧
    ((housekeepW p s).fault = some Fault.hang → s.fault = some Fault.hang) ∧
    (housekeepW p s).now = s.now := by
  unfold housekeepW
  split
  · have hs := trySync_spec p s h.running
    refine ⟨⟨hs.running, ?_, ?_⟩, ?_, hs.hang, hs.now⟩
    · rw [hs.writeQ]; exact Nat.zero_le _
    · rw [hs.readQ]; exact Nat.zero_le _
    · rw [hs.writeQ]; exact wfp_pos
  · rename_i hsa
    refine ⟨h, ?_, fun x => x, rfl⟩
    unfold shouldApply at hsa
    simp only [Bool.or_eq_true, decide_eq_true_eq, not_or, Nat.not_le] at hsa
    exact hsa.1

theorem housekeepR_spec (p : Params) {s : SState} (h : QInv s) :
    QInv (housekeepR p s) ∧ (housekeepR p s).readQ.length < Gen.READ_LOG_FLUSH_POINT ∧
    ((housekeepR p s).fault = some Fault.hang → s.fault = some Fault.hang) ∧
    (housekeepR p s).now = s.now := by
  unfold housekeepR
  split
  · have hs := trySync_spec p s h.running
    refine ⟨⟨hs.running, ?_, ?_⟩, ?_, hs.hang, hs.now⟩
    · rw [hs.writeQ]; exact Nat.zero_le _
    · rw [hs.readQ]; exact Nat.zero_le _
    · rw [hs.readQ]; exact rfp_pos
  · rename_i hsa
    refine ⟨h, ?_, fun x => x, rfl⟩
    unfold shouldApply at hsa
    simp only [Bool.or_eq_true, decide_eq_true_eq, not_or, Nat.not_le] at hsa
    exact hsa.1

/-- Under the invariant, `schedule_write_op` sends in its first iteration: it never retries,
let alone runs out of fuel (the `Fault.hang` branch). -/
theorem scheduleWriteOp_enqueues (p : Params) (fuel : Nat) {s : SState} (h : QInv s) (op : WOp) :
    scheduleWriteOp p (fuel + 1) s op =
      { housekeepW p s with writeQ := (housekeepW p s).writeQ ++ [op] } := by
  have hk := (housekeepW_spec p h).2.1
  show (if (housekeepW p s).writeQ.length < Gen.WRITE_LOG_SIZE
      then { housekeepW p s with writeQ := (housekeepW p s).writeQ ++ [op] }
      else scheduleWriteOp p fuel (housekeepW p s) op) = _
  rw [if_pos (Nat.lt_trans hk wfp_lt_size)]

theorem scheduleWriteOp_spec (p : Params) (fuel : Nat) {s0 s : SState} (h : QInv s)
    (hf : s.fault = s0.fault) (op : WOp) :
    QInv (scheduleWriteOp p (fuel + 1) s op) ∧
    ((scheduleWriteOp p (fuel + 1) s op).fault = some Fault.hang →
      s0.fault = some Fault.hang) := by
  rw [scheduleWriteOp_enqueues p fuel h]
  obtain ⟨hi, hlt, hh, _⟩ := housekeepW_spec p h
  refine ⟨⟨hi.running, ?_, hi.readQ⟩, fun x => by rw [← hf]; exact hh x⟩
  show ((housekeepW p s).writeQ ++ [op]).length ≤ _
  rw [List.length_append]
  exact hlt

/-- Under the invariant, `record_read_op` never drops the read operation. -/
theorem recordReadOp_enqueues (p : Params) {s : SState} (h : QInv s) (op : ROp) :
    recordReadOp p s op = { housekeepR p s with readQ := (housekeepR p s).readQ ++ [op] } := by
  have hk := (housekeepR_spec p h).2.1
  show (if (housekeepR p s).readQ.length < Gen.READ_LOG_SIZE
      then { housekeepR p s with readQ := (housekeepR p s).readQ ++ [op] }
      else housekeepR p s) = _
  rw [if_pos (Nat.lt_trans hk rfp_lt_size)]

theorem recordReadOp_spec (p : Params) {s : SState} (h : QInv s) (op : ROp) :
    QInv (recordReadOp p s op) ∧
    ((recordReadOp p s op).fault = some Fault.hang → s.fault = some Fault.hang) := by
  obtain ⟨hi, hlt, hh, _⟩ := housekeepR_spec p h
  show QInv (if (housekeepR p s).readQ.length < Gen.READ_LOG_SIZE
      then { housekeepR p s with readQ := (housekeepR p s).readQ ++ [op] }
      else housekeepR p s) ∧
    ((if (housekeepR p s).readQ.length < Gen.READ_LOG_SIZE
      then { housekeepR p s with readQ := (housekeepR p s).readQ ++ [op] }
      else housekeepR p s).fault = some Fault.hang → s.fault = some Fault.hang)
  split
  · refine ⟨⟨hi.running, hi.writeQ, ?_⟩, hh⟩
    show ((housekeepR p s).readQ ++ [op]).length ≤ _
    rw [List.length_append]
    exact hlt
  · exact ⟨hi, hh⟩

/-! ### the API calls -/

theorem insert_spec (p : Params) {s : SState} (h : QInv s) (k v : Nat) :
    QInv (insert p s k v) ∧
    ((insert p s k v).fault = some Fault.hang → s.fault = some Fault.hang) := by
  unfold insert
  dsimp only
  split
  · refine scheduleWriteOp_spec p 2 ?_ ?_ _
    · exact qinv_of_eq h rfl rfl rfl
    · rfl
  · refine scheduleWriteOp_spec p 2 ?_ ?_ _
    · exact qinv_of_eq h rfl rfl rfl
    · rfl

theorem invalidate_spec (p : Params) {s : SState} (h : QInv s) (k : Nat) :
    QInv (invalidate p s k) ∧
    ((invalidate p s k).fault = some Fault.hang → s.fault = some Fault.hang) := by
  unfold invalidate
  split
  · exact ⟨h, fun x => x⟩
  · dsimp only
    refine scheduleWriteOp_spec p 2 ?_ ?_ _
    · exact qinv_of_eq h rfl rfl rfl
    · rfl

theorem get_spec (p : Params) {s : SState} (h : QInv s) (k : Nat) :
    QInv (get p s k).1 ∧
    ((get p s k).1.fault = some Fault.hang → s.fault = some Fault.hang) := by
  unfold get
  dsimp only
  split
  · exact recordReadOp_spec p h _
  · split
    · exact recordReadOp_spec p h _
    · exact recordReadOp_spec p h _

theorem syncOp_spec (p : Params) {s : SState} (h : QInv s) :
    QInv (syncRun p s) ∧ ((syncRun p s).fault = some Fault.hang → s.fault = some Fault.hang) := by
  obtain ⟨a, b, c⟩ := syncRun_spec p s
  refine ⟨⟨by rw [c.running]; exact h.running, ?_, ?_⟩, c.hang⟩
  · rw [a]; exact Nat.zero_le _
  · rw [b]; exact Nat.zero_le _

/-- One API call: the invariant is kept and no `hang` is raised (in any state, whatever the
parameters and quirks). -/
theorem step_qinv (p : Params) {s : SState} (h : QInv s) (op : Op) :
    QInv (step p s op).1 ∧
    ((step p s op).1.fault = some Fault.hang → s.fault = some Fault.hang) := by
  unfold step
  split
  · exact ⟨h, fun x => x⟩
  · dsimp only
    have key : ∀ r : SState × Obs,
        (QInv r.1 ∧ (r.1.fault = some Fault.hang → s.fault = some Fault.hang)) →
        QInv (match r.1.fault with | some f => (r.1, Obs.panic f) | none => r).1 ∧
        ((match r.1.fault with | some f => (r.1, Obs.panic f) | none => r).1.fault =
          some Fault.hang → s.fault = some Fault.hang) := by
      intro r hr
      split <;> exact hr
    apply key
    cases op with
    | ins k v => exact insert_spec p h k v
    | get k => exact get_spec p h k
    | has k => exact ⟨h, fun x => x⟩
    | iter => exact ⟨h, fun x => x⟩
    | inv k => exact invalidate_spec p h k
    | invAll => exact ⟨qinv_of_eq h rfl rfl rfl, fun x => x⟩
    | invIf pr => exact ⟨h, fun x => x⟩
    | sync => exact syncOp_spec p h
    | adv d => exact ⟨qinv_of_eq h rfl rfl rfl, fun x => x⟩
    | snap => exact ⟨h, fun x => x⟩
    | freq k => exact ⟨h, fun x => x⟩

private theorem panic_aux (r : SState × Obs) (hr : ∀ f, r.2 ≠ Obs.panic f) (f : Fault)
    (h : (match r.1.fault with | some f => (r.1, Obs.panic f) | none => r).2 = Obs.panic f) :
    (match r.1.fault with | some f => (r.1, Obs.panic f) | none => r).1.fault = some f := by
  cases hx : r.1.fault with
  | none =>
    simp only [hx] at h
    exact absurd h (hr f)
  | some g =>
    simp only [hx, Obs.panic.injEq] at h ⊢
    rw [← h]

/-- An observation `panic f` reports the fault of the state after the call, and the state
before the call had no fault. -/
theorem step_panic (p : Params) (s : SState) (op : Op) (f : Fault)
    (h : (step p s op).2 = Obs.panic f) : s.fault = none ∧ (step p s op).1.fault = some f := by
  unfold step at h ⊢
  by_cases hs : s.fault.isSome = true
  · rw [if_pos hs] at h; cases h
  · rw [if_neg hs] at h ⊢
    have hn : s.fault = none := by
      cases hf : s.fault with
      | none => rfl
      | some x => rw [hf] at hs; exact absurd rfl hs
    refine ⟨hn, ?_⟩
    dsimp only at h ⊢
    refine panic_aux _ ?_ f h
    intro g
    cases op <;> intro hg <;> cases hg

/-- A `snap` observation is the snapshot of the (unchanged) state. -/
theorem step_snap (p : Params) (s : SState) (op : Op) (sn : Snap)
    (h : (step p s op).2 = Obs.snap sn) : sn = snapshot p s := by
  unfold step at h
  by_cases hs : s.fault.isSome = true
  · rw [if_pos hs] at h; cases h
  · rw [if_neg hs] at h
    dsimp only at h
    cases op <;> dsimp only at h <;> split at h <;> cases h
    rfl

/-- The state after a history. -/
def stateAfter (p : Params) : SState → List Op → SState
  | s, [] => s
  | s, op :: rest => stateAfter p (step p s op).1 rest

theorem stateAfter_qinv (p : Params) (h : List Op) : ∀ {s : SState}, QInv s →
    QInv (stateAfter p s h) := by
  induction h with
  | nil => intro s hs; exact hs
  | cons op rest ih => intro s hs; exact ih (step_qinv p hs op).1

theorem run_no_hang (p : Params) (h : List Op) : ∀ {s : SState}, QInv s →
    s.fault ≠ some Fault.hang → ∀ oo ∈ run p s h, oo.2 ≠ Obs.panic Fault.hang := by
  induction h with
  | nil => intro s _ _ oo hoo; cases hoo
  | cons op rest ih =>
    intro s hs hf oo hoo
    have hst := step_qinv p hs op
    have hrun : run p s (op :: rest) = (op, (step p s op).2) :: run p (step p s op).1 rest := rfl
    rw [hrun] at hoo
    cases hoo with
    | head =>
      intro hp
      have := step_panic p s op Fault.hang hp
      exact hf (hst.2 this.2)
    | tail _ hmem =>
      exact ih hst.1 (fun x => hf (hst.2 x)) oo hmem

end Sync
end MiniMoka
