/-
  Queue lemmas for the sequential sync model (property C09, sequential part).

  `QFrame s s'`: the two operation queues, the housekeeper's `running` flag and
  `sync_after`, and the clock are unchanged, and no `Fault.hang` has been raised.  Every
  building block of maintenance satisfies it.  `QKeep` is `QFrame` without the queues
  (`apply_reads` / `apply_writes` pop them).  On top of that: `applyWrites` pops exactly
  `min n len` operations, a maintenance run (`syncRun`) always leaves both queues empty, and
  the invariant `QInv` under which `scheduleWriteOp` enqueues in its first iteration.
-/
import MiniMoka.Sync

namespace MiniMoka

/-- The sketch raises only `overflow`. -/
theorem Sketch.reset_error {l : Bool} {s : Sketch} {f : Fault}
    (h : Sketch.reset l s = .error f) : f = .overflow := by
  unfold Sketch.reset at h
  dsimp only at h
  split at h
  · cases h; rfl
  · split at h
    · split at h
      · cases h; rfl
      · cases h
    · split at h
      · cases h; rfl
      · cases h

/-- `Sketch.increment` with the counter update and the aging step abstracted (keeps the
kernel away from unfolding `incrementAt` / `reset` on symbolic arguments). -/
def Sketch.incGenQ (inc : Array Nat → Nat → Nat → Array Nat × Bool)
    (rst : Sketch → Except Fault Sketch) (idx : Nat → Nat) (st : Nat) (s : Sketch) :
    Except Fault Sketch :=
  if s.table.size = 0 then .ok s
  else
    Sketch.increment.match_1 (fun _ => Except Fault Sketch) (inc s.table (idx 0) (st + 0)) fun t a0 =>
    Sketch.increment.match_1 (fun _ => Except Fault Sketch) (inc t (idx 1) (st + 1)) fun t a1 =>
    Sketch.increment.match_1 (fun _ => Except Fault Sketch) (inc t (idx 2) (st + 2)) fun t a2 =>
    Sketch.increment.match_1 (fun _ => Except Fault Sketch) (inc t (idx 3) (st + 3)) fun t a3 =>
    if a0 || a1 || a2 || a3 then
      if s.size + 1 > U32_MAX then .error .overflow
      else
        let s' := { s with table := t, size := s.size + 1 }
        if s'.size ≥ s'.sampleSize then rst s' else .ok s'
    else .ok { s with table := t }

theorem Sketch.increment_eq_incGenQ (legacy : Bool) (s : Sketch) (hash : UInt64) :
    Sketch.increment legacy s hash
      = Sketch.incGenQ Sketch.incrementAt (Sketch.reset legacy) (s.indexOf hash)
          (Sketch.start hash) s := rfl

theorem Sketch.incGenQ_error (inc : Array Nat → Nat → Nat → Array Nat × Bool)
    (rst : Sketch → Except Fault Sketch) (idx : Nat → Nat) (st : Nat) (s : Sketch)
    (hr : ∀ s f, rst s = .error f → f = .overflow) {f : Fault}
    (h : Sketch.incGenQ inc rst idx st s = .error f) : f = .overflow := by
  unfold Sketch.incGenQ at h
  generalize inc s.table (idx 0) (st + 0) = r0 at h
  obtain ⟨t0, a0⟩ := r0
  generalize inc t0 (idx 1) (st + 1) = r1 at h
  obtain ⟨t1, a1⟩ := r1
  generalize inc t1 (idx 2) (st + 2) = r2 at h
  obtain ⟨t2, a2⟩ := r2
  generalize inc t2 (idx 3) (st + 3) = r3 at h
  obtain ⟨t3, a3⟩ := r3
  dsimp only at h
  split at h
  · cases h
  · split at h
    · split at h
      · cases h; rfl
      · split at h
        · exact hr _ _ h
        · cases h
    · cases h

theorem Sketch.increment_error {l : Bool} {s : Sketch} {hash : UInt64} {f : Fault}
    (h : Sketch.increment l s hash = .error f) : f = .overflow := by
  rw [Sketch.increment_eq_incGenQ] at h
  exact Sketch.incGenQ_error _ _ _ _ _ (fun _ _ h => Sketch.reset_error h) h

namespace Sync

/-! ### the frame -/

structure QFrame (s s' : SState) : Prop where
  writeQ : s'.writeQ = s.writeQ
  readQ : s'.readQ = s.readQ
  running : s'.running = s.running
  now : s'.now = s.now
  syncAfter : s'.syncAfter = s.syncAfter
  hang : s'.fault = some Fault.hang → s.fault = some Fault.hang

theorem QFrame.refl (s : SState) : QFrame s s := ⟨rfl, rfl, rfl, rfl, rfl, fun h => h⟩

theorem QFrame.trans {a b c : SState} (h1 : QFrame a b) (h2 : QFrame b c) : QFrame a c :=
  ⟨h2.writeQ.trans h1.writeQ, h2.readQ.trans h1.readQ, h2.running.trans h1.running,
   h2.now.trans h1.now, h2.syncAfter.trans h1.syncAfter, fun h => h1.hang (h2.hang h)⟩

/-- A state that differs only in fields the frame does not mention. -/
theorem qframe_of_eq {s s' : SState} (hw : s'.writeQ = s.writeQ) (hr : s'.readQ = s.readQ)
    (hg : s'.running = s.running) (hn : s'.now = s.now) (ha : s'.syncAfter = s.syncAfter)
    (hf : s'.fault = s.fault) : QFrame s s' :=
  ⟨hw, hr, hg, hn, ha, fun h => by rw [← hf]; exact h⟩

theorem qframe_fail (s : SState) (f : Fault) (hf : f ≠ Fault.hang) : QFrame s (s.fail f) := by
  unfold SState.fail; split
  · exact QFrame.refl s
  · refine ⟨rfl, rfl, rfl, rfl, rfl, ?_⟩
    intro h
    simp only [Option.some.injEq] at h
    exact absurd h hf

theorem qframe_withInfo (s : SState) (i : Nat) (f : Info → Info) : QFrame s (withInfo s i f) :=
  qframe_of_eq rfl rfl rfl rfl rfl rfl

/-! ### record updates of fields the frame does not mention -/

theorem qframe_set_map (s : SState) (x : List (Nat × VE)) : QFrame s { s with map := x } :=
  qframe_of_eq rfl rfl rfl rfl rfl rfl
theorem qframe_set_prob (s : SState) (x : List AoNode) : QFrame s { s with prob := x } :=
  qframe_of_eq rfl rfl rfl rfl rfl rfl
theorem qframe_set_wo (s : SState) (x : List WoNode) : QFrame s { s with wo := x } :=
  qframe_of_eq rfl rfl rfl rfl rfl rfl
theorem qframe_set_cec (s : SState) (x : Nat) : QFrame s { s with cec := x } :=
  qframe_of_eq rfl rfl rfl rfl rfl rfl
theorem qframe_set_cws (s : SState) (x : Nat) : QFrame s { s with cws := x } :=
  qframe_of_eq rfl rfl rfl rfl rfl rfl
theorem qframe_set_cec_cws (s : SState) (x y : Nat) : QFrame s { s with cec := x, cws := y } :=
  qframe_of_eq rfl rfl rfl rfl rfl rfl
theorem qframe_set_ec_ws (s : SState) (x y : Nat) : QFrame s { s with ec := x, ws := y } :=
  qframe_of_eq rfl rfl rfl rfl rfl rfl
theorem qframe_set_sk (s : SState) (x : Sketch) : QFrame s { s with sk := x } :=
  qframe_of_eq rfl rfl rfl rfl rfl rfl
theorem qframe_set_sk_on (s : SState) (x : Sketch) (b : Bool) :
    QFrame s { s with sk := x, skOn := b } :=
  qframe_of_eq rfl rfl rfl rfl rfl rfl
theorem qframe_push_ao (s : SState) (x : List AoNode) :
    QFrame s { s with prob := x, nextId := s.nextId + 1 } :=
  qframe_of_eq rfl rfl rfl rfl rfl rfl
theorem qframe_push_wo (s : SState) (x : List WoNode) :
    QFrame s { s with wo := x, nextId := s.nextId + 1 } :=
  qframe_of_eq rfl rfl rfl rfl rfl rfl

/-- Peels one layer off the target state, working backwards from the result. -/
macro "qframe_step" : tactic => `(tactic| first
  | exact QFrame.refl _
  | exact qframe_fail _ _ (by decide)
  | refine QFrame.trans ?_ (qframe_fail _ _ (by decide))
  | refine QFrame.trans ?_ (qframe_withInfo _ _ _)
  | refine QFrame.trans ?_ (qframe_set_map _ _)
  | refine QFrame.trans ?_ (qframe_set_prob _ _)
  | refine QFrame.trans ?_ (qframe_set_wo _ _)
  | refine QFrame.trans ?_ (qframe_set_cec _ _)
  | refine QFrame.trans ?_ (qframe_set_cws _ _)
  | refine QFrame.trans ?_ (qframe_set_cec_cws _ _ _)
  | refine QFrame.trans ?_ (qframe_set_ec_ws _ _ _)
  | refine QFrame.trans ?_ (qframe_set_sk _ _)
  | refine QFrame.trans ?_ (qframe_set_sk_on _ _ _)
  | refine QFrame.trans ?_ (qframe_push_ao _ _)
  | refine QFrame.trans ?_ (qframe_push_wo _ _))

/-! ### the primitives of maintenance -/

theorem moveNodeToBackAo_qframe (s : SState) (id : Nat) : QFrame s (moveNodeToBackAo s id) := by
  unfold moveNodeToBackAo; split <;> repeat qframe_step

theorem moveNodeToBackWo_qframe (s : SState) (id : Nat) : QFrame s (moveNodeToBackWo s id) := by
  unfold moveNodeToBackWo; split <;> repeat qframe_step

theorem moveToBackAoE_qframe (s : SState) (i : Nat) : QFrame s (moveToBackAoE s i) := by
  unfold moveToBackAoE; split
  · exact QFrame.refl s
  · exact moveNodeToBackAo_qframe s _

theorem moveToBackWoE_qframe (s : SState) (i : Nat) : QFrame s (moveToBackWoE s i) := by
  unfold moveToBackWoE; split
  · exact QFrame.refl s
  · exact moveNodeToBackWo_qframe s _

theorem unlinkAo_qframe (s : SState) (i : Nat) : QFrame s (unlinkAo s i) := by
  unfold unlinkAo; split
  · exact QFrame.refl s
  · dsimp only; split <;> repeat qframe_step

theorem unlinkWo_qframe (s : SState) (i : Nat) : QFrame s (unlinkWo s i) := by
  unfold unlinkWo; split
  · exact QFrame.refl s
  · dsimp only; split <;> repeat qframe_step

theorem subCounters_qframe (s : SState) (n w : Nat) : QFrame s (subCounters s n w) := by
  unfold subCounters
  dsimp only
  split <;> repeat qframe_step

theorem addCounters_qframe (s : SState) (n w : Nat) : QFrame s (addCounters s n w) :=
  qframe_of_eq rfl rfl rfl rfl rfl rfl

theorem sketchIncrement_qframe (p : Params) (s : SState) (h : UInt64) :
    QFrame s (sketchIncrement p s h) := by
  unfold sketchIncrement
  split
  · qframe_step; exact QFrame.refl s
  · rename_i f hf
    rw [Sketch.increment_error hf]
    exact qframe_fail _ _ (by decide)

theorem applyRead_qframe (p : Params) (s : SState) (op : ROp) : QFrame s (applyRead p s op) := by
  cases op with
  | miss hash => exact sketchIncrement_qframe _ _ _
  | hit hash ve ts =>
    unfold applyRead
    dsimp only
    have h1 : QFrame s (sketchIncrement p s hash) := sketchIncrement_qframe _ _ _
    generalize sketchIncrement p s hash = s1 at h1 ⊢
    have h2 : QFrame s1 (if p.q.d6 = true then withInfo s1 ve.info (fun i => { i with la := ts })
        else if (getInfo s1 ve.info).la < ts then withInfo s1 ve.info (fun i => { i with la := ts })
        else s1) := by
      split
      · exact qframe_withInfo _ _ _
      · split
        · exact qframe_withInfo _ _ _
        · exact QFrame.refl _
    generalize (if p.q.d6 = true then withInfo s1 ve.info (fun i => { i with la := ts })
        else if (getInfo s1 ve.info).la < ts then withInfo s1 ve.info (fun i => { i with la := ts })
        else s1) = s2 at h2 ⊢
    split
    · exact (h1.trans h2).trans (moveToBackAoE_qframe _ _)
    · exact h1.trans h2

theorem handleRemove_qframe (s : SState) (ve : VE) : QFrame s (handleRemove s ve) := by
  unfold handleRemove
  dsimp only
  split
  · refine QFrame.trans ?_ (unlinkWo_qframe _ _)
    refine QFrame.trans ?_ (unlinkAo_qframe _ _)
    refine QFrame.trans ?_ (subCounters_qframe _ _ _)
    repeat qframe_step
  · repeat qframe_step

theorem handleAdmit_qframe (p : Params) (s : SState) (key : Nat) (hash : UInt64) (ve : VE)
    (w : Nat) : QFrame s (handleAdmit p s key hash ve w) := by
  unfold handleAdmit
  dsimp only
  qframe_step
  split
  · qframe_step
    qframe_step
    qframe_step
    qframe_step
    split
    · exact addCounters_qframe _ _ _
    · qframe_step
      exact addCounters_qframe _ _ _
  · qframe_step
    qframe_step
    split
    · exact addCounters_qframe _ _ _
    · qframe_step
      exact addCounters_qframe _ _ _

theorem removeVictims_qframe (p : Params) (vs : List AoNode) :
    ∀ (s : SState) (sk : List AoNode), QFrame s (removeVictims p vs s sk).1 := by
  induction vs with
  | nil => intro s sk; exact QFrame.refl s
  | cons v rest ih =>
    intro s sk
    unfold removeVictims
    split
    · exact (qframe_fail s _ (by decide)).trans (ih _ _)
    · split
      · refine QFrame.trans ?_ (ih _ _)
        refine QFrame.trans ?_ (handleRemove_qframe _ _)
        qframe_step; exact QFrame.refl s
      · exact ih _ _

theorem moveSkipped_qframe (ns : List AoNode) : ∀ (s : SState), QFrame s (moveSkipped ns s) := by
  induction ns with
  | nil => intro s; exact QFrame.refl s
  | cons n rest ih => intro s; exact (moveNodeToBackAo_qframe s n.id).trans (ih _)

theorem removeCandidate_qframe (p : Params) (s : SState) (key : Nat) (ve : VE) :
    QFrame s (removeCandidate p s key ve) := by
  unfold removeCandidate
  split
  · split
    · qframe_step; exact QFrame.refl s
    · exact QFrame.refl s
  · exact QFrame.refl s

theorem applyUpdate_qframe (p : Params) (s : SState) (ve : VE) (oldW newW : Nat) :
    QFrame s (applyUpdate p s ve oldW newW) := by
  unfold applyUpdate
  dsimp only
  refine QFrame.trans ?_ (moveToBackWoE_qframe _ _)
  refine QFrame.trans ?_ (moveToBackAoE_qframe _ _)
  split
  · refine QFrame.trans ?_ (addCounters_qframe _ _ _)
    exact subCounters_qframe _ _ _
  · qframe_step
    refine QFrame.trans ?_ (addCounters_qframe _ _ _)
    exact subCounters_qframe _ _ _

theorem admitOrReject_qframe (p : Params) (s : SState) (key : Nat) (hash : UInt64) (ve : VE)
    (newW : Nat) : QFrame s (admitOrReject p s key hash ve newW) := by
  unfold admitOrReject
  dsimp only
  split
  · refine QFrame.trans ?_ (moveSkipped_qframe _ _)
    refine QFrame.trans ?_ (handleAdmit_qframe _ _ _ _ _ _)
    exact removeVictims_qframe _ _ _ _
  · refine QFrame.trans ?_ (moveSkipped_qframe _ _)
    exact removeCandidate_qframe _ _ _ _

theorem handleUpsert_qframe (p : Params) (s : SState) (key : Nat) (hash : UInt64) (ve : VE)
    (oldW newW : Nat) : QFrame s (handleUpsert p s key hash ve oldW newW) := by
  unfold handleUpsert
  dsimp only
  have h0 : QFrame s (withInfo s ve.info (fun i => { i with dirty := false })) :=
    qframe_withInfo _ _ _
  refine QFrame.trans h0 ?_
  generalize withInfo s ve.info (fun i => { i with dirty := false }) = s1
  by_cases h1 : (getInfo s1 ve.info).admitted = true
  · rw [if_pos h1]; exact applyUpdate_qframe _ _ _ _ _
  · rw [if_neg h1]
    by_cases h2 : (!p.q.d7 && !isCurrentEntry s1 key ve) = true
    · rw [if_pos h2]; exact QFrame.refl _
    · rw [if_neg h2]
      by_cases h3 : hasEnoughCapacity p newW s1 = true
      · rw [if_pos h3]; exact handleAdmit_qframe _ _ _ _ _ _
      · rw [if_neg h3]
        by_cases h4 : tooBig p newW = true
        · rw [if_pos h4]; exact removeCandidate_qframe _ _ _ _
        · rw [if_neg h4]; exact admitOrReject_qframe _ _ _ _ _ _

theorem applyWrite_qframe (p : Params) (s : SState) (op : WOp) : QFrame s (applyWrite p s op) := by
  cases op with
  | upsert key hash ve oldW newW => exact handleUpsert_qframe _ _ _ _ _ _ _
  | remove key ve => exact handleRemove_qframe _ _

theorem trySkipUpdated_qframe (s : SState) (key : Nat) : QFrame s (trySkipUpdated s key).1 := by
  unfold trySkipUpdated
  split
  · split
    · exact (moveToBackAoE_qframe _ _).trans (moveToBackWoE_qframe _ _)
    · exact QFrame.refl s
  · split
    · exact moveNodeToBackAo_qframe _ _
    · exact QFrame.refl s

theorem removeExpiredAo_qframe (p : Params) (n : Nat) :
    ∀ (s : SState), QFrame s (removeExpiredAo p n s) := by
  induction n with
  | zero => intro s; exact QFrame.refl s
  | succ n ih =>
    intro s
    unfold removeExpiredAo
    split
    · exact QFrame.refl s
    · split
      · dsimp only
        split
        · refine QFrame.trans ?_ (ih _)
          refine QFrame.trans ?_ (handleRemove_qframe _ _)
          qframe_step; exact QFrame.refl s
        · split
          · exact (trySkipUpdated_qframe s _).trans (ih _)
          · exact trySkipUpdated_qframe s _
      · exact QFrame.refl s

theorem removeExpiredWo_qframe (p : Params) (n : Nat) :
    ∀ (s : SState), QFrame s (removeExpiredWo p n s) := by
  induction n with
  | zero => intro s; exact QFrame.refl s
  | succ n ih =>
    intro s
    unfold removeExpiredWo
    split
    · exact QFrame.refl s
    · split
      · dsimp only
        split
        · refine QFrame.trans ?_ (ih _)
          refine QFrame.trans ?_ (handleRemove_qframe _ _)
          qframe_step; exact QFrame.refl s
        · split
          · split
            · exact ((moveToBackAoE_qframe _ _).trans (moveToBackWoE_qframe _ _)).trans (ih _)
            · exact QFrame.refl s
          · exact (moveNodeToBackWo_qframe _ _).trans (ih _)
      · exact QFrame.refl s

theorem evictExpired_qframe (p : Params) (s : SState) : QFrame s (evictExpired p s) := by
  unfold evictExpired
  dsimp only
  split
  · split
    · exact (removeExpiredWo_qframe _ _ _).trans (removeExpiredAo_qframe _ _ _)
    · exact removeExpiredWo_qframe _ _ _
  · split
    · exact removeExpiredAo_qframe _ _ _
    · exact QFrame.refl s

theorem evictLruLoop_qframe (p : Params) (n : Nat) :
    ∀ (s : SState) (wte ev : Nat), QFrame s (evictLruLoop p n s wte ev) := by
  induction n with
  | zero => intro s _ _; exact QFrame.refl s
  | succ n ih =>
    intro s wte ev
    unfold evictLruLoop
    split
    · exact QFrame.refl s
    · split
      · exact QFrame.refl s
      · dsimp only
        split
        · split
          · exact (trySkipUpdated_qframe s _).trans (ih _ _ _)
          · exact trySkipUpdated_qframe s _
        · split
          · refine QFrame.trans ?_ (ih _ _ _)
            refine QFrame.trans ?_ (handleRemove_qframe _ _)
            qframe_step; exact QFrame.refl s
          · split
            · exact (trySkipUpdated_qframe s _).trans (ih _ _ _)
            · exact trySkipUpdated_qframe s _

theorem enableSketch_qframe (p : Params) (s : SState) : QFrame s (enableSketch p s) := by
  unfold enableSketch
  split
  · qframe_step; exact QFrame.refl s
  · exact QFrame.refl s

end Sync
end MiniMoka
