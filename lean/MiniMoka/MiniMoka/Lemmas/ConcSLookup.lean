/-
  The lookup coupling (`CoupledS`, Lemmas/SyncLookup.lean) for the many-thread system
  `MiniMoka/ConcS.lean`: every step of every thread preserves it, when the operations of an
  execution are ordered by their MAP STEPS (`lin`).

  A read operation that a thread holds between its `getMap` and its `enq` is treated exactly as
  a queued one (`virt c`: the read queue followed by the held reads): the clauses of `CoupledS`
  about queued hits (`refsHits`, `hits`) mention the queue through membership only, and what
  they demand of a hit `(ve, ts)` — the reference entry of the key of `ve`'s info was accessed at
  `ts` or later — is monotone under every reference step (an access time only moves forward).  So
  it does not matter how late, after which clock ticks, updates or invalidations of its key, and
  in which order relative to other threads a held read reaches the queue.
-/
import MiniMoka.Lemmas.ConcS
import MiniMoka.Lemmas.SyncLookup

namespace MiniMoka
namespace ConcS

open Sync Spec

/-! ### the linearised trace -/

/-- What an event contributes to the linearised trace: the API call whose map step
(linearisation point) it is, with the result decided at that step.  `maint` (a maintenance run
inside some call) and `enq` (the queued half of a call) contribute nothing; the explicit
`sync()` call contributes `(.sync, .ok)`, which the lookup oracles treat as neutral. -/
def evObs (p : Params) (c : CState) : Ev → Option (Op × Obs)
  | .insMap _ k v => some (.ins k v, .ok)
  | .invMap _ k => some (.inv k, .ok)
  | .getMap _ k => some (.get k, .val (lookup p c.s k).2)
  | .tick d => some (.adv d, .ok)
  | .invAll _ => some (.invAll, .ok)
  | .sync _ => some (.sync, .ok)
  | .maint _ => none
  | .enq _ => none

/-- The linearised trace of the execution `evs` from `c` (it ends at the first step that is not
enabled, if there is one). -/
def lin (p : Params) : CState → List Ev → Trace
  | _, [] => []
  | c, e :: rest =>
    match step p c e with
    | some c' => (evObs p c e).toList ++ lin p c' rest
    | none => []

/-! ### held reads -/

/-- The read operations threads hold. -/
def heldReads : List (Tid × Pend) → List ROp
  | [] => []
  | (_, .read op) :: rest => op :: heldReads rest
  | (_, .write _) :: rest => heldReads rest

theorem mem_heldReads {l : List (Tid × Pend)} {op : ROp} :
    op ∈ heldReads l ↔ ∃ t, (t, Pend.read op) ∈ l := by
  induction l with
  | nil => simp [heldReads]
  | cons x l ih =>
    obtain ⟨t', pd⟩ := x
    cases pd with
    | read op' =>
      simp only [heldReads, List.mem_cons, ih]
      constructor
      · rintro (e | ⟨t, ht⟩)
        · exact ⟨t', Or.inl (by rw [e])⟩
        · exact ⟨t, Or.inr ht⟩
      · rintro ⟨t, e | ht⟩
        · injection e with _ e2
          injection e2 with e3
          exact Or.inl e3
        · exact Or.inr ⟨t, ht⟩
    | write op' =>
      simp only [heldReads, List.mem_cons, ih]
      constructor
      · rintro ⟨t, ht⟩; exact ⟨t, Or.inr ht⟩
      · rintro ⟨t, e | ht⟩
        · injection e with _ e2
          cases e2
        · exact ⟨t, ht⟩

theorem mem_of_pendOf_some {l : List (Tid × Pend)} {t : Tid} {pd : Pend}
    (h : pendOf l t = some pd) : (t, pd) ∈ l := by
  induction l with
  | nil => cases h
  | cons x l ih =>
    simp only [pendOf] at h
    by_cases e : x.1 = t
    · rw [if_pos e] at h
      obtain ⟨a, b⟩ := x
      simp only at e h
      rw [e, Option.some.inj h]
      exact List.mem_cons_self
    · rw [if_neg e] at h
      exact List.mem_cons_of_mem _ (ih h)

/-- The state in which the held reads count as queued. -/
def virt (c : CState) : SState := { c.s with readQ := c.s.readQ ++ heldReads c.pending }

/-- The coupling between a state of the many-thread system and the reference bookkeeping `g` of
the lookup oracles: `CoupledS` for the cache state, its clauses about queued hits
(`refsHits`: the info exists; `hits`: the reference entry of the info's key has
`ts ≤ tAcc`) extended to the hits threads hold. -/
def CoupledC (p : Params) (c : CState) (g : Ghost) : Prop := CoupledS p (virt c) g

theorem CoupledC.base {p : Params} {c : CState} {g : Ghost} (h : CoupledC p c g) :
    CoupledS p c.s g :=
  ⟨h.kn, h.now, h.vaLe, h.tLe, h.refsMap,
   fun hash ve ts hin => h.refsHits hash ve ts (List.mem_append_left _ hin), h.ents,
   fun hash ve ts hin => h.hits hash ve ts (List.mem_append_left _ hin)⟩

/-- What the coupling says about a held hit. -/
theorem CoupledC.held {p : Params} {c : CState} {g : Ghost} (h : CoupledC p c g) {t : Tid}
    {hash : UInt64} {ve : VE} {ts : Nat} (hin : (t, Pend.read (.hit hash ve ts)) ∈ c.pending) :
    ve.info < c.s.nextId ∧
    ∃ ge, AL.get? g.ents (getInfo c.s ve.info).key = some ge ∧ ts ≤ ge.tAcc :=
  have hm : ROp.hit hash ve ts ∈ (virt c).readQ :=
    List.mem_append_right _ (mem_heldReads.mpr ⟨t, hin⟩)
  ⟨h.refsHits hash ve ts hm, h.hits hash ve ts hm⟩

theorem coupledC_init (p : Params) : CoupledC p {} {} := init_coupled p

/-! ### changing the read queue -/

/-- Replacing the read queue: every hit of the new queue was queued or satisfies the two
clauses. -/
theorem coupledS_setReadQ {p : Params} {s : SState} {g : Ghost} (hc : CoupledS p s g)
    (q : List ROp)
    (hq : ∀ hash ve ts, ROp.hit hash ve ts ∈ q → ROp.hit hash ve ts ∈ s.readQ ∨
      (ve.info < s.nextId ∧
        ∃ ge, AL.get? g.ents (getInfo s ve.info).key = some ge ∧ ts ≤ ge.tAcc)) :
    CoupledS p { s with readQ := q } g := by
  refine ⟨hc.kn, hc.now, hc.vaLe, hc.tLe, hc.refsMap, ?_, hc.ents, ?_⟩
  · intro hash ve ts hin
    rcases hq hash ve ts hin with h | h
    · exact hc.refsHits hash ve ts h
    · exact h.1
  · intro hash ve ts hin
    rcases hq hash ve ts hin with h | h
    · exact hc.hits hash ve ts h
    · exact h.2

theorem coupledS_readQ_sub {p : Params} {s : SState} {g : Ghost} (hc : CoupledS p s g)
    (q : List ROp) (hq : ∀ op, op ∈ q → op ∈ s.readQ) : CoupledS p { s with readQ := q } g :=
  coupledS_setReadQ hc q (fun _ _ _ hin => Or.inl (hq _ hin))

/-- A frame of the cache state is a frame of the state with the held reads appended. -/
theorem frame_append_readQ {s s' : SState} (hf : Frame s s') (q : List ROp) :
    Frame { s with readQ := s.readQ ++ q } { s' with readQ := s'.readQ ++ q } := by
  refine ⟨hf.kn, hf.mapSub, hf.key, hf.lm, hf.laLe, ?_, ?_, hf.va, hf.now, hf.nextId⟩
  · intro i
    rcases hf.la i with e | ⟨hash, ve, hin, hve⟩
    · exact Or.inl e
    · exact Or.inr ⟨hash, ve, List.mem_append_left _ hin, hve⟩
  · intro op hop
    rcases List.mem_append.mp hop with h | h
    · exact List.mem_append_left _ (hf.readQ op h)
    · exact List.mem_append_right _ h

/-- A step that changes the cache state by a frame (a maintenance run: queued reads are
applied, in whatever order the threads enqueued them) and leaves the held operations alone
keeps the coupling. -/
theorem coupledC_frame {p : Params} {c c' : CState} {g : Ghost} (hc : CoupledC p c g)
    (hf : Frame c.s c'.s) (hp : c'.pending = c.pending) : CoupledC p c' g := by
  have h := coupledS_frame hc (frame_append_readQ hf (heldReads c.pending))
  unfold CoupledC virt
  rw [hp]
  exact h

/-! ### the map part of `insert` -/

theorem insertMap_readQ (p : Params) (s : SState) (k v : Nat) :
    (insertMap p s k v).1.readQ = s.readQ := by
  unfold insertMap
  dsimp only
  cases AL.get? s.map k <;> rfl

/-- `insertMap` neither reads nor writes the read queue. -/
theorem insertMap_setReadQ (p : Params) (s : SState) (q : List ROp) (k v : Nat) :
    (insertMap p { s with readQ := q } k v).1 = { (insertMap p s k v).1 with readQ := q } := by
  unfold insertMap
  dsimp only
  cases AL.get? s.map k <;> rfl

/-- The map step of `insert` alone keeps the coupling (the body of `Sync.insert_coupled` without
the `schedule_write_op` that follows it there). -/
theorem insertMap_coupled {p : Params} {s : SState} {g : Ghost}
    (hc : CoupledS p s g) (k v : Nat) :
    CoupledS p (insertMap p s k v).1 (ghostStep .sync g (.ins k v) .ok) := by
  have hg : ghostStep .sync g (.ins k v) .ok = insertedG g k v := rfl
  rw [hg]
  have htLe : ∀ k' ge, AL.get? (insertedG g k v).ents k' = some ge →
      ge.tAcc ≤ (insertedG g k v).now ∧ ge.tIns ≤ (insertedG g k v).now := by
    intro k' ge h
    simp only [insertedG] at h ⊢
    rw [AL.get?_put] at h
    by_cases e : k = k'
    · simp [e] at h; subst h; exact ⟨Nat.le_refl _, Nat.le_refl _⟩
    · simp [e] at h; exact hc.tLe k' ge h
  have hhits : ∀ (key : Nat) (ts : Nat), (∃ ge, AL.get? g.ents key = some ge ∧ ts ≤ ge.tAcc) →
      ∃ ge, AL.get? (insertedG g k v).ents key = some ge ∧ ts ≤ ge.tAcc := by
    intro key ts ⟨ge, g1, g2⟩
    simp only [insertedG]
    by_cases e : k = key
    · subst e
      exact ⟨_, AL.get?_put_self _ _ _, Nat.le_trans g2 (hc.tLe _ ge g1).1⟩
    · exact ⟨ge, by rw [AL.get?_put_ne _ e]; exact g1, g2⟩
  unfold insertMap
  dsimp only
  cases hk : AL.get? s.map k with
  | some old =>
    dsimp only
    obtain ⟨geo, o1, o2, o3, o4, o5, o6⟩ := hc.ents k old hk
    have hgi : ∀ j, (getInfo (refreshInfo p s old.info s.now (p.weigh k v)) j).key = (getInfo s j).key ∧
        (getInfo (refreshInfo p s old.info s.now (p.weigh k v)) j).lm =
          (if old.info = j then s.now else (getInfo s j).lm) ∧
        (getInfo (refreshInfo p s old.info s.now (p.weigh k v)) j).la =
          (if old.info = j then s.now else (getInfo s j).la) := by
      intro j
      unfold refreshInfo
      rw [getInfo_withInfo]
      by_cases e : old.info = j <;> simp [e]
    generalize hW : refreshInfo p s old.info s.now (p.weigh k v) = W at hgi ⊢
    have hWmap : W.map = s.map := by rw [← hW]; rfl
    have hWnext : W.nextId = s.nextId := by rw [← hW]; rfl
    have hWread : W.readQ = s.readQ := by rw [← hW]; rfl
    have hWva : W.va = s.va := by rw [← hW]; rfl
    have hWnow : W.now = s.now := by rw [← hW]; rfl
    refine ⟨by simp only; rw [hWmap]; exact AL.nodup_put k _ hc.kn, by simp only; rw [hWnow]; exact hc.now,
      by simp only; rw [hWva, hWnow]; exact hc.vaLe, htLe, ?_, ?_, ?_, ?_⟩
    · intro k' ve h
      simp only at h
      rw [hWmap, AL.get?_put] at h
      simp only; rw [hWnext]
      by_cases e : k = k'
      · simp [e] at h; subst h
        exact Nat.lt_succ_of_lt (hc.refsMap k old hk)
      · simp [e] at h; exact Nat.lt_succ_of_lt (hc.refsMap k' ve h)
    · intro hash ve ts h
      simp only at h ⊢
      rw [hWread] at h; rw [hWnext]
      exact Nat.lt_succ_of_lt (hc.refsHits hash ve ts h)
    · intro k' ve h
      simp only at h
      rw [hWmap, AL.get?_put] at h
      by_cases e : k = k'
      · simp [e] at h; subst h; subst e
        refine ⟨{ val := v, tIns := g.now, tAcc := g.now, alive := true },
          by simp [insertedG, AL.get?_put_self], rfl, ?_, ?_, ?_, Or.inl rfl⟩
        · show (getInfo W old.info).key = k
          rw [(hgi _).1]; exact o3
        · show (getInfo W old.info).lm = g.now
          rw [(hgi _).2.1]; simp [hc.now]
        · show (getInfo W old.info).la ≤ g.now
          rw [(hgi _).2.2]; simp [hc.now]
      · simp [e] at h
        obtain ⟨ge, h1, h2, h3, h4, h5, h6⟩ := hc.ents k' ve h
        have hne : old.info ≠ ve.info := by
          intro e2; rw [e2, h3] at o3; exact e o3.symm
        refine ⟨ge, by simp only [insertedG]; rw [AL.get?_put_ne _ e]; exact h1, h2, ?_, ?_, ?_, ?_⟩
        · show (getInfo W ve.info).key = k'
          rw [(hgi _).1]; exact h3
        · show (getInfo W ve.info).lm = ge.tIns
          rw [(hgi _).2.1]; simp [hne, h4]
        · show (getInfo W ve.info).la ≤ ge.tAcc
          rw [(hgi _).2.2]; simp [hne, h5]
        · rcases h6 with h6 | ⟨va, hva, hlt⟩
          · exact Or.inl h6
          · refine Or.inr ⟨va, by simp only; rw [hWva]; exact hva, ?_⟩
            show (getInfo W ve.info).lm < va
            rw [(hgi _).2.1]; simp [hne, hlt]
    · intro hash ve ts h
      simp only at h
      rw [hWread] at h
      have := hc.hits hash ve ts h
      have hkey : (getInfo W ve.info).key = (getInfo s ve.info).key := (hgi _).1
      show ∃ ge, AL.get? (insertedG g k v).ents (getInfo W ve.info).key = some ge ∧ ts ≤ ge.tAcc
      rw [hkey]
      exact hhits _ _ this
  | none =>
    dsimp only
    have hgi : ∀ (inf : Info) (m : List (Nat × VE)) j, getInfo
        { s with nextId := s.nextId + 2, infos := AL.put s.infos s.nextId inf, map := m } j =
        if s.nextId = j then inf else getInfo s j := by
      intro inf m j
      simp only [getInfo, AL.get?_put]
      by_cases e : s.nextId = j <;> simp [e]
    refine ⟨AL.nodup_put k _ hc.kn, hc.now, hc.vaLe, htLe, ?_, ?_, ?_, ?_⟩
    · intro k' ve h
      simp only at h
      rw [AL.get?_put] at h
      by_cases e : k = k'
      · simp [e] at h; subst h; show s.nextId < s.nextId + 2; omega
      · simp [e] at h
        have := hc.refsMap k' ve h
        show ve.info < s.nextId + 2; omega
    · intro hash ve ts h
      have := hc.refsHits hash ve ts h
      show ve.info < s.nextId + 2; omega
    · intro k' ve h
      simp only at h
      rw [AL.get?_put] at h
      by_cases e : k = k'
      · simp [e] at h; subst h; subst e
        refine ⟨{ val := v, tIns := g.now, tAcc := g.now, alive := true },
          by simp [insertedG, AL.get?_put_self], rfl, ?_, ?_, ?_, Or.inl rfl⟩
        · rw [hgi]; simp
        · rw [hgi]; simp [hc.now]
        · rw [hgi]; simp [hc.now]
      · simp [e] at h
        obtain ⟨ge, h1, h2, h3, h4, h5, h6⟩ := hc.ents k' ve h
        have hne : s.nextId ≠ ve.info := Nat.ne_of_gt (hc.refsMap k' ve h)
        refine ⟨ge, by simp only [insertedG]; rw [AL.get?_put_ne _ e]; exact h1, h2, ?_, ?_, ?_, ?_⟩
        · rw [hgi]; simp [hne, h3]
        · rw [hgi]; simp [hne, h4]
        · rw [hgi]; simp [hne, h5]
        · rcases h6 with h6 | ⟨va, hva, hlt⟩
          · exact Or.inl h6
          · refine Or.inr ⟨va, hva, ?_⟩
            rw [hgi]; simp [hne, hlt]
    · intro hash ve ts h
      have hne : s.nextId ≠ ve.info := Nat.ne_of_gt (hc.refsHits hash ve ts h)
      have := hc.hits hash ve ts h
      rw [hgi]; simp only [hne, if_false]
      exact hhits _ _ this

/-! ### the map part of `invalidate` -/

/-- The map step of `invalidate` alone keeps the coupling. -/
theorem invalidateMap_coupled {p : Params} {s : SState} {g : Ghost}
    (hc : CoupledS p s g) (k : Nat) :
    CoupledS p (invalidateMap s k).1 (ghostStep .sync g (.inv k) .ok) := by
  have hg : ghostStep .sync g (.inv k) .ok =
      { g with ents := killIf (fun k' _ => k' == k) g.ents } := rfl
  rw [hg]
  unfold invalidateMap
  cases hk : AL.get? s.map k with
  | none =>
    dsimp only
    refine coupledS_kill hc _ ?_
    intro k' ve ge h _ hf
    have : k' = k := by simpa using hf
    rw [this, hk] at h; cases h
  | some ve =>
    dsimp only
    have hc1 := coupledS_frame hc (frame0_erase s k).toFrame
    refine coupledS_kill hc1 _ ?_
    intro k' ve' ge h _ hf
    have hkk : k' = k := by simpa using hf
    simp only at h
    rw [hkk, AL.get?_erase_self k hc.kn] at h
    cases h

/-! ### the lookup of `get` -/

/-- A lookup that hits passes the three checks; recording the access in the reference and
holding the hit keeps the coupling. -/
theorem lookup_coupled {p : Params} {s : SState} {g : Ghost} (hc : CoupledS p s g) (k : Nat) :
    (yields (.get k) (.val (lookup p s k).2)).all (allChecks p g) = true ∧
    CoupledS p { s with readQ := s.readQ ++ [(lookup p s k).1] }
      (ghostStep .sync g (.get k) (.val (lookup p s k).2)) := by
  have hmiss : ∀ h : UInt64, CoupledS p { s with readQ := s.readQ ++ [.miss h] } g := by
    intro h
    refine coupledS_setReadQ hc _ ?_
    intro hash ve ts hin
    rcases List.mem_append.mp hin with hin | hin
    · exact Or.inl hin
    · simp at hin
  unfold lookup
  dsimp only
  cases hk : AL.get? s.map k with
  | none => exact ⟨by simp [yields], by simpa [ghostStep] using hmiss _⟩
  | some ve =>
    dsimp only
    cases hx : isExpiredInfo p s (getInfo s ve.info) s.now with
    | true =>
      simp only [if_true]
      exact ⟨by simp [yields], by simpa [ghostStep] using hmiss _⟩
    | false =>
      simp only [Bool.false_eq_true, if_false]
      refine ⟨?_, ?_⟩
      · simp only [yields, List.all_cons, List.all_nil, Bool.and_true]
        exact allChecks_of_entry hc hk hx _ (Or.inr rfl)
      · obtain ⟨ge, e1, e2, e3, e4, e5, e6⟩ := hc.ents k ve hk
        have hg : ghostStep .sync g (.get k) (.val (some ve.val)) =
            { g with ents := AL.put g.ents k { ge with tAcc := g.now } } := by
          simp [ghostStep, e1]
        rw [hg]
        refine coupledS_setReadQ (coupledS_touch hc e1) _ ?_
        intro hash ve' ts hin
        rcases List.mem_append.mp hin with hin | hin
        · exact Or.inl hin
        · simp only [List.mem_singleton] at hin
          cases hin
          refine Or.inr ⟨hc.refsMap k ve hk, { ge with tAcc := g.now }, ?_, ?_⟩
          · show AL.get? (AL.put g.ents k { ge with tAcc := g.now }) (getInfo s ve.info).key = _
            rw [e3, AL.get?_put_self]
          · simp [hc.now]

theorem heldReads_append_read (l : List (Tid × Pend)) (t : Tid) (op : ROp) :
    heldReads (l ++ [(t, .read op)]) = heldReads l ++ [op] := by
  induction l with
  | nil => rfl
  | cons x l ih =>
    obtain ⟨t', pd⟩ := x
    cases pd with
    | write op' => simp only [List.cons_append, heldReads, ih]
    | read op' => simp only [List.cons_append, heldReads, ih]

theorem heldReads_append_write (l : List (Tid × Pend)) (t : Tid) (op : WOp) :
    heldReads (l ++ [(t, .write op)]) = heldReads l := by
  induction l with
  | nil => rfl
  | cons x l ih =>
    obtain ⟨t', pd⟩ := x
    cases pd with
    | write op' => simp only [List.cons_append, heldReads, ih]
    | read op' => simp only [List.cons_append, heldReads, ih]

theorem mem_heldReads_dropPend {l : List (Tid × Pend)} {t : Tid} {op : ROp}
    (h : op ∈ heldReads (dropPend l t)) : op ∈ heldReads l := by
  obtain ⟨t', ht'⟩ := mem_heldReads.mp h
  exact mem_heldReads.mpr ⟨t', (mem_dropPend.mp ht').1⟩

/-! ### one step of one thread -/

/-- The reference after an event. -/
def gstep (g : Ghost) : Option (Op × Obs) → Ghost
  | none => g
  | some (op, obs) => ghostStep .sync g op obs

/-- Every enabled step of every thread: what it contributes to the linearised trace passes the
three checks, and the coupling is kept. -/
theorem step_coupledC {p : Params} (hq : NoQuirks p) {c c' : CState} {g : Ghost}
    (hc : CoupledC p c g) (e : Ev) (hs : step p c e = some c') :
    (∀ op obs, evObs p c e = some (op, obs) →
      stops obs = false ∧ (yields op obs).all (allChecks p g) = true) ∧
    CoupledC p c' (gstep g (evObs p c e)) := by
  cases e with
  | insMap t k v =>
    refine ⟨?_, ?_⟩
    · intro op obs h
      simp only [evObs, Option.some.injEq, Prod.mk.injEq] at h
      obtain ⟨rfl, rfl⟩ := h
      exact ⟨rfl, by simp [yields]⟩
    · simp only [step] at hs
      split at hs
      · cases hs
      · cases hs
        have h := insertMap_coupled (p := p) hc k v
        unfold virt at h
        rw [insertMap_setReadQ] at h
        show CoupledS p _ (ghostStep .sync g (.ins k v) .ok)
        unfold virt
        simp only [heldReads_append_write, insertMap_readQ]
        exact h
  | invMap t k =>
    refine ⟨?_, ?_⟩
    · intro op obs h
      simp only [evObs, Option.some.injEq, Prod.mk.injEq] at h
      obtain ⟨rfl, rfl⟩ := h
      exact ⟨rfl, by simp [yields]⟩
    · show CoupledS p _ (ghostStep .sync g (.inv k) .ok)
      have h := invalidateMap_coupled (p := p) hc k
      simp only [step] at hs
      split at hs
      · cases hs
      · unfold invalidateMap at hs h
        unfold virt at h ⊢
        dsimp only at hs h
        cases hk : AL.get? c.s.map k with
        | none =>
          rw [hk] at hs h
          dsimp only at hs h
          cases hs
          exact h
        | some ve =>
          rw [hk] at hs h
          dsimp only at hs h
          cases hs
          simp only [heldReads_append_write]
          exact h
  | getMap t k =>
    have h := lookup_coupled (p := p) hc.base k
    refine ⟨?_, ?_⟩
    · intro op obs ho
      simp only [evObs, Option.some.injEq, Prod.mk.injEq] at ho
      obtain ⟨rfl, rfl⟩ := ho
      exact ⟨rfl, h.1⟩
    · show CoupledS p _ (ghostStep .sync g (.get k) (.val (lookup p c.s k).2))
      have h2 := lookup_coupled (p := p) hc k
      have hl : lookup p (virt c) k = lookup p c.s k := rfl
      rw [hl] at h2
      simp only [step] at hs
      split at hs
      · cases hs
      · cases hs
        unfold virt at h2 ⊢
        simp only [heldReads_append_read, ← List.append_assoc]
        exact h2.2
  | maint t =>
    refine ⟨fun op obs h => by simp [evObs] at h, ?_⟩
    simp only [step] at hs
    split at hs
    · cases hs
    · cases hs
      exact coupledC_frame hc (trySync_frame hq c.s) rfl
  | sync t =>
    refine ⟨?_, ?_⟩
    · intro op obs h
      simp only [evObs, Option.some.injEq, Prod.mk.injEq] at h
      obtain ⟨rfl, rfl⟩ := h
      exact ⟨rfl, by simp [yields]⟩
    · simp only [step] at hs
      split at hs
      · cases hs
      · cases hs
        exact coupledC_frame hc (syncRun_frame hq c.s) rfl
  | enq t =>
    refine ⟨fun op obs h => by simp [evObs] at h, ?_⟩
    show CoupledS p _ g
    simp only [step] at hs
    split at hs
    · cases hs
    · -- a write: the write queue is not mentioned by the coupling
      split at hs
      · cases hs
        have h1 := coupledS_frame hc
          (frame0_set_writeQ (virt c) (c.s.writeQ ++ [‹WOp›])).toFrame
        refine coupledS_readQ_sub h1 _ ?_
        intro op hop
        rcases List.mem_append.mp hop with h | h
        · exact List.mem_append_left _ h
        · exact List.mem_append_right _ (mem_heldReads_dropPend h)
      · cases hs
    · -- a read: it moves from the held reads to the queue, or is dropped
      rename_i rop hpd
      have hmem : rop ∈ heldReads c.pending := mem_heldReads.mpr ⟨t, mem_of_pendOf_some hpd⟩
      split at hs
      · cases hs
        refine coupledS_readQ_sub hc _ ?_
        intro op hop
        rcases List.mem_append.mp hop with h | h
        · rcases List.mem_append.mp h with h | h
          · exact List.mem_append_left _ h
          · simp only [List.mem_singleton] at h
            rw [h]; exact List.mem_append_right _ hmem
        · exact List.mem_append_right _ (mem_heldReads_dropPend h)
      · cases hs
        refine coupledS_readQ_sub hc _ ?_
        intro op hop
        rcases List.mem_append.mp hop with h | h
        · exact List.mem_append_left _ h
        · exact List.mem_append_right _ (mem_heldReads_dropPend h)
  | tick d =>
    refine ⟨?_, ?_⟩
    · intro op obs h
      simp only [evObs, Option.some.injEq, Prod.mk.injEq] at h
      obtain ⟨rfl, rfl⟩ := h
      exact ⟨rfl, by simp [yields]⟩
    · simp only [step] at hs
      cases hs
      exact adv_coupled (p := p) (s := virt c) hc d
  | invAll t =>
    refine ⟨?_, ?_⟩
    · intro op obs h
      simp only [evObs, Option.some.injEq, Prod.mk.injEq] at h
      obtain ⟨rfl, rfl⟩ := h
      exact ⟨rfl, by simp [yields]⟩
    · simp only [step] at hs
      cases hs
      exact invalidateAll_coupled (p := p) (s := virt c) hc

/-! ### whole executions -/

theorem lookupOracle_lin {p : Params} (hq : NoQuirks p)
    (check : Ghost → Nat × Option Nat → Bool)
    (himp : ∀ g kv, allChecks p g kv = true → check g kv = true) :
    ∀ (evs : List Ev) (c : CState) (g : Ghost), CoupledC p c g →
      lookupOracle .sync check g (lin p c evs) = true := by
  intro evs
  induction evs with
  | nil => intro c g _; rfl
  | cons e rest ih =>
    intro c g hc
    simp only [lin]
    cases hs : step p c e with
    | none => rfl
    | some c' =>
      obtain ⟨h1, h2⟩ := step_coupledC hq hc e hs
      dsimp only
      cases ho : evObs p c e with
      | none =>
        rw [ho] at h2
        simpa using ih c' g h2
      | some oo =>
        obtain ⟨op, obs⟩ := oo
        rw [ho] at h2
        obtain ⟨hst, hch⟩ := h1 op obs ho
        simp only [Option.toList, List.cons_append, List.nil_append, lookupOracle, hst,
          Bool.false_eq_true, if_false, Bool.and_eq_true]
        refine ⟨?_, ih c' _ h2⟩
        rw [List.all_eq_true] at hch ⊢
        exact fun kv hkv => himp g kv (hch kv hkv)

end ConcS
end MiniMoka
