/-
  Every step of the unsync model preserves the invariant; hence every reachable state
  satisfies it and no history ever faults.
-/
import MiniMoka.Lemmas.UnsyncInsert

namespace MiniMoka
namespace Unsync

theorem opTs_isSome (p : Params) (s : UState) : (opTs p s).isSome = p.hasExpiry := by
  unfold opTs; split <;> simp_all

theorem insert_inv {P : Sketch → Prop} (L : SketchLaws P) {p : Params} (hq : NoQuirks p)
    (hsm : SmallSketch p) {s : UState} (hi : Inv P p s) (k v : Nat) :
    Inv P p (insert p s k v) := by
  obtain ⟨h1, _, h3⟩ := maintain_spec hq hi.inv
  have hi1 : Inv P p (maintain p s) := hi.of_aux h1 h3.sk h3.skOn
  unfold insert
  dsimp only
  cases hg : AL.get? (maintain p s).map k with
  | some old =>
    dsimp only
    refine hi1.of_aux (handleUpdate_inv h1 hg _ (opTs_isSome p _)) ?_ ?_
    all_goals
      obtain ⟨id, n, _, _, _, heq⟩ := handleUpdate_eq (entry := { val := v, weight := p.weigh k v })
        h1.struct hg (opTs p (maintain p s)) (p.weigh k v) (opTs_isSome p _)
      rw [heq]
      dsimp only
      cases old.wo with
      | none => simp [touchAo]
      | some wid =>
        dsimp only
        split
        · simp [touchAo, touchWo]
        · split <;> simp [touchAo]
  | none =>
    dsimp only
    exact handleInsert_inv L hsm hi1 _ hg

theorem init_inv {P : Sketch → Prop} (L : SketchLaws P) (p : Params) : Inv P p {} := by
  refine ⟨⟨⟨?_, ?_, ?_, ?_, ?_, ?_, ?_, ?_, ?_, ?_, ?_⟩, ⟨?_, ?_, ?_⟩⟩, L.init, fun _ => rfl⟩ <;>
    simp [totalW]

/-- One step from a state satisfying the invariant: the invariant holds again (in
particular no fault), whatever the operation. -/
theorem step_inv {P : Sketch → Prop} (L : SketchLaws P) {p : Params} (hq : NoQuirks p)
    (hsm : SmallSketch p) {s : UState} (hi : Inv P p s) (op : Op) :
    Inv P p (step p s op).1 := by
  have hnf := hi.inv.struct.noFault
  unfold step
  simp only [hnf, Option.isSome_none, Bool.false_eq_true, if_false]
  have key : ∀ (r : UState × Obs), Inv P p r.1 →
      Inv P p (match r.1.fault with
        | some f => (r.1, Obs.panic f)
        | none => r).1 := by
    intro r hr
    rw [hr.inv.struct.noFault]; exact hr
  apply key
  cases op with
  | ins k v => exact insert_inv L hq hsm hi k v
  | get k => exact get_inv L hq hi k
  | has k => exact containsKey_inv hq hi k
  | iter => exact hi
  | inv k => exact invalidate_inv hq hi k
  | invAll => exact invalidateAll_inv hq hi
  | invIf pr => exact invalidateEntriesIf_inv hq hi pr
  | sync => exact hi
  | adv d =>
    dsimp only
    exact hi.of_aux
      (invU_of hi.inv (structP_congr hi.inv.struct rfl rfl rfl rfl (by simp [hnf])) rfl rfl rfl)
      rfl rfl
  | snap => exact hi
  | freq k => exact hi

/-- State reached after a history. -/
def runState (p : Params) : UState → List Op → UState
  | s, [] => s
  | s, op :: rest => runState p (step p s op).1 rest

theorem runState_inv {P : Sketch → Prop} (L : SketchLaws P) {p : Params} (hq : NoQuirks p)
    (hsm : SmallSketch p) (h : List Op) : ∀ {s : UState}, Inv P p s → Inv P p (runState p s h) := by
  induction h with
  | nil => intro s hi; exact hi
  | cons op rest ih => intro s hi; exact ih (step_inv L hq hsm hi op)

/-- Every state reachable from the empty cache satisfies the invariant. -/
theorem reachable_inv {P : Sketch → Prop} (L : SketchLaws P) {p : Params} (hq : NoQuirks p)
    (hsm : SmallSketch p) (h : List Op) : Inv P p (runState p {} h) :=
  runState_inv L hq hsm h (init_inv L p)

end Unsync
end MiniMoka
