/-
  C13 on the concurrent cache: an admission whose victim scan meets a node whose entry has left
  the map (`insert k`, `invalidate a`, then the maintenance run that applies `Upsert k` before
  `Remove a`).  Lemmas for `Props/C13Dangling.lean`.
-/
import MiniMoka.Lemmas.SyncGrowth
import MiniMoka.Props.C13Sync

namespace MiniMoka
namespace Sync
namespace Dangling

open Nodes Spec Admit
open Unsync.Admit (shortestPre shortestPrefix_eq sameKeys_iff shortestPre_eq_some_iff)

/-! ### the victim scan skips nodes whose entry is not the map's -/

/-- The node's entry is the map's entry of its key. -/
def liveN (p : Params) (s : SState) (n : AoNode) : Bool := (entryOfNode p s n.key n.info).isSome

/-- Agreement of two accumulators of the scan on what decides. -/
def CoreEq (a b : Admission) : Prop := a.vw = b.vw ∧ a.vf = b.vf ∧ a.victims = b.victims

theorem admitLoop_stop (p : Params) (s : SState) (cw cf : Nat) (l : List AoNode) (a : Admission)
    (h : ¬ (a.vw < cw ∧ ¬ cf < a.vf)) : admitLoop p s cw cf l a = a := by
  cases l with
  | nil => rfl
  | cons n rest => unfold admitLoop; rw [if_neg h]

theorem admitLoop_cons_live (p : Params) (s : SState) (cw cf : Nat) (nd : AoNode)
    (rest : List AoNode) (a : Admission) (ve : VE) (h : a.vw < cw ∧ ¬ cf < a.vf)
    (he : entryOfNode p s nd.key nd.info = some ve) :
    admitLoop p s cw cf (nd :: rest) a =
      admitLoop p s cw cf rest
        { a with vw := a.vw + (getInfo s ve.info).weight, vf := a.vf + s.sk.frequency nd.hash,
                 victims := a.victims ++ [nd], retries := 0 } := by
  rw [admitLoop, if_pos h, he]

theorem admitLoop_cons_skip (p : Params) (s : SState) (cw cf : Nat) (nd : AoNode)
    (rest : List AoNode) (a : Admission) (h : a.vw < cw ∧ ¬ cf < a.vf)
    (he : entryOfNode p s nd.key nd.info = none)
    (hr : a.retries + 1 ≤ Gen.MAX_CONSECUTIVE_RETRIES) :
    admitLoop p s cw cf (nd :: rest) a =
      admitLoop p s cw cf rest
        { a with skipped := a.skipped ++ [nd], retries := a.retries + 1 } := by
  rw [admitLoop, if_pos h, he]
  dsimp only
  rw [if_neg (by omega)]

theorem admitLoop_core {p : Params} {s : SState} {cw cf : Nat} :
    ∀ (l : List AoNode), (∀ n ∈ l, liveN p s n = true) → ∀ a b, CoreEq a b →
      CoreEq (admitLoop p s cw cf l a) (admitLoop p s cw cf l b) := by
  intro l
  induction l with
  | nil => intro _ a b h; exact h
  | cons nd rest ih =>
    intro hl a b h
    obtain ⟨h1, h2, h3⟩ := h
    have hlive := hl nd List.mem_cons_self
    unfold liveN at hlive
    cases he : entryOfNode p s nd.key nd.info with
    | none => rw [he] at hlive; cases hlive
    | some ve =>
      by_cases hc : a.vw < cw ∧ ¬ cf < a.vf
      · have hc' : b.vw < cw ∧ ¬ cf < b.vf := by rw [← h1, ← h2]; exact hc
        rw [admitLoop_cons_live p s cw cf nd rest a ve hc he,
          admitLoop_cons_live p s cw cf nd rest b ve hc' he]
        apply ih (fun n hn => hl n (List.mem_cons_of_mem _ hn))
        refine ⟨?_, ?_, ?_⟩
        · show a.vw + _ = b.vw + _; rw [h1]
        · show a.vf + _ = b.vf + _; rw [h2]
        · show a.victims ++ _ = b.victims ++ _; rw [h3]
      · have hc' : ¬ (b.vw < cw ∧ ¬ cf < b.vf) := by rw [← h1, ← h2]; exact hc
        rw [admitLoop_stop _ _ _ _ _ _ hc, admitLoop_stop _ _ _ _ _ _ hc']
        exact ⟨h1, h2, h3⟩

/-- The scan over a list with few nodes to skip decides as the scan over the list without them. -/
theorem admitLoop_filter {p : Params} {s : SState} {cw cf : Nat} :
    ∀ (l : List AoNode) (a : Admission),
      (l.filter (fun n => !liveN p s n)).length + a.retries ≤ Gen.MAX_CONSECUTIVE_RETRIES →
      CoreEq (admitLoop p s cw cf l a) (admitLoop p s cw cf (l.filter (liveN p s)) a) := by
  intro l
  induction l with
  | nil => intro a _; exact ⟨rfl, rfl, rfl⟩
  | cons nd rest ih =>
    intro a hcnt
    by_cases hc : a.vw < cw ∧ ¬ cf < a.vf
    · cases hl : liveN p s nd with
      | true =>
        rw [List.filter_cons_of_pos hl]
        rw [List.filter_cons_of_neg (by simp [hl])] at hcnt
        unfold liveN at hl
        cases he : entryOfNode p s nd.key nd.info with
        | none => rw [he] at hl; cases hl
        | some ve =>
          rw [admitLoop_cons_live p s cw cf nd _ a ve hc he,
            admitLoop_cons_live p s cw cf nd _ a ve hc he]
          apply ih
          show _ + 0 ≤ _
          omega
      | false =>
        rw [List.filter_cons_of_neg (by simp [hl])]
        rw [List.filter_cons_of_pos (by simp [hl])] at hcnt
        have he : entryOfNode p s nd.key nd.info = none := by
          unfold liveN at hl
          cases h : entryOfNode p s nd.key nd.info with
          | none => rfl
          | some _ => rw [h] at hl; cases hl
        simp only [List.length_cons] at hcnt
        rw [admitLoop_cons_skip p s cw cf nd rest a hc he (by omega)]
        have h1 := ih { a with skipped := a.skipped ++ [nd], retries := a.retries + 1 }
          (by show _ + (a.retries + 1) ≤ _; omega)
        have h2 := admitLoop_core (p := p) (s := s) (cw := cw) (cf := cf)
          (rest.filter (liveN p s)) (fun n hn => (List.mem_filter.mp hn).2)
          { a with skipped := a.skipped ++ [nd], retries := a.retries + 1 } a ⟨rfl, rfl, rfl⟩
        exact ⟨h1.1.trans h2.1, h1.2.1.trans h2.2.1, h1.2.2.trans h2.2.2⟩
    · rw [admitLoop_stop _ _ _ _ _ _ hc, admitLoop_stop _ _ _ _ _ _ hc]
      exact ⟨rfl, rfl, rfl⟩

/-- Closed formula of the scan over any list of current nodes, from the empty accumulator. -/
theorem admitLoop_closed_list {p : Params} (hd7 : p.q.d7 = false) {s : SState} {cw cf : Nat}
    (l : List AoNode) (hall : AllCur s l) :
    ((admitLoop p s cw cf l {}).vw ≥ cw ∧ cf > (admitLoop p s cw cf l {}).vf ↔
      ∃ n, shortestPre cw (l.map (fun n => (getInfo s n.info).weight)) = some n ∧
        cf > ((l.map (fun n => s.sk.frequency n.hash)).take n).sum) ∧
    (∀ n, shortestPre cw (l.map (fun n => (getInfo s n.info).weight)) = some n →
        cf > ((l.map (fun n => s.sk.frequency n.hash)).take n).sum →
        (admitLoop p s cw cf l {}).victims = l.take n) := by
  have := admitLoop_closed_gen (p := p) hd7 (s := s) (cw := cw) (cf := cf) l {} hall
  obtain ⟨_, h1, h2⟩ := this
  refine ⟨?_, ?_⟩
  · simpa using h1
  · intro n hn1 hn2
    have := (h2 n (by simpa using hn1) (by simpa using hn2)).1
    simpa using this

/-! ### removal of victims that are anywhere in the list -/

theorem removeVictims_cur {p : Params} (hd7 : p.q.d7 = false) :
    ∀ (vs : List AoNode) (s : SState) (sk0 : List AoNode), Safe s → (∀ v ∈ vs, v ∈ s.prob) →
      (vs.map (·.id)).Nodup → AllCur s vs → (AL.keys s.map).Nodup →
      (removeVictims p vs s sk0).1.map = eraseKeys s.map (vs.map (·.key)) ∧
      (removeVictims p vs s sk0).1.cws =
        s.cws - (vs.map (fun n => (getInfo s n.info).weight)).sum := by
  intro vs
  induction vs with
  | nil =>
    intro s sk0 _ _ _ _ _
    exact ⟨rfl, by simp [removeVictims]⟩
  | cons v vs ih =>
    intro s sk0 h hmem hids hcur hkn
    have hv : v ∈ s.prob := hmem v List.mem_cons_self
    obtain ⟨e, he, hei⟩ := hcur v List.mem_cons_self
    rw [removeVictims, findAo_of_mem h.probIds hv]
    dsimp only
    rw [entryOfNode_cur hd7 he hei]
    dsimp only
    have h0 := safe_eraseMap h v.key
    obtain ⟨x1, x2, x3, x4⟩ := handleRemove_exact h0 e (n := v) hv hei.symm
    obtain ⟨hs1, _, _⟩ := handleRemove_safe h0 e
    generalize handleRemove { s with map := AL.erase s.map v.key } e = s1 at x1 x2 x3 x4 hs1 ⊢
    have hm1 : s1.map = AL.erase s.map v.key := x2
    simp only [List.map_cons, List.nodup_cons] at hids
    have hne : ∀ n, n ∈ vs → n.id ≠ v.id ∧ n.info ≠ v.info ∧ n.key ≠ v.key := by
      intro n hnv
      have hnp : n ∈ s.prob := hmem n (List.mem_cons_of_mem _ hnv)
      have hid : n.id ≠ v.id := fun e' => hids.1 (e' ▸ List.mem_map.mpr ⟨n, hnv, rfl⟩)
      have hi : n.info ≠ v.info := fun e' => hid (h.info_inj hnp hv e')
      refine ⟨hid, hi, fun e' => hi ?_⟩
      obtain ⟨e2, he2, hei2⟩ := hcur n (List.mem_cons_of_mem _ hnv)
      rw [e', he] at he2
      cases he2
      rw [← hei2, hei]
    have hmem1 : ∀ n ∈ vs, n ∈ s1.prob := by
      intro n hnv
      rw [x1]
      exact (mem_eraseAo_iff (findAo_of_mem h.probIds hv) h.probIds n).mpr
        ⟨hmem n (List.mem_cons_of_mem _ hnv), (hne n hnv).1⟩
    have hcur1 : AllCur s1 vs := by
      intro n hnv
      obtain ⟨e2, he2, hei2⟩ := hcur n (List.mem_cons_of_mem _ hnv)
      refine ⟨e2, ?_, hei2⟩
      rw [hm1, AL.get?_erase_ne (fun e' => (hne n hnv).2.2 e'.symm)]
      exact he2
    have hkn1 : (AL.keys s1.map).Nodup := by rw [hm1]; exact AL.nodup_erase _ hkn
    obtain ⟨r3, r5⟩ := ih s1 sk0 hs1 hmem1 hids.2 hcur1 hkn1
    refine ⟨?_, ?_⟩
    · rw [r3, hm1]; rfl
    · rw [r5, x3]
      have hw : vs.map (fun n => (getInfo s1 n.info).weight) =
          vs.map (fun n => (getInfo s n.info).weight) := by
        apply List.map_congr_left
        intro n hnv
        rw [x4 _ (by rw [hei]; exact (hne n hnv).2.1)]
        rfl
      rw [hw, List.map_cons, List.sum_cons, hei]
      show s.cws - (getInfo s v.info).weight - _ = _
      omega

theorem moveNodeToBackAo_cws (s : SState) (id : Nat) : (moveNodeToBackAo s id).cws = s.cws := by
  unfold moveNodeToBackAo
  split
  · rfl
  · exact fail_cws _ _

theorem moveSkipped_map : ∀ (ns : List AoNode) (s : SState), (moveSkipped ns s).map = s.map := by
  intro ns
  induction ns with
  | nil => intro s; rfl
  | cons n rest ih => intro s; rw [moveSkipped, ih, moveNodeToBackAo_map]

theorem moveSkipped_cws : ∀ (ns : List AoNode) (s : SState), (moveSkipped ns s).cws = s.cws := by
  intro ns
  induction ns with
  | nil => intro s; rfl
  | cons n rest ih => intro s; rw [moveSkipped, ih, moveNodeToBackAo_cws]

/-! ### `admit` when some nodes are dangling -/

theorem admitOrReject_dangling {p : Params} (hd7 : p.q.d7 = false) {s : SState} {k : Nat}
    {hash : UInt64} {ve : VE} {w : Nat} (hs : Safe s) (hkn : (AL.keys s.map).Nodup)
    (hcand : AL.get? s.map k = some ve)
    (hcnt : (s.prob.filter (fun n => !liveN p s n)).length ≤ Gen.MAX_CONSECUTIVE_RETRIES)
    (hcur : AllCur s (s.prob.filter (liveN p s))) :
    (∀ n, shortestPre w ((s.prob.filter (liveN p s)).map (fun n => (getInfo s n.info).weight)) = some n →
      s.sk.frequency hash >
        (((s.prob.filter (liveN p s)).map (fun n => s.sk.frequency n.hash)).take n).sum →
      (admitOrReject p s k hash ve w).map =
        eraseKeys s.map (((s.prob.filter (liveN p s)).take n).map (·.key)) ∧
      (admitOrReject p s k hash ve w).cws =
        s.cws - (((s.prob.filter (liveN p s)).map (fun n => (getInfo s n.info).weight)).take n).sum
          + w) ∧
    ((¬ ∃ n, shortestPre w ((s.prob.filter (liveN p s)).map (fun n => (getInfo s n.info).weight)) = some n ∧
        s.sk.frequency hash >
          (((s.prob.filter (liveN p s)).map (fun n => s.sk.frequency n.hash)).take n).sum) →
      (admitOrReject p s k hash ve w).map = AL.erase s.map k ∧
      (admitOrReject p s k hash ve w).cws = s.cws) := by
  obtain ⟨e1, e2, e3⟩ := admitLoop_filter (p := p) (s := s) (cw := w)
    (cf := s.sk.frequency hash) s.prob {} (by show _ + 0 ≤ _; omega)
  obtain ⟨c1, c2⟩ := admitLoop_closed_list (p := p) hd7 (s := s) (cw := w)
    (cf := s.sk.frequency hash) (s.prob.filter (liveN p s)) hcur
  refine ⟨?_, ?_⟩
  · intro n hn1 hn2
    have hvic := c2 n hn1 hn2
    have hcond : (admitLoop p s w (s.sk.frequency hash) s.prob {}).vw ≥ w ∧
        s.sk.frequency hash > (admitLoop p s w (s.sk.frequency hash) s.prob {}).vf := by
      rw [e1, e2]; exact c1.mpr ⟨n, hn1, hn2⟩
    unfold admitOrReject
    dsimp only
    rw [if_pos hcond, e3, hvic]
    generalize (admitLoop p s w (s.sk.frequency hash) s.prob {}).skipped = sk0
    have hsub : ∀ v ∈ (s.prob.filter (liveN p s)).take n, v ∈ s.prob :=
      fun v hv => (List.mem_filter.mp (List.mem_of_mem_take hv)).1
    have hids : (((s.prob.filter (liveN p s)).take n).map (·.id)).Nodup :=
      List.Nodup.sublist (((List.take_sublist n _).trans List.filter_sublist).map _) hs.probIds
    have hcurv : AllCur s ((s.prob.filter (liveN p s)).take n) :=
      fun m hm => hcur m (List.mem_of_mem_take hm)
    obtain ⟨r3, r5⟩ := removeVictims_cur hd7 ((s.prob.filter (liveN p s)).take n) s sk0 hs hsub
      hids hcurv hkn
    generalize removeVictims p ((s.prob.filter (liveN p s)).take n) s sk0 = rv at r3 r5 ⊢
    obtain ⟨s2, sk2⟩ := rv
    dsimp only at r3 r5 ⊢
    rw [moveSkipped_map, moveSkipped_cws]
    obtain ⟨a1, _, a3⟩ := handleAdmit_exact p s2 k hash ve w
    refine ⟨by rw [a1, r3], ?_⟩
    rw [a3, r5, List.map_take]
  · intro hno
    have hcond : ¬ ((admitLoop p s w (s.sk.frequency hash) s.prob {}).vw ≥ w ∧
        s.sk.frequency hash > (admitLoop p s w (s.sk.frequency hash) s.prob {}).vf) := by
      rw [e1, e2]; exact fun h => hno (c1.mp h)
    unfold admitOrReject
    dsimp only
    rw [if_neg hcond, moveSkipped_map, moveSkipped_cws]
    have : removeCandidate p s k ve = { s with map := AL.erase s.map k } := by
      unfold removeCandidate
      rw [hcand]
      dsimp only
      rw [hd7, Bool.false_or, beq_self_eq_true, if_pos rfl]
    rw [this]
    exact ⟨rfl, rfl⟩

theorem liveN_congr (p : Params) {s s' : SState} (h : s'.map = s.map) : liveN p s' = liveN p s := by
  funext n
  unfold liveN entryOfNode
  rw [h]

/-- `handle_upsert` for the queued insert of a new key that finds no room, when some nodes of
the access order are dangling. -/
theorem handleUpsert_dangling {p : Params} (hq : NoQuirks p) {cap : Nat} (hcap : p.cap = some cap)
    {s : SState} {k v : Nat} {ve : VE} (oldW w0 : Nat) (hs : Safe s)
    (hkn : (AL.keys s.map).Nodup) (hcand : AL.get? s.map k = some ve) (hval : ve.val = v)
    (hna : (getInfo s ve.info).admitted = false)
    (hcnt : (s.prob.filter (fun n => !liveN p s n)).length ≤ Gen.MAX_CONSECUTIVE_RETRIES)
    (hcur : AllCur s (s.prob.filter (liveN p s)))
    (hroom : s.cws + p.weigh k v > cap) (hfit : p.weigh k v ≤ cap) :
    (∀ n, shortestPre (p.weigh k v)
        ((s.prob.filter (liveN p s)).map (fun n => (getInfo s n.info).weight)) = some n →
      s.sk.frequency (p.hash k) >
        (((s.prob.filter (liveN p s)).map (fun n => s.sk.frequency n.hash)).take n).sum →
      (handleUpsert p s k (p.hash k) ve oldW w0).map =
        eraseKeys s.map (((s.prob.filter (liveN p s)).take n).map (·.key)) ∧
      (handleUpsert p s k (p.hash k) ve oldW w0).cws =
        s.cws - (((s.prob.filter (liveN p s)).map (fun n => (getInfo s n.info).weight)).take n).sum
          + p.weigh k v) ∧
    ((¬ ∃ n, shortestPre (p.weigh k v)
          ((s.prob.filter (liveN p s)).map (fun n => (getInfo s n.info).weight)) = some n ∧
        s.sk.frequency (p.hash k) >
          (((s.prob.filter (liveN p s)).map (fun n => s.sk.frequency n.hash)).take n).sum) →
      (handleUpsert p s k (p.hash k) ve oldW w0).map = AL.erase s.map k ∧
      (handleUpsert p s k (p.hash k) ve oldW w0).cws = s.cws) := by
  have hd7 : p.q.d7 = false := by rw [hq]
  have hd10 : p.q.d10 = false := by rw [hq]
  have hcw : currentWeight p s k ve w0 = p.weigh k v := by
    unfold currentWeight
    rw [hd10, hcand]
    simp only [Bool.false_eq_true, if_false, beq_self_eq_true, if_true, hval]
  unfold handleUpsert
  dsimp only
  rw [hcw]
  generalize hs1 : withInfo s ve.info (fun i => { i with dirty := false }) = s1
  have hg : ∀ j, getInfo s1 j =
      if ve.info = j then { getInfo s ve.info with dirty := false } else getInfo s j := by
    intro j; rw [← hs1]; exact getInfo_withInfo _ _ _ _
  have hgw : ∀ j, (getInfo s1 j).weight = (getInfo s j).weight := by
    intro j; rw [hg]
    by_cases e : ve.info = j
    · rw [if_pos e, e]
    · rw [if_neg e]
  have hm1 : s1.map = s.map := by rw [← hs1]; rfl
  have hp1 : s1.prob = s.prob := by rw [← hs1]; rfl
  have hc1 : s1.cws = s.cws := by rw [← hs1]; rfl
  have hk1 : s1.sk = s.sk := by rw [← hs1]; rfl
  have hsafe1 : Safe s1 := by rw [← hs1]; exact hs.withInfo _ _ rfl rfl rfl
  have hna1 : ¬ (getInfo s1 ve.info).admitted = true := by
    rw [hg, if_pos rfl]
    show ¬ (getInfo s ve.info).admitted = true
    rw [hna]; exact Bool.false_ne_true
  rw [if_neg hna1]
  have hcurE : isCurrentEntry s1 k ve = true := by
    unfold isCurrentEntry
    rw [hm1, hcand]
    exact beq_self_eq_true _
  rw [hd7, hcurE]
  simp only [Bool.not_false, Bool.not_true, Bool.and_false, Bool.false_eq_true, if_false]
  have hroom1 : ¬ hasEnoughCapacity p (p.weigh k v) s1 = true := by
    unfold hasEnoughCapacity
    rw [hcap, hc1]
    simp only [decide_eq_true_eq]
    omega
  rw [if_neg hroom1]
  have hbig : ¬ tooBig p (p.weigh k v) = true := by
    unfold tooBig
    rw [hcap]
    simp only [decide_eq_true_eq]
    omega
  rw [if_neg hbig]
  have hL : liveN p s1 = liveN p s := liveN_congr p hm1
  have hcur1 : AllCur s1 (s1.prob.filter (liveN p s1)) := by
    rw [hp1, hL]; intro n hn; rw [hm1]; exact hcur n hn
  have hW : (s.prob.filter (liveN p s)).map (fun n => (getInfo s1 n.info).weight) =
      (s.prob.filter (liveN p s)).map (fun n => (getInfo s n.info).weight) :=
    List.map_congr_left (fun n _ => hgw n.info)
  obtain ⟨adm, rej⟩ := admitOrReject_dangling (p := p) hd7 (s := s1) (k := k) (hash := p.hash k)
    (ve := ve) (w := p.weigh k v) hsafe1 (by rw [hm1]; exact hkn) (by rw [hm1]; exact hcand)
    (by rw [hp1, hL]; exact hcnt) hcur1
  rw [hp1, hL, hW, hk1, hm1, hc1] at adm
  rw [hp1, hL, hW, hk1, hm1, hc1] at rej
  exact ⟨adm, rej⟩

/-! ### a maintenance run with queued writes only -/

theorem syncRun_writes {p : Params} {cap : Nat} (hcap : p.cap = some cap) {s : SState}
    (hr : s.readQ = [])
    (hne : NoExp p (applyWrites p s.writeQ.length { s with cec := s.ec, cws := s.ws }))
    (hcws : (applyWrites p s.writeQ.length { s with cec := s.ec, cws := s.ws }).cws ≤ cap) :
    SameCore (applyWrites p s.writeQ.length { s with cec := s.ec, cws := s.ws }) (syncRun p s) ∧
    (syncRun p s).ws = (applyWrites p s.writeQ.length { s with cec := s.ec, cws := s.ws }).cws := by
  rw [syncRun_eq]
  dsimp only
  have hpass : ∃ s2, syncPass p { s with cec := s.ec, cws := s.ws } = s2 ∧
      SameCore (applyWrites p s.writeQ.length { s with cec := s.ec, cws := s.ws }) s2 := by
    unfold syncPass
    dsimp only
    have e1 : (if s.readQ.length > 0 then
        applyReads p s.readQ.length { s with cec := s.ec, cws := s.ws }
        else { s with cec := s.ec, cws := s.ws }) = { s with cec := s.ec, cws := s.ws } := by
      rw [if_neg]; rw [hr]; exact Nat.lt_irrefl 0
    rw [e1]
    have e2 : (if s.writeQ.length > 0 then
        applyWrites p s.writeQ.length { s with cec := s.ec, cws := s.ws }
        else { s with cec := s.ec, cws := s.ws }) =
        applyWrites p s.writeQ.length { s with cec := s.ec, cws := s.ws } := by
      split
      · rfl
      · rename_i h
        have : s.writeQ.length = 0 := by omega
        rw [this]; rfl
    rw [e2]
    split
    · exact ⟨_, rfl, enableSketch_same _ _⟩
    · exact ⟨_, rfl, ⟨rfl, rfl, rfl, rfl, rfl, rfl, rfl, rfl⟩⟩
  obtain ⟨s2, e2, hsame⟩ := hpass
  rw [e2]
  generalize applyWrites p s.writeQ.length { s with cec := s.ec, cws := s.ws } = s1
    at hne hcws hsame ⊢
  have e3 : (if (p.hasExpiry || s2.va.isSome) = true then evictExpired p s2 else s2) = s2 := by
    split
    · exact evictExpired_noop (hne.same hsame)
    · rfl
  rw [e3]
  have e4 : weightsToEvict p s2 = 0 := by
    unfold weightsToEvict
    rw [hcap, hsame.cws]
    dsimp only
    omega
  rw [e4]
  simp only [Nat.lt_irrefl, if_false, gt_iff_lt]
  exact ⟨⟨hsame.map, hsame.infos, hsame.prob, hsame.wo, hsame.va, hsame.now, hsame.cws, hsame.cec⟩,
    hsame.cws⟩

theorem subCounters_cws_le (s : SState) (n w : Nat) : (subCounters s n w).cws ≤ s.cws := by
  unfold subCounters
  dsimp only
  split
  · rw [fail_cws]; exact Nat.sub_le _ _
  · exact Nat.sub_le _ _

theorem unlinkAo_cws (s : SState) (i : Nat) : (unlinkAo s i).cws = s.cws := by
  unfold unlinkAo; split
  · rfl
  · dsimp only; split
    · rfl
    · rw [fail_cws]; rfl

theorem handleRemove_cws_le (s : SState) (ve : VE) : (handleRemove s ve).cws ≤ s.cws := by
  unfold handleRemove
  dsimp only
  split
  · rw [unlinkWo_cws, unlinkAo_cws]
    exact subCounters_cws_le _ _ _
  · exact Nat.le_refl _

theorem subCounters_map' (s : SState) (n w : Nat) : (subCounters s n w).map = s.map := by
  unfold subCounters
  dsimp only
  split
  · exact fail_map _ _
  · rfl

theorem unlinkAo_map' (s : SState) (i : Nat) : (unlinkAo s i).map = s.map := by
  unfold unlinkAo; split
  · rfl
  · dsimp only; split
    · rfl
    · rw [fail_map]; rfl

theorem handleRemove_map' (s : SState) (ve : VE) : (handleRemove s ve).map = s.map := by
  unfold handleRemove
  dsimp only
  split
  · rw [unlinkWo_map, unlinkAo_map', subCounters_map']; rfl
  · rfl

/-- A run whose only queued write is a removal: the map stays. -/
theorem syncRun_remove {p : Params} {cap : Nat} (hcap : p.cap = some cap) {X : SState} {a : Nat}
    {ea : VE} (hr : X.readQ = []) (hw : X.writeQ = [.remove a ea]) (hne : NoExp p X)
    (hws : X.ws ≤ cap) : (syncRun p X).map = X.map := by
  have hT : applyWrites p X.writeQ.length { X with cec := X.ec, cws := X.ws } =
      handleRemove { X with cec := X.ec, cws := X.ws, writeQ := [] } ea :=
    applyWrites_single p { X with cec := X.ec, cws := X.ws } (.remove a ea) hw
  have hneY : NoExp p { X with cec := X.ec, cws := X.ws, writeQ := [] } := ⟨hne.ao, hne.wo⟩
  have h1 : NoExp p (handleRemove { X with cec := X.ec, cws := X.ws, writeQ := [] } ea) :=
    hneY.of_frame_sub (handleRemove_frame0 _ _) (handleRemove_sub _ _)
  have h2 : (handleRemove { X with cec := X.ec, cws := X.ws, writeQ := [] } ea).cws ≤ cap :=
    Nat.le_trans (handleRemove_cws_le _ _) hws
  rw [← hT] at h1 h2
  obtain ⟨hsame, _⟩ := syncRun_writes hcap hr h1 h2
  rw [hsame.map, hT, handleRemove_map']

/-- A run whose only queued write is an insert. -/
theorem syncRun_upsert {p : Params} {cap : Nat} (hcap : p.cap = some cap) {X : SState} {k : Nat}
    {h : UInt64} {ve : VE} {o w : Nat} (hr : X.readQ = []) (hw : X.writeQ = [.upsert k h ve o w])
    (hne : NoExp p (handleUpsert p { X with cec := X.ec, cws := X.ws, writeQ := [] } k h ve o w))
    (hws : (handleUpsert p { X with cec := X.ec, cws := X.ws, writeQ := [] } k h ve o w).cws ≤ cap) :
    SameCore (handleUpsert p { X with cec := X.ec, cws := X.ws, writeQ := [] } k h ve o w)
      (syncRun p X) ∧
    (syncRun p X).ws =
      (handleUpsert p { X with cec := X.ec, cws := X.ws, writeQ := [] } k h ve o w).cws := by
  have hT : applyWrites p X.writeQ.length { X with cec := X.ec, cws := X.ws } =
      handleUpsert p { X with cec := X.ec, cws := X.ws, writeQ := [] } k h ve o w :=
    applyWrites_single p { X with cec := X.ec, cws := X.ws } (.upsert k h ve o w) hw
  rw [← hT] at hne hws ⊢
  exact syncRun_writes hcap hr hne hws

theorem applyWrites_two (p : Params) (s : SState) (op1 op2 : WOp) (hw : s.writeQ = [op1, op2]) :
    applyWrites p s.writeQ.length s =
      applyWrite p { applyWrite p { s with writeQ := [op2] } op1 with writeQ := [] } op2 := by
  have : s.writeQ.length = 0 + 1 + 1 := by rw [hw]; rfl
  rw [this, applyWrites]
  simp only [hw]
  rw [applyWrites]
  have hq : (applyWrite p { s with writeQ := [op2] } op1).writeQ = [op2] :=
    (applyWrite_qframe p _ op1).writeQ
  simp only [hq]
  rfl

/-- A run with a queued insert followed by a queued removal: the map is that after the insert. -/
theorem syncRun_upsert_remove {p : Params} {cap : Nat} (hcap : p.cap = some cap) {X : SState}
    {k a : Nat} {h : UInt64} {ve ea : VE} {o w : Nat} (hr : X.readQ = [])
    (hw : X.writeQ = [.upsert k h ve o w, .remove a ea])
    (hne : NoExp p (handleUpsert p
      { X with cec := X.ec, cws := X.ws, writeQ := [.remove a ea] } k h ve o w))
    (hws : (handleUpsert p
      { X with cec := X.ec, cws := X.ws, writeQ := [.remove a ea] } k h ve o w).cws ≤ cap) :
    (syncRun p X).map = (handleUpsert p
      { X with cec := X.ec, cws := X.ws, writeQ := [.remove a ea] } k h ve o w).map := by
  have hT : applyWrites p X.writeQ.length { X with cec := X.ec, cws := X.ws } =
      handleRemove { handleUpsert p
        { X with cec := X.ec, cws := X.ws, writeQ := [.remove a ea] } k h ve o w
          with writeQ := [] } ea :=
    applyWrites_two p { X with cec := X.ec, cws := X.ws } (.upsert k h ve o w) (.remove a ea) hw
  generalize handleUpsert p
    { X with cec := X.ec, cws := X.ws, writeQ := [.remove a ea] } k h ve o w = u at hne hws hT ⊢
  have hneY : NoExp p { u with writeQ := [] } := ⟨hne.ao, hne.wo⟩
  have h1 : NoExp p (handleRemove { u with writeQ := [] } ea) :=
    hneY.of_frame_sub (handleRemove_frame0 _ _) (handleRemove_sub _ _)
  have h2 : (handleRemove { u with writeQ := [] } ea).cws ≤ cap :=
    Nat.le_trans (handleRemove_cws_le _ _) hws
  rw [← hT] at h1 h2
  obtain ⟨hsame, _⟩ := syncRun_writes hcap hr h1 h2
  rw [hsame.map, hT, handleRemove_map']

theorem filter_key_le_one (a : Nat) : ∀ l : List AoNode, (l.map (·.key)).Nodup →
    (l.filter (fun n => n.key == a)).length ≤ 1 := by
  intro l
  induction l with
  | nil => intro _; simp
  | cons nd rest ih =>
    intro hn
    simp only [List.map_cons, List.nodup_cons] at hn
    by_cases h : nd.key = a
    · have : rest.filter (fun n => n.key == a) = [] := by
        rw [List.filter_eq_nil_iff]
        intro m hm hk
        have hk' : m.key = a := by simpa using hk
        exact hn.1 (by rw [h, ← hk']; exact List.mem_map.mpr ⟨m, hm, rfl⟩)
      rw [List.filter_cons_of_pos (by simpa using h), this]; simp
    · rw [List.filter_cons_of_neg (by simpa using h)]; exact ih hn.2

/-- The residents' nodes other than that of `a`. -/
def restProb (s : SState) (a : Nat) : List AoNode := s.prob.filter (fun n => n.key != a)

/-- **State level.**  Quiescent calm `s`, new key `k` that finds no room, resident `a`:
`insert k v; invalidate a; sync`. -/
theorem dangling_sync {p : Params} (hq : NoQuirks p) (hsm : SmallSketch p) {cap : Nat}
    (hcap : p.cap = some cap) {s : SState} (hi : AInv p s) (hc : CalmS p cap s) (k v a : Nat)
    (hnew : AL.get? s.map k = none) {ea : VE} (hres : AL.get? s.map a = some ea)
    (hfit : p.weigh k v ≤ cap) (hroom : s.ws + p.weigh k v > cap) :
    (∀ n, shortestPre (p.weigh k v)
        ((restProb s a).map (fun n => (getInfo s n.info).weight)) = some n →
      s.sk.frequency (p.hash k) >
        (((restProb s a).map (fun n => s.sk.frequency n.hash)).take n).sum →
      (syncRun p (invalidate p (insert p s k v) a)).map =
        eraseKeys (AL.erase (AL.put s.map k (candVE s v)) a) (((restProb s a).take n).map (·.key))) ∧
    ((¬ ∃ n, shortestPre (p.weigh k v)
          ((restProb s a).map (fun n => (getInfo s n.info).weight)) = some n ∧
        s.sk.frequency (p.hash k) >
          (((restProb s a).map (fun n => s.sk.frequency n.hash)).take n).sum) →
      (syncRun p (invalidate p (insert p s k v) a)).map =
        AL.erase (AL.erase (AL.put s.map k (candVE s v)) a) k) := by
  have hd7 : p.q.d7 = false := by rw [hq]
  have hnc := hi.top.nodes.toNodesCore
  have hne := hc.noExp hnc
  have hins := insert_fresh p hi.q v hnew
  have hak : a ≠ k := by intro e; rw [e, hnew] at hres; cases hres
  have hi2 : AInv p (insert p s k v) := by
    have := step_ainv hq hsm hi (.ins k v)
    rw [step_fst p s _ hi.top.nofault] at this
    exact this
  have hkn0 := hi.top.map.kn
  have hknP : (AL.keys (AL.put s.map k (candVE s v))).Nodup := AL.nodup_put _ _ hkn0
  have c_info := getInfo_withCand p s k v
  have c_map : (withCand p s k v).map = AL.put s.map k (candVE s v) := rfl
  have c_prob : (withCand p s k v).prob = s.prob := rfl
  have c_va : (withCand p s k v).va = s.va := rfl
  have c_now : (withCand p s k v).now = s.now := rfl
  have c_sk : (withCand p s k v).sk = s.sk := rfl
  have c_ws : (withCand p s k v).ws = s.ws := rfl
  have c_wq : (withCand p s k v).writeQ = [] := hc.writeQ
  have c_rq : (withCand p s k v).readQ = [] := hc.readQ
  have hne_c : NoExp p (withCand p s k v) := by
    refine ⟨?_, ?_⟩
    · intro n hn
      have hlt := node_info_lt hnc (show n ∈ s.prob from hn)
      rw [c_info, if_neg (by omega)]
      exact hne.ao n hn
    · intro n hn
      have hlt := wo_info_lt hnc (show n ∈ s.wo from hn)
      rw [c_info, if_neg (by omega)]
      exact hne.wo n hn
  have hQ := housekeepW_quiet hcap (s := withCand p s k v) hc.readQ hc.writeQ hne_c hc.ws
    hi.top.sk.skOff
  generalize withCand p s k v = c at hins c_info c_map c_prob c_va c_now c_sk c_ws c_wq c_rq hne_c hQ
  generalize housekeepW p c = H at hins hQ
  have hHw : H.writeQ = [] := by rw [hQ.writeQ]; exact c_wq
  have hHr : H.readQ = [] := by rw [hQ.readQ]; exact c_rq
  have hHm : H.map = AL.put s.map k (candVE s v) := by rw [hQ.map, c_map]
  rw [hHw, List.nil_append] at hins
  rw [hins] at hi2 ⊢
  have hwpos : 0 < p.weigh k v := by have := hc.ws; omega
  have hl := hc.live _ _ hres
  unfold isExpiredInfo at hl
  rw [Bool.or_eq_false_iff] at hl
  -- the queued insert, applied to a state `g` that agrees with `H` but for the map
  have key : ∀ g : SState, g.map = AL.erase H.map a → g.infos = H.infos → g.prob = H.prob →
      g.wo = H.wo → g.va = H.va → g.now = H.now → g.cws = H.ws → g.cec = H.ec → g.sk = H.sk →
      g.nextId = H.nextId → g.fault = H.fault →
      NoExp p (handleUpsert p g k (p.hash k) (candVE s v) 0 (p.weigh k v)) ∧
      (handleUpsert p g k (p.hash k) (candVE s v) 0 (p.weigh k v)).cws ≤ cap ∧
      (∀ n, shortestPre (p.weigh k v)
          ((restProb s a).map (fun n => (getInfo s n.info).weight)) = some n →
        s.sk.frequency (p.hash k) >
          (((restProb s a).map (fun n => s.sk.frequency n.hash)).take n).sum →
        (handleUpsert p g k (p.hash k) (candVE s v) 0 (p.weigh k v)).map =
          eraseKeys (AL.erase (AL.put s.map k (candVE s v)) a)
            (((restProb s a).take n).map (·.key))) ∧
      ((¬ ∃ n, shortestPre (p.weigh k v)
            ((restProb s a).map (fun n => (getInfo s n.info).weight)) = some n ∧
          s.sk.frequency (p.hash k) >
            (((restProb s a).map (fun n => s.sk.frequency n.hash)).take n).sum) →
        (handleUpsert p g k (p.hash k) (candVE s v) 0 (p.weigh k v)).map =
          AL.erase (AL.erase (AL.put s.map k (candVE s v)) a) k) := by
    intro g gm gi gp gw gva gnow gcws gcec gsk gnid gf
    have hgm : g.map = AL.erase (AL.put s.map k (candVE s v)) a := by rw [gm, hHm]
    have hgp : g.prob = s.prob := by rw [gp, hQ.prob, c_prob]
    have hgva : g.va = s.va := by rw [gva, hQ.va, c_va]
    have hgnow : g.now = s.now := by rw [gnow, hQ.now, c_now]
    have hgI : ∀ j, getInfo g j = if s.nextId = j then candInfo p s k v else getInfo s j := by
      intro j; rw [getInfo_congr gi, getInfo_congr hQ.infos, c_info]
    have hgf : ∀ h, g.sk.frequency h = s.sk.frequency h := by
      intro h; rw [gsk, hQ.freq, c_sk]
    have hgc : g.cws = s.ws := by rw [gcws, hQ.ws, c_ws]
    have hu := hi2.top
    have hsafe : Safe g := by
      refine ⟨⟨hu.nodes.toNodesCore.congr (s' := g) ?_ ?_ ?_ ?_ ?_ ?_, ?_⟩, ?_⟩
      · intro j; rw [getInfo_congr (s := { H with writeQ := [candOp p s k v] }) gi]
      · intro j; rw [getInfo_congr (s := { H with writeQ := [candOp p s k v] }) gi]
      · intro j; rw [getInfo_congr (s := { H with writeQ := [candOp p s k v] }) gi]
      · exact gp ▸ List.Perm.refl _
      · exact gw ▸ List.Perm.refl _
      · exact Nat.le_of_eq gnid.symm
      · rw [gcec, gp]; exact hu.nodes.count
      · rw [gf]; exact hu.nofault
    have hkn : (AL.keys g.map).Nodup := by rw [hgm]; exact AL.nodup_erase _ hknP
    have hcand : AL.get? g.map k = some (candVE s v) := by
      rw [hgm, AL.get?_erase_ne hak]; exact AL.get?_put_self _ _ _
    have hna : (getInfo g (candVE s v).info).admitted = false := by
      rw [hgI, if_pos (show s.nextId = (candVE s v).info from rfl)]; rfl
    have hcurN : ∀ n ∈ s.prob, n.key ≠ a →
        ∃ e, AL.get? g.map n.key = some e ∧ e.info = n.info := by
      intro n hn hna'
      obtain ⟨e, he, hei⟩ := hc.cur n hn
      refine ⟨e, ?_, hei⟩
      have hne' : k ≠ n.key := by
        intro e'; rw [← e', hnew] at he; cases he
      rw [hgm, AL.get?_erase_ne (Ne.symm hna'), AL.get?_put_ne _ hne']
      exact he
    have hLive : ∀ n ∈ s.prob, liveN p g n = (n.key != a) := by
      intro n hn
      unfold liveN
      by_cases h : n.key = a
      · have hnone : AL.get? g.map n.key = none := by
          rw [hgm, h]; exact AL.get?_erase_self a hknP
        unfold entryOfNode
        rw [hnone]
        simp [h]
      · obtain ⟨e, he, hei⟩ := hcurN n hn h
        rw [entryOfNode_cur hd7 he hei]
        simp [h]
    have hfilt : g.prob.filter (liveN p g) = restProb s a := by
      unfold restProb
      rw [hgp]
      exact List.filter_congr hLive
    have hcnt : (g.prob.filter (fun n => !liveN p g n)).length ≤ Gen.MAX_CONSECUTIVE_RETRIES := by
      have e : g.prob.filter (fun n => !liveN p g n) = s.prob.filter (fun n => n.key == a) := by
        rw [hgp]
        apply List.filter_congr
        intro n hn
        rw [hLive n hn]
        simp [bne]
      rw [e]
      exact Nat.le_trans (filter_key_le_one a _ (prob_keys_nodup hnc hc.cur)) (by decide)
    have hmemR : ∀ n, n ∈ restProb s a → n ∈ s.prob ∧ n.key ≠ a := by
      intro n hn
      unfold restProb at hn
      obtain ⟨h1, h2⟩ := List.mem_filter.mp hn
      exact ⟨h1, by simpa using h2⟩
    have hcur : AllCur g (g.prob.filter (liveN p g)) := by
      rw [hfilt]
      intro n hn
      exact hcurN n (hmemR n hn).1 (hmemR n hn).2
    have hW : (restProb s a).map (fun n => (getInfo g n.info).weight) =
        (restProb s a).map (fun n => (getInfo s n.info).weight) := by
      apply List.map_congr_left
      intro n hn
      have := node_info_lt hnc (hmemR n hn).1
      rw [hgI, if_neg (by omega)]
    have hF : (restProb s a).map (fun n => g.sk.frequency n.hash) =
        (restProb s a).map (fun n => s.sk.frequency n.hash) :=
      List.map_congr_left (fun n _ => hgf n.hash)
    have hneg : NoExp p g := by
      refine ⟨?_, ?_⟩
      · intro n hn
        rw [gp, hQ.prob] at hn
        rw [gva, hQ.va, getInfo_congr gi, getInfo_congr hQ.infos, gnow, hQ.now]
        exact hne_c.ao n hn
      · intro n hn
        rw [gw, hQ.wo] at hn
        rw [gva, hQ.va, getInfo_congr gi, getInfo_congr hQ.infos, gnow, hQ.now]
        exact hne_c.wo n hn
    obtain ⟨adm, rej⟩ := handleUpsert_dangling hq hcap (s := g) (k := k) (v := v)
      (ve := candVE s v) 0 (p.weigh k v) hsafe hkn hcand rfl hna hcnt hcur
      (by rw [hgc]; exact hroom) hfit
    rw [hfilt, hW, hF, hgf, hgm, hgc] at adm
    rw [hfilt, hW, hF, hgf, hgm, hgc] at rej
    have hfr := handleUpsert_frame0 p g k (p.hash k) (candVE s v) 0 (p.weigh k v)
    have hsc := handleUpsert_subc p g k (p.hash k) (candVE s v) 0 (p.weigh k v)
    have hnoexp : NoExp p (handleUpsert p g k (p.hash k) (candVE s v) 0 (p.weigh k v)) := by
      refine hneg.of_frame_subc hfr hsc ?_ ?_
      · rw [hgva, hgnow, hgI, if_pos (show s.nextId = (candVE s v).info from rfl)]
        exact expiredTs_fresh hi.ts.va (hi.ts.la _) hl.2
      · rw [hgva, hgnow, hgI, if_pos (show s.nextId = (candVE s v).info from rfl)]
        exact expiredTs_fresh hi.ts.va (hi.ts.lm _) hl.1
    refine ⟨hnoexp, ?_, fun n hn1 hn2 => (adm n hn1 hn2).1, fun hno => (rej hno).1⟩
    by_cases hex : ∃ n, shortestPre (p.weigh k v)
          ((restProb s a).map (fun n => (getInfo s n.info).weight)) = some n ∧
        s.sk.frequency (p.hash k) >
          (((restProb s a).map (fun n => s.sk.frequency n.hash)).take n).sum
    · obtain ⟨n, hn1, hn2⟩ := hex
      obtain ⟨_, hsum, _⟩ := (shortestPre_eq_some_iff _ _ _).mp hn1
      rw [(adm n hn1 hn2).2]
      have := hc.ws
      omega
    · rw [(rej hex).2]; exact hc.ws
  -- the invalidation
  have hqI : QInv ({ H with writeQ := [candOp p s k v] } : SState) := hi2.q
  have hgetA : AL.get? ({ H with writeQ := [candOp p s k v] } : SState).map a = some ea := by
    show AL.get? H.map a = some ea
    rw [hHm, AL.get?_put_ne _ (Ne.symm hak)]; exact hres
  have hinv : invalidate p { H with writeQ := [candOp p s k v] } a =
      { housekeepW p { H with writeQ := [candOp p s k v], map := AL.erase H.map a } with
        writeQ := (housekeepW p { H with writeQ := [candOp p s k v], map := AL.erase H.map a }).writeQ
          ++ [.remove a ea] } := by
    unfold invalidate
    rw [hgetA]
    dsimp only
    exact scheduleWriteOp3 p (s := { H with writeQ := [candOp p s k v], map := AL.erase H.map a })
      (qinv_of_eq hqI rfl rfl rfl) _
  rw [hinv]
  have hregA : ∀ X : SState,
      X = ({ H with map := AL.erase H.map a, writeQ := [candOp p s k v] ++ [.remove a ea] } : SState) →
      (∀ n, shortestPre (p.weigh k v)
          ((restProb s a).map (fun n => (getInfo s n.info).weight)) = some n →
        s.sk.frequency (p.hash k) >
          (((restProb s a).map (fun n => s.sk.frequency n.hash)).take n).sum →
        (syncRun p X).map = eraseKeys (AL.erase (AL.put s.map k (candVE s v)) a)
          (((restProb s a).take n).map (·.key))) ∧
      ((¬ ∃ n, shortestPre (p.weigh k v)
            ((restProb s a).map (fun n => (getInfo s n.info).weight)) = some n ∧
          s.sk.frequency (p.hash k) >
            (((restProb s a).map (fun n => s.sk.frequency n.hash)).take n).sum) →
        (syncRun p X).map = AL.erase (AL.erase (AL.put s.map k (candVE s v)) a) k) := by
    intro X hX
    obtain ⟨k1, k2, k3, k4⟩ := key
      { X with cec := X.ec, cws := X.ws, writeQ := [.remove a ea] }
      (by rw [hX]) (by rw [hX]) (by rw [hX]) (by rw [hX]) (by rw [hX]) (by rw [hX]) (by rw [hX])
      (by rw [hX]) (by rw [hX]) (by rw [hX]) (by rw [hX])
    have hXr : X.readQ = [] := by rw [hX]; exact hHr
    have hXw : X.writeQ = [.upsert k (p.hash k) (candVE s v) 0 (p.weigh k v), .remove a ea] := by
      rw [hX]; rfl
    have e := syncRun_upsert_remove hcap hXr hXw k1 k2
    exact ⟨fun n hn1 hn2 => e.trans (k3 n hn1 hn2), fun hno => e.trans (k4 hno)⟩
  unfold housekeepW
  split
  · -- maintenance inside `invalidate`
    unfold trySync
    split
    · exact hregA _ rfl
    · dsimp only
      generalize hJ : ({ H with writeQ := [candOp p s k v], map := AL.erase H.map a, running := true, syncAfter := H.now + Gen.PERIODICAL_SYNC_INTERVAL_MILLIS * 1000000 } : SState) = J
      obtain ⟨k1, k2, k3, k4⟩ := key { J with cec := J.ec, cws := J.ws, writeQ := [] }
        (by rw [← hJ]) (by rw [← hJ]) (by rw [← hJ]) (by rw [← hJ]) (by rw [← hJ]) (by rw [← hJ])
        (by rw [← hJ]) (by rw [← hJ]) (by rw [← hJ]) (by rw [← hJ]) (by rw [← hJ])
      have hJr : J.readQ = [] := by rw [← hJ]; exact hHr
      have hJw : J.writeQ = [.upsert k (p.hash k) (candVE s v) 0 (p.weigh k v)] := by
        rw [← hJ]; rfl
      obtain ⟨hsame, hws⟩ := syncRun_upsert hcap hJr hJw k1 k2
      have hne1 : NoExp p (syncRun p J) := k1.same hsame
      have e : (syncRun p { (syncRun p J) with running := false, writeQ := (syncRun p J).writeQ ++ [.remove a ea] }).map =
          (syncRun p J).map := by
        refine syncRun_remove hcap (a := a) (ea := ea) (syncRun_readQ p J) ?_ ⟨hne1.ao, hne1.wo⟩ ?_
        · show (syncRun p J).writeQ ++ [.remove a ea] = _
          rw [syncRun_writeQ]; rfl
        · show (syncRun p J).ws ≤ cap
          rw [hws]; exact k2
      refine ⟨fun n hn1 hn2 => ?_, fun hno => ?_⟩
      · exact e.trans (hsame.map.trans (k3 n hn1 hn2))
      · exact e.trans (hsame.map.trans (k4 hno))
  · exact hregA _ rfl

/-! ### snapshots: the residents without `a` -/

theorem lruOrder_without (p : Params) (s : SState) (a : Nat) :
    lruOrder (withoutKey (snapshot p s) a) = (restProb s a).map (·.key) := by
  simp [lruOrder, withoutKey, snapshot, restProb, List.filter_map, List.map_map, Function.comp_def]

theorem weightOfKey_without (sn : Snap) {a x : Nat} (hx : x ≠ a) :
    weightOfKey (withoutKey sn a) x = weightOfKey sn x := by
  unfold weightOfKey withoutKey
  dsimp only
  rw [List.find?_filter]
  have : (fun e : EntryView => decide ((e.key != a) = true ∧ (e.key == x) = true)) =
      (fun e => e.key == x) := by
    funext e
    by_cases h : e.key = x
    · simp [h, hx]
    · simp [h]
  rw [this]

theorem freqOfKey_without (sn : Snap) (a x : Nat) :
    freqOfKey (withoutKey sn a) x = freqOfKey sn x := rfl

theorem mem_keysOf_without (sn : Snap) (a x : Nat) :
    x ∈ keysOf (withoutKey sn a) ↔ x ∈ keysOf sn ∧ x ≠ a := by
  simp only [keysOf, withoutKey, List.mem_map, List.mem_filter, bne_iff_ne, ne_eq]
  constructor
  · rintro ⟨e, ⟨h1, h2⟩, rfl⟩
    exact ⟨⟨e, h1, rfl⟩, h2⟩
  · rintro ⟨⟨e, h1, rfl⟩, h2⟩
    exact ⟨e, ⟨h1, h2⟩, rfl⟩

theorem predictAdmission_without {p : Params} {s : SState} (hkn : (AL.keys s.map).Nodup)
    (hcur : AllCur s s.prob) (hh : PH p s) (a w f : Nat) :
    predictAdmission (withoutKey (snapshot p s) a) w f =
      match shortestPre w ((restProb s a).map (fun n => (getInfo s n.info).weight)) with
      | none => none
      | some n =>
        if f > (((restProb s a).map (fun n => s.sk.frequency n.hash)).take n).sum
        then some (((restProb s a).take n).map (·.key)) else none := by
  have hmemR : ∀ n, n ∈ restProb s a → n ∈ s.prob ∧ n.key ≠ a := by
    intro n hn
    unfold restProb at hn
    obtain ⟨h1, h2⟩ := List.mem_filter.mp hn
    exact ⟨h1, by simpa using h2⟩
  unfold predictAdmission
  rw [shortestPrefix_eq, lruOrder_without]
  have hW : ((restProb s a).map (·.key)).map (weightOfKey (withoutKey (snapshot p s) a)) =
      (restProb s a).map (fun n => (getInfo s n.info).weight) := by
    rw [List.map_map]
    apply List.map_congr_left
    intro n hn
    obtain ⟨e, he, hei⟩ := hcur n (hmemR n hn).1
    simp only [Function.comp, weightOfKey_without _ (hmemR n hn).2, weightOfKey_snapshot hkn, he,
      hei]
  have hF : ((restProb s a).map (·.key)).map (freqOfKey (withoutKey (snapshot p s) a)) =
      (restProb s a).map (fun n => s.sk.frequency n.hash) := by
    rw [List.map_map]
    apply List.map_congr_left
    intro n hn
    obtain ⟨e, he, _⟩ := hcur n (hmemR n hn).1
    simp only [Function.comp, freqOfKey_without, freqOfKey_snapshot hkn, he, hh n (hmemR n hn).1]
  rw [hW, Nat.sub_zero]
  cases shortestPre w ((restProb s a).map (fun n => (getInfo s n.info).weight)) with
  | none => rfl
  | some n =>
    simp only [Option.map_some, List.nil_append]
    rw [← hF, List.map_take, List.map_take]

theorem bool_imp (b c : Bool) (h : b = true → c = true) : (!b || c) = true := by
  cases b
  · rfl
  · simpa using h rfl

/-- The check of the oracle around `insert k v; invalidate a; sync` holds for the model. -/
theorem danglingOk_model {p : Params} (hq : NoQuirks p) (hsm : SmallSketch p) {cap : Nat}
    (hcap : p.cap = some cap) (s : SState) (hi : AInv p s) (k v a : Nat) :
    danglingOk cap p.ttl p.tti p.weigh (snapshot p s) k v (s.sk.frequency (p.hash k)) a
      (snapshot p (syncRun p (invalidate p (insert p s k v) a))) = true := by
  unfold danglingOk
  dsimp only
  refine bool_imp _ _ (fun happ => ?_)
  simp only [Bool.and_eq_true, Bool.not_eq_true', decide_eq_true_eq, beq_iff_eq] at happ
  obtain ⟨⟨⟨⟨⟨⟨hquiet, hfresh⟩, hresA⟩, hcalm⟩, hle⟩, hgt⟩, _⟩ := happ
  have hnew : AL.get? s.map k = none := by
    cases hg : AL.get? s.map k with
    | none => rfl
    | some e =>
      have : k ∈ keysOf (snapshot p s) := (mem_keysOf_snapshot p s k).mpr ⟨e, hg⟩
      rw [← List.contains_iff_mem, hfresh] at this; cases this
  obtain ⟨ea, hea⟩ := (mem_keysOf_snapshot p s a).mp (List.contains_iff_mem.mp hresA)
  have hak : a ≠ k := by intro e; rw [e, hnew] at hea; cases hea
  have hc := calmS_of_snapshot hcalm hquiet.1.1.1 hquiet.1.1.2
  have hkn := hi.top.map.kn
  have hkn2 : (AL.keys (AL.put s.map k (candVE s v))).Nodup := AL.nodup_put _ _ hkn
  have hkn3 : (AL.keys (AL.erase (AL.put s.map k (candVE s v)) a)).Nodup := AL.nodup_erase _ hkn2
  obtain ⟨hadm, hrej⟩ := dangling_sync hq hsm hcap hi hc k v a hnew hea hle hgt
  rw [predictAdmission_without hkn hc.cur hi.hash.prob]
  have hmemR : ∀ n, n ∈ restProb s a → n ∈ s.prob ∧ n.key ≠ a := by
    intro n hn
    unfold restProb at hn
    obtain ⟨h1, h2⟩ := List.mem_filter.mp hn
    exact ⟨h1, by simpa using h2⟩
  have hrejected : (¬ ∃ n, shortestPre (p.weigh k v)
        ((restProb s a).map (fun n => (getInfo s n.info).weight)) = some n ∧
      s.sk.frequency (p.hash k) >
        (((restProb s a).map (fun n => s.sk.frequency n.hash)).take n).sum) →
      sameKeys (keysOf (snapshot p (syncRun p (invalidate p (insert p s k v) a))))
        (keysOf (withoutKey (snapshot p s) a)) = true := by
    intro hno
    rw [sameKeys_iff]
    intro x
    rw [mem_keysOf_snapshot, mem_keysOf_without, mem_keysOf_snapshot, hrej hno,
      AL.get?_erase k x hkn3, AL.get?_erase a x hkn2]
    by_cases hx : k = x
    · subst hx
      rw [if_pos rfl, hnew]
      constructor
      · rintro ⟨_, h⟩; cases h
      · rintro ⟨⟨_, h⟩, _⟩; cases h
    · rw [if_neg hx]
      by_cases hxa : a = x
      · subst hxa
        rw [if_pos rfl]
        constructor
        · rintro ⟨_, h⟩; cases h
        · rintro ⟨_, h⟩; exact absurd rfl h
      · rw [if_neg hxa, AL.get?_put_ne _ hx]
        exact ⟨fun h => ⟨h, fun e => hxa e.symm⟩, fun h => h.1⟩
  cases hsp : shortestPre (p.weigh k v)
      ((restProb s a).map (fun n => (getInfo s n.info).weight)) with
  | none =>
    dsimp only
    apply hrejected
    rintro ⟨n, h1, _⟩
    rw [hsp] at h1; cases h1
  | some n =>
    dsimp only
    by_cases hf : s.sk.frequency (p.hash k) >
        (((restProb s a).map (fun n => s.sk.frequency n.hash)).take n).sum
    · rw [if_pos hf]
      dsimp only
      have hmap := hadm n hsp hf
      rw [sameKeys_iff]
      intro x
      rw [mem_keysOf_snapshot, hmap, get?_eraseKeys hkn3, AL.get?_erase a x hkn2]
      simp only [List.mem_cons, List.mem_filter, Bool.not_eq_true', mem_keysOf_without,
        mem_keysOf_snapshot]
      have hkv : k ∉ ((restProb s a).take n).map (·.key) := by
        intro hin
        obtain ⟨m, hm, hmk⟩ := List.mem_map.mp hin
        obtain ⟨e, he, _⟩ := hc.cur m (hmemR m (List.mem_of_mem_take hm)).1
        rw [hmk, hnew] at he; cases he
      by_cases hx : x = k
      · subst hx
        rw [if_neg hkv, if_neg hak, AL.get?_put_self]
        exact ⟨fun _ => Or.inl rfl, fun _ => ⟨_, rfl⟩⟩
      · have hx' : k ≠ x := fun e => hx e.symm
        by_cases hin : x ∈ ((restProb s a).take n).map (·.key)
        · rw [if_pos hin]
          constructor
          · rintro ⟨e', he'⟩; cases he'
          · rintro (h | ⟨_, h⟩)
            · exact absurd h hx
            · rw [← List.contains_iff_mem] at hin
              rw [hin] at h; cases h
        · rw [if_neg hin]
          have hcn : (((restProb s a).take n).map (·.key)).contains x = false := by
            cases hcn : (((restProb s a).take n).map (·.key)).contains x with
            | false => rfl
            | true => exact absurd (List.contains_iff_mem.mp hcn) hin
          by_cases hxa : a = x
          · subst hxa
            rw [if_pos rfl]
            constructor
            · rintro ⟨_, h⟩; cases h
            · rintro (h | ⟨⟨_, h⟩, _⟩)
              · exact absurd h hx
              · exact absurd rfl h
          · rw [if_neg hxa, AL.get?_put_ne _ hx']
            constructor
            · intro h
              exact Or.inr ⟨⟨h, fun e => hxa e.symm⟩, hcn⟩
            · rintro (h | ⟨⟨h, _⟩, _⟩)
              · exact absurd h hx
              · exact h
    · rw [if_neg hf]
      dsimp only
      apply hrejected
      rintro ⟨n', h1, h2⟩
      rw [hsp] at h1; cases h1
      exact hf h2

/-! ### the walk of the trace oracle -/

theorem admitDanglingC13_run {p : Params} (hq : NoQuirks p) (hsm : SmallSketch p) {cap : Nat}
    (hmodel : ∀ (s : SState), AInv p s → ∀ (k v a : Nat),
      danglingOk cap p.ttl p.tti p.weigh (snapshot p s) k v (s.sk.frequency (p.hash k)) a
        (snapshot p (syncRun p (invalidate p (insert p s k v) a))) = true) :
    ∀ (n : Nat) (h : List Op), h.length ≤ n → ∀ (s : SState), AInv p s →
      admitDanglingC13 cap p.ttl p.tti p.weigh (run p s h) = true := by
  intro n
  induction n with
  | zero =>
    intro h hl s _
    have : h = [] := List.length_eq_zero_iff.mp (Nat.le_zero.mp hl)
    subst this
    simp [run, admitDanglingC13]
  | succ n ih =>
    intro h hl s hi
    cases h with
    | nil => simp [run, admitDanglingC13]
    | cons op rest =>
      have hlr : rest.length ≤ n := by simpa using hl
      obtain ⟨hrun, hi1⟩ := run_cons_ok hq hsm hi op rest
      rw [hrun]
      unfold admitDanglingC13
      split
      · -- sync, snap, freq, ins, inv, sync, snap
        rename_i before k f k' v a after rest' heq
        obtain ⟨e1, e2⟩ := List.cons.inj heq
        have hop : op = .sync := (Prod.mk.inj e1).1
        subst hop
        obtain ⟨op2, r2, hr2, hx2, ht2, hi2⟩ := run_eq_cons hq hsm hi1 e2
        have hop2 : op2 = .snap := (Prod.mk.inj hx2).1.symm
        subst hop2
        have hbefore : before = snapshot p (syncRun p s) := Obs.snap.inj (Prod.mk.inj hx2).2
        obtain ⟨op3, r3, hr3, hx3, ht3, hi3⟩ := run_eq_cons hq hsm hi2 ht2.symm
        have hop3 : op3 = .freq k := (Prod.mk.inj hx3).1.symm
        subst hop3
        have hf : f = (syncRun p s).sk.frequency (p.hash k) := Obs.freq.inj (Prod.mk.inj hx3).2
        obtain ⟨op4, r4, hr4, hx4, ht4, hi4⟩ := run_eq_cons hq hsm hi3 ht3.symm
        have hop4 : op4 = .ins k' v := (Prod.mk.inj hx4).1.symm
        subst hop4
        obtain ⟨op5, r5, hr5, hx5, ht5, hi5⟩ := run_eq_cons hq hsm hi4 ht4.symm
        have hop5 : op5 = .inv a := (Prod.mk.inj hx5).1.symm
        subst hop5
        obtain ⟨op6, r6, hr6, hx6, ht6, hi6⟩ := run_eq_cons hq hsm hi5 ht5.symm
        have hop6 : op6 = .sync := (Prod.mk.inj hx6).1.symm
        subst hop6
        obtain ⟨op7, r7, hr7, hx7, ht7, hi7⟩ := run_eq_cons hq hsm hi6 ht6.symm
        have hop7 : op7 = .snap := (Prod.mk.inj hx7).1.symm
        subst hop7
        have hafter : after =
            snapshot p (syncRun p (invalidate p (insert p (syncRun p s) k' v) a)) :=
          Obs.snap.inj (Prod.mk.inj hx7).2
        subst hr2 hr3 hr4 hr5 hr6 hr7
        rw [Bool.and_eq_true]
        refine ⟨?_, ?_⟩
        · by_cases hk : k = k'
          · subst hk
            have hm := hmodel (syncRun p s) hi1 k v a
            rw [hbefore, hf, hafter, hm]
            simp
          · simp [hk]
        · have hi5' : AInv p (invalidate p (insert p (syncRun p s) k' v) a) := hi5
          have hi6' : AInv p (syncRun p (invalidate p (insert p (syncRun p s) k' v) a)) := hi6
          have : ((Op.sync, Obs.ok) :: (Op.snap, Obs.snap after) :: rest') =
              run p (invalidate p (insert p (syncRun p s) k' v) a) (.sync :: .snap :: r7) := by
            rw [(run_cons_ok hq hsm hi5' _ _).1]
            show _ = _ :: run p (syncRun p (invalidate p (insert p (syncRun p s) k' v) a))
              (.snap :: r7)
            rw [(run_cons_ok hq hsm hi6' _ _).1, hafter, ht7]
            rfl
          rw [this]
          refine ih _ ?_ _ hi5'
          simp only [List.length_cons] at hlr ⊢
          omega
      · -- sync, snap, freq, ins, snap, inv, snap, sync, snap
        rename_i before k f k' v m1 a m2 after rest' heq
        obtain ⟨e1, e2⟩ := List.cons.inj heq
        have hop : op = .sync := (Prod.mk.inj e1).1
        subst hop
        obtain ⟨op2, r2, hr2, hx2, ht2, hi2⟩ := run_eq_cons hq hsm hi1 e2
        have hop2 : op2 = .snap := (Prod.mk.inj hx2).1.symm
        subst hop2
        have hbefore : before = snapshot p (syncRun p s) := Obs.snap.inj (Prod.mk.inj hx2).2
        obtain ⟨op3, r3, hr3, hx3, ht3, hi3⟩ := run_eq_cons hq hsm hi2 ht2.symm
        have hop3 : op3 = .freq k := (Prod.mk.inj hx3).1.symm
        subst hop3
        have hf : f = (syncRun p s).sk.frequency (p.hash k) := Obs.freq.inj (Prod.mk.inj hx3).2
        obtain ⟨op4, r4, hr4, hx4, ht4, hi4⟩ := run_eq_cons hq hsm hi3 ht3.symm
        have hop4 : op4 = .ins k' v := (Prod.mk.inj hx4).1.symm
        subst hop4
        obtain ⟨op5, r5, hr5, hx5, ht5, hi5⟩ := run_eq_cons hq hsm hi4 ht4.symm
        have hop5 : op5 = .snap := (Prod.mk.inj hx5).1.symm
        subst hop5
        have hm1 : m1 = snapshot p (insert p (syncRun p s) k' v) :=
          Obs.snap.inj (Prod.mk.inj hx5).2
        obtain ⟨op6, r6, hr6, hx6, ht6, hi6⟩ := run_eq_cons hq hsm hi5 ht5.symm
        have hop6 : op6 = .inv a := (Prod.mk.inj hx6).1.symm
        subst hop6
        obtain ⟨op7, r7, hr7, hx7, ht7, hi7⟩ := run_eq_cons hq hsm hi6 ht6.symm
        have hop7 : op7 = .snap := (Prod.mk.inj hx7).1.symm
        subst hop7
        have hm2 : m2 = snapshot p (invalidate p (insert p (syncRun p s) k' v) a) :=
          Obs.snap.inj (Prod.mk.inj hx7).2
        obtain ⟨op8, r8, hr8, hx8, ht8, hi8⟩ := run_eq_cons hq hsm hi7 ht7.symm
        have hop8 : op8 = .sync := (Prod.mk.inj hx8).1.symm
        subst hop8
        obtain ⟨op9, r9, hr9, hx9, ht9, hi9⟩ := run_eq_cons hq hsm hi8 ht8.symm
        have hop9 : op9 = .snap := (Prod.mk.inj hx9).1.symm
        subst hop9
        have hafter : after =
            snapshot p (syncRun p (invalidate p (insert p (syncRun p s) k' v) a)) :=
          Obs.snap.inj (Prod.mk.inj hx9).2
        subst hr2 hr3 hr4 hr5 hr6 hr7 hr8 hr9
        rw [Bool.and_eq_true]
        refine ⟨?_, ?_⟩
        · by_cases hk : k = k'
          · subst hk
            have hm := hmodel (syncRun p s) hi1 k v a
            rw [hbefore, hf, hafter, hm]
            simp
          · simp [hk]
        · have hi4' : AInv p (insert p (syncRun p s) k' v) := hi4
          have hi6' : AInv p (invalidate p (insert p (syncRun p s) k' v) a) := hi6
          have hi8' : AInv p (syncRun p (invalidate p (insert p (syncRun p s) k' v) a)) := hi8
          have : ((Op.snap, Obs.snap m1) :: (Op.inv a, Obs.ok) :: (Op.snap, Obs.snap m2) ::
                (Op.sync, Obs.ok) :: (Op.snap, Obs.snap after) :: rest') =
              run p (insert p (syncRun p s) k' v)
                (.snap :: .inv a :: .snap :: .sync :: .snap :: r9) := by
            rw [(run_cons_ok hq hsm hi4' _ _).1]
            show _ = _ :: run p (insert p (syncRun p s) k' v)
              (.inv a :: .snap :: .sync :: .snap :: r9)
            rw [(run_cons_ok hq hsm hi4' _ _).1]
            show _ = _ :: _ :: run p (invalidate p (insert p (syncRun p s) k' v) a)
              (.snap :: .sync :: .snap :: r9)
            rw [(run_cons_ok hq hsm hi6' _ _).1]
            show _ = _ :: _ :: _ :: run p (invalidate p (insert p (syncRun p s) k' v) a)
              (.sync :: .snap :: r9)
            rw [(run_cons_ok hq hsm hi6' _ _).1]
            show _ = _ :: _ :: _ :: _ ::
              run p (syncRun p (invalidate p (insert p (syncRun p s) k' v) a)) (.snap :: r9)
            rw [(run_cons_ok hq hsm hi8' _ _).1, hm1, hm2, hafter, ht9]
            rfl
          rw [this]
          refine ih _ ?_ _ hi4'
          simp only [List.length_cons] at hlr ⊢
          omega
      · rename_i x t heq
        obtain ⟨_, e2⟩ := List.cons.inj heq
        rw [← e2]
        exact ih rest hlr _ hi1
      · rfl

theorem admitDanglingC13_trace {p : Params} (hq : NoQuirks p) (hsm : SmallSketch p) {cap : Nat}
    (hmodel : ∀ (s : SState), AInv p s → ∀ (k v a : Nat),
      danglingOk cap p.ttl p.tti p.weigh (snapshot p s) k v (s.sk.frequency (p.hash k)) a
        (snapshot p (syncRun p (invalidate p (insert p s k v) a))) = true) (h : List Op) :
    admitDanglingC13 cap p.ttl p.tti p.weigh (trace p h) = true :=
  admitDanglingC13_run hq hsm hmodel h.length h (Nat.le_refl _) {} (init_ainv p)

end Dangling
end Sync
end MiniMoka
