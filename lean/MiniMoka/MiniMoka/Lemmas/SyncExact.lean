/-
  C03 part A on the sequential sync model: as long as nothing is evicted for size, the
  concurrent cache driven by one thread is exactly a map with expiry, for any placement of
  `sync` and of clock steps and any queue state.

  Two-way coupling between the model state and the reference `Spec.Ref`: soundness is the
  coupling `CoupledS` of `SyncLookup.lean` (through the projection `Unsync.toGhost`);
  completeness (`CompleteS`) says that every entry of the reference that is alive is either
  resident with the reference's value and timestamps (`last_modified = tIns`,
  `tSure ≤ last_accessed`, and `tAcc ≤ last_accessed` up to a hit that is still queued) or
  past one of its deadlines for good.

  The maintenance side: `FrameX` = `Frame` + every queued hit is either still queued or has
  been applied (`Applied`) + a map entry that leaves was expired, measured after all queued
  reads had been applied (`kept`).  `SyncOk p s` / `MaintOk p s op` say that the maintenance
  runs started in state `s` (by operation `op`) satisfy `FrameX`, i.e. do not evict or reject
  for size.  Without `max_capacity` that holds in every state (`maintOk_none`).  With
  `max_capacity = c` it holds along every history whose inserts weigh at most `c` in total
  (`RoomInv`): a ghost budget per entry info (`BInv`: the weight stored in the info, the policy
  weight of the map's entry and the weight carried by queued upserts are all at most the total
  weight inserted under that info) bounds the run-local weighted size through the counters
  invariant `CInv.wsum` of `SyncCounters.lean`.
-/
import MiniMoka.Lemmas.SyncKeys
import MiniMoka.Lemmas.SyncCounters
import MiniMoka.Lemmas.UnsyncExact

namespace MiniMoka
namespace Sync

open Spec Counters Nodes

/-! ### queued hits are applied, never lost -/

/-- Every hit queued in `s` is still queued in `s'` or `last_accessed` has caught up with it. -/
def Applied (s s' : SState) : Prop :=
  ∀ hash ve ts, ROp.hit hash ve ts ∈ s.readQ →
    ROp.hit hash ve ts ∈ s'.readQ ∨ ts ≤ (getInfo s' ve.info).la

theorem Applied.refl (s : SState) : Applied s s := fun _ _ _ h => Or.inl h

theorem Applied.trans {a b c : SState} (h1 : Applied a b) (h2 : Applied b c) (hf : Frame b c) :
    Applied a c := by
  intro hash ve ts hin
  rcases h1 hash ve ts hin with h | h
  · exact h2 hash ve ts h
  · exact Or.inr (Nat.le_trans h (hf.laLe _))

theorem Frame0.applied {s s' : SState} (h : Frame0 s s') : Applied s s' :=
  fun _ _ _ hin => Or.inl (by rw [h.readQ]; exact hin)

structure FrameA (s s' : SState) : Prop where
  frame : Frame s s'
  applied : Applied s s'

theorem FrameA.refl (s : SState) : FrameA s s := ⟨Frame.refl s, Applied.refl s⟩

theorem FrameA.trans {a b c : SState} (h1 : FrameA a b) (h2 : FrameA b c) : FrameA a c :=
  ⟨h1.frame.trans h2.frame, h1.applied.trans h2.applied h2.frame⟩

theorem Frame0.toFrameA {s s' : SState} (h : Frame0 s s') : FrameA s s' :=
  ⟨h.toFrame, h.applied⟩

theorem applyRead_frameA {p : Params} (hq : NoQuirks p) (s : SState) (op : ROp) (rest : List ROp)
    (hs : s.readQ = op :: rest) : FrameA s (applyRead p { s with readQ := rest } op) := by
  refine ⟨applyRead_frame hq s op rest hs, ?_⟩
  have hd6 : p.q.d6 = false := by rw [hq]
  intro hash ve ts hin
  rw [hs] at hin
  rcases List.mem_cons.mp hin with h | h
  · right
    subst h
    unfold applyRead
    simp only [hd6, Bool.false_eq_true, if_false]
    generalize sketchIncrement p { s with readQ := rest } hash = s1
    have h2 : ts ≤ (getInfo (if (getInfo s1 ve.info).la < ts
        then withInfo s1 ve.info (fun i => { i with la := ts }) else s1) ve.info).la := by
      by_cases hlt : (getInfo s1 ve.info).la < ts
      · rw [if_pos hlt, getInfo_withInfo, if_pos rfl]; exact Nat.le_refl _
      · rw [if_neg hlt]; exact Nat.le_of_not_lt hlt
    generalize (if (getInfo s1 ve.info).la < ts
        then withInfo s1 ve.info (fun i => { i with la := ts }) else s1) = s2 at h2 ⊢
    split
    · rw [(moveToBackAoE_frame0 _ _).la]; exact h2
    · exact h2
  · left
    rw [(applyRead_qframe p { s with readQ := rest } op).readQ]
    exact h

theorem applyReads_frameA {p : Params} (hq : NoQuirks p) (n : Nat) :
    ∀ (s : SState), FrameA s (applyReads p n s) := by
  induction n with
  | zero => intro s; exact FrameA.refl s
  | succ n ih =>
    intro s
    unfold applyReads
    split
    · exact FrameA.refl s
    · rename_i op rest hs
      exact (applyRead_frameA hq s op rest hs).trans (ih _)

theorem syncLoop_frameA {p : Params} (hq : NoQuirks p) (n : Nat) :
    ∀ (s : SState), FrameA s (syncLoop p n s) := by
  induction n with
  | zero => intro s; exact FrameA.refl s
  | succ n ih =>
    intro s
    unfold syncLoop
    dsimp only
    have h1 : FrameA s (if s.readQ.length > 0 then applyReads p s.readQ.length s else s) := by
      split
      · exact applyReads_frameA hq _ _
      · exact FrameA.refl s
    generalize (if s.readQ.length > 0 then applyReads p s.readQ.length s else s) = s1 at h1 ⊢
    have h2 : FrameA s1 (if s1.writeQ.length > 0 then applyWrites p s1.writeQ.length s1 else s1) := by
      split
      · exact (applyWrites_frame0 _ _ _).toFrameA
      · exact FrameA.refl _
    generalize (if s1.writeQ.length > 0 then applyWrites p s1.writeQ.length s1 else s1) = s2 at h2 ⊢
    have h3 : FrameA s2 (if shouldEnableSketch p s2 = true then enableSketch p s2 else s2) := by
      split
      · exact (enableSketch_frame0 _ _).toFrameA
      · exact FrameA.refl _
    generalize (if shouldEnableSketch p s2 = true then enableSketch p s2 else s2) = s3 at h3 ⊢
    split
    · exact ((h1.trans h2).trans h3).trans (ih _)
    · exact (h1.trans h2).trans h3

theorem syncRun_frameA {p : Params} (hq : NoQuirks p) (s : SState) : FrameA s (syncRun p s) := by
  unfold syncRun
  dsimp only
  have h0 : FrameA s { s with cec := s.ec, cws := s.ws } := (frame0_set_cec_cws _ _ _).toFrameA
  have h1 := syncLoop_frameA hq (Gen.MAX_SYNC_REPEATS + 1) { s with cec := s.ec, cws := s.ws }
  generalize syncLoop p (Gen.MAX_SYNC_REPEATS + 1) { s with cec := s.ec, cws := s.ws } = s1 at h1 ⊢
  have h2 : FrameA s1 (if (p.hasExpiry || s1.va.isSome) = true then evictExpired p s1 else s1) := by
    split
    · exact (evictExpired_frame0 _ _).toFrameA
    · exact FrameA.refl _
  generalize (if (p.hasExpiry || s1.va.isSome) = true then evictExpired p s1 else s1) = s2 at h2 ⊢
  have h3 : FrameA s2 (if weightsToEvict p s2 > 0
      then evictLruLoop p Gen.SYNC_EVICTION_BATCH_SIZE s2 (weightsToEvict p s2) 0 else s2) := by
    split
    · exact (evictLruLoop_frame0 _ _ _ _ _).toFrameA
    · exact FrameA.refl _
  generalize (if weightsToEvict p s2 > 0
      then evictLruLoop p Gen.SYNC_EVICTION_BATCH_SIZE s2 (weightsToEvict p s2) 0 else s2) = s3 at h3 ⊢
  exact (((h0.trans h1).trans h2).trans h3).trans (frame0_set_ec_ws _ _ _).toFrameA

/-- After a maintenance run every hit that was queued has been applied. -/
theorem syncRun_applied {p : Params} (hq : NoQuirks p) (s : SState) (hash : UInt64) (ve : VE)
    (ts : Nat) (hin : ROp.hit hash ve ts ∈ s.readQ) : ts ≤ (getInfo (syncRun p s) ve.info).la := by
  rcases (syncRun_frameA hq s).applied hash ve ts hin with h | h
  · rw [syncRun_readQ] at h; cases h
  · exact h

/-! ### expiry is a function of the two timestamps, the watermark and the clock -/

theorem isExpiredInfo_congr (p : Params) {s s' : SState} {i i' : Info} (now : Nat)
    (hv : s'.va = s.va) (hlm : i'.lm = i.lm) (hla : i'.la = i.la) :
    isExpiredInfo p s' i' now = isExpiredInfo p s i now := by
  simp only [isExpiredInfo, hv, hlm, hla]

theorem isExpiredInfo_frame0 (p : Params) {s s' : SState} (h : Frame0 s s') (j : Nat) :
    isExpiredInfo p s' (getInfo s' j) s'.now = isExpiredInfo p s (getInfo s j) s.now := by
  rw [h.now]; exact isExpiredInfo_congr p _ h.va (h.lm j) (h.la j)

theorem expiredTs_mono {d va : Option Nat} {t t' now : Nat} (hle : t ≤ t')
    (h : expiredTs d va t now = false) : expiredTs d va t' now = false := by
  simp only [expiredTs, Bool.or_eq_false_iff] at h ⊢
  obtain ⟨h1, h2⟩ := h
  refine ⟨?_, ?_⟩
  · cases va with
    | none => rfl
    | some v =>
      simp only [decide_eq_false_iff_not] at h1 ⊢
      omega
  · cases d with
    | none => rfl
    | some d =>
      simp only [decide_eq_false_iff_not] at h2 ⊢
      omega

/-- An entry that is not expired stays so while maintenance only moves `last_accessed` forward. -/
theorem notExpired_frame (p : Params) {s s' : SState} (h : Frame s s') (j : Nat)
    (hx : isExpiredInfo p s (getInfo s j) s.now = false) :
    isExpiredInfo p s' (getInfo s' j) s'.now = false := by
  simp only [isExpiredInfo, Bool.or_eq_false_iff] at hx ⊢
  rw [h.now, h.va, h.lm]
  exact ⟨hx.1, expiredTs_mono (h.laLe j) hx.2⟩

/-! ### maintenance that does not touch the map -/

theorem fail_map (s : SState) (f : Fault) : (s.fail f).map = s.map := by
  unfold SState.fail; split <;> rfl

theorem unlinkAo_map (s : SState) (i : Nat) : (unlinkAo s i).map = s.map := by
  unfold unlinkAo
  split
  · rfl
  · dsimp only
    split
    · rfl
    · exact fail_map _ _

theorem subCounters_map (s : SState) (n w : Nat) : (subCounters s n w).map = s.map := by
  unfold subCounters
  dsimp only
  split
  · exact fail_map _ _
  · rfl

theorem handleRemove_map (s : SState) (ve : VE) : (handleRemove s ve).map = s.map := by
  unfold handleRemove
  dsimp only
  split
  · rw [(unlinkWo_quiet _ _).1, unlinkAo_map, subCounters_map]; rfl
  · rfl

theorem applyUpdate_map (p : Params) (s : SState) (ve : VE) (oldW newW : Nat) :
    (applyUpdate p s ve oldW newW).map = s.map := by
  unfold applyUpdate
  dsimp only
  rw [(moveToBackWoE_same _ _).map, (moveToBackAoE_same _ _).map]
  generalize (if p.q.d8 = true then oldW else (getInfo s ve.info).weight) = w0
  have h : (subCounters s 0 w0).map = s.map := subCounters_map _ _ _
  generalize subCounters s 0 w0 = s1 at h ⊢
  split <;> exact h

theorem hasEnoughCapacity_none {p : Params} (hcap : p.cap = none) (s : SState) (w : Nat) :
    hasEnoughCapacity p w s = true := by
  unfold hasEnoughCapacity; rw [hcap]

theorem handleUpsert_map_none {p : Params} (hq : NoQuirks p) (hcap : p.cap = none) (s : SState)
    (key : Nat) (hash : UInt64) (ve : VE) (oldW newW : Nat) :
    (handleUpsert p s key hash ve oldW newW).map = s.map := by
  have hd8 : p.q.d8 = false := by rw [hq]
  unfold handleUpsert
  dsimp only
  generalize currentWeight p s key ve newW = nw
  have h0 : (withInfo s ve.info (fun i => { i with dirty := false })).map = s.map := rfl
  generalize withInfo s ve.info (fun i => { i with dirty := false }) = s1 at h0 ⊢
  by_cases h1 : (getInfo s1 ve.info).admitted = true
  · rw [if_pos h1, applyUpdate_map, h0]
  · rw [if_neg h1]
    by_cases h2 : (!p.q.d7 && !isCurrentEntry s1 key ve) = true
    · rw [if_pos h2, h0]
    · rw [if_neg h2, if_pos (hasEnoughCapacity_none hcap s1 nw), (handleAdmit_spec hd8 _ _ _ _ _).1, h0]

theorem applyWrites_map_none {p : Params} (hq : NoQuirks p) (hcap : p.cap = none) (n : Nat) :
    ∀ (s : SState), (applyWrites p n s).map = s.map := by
  induction n with
  | zero => intro s; rfl
  | succ n ih =>
    intro s
    unfold applyWrites
    split
    · rfl
    · rename_i op rest _
      rw [ih]
      cases op with
      | upsert key hash ve oldW newW => exact handleUpsert_map_none hq hcap _ _ _ _ _ _
      | remove key ve => exact handleRemove_map _ _

theorem syncLoop_map_none {p : Params} (hq : NoQuirks p) (hcap : p.cap = none) (n : Nat) :
    ∀ (s : SState), (syncLoop p n s).map = s.map := by
  induction n with
  | zero => intro s; rfl
  | succ n ih =>
    intro s
    have hp : (syncPass p s).map = s.map := by
      unfold syncPass
      dsimp only
      have h1 : (if s.readQ.length > 0 then applyReads p s.readQ.length s else s).map = s.map := by
        split
        · exact (applyReads_same _ _ _).map
        · rfl
      generalize (if s.readQ.length > 0 then applyReads p s.readQ.length s else s) = s1 at h1 ⊢
      have h2 : (if s1.writeQ.length > 0 then applyWrites p s1.writeQ.length s1 else s1).map
          = s1.map := by
        split
        · exact applyWrites_map_none hq hcap _ _
        · rfl
      generalize (if s1.writeQ.length > 0 then applyWrites p s1.writeQ.length s1 else s1) = s2
        at h2 ⊢
      split
      · rw [(enableSketch_same _ _).map, h2, h1]
      · rw [h2, h1]
    rw [syncLoop_succ]
    split
    · rw [ih, hp]
    · exact hp

/-! ### expiry eviction removes only what is expired -/

/-- A map entry that leaves in a `Frame0` step was expired. -/
def Kept (p : Params) (s s' : SState) : Prop :=
  (AL.keys s.map).Nodup → ∀ k ve, AL.get? s.map k = some ve →
    AL.get? s'.map k = some ve ∨ isExpiredInfo p s (getInfo s ve.info) s.now = true

theorem Kept.of_map_eq {p : Params} {s s' : SState} (h : s'.map = s.map) : Kept p s s' :=
  fun _ k ve hk => Or.inl (by rw [h]; exact hk)

theorem Kept.trans {p : Params} {a b c : SState} (h1 : Kept p a b) (f1 : Frame0 a b)
    (h2 : Kept p b c) : Kept p a c := by
  intro hn k ve hk
  rcases h1 hn k ve hk with h | h
  · rcases h2 (f1.kn hn) k ve h with h' | h'
    · exact Or.inl h'
    · right; rw [← isExpiredInfo_frame0 p f1]; exact h'
  · exact Or.inr h

theorem victim_cond {o : Option VE} {c : VE → Prop} [DecidablePred c] {ve : VE}
    (h : (match o with
      | some v => if c v then some v else none
      | none => none) = some ve) : c ve := by
  cases o with
  | none => cases h
  | some v =>
    dsimp only at h
    split at h
    · rename_i hc; cases h; exact hc
    · cases h

/-- Removing the map's entry of `k`, which is expired. -/
theorem evict_kept (p : Params) {s : SState} {k : Nat} {ve : VE}
    (hk : AL.get? s.map k = some ve)
    (hx : isExpiredInfo p s (getInfo s ve.info) s.now = true) :
    Kept p s (handleRemove { s with map := AL.erase s.map k } ve) := by
  intro hn k' ve' hk'
  by_cases e : k = k'
  · subst e
    rw [hk] at hk'; cases hk'
    exact Or.inr hx
  · left
    rw [handleRemove_map]
    show AL.get? (AL.erase s.map k) k' = some ve'
    rw [AL.get?_erase_ne e]; exact hk'

theorem removeExpiredAo_kept (p : Params) (n : Nat) :
    ∀ (s : SState), Kept p s (removeExpiredAo p n s) := by
  induction n with
  | zero => intro s; exact Kept.of_map_eq rfl
  | succ n ih =>
    intro s
    unfold removeExpiredAo
    split
    · exact Kept.of_map_eq rfl
    · split
      · dsimp only
        split
        · rename_i ve hv
          have hk := entryOfNode_get (victim_some hv)
          have hc := victim_cond hv
          have hx : isExpiredInfo p s (getInfo s ve.info) s.now = true := by
            simp only [isExpiredInfo, hc, Bool.or_true]
          refine Kept.trans (evict_kept p hk hx) ?_ (ih _)
          refine Frame0.trans ?_ (handleRemove_frame0 _ _)
          exact frame0_erase _ _
        · split
          · exact Kept.trans (Kept.of_map_eq (trySkipUpdated_same s _).map)
              (trySkipUpdated_frame0 s _) (ih _)
          · exact Kept.of_map_eq (trySkipUpdated_same s _).map
      · exact Kept.of_map_eq rfl

theorem removeExpiredWo_kept (p : Params) (n : Nat) :
    ∀ (s : SState), Kept p s (removeExpiredWo p n s) := by
  induction n with
  | zero => intro s; exact Kept.of_map_eq rfl
  | succ n ih =>
    intro s
    unfold removeExpiredWo
    split
    · exact Kept.of_map_eq rfl
    · split
      · dsimp only
        split
        · rename_i ve hv
          have hk := entryOfNode_get (victim_some hv)
          have hc := victim_cond hv
          have hx : isExpiredInfo p s (getInfo s ve.info) s.now = true := by
            simp only [isExpiredInfo, hc, Bool.true_or]
          refine Kept.trans (evict_kept p hk hx) ?_ (ih _)
          refine Frame0.trans ?_ (handleRemove_frame0 _ _)
          exact frame0_erase _ _
        · split
          · split
            · exact Kept.trans
                (Kept.of_map_eq ((moveToBackAoE_same _ _).trans (moveToBackWoE_same _ _)).map)
                ((moveToBackAoE_frame0 _ _).trans (moveToBackWoE_frame0 _ _)) (ih _)
            · exact Kept.of_map_eq rfl
          · exact Kept.trans (Kept.of_map_eq (moveNodeToBackWo_same _ _).map)
              (moveNodeToBackWo_frame0 _ _) (ih _)
      · exact Kept.of_map_eq rfl

theorem evictExpired_kept (p : Params) (s : SState) : Kept p s (evictExpired p s) := by
  unfold evictExpired
  dsimp only
  split
  · split
    · exact Kept.trans (removeExpiredWo_kept _ _ _) (removeExpiredWo_frame0 _ _ _)
        (removeExpiredAo_kept _ _ _)
    · exact removeExpiredWo_kept _ _ _
  · split
    · exact removeExpiredAo_kept _ _ _
    · exact Kept.of_map_eq rfl

/-! ### the frame of a maintenance run that does not evict for size -/

/-- `Frame` + queued hits are applied or still queued + a map entry that leaves was expired,
judged with every queued hit applied. -/
structure FrameX (p : Params) (s s' : SState) : Prop where
  frame : Frame s s'
  applied : Applied s s'
  kept : (AL.keys s.map).Nodup → ∀ k ve, AL.get? s.map k = some ve →
    AL.get? s'.map k = some ve ∨
      (s'.readQ = [] ∧ isExpiredInfo p s' (getInfo s' ve.info) s'.now = true)

theorem FrameX.refl (p : Params) (s : SState) : FrameX p s s :=
  ⟨Frame.refl s, Applied.refl s, fun _ _ _ h => Or.inl h⟩

theorem syncRun_kept_none {p : Params} (hq : NoQuirks p) (hcap : p.cap = none) (s : SState)
    (hn : (AL.keys s.map).Nodup) (k : Nat) (ve : VE) (hk : AL.get? s.map k = some ve) :
    AL.get? (syncRun p s).map k = some ve ∨
      isExpiredInfo p (syncRun p s) (getInfo (syncRun p s) ve.info) (syncRun p s).now = true := by
  unfold syncRun
  dsimp only
  have h1 := syncLoop_map_none hq hcap (Gen.MAX_SYNC_REPEATS + 1) { s with cec := s.ec, cws := s.ws }
  generalize syncLoop p (Gen.MAX_SYNC_REPEATS + 1) { s with cec := s.ec, cws := s.ws } = s1 at h1 ⊢
  have h2 : Kept p s1 (if (p.hasExpiry || s1.va.isSome) = true then evictExpired p s1 else s1) ∧
      Frame0 s1 (if (p.hasExpiry || s1.va.isSome) = true then evictExpired p s1 else s1) := by
    split
    · exact ⟨evictExpired_kept _ _, evictExpired_frame0 _ _⟩
    · exact ⟨Kept.of_map_eq rfl, Frame0.refl _⟩
  generalize (if (p.hasExpiry || s1.va.isSome) = true then evictExpired p s1 else s1) = s2 at h2 ⊢
  have hw : weightsToEvict p s2 = 0 := by unfold weightsToEvict; rw [hcap]
  rw [if_neg (by rw [hw]; exact Nat.lt_irrefl 0)]
  have hk1 : AL.get? s1.map k = some ve := by rw [h1]; exact hk
  have hn1 : (AL.keys s1.map).Nodup := by rw [h1]; exact hn
  rcases h2.1 hn1 k ve hk1 with h | h
  · exact Or.inl h
  · right
    have := isExpiredInfo_frame0 p h2.2 ve.info
    show isExpiredInfo p s2 (getInfo s2 ve.info) s2.now = true
    rw [this]; exact h

theorem syncRun_frameX_none {p : Params} (hq : NoQuirks p) (hcap : p.cap = none) (s : SState) :
    FrameX p s (syncRun p s) :=
  ⟨syncRun_frame hq s, (syncRun_frameA hq s).applied, fun hn k ve hk => by
    rcases syncRun_kept_none hq hcap s hn k ve hk with h | h
    · exact Or.inl h
    · exact Or.inr ⟨syncRun_readQ p s, h⟩⟩

/-- The state in which `Housekeeper::try_sync` starts the maintenance run. -/
def armed (s : SState) : SState :=
  { s with running := true, syncAfter := s.now + Gen.PERIODICAL_SYNC_INTERVAL_MILLIS * 1000000 }

/-- The maintenance runs of state `s` do not evict for size. -/
def SyncOk (p : Params) (s : SState) : Prop := FrameX p (armed s) (syncRun p (armed s))

theorem syncOk_none {p : Params} (hq : NoQuirks p) (hcap : p.cap = none) (s : SState) :
    SyncOk p s := syncRun_frameX_none hq hcap _

theorem trySync_frameX {p : Params} {s : SState} (hX : SyncOk p s) : FrameX p s (trySync p s) := by
  unfold trySync
  split
  · exact FrameX.refl p s
  · have hf := hX.frame
    exact ⟨⟨hf.kn, hf.mapSub, hf.key, hf.lm, hf.laLe, hf.la, hf.readQ, hf.va, hf.now, hf.nextId⟩,
      hX.applied, hX.kept⟩

theorem housekeepW_frameX {p : Params} {s : SState} (hX : SyncOk p s) :
    FrameX p s (housekeepW p s) := by
  unfold housekeepW
  split
  · exact trySync_frameX hX
  · exact FrameX.refl p s

theorem housekeepR_frameX {p : Params} {s : SState} (hX : SyncOk p s) :
    FrameX p s (housekeepR p s) := by
  unfold housekeepR
  split
  · exact trySync_frameX hX
  · exact FrameX.refl p s

/-! ### the reference side -/

theorem toGhostEnts_mapEnts_kill (f : Nat → REntry → REntry) (f' : Nat → GEntry → Bool)
    (hf : ∀ k e, Unsync.toGE (f k e) =
      if f' k (Unsync.toGE e) then { Unsync.toGE e with alive := false } else Unsync.toGE e)
    (l : List (Nat × REntry)) :
    Unsync.toGhostEnts (mapEnts f l) = killIf f' (Unsync.toGhostEnts l) := by
  induction l with
  | nil => rfl
  | cons a l ih =>
    obtain ⟨k, e⟩ := a
    simp only [mapEnts, Unsync.toGhostEnts, killIf, ih, hf]

/-- On the concurrent cache, too, the bookkeeping of the lookup oracles is a projection of the
reference of C03. -/
theorem toGhost_refStep_sync (r : Ref) (op : Op) (obs : Obs) :
    Unsync.toGhost (refStep .sync r op obs) = ghostStep .sync (Unsync.toGhost r) op obs := by
  cases op with
  | ins k v => simp [refStep, ghostStep, Unsync.toGhost, Unsync.toGhostEnts_put, Unsync.toGE]
  | get k =>
    cases obs with
    | val res =>
      cases res with
      | none => rfl
      | some v =>
        simp only [refStep, ghostStep, Unsync.toGhost, Unsync.get?_toGhostEnts]
        cases AL.get? r.ents k with
        | none => rfl
        | some e => simp [Unsync.toGhostEnts_put, Unsync.toGE]
    | _ => rfl
  | has k => rfl
  | iter => rfl
  | inv k =>
    simp only [refStep, ghostStep, Unsync.toGhost]
    rw [Unsync.toGhostEnts_kill (fun k' _ => k' == k) (fun k' _ => k' == k) (fun _ _ => rfl)]
  | invAll =>
    simp only [refStep, ghostStep, Unsync.toGhost]
    have h := toGhostEnts_mapEnts_kill (fun _ e =>
        if e.tIns < r.now then { e with alive := false }
        else if e.tIns == r.now then { e with maybeDead := true } else e)
      (fun _ ge => decide (ge.tIns < r.now)) (by
        intro k e
        by_cases h1 : e.tIns < r.now
        · simp [h1, Unsync.toGE]
        · by_cases h2 : e.tIns = r.now <;> simp [h1, h2, Unsync.toGE]) r.ents
    rw [h]
    rfl
  | invIf pr =>
    simp only [refStep, ghostStep, Unsync.toGhost]
    rw [Unsync.toGhostEnts_kill (fun k e => pr.eval k e.val) (fun k ge => pr.eval k ge.val)
      (fun _ _ => rfl)]
  | sync =>
    simp only [refStep, ghostStep, Unsync.toGhost]
    rw [Unsync.toGhostEnts_same (fun _ e => { e with tSure := e.tAcc }) (fun _ _ => rfl)]
  | adv d => rfl
  | snap => rfl
  | freq k => rfl

/-- Well-formedness of the reference on the concurrent cache: one entry per key, and
`tIns ≤ tSure ≤ tAcc ≤ now`. -/
structure RefOkS (r : Ref) : Prop where
  nodup : (AL.keys r.ents).Nodup
  ord : ∀ k e, AL.get? r.ents k = some e → e.tIns ≤ e.tSure ∧ e.tSure ≤ e.tAcc ∧ e.tAcc ≤ r.now

theorem refOkS_init : RefOkS {} := ⟨by simp, fun k e h => by simp at h⟩

theorem refOkS_mapEnts {r : Ref} (hr : RefOkS r) (f : Nat → REntry → REntry)
    (hf : ∀ k e, (e.tIns ≤ e.tSure ∧ e.tSure ≤ e.tAcc ∧ e.tAcc ≤ r.now) →
      ((f k e).tIns ≤ (f k e).tSure ∧ (f k e).tSure ≤ (f k e).tAcc ∧ (f k e).tAcc ≤ r.now)) :
    RefOkS { r with ents := mapEnts f r.ents } := by
  refine ⟨by simp only [Unsync.keys_mapEnts]; exact hr.nodup, ?_⟩
  intro k e h
  simp only [Unsync.get?_mapEnts] at h
  cases h0 : AL.get? r.ents k with
  | none => simp [h0] at h
  | some e0 =>
    simp only [h0, Option.map_some, Option.some.injEq] at h
    rw [← h]; exact hf k e0 (hr.ord k e0 h0)

theorem refOkS_put {r : Ref} (hr : RefOkS r) (k : Nat) (e : REntry)
    (he : e.tIns ≤ e.tSure ∧ e.tSure ≤ e.tAcc ∧ e.tAcc ≤ r.now) :
    RefOkS { r with ents := AL.put r.ents k e } := by
  refine ⟨AL.nodup_put k e hr.nodup, ?_⟩
  intro k' e' h
  simp only [AL.get?_put] at h
  by_cases hk : k = k'
  · simp only [hk, if_true, Option.some.injEq] at h; rw [← h]; exact he
  · simp only [hk, if_false] at h; exact hr.ord k' e' h

theorem refOkS_step {r : Ref} (hr : RefOkS r) (op : Op) (obs : Obs) :
    RefOkS (refStep .sync r op obs) := by
  cases op with
  | ins k v => exact refOkS_put hr k _ ⟨Nat.le_refl _, Nat.le_refl _, Nat.le_refl _⟩
  | get k =>
    cases obs with
    | val res =>
      cases res with
      | none => exact hr
      | some v =>
        simp only [refStep]
        cases h0 : AL.get? r.ents k with
        | none => exact hr
        | some e =>
          have := hr.ord k e h0
          refine refOkS_put hr k _ ?_
          simp only [show (Kind.sync == Kind.unsync) = false from rfl, Bool.false_eq_true, if_false]
          exact ⟨this.1, Nat.le_trans this.2.1 this.2.2, Nat.le_refl _⟩
    | _ => exact hr
  | has k => exact hr
  | iter => exact hr
  | inv k => exact refOkS_mapEnts hr _ (fun k' e h => by split <;> exact h)
  | invAll =>
    refine refOkS_mapEnts hr _ (fun k' e h => ?_)
    split
    · exact h
    · split <;> exact h
  | invIf pr => exact refOkS_mapEnts hr _ (fun k' e h => by split <;> exact h)
  | sync => exact refOkS_mapEnts hr _ (fun k' e h => ⟨Nat.le_trans h.1 h.2.1, Nat.le_refl _, h.2.2⟩)
  | adv d =>
    exact ⟨hr.nodup, fun k e h => by
      have := hr.ord k e h
      exact ⟨this.1, this.2.1, Nat.le_trans this.2.2 (Nat.le_add_right _ _)⟩⟩
  | snap => exact hr
  | freq k => exact hr

theorem mustLive_iff {ttl tti : Option Nat} {r : Ref} {e : REntry} :
    mustLive ttl tti r e = true ↔ (e.alive = true ∧ e.maybeDead = false ∧
      (∀ d, ttl = some d → r.now < e.tIns + d) ∧ (∀ d, tti = some d → r.now < e.tSure + d)) := by
  cases ttl <;> cases tti <;> simp [mustLive, and_assoc]

/-! ### completeness: what the reference requires is resident -/

/-- One of the two deadlines has passed for good: time-to-live since the insert, or
time-to-idle since the last successful `get` (queued or not). -/
def deadForGood (ttl tti : Option Nat) (now : Nat) (e : REntry) : Prop :=
  (∃ d, ttl = some d ∧ e.tIns + d ≤ now) ∨ (∃ d, tti = some d ∧ e.tAcc + d ≤ now)

/-- `last_accessed` of info `i` has reached `t`, or will once a queued hit is applied. -/
def Pending (s : SState) (i t : Nat) : Prop :=
  t ≤ (getInfo s i).la ∨ ∃ hash ve ts, ROp.hit hash ve ts ∈ s.readQ ∧ ve.info = i ∧ t ≤ ts

theorem Pending.frame {s s' : SState} {i t : Nat} (h : Pending s i t) (hf : Frame s s')
    (ha : Applied s s') : Pending s' i t := by
  rcases h with h | ⟨hash, ve, ts, hin, hi, hle⟩
  · exact Or.inl (Nat.le_trans h (hf.laLe i))
  · rcases ha hash ve ts hin with h' | h'
    · exact Or.inr ⟨hash, ve, ts, h', hi, hle⟩
    · exact Or.inl (by rw [← hi]; exact Nat.le_trans hle h')

theorem Pending.of_empty {s : SState} {i t : Nat} (h : Pending s i t) (he : s.readQ = []) :
    t ≤ (getInfo s i).la := by
  rcases h with h | ⟨hash, ve, ts, hin, _, _⟩
  · exact h
  · rw [he] at hin; cases hin

structure CompleteS (p : Params) (s : SState) (r : Ref) : Prop where
  /-- entries written before the watermark are dead (or doubtful) in the reference -/
  wm : ∀ k re v, AL.get? r.ents k = some re → re.alive = true → re.maybeDead = false →
    s.va = some v → v ≤ re.tIns
  /-- a resident entry of an alive key carries the reference's value and timestamps -/
  res : ∀ k re ve, AL.get? r.ents k = some re → re.alive = true → re.maybeDead = false →
    AL.get? s.map k = some ve →
      ve.val = re.val ∧ (getInfo s ve.info).lm = re.tIns ∧ re.tSure ≤ (getInfo s ve.info).la ∧
      Pending s ve.info re.tAcc
  /-- an alive key that is not resident is past a deadline for good -/
  gone : ∀ k re, AL.get? r.ents k = some re → re.alive = true → re.maybeDead = false →
    AL.get? s.map k = none → deadForGood p.ttl p.tti s.now re

theorem completeS_init (p : Params) : CompleteS p {} {} :=
  ⟨fun k re v h => by simp at h, fun k re ve h => by simp at h, fun k re h => by simp at h⟩

theorem dead_of_expired {p : Params} {s : SState} {i : Info} {now : Nat} {re : REntry}
    (hx : isExpiredInfo p s i now = true) (hlm : i.lm = re.tIns) (hla : re.tAcc ≤ i.la)
    (hins : re.tIns ≤ i.la) (hva : ∀ v, s.va = some v → v ≤ re.tIns) :
    deadForGood p.ttl p.tti now re := by
  have hv : ∀ t, re.tIns ≤ t → expiredTs none s.va t now = false := by
    intro t ht
    simp only [expiredTs, Bool.or_false]
    cases hv : s.va with
    | none => rfl
    | some v => have := hva v hv; simp only [decide_eq_false_iff_not]; omega
  have hsplit : ∀ d t, expiredTs d s.va t now = true → re.tIns ≤ t → ∃ x, d = some x ∧ t + x ≤ now := by
    intro d t h ht
    have h0 := hv t ht
    simp only [expiredTs, Bool.or_false] at h0
    simp only [expiredTs, h0, Bool.false_or] at h
    cases d with
    | none => cases h
    | some x => exact ⟨x, rfl, by simpa using h⟩
  simp only [isExpiredInfo, Bool.or_eq_true] at hx
  rcases hx with hx | hx
  · obtain ⟨d, hd, hle⟩ := hsplit _ _ hx (by omega)
    exact Or.inl ⟨d, hd, by omega⟩
  · obtain ⟨d, hd, hle⟩ := hsplit _ _ hx hins
    exact Or.inr ⟨d, hd, by omega⟩

/-- Completeness survives maintenance that does not evict for size. -/
theorem completeS_frameX {p : Params} {s s' : SState} {r : Ref} (hc : CompleteS p s r)
    (hr : RefOkS r) (hn : (AL.keys s.map).Nodup) (hf : FrameX p s s') : CompleteS p s' r := by
  refine ⟨?_, ?_, ?_⟩
  · intro k re v hre ha hm hv
    rw [hf.frame.va] at hv
    exact hc.wm k re v hre ha hm hv
  · intro k re ve hre ha hm hk'
    obtain ⟨h1, h2, h3, h4⟩ := hc.res k re ve hre ha hm (hf.frame.mapSub hn k ve hk')
    exact ⟨h1, (hf.frame.lm _).trans h2, Nat.le_trans h3 (hf.frame.laLe _),
      h4.frame hf.frame hf.applied⟩
  · intro k re hre ha hm hk'
    cases hk : AL.get? s.map k with
    | none => rw [hf.frame.now]; exact hc.gone k re hre ha hm hk
    | some ve =>
      rcases hf.kept hn k ve hk with h | ⟨hrq, hx⟩
      · rw [hk'] at h; cases h
      · obtain ⟨_, h2, h3, h4⟩ := hc.res k re ve hre ha hm hk
        have ho := hr.ord k re hre
        have hla := (h4.frame hf.frame hf.applied).of_empty hrq
        refine dead_of_expired hx ((hf.frame.lm _).trans h2) hla ?_ ?_
        · exact Nat.le_trans ho.1 (Nat.le_trans h3 (hf.frame.laLe _))
        · intro v hv
          rw [hf.frame.va] at hv
          exact hc.wm k re v hre ha hm hv

/-- What the reference requires is resident, with the reference's value, and the lookups do
not filter it out. -/
theorem live_resident {p : Params} {s : SState} {r : Ref} (hc : CompleteS p s r) (hr : RefOkS r)
    (hnow : r.now = s.now) {k : Nat} {re : REntry} (hre : AL.get? r.ents k = some re)
    (hl : mustLive p.ttl p.tti r re = true) :
    ∃ ve, AL.get? s.map k = some ve ∧ ve.val = re.val ∧
      isExpiredInfo p s (getInfo s ve.info) s.now = false := by
  obtain ⟨ha, hm, hl1, hl2⟩ := mustLive_iff.mp hl
  have ho := hr.ord k re hre
  cases hk : AL.get? s.map k with
  | none =>
    exfalso
    rcases hc.gone k re hre ha hm hk with ⟨d, hd, hle⟩ | ⟨d, hd, hle⟩
    · have := hl1 d hd; omega
    · have := hl2 d hd; omega
  | some ve =>
    obtain ⟨h1, h2, h3, _⟩ := hc.res k re ve hre ha hm hk
    refine ⟨ve, rfl, h1, ?_⟩
    simp only [isExpiredInfo, expiredTs, Bool.or_eq_false_iff]
    refine ⟨⟨?_, ?_⟩, ⟨?_, ?_⟩⟩
    · cases hv : s.va with
      | none => rfl
      | some v => have := hc.wm k re v hre ha hm hv; simp only [decide_eq_false_iff_not]; omega
    · cases ht : p.ttl with
      | none => rfl
      | some d => have := hl1 d ht; simp only [decide_eq_false_iff_not]; omega
    · cases hv : s.va with
      | none => rfl
      | some v => have := hc.wm k re v hre ha hm hv; simp only [decide_eq_false_iff_not]; omega
    · cases ht : p.tti with
      | none => rfl
      | some d => have := hl2 d ht; simp only [decide_eq_false_iff_not]; omega

/-! ### the two-way coupling -/

/-- Model state and reference agree: every resident is a reference entry with the same value
and timestamps, alive or hidden by the watermark (`sound`), and every alive entry of the
reference is resident or past a deadline for good (`complete`). -/
structure CoupledRS (p : Params) (s : SState) (r : Ref) : Prop where
  sound : CoupledS p s (Unsync.toGhost r)
  q : QInv s
  ok : RefOkS r
  complete : CompleteS p s r

theorem coupledRS_init (p : Params) : CoupledRS p {} {} :=
  ⟨init_coupled p, qinv_init, refOkS_init, completeS_init p⟩

theorem scheduleWriteOp3_enqueues (p : Params) {s : SState} (h : QInv s) (op : WOp) :
    scheduleWriteOp p 3 s op =
      { housekeepW p s with writeQ := (housekeepW p s).writeQ ++ [op] } :=
  scheduleWriteOp_enqueues p 2 h op

theorem completeS_pushR {p : Params} {s : SState} {r : Ref} (hc : CompleteS p s r) (op : ROp) :
    CompleteS p { s with readQ := s.readQ ++ [op] } r :=
  ⟨hc.wm, fun k re ve hre ha hm hk => by
    obtain ⟨h1, h2, h3, h4⟩ := hc.res k re ve hre ha hm hk
    refine ⟨h1, h2, h3, ?_⟩
    rcases h4 with h | ⟨hash, ve', ts, hin, hi, hle⟩
    · exact Or.inl h
    · exact Or.inr ⟨hash, ve', ts, List.mem_append_left _ hin, hi, hle⟩, hc.gone⟩

theorem completeS_pushW {p : Params} {s : SState} {r : Ref} (hc : CompleteS p s r) (op : WOp) :
    CompleteS p { s with writeQ := s.writeQ ++ [op] } r :=
  ⟨hc.wm, hc.res, hc.gone⟩

/-! ### get -/

theorem get_none {p : Params} {s : SState} {k : Nat} (hk : AL.get? s.map k = none) :
    get p s k = (recordReadOp p s (.miss (p.hash k)), none) := by
  unfold get; simp only [hk]

theorem get_expired {p : Params} {s : SState} {k : Nat} {ve : VE} (hk : AL.get? s.map k = some ve)
    (hx : isExpiredInfo p s (getInfo s ve.info) s.now = true) :
    get p s k = (recordReadOp p s (.miss (p.hash k)), none) := by
  unfold get; simp only [hk, hx, if_true]

theorem get_hit {p : Params} {s : SState} {k : Nat} {ve : VE} (hk : AL.get? s.map k = some ve)
    (hx : isExpiredInfo p s (getInfo s ve.info) s.now = false) :
    get p s k = (recordReadOp p s (.hit (p.hash k) ve s.now), some ve.val) := by
  unfold get; simp only [hk, hx, Bool.false_eq_true, if_false]

theorem recordReadOp_complete {p : Params} {s : SState} {r : Ref} (hcr : CoupledRS p s r)
    (hX : SyncOk p s) (op : ROp) : CompleteS p (recordReadOp p s op) r := by
  rw [recordReadOp_enqueues p hcr.q]
  exact completeS_pushR
    (completeS_frameX hcr.complete hcr.ok hcr.sound.kn (housekeepR_frameX hX)) _

theorem hit_complete {p : Params} {s : SState} {r : Ref} (hcr : CoupledRS p s r)
    (hX : SyncOk p s) {k : Nat} {ve : VE} (hk : AL.get? s.map k = some ve)
    (hx : isExpiredInfo p s (getInfo s ve.info) s.now = false) :
    CompleteS p (recordReadOp p s (.hit (p.hash k) ve s.now))
      (refStep .sync r (.get k) (.val (some ve.val))) := by
  have hnow : r.now = s.now := hcr.sound.now
  cases hre : AL.get? r.ents k with
  | none =>
    have : refStep .sync r (.get k) (.val (some ve.val)) = r := by simp [refStep, hre]
    rw [this]; exact recordReadOp_complete hcr hX _
  | some re =>
    have : refStep .sync r (.get k) (.val (some ve.val)) =
        { r with ents := AL.put r.ents k { re with tAcc := r.now } } := by simp [refStep, hre]
    rw [this, recordReadOp_enqueues p hcr.q]
    have hfx := housekeepR_frameX hX
    have hc1 := completeS_frameX hcr.complete hcr.ok hcr.sound.kn hfx
    generalize housekeepR p s = s1 at hfx hc1 ⊢
    refine ⟨?_, ?_, ?_⟩
    · intro k' re' v hre' ha hm hv
      simp only [AL.get?_put] at hre'
      by_cases e : k = k'
      · subst e
        simp only [if_true, Option.some.injEq] at hre'
        subst hre'
        exact hc1.wm k re v hre ha hm hv
      · simp only [e, if_false] at hre'
        exact hc1.wm k' re' v hre' ha hm hv
    · intro k' re' ve' hre' ha hm hk'
      simp only [AL.get?_put] at hre'
      by_cases e : k = k'
      · subst e
        simp only [if_true, Option.some.injEq] at hre'
        subst hre'
        have hk0 : AL.get? s1.map k = some ve' := hk'
        have hve : ve' = ve := by
          have := hfx.frame.mapSub hcr.sound.kn k ve' hk0
          rw [hk] at this; exact (Option.some.inj this).symm
        obtain ⟨h1, h2, h3, _⟩ := hc1.res k re ve' hre ha hm hk0
        refine ⟨h1, h2, h3, Or.inr ⟨p.hash k, ve, s.now, ?_, by rw [hve], ?_⟩⟩
        · exact List.mem_append_right _ (List.mem_singleton.mpr rfl)
        · show r.now ≤ s.now
          rw [hnow]; exact Nat.le_refl _
      · simp only [e, if_false] at hre'
        exact (completeS_pushR hc1 _).res k' re' ve' hre' ha hm hk'
    · intro k' re' hre' ha hm hk'
      simp only [AL.get?_put] at hre'
      by_cases e : k = k'
      · subst e
        exfalso
        have hk0 : AL.get? s1.map k = none := hk'
        rcases hfx.kept hcr.sound.kn k ve hk with h | ⟨_, h⟩
        · rw [hk0] at h; cases h
        · rw [notExpired_frame p hfx.frame ve.info hx] at h; cases h
      · simp only [e, if_false] at hre'
        exact hc1.gone k' re' hre' ha hm hk'

theorem get_exact {p : Params} {s : SState} {r : Ref} (hcr : CoupledRS p s r)
    (hX : SyncOk p s) (k : Nat) :
    Unsync.checkExact p.ttl p.tti r (.get k) (.val (get p s k).2) = true ∧
    CompleteS p (get p s k).1 (refStep .sync r (.get k) (.val (get p s k).2)) := by
  have hnow : r.now = s.now := hcr.sound.now
  -- a required entry is resident and not filtered out
  have hlive : ∀ re, AL.get? r.ents k = some re → mustLive p.ttl p.tti r re = true →
      (get p s k).2 = some re.val := by
    intro re hre hl
    obtain ⟨ve, hk, hv, hx⟩ := live_resident hcr.complete hcr.ok hnow hre hl
    rw [get_hit hk hx, hv]
  refine ⟨?_, ?_⟩
  · simp only [Unsync.checkExact]
    cases hre : AL.get? r.ents k with
    | none => rfl
    | some re =>
      dsimp only
      by_cases hl : mustLive p.ttl p.tti r re = true
      · rw [hlive re hre hl]; simp
      · simp [hl]
  · cases hk : AL.get? s.map k with
    | none =>
      rw [get_none hk]
      exact recordReadOp_complete hcr hX _
    | some ve =>
      cases hx : isExpiredInfo p s (getInfo s ve.info) s.now with
      | true =>
        rw [get_expired hk hx]
        exact recordReadOp_complete hcr hX _
      | false =>
        rw [get_hit hk hx]
        exact hit_complete hcr hX hk hx

theorem containsKey_exact {p : Params} {s : SState} {r : Ref} (hcr : CoupledRS p s r) (k : Nat) :
    Unsync.checkExact p.ttl p.tti r (.has k) (.bool (containsKey p s k)) = true := by
  simp only [Unsync.checkExact]
  cases hre : AL.get? r.ents k with
  | none => rfl
  | some re =>
    dsimp only
    by_cases hl : mustLive p.ttl p.tti r re = true
    · obtain ⟨ve, hk, _, hx⟩ := live_resident hcr.complete hcr.ok hcr.sound.now hre hl
      have : containsKey p s k = true := by unfold containsKey; simp only [hk, hx]; rfl
      rw [this]; simp
    · simp [hl]

theorem iter_exact {p : Params} {s : SState} {r : Ref} (hcr : CoupledRS p s r) :
    Unsync.checkExact p.ttl p.tti r .iter (.iter (sortBy (·.1) (iter p s))) = true := by
  simp only [Unsync.checkExact, List.all_eq_true]
  rintro ⟨k, re⟩ hmem
  have hre := AL.get?_of_mem hcr.ok.nodup hmem
  by_cases hl : mustLive p.ttl p.tti r re = true
  · obtain ⟨ve, hk, hv, hx⟩ := live_resident hcr.complete hcr.ok hcr.sound.now hre hl
    have : (k, re.val) ∈ sortBy (·.1) (iter p s) := by
      rw [mem_sortBy]
      simp only [iter, List.mem_map, List.mem_filter]
      exact ⟨(k, ve), ⟨AL.mem_of_get? hk, by simp [hx]⟩, by rw [hv]⟩
    simp [this]
  · simp [hl]

/-! ### insert -/

/-- The reference entry an insert creates. -/
def insEntry (now v : Nat) : REntry :=
  { val := v, tIns := now, tAcc := now, tSure := now, alive := true }

/-- What `invalidate(k)` does to the reference entries. -/
def killKey (k : Nat) : Nat → REntry → REntry :=
  fun k' e => if k' == k then { e with alive := false } else e

/-- The state between the map step of `insert` and `schedule_write_op`, and the operation
that is about to be queued. -/
def insertMid (p : Params) (s : SState) (k v : Nat) : SState × WOp :=
  match AL.get? s.map k with
  | some old =>
    let s1 := refreshInfo p s old.info s.now (p.weigh k v)
    let ve : VE := { id := s1.nextId, val := v, info := old.info, slot := old.slot }
    ({ s1 with nextId := s1.nextId + 1, map := AL.put s1.map k ve },
      .upsert k (p.hash k) ve (getInfo s old.info).weight (p.weigh k v))
  | none =>
    let ve : VE := { id := s.nextId + 1, val := v, info := s.nextId, slot := s.nextId + 1 }
    let info : Info :=
      { key := k, admitted := false, dirty := true, la := s.now, lm := s.now, weight := p.weigh k v }
    ({ s with nextId := s.nextId + 2, infos := AL.put s.infos s.nextId info,
              map := AL.put s.map k ve },
      .upsert k (p.hash k) ve 0 (p.weigh k v))

theorem insert_eq_mid (p : Params) (s : SState) (k v : Nat) :
    insert p s k v = scheduleWriteOp p 3 (insertMid p s k v).1 (insertMid p s k v).2 := by
  unfold insert insertMid
  dsimp only
  cases AL.get? s.map k <;> rfl

theorem insertMid_qinv {p : Params} {s : SState} (h : QInv s) (k v : Nat) :
    QInv (insertMid p s k v).1 := by
  unfold insertMid
  dsimp only
  cases AL.get? s.map k <;> exact qinv_of_eq h rfl rfl rfl

/-- The map step of an insert: a fresh or re-timed entry for `k`, everything else as before. -/
theorem completeS_put {p : Params} {s s0 : SState} {r : Ref} (hc : CompleteS p s r)
    (hvaLe : ∀ v, s.va = some v → v ≤ s.now) (hnow : r.now = s.now) {k v : Nat} {ve : VE}
    (hmap : s0.map = AL.put s.map k ve) (hval : ve.val = v)
    (hlm : (getInfo s0 ve.info).lm = s.now) (hla : (getInfo s0 ve.info).la = s.now)
    (hother : ∀ k' ve', k ≠ k' → AL.get? s.map k' = some ve' →
      getInfo s0 ve'.info = getInfo s ve'.info)
    (hrq : s0.readQ = s.readQ) (hva : s0.va = s.va) (hn : s0.now = s.now) :
    CompleteS p s0 { r with ents := AL.put r.ents k (insEntry r.now v) } := by
  refine ⟨?_, ?_, ?_⟩
  · intro k' re' v' hre' ha hm hv
    simp only [AL.get?_put] at hre'
    rw [hva] at hv
    by_cases e : k = k'
    · simp only [e, if_true, Option.some.injEq] at hre'
      subst hre'
      show v' ≤ r.now
      rw [hnow]; exact hvaLe v' hv
    · simp only [e, if_false] at hre'
      exact hc.wm k' re' v' hre' ha hm hv
  · intro k' re' ve' hre' ha hm hk'
    simp only [AL.get?_put] at hre'
    rw [hmap, AL.get?_put] at hk'
    by_cases e : k = k'
    · simp only [e, if_true, Option.some.injEq] at hre' hk'
      subst hre'; subst hk'
      refine ⟨hval, by rw [hlm, hnow]; rfl, ?_, Or.inl ?_⟩
      · show r.now ≤ _; rw [hla, hnow]; exact Nat.le_refl _
      · show r.now ≤ _; rw [hla, hnow]; exact Nat.le_refl _
    · simp only [e, if_false] at hre' hk'
      obtain ⟨h1, h2, h3, h4⟩ := hc.res k' re' ve' hre' ha hm hk'
      have hg := hother k' ve' e hk'
      refine ⟨h1, by rw [hg]; exact h2, by rw [hg]; exact h3, ?_⟩
      rcases h4 with h | ⟨hash, ve'', ts, hin, hi, hle⟩
      · exact Or.inl (by rw [hg]; exact h)
      · exact Or.inr ⟨hash, ve'', ts, by rw [hrq]; exact hin, hi, hle⟩
  · intro k' re' hre' ha hm hk'
    simp only [AL.get?_put] at hre'
    rw [hmap, AL.get?_put] at hk'
    by_cases e : k = k'
    · simp only [e, if_true] at hk'; cases hk'
    · simp only [e, if_false] at hre' hk'
      rw [hn]; exact hc.gone k' re' hre' ha hm hk'

theorem insertMid_complete {p : Params} {s : SState} {r : Ref}
    (hcr : CoupledRS p s r) (k v : Nat) :
    CompleteS p (insertMid p s k v).1 (refStep .sync r (.ins k v) .ok) := by
  have hnow : r.now = s.now := hcr.sound.now
  have hr : refStep .sync r (.ins k v) .ok = { r with ents := AL.put r.ents k (insEntry r.now v) } := rfl
  rw [hr]
  unfold insertMid
  cases hk : AL.get? s.map k with
  | some old =>
    dsimp only
    obtain ⟨_, _, _, o3, _, _, _⟩ := hcr.sound.ents k old hk
    have hself : (getInfo (refreshInfo p s old.info s.now (p.weigh k v)) old.info).lm = s.now ∧
        (getInfo (refreshInfo p s old.info s.now (p.weigh k v)) old.info).la = s.now := by
      unfold refreshInfo; rw [getInfo_withInfo, if_pos rfl]; exact ⟨rfl, rfl⟩
    have hoth : ∀ j, old.info ≠ j →
        getInfo (refreshInfo p s old.info s.now (p.weigh k v)) j = getInfo s j := by
      intro j hj; unfold refreshInfo; rw [getInfo_withInfo, if_neg hj]
    refine completeS_put hcr.complete hcr.sound.vaLe hnow
      (ve := { id := (refreshInfo p s old.info s.now (p.weigh k v)).nextId, val := v,
               info := old.info, slot := old.slot })
      rfl rfl hself.1 hself.2 ?_ rfl rfl rfl
    intro k' ve' e hk'
    obtain ⟨_, _, _, h3, _, _, _⟩ := hcr.sound.ents k' ve' hk'
    have hne : old.info ≠ ve'.info := by
      intro e2; rw [e2, h3] at o3; exact e o3.symm
    exact hoth _ hne
  | none =>
    dsimp only
    have hgi : ∀ (inf : Info) (m : List (Nat × VE)) j, getInfo
        { s with nextId := s.nextId + 2, infos := AL.put s.infos s.nextId inf, map := m } j =
        if s.nextId = j then inf else getInfo s j := by
      intro inf m j
      simp only [getInfo, AL.get?_put]
      by_cases e : s.nextId = j <;> simp [e]
    refine completeS_put hcr.complete hcr.sound.vaLe hnow
      (ve := { id := s.nextId + 1, val := v, info := s.nextId, slot := s.nextId + 1 })
      rfl rfl ?_ ?_ ?_ rfl rfl rfl
    · rw [hgi, if_pos rfl]
    · rw [hgi, if_pos rfl]
    · intro k' ve' _ hk'
      have hne : s.nextId ≠ ve'.info := Nat.ne_of_gt (hcr.sound.refsMap k' ve' hk')
      rw [hgi, if_neg hne]

theorem insert_complete {p : Params} {s : SState} {r : Ref}
    (hcr : CoupledRS p s r) (k v : Nat) (hX : SyncOk p (insertMid p s k v).1) :
    CompleteS p (insert p s k v) (refStep .sync r (.ins k v) .ok) := by
  rw [insert_eq_mid, scheduleWriteOp3_enqueues p (insertMid_qinv hcr.q k v)]
  refine completeS_pushW (completeS_frameX (insertMid_complete hcr k v)
    (refOkS_step hcr.ok _ _) ?_ (housekeepW_frameX hX)) _
  unfold insertMid
  dsimp only
  cases AL.get? s.map k with
  | some old => exact AL.nodup_put k _ hcr.sound.kn
  | none => exact AL.nodup_put k _ hcr.sound.kn

/-! ### invalidation -/

theorem completeS_inv {p : Params} {s s0 : SState} {r : Ref} (hc : CompleteS p s r) (k : Nat)
    (hmap : ∀ k', k' ≠ k → AL.get? s0.map k' = AL.get? s.map k') (hinf : s0.infos = s.infos)
    (hrq : s0.readQ = s.readQ) (hva : s0.va = s.va) (hn : s0.now = s.now) :
    CompleteS p s0 { r with ents := mapEnts (killKey k) r.ents } := by
  have hg : ∀ j, getInfo s0 j = getInfo s j := getInfo_congr hinf
  have key : ∀ k' re', AL.get? (mapEnts (killKey k) r.ents) k' = some re' → re'.alive = true → k' ≠ k ∧ AL.get? r.ents k' = some re' := by
    intro k' re' hre' ha
    simp only [Unsync.get?_mapEnts] at hre'
    cases h0 : AL.get? r.ents k' with
    | none => rw [h0] at hre'; cases hre'
    | some re =>
      rw [h0] at hre'
      simp only [Option.map_some, Option.some.injEq] at hre'
      by_cases e : k' = k
      · rw [← hre'] at ha; simp [killKey, e] at ha
      · refine ⟨e, ?_⟩
        rw [← hre']; simp [killKey, e]
  refine ⟨?_, ?_, ?_⟩
  · intro k' re' v hre' ha hm hv
    obtain ⟨_, h⟩ := key k' re' hre' ha
    rw [hva] at hv
    exact hc.wm k' re' v h ha hm hv
  · intro k' re' ve' hre' ha hm hk'
    obtain ⟨e, h⟩ := key k' re' hre' ha
    rw [hmap k' e] at hk'
    obtain ⟨h1, h2, h3, h4⟩ := hc.res k' re' ve' h ha hm hk'
    refine ⟨h1, by rw [hg]; exact h2, by rw [hg]; exact h3, ?_⟩
    rcases h4 with h | ⟨hash, ve'', ts, hin, hi, hle⟩
    · exact Or.inl (by rw [hg]; exact h)
    · exact Or.inr ⟨hash, ve'', ts, by rw [hrq]; exact hin, hi, hle⟩
  · intro k' re' hre' ha hm hk'
    obtain ⟨e, h⟩ := key k' re' hre' ha
    rw [hmap k' e] at hk'
    rw [hn]; exact hc.gone k' re' h ha hm hk'

theorem invalidate_complete {p : Params} {s : SState} {r : Ref} (hcr : CoupledRS p s r) (k : Nat)
    (hX : ∀ ve, AL.get? s.map k = some ve → SyncOk p { s with map := AL.erase s.map k }) :
    CompleteS p (invalidate p s k) (refStep .sync r (.inv k) .ok) := by
  have hr : refStep .sync r (.inv k) .ok = { r with ents := mapEnts (killKey k) r.ents } := rfl
  rw [hr]
  unfold invalidate
  cases hk : AL.get? s.map k with
  | none => exact completeS_inv hcr.complete k (fun _ _ => rfl) rfl rfl rfl rfl
  | some ve =>
    dsimp only
    rw [scheduleWriteOp3_enqueues p
      (qinv_of_eq (s' := { s with map := AL.erase s.map k }) hcr.q rfl rfl rfl)]
    have h0 : CompleteS p { s with map := AL.erase s.map k } { r with ents := mapEnts (killKey k) r.ents } :=
      completeS_inv hcr.complete k
        (fun k' e => AL.get?_erase_ne (fun h => e h.symm)) rfl rfl rfl rfl
    have hok := refOkS_step hcr.ok (.inv k) .ok
    rw [hr] at hok
    exact completeS_pushW (completeS_frameX h0 hok (AL.nodup_erase k hcr.sound.kn)
      (housekeepW_frameX (hX ve hk))) _

theorem invalidateAll_complete {p : Params} {s : SState} {r : Ref} (hcr : CoupledRS p s r) :
    CompleteS p (invalidateAll s) (refStep .sync r .invAll .ok) := by
  have hnow : r.now = s.now := hcr.sound.now
  have key : ∀ k' re', AL.get? (refStep .sync r .invAll .ok).ents k' = some re' →
      re'.alive = true → re'.maybeDead = false →
      AL.get? r.ents k' = some re' ∧ r.now < re'.tIns := by
    intro k' re' hre' ha hm
    simp only [refStep, Unsync.get?_mapEnts] at hre'
    cases h0 : AL.get? r.ents k' with
    | none => rw [h0] at hre'; cases hre'
    | some re =>
      rw [h0] at hre'
      simp only [Option.map_some, Option.some.injEq] at hre'
      by_cases e1 : re.tIns < r.now
      · rw [← hre'] at ha; simp [e1] at ha
      · by_cases e2 : re.tIns = r.now
        · rw [← hre'] at hm; simp [e2] at hm
        · have : re' = re := by rw [← hre']; simp [e1, e2]
          subst this
          exact ⟨rfl, by omega⟩
  refine ⟨?_, ?_, ?_⟩
  · intro k' re' v hre' ha hm hv
    obtain ⟨_, h⟩ := key k' re' hre' ha hm
    simp only [invalidateAll, Option.some.injEq] at hv
    omega
  · intro k' re' ve' hre' ha hm hk'
    obtain ⟨h, _⟩ := key k' re' hre' ha hm
    exact hcr.complete.res k' re' ve' h ha hm hk'
  · intro k' re' hre' ha hm hk'
    obtain ⟨h, _⟩ := key k' re' hre' ha hm
    exact hcr.complete.gone k' re' h ha hm hk'

/-! ### sync, clock -/

theorem sync_complete {p : Params} {s : SState} {r : Ref} (hcr : CoupledRS p s r)
    (hX : FrameX p s (syncRun p s)) :
    CompleteS p (syncRun p s) (refStep .sync r .sync .ok) := by
  have hc1 := completeS_frameX hcr.complete hcr.ok hcr.sound.kn hX
  have key : ∀ k' re', AL.get? (refStep .sync r .sync .ok).ents k' = some re' →
      ∃ re, AL.get? r.ents k' = some re ∧ re' = { re with tSure := re.tAcc } := by
    intro k' re' hre'
    simp only [refStep, Unsync.get?_mapEnts] at hre'
    cases h0 : AL.get? r.ents k' with
    | none => rw [h0] at hre'; cases hre'
    | some re =>
      rw [h0] at hre'
      simp only [Option.map_some, Option.some.injEq] at hre'
      exact ⟨re, rfl, hre'.symm⟩
  refine ⟨?_, ?_, ?_⟩
  · intro k' re' v hre' ha hm hv
    obtain ⟨re, h, rfl⟩ := key k' re' hre'
    exact hc1.wm k' re v h ha hm hv
  · intro k' re' ve' hre' ha hm hk'
    obtain ⟨re, h, rfl⟩ := key k' re' hre'
    obtain ⟨h1, h2, _, h4⟩ := hc1.res k' re ve' h ha hm hk'
    exact ⟨h1, h2, h4.of_empty (syncRun_readQ p s), h4⟩
  · intro k' re' hre' ha hm hk'
    obtain ⟨re, h, rfl⟩ := key k' re' hre'
    exact hc1.gone k' re h ha hm hk'

theorem adv_complete {p : Params} {s : SState} {r : Ref} (hc : CompleteS p s r) (d : Nat) :
    CompleteS p { s with now := s.now + d } (refStep .sync r (.adv d) .ok) := by
  refine ⟨hc.wm, hc.res, ?_⟩
  intro k' re' hre' ha hm hk'
  rcases hc.gone k' re' hre' ha hm hk' with ⟨x, hx, hle⟩ | ⟨x, hx, hle⟩
  · exact Or.inl ⟨x, hx, Nat.le_trans hle (Nat.le_add_right _ _)⟩
  · exact Or.inr ⟨x, hx, Nat.le_trans hle (Nat.le_add_right _ _)⟩

/-! ### one step, then whole traces -/

/-- The maintenance runs that operation `op` may start in state `s` do not evict for size. -/
def MaintOk (p : Params) (s : SState) : Op → Prop
  | .ins k v => SyncOk p (insertMid p s k v).1
  | .get _ => SyncOk p s
  | .inv k => ∀ ve, AL.get? s.map k = some ve → SyncOk p { s with map := AL.erase s.map k }
  | .sync => FrameX p s (syncRun p s)
  | _ => True

theorem maintOk_none {p : Params} (hq : NoQuirks p) (hcap : p.cap = none) (s : SState) (op : Op) :
    MaintOk p s op := by
  cases op <;> first
    | exact syncOk_none hq hcap _
    | exact syncRun_frameX_none hq hcap _
    | exact fun _ _ => syncOk_none hq hcap _
    | exact True.intro

/-- One step: the lookup returns everything the reference requires, and the coupling is
re-established. -/
theorem step_exact {p : Params} (hq : NoQuirks p) {s : SState} {r : Ref} (hcr : CoupledRS p s r)
    (op : Op) (hm : MaintOk p s op) :
    stops (step p s op).2 = true ∨
    (Unsync.checkExact p.ttl p.tti r op (step p s op).2 = true ∧
      CoupledRS p (step p s op).1 (refStep .sync r op (step p s op).2)) := by
  suffices h : stops (step p s op).2 = true ∨
      (Unsync.checkExact p.ttl p.tti r op (step p s op).2 = true ∧
        CompleteS p (step p s op).1 (refStep .sync r op (step p s op).2)) by
    rcases h with h | ⟨h1, h2⟩
    · exact Or.inl h
    · rcases step_coupled hq hcr.sound op with h3 | ⟨_, h3⟩
      · exact Or.inl h3
      · rw [← toGhost_refStep_sync] at h3
        exact Or.inr ⟨h1, ⟨h3, (step_qinv p hcr.q op).1, refOkS_step hcr.ok _ _, h2⟩⟩
  unfold step
  by_cases hf : s.fault.isSome = true
  · left; simp [hf, stops]
  · simp only [hf]
    have key : ∀ (x : SState × Obs),
        (stops x.2 = true ∨
          (Unsync.checkExact p.ttl p.tti r op x.2 = true ∧
            CompleteS p x.1 (refStep .sync r op x.2))) →
        stops (match x.1.fault with
          | some f => (x.1, Obs.panic f)
          | none => x).2 = true ∨
        (Unsync.checkExact p.ttl p.tti r op (match x.1.fault with
          | some f => (x.1, Obs.panic f)
          | none => x).2 = true ∧
         CompleteS p (match x.1.fault with
          | some f => (x.1, Obs.panic f)
          | none => x).1 (refStep .sync r op (match x.1.fault with
          | some f => (x.1, Obs.panic f)
          | none => x).2)) := by
      intro x hx
      cases hfl : x.1.fault with
      | some f => left; simp [stops]
      | none => simpa using hx
    apply key
    cases op with
    | ins k v => exact Or.inr ⟨rfl, insert_complete hcr k v hm⟩
    | get k => exact Or.inr (get_exact hcr hm k)
    | has k => exact Or.inr ⟨containsKey_exact hcr k, hcr.complete⟩
    | iter => exact Or.inr ⟨iter_exact hcr, hcr.complete⟩
    | inv k => exact Or.inr ⟨rfl, invalidate_complete hcr k hm⟩
    | invAll => exact Or.inr ⟨rfl, invalidateAll_complete hcr⟩
    | invIf pr => exact Or.inl rfl
    | sync => exact Or.inr ⟨rfl, sync_complete hcr hm⟩
    | adv d => exact Or.inr ⟨rfl, adv_complete hcr.complete d⟩
    | snap => exact Or.inr ⟨rfl, hcr.complete⟩
    | freq k => exact Or.inr ⟨rfl, hcr.complete⟩

/-- `exactC03` accepts every run of the model from coupled states, as long as an invariant `I`
of the state and the rest of the history guarantees that maintenance does not evict for size. -/
theorem exactC03_run_sync {p : Params} (hq : NoQuirks p) (I : SState → List Op → Prop)
    (hstep : ∀ s op rest, I s (op :: rest) → I (step p s op).1 rest)
    (hok : ∀ s op rest, I s (op :: rest) → MaintOk p s op) :
    ∀ (h : List Op) (s : SState) (r : Ref), I s h → CoupledRS p s r →
      exactC03 .sync p.ttl p.tti r (run p s h) = true := by
  intro h
  induction h with
  | nil => intro s r _ _; rfl
  | cons op rest ih =>
    intro s r hi hcr
    have hrun : run p s (op :: rest) = (op, (step p s op).2) :: run p (step p s op).1 rest := rfl
    rw [hrun, Unsync.exactC03_cons]
    split
    · rfl
    · rename_i hns
      rcases step_exact hq hcr op (hok s op rest hi) with h | ⟨h1, h2⟩
      · exact absurd h hns
      · rw [Bool.and_eq_true]
        exact ⟨h1, ih _ _ (hstep s op rest hi) h2⟩

/-! ### budgets: how much weight has been inserted under each entry info -/

def budOf (bl : List (Nat × Nat)) (i : Nat) : Nat := (AL.get? bl i).getD 0

def budTotal : List (Nat × Nat) → Nat
  | [] => 0
  | (_, x) :: rest => x + budTotal rest

theorem budOf_nil (i : Nat) : budOf [] i = 0 := rfl

theorem budOf_cons (a x : Nat) (rest : List (Nat × Nat)) (i : Nat) :
    budOf ((a, x) :: rest) i = if a = i then x else budOf rest i := by
  unfold budOf
  rw [AL.get?_cons]
  by_cases h : a = i <;> simp [h]

theorem sum_map_le {α : Type} (f g : α → Nat) : ∀ (l : List α), (∀ a ∈ l, f a ≤ g a) →
    (l.map f).sum ≤ (l.map g).sum := by
  intro l
  induction l with
  | nil => intro _; exact Nat.le_refl _
  | cons a l ih =>
    intro h
    simp only [List.map_cons, List.sum_cons]
    exact Nat.add_le_add (h a List.mem_cons_self) (ih (fun b hb => h b (List.mem_cons_of_mem _ hb)))

/-- Distinct infos together hold at most the total budget. -/
theorem sum_budOf_le : ∀ (bl : List (Nat × Nat)) (K : List Nat), K.Nodup →
    (K.map (budOf bl)).sum ≤ budTotal bl := by
  intro bl
  induction bl with
  | nil =>
    intro K _
    have : ∀ K : List Nat, (K.map (budOf [])).sum = 0 := by
      intro K; induction K with
      | nil => rfl
      | cons a K ih => simp only [List.map_cons, List.sum_cons, ih, budOf_nil]
    rw [this]; exact Nat.le_refl _
  | cons ax rest ih =>
    obtain ⟨a, x⟩ := ax
    intro K hK
    by_cases ha : a ∈ K
    · have hp := List.perm_cons_erase ha
      rw [((hp.map (budOf ((a, x) :: rest))).sum_nat)]
      simp only [List.map_cons, List.sum_cons, budTotal]
      have h1 : budOf ((a, x) :: rest) a = x := by rw [budOf_cons, if_pos rfl]
      have h2 : (K.erase a).map (budOf ((a, x) :: rest)) = (K.erase a).map (budOf rest) := by
        apply List.map_congr_left
        intro i hi
        have := (hK.mem_erase_iff.mp hi).1
        rw [budOf_cons, if_neg (fun e => this e.symm)]
      rw [h1, h2]
      exact Nat.add_le_add_left (ih _ (hK.erase a)) _
    · have h2 : K.map (budOf ((a, x) :: rest)) = K.map (budOf rest) := by
        apply List.map_congr_left
        intro i hi
        rw [budOf_cons, if_neg (fun (e : a = i) => ha (by rw [e]; exact hi))]
      rw [h2]
      simp only [budTotal]
      exact Nat.le_trans (ih K hK) (Nat.le_add_left _ _)

/-- Charging `w` more to info `i`. -/
def charge (bl : List (Nat × Nat)) (i w : Nat) : List (Nat × Nat) := AL.put bl i (budOf bl i + w)

theorem budOf_charge (bl : List (Nat × Nat)) (i w j : Nat) :
    budOf (charge bl i w) j = if i = j then budOf bl i + w else budOf bl j := by
  unfold charge budOf
  rw [AL.get?_put]
  by_cases h : i = j <;> simp [h]

theorem budOf_charge_ge (bl : List (Nat × Nat)) (i w j : Nat) :
    budOf bl j ≤ budOf (charge bl i w) j := by
  rw [budOf_charge]
  by_cases h : i = j
  · rw [if_pos h, h]; exact Nat.le_add_right _ _
  · rw [if_neg h]; exact Nat.le_refl _

theorem budTotal_put : ∀ (bl : List (Nat × Nat)) (i x : Nat),
    budTotal (AL.put bl i x) + budOf bl i ≤ budTotal bl + x := by
  intro bl
  induction bl with
  | nil => intro i x; simp [AL.put, budTotal, budOf_nil]
  | cons ay rest ih =>
    obtain ⟨a, y⟩ := ay
    intro i x
    rw [AL.put_cons, budOf_cons]
    by_cases h : a = i
    · simp only [h, if_true, budTotal]; omega
    · simp only [h, if_false, budTotal]
      have := ih i x
      omega

theorem budTotal_charge (bl : List (Nat × Nat)) (i w : Nat) :
    budTotal (charge bl i w) ≤ budTotal bl + w := by
  have := budTotal_put bl i (budOf bl i + w)
  unfold charge
  omega

/-! ### the budget invariant -/

/-- Every weight the maintenance may account for info `i` — the one stored in the info, the
policy weight of the map's entry, the weight carried by a queued upsert — is at most the budget
of `i`. -/
structure BInv (p : Params) (s : SState) (Q : List WOp) (bl : List (Nat × Nat)) : Prop where
  wt : ∀ i, (getInfo s i).weight ≤ budOf bl i
  mp : ∀ k ve, AL.get? s.map k = some ve → p.weigh k ve.val ≤ budOf bl ve.info
  up : ∀ k h ve o w, WOp.upsert k h ve o w ∈ Q → w ≤ budOf bl ve.info

theorem BInv.of {p : Params} {s s' : SState} {Q Q' : List WOp} {bl : List (Nat × Nat)}
    (b : BInv p s Q bl)
    (hm : ∀ k ve, AL.get? s'.map k = some ve → AL.get? s.map k = some ve)
    (hw : ∀ i, (getInfo s' i).weight ≤ budOf bl i) (hQ : ∀ op, op ∈ Q' → op ∈ Q) :
    BInv p s' Q' bl :=
  ⟨hw, fun k ve hk => b.mp k ve (hm k ve hk), fun k h ve o w hin => b.up k h ve o w (hQ _ hin)⟩

theorem BInv.same {p : Params} {s s' : SState} {Q : List WOp} {bl : List (Nat × Nat)}
    (b : BInv p s Q bl) (hs : Same s s') : BInv p s' Q bl :=
  b.of (fun k ve hk => by rw [hs.map] at hk; exact hk)
    (fun i => by rw [hs.weight]; exact b.wt i) (fun _ h => h)

theorem prob_infos_nodup {s : SState} (h : NodesCore s) : (s.prob.map (·.info)).Nodup :=
  nodup_map_of (·.info) (·.id) s.prob h.probIds (fun a ha b hb e => by
    have h1 := h.probOwn a ha
    have h2 := h.probOwn b hb
    have e' : a.info = b.info := e
    rw [e', h2] at h1
    exact (Option.some.inj h1).symm)

theorem wsumOf_le_bud {p : Params} {s : SState} {Q : List WOp} {bl : List (Nat × Nat)}
    (b : BInv p s Q bl) : wsumOf s ≤ ((s.prob.map (·.info)).map (budOf bl)).sum := by
  unfold wsumOf
  rw [List.map_map]
  exact sum_map_le _ _ _ (fun n _ => b.wt n.info)

/-- The run-local weighted size plus the budget of an info that is not admitted stays within
the total budget. -/
theorem cws_bound {p : Params} {s : SState} {Q : List WOp} {bl : List (Nat × Nat)} {c : Nat}
    (hs : Safe s) (hw : s.cws = wsumOf s) (b : BInv p s Q bl) (hc : budTotal bl ≤ c) {j : Nat}
    (hna : (getInfo s j).admitted = false) : s.cws + budOf bl j ≤ c := by
  have hnd := prob_infos_nodup hs.toNodesCore
  have hj : j ∉ s.prob.map (·.info) := by
    intro hm
    obtain ⟨n, hn, e⟩ := List.mem_map.mp hm
    have h1 := hs.probOwn n hn
    have e' : n.info = j := e
    rw [e'] at h1
    have := (hs.admIff j).mpr (by rw [h1]; rfl)
    rw [hna] at this; cases this
  have h1 := wsumOf_le_bud b
  have h2 := sum_budOf_le bl (j :: s.prob.map (·.info)) (List.nodup_cons.mpr ⟨hj, hnd⟩)
  simp only [List.map_cons, List.sum_cons] at h2
  omega

theorem cws_le {p : Params} {s : SState} {Q : List WOp} {bl : List (Nat × Nat)} {c : Nat}
    (hs : Safe s) (hw : s.cws = wsumOf s) (b : BInv p s Q bl) (hc : budTotal bl ≤ c) :
    s.cws ≤ c := by
  have h1 := wsumOf_le_bud b
  have h2 := sum_budOf_le bl (s.prob.map (·.info)) (prob_infos_nodup hs.toNodesCore)
  omega

/-! ### `apply_writes` with room -/

theorem currentWeight_le {p : Params} (hq : NoQuirks p) {s : SState} {Q : List WOp} {key : Nat}
    {hash : UInt64} {ve : VE} {oldW newW : Nat} {bl : List (Nat × Nat)}
    (b : BInv p s (WOp.upsert key hash ve oldW newW :: Q) bl) :
    currentWeight p s key ve newW ≤ budOf bl ve.info := by
  have hd10 : p.q.d10 = false := by rw [hq]
  have hup := b.up key hash ve oldW newW List.mem_cons_self
  unfold currentWeight
  rw [hd10]
  simp only [Bool.false_eq_true, if_false]
  cases hg : AL.get? s.map key with
  | none => exact hup
  | some cur =>
    dsimp only
    by_cases e : (cur.info == ve.info) = true
    · rw [if_pos e]
      have := b.mp key cur hg
      rw [show cur.info = ve.info from by simpa using e] at this
      exact this
    · rw [if_neg e]; exact hup

theorem getInfo_subCounters (s : SState) (n w j : Nat) :
    getInfo (subCounters s n w) j = getInfo s j := by
  unfold subCounters
  dsimp only
  split
  · unfold SState.fail; split <;> rfl
  · rfl

theorem applyUpdate_weight {p : Params} (hd8 : p.q.d8 = false) (s : SState) (ve : VE)
    (oldW nw : Nat) (i : Nat) :
    (getInfo (applyUpdate p s ve oldW nw) i).weight =
      if ve.info = i then nw else (getInfo s i).weight := by
  unfold applyUpdate
  simp only [hd8, Bool.false_eq_true, if_false]
  rw [(moveToBackWoE_same _ _).weight, (moveToBackAoE_same _ _).weight, getInfo_withInfo]
  by_cases e : ve.info = i
  · rw [if_pos e, if_pos e]
  · rw [if_neg e, if_neg e]
    rw [getInfo_addCounters, getInfo_subCounters]

theorem handleUpsert_room {p : Params} (hq : NoQuirks p) {c : Nat} (hcap : p.cap = some c)
    {s : SState} {Q : List WOp} {key : Nat} {hash : UInt64} {ve : VE} {oldW newW : Nat}
    {bl : List (Nat × Nat)} (g : G p s (WOp.upsert key hash ve oldW newW :: Q))
    (b : BInv p s (WOp.upsert key hash ve oldW newW :: Q) bl) (hc : budTotal bl ≤ c) :
    (handleUpsert p s key hash ve oldW newW).map = s.map ∧
      BInv p (handleUpsert p s key hash ve oldW newW) Q bl := by
  have hd8 : p.q.d8 = false := by rw [hq]
  have hnw := currentWeight_le hq b
  have hQ : ∀ op, op ∈ Q → op ∈ WOp.upsert key hash ve oldW newW :: Q :=
    fun _ h => List.mem_cons_of_mem _ h
  unfold handleUpsert
  dsimp only
  generalize currentWeight p s key ve newW = nw at hnw ⊢
  have h0m : (withInfo s ve.info (fun i => { i with dirty := false })).map = s.map := rfl
  have h0c : (withInfo s ve.info (fun i => { i with dirty := false })).cws = s.cws := rfl
  have h0w : ∀ i, (getInfo (withInfo s ve.info (fun i => { i with dirty := false })) i).weight =
      (getInfo s i).weight := by
    intro i; rw [getInfo_withInfo]; by_cases e : ve.info = i
    · rw [if_pos e, e]
    · rw [if_neg e]
  have h0a : (getInfo (withInfo s ve.info (fun i => { i with dirty := false })) ve.info).admitted =
      (getInfo s ve.info).admitted := by
    rw [getInfo_withInfo, if_pos rfl]
  generalize withInfo s ve.info (fun i => { i with dirty := false }) = s1 at h0m h0c h0w h0a ⊢
  by_cases c1 : (getInfo s1 ve.info).admitted = true
  · rw [if_pos c1]
    refine ⟨by rw [applyUpdate_map, h0m], b.of ?_ ?_ hQ⟩
    · intro k v hk; rw [applyUpdate_map, h0m] at hk; exact hk
    · intro i
      rw [applyUpdate_weight hd8]
      by_cases e : ve.info = i
      · rw [if_pos e, ← e]; exact hnw
      · rw [if_neg e, h0w]; exact b.wt i
  · rw [if_neg c1]
    by_cases c2 : (!p.q.d7 && !isCurrentEntry s1 key ve) = true
    · rw [if_pos c2]
      exact ⟨h0m, b.of (fun k v hk => by rw [h0m] at hk; exact hk)
        (fun i => by rw [h0w]; exact b.wt i) hQ⟩
    · rw [if_neg c2]
      have hna : (getInfo s ve.info).admitted = false := by
        rw [← h0a]
        cases hx : (getInfo s1 ve.info).admitted with
        | false => rfl
        | true => exact absurd hx c1
      have hb := cws_bound g.safe g.inv.wsum b hc hna
      have c3 : hasEnoughCapacity p nw s1 = true := by
        unfold hasEnoughCapacity
        rw [hcap]
        simp only [decide_eq_true_eq]
        rw [h0c]; omega
      rw [if_pos c3]
      obtain ⟨a1, _, a3, _, a5, _⟩ := handleAdmit_spec hd8 s1 key hash ve nw
      refine ⟨by rw [a1, h0m], b.of ?_ ?_ hQ⟩
      · intro k v hk; rw [a1, h0m] at hk; exact hk
      · intro i
        by_cases e : i = ve.info
        · rw [e, a5]; exact hnw
        · rw [a3 i e, h0w]; exact b.wt i

theorem applyWrite_room {p : Params} (hq : NoQuirks p) {c : Nat} (hcap : p.cap = some c)
    {s : SState} {Q : List WOp} {bl : List (Nat × Nat)} (op : WOp) (g : G p s (op :: Q))
    (b : BInv p s (op :: Q) bl) (hc : budTotal bl ≤ c) :
    (applyWrite p s op).map = s.map ∧ BInv p (applyWrite p s op) Q bl := by
  cases op with
  | upsert key hash ve oldW newW => exact handleUpsert_room hq hcap g b hc
  | remove key ve =>
    obtain ⟨a1, _, _, a4, _⟩ := handleRemove_spec g.safe ve
    refine ⟨a1, b.of ?_ ?_ (fun _ h => List.mem_cons_of_mem _ h)⟩
    · intro k v hk
      have : AL.get? (handleRemove s ve).map k = some v := hk
      rw [a1] at this; exact this
    · intro i
      have : (getInfo (handleRemove s ve) i).weight = (getInfo s i).weight := a4 i
      show (getInfo (handleRemove s ve) i).weight ≤ _
      rw [this]; exact b.wt i

theorem applyWrites_room {p : Params} (hq : NoQuirks p) {c : Nat} (hcap : p.cap = some c)
    (ex : List WOp) {bl : List (Nat × Nat)} (hc : budTotal bl ≤ c) (n : Nat) :
    ∀ (s : SState), G p s (s.writeQ ++ ex) → BInv p s (s.writeQ ++ ex) bl →
      (applyWrites p n s).map = s.map ∧
      BInv p (applyWrites p n s) ((applyWrites p n s).writeQ ++ ex) bl := by
  induction n with
  | zero => intro s _ b; exact ⟨rfl, b⟩
  | succ n ih =>
    intro s g b
    unfold applyWrites
    split
    · exact ⟨rfl, b⟩
    · rename_i op rest hw
      rw [hw] at g b
      have g0 : G p { s with writeQ := rest } (op :: (rest ++ ex)) :=
        ⟨safe_setWriteQ g.safe rest, ⟨g.map.kn, g.map.bound⟩,
          g.inv.same (same_of_eq rfl rfl rfl rfl rfl rfl)⟩
      have b0 : BInv p { s with writeQ := rest } (op :: (rest ++ ex)) bl := ⟨b.wt, b.mp, b.up⟩
      have g1 := applyWrite_g hq op g0
      obtain ⟨m1, b1⟩ := applyWrite_room hq hcap op g0 b0 hc
      have hq1 : (applyWrite p { s with writeQ := rest } op).writeQ = rest :=
        (applyWrite_qframe p { s with writeQ := rest } op).writeQ
      obtain ⟨m2, b2⟩ := ih _ (by rw [hq1]; exact g1) (by rw [hq1]; exact b1)
      exact ⟨m2.trans m1, b2⟩

/-- The loop of `Inner::sync` with room: the map is untouched and the budgets still cover. -/
theorem syncLoop_room {P : Sketch → Prop} (L : SketchLaws P) {p : Params} (hq : NoQuirks p)
    (hsm : SmallSketch p) {c : Nat} (hcap : p.cap = some c) (ex : List WOp)
    {bl : List (Nat × Nat)} (hc : budTotal bl ≤ c) (n : Nat) :
    ∀ (s : SState), RunInv P s → CInv p s (s.writeQ ++ ex) → BInv p s (s.writeQ ++ ex) bl →
      (syncLoop p n s).map = s.map ∧
      BInv p (syncLoop p n s) ((syncLoop p n s).writeQ ++ ex) bl := by
  induction n with
  | zero => intro s _ _ b; exact ⟨rfl, b⟩
  | succ n ih =>
    intro s h hci b
    unfold syncLoop
    dsimp only
    have h1 : (RunInv P (if s.readQ.length > 0 then applyReads p s.readQ.length s else s) ∧
        CInv p (if s.readQ.length > 0 then applyReads p s.readQ.length s else s)
          ((if s.readQ.length > 0 then applyReads p s.readQ.length s else s).writeQ ++ ex)) ∧
        (if s.readQ.length > 0 then applyReads p s.readQ.length s else s).map = s.map ∧
        BInv p (if s.readQ.length > 0 then applyReads p s.readQ.length s else s)
          ((if s.readQ.length > 0 then applyReads p s.readQ.length s else s).writeQ ++ ex) bl := by
      split
      · obtain ⟨a, b'⟩ := applyReads_inv L hq s.readQ.length s h.safe h.sk
        refine ⟨⟨⟨a, h.map.frame (applyReads_frame hq _ _), b'⟩, ?_⟩,
          (applyReads_same p _ s).map, ?_⟩
        · rw [applyReads_writeQ]
          exact hci.same (applyReads_same p _ s)
        · rw [applyReads_writeQ]
          exact b.same (applyReads_same p _ s)
      · exact ⟨⟨h, hci⟩, rfl, b⟩
    generalize (if s.readQ.length > 0 then applyReads p s.readQ.length s else s) = s1 at h1 ⊢
    obtain ⟨h1, m1, b1⟩ := h1
    have h2 : (RunInv P (if s1.writeQ.length > 0 then applyWrites p s1.writeQ.length s1 else s1) ∧
        CInv p (if s1.writeQ.length > 0 then applyWrites p s1.writeQ.length s1 else s1)
          ((if s1.writeQ.length > 0 then applyWrites p s1.writeQ.length s1 else s1).writeQ
            ++ ex)) ∧
        (if s1.writeQ.length > 0 then applyWrites p s1.writeQ.length s1 else s1).map = s1.map ∧
        BInv p (if s1.writeQ.length > 0 then applyWrites p s1.writeQ.length s1 else s1)
          ((if s1.writeQ.length > 0 then applyWrites p s1.writeQ.length s1 else s1).writeQ
            ++ ex) bl := by
      split
      · have g0 : G p s1 (s1.writeQ ++ ex) := ⟨h1.1.safe, h1.1.map, h1.2⟩
        have g := applyWrites_g hq ex s1.writeQ.length s1 g0
        obtain ⟨m, b'⟩ := applyWrites_room hq hcap ex hc s1.writeQ.length s1 g0 b1
        exact ⟨⟨⟨g.safe, g.map, h1.1.sk.same (applyWrites_sk _ _ _)⟩, g.inv⟩, m, b'⟩
      · exact ⟨h1, rfl, b1⟩
    generalize (if s1.writeQ.length > 0 then applyWrites p s1.writeQ.length s1 else s1) = s2
      at h2 ⊢
    obtain ⟨h2, m2, b2⟩ := h2
    have h3 : (RunInv P (if shouldEnableSketch p s2 = true then enableSketch p s2 else s2) ∧
        CInv p (if shouldEnableSketch p s2 = true then enableSketch p s2 else s2)
          ((if shouldEnableSketch p s2 = true then enableSketch p s2 else s2).writeQ ++ ex)) ∧
        (if shouldEnableSketch p s2 = true then enableSketch p s2 else s2).map = s2.map ∧
        BInv p (if shouldEnableSketch p s2 = true then enableSketch p s2 else s2)
          ((if shouldEnableSketch p s2 = true then enableSketch p s2 else s2).writeQ ++ ex) bl := by
      split
      · rename_i hen
        refine ⟨⟨⟨enableSketch_safe p h2.1.safe, h2.1.map.frame0 (enableSketch_frame0 _ _),
          enableSketch_skOK L hsm h2.1.sk hen⟩, ?_⟩, (enableSketch_same p s2).map, ?_⟩
        · rw [(enableSketch_qframe p s2).writeQ]
          exact h2.2.same (enableSketch_same p s2)
        · rw [(enableSketch_qframe p s2).writeQ]
          exact b2.same (enableSketch_same p s2)
      · exact ⟨h2, rfl, b2⟩
    generalize (if shouldEnableSketch p s2 = true then enableSketch p s2 else s2) = s3 at h3 ⊢
    obtain ⟨h3, m3, b3⟩ := h3
    have hm : s3.map = s.map := m3.trans (m2.trans m1)
    split
    · obtain ⟨m4, b4⟩ := ih _ h3.1 h3.2 b3
      exact ⟨m4.trans hm, b4⟩
    · exact ⟨hm, b3⟩

/-! ### expiry eviction does not touch the weights -/

def WSame (s s' : SState) : Prop := ∀ i, (getInfo s' i).weight = (getInfo s i).weight

theorem WSame.refl (s : SState) : WSame s s := fun _ => rfl

theorem WSame.trans {a b c : SState} (h1 : WSame a b) (h2 : WSame b c) : WSame a c :=
  fun i => (h2 i).trans (h1 i)

theorem wsame_of_same {s s' : SState} (h : Same s s') : WSame s s' := h.weight

theorem getInfo_fail (s : SState) (f : Fault) (j : Nat) : getInfo (s.fail f) j = getInfo s j := by
  unfold SState.fail; split <;> rfl

theorem unlinkAo_wsame (s : SState) (i : Nat) : WSame s (unlinkAo s i) := by
  intro j
  unfold unlinkAo
  split
  · rfl
  · dsimp only
    have h : (getInfo (withInfo s i (fun x => { x with ao := none })) j).weight =
        (getInfo s j).weight := by
      rw [getInfo_withInfo]
      by_cases e : i = j
      · rw [if_pos e, e]
      · rw [if_neg e]
    split
    · exact h
    · rw [getInfo_fail]; exact h

theorem handleRemove_wsame (s : SState) (ve : VE) : WSame s (handleRemove s ve) := by
  intro j
  unfold handleRemove
  dsimp only
  split
  · rw [((unlinkWo_quiet _ _).2.2.2.2.1 j).2.1, unlinkAo_wsame, getInfo_subCounters,
      getInfo_withInfo]
    by_cases e : ve.info = j
    · rw [if_pos e, e]
    · rw [if_neg e]
  · rw [getInfo_withInfo]
    by_cases e : ve.info = j
    · rw [if_pos e, e]
    · rw [if_neg e]

theorem evict_wsame (s : SState) (k : Nat) (ve : VE) :
    WSame s (handleRemove { s with map := AL.erase s.map k } ve) :=
  handleRemove_wsame { s with map := AL.erase s.map k } ve

theorem removeExpiredAo_wsame (p : Params) (n : Nat) :
    ∀ (s : SState), WSame s (removeExpiredAo p n s) := by
  induction n with
  | zero => intro s; exact WSame.refl s
  | succ n ih =>
    intro s
    unfold removeExpiredAo
    split
    · exact WSame.refl s
    · split
      · dsimp only
        split
        · exact (evict_wsame s _ _).trans (ih _)
        · split
          · exact (wsame_of_same (trySkipUpdated_same s _)).trans (ih _)
          · exact wsame_of_same (trySkipUpdated_same s _)
      · exact WSame.refl s

theorem removeExpiredWo_wsame (p : Params) (n : Nat) :
    ∀ (s : SState), WSame s (removeExpiredWo p n s) := by
  induction n with
  | zero => intro s; exact WSame.refl s
  | succ n ih =>
    intro s
    unfold removeExpiredWo
    split
    · exact WSame.refl s
    · split
      · dsimp only
        split
        · exact (evict_wsame s _ _).trans (ih _)
        · split
          · split
            · exact (wsame_of_same ((moveToBackAoE_same _ _).trans (moveToBackWoE_same _ _))).trans (ih _)
            · exact WSame.refl s
          · exact (wsame_of_same (moveNodeToBackWo_same _ _)).trans (ih _)
      · exact WSame.refl s

theorem evictExpired_wsame (p : Params) (s : SState) : WSame s (evictExpired p s) := by
  unfold evictExpired
  dsimp only
  split
  · split
    · exact (removeExpiredWo_wsame _ _ _).trans (removeExpiredAo_wsame _ _ _)
    · exact removeExpiredWo_wsame _ _ _
  · split
    · exact removeExpiredAo_wsame _ _ _
    · exact WSame.refl s

/-! ### a maintenance run with room -/

theorem syncRun_room {P : Sketch → Prop} (L : SketchLaws P) {p : Params} (hq : NoQuirks p)
    (hsm : SmallSketch p) {c : Nat} (hcap : p.cap = some c) {s : SState} (ex : List WOp)
    {bl : List (Nat × Nat)} (hc : budTotal bl ≤ c) (h : TopInv P s)
    (hct : CTop p s (s.writeQ ++ ex)) (b : BInv p s (s.writeQ ++ ex) bl) :
    (∀ k ve, AL.get? s.map k = some ve →
      AL.get? (syncRun p s).map k = some ve ∨
        isExpiredInfo p (syncRun p s) (getInfo (syncRun p s) ve.info) (syncRun p s).now = true) ∧
    BInv p (syncRun p s) ex bl := by
  unfold syncRun
  dsimp only
  have h0 : RunInv P { s with cec := s.ec, cws := s.ws } :=
    ⟨⟨⟨h.nodes.toNodesCore.congr (fun _ => rfl) (fun _ => rfl) (fun _ => rfl) (List.Perm.refl _)
        (List.Perm.refl _) (Nat.le_refl _), h.nodes.count⟩, h.nofault⟩,
     ⟨h.map.kn, h.map.bound⟩, ⟨h.sk.sk, h.sk.skOff⟩⟩
  have b0 : BInv p { s with cec := s.ec, cws := s.ws }
      (({ s with cec := s.ec, cws := s.ws } : SState).writeQ ++ ex) bl := ⟨b.wt, b.mp, b.up⟩
  have h1 := syncLoop_g L hq hsm ex (Gen.MAX_SYNC_REPEATS + 1) _ h0 hct
  have r1 := syncLoop_room L hq hsm hcap ex hc (Gen.MAX_SYNC_REPEATS + 1) _ h0 hct b0
  have hq1 := (syncLoop_queues p Gen.MAX_SYNC_REPEATS { s with cec := s.ec, cws := s.ws }).1
  generalize syncLoop p (Gen.MAX_SYNC_REPEATS + 1) { s with cec := s.ec, cws := s.ws } = s1
    at h1 r1 hq1 ⊢
  rw [hq1, List.nil_append] at h1 r1
  obtain ⟨m1, b1⟩ := r1
  have g1 : G p s1 ex := ⟨h1.1.safe, h1.1.map, h1.2⟩
  have g2 : G p (if (p.hasExpiry || s1.va.isSome) = true then evictExpired p s1 else s1) ex ∧
      Kept p s1 (if (p.hasExpiry || s1.va.isSome) = true then evictExpired p s1 else s1) ∧
      Frame0 s1 (if (p.hasExpiry || s1.va.isSome) = true then evictExpired p s1 else s1) ∧
      WSame s1 (if (p.hasExpiry || s1.va.isSome) = true then evictExpired p s1 else s1) := by
    split
    · exact ⟨evictExpired_g g1, evictExpired_kept _ _, evictExpired_frame0 _ _,
        evictExpired_wsame _ _⟩
    · exact ⟨g1, Kept.of_map_eq rfl, Frame0.refl _, WSame.refl _⟩
  generalize (if (p.hasExpiry || s1.va.isSome) = true then evictExpired p s1 else s1) = s2
    at g2 ⊢
  obtain ⟨g2, k2, f2, w2⟩ := g2
  have b2 : BInv p s2 ex bl :=
    b1.of (fun k ve hk => f2.mapSub g1.map.kn k ve hk) (fun i => by rw [w2 i]; exact b1.wt i)
      (fun _ hh => hh)
  have hle := cws_le g2.safe g2.inv.wsum b2 hc
  have hw : weightsToEvict p s2 = 0 := by
    unfold weightsToEvict; rw [hcap]; simp only; omega
  rw [if_neg (by rw [hw]; exact Nat.lt_irrefl 0)]
  refine ⟨?_, ⟨b2.wt, b2.mp, b2.up⟩⟩
  intro k ve hk
  have hk1 : AL.get? s1.map k = some ve := by rw [m1]; exact hk
  rcases k2 g1.map.kn k ve hk1 with hh | hh
  · exact Or.inl hh
  · right
    have := isExpiredInfo_frame0 p f2 ve.info
    show isExpiredInfo p s2 (getInfo s2 ve.info) s2.now = true
    rw [this]; exact hh

theorem syncRun_frameX_room {P : Sketch → Prop} (L : SketchLaws P) {p : Params} (hq : NoQuirks p)
    (hsm : SmallSketch p) {c : Nat} (hcap : p.cap = some c) {s : SState} (ex : List WOp)
    {bl : List (Nat × Nat)} (hc : budTotal bl ≤ c) (h : TopInv P s)
    (hct : CTop p s (s.writeQ ++ ex)) (b : BInv p s (s.writeQ ++ ex) bl) :
    FrameX p s (syncRun p s) ∧ BInv p (syncRun p s) ex bl := by
  obtain ⟨h1, h2⟩ := syncRun_room L hq hsm hcap ex hc h hct b
  refine ⟨⟨syncRun_frame hq s, (syncRun_frameA hq s).applied, fun _ k ve hk => ?_⟩, h2⟩
  rcases h1 k ve hk with hh | hh
  · exact Or.inl hh
  · exact Or.inr ⟨syncRun_readQ p s, hh⟩

/-! ### the mid-operation states are good states (after `insert_t` / `invalidate_t`) -/

theorem insertMid_t {p : Params} (hq : NoQuirks p) {s : SState}
    (h : TInv p s []) (k v : Nat) :
    TInv p (insertMid p s k v).1 [(insertMid p s k v).2] := by
  have hd8 : p.q.d8 = false := by rw [hq]
  have hc := h.cinv
  have hnc : NodesCore { s with cec := s.ec, cws := s.ws } :=
    h.top.nodes.toNodesCore.congr (fun _ => rfl) (fun _ => rfl) (fun _ => rfl)
      (List.Perm.refl _) (List.Perm.refl _) (Nat.le_refl _)
  have hmo : MapOK { s with cec := s.ec, cws := s.ws } := ⟨h.top.map.kn, h.top.map.bound⟩
  unfold insertMid
  cases hg : AL.get? s.map k with
  | some old =>
    dsimp only
    have hold := h.top.map.bound k old hg
    refine ⟨?_, qinv_of_eq h.q rfl rfl rfl, ?_⟩
    · have h1 : TopInv Sketch.Good (refreshInfo p s old.info s.now (p.weigh k v)) :=
        h.top.withInfo _ _ rfl rfl rfl
      have hm1 : (refreshInfo p s old.info s.now (p.weigh k v)).map = s.map := rfl
      have hn1 : (refreshInfo p s old.info s.now (p.weigh k v)).nextId = s.nextId := rfl
      generalize refreshInfo p s old.info s.now (p.weigh k v) = s1 at h1 hm1 hn1 ⊢
      refine ⟨⟨⟨h1.nodes.toNodesCore.congr (fun _ => rfl) (fun _ => rfl) (fun _ => rfl)
        (List.Perm.refl _) (List.Perm.refl _) (Nat.le_succ _), h1.nodes.count⟩, ?_,
        ⟨h1.sk.sk, h1.sk.skOff⟩⟩, h1.nofault⟩
      exact mapOK_put h1.map k _ (s1.nextId + 1) (by simp only; rw [hn1]; omega) (Nat.le_succ _) _
        rfl rfl rfl
    · refine CInv.put hc hnc hmo k (p.hash k)
        { id := s.nextId, val := v, info := old.info, slot := old.slot }
        (getInfo s old.info).weight (p.weigh k v) rfl (Nat.le_succ _) ?_ ?_ ?_ ?_ ?_
        (fun _ => ⟨k, old, hg, rfl⟩) rfl rfl rfl
      · intro j _
        show (getInfo (refreshInfo p s old.info s.now (p.weigh k v)) j).key = (getInfo s j).key ∧
          (getInfo (refreshInfo p s old.info s.now (p.weigh k v)) j).weight = (getInfo s j).weight ∧
          (getInfo (refreshInfo p s old.info s.now (p.weigh k v)) j).admitted
            = (getInfo s j).admitted ∧
          (j ≠ old.info → (getInfo (refreshInfo p s old.info s.now (p.weigh k v)) j).dirty = true →
            (getInfo s j).dirty = true)
        unfold refreshInfo
        rw [getInfo_withInfo]
        by_cases e : old.info = j
        · rw [if_pos e, ← e]
          simp only [hd8, Bool.false_eq_true, if_false, true_and]
          exact fun hne => absurd rfl hne
        · rw [if_neg e]; exact ⟨rfl, rfl, rfl, fun _ hd => hd⟩
      · show (getInfo (refreshInfo p s old.info s.now (p.weigh k v)) old.info).key = k
        unfold refreshInfo
        rw [getInfo_withInfo, if_pos rfl]
        exact hc.mapKey k old hg
      · exact ⟨Nat.lt_succ_of_lt hold, Nat.lt_succ_self _,
          Nat.lt_succ_of_lt (hc.mapId k old hg).2, Nat.le_refl _⟩
      · intro k' c hk'
        constructor
        · intro e; exact hc.slotInj k' k c old hk' hg e
        · intro e
          rw [e] at hk'
          have : old = c := Option.some.inj (hg.symm.trans hk')
          rw [this]
      · intro k' c hk'
        constructor
        · intro e
          have a1 := hc.mapKey k' c hk'
          have a2 := hc.mapKey k old hg
          rw [e] at a1
          exact a1.symm.trans a2
        · intro e
          rw [e] at hk'
          have : old = c := Option.some.inj (hg.symm.trans hk')
          rw [this]
  | none =>
    dsimp only
    have hna := h.top.nodes.infoFresh s.nextId (Nat.le_refl _)
    have hao := h.top.nodes.toNodesCore.notAdm_ao hna
    have hwo := h.top.nodes.toNodesCore.notAdm_wo hna
    refine ⟨?_, qinv_of_eq h.q rfl rfl rfl, ?_⟩
    · refine ⟨⟨⟨h.top.nodes.toNodesCore.congr ?_ ?_ ?_ (List.Perm.refl _) (List.Perm.refl _)
        (Nat.le_add_right _ 2), h.top.nodes.count⟩, ?_, ⟨h.top.sk.sk, h.top.sk.skOff⟩⟩,
        h.top.nofault⟩
      · intro j
        simp only [getInfo, AL.get?_put]
        by_cases e : s.nextId = j
        · subst e; simp only [if_true, Option.getD_some]; exact hao.symm
        · simp only [e, if_false]
      · intro j
        simp only [getInfo, AL.get?_put]
        by_cases e : s.nextId = j
        · subst e; simp only [if_true, Option.getD_some]; exact hwo.symm
        · simp only [e, if_false]
      · intro j
        simp only [getInfo, AL.get?_put]
        by_cases e : s.nextId = j
        · subst e; simp only [if_true, Option.getD_some]; exact hna.symm
        · simp only [e, if_false]
      · exact mapOK_put h.top.map k _ (s.nextId + 2) (by simp only; omega)
          (Nat.le_add_right _ 2) _ rfl rfl rfl
    · refine CInv.put hc hnc hmo k (p.hash k)
        { id := s.nextId + 1, val := v, info := s.nextId, slot := s.nextId + 1 }
        0 (p.weigh k v) rfl (Nat.le_add_right _ 2) ?_ ?_ ?_ ?_ ?_ ?_ rfl rfl rfl
      · intro j hj
        have e : ¬ s.nextId = j := fun e => Nat.lt_irrefl _ (e ▸ hj)
        simp only [getInfo, AL.get?_put, if_neg e, true_and]
        exact fun _ hd => hd
      · simp only [getInfo, AL.get?_put, if_true, Option.getD_some]
      · refine ⟨?_, ?_, ?_, ?_⟩ <;> simp only <;> omega
      · intro k' c hk'
        constructor
        · intro e
          have := (hc.mapId k' c hk').2
          simp only at e this
          omega
        · intro e
          rw [e] at hk'
          rw [hg] at hk'; cases hk'
      · intro k' c hk'
        constructor
        · intro e
          have := hmo.bound k' c hk'
          simp only at e this
          omega
        · intro e
          rw [e] at hk'
          rw [hg] at hk'; cases hk'
      · intro hlt
        exact absurd hlt (Nat.lt_irrefl _)

theorem invalidateMid_t {p : Params} {s : SState} (h : TInv p s []) {k : Nat} {ve : VE}
    (hg : AL.get? s.map k = some ve) :
    TInv p { s with map := AL.erase s.map k } [WOp.remove k ve] := by
  refine ⟨?_, qinv_of_eq h.q rfl rfl rfl, ?_⟩
  · exact ⟨⟨⟨h.top.nodes.toNodesCore.congr (fun _ => rfl) (fun _ => rfl) (fun _ => rfl)
      (List.Perm.refl _) (List.Perm.refl _) (Nat.le_refl _), h.top.nodes.count⟩,
      h.top.map.frame0 (frame0_erase s k), ⟨h.top.sk.sk, h.top.sk.skOff⟩⟩, h.top.nofault⟩
  · exact CInv.invalidate (s := { s with cec := s.ec, cws := s.ws }) h.cinv
      ⟨h.top.map.kn, h.top.map.bound⟩ hg

/-! ### housekeeping with room -/

theorem trySync_room {p : Params} (hq : NoQuirks p) (hsm : SmallSketch p) {c : Nat}
    (hcap : p.cap = some c) {s : SState} {ex : List WOp} {bl : List (Nat × Nat)}
    (hc : budTotal bl ≤ c) (h : TInv p s ex) (b : BInv p s (s.writeQ ++ ex) bl) :
    SyncOk p s ∧ BInv p (trySync p s) ((trySync p s).writeQ ++ ex) bl := by
  have h0 : TopInv Sketch.Good (armed s) := h.top.of_eq rfl rfl rfl rfl rfl rfl rfl rfl rfl
  have c0 : CTop p (armed s) ((armed s).writeQ ++ ex) := h.c.of_eq rfl rfl rfl rfl rfl rfl
  have b0 : BInv p (armed s) ((armed s).writeQ ++ ex) bl := ⟨b.wt, b.mp, b.up⟩
  obtain ⟨fx, b1⟩ := syncRun_frameX_room sketchLaws hq hsm hcap ex hc h0 c0 b0
  refine ⟨fx, ?_⟩
  have hs := trySync_spec p s h.q.running
  rw [hs.writeQ, List.nil_append]
  unfold trySync
  rw [if_neg (by rw [h.q.running]; exact Bool.false_ne_true)]
  exact ⟨b1.wt, b1.mp, b1.up⟩

theorem housekeepW_room {p : Params} (hq : NoQuirks p) (hsm : SmallSketch p) {c : Nat}
    (hcap : p.cap = some c) {s : SState} {ex : List WOp} {bl : List (Nat × Nat)}
    (hc : budTotal bl ≤ c) (h : TInv p s ex) (b : BInv p s (s.writeQ ++ ex) bl) :
    SyncOk p s ∧ BInv p (housekeepW p s) ((housekeepW p s).writeQ ++ ex) bl := by
  obtain ⟨h1, h2⟩ := trySync_room hq hsm hcap hc h b
  refine ⟨h1, ?_⟩
  unfold housekeepW
  split
  · exact h2
  · exact b

theorem housekeepR_room {p : Params} (hq : NoQuirks p) (hsm : SmallSketch p) {c : Nat}
    (hcap : p.cap = some c) {s : SState} {ex : List WOp} {bl : List (Nat × Nat)}
    (hc : budTotal bl ≤ c) (h : TInv p s ex) (b : BInv p s (s.writeQ ++ ex) bl) :
    SyncOk p s ∧ BInv p (housekeepR p s) ((housekeepR p s).writeQ ++ ex) bl := by
  obtain ⟨h1, h2⟩ := trySync_room hq hsm hcap hc h b
  refine ⟨h1, ?_⟩
  unfold housekeepR
  split
  · exact h2
  · exact b

/-! ### the API calls with room -/

theorem insertMid_binv {p : Params} (hq : NoQuirks p) {s : SState}
    {bl : List (Nat × Nat)} (b : BInv p s s.writeQ bl) (k v : Nat) :
    ∃ bl', BInv p (insertMid p s k v).1
        ((insertMid p s k v).1.writeQ ++ [(insertMid p s k v).2]) bl' ∧
      budTotal bl' ≤ budTotal bl + p.weigh k v := by
  have hd8 : p.q.d8 = false := by rw [hq]
  unfold insertMid
  cases hg : AL.get? s.map k with
  | some old =>
    dsimp only
    refine ⟨charge bl old.info (p.weigh k v), ⟨?_, ?_, ?_⟩, budTotal_charge _ _ _⟩
    · intro i
      have : (getInfo (refreshInfo p s old.info s.now (p.weigh k v)) i).weight =
          (getInfo s i).weight := by
        unfold refreshInfo
        rw [getInfo_withInfo]
        by_cases e : old.info = i
        · rw [if_pos e, ← e]; simp only [hd8, Bool.false_eq_true, if_false]
        · rw [if_neg e]
      show (getInfo (refreshInfo p s old.info s.now (p.weigh k v)) i).weight ≤ _
      rw [this]
      exact Nat.le_trans (b.wt i) (budOf_charge_ge _ _ _ _)
    · intro k' ve' hk'
      have hk0 : AL.get? (AL.put s.map k
          { id := s.nextId, val := v, info := old.info, slot := old.slot }) k' = some ve' := hk'
      rw [AL.get?_put] at hk0
      by_cases e : k = k'
      · simp only [e, if_true, Option.some.injEq] at hk0
        subst hk0; subst e
        rw [budOf_charge, if_pos rfl]
        exact Nat.le_add_left _ _
      · simp only [e, if_false] at hk0
        exact Nat.le_trans (b.mp k' ve' hk0) (budOf_charge_ge _ _ _ _)
    · intro k' h' ve' o w hin
      rcases List.mem_append.mp hin with hin | hin
      · exact Nat.le_trans (b.up k' h' ve' o w hin) (budOf_charge_ge _ _ _ _)
      · simp only [List.mem_singleton, WOp.upsert.injEq] at hin
        obtain ⟨_, _, rfl, _, rfl⟩ := hin
        rw [budOf_charge, if_pos rfl]
        exact Nat.le_add_left _ _
  | none =>
    dsimp only
    refine ⟨charge bl s.nextId (p.weigh k v), ⟨?_, ?_, ?_⟩, budTotal_charge _ _ _⟩
    · intro i
      simp only [getInfo, AL.get?_put]
      by_cases e : s.nextId = i
      · subst e
        simp only [if_true, Option.getD_some]
        rw [budOf_charge, if_pos rfl]
        exact Nat.le_add_left _ _
      · simp only [e, if_false]
        exact Nat.le_trans (b.wt i) (budOf_charge_ge _ _ _ _)
    · intro k' ve' hk'
      have hk0 : AL.get? (AL.put s.map k
          { id := s.nextId + 1, val := v, info := s.nextId, slot := s.nextId + 1 }) k'
            = some ve' := hk'
      rw [AL.get?_put] at hk0
      by_cases e : k = k'
      · simp only [e, if_true, Option.some.injEq] at hk0
        subst hk0; subst e
        rw [budOf_charge, if_pos rfl]
        exact Nat.le_add_left _ _
      · simp only [e, if_false] at hk0
        exact Nat.le_trans (b.mp k' ve' hk0) (budOf_charge_ge _ _ _ _)
    · intro k' h' ve' o w hin
      rcases List.mem_append.mp hin with hin | hin
      · exact Nat.le_trans (b.up k' h' ve' o w hin) (budOf_charge_ge _ _ _ _)
      · simp only [List.mem_singleton, WOp.upsert.injEq] at hin
        obtain ⟨_, _, rfl, _, rfl⟩ := hin
        rw [budOf_charge, if_pos rfl]
        exact Nat.le_add_left _ _

theorem insert_room {p : Params} (hq : NoQuirks p) (hsm : SmallSketch p) {c : Nat}
    (hcap : p.cap = some c) {s : SState} (h : TInv p s []) {bl : List (Nat × Nat)}
    (b : BInv p s s.writeQ bl) (k v : Nat) (hc : budTotal bl + p.weigh k v ≤ c) :
    SyncOk p (insertMid p s k v).1 ∧
    ∃ bl', BInv p (insert p s k v) (insert p s k v).writeQ bl' ∧
      budTotal bl' ≤ budTotal bl + p.weigh k v := by
  obtain ⟨bl', b0, hle⟩ := insertMid_binv hq b k v
  have t0 := insertMid_t hq h k v
  obtain ⟨h1, h2⟩ := housekeepW_room hq hsm hcap (Nat.le_trans hle hc) t0 b0
  refine ⟨h1, bl', ?_, hle⟩
  rw [insert_eq_mid, scheduleWriteOp3_enqueues p t0.q]
  exact ⟨h2.wt, h2.mp, h2.up⟩

theorem invalidate_room {p : Params} (hq : NoQuirks p) (hsm : SmallSketch p) {c : Nat}
    (hcap : p.cap = some c) {s : SState} (h : TInv p s []) {bl : List (Nat × Nat)}
    (b : BInv p s s.writeQ bl) (k : Nat) (hc : budTotal bl ≤ c) :
    (∀ ve, AL.get? s.map k = some ve → SyncOk p { s with map := AL.erase s.map k }) ∧
    BInv p (invalidate p s k) (invalidate p s k).writeQ bl := by
  unfold invalidate
  cases hg : AL.get? s.map k with
  | none => exact ⟨fun ve hve => (by cases hve), b⟩
  | some ve =>
    dsimp only
    have t0 := invalidateMid_t h hg
    have b0 : BInv p { s with map := AL.erase s.map k }
        (({ s with map := AL.erase s.map k } : SState).writeQ ++ [WOp.remove k ve]) bl := by
      refine ⟨b.wt, ?_, ?_⟩
      · intro k' ve' hk'
        exact b.mp k' ve' ((frame0_erase s k).mapSub h.top.map.kn k' ve' hk')
      · intro k' h' ve' o w hin
        rcases List.mem_append.mp hin with hin | hin
        · exact b.up k' h' ve' o w hin
        · simp only [List.mem_singleton] at hin
          cases hin
    obtain ⟨h1, h2⟩ := housekeepW_room hq hsm hcap hc t0 b0
    refine ⟨fun _ _ => h1, ?_⟩
    rw [scheduleWriteOp3_enqueues p t0.q]
    exact ⟨h2.wt, h2.mp, h2.up⟩

theorem get_state (p : Params) (s : SState) (k : Nat) :
    ∃ op, (get p s k).1 = recordReadOp p s op := by
  unfold get
  dsimp only
  split
  · exact ⟨_, rfl⟩
  · split
    · exact ⟨_, rfl⟩
    · exact ⟨_, rfl⟩

theorem get_room {p : Params} (hq : NoQuirks p) (hsm : SmallSketch p) {c : Nat}
    (hcap : p.cap = some c) {s : SState} (h : TInv p s []) {bl : List (Nat × Nat)}
    (b : BInv p s s.writeQ bl) (k : Nat) (hc : budTotal bl ≤ c) :
    SyncOk p s ∧ BInv p (get p s k).1 (get p s k).1.writeQ bl := by
  have b0 : BInv p s (s.writeQ ++ []) bl := by rw [List.append_nil]; exact b
  obtain ⟨h1, h2⟩ := housekeepR_room hq hsm hcap hc h b0
  rw [List.append_nil] at h2
  refine ⟨h1, ?_⟩
  obtain ⟨op, hop⟩ := get_state p s k
  rw [hop, recordReadOp_enqueues p h.q]
  exact ⟨h2.wt, h2.mp, h2.up⟩

theorem sync_room {p : Params} (hq : NoQuirks p) (hsm : SmallSketch p) {c : Nat}
    (hcap : p.cap = some c) {s : SState} (h : TInv p s []) {bl : List (Nat × Nat)}
    (b : BInv p s s.writeQ bl) (hc : budTotal bl ≤ c) :
    FrameX p s (syncRun p s) ∧ BInv p (syncRun p s) (syncRun p s).writeQ bl := by
  have b0 : BInv p s (s.writeQ ++ []) bl := by rw [List.append_nil]; exact b
  obtain ⟨h1, h2⟩ := syncRun_frameX_room sketchLaws hq hsm hcap [] hc h.top h.c b0
  refine ⟨h1, ?_⟩
  rw [syncRun_writeQ]
  exact h2

/-! ### the invariant of the reachable states when the capacity is never reached -/

/-- The state after the call, when no fault is pending. -/
def stepState (p : Params) (s : SState) : Op → SState
  | .ins k v => insert p s k v
  | .get k => (get p s k).1
  | .inv k => invalidate p s k
  | .invAll => invalidateAll s
  | .sync => syncRun p s
  | .adv d => { s with now := s.now + d }
  | _ => s

theorem step_fst {p : Params} {s : SState} (hf : s.fault = none) (op : Op) :
    (step p s op).1 = stepState p s op := by
  unfold step
  rw [if_neg (by rw [hf]; exact Bool.false_ne_true)]
  cases op <;> (dsimp only [stepState]; split <;> rfl)

/-- Reachable states of a history whose inserts fit into the capacity: the invariants of
`SyncCounters`, and budgets that cover every weight in the state while the capacity still has
room for everything the rest of the history inserts. -/
structure RoomInv (p : Params) (c : Nat) (s : SState) (rest : List Op) : Prop where
  t : TInv p s []
  bud : ∃ bl, BInv p s s.writeQ bl ∧ budTotal bl + Unsync.totalIns p rest ≤ c

theorem roomInv_init (p : Params) (c : Nat) (h : List Op) (hle : Unsync.totalIns p h ≤ c) :
    RoomInv p c {} h :=
  ⟨init_t p, [], ⟨fun i => Nat.le_refl _, fun k ve hk => by simp at hk,
    fun k h' ve o w hin => by cases hin⟩, by simpa [budTotal] using hle⟩

theorem roomInv_ok {p : Params} (hq : NoQuirks p) (hsm : SmallSketch p) {c : Nat}
    (hcap : p.cap = some c) {s : SState} {op : Op} {rest : List Op}
    (h : RoomInv p c s (op :: rest)) : MaintOk p s op := by
  obtain ⟨bl, b, hle⟩ := h.bud
  have hle' : budTotal bl + Unsync.insW p op + Unsync.totalIns p rest ≤ c := by
    have : Unsync.totalIns p (op :: rest) = Unsync.insW p op + Unsync.totalIns p rest := rfl
    omega
  cases op with
  | ins k v =>
    exact (insert_room hq hsm hcap h.t b k v (by simp only [Unsync.insW] at hle'; omega)).1
  | get k => exact (get_room hq hsm hcap h.t b k (by omega)).1
  | inv k => exact (invalidate_room hq hsm hcap h.t b k (by omega)).1
  | sync => exact (sync_room hq hsm hcap h.t b (by omega)).1
  | has k => exact True.intro
  | iter => exact True.intro
  | invAll => exact True.intro
  | invIf pr => exact True.intro
  | adv d => exact True.intro
  | snap => exact True.intro
  | freq k => exact True.intro

theorem roomInv_step {p : Params} (hq : NoQuirks p) (hsm : SmallSketch p) {c : Nat}
    (hcap : p.cap = some c) {s : SState} {op : Op} {rest : List Op}
    (h : RoomInv p c s (op :: rest)) : RoomInv p c (step p s op).1 rest := by
  refine ⟨step_t hq hsm h.t op, ?_⟩
  obtain ⟨bl, b, hle⟩ := h.bud
  have hle' : budTotal bl + Unsync.insW p op + Unsync.totalIns p rest ≤ c := by
    have : Unsync.totalIns p (op :: rest) = Unsync.insW p op + Unsync.totalIns p rest := rfl
    omega
  rw [step_fst h.t.top.nofault]
  cases op with
  | ins k v =>
    obtain ⟨_, bl', b', hb⟩ :=
      insert_room hq hsm hcap h.t b k v (by simp only [Unsync.insW] at hle'; omega)
    exact ⟨bl', b', by simp only [Unsync.insW] at hle'; omega⟩
  | get k => exact ⟨bl, (get_room hq hsm hcap h.t b k (by omega)).2, by omega⟩
  | inv k => exact ⟨bl, (invalidate_room hq hsm hcap h.t b k (by omega)).2, by omega⟩
  | sync => exact ⟨bl, (sync_room hq hsm hcap h.t b (by omega)).2, by omega⟩
  | has k => exact ⟨bl, b, by omega⟩
  | iter => exact ⟨bl, b, by omega⟩
  | invAll => exact ⟨bl, ⟨b.wt, b.mp, b.up⟩, by omega⟩
  | invIf pr => exact ⟨bl, b, by omega⟩
  | adv d => exact ⟨bl, ⟨b.wt, b.mp, b.up⟩, by omega⟩
  | snap => exact ⟨bl, b, by omega⟩
  | freq k => exact ⟨bl, b, by omega⟩

theorem totalInserted_run_sync (p : Params) : ∀ (h : List Op) (s : SState),
    totalInserted p.weigh (run p s h) = Unsync.totalIns p h := by
  intro h
  induction h with
  | nil => intro s; rfl
  | cons op rest ih =>
    intro s
    have hrun : run p s (op :: rest) = (op, (step p s op).2) :: run p (step p s op).1 rest := rfl
    rw [hrun]
    cases op <;> simp [totalInserted, Unsync.totalIns, Unsync.insW, ih]

end Sync
end MiniMoka
