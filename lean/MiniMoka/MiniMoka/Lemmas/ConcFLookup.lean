/-
  The lookup coupling (`ConcS.CoupledC`, Lemmas/ConcSLookup.lean) for the two finer interleaving
  models: `MiniMoka/ConcM.lean` (a maintenance run is a sequence of micro-steps) and
  `MiniMoka/ConcF.lean` (additionally every map access of the application of one queued `Upsert`
  is its own step, current code `Variant.good`).

  Every maintenance micro-step, down to the single map accesses of `handle_upsert`, is a
  `Sync.Frame`: the map only loses bindings, key and `last_modified` of every info are unchanged,
  `last_accessed` only moves forward to the timestamp of a queued hit of that info, the read
  queue only shrinks, clock and watermark are untouched.  `CoupledC` (on the state in which the
  reads threads hold count as queued) is preserved by every frame and — Lemmas/ConcSLookup.lean —
  by every map step / enqueue / tick / `invalidate_all` of every thread.  Nothing else is needed:
  no clause relates the program counter of a run to the map.
-/
import MiniMoka.Lemmas.ConcSLookup
import MiniMoka.Lemmas.ConcF

namespace MiniMoka

/-! ## ConcM -/

namespace ConcM

open Sync Spec ConcS

/-- What an event of `ConcM` / `ConcF` contributes to the linearised trace: the map steps, clock
ticks and `invalidate_all` of the threads as in `ConcS.evObs`; the begin and the micro-steps of a
maintenance run nothing. -/
def evObsM (p : Params) (s : SState) (pd : List (Tid × Pend)) : ConcM.Ev → Option (Op × Obs)
  | .other e => evObs p ⟨s, pd⟩ e
  | .mBegin _ _ => none
  | .mStep _ => none

/-- The linearised trace of a `ConcM` execution (ends at the first step that is not enabled). -/
def linM (p : Params) : MState → List ConcM.Ev → Trace
  | _, [] => []
  | c, e :: rest =>
    match ConcM.step p c e with
    | some c' => (evObsM p c.s c.pending e).toList ++ linM p c' rest
    | none => []

theorem beginRun_frame0 (s : SState) (ex : Bool) : Frame0 s (beginRun s ex) := by
  cases ex
  · exact (frame0_set_running_after s _ _).trans (frame0_set_cec_cws _ _ _)
  · exact frame0_set_cec_cws s _ _

/-- A plain `ConcS` step taken inside `ConcM` / `ConcF`. -/
theorem plain_coupled {p : Params} (hq : NoQuirks p) {s : SState} {pd : List (Tid × Pend)}
    {g : Ghost} (hc : CoupledC p ⟨s, pd⟩ g) (e : ConcS.Ev) {c1 : CState}
    (hs : ConcS.step p ⟨s, pd⟩ e = some c1) :
    (∀ op obs, evObs p ⟨s, pd⟩ e = some (op, obs) →
      stops obs = false ∧ (yields op obs).all (allChecks p g) = true) ∧
    CoupledC p ⟨c1.s, c1.pending⟩ (gstep g (evObs p ⟨s, pd⟩ e)) :=
  step_coupledC hq hc e hs

theorem step_coupledM {p : Params} (hq : NoQuirks p) {c c' : MState} {g : Ghost}
    (hc : CoupledC p ⟨c.s, c.pending⟩ g) (e : ConcM.Ev) (hs : ConcM.step p c e = some c') :
    (∀ op obs, evObsM p c.s c.pending e = some (op, obs) →
      stops obs = false ∧ (yields op obs).all (allChecks p g) = true) ∧
    CoupledC p ⟨c'.s, c'.pending⟩ (gstep g (evObsM p c.s c.pending e)) := by
  cases e with
  | other e =>
    simp only [ConcM.step] at hs
    split at hs
    · cases hcs : ConcS.step p ⟨c.s, c.pending⟩ e with
      | none => rw [hcs] at hs; cases hs
      | some c1 =>
        rw [hcs] at hs
        cases hs
        exact plain_coupled hq hc e hcs
    · cases hs
  | mBegin t ex =>
    refine ⟨fun op obs h => by simp [evObsM] at h, ?_⟩
    show CoupledC p ⟨c'.s, c'.pending⟩ g
    simp only [ConcM.step] at hs
    split at hs
    · split at hs
      · cases hs
      · split at hs
        · cases hs; exact hc
        · cases hs
    · cases hs
      exact coupledC_frame (c := ⟨c.s, c.pending⟩) hc (beginRun_frame0 c.s ex).toFrame rfl
  | mStep t =>
    refine ⟨fun op obs h => by simp [evObsM] at h, ?_⟩
    show CoupledC p ⟨c'.s, c'.pending⟩ g
    simp only [ConcM.step] at hs
    split at hs
    · cases hs
    · rename_i r _
      split at hs
      · cases hs
        exact coupledC_frame (c := ⟨c.s, c.pending⟩) hc
          (ConcF.micro_frame hq r.explicit c.s r.phase).1 rfl
      · cases hs

theorem lookupOracle_linM {p : Params} (hq : NoQuirks p)
    (check : Ghost → Nat × Option Nat → Bool)
    (himp : ∀ g kv, allChecks p g kv = true → check g kv = true) :
    ∀ (evs : List ConcM.Ev) (c : MState) (g : Ghost), CoupledC p ⟨c.s, c.pending⟩ g →
      lookupOracle .sync check g (linM p c evs) = true := by
  intro evs
  induction evs with
  | nil => intro c g _; rfl
  | cons e rest ih =>
    intro c g hc
    simp only [linM]
    cases hs : ConcM.step p c e with
    | none => rfl
    | some c' =>
      obtain ⟨h1, h2⟩ := step_coupledM hq hc e hs
      dsimp only
      cases ho : evObsM p c.s c.pending e with
      | none =>
        rw [ho] at h2
        simpa using ih c' g h2
      | some oo =>
        obtain ⟨op, obs⟩ := oo
        rw [ho] at h2
        obtain ⟨hst, hch⟩ := h1 op obs ho
        simp only [Option.toList, List.cons_append, List.nil_append, lookupOracle, hst,
          Bool.false_eq_true, if_false, Bool.and_eq_true]
        refine ⟨?_, ih c' _ h2⟩
        rw [List.all_eq_true] at hch ⊢
        exact fun kv hkv => himp g kv (hch kv hkv)

end ConcM

/-! ## ConcF -/

namespace ConcF

open Sync Spec ConcS ConcM

/-- The linearised trace of a `ConcF` execution (ends at the first step that is not enabled). -/
def linF (p : Params) (v : Variant) : FState → List ConcM.Ev → Trace
  | _, [] => []
  | c, e :: rest =>
    match ConcF.step p v c e with
    | some c' => (evObsM p c.s c.pending e).toList ++ linF p v c' rest
    | none => []

/-- The program counters of the current code. -/
def goodPc : WPc → Bool
  | .clearDirty _ => true
  | .readCurrent _ => true
  | .dispatch _ _ _ => true
  | .scan _ _ _ _ _ => true
  | .victims _ _ _ _ => true
  | .reject _ _ => true
  | _ => false

/-- Every step of the application of an `Upsert` (current code) is a frame; no invariant of the
reachable states is needed for that. -/
theorem wstep_good_frame0 (p : Params) (s : SState) {pc : WPc} (hg : goodPc pc = true) :
    Frame0 s (wstep p .good s pc).1 := by
  cases pc with
  | clearDirty u =>
    show Frame0 s (withInfo s u.ve.info (fun i => { i with dirty := false }))
    exact frame0_withInfo' _ _ _
  | readCurrent u => exact Frame0.refl s
  | dispatch u nw cur =>
    simp only [wstep]
    split
    · exact applyUpdate_frame0 _ _ _ _ _
    · split
      · exact Frame0.refl s
      · split
        · exact handleAdmit_frame0 _ _ _ _ _ _
        · split
          · exact removeCandidate_frame0 _ _ _ _
          · exact Frame0.refl s
  | scan u nw cf rest acc =>
    have hfin : ∀ a, Frame0 s (finishScan .good s u nw cf a).1 := by
      intro a; unfold finishScan; split <;> exact Frame0.refl s
    cases rest with
    | nil => exact hfin _
    | cons n rest =>
      simp only [wstep]
      split
      · split
        · exact Frame0.refl s
        · split
          · exact hfin _
          · exact Frame0.refl s
      · exact hfin _
  | victims u nw vs sk =>
    cases vs with
    | nil => exact (handleAdmit_frame0 _ _ _ _ _ _).trans (moveSkipped_frame0 _ _)
    | cons n vs =>
      simp only [wstep]
      split
      · exact frame0_fail s _
      · split
        · exact (frame0_erase s n.key).trans (handleRemove_frame0 _ _)
        · exact Frame0.refl s
  | reject u sk => exact (removeCandidate_frame0 _ _ _ _).trans (moveSkipped_frame0 _ _)
  | readCurrentB1 u => simp [goodPc] at hg
  | clearDirtyB1 u nw cur => simp [goodPc] at hg
  | victimsB2 u nw vs sk ev al => simp [goodPc] at hg
  | putBackB2 u ev sk => simp [goodPc] at hg

theorem finishScan_good (s : SState) (u : UOp) (nw cf : Nat) (a : Admission) (pc' : WPc)
    (h : (finishScan .good s u nw cf a).2 = some pc') : goodPc pc' = true := by
  unfold finishScan at h
  split at h
  · simp only [Option.some.injEq] at h; subst h; rfl
  · simp only [Option.some.injEq] at h; subst h; rfl

/-- The current code stays within its own program counters. -/
theorem wstep_good_next (p : Params) (s : SState) {pc : WPc} (hg : goodPc pc = true) (pc' : WPc)
    (h : (wstep p .good s pc).2 = some pc') : goodPc pc' = true := by
  cases pc with
  | clearDirty u => simp only [wstep, Option.some.injEq] at h; subst h; rfl
  | readCurrent u => simp only [wstep, Option.some.injEq] at h; subst h; rfl
  | dispatch u nw cur =>
    simp only [wstep] at h
    split at h
    · cases h
    · split at h
      · cases h
      · split at h
        · cases h
        · split at h
          · cases h
          · simp only [Option.some.injEq] at h; subst h; rfl
  | scan u nw cf rest acc =>
    cases rest with
    | nil => exact finishScan_good _ _ _ _ _ _ h
    | cons n rest =>
      simp only [wstep] at h
      split at h
      · split at h
        · simp only [Option.some.injEq] at h; subst h; rfl
        · split at h
          · exact finishScan_good _ _ _ _ _ _ h
          · simp only [Option.some.injEq] at h; subst h; rfl
      · exact finishScan_good _ _ _ _ _ _ h
  | victims u nw vs sk =>
    cases vs with
    | nil => simp only [wstep] at h; cases h
    | cons n vs =>
      simp only [wstep] at h
      split at h
      · simp only [Option.some.injEq] at h; subst h; rfl
      · split at h
        · simp only [Option.some.injEq] at h; subst h; rfl
        · simp only [Option.some.injEq] at h; subst h; rfl
  | reject u sk => simp only [wstep] at h; cases h
  | readCurrentB1 u => simp [goodPc] at hg
  | clearDirtyB1 u nw cur => simp [goodPc] at hg
  | victimsB2 u nw vs sk ev al => simp [goodPc] at hg
  | putBackB2 u ev sk => simp [goodPc] at hg

/-- One micro-step of a run of `ConcF` (current code): a frame, and the program counter stays
one of the current code's. -/
theorem fmicro_good {p : Params} (hq : NoQuirks p) (ex : Bool) (s : SState) (ph : Phase)
    (w : Option WPc) (hw : ∀ pc, w = some pc → goodPc pc = true) :
    Frame s (fmicro p .good ex s ph w).1 ∧
    ∀ pc', (fmicro p .good ex s ph w).2.2 = some pc' → goodPc pc' = true := by
  cases w with
  | some pc =>
    exact ⟨(wstep_good_frame0 p s (hw pc rfl)).toFrame, wstep_good_next p s (hw pc rfl)⟩
  | none =>
    have hmicro : fmicro p .good ex s ph none = ((micro p ex s ph).1, (micro p ex s ph).2, none) →
        Frame s (fmicro p .good ex s ph none).1 ∧
        ∀ pc', (fmicro p .good ex s ph none).2.2 = some pc' → goodPc pc' = true := by
      intro e
      rw [e]
      exact ⟨(micro_frame hq ex s ph).1, fun pc' h => by cases h⟩
    cases ph with
    | writes f n =>
      cases n with
      | zero => exact hmicro rfl
      | succ n =>
        cases hq' : s.writeQ with
        | nil => exact hmicro (by simp only [fmicro, hq'])
        | cons op rest =>
          cases op with
          | remove k ve => exact hmicro (by simp only [fmicro, hq'])
          | upsert key hash ve oldW newW =>
            have e : fmicro p .good ex s (.writes f (n + 1)) none =
                ({ s with writeQ := rest }, some (.writes f n),
                 some (firstPc .good
                   { key := key, hash := hash, ve := ve, oldW := oldW, newW := newW })) := by
              simp only [fmicro, hq']
            rw [e]
            refine ⟨(frame0_set_writeQ s rest).toFrame, fun pc' h => ?_⟩
            simp only [firstPc, Option.some.injEq] at h
            subst h; rfl
    | reads f n => exact hmicro rfl
    | enable f => exact hmicro rfl
    | expireWo n => exact hmicro rfl
    | expireAo n => exact hmicro rfl
    | lru n wte ev => exact hmicro rfl
    | finish => exact hmicro rfl

/-- The invariant: the coupling of `ConcS` for the cache state and the held operations, and the
run (if any) is at a program counter of the current code. -/
structure CoupledF (p : Params) (c : FState) (g : Ghost) : Prop where
  cpl : CoupledC p ⟨c.s, c.pending⟩ g
  pcs : ∀ r pc, c.run = some r → r.w = some pc → goodPc pc = true

theorem coupledF_init (p : Params) : CoupledF p {} {} :=
  ⟨coupledC_init p, fun _ _ h => by cases h⟩

theorem step_coupledF {p : Params} (hq : NoQuirks p) {c c' : FState} {g : Ghost}
    (hc : CoupledF p c g) (e : ConcM.Ev) (hs : ConcF.step p .good c e = some c') :
    (∀ op obs, evObsM p c.s c.pending e = some (op, obs) →
      stops obs = false ∧ (yields op obs).all (allChecks p g) = true) ∧
    CoupledF p c' (gstep g (evObsM p c.s c.pending e)) := by
  cases e with
  | other e =>
    simp only [ConcF.step] at hs
    split at hs
    · cases hcs : ConcS.step p ⟨c.s, c.pending⟩ e with
      | none => rw [hcs] at hs; cases hs
      | some c1 =>
        rw [hcs] at hs
        cases hs
        have h := plain_coupled hq hc.cpl e hcs
        exact ⟨h.1, h.2, hc.pcs⟩
    · cases hs
  | mBegin t ex =>
    refine ⟨fun op obs h => by simp [evObsM] at h, ?_⟩
    show CoupledF p c' g
    simp only [ConcF.step] at hs
    split at hs
    · split at hs
      · cases hs
      · split at hs
        · cases hs; exact hc
        · cases hs
    · cases hs
      refine ⟨coupledC_frame (c := ⟨c.s, c.pending⟩) hc.cpl (beginRun_frame0 c.s ex).toFrame rfl, ?_⟩
      intro r pc hr hw
      simp only [Option.some.injEq] at hr
      subst hr
      cases hw
  | mStep t =>
    refine ⟨fun op obs h => by simp [evObsM] at h, ?_⟩
    show CoupledF p c' g
    simp only [ConcF.step] at hs
    split at hs
    · cases hs
    · rename_i r hrun
      split at hs
      · cases hs
        have hm := fmicro_good hq r.explicit c.s r.phase r.w (fun pc hw => hc.pcs r pc hrun hw)
        refine ⟨coupledC_frame (c := ⟨c.s, c.pending⟩) hc.cpl hm.1 rfl, ?_⟩
        intro r' pc hr hw
        simp only [Option.map_eq_some_iff] at hr
        obtain ⟨ph, _, hr⟩ := hr
        subst hr
        exact hm.2 pc hw
      · cases hs

theorem lookupOracle_linF {p : Params} (hq : NoQuirks p)
    (check : Ghost → Nat × Option Nat → Bool)
    (himp : ∀ g kv, allChecks p g kv = true → check g kv = true) :
    ∀ (evs : List ConcM.Ev) (c : FState) (g : Ghost), CoupledF p c g →
      lookupOracle .sync check g (linF p .good c evs) = true := by
  intro evs
  induction evs with
  | nil => intro c g _; rfl
  | cons e rest ih =>
    intro c g hc
    simp only [linF]
    cases hs : ConcF.step p .good c e with
    | none => rfl
    | some c' =>
      obtain ⟨h1, h2⟩ := step_coupledF hq hc e hs
      dsimp only
      cases ho : evObsM p c.s c.pending e with
      | none =>
        rw [ho] at h2
        simpa using ih c' g h2
      | some oo =>
        obtain ⟨op, obs⟩ := oo
        rw [ho] at h2
        obtain ⟨hst, hch⟩ := h1 op obs ho
        simp only [Option.toList, List.cons_append, List.nil_append, lookupOracle, hst,
          Bool.false_eq_true, if_false, Bool.and_eq_true]
        refine ⟨?_, ih c' _ h2⟩
        rw [List.all_eq_true] at hch ⊢
        exact fun kv hkv => himp g kv (hch kv hkv)

end ConcF
end MiniMoka
