/-
  C03 part B on the sequential sync model: between two quiescent snapshots (taken right after
  `sync()`), a fresh key that is inserted — possibly several times, the later inserts being
  updates that share the entry info of the first — is retained if its last value fits in the room
  the residents leave, and nothing unexpired is evicted if every inserted value fits.

  The maintenance side (`syncRun_fit`): in a state whose logical write queue holds only upserts
  of one key `k`, whose other entries are entries of the quiescent map `mb`, and in which the
  policy weight of the map's value for `k` is at most `M` with `Σ weights(mb) + M ≤ capacity`, a
  maintenance run does not evict or reject for size (`FrameX`).  The run-local weighted size is
  bounded through the counters invariant `CInv` of `SyncCounters.lean`: every node of the
  access-order list belongs to the map's entry of its key; nodes of other keys weigh what they
  weighed in `mb`; the node of `k` (if admitted) weighs at most `M` once a queued upsert of its
  info has been applied.
-/
import MiniMoka.Lemmas.SyncExact

namespace MiniMoka
namespace Sync

open Spec Counters Nodes

/-! ### admission flags only go down in expiry eviction -/

def ASame (s s' : SState) : Prop :=
  ∀ j, (getInfo s' j).admitted = true → (getInfo s j).admitted = true

theorem ASame.refl (s : SState) : ASame s s := fun _ h => h

theorem ASame.trans {a b c : SState} (h1 : ASame a b) (h2 : ASame b c) : ASame a c :=
  fun j h => h1 j (h2 j h)

theorem asame_of_same {s s' : SState} (h : Same s s') : ASame s s' :=
  fun j hj => by rw [← h.adm j]; exact hj

theorem unlinkAo_adm (s : SState) (i j : Nat) :
    (getInfo (unlinkAo s i) j).admitted = (getInfo s j).admitted := by
  unfold unlinkAo
  split
  · rfl
  · dsimp only
    have h : (getInfo (withInfo s i (fun x => { x with ao := none })) j).admitted =
        (getInfo s j).admitted := by
      rw [getInfo_withInfo]
      by_cases e : i = j
      · rw [if_pos e, e]
      · rw [if_neg e]
    split
    · exact h
    · rw [getInfo_fail]; exact h

theorem handleRemove_asame (s : SState) (ve : VE) : ASame s (handleRemove s ve) := by
  intro j
  unfold handleRemove
  dsimp only
  split
  · rw [((unlinkWo_quiet _ _).2.2.2.2.1 j).2.2.1, unlinkAo_adm, getInfo_subCounters,
      getInfo_withInfo]
    by_cases e : ve.info = j
    · rw [if_pos e]; intro h; cases h
    · rw [if_neg e]; exact id
  · rw [getInfo_withInfo]
    by_cases e : ve.info = j
    · rw [if_pos e, e]; exact id
    · rw [if_neg e]; exact id

theorem evict_asame (s : SState) (k : Nat) (ve : VE) :
    ASame s (handleRemove { s with map := AL.erase s.map k } ve) :=
  handleRemove_asame { s with map := AL.erase s.map k } ve

theorem removeExpiredAo_asame (p : Params) (n : Nat) :
    ∀ (s : SState), ASame s (removeExpiredAo p n s) := by
  induction n with
  | zero => intro s; exact ASame.refl s
  | succ n ih =>
    intro s
    unfold removeExpiredAo
    split
    · exact ASame.refl s
    · split
      · dsimp only
        split
        · exact (evict_asame s _ _).trans (ih _)
        · split
          · exact (asame_of_same (trySkipUpdated_same s _)).trans (ih _)
          · exact asame_of_same (trySkipUpdated_same s _)
      · exact ASame.refl s

theorem removeExpiredWo_asame (p : Params) (n : Nat) :
    ∀ (s : SState), ASame s (removeExpiredWo p n s) := by
  induction n with
  | zero => intro s; exact ASame.refl s
  | succ n ih =>
    intro s
    unfold removeExpiredWo
    split
    · exact ASame.refl s
    · split
      · dsimp only
        split
        · exact (evict_asame s _ _).trans (ih _)
        · split
          · split
            · exact (asame_of_same
                ((moveToBackAoE_same _ _).trans (moveToBackWoE_same _ _))).trans (ih _)
            · exact ASame.refl s
          · exact (asame_of_same (moveNodeToBackWo_same _ _)).trans (ih _)
      · exact ASame.refl s

theorem evictExpired_asame (p : Params) (s : SState) : ASame s (evictExpired p s) := by
  unfold evictExpired
  dsimp only
  split
  · split
    · exact (removeExpiredWo_asame _ _ _).trans (removeExpiredAo_asame _ _ _)
    · exact removeExpiredWo_asame _ _ _
  · split
    · exact removeExpiredAo_asame _ _ _
    · exact ASame.refl s

/-! ### a write queue that holds only upserts of one key -/

def OnlyK (k : Nat) (Q : List WOp) : Prop :=
  ∀ op, op ∈ Q → ∃ h ve o w, op = WOp.upsert k h ve o w

theorem OnlyK.tail {k : Nat} {op : WOp} {Q : List WOp} (h : OnlyK k (op :: Q)) : OnlyK k Q :=
  fun o ho => h o (List.mem_cons_of_mem _ ho)

/-- Every node of the access-order list belongs to the map's entry of its key. -/
theorem node_entry {p : Params} {s : SState} {Q : List WOp} {k : Nat} (g : G p s Q)
    (hk : OnlyK k Q) {n : AoNode} (hn : n ∈ s.prob) :
    ∃ ve, AL.get? s.map n.key = some ve ∧ ve.info = n.info := by
  rcases g.inv.nodeCur n hn with ⟨k', ve, hk', hi⟩ | ⟨k', ve, hq, _⟩
  · have h1 := g.inv.mapKey k' ve hk'
    have h2 := g.inv.nodeKey n hn
    rw [hi, h2] at h1
    exact ⟨ve, by rw [h1]; exact hk', hi⟩
  · obtain ⟨_, _, _, _, e⟩ := hk _ hq
    cases e

/-- Nodes of other keys carry the policy weight of the map's value. -/
theorem node_weight {p : Params} {s : SState} {Q : List WOp} {k : Nat} (g : G p s Q)
    (hk : OnlyK k Q) {n : AoNode} (hne : n.key ≠ k) {ve : VE}
    (hve : AL.get? s.map n.key = some ve) (hi : ve.info = n.info) :
    (getInfo s n.info).weight = p.weigh n.key ve.val := by
  rcases g.inv.cur n.key ve hve with ⟨h, o, w, hq⟩ | ⟨_, hw⟩
  · obtain ⟨_, _, _, _, e⟩ := hk _ hq
    simp only [WOp.upsert.injEq] at e
    exact absurd e.1 hne
  · rw [← hi]; exact hw

theorem node_keys_nodup {p : Params} {s : SState} {Q : List WOp} {k : Nat} (g : G p s Q)
    (hk : OnlyK k Q) : (s.prob.map (·.key)).Nodup := by
  refine nodup_map_of (·.key) (·.id) s.prob g.safe.probIds ?_
  intro a ha b hb e
  obtain ⟨va, h1, i1⟩ := node_entry g hk ha
  obtain ⟨vb, h2, i2⟩ := node_entry g hk hb
  have e' : a.key = b.key := e
  rw [e', h2] at h1
  have : vb = va := Option.some.inj h1
  subst this
  exact g.safe.toNodesCore.info_inj ha hb (i1.symm.trans i2)

/-! ### budgets by key: the policy weights of a quiescent map -/

def blOf (p : Params) (mb : List (Nat × VE)) : List (Nat × Nat) :=
  mb.map fun kv => (kv.1, p.weigh kv.1 kv.2.val)

theorem budOf_blOf (p : Params) (mb : List (Nat × VE)) (k : Nat) :
    budOf (blOf p mb) k = match AL.get? mb k with
      | some ve => p.weigh k ve.val
      | none => 0 := by
  induction mb with
  | nil => rfl
  | cons a mb ih =>
    obtain ⟨k', ve⟩ := a
    simp only [blOf, List.map_cons]
    rw [budOf_cons, AL.get?_cons]
    by_cases e : k' = k
    · rw [if_pos e, if_pos e, e]
    · rw [if_neg e, if_neg e]; exact ih

theorem budTotal_blOf (p : Params) (mb : List (Nat × VE)) :
    budTotal (blOf p mb) = (mb.map fun kv => p.weigh kv.1 kv.2.val).sum := by
  induction mb with
  | nil => rfl
  | cons a mb ih =>
    simp only [blOf, List.map_cons, budTotal, List.sum_cons]
    rw [← ih]; rfl

/-- The accounted weight of the map's entry of `k`. -/
def kwOf (s : SState) (k : Nat) : Nat :=
  match AL.get? s.map k with
  | some ve => if (getInfo s ve.info).admitted then (getInfo s ve.info).weight else 0
  | none => 0

/-- Entries of other keys are entries of the quiescent map `mb`. -/
def OthersIn (k : Nat) (mb : List (Nat × VE)) (s : SState) : Prop :=
  ∀ k' ve, k' ≠ k → AL.get? s.map k' = some ve → AL.get? mb k' = some ve

/-- The run-local weighted size is what the other keys weighed in `mb` plus what is accounted
for `k`. -/
theorem cws_bound_k {p : Params} {s : SState} {Q : List WOp} {k : Nat} {mb : List (Nat × VE)}
    (g : G p s Q) (hk : OnlyK k Q) (ho : OthersIn k mb s) :
    s.cws ≤ budTotal (blOf p mb) + kwOf s k := by
  have h1 : wsumOf s ≤
      ((s.prob.map (·.key)).map (budOf ((k, kwOf s k) :: blOf p mb))).sum := by
    unfold wsumOf
    rw [List.map_map]
    refine sum_map_le _ _ _ ?_
    intro n hn
    obtain ⟨ve, hve, hi⟩ := node_entry g hk hn
    show (getInfo s n.info).weight ≤ budOf ((k, kwOf s k) :: blOf p mb) n.key
    rw [budOf_cons]
    by_cases e : k = n.key
    · rw [if_pos e]
      have hadm : (getInfo s n.info).admitted = true :=
        (g.safe.admIff n.info).mpr (by rw [g.safe.probOwn n hn]; rfl)
      unfold kwOf
      rw [e, hve]
      simp only [hi, hadm, if_true]
      exact Nat.le_refl _
    · rw [if_neg e, budOf_blOf, ho n.key ve (fun h => e h.symm) hve]
      rw [node_weight g hk (fun h => e h.symm) hve hi]
      exact Nat.le_refl _
  have h2 := sum_budOf_le ((k, kwOf s k) :: blOf p mb) (s.prob.map (·.key))
    (node_keys_nodup g hk)
  rw [g.inv.wsum]
  simp only [budTotal] at h2
  omega

/-! ### a maintenance run in which everything fits -/

/-- The weight accounted for the map's entry of `k` is at most `M`, unless an upsert of its info
is still in the (physical) queue `PQ`. -/
def KW (k M : Nat) (s : SState) (PQ : List WOp) : Prop :=
  ∀ ve, AL.get? s.map k = some ve → (getInfo s ve.info).admitted = true →
    (getInfo s ve.info).weight ≤ M ∨
      ∃ h ve' o w, WOp.upsert k h ve' o w ∈ PQ ∧ ve'.info = ve.info

theorem KW.same {k M : Nat} {s s' : SState} (h : KW k M s s.writeQ) (hs : Same s s')
    (hq : s'.writeQ = s.writeQ) : KW k M s' s'.writeQ := by
  intro ve hve hadm
  rw [hs.map] at hve
  rw [hs.adm] at hadm
  rw [hs.weight, hq]
  exact h ve hve hadm

theorem applyUpdate_adm (p : Params) (s : SState) (ve : VE) (oldW nw j : Nat) :
    (getInfo (applyUpdate p s ve oldW nw) j).admitted = (getInfo s j).admitted := by
  unfold applyUpdate
  dsimp only
  rw [(moveToBackWoE_same _ _).adm, (moveToBackAoE_same _ _).adm]
  split
  · rw [getInfo_addCounters, getInfo_subCounters]
  · rw [getInfo_withInfo]
    by_cases e : ve.info = j
    · rw [if_pos e, getInfo_addCounters, getInfo_subCounters, e]
    · rw [if_neg e, getInfo_addCounters, getInfo_subCounters]

theorem handleUpsert_fit {p : Params} (hq : NoQuirks p) {c : Nat} (hcap : p.cap = some c)
    {k M : Nat} {mb : List (Nat × VE)} (hB : budTotal (blOf p mb) + M ≤ c)
    {s : SState} {Q : List WOp} {hash : UInt64} {ve : VE} {oldW newW : Nat}
    (g : G p s (WOp.upsert k hash ve oldW newW :: Q))
    (hk : OnlyK k (WOp.upsert k hash ve oldW newW :: Q)) (ho : OthersIn k mb s)
    (hm : ∀ cur, AL.get? s.map k = some cur → p.weigh k cur.val ≤ M) :
    (handleUpsert p s k hash ve oldW newW).map = s.map ∧
    (∀ j, j ≠ ve.info →
      (getInfo (handleUpsert p s k hash ve oldW newW) j).weight = (getInfo s j).weight ∧
      (getInfo (handleUpsert p s k hash ve oldW newW) j).admitted = (getInfo s j).admitted) ∧
    (∀ cur, AL.get? s.map k = some cur → cur.info = ve.info →
      (getInfo (handleUpsert p s k hash ve oldW newW) ve.info).admitted = true →
      (getInfo (handleUpsert p s k hash ve oldW newW) ve.info).weight ≤ M) := by
  have hd8 : p.q.d8 = false := by rw [hq]
  have hd7 : p.q.d7 = false := by rw [hq]
  have hd10 : p.q.d10 = false := by rw [hq]
  have hnw : ∀ cur, AL.get? s.map k = some cur → cur.info = ve.info →
      currentWeight p s k ve newW = p.weigh k cur.val := by
    intro cur hc hi
    unfold currentWeight
    rw [hd10, hc]
    simp [hi]
  unfold handleUpsert
  dsimp only
  generalize currentWeight p s k ve newW = nw at hnw ⊢
  have h0m : (withInfo s ve.info (fun i => { i with dirty := false })).map = s.map := rfl
  have h0c : (withInfo s ve.info (fun i => { i with dirty := false })).cws = s.cws := rfl
  have h0g : ∀ j, (getInfo (withInfo s ve.info (fun i => { i with dirty := false })) j).weight =
      (getInfo s j).weight ∧
      (getInfo (withInfo s ve.info (fun i => { i with dirty := false })) j).admitted =
      (getInfo s j).admitted := by
    intro j; rw [getInfo_withInfo]; by_cases e : ve.info = j
    · rw [if_pos e, e]; exact ⟨rfl, rfl⟩
    · rw [if_neg e]; exact ⟨rfl, rfl⟩
  generalize withInfo s ve.info (fun i => { i with dirty := false }) = s1 at h0m h0c h0g ⊢
  by_cases c1 : (getInfo s1 ve.info).admitted = true
  · rw [if_pos c1]
    refine ⟨by rw [applyUpdate_map, h0m], ?_, ?_⟩
    · intro j hj
      rw [applyUpdate_weight hd8, if_neg (fun e => hj e.symm), applyUpdate_adm]
      exact h0g j
    · intro cur hc hi _
      rw [applyUpdate_weight hd8, if_pos rfl, hnw cur hc hi]
      exact hm cur hc
  · rw [if_neg c1]
    by_cases c2 : (!p.q.d7 && !isCurrentEntry s1 k ve) = true
    · rw [if_pos c2]
      exact ⟨h0m, fun j _ => h0g j, fun _ _ _ ha => absurd ha c1⟩
    · rw [if_neg c2]
      obtain ⟨cur, hc1, hci⟩ : ∃ cur, AL.get? s1.map k = some cur ∧ cur.info = ve.info := by
        rw [hd7] at c2
        unfold isCurrentEntry at c2
        cases hg : AL.get? s1.map k with
        | none => rw [hg] at c2; simp at c2
        | some cur =>
          rw [hg] at c2
          exact ⟨cur, rfl, by simpa using c2⟩
      have hc : AL.get? s.map k = some cur := by rw [← h0m]; exact hc1
      have hna : (getInfo s ve.info).admitted = false := by
        rw [← (h0g ve.info).2]
        cases hx : (getInfo s1 ve.info).admitted with
        | false => rfl
        | true => exact absurd hx c1
      have hb := cws_bound_k g hk ho
      have hkw : kwOf s k = 0 := by
        unfold kwOf
        rw [hc]
        simp only [hci, hna, Bool.false_eq_true, if_false]
      have hnwM : nw ≤ M := by rw [hnw cur hc hci]; exact hm cur hc
      have c3 : hasEnoughCapacity p nw s1 = true := by
        unfold hasEnoughCapacity
        rw [hcap]
        simp only [decide_eq_true_eq]
        rw [h0c]; omega
      rw [if_pos c3]
      obtain ⟨a1, _, a3, _, a5, _⟩ := handleAdmit_spec hd8 s1 k hash ve nw
      refine ⟨by rw [a1, h0m], ?_, ?_⟩
      · intro j hj
        rw [a3 j hj]; exact h0g j
      · intro _ _ _ _
        rw [a5]; exact hnwM

theorem applyWrites_fit {p : Params} (hq : NoQuirks p) {c : Nat} (hcap : p.cap = some c)
    {k M : Nat} {mb : List (Nat × VE)} (hB : budTotal (blOf p mb) + M ≤ c) (ex : List WOp)
    (n : Nat) :
    ∀ (s : SState), G p s (s.writeQ ++ ex) → OnlyK k (s.writeQ ++ ex) → OthersIn k mb s →
      (∀ cur, AL.get? s.map k = some cur → p.weigh k cur.val ≤ M) → KW k M s s.writeQ →
      (applyWrites p n s).map = s.map ∧
      KW k M (applyWrites p n s) (applyWrites p n s).writeQ := by
  induction n with
  | zero => intro s _ _ _ _ hw; exact ⟨rfl, hw⟩
  | succ n ih =>
    intro s g hk ho hm hw
    unfold applyWrites
    split
    · exact ⟨rfl, hw⟩
    · rename_i op rest hwq
      rw [hwq] at g hk hw
      obtain ⟨hash, ve, oldW, newW, hop⟩ := hk op List.mem_cons_self
      subst hop
      have g0 : G p { s with writeQ := rest } (WOp.upsert k hash ve oldW newW :: (rest ++ ex)) :=
        ⟨safe_setWriteQ g.safe rest, ⟨g.map.kn, g.map.bound⟩,
          g.inv.same (same_of_eq rfl rfl rfl rfl rfl rfl)⟩
      have g1 := applyWrite_g hq _ g0
      obtain ⟨m1, f2, f3⟩ := handleUpsert_fit hq hcap hB g0 hk ho hm
      have hq1 : (applyWrite p { s with writeQ := rest } (WOp.upsert k hash ve oldW newW)).writeQ
          = rest := (applyWrite_qframe p { s with writeQ := rest } _).writeQ
      have m1' : (applyWrite p { s with writeQ := rest } (WOp.upsert k hash ve oldW newW)).map
          = s.map := m1
      have hw1 : KW k M (applyWrite p { s with writeQ := rest } (WOp.upsert k hash ve oldW newW))
          rest := by
        intro cur hcur hadm
        have hcur0 : AL.get? s.map k = some cur := by rw [← m1']; exact hcur
        by_cases e : cur.info = ve.info
        · left
          rw [e] at hadm ⊢
          exact f3 cur hcur0 e hadm
        · obtain ⟨e1, e2⟩ := f2 cur.info e
          have hadm0 : (getInfo s cur.info).admitted = true := by
            have : (getInfo (handleUpsert p { s with writeQ := rest } k hash ve oldW newW)
                cur.info).admitted = true := hadm
            rw [e2] at this; exact this
          rcases hw cur hcur0 hadm0 with h | ⟨h', ve', o, w, hin, hi⟩
          · left
            show (getInfo (handleUpsert p { s with writeQ := rest } k hash ve oldW newW)
              cur.info).weight ≤ M
            rw [e1]; exact h
          · right
            rcases List.mem_cons.mp hin with hin | hin
            · simp only [WOp.upsert.injEq] at hin
              obtain ⟨_, _, rfl, _, _⟩ := hin
              exact absurd hi.symm e
            · exact ⟨h', ve', o, w, hin, hi⟩
      obtain ⟨m2, w2⟩ := ih _ (by rw [hq1]; exact g1) (by rw [hq1]; exact hk.tail)
        (fun k' v hne hv => ho k' v hne (by rw [← m1']; exact hv))
        (fun cur hcur => hm cur (by rw [← m1']; exact hcur)) (by rw [hq1]; exact hw1)
      exact ⟨m2.trans m1', w2⟩

theorem syncLoop_fit {P : Sketch → Prop} (L : SketchLaws P) {p : Params} (hq : NoQuirks p)
    (hsm : SmallSketch p) {c : Nat} (hcap : p.cap = some c) {k M : Nat} {mb : List (Nat × VE)}
    (hB : budTotal (blOf p mb) + M ≤ c) (ex : List WOp) (n : Nat) :
    ∀ (s : SState), RunInv P s → CInv p s (s.writeQ ++ ex) → OnlyK k (s.writeQ ++ ex) →
      OthersIn k mb s → (∀ cur, AL.get? s.map k = some cur → p.weigh k cur.val ≤ M) →
      KW k M s s.writeQ →
      (syncLoop p n s).map = s.map ∧ KW k M (syncLoop p n s) (syncLoop p n s).writeQ ∧
      OnlyK k ((syncLoop p n s).writeQ ++ ex) := by
  induction n with
  | zero => intro s _ _ hk _ _ hw; exact ⟨rfl, hw, hk⟩
  | succ n ih =>
    intro s h hci hk ho hm hw
    unfold syncLoop
    dsimp only
    have h1 : (RunInv P (if s.readQ.length > 0 then applyReads p s.readQ.length s else s) ∧
        CInv p (if s.readQ.length > 0 then applyReads p s.readQ.length s else s)
          ((if s.readQ.length > 0 then applyReads p s.readQ.length s else s).writeQ ++ ex)) ∧
        (if s.readQ.length > 0 then applyReads p s.readQ.length s else s).map = s.map ∧
        (if s.readQ.length > 0 then applyReads p s.readQ.length s else s).writeQ = s.writeQ ∧
        KW k M (if s.readQ.length > 0 then applyReads p s.readQ.length s else s)
          (if s.readQ.length > 0 then applyReads p s.readQ.length s else s).writeQ := by
      split
      · obtain ⟨a, b'⟩ := applyReads_inv L hq s.readQ.length s h.safe h.sk
        refine ⟨⟨⟨a, h.map.frame (applyReads_frame hq _ _), b'⟩, ?_⟩,
          (applyReads_same p _ s).map, applyReads_writeQ _ _ _,
          hw.same (applyReads_same p _ s) (applyReads_writeQ _ _ _)⟩
        rw [applyReads_writeQ]
        exact hci.same (applyReads_same p _ s)
      · exact ⟨⟨h, hci⟩, rfl, rfl, hw⟩
    generalize (if s.readQ.length > 0 then applyReads p s.readQ.length s else s) = s1 at h1 ⊢
    obtain ⟨h1, m1, q1, w1⟩ := h1
    have hk1 : OnlyK k (s1.writeQ ++ ex) := by rw [q1]; exact hk
    have ho1 : OthersIn k mb s1 := fun k' v hne hv => ho k' v hne (by rw [← m1]; exact hv)
    have hm1 : ∀ cur, AL.get? s1.map k = some cur → p.weigh k cur.val ≤ M :=
      fun cur hcur => hm cur (by rw [← m1]; exact hcur)
    have h2 : (RunInv P (if s1.writeQ.length > 0 then applyWrites p s1.writeQ.length s1 else s1) ∧
        CInv p (if s1.writeQ.length > 0 then applyWrites p s1.writeQ.length s1 else s1)
          ((if s1.writeQ.length > 0 then applyWrites p s1.writeQ.length s1 else s1).writeQ
            ++ ex)) ∧
        (if s1.writeQ.length > 0 then applyWrites p s1.writeQ.length s1 else s1).map = s1.map ∧
        KW k M (if s1.writeQ.length > 0 then applyWrites p s1.writeQ.length s1 else s1)
          (if s1.writeQ.length > 0 then applyWrites p s1.writeQ.length s1 else s1).writeQ ∧
        OnlyK k ((if s1.writeQ.length > 0 then applyWrites p s1.writeQ.length s1
          else s1).writeQ ++ ex) := by
      split
      · have g0 : G p s1 (s1.writeQ ++ ex) := ⟨h1.1.safe, h1.1.map, h1.2⟩
        have g := applyWrites_g hq ex s1.writeQ.length s1 g0
        obtain ⟨m, w'⟩ := applyWrites_fit hq hcap hB ex s1.writeQ.length s1 g0 hk1 ho1 hm1 w1
        refine ⟨⟨⟨g.safe, g.map, h1.1.sk.same (applyWrites_sk _ _ _)⟩, g.inv⟩, m, w', ?_⟩
        rw [applyWrites_writeQ]
        intro op hop
        rcases List.mem_append.mp hop with hop | hop
        · exact hk1 op (List.mem_append_left _ (List.mem_of_mem_drop hop))
        · exact hk1 op (List.mem_append_right _ hop)
      · exact ⟨h1, rfl, w1, hk1⟩
    generalize (if s1.writeQ.length > 0 then applyWrites p s1.writeQ.length s1 else s1) = s2
      at h2 ⊢
    obtain ⟨h2, m2, w2, hk2⟩ := h2
    have h3 : (RunInv P (if shouldEnableSketch p s2 = true then enableSketch p s2 else s2) ∧
        CInv p (if shouldEnableSketch p s2 = true then enableSketch p s2 else s2)
          ((if shouldEnableSketch p s2 = true then enableSketch p s2 else s2).writeQ ++ ex)) ∧
        (if shouldEnableSketch p s2 = true then enableSketch p s2 else s2).map = s2.map ∧
        KW k M (if shouldEnableSketch p s2 = true then enableSketch p s2 else s2)
          (if shouldEnableSketch p s2 = true then enableSketch p s2 else s2).writeQ ∧
        OnlyK k ((if shouldEnableSketch p s2 = true then enableSketch p s2
          else s2).writeQ ++ ex) := by
      split
      · rename_i hen
        refine ⟨⟨⟨enableSketch_safe p h2.1.safe, h2.1.map.frame0 (enableSketch_frame0 _ _),
          enableSketch_skOK L hsm h2.1.sk hen⟩, ?_⟩, (enableSketch_same p s2).map,
          w2.same (enableSketch_same p s2) (enableSketch_qframe p s2).writeQ, ?_⟩
        · rw [(enableSketch_qframe p s2).writeQ]
          exact h2.2.same (enableSketch_same p s2)
        · rw [(enableSketch_qframe p s2).writeQ]; exact hk2
      · exact ⟨h2, rfl, w2, hk2⟩
    generalize (if shouldEnableSketch p s2 = true then enableSketch p s2 else s2) = s3 at h3 ⊢
    obtain ⟨h3, m3, w3, hk3⟩ := h3
    have hm3 : s3.map = s.map := m3.trans (m2.trans m1)
    split
    · obtain ⟨m4, w4, hk4⟩ := ih _ h3.1 h3.2 hk3
        (fun k' v hne hv => ho k' v hne (by rw [← hm3]; exact hv))
        (fun cur hcur => hm cur (by rw [← hm3]; exact hcur)) w3
      exact ⟨m4.trans hm3, w4, hk4⟩
    · exact ⟨hm3, w3, hk3⟩

/-- A maintenance run in a state where only upserts of `k` are pending, the other entries are
those of the quiescent map `mb` and the value the map holds for `k` fits: nothing is evicted or
rejected for size. -/
theorem syncRun_fit {P : Sketch → Prop} (L : SketchLaws P) {p : Params} (hq : NoQuirks p)
    (hsm : SmallSketch p) {c : Nat} (hcap : p.cap = some c) {k M : Nat} {mb : List (Nat × VE)}
    (hB : budTotal (blOf p mb) + M ≤ c) {s : SState} (ex : List WOp) (h : TopInv P s)
    (hct : CTop p s (s.writeQ ++ ex)) (hk : OnlyK k (s.writeQ ++ ex)) (ho : OthersIn k mb s)
    (hm : ∀ cur, AL.get? s.map k = some cur → p.weigh k cur.val ≤ M)
    (hw : KW k M s s.writeQ) : FrameX p s (syncRun p s) := by
  refine ⟨syncRun_frame hq s, (syncRun_frameA hq s).applied, fun _ k0 ve hk0 => ?_⟩
  suffices hs : AL.get? (syncRun p s).map k0 = some ve ∨
      isExpiredInfo p (syncRun p s) (getInfo (syncRun p s) ve.info) (syncRun p s).now = true by
    rcases hs with hh | hh
    · exact Or.inl hh
    · exact Or.inr ⟨syncRun_readQ p s, hh⟩
  unfold syncRun
  dsimp only
  have h0 : RunInv P { s with cec := s.ec, cws := s.ws } :=
    ⟨⟨⟨h.nodes.toNodesCore.congr (fun _ => rfl) (fun _ => rfl) (fun _ => rfl) (List.Perm.refl _)
        (List.Perm.refl _) (Nat.le_refl _), h.nodes.count⟩, h.nofault⟩,
     ⟨h.map.kn, h.map.bound⟩, ⟨h.sk.sk, h.sk.skOff⟩⟩
  have h1 := syncLoop_g L hq hsm ex (Gen.MAX_SYNC_REPEATS + 1) _ h0 hct
  have r1 := syncLoop_fit L hq hsm hcap hB ex (Gen.MAX_SYNC_REPEATS + 1)
    { s with cec := s.ec, cws := s.ws } h0 hct hk ho hm hw
  have hq1 := (syncLoop_queues p Gen.MAX_SYNC_REPEATS { s with cec := s.ec, cws := s.ws }).1
  generalize syncLoop p (Gen.MAX_SYNC_REPEATS + 1) { s with cec := s.ec, cws := s.ws } = s1
    at h1 r1 hq1 ⊢
  rw [hq1, List.nil_append] at h1
  obtain ⟨m1, w1, hk1⟩ := r1
  rw [hq1] at w1
  rw [hq1, List.nil_append] at hk1
  have g1 : G p s1 ex := ⟨h1.1.safe, h1.1.map, h1.2⟩
  have g2 : G p (if (p.hasExpiry || s1.va.isSome) = true then evictExpired p s1 else s1) ex ∧
      Kept p s1 (if (p.hasExpiry || s1.va.isSome) = true then evictExpired p s1 else s1) ∧
      Frame0 s1 (if (p.hasExpiry || s1.va.isSome) = true then evictExpired p s1 else s1) ∧
      WSame s1 (if (p.hasExpiry || s1.va.isSome) = true then evictExpired p s1 else s1) ∧
      ASame s1 (if (p.hasExpiry || s1.va.isSome) = true then evictExpired p s1 else s1) := by
    split
    · exact ⟨evictExpired_g g1, evictExpired_kept _ _, evictExpired_frame0 _ _,
        evictExpired_wsame _ _, evictExpired_asame _ _⟩
    · exact ⟨g1, Kept.of_map_eq rfl, Frame0.refl _, WSame.refl _, ASame.refl _⟩
  generalize (if (p.hasExpiry || s1.va.isSome) = true then evictExpired p s1 else s1) = s2
    at g2 ⊢
  obtain ⟨g2, k2, f2, ws2, as2⟩ := g2
  have ho2 : OthersIn k mb s2 := by
    intro k' v hne hv
    have := f2.mapSub g1.map.kn k' v hv
    rw [m1] at this
    exact ho k' v hne this
  have hb := cws_bound_k g2 hk1 ho2
  have hkw : kwOf s2 k ≤ M := by
    unfold kwOf
    cases hc2 : AL.get? s2.map k with
    | none => exact Nat.zero_le _
    | some cur =>
      dsimp only
      by_cases ha : (getInfo s2 cur.info).admitted = true
      · rw [if_pos ha, ws2 cur.info]
        rcases w1 cur (f2.mapSub g1.map.kn k cur hc2) (as2 _ ha) with hh | ⟨_, _, _, _, hin, _⟩
        · exact hh
        · cases hin
      · rw [if_neg ha]; exact Nat.zero_le _
  have hw0 : weightsToEvict p s2 = 0 := by
    unfold weightsToEvict; rw [hcap]; simp only; omega
  rw [if_neg (by rw [hw0]; exact Nat.lt_irrefl 0)]
  have hk1' : AL.get? s1.map k0 = some ve := by rw [m1]; exact hk0
  rcases k2 g1.map.kn k0 ve hk1' with hh | hh
  · exact Or.inl hh
  · right
    have := isExpiredInfo_frame0 p f2 ve.info
    show isExpiredInfo p s2 (getInfo s2 ve.info) s2.now = true
    rw [this]; exact hh

/-! ### the watermark never lies in the future -/

def VaLe (s : SState) : Prop := ∀ v, s.va = some v → v ≤ s.now

theorem VaLe.frame {s s' : SState} (h : VaLe s) (hf : Frame s s') : VaLe s' := by
  intro v hv
  rw [hf.va] at hv
  rw [hf.now]
  exact h v hv

theorem VaLe.of_eq {s s' : SState} (h : VaLe s) (hv : s'.va = s.va) (hn : s'.now = s.now) :
    VaLe s' := by
  intro v hv'
  rw [hv] at hv'
  rw [hn]
  exact h v hv'

theorem insertMid_va_now (p : Params) (s : SState) (k v : Nat) :
    (insertMid p s k v).1.va = s.va ∧ (insertMid p s k v).1.now = s.now := by
  unfold insertMid
  cases AL.get? s.map k <;> exact ⟨rfl, rfl⟩

theorem recordReadOp_vaLe {p : Params} (hq : NoQuirks p) {s : SState} (h : VaLe s) (op : ROp) :
    VaLe (recordReadOp p s op) := by
  unfold recordReadOp
  dsimp only
  have h1 : VaLe (if shouldApply s s.readQ.length Gen.READ_LOG_FLUSH_POINT = true
      then trySync p s else s) := by
    split
    · exact h.frame (trySync_frame hq s)
    · exact h
  generalize (if shouldApply s s.readQ.length Gen.READ_LOG_FLUSH_POINT = true
      then trySync p s else s) = s1 at h1 ⊢
  split
  · exact h1.of_eq rfl rfl
  · exact h1

theorem vaLe_step {p : Params} (hq : NoQuirks p) {s : SState} (h : VaLe s) (op : Op) :
    VaLe (step p s op).1 := by
  unfold step
  split
  · exact h
  · have key : ∀ (r : SState × Obs), VaLe r.1 → VaLe (match r.1.fault with
        | some f => (r.1, Obs.panic f)
        | none => r).1 := by
      intro r hr; split <;> exact hr
    apply key
    cases op with
    | ins k v =>
      show VaLe (insert p s k v)
      rw [insert_eq_mid]
      exact (h.of_eq (insertMid_va_now p s k v).1 (insertMid_va_now p s k v).2).frame
        (scheduleWriteOp_frame hq 3 _ _)
    | get k =>
      show VaLe (get p s k).1
      unfold get
      dsimp only
      split
      · exact recordReadOp_vaLe hq h _
      · split
        · exact recordReadOp_vaLe hq h _
        · exact recordReadOp_vaLe hq h _
    | has k => exact h
    | iter => exact h
    | inv k =>
      show VaLe (invalidate p s k)
      unfold invalidate
      split
      · exact h
      · dsimp only
        exact (h.of_eq (s' := { s with map := AL.erase s.map k }) rfl rfl).frame
          (scheduleWriteOp_frame hq 3 _ _)
    | invAll =>
      intro v hv
      simp only [invalidateAll, Option.some.injEq] at hv
      subst hv
      exact Nat.le_refl _
    | invIf pr => exact h
    | sync => exact h.frame (syncRun_frame hq s)
    | adv d =>
      intro v hv
      exact Nat.le_trans (h v hv) (Nat.le_add_right _ _)
    | snap => exact h
    | freq k => exact h

/-! ### states inside a window: after `sync`, only inserts of one fresh key -/

/-- `s` is reached from the quiescent state `sb` by inserts of `k` only (with the maintenance
runs they start). -/
structure Seg (p : Params) (k : Nat) (sb s : SState) : Prop where
  t : TInv p s []
  vl : VaLe s
  qk : OnlyK k s.writeQ
  rq : s.readQ = []
  now : s.now = sb.now
  va : s.va = sb.va
  os : ∀ k' ve, k' ≠ k → AL.get? s.map k' = some ve →
    AL.get? sb.map k' = some ve ∧ (getInfo s ve.info).la = (getInfo sb ve.info).la ∧
      (getInfo s ve.info).lm = (getInfo sb ve.info).lm
  s1 : ∀ ve, AL.get? s.map k = some ve → (∃ h o w, WOp.upsert k h ve o w ∈ s.writeQ) ∧
    (getInfo s ve.info).la = s.now ∧ (getInfo s ve.info).lm = s.now

theorem seg_init {p : Params} {k : Nat} {sb : SState} (ht : TInv p sb []) (hv : VaLe sb)
    (hw : sb.writeQ = []) (hr : sb.readQ = []) (hk : AL.get? sb.map k = none) :
    Seg p k sb sb :=
  ⟨ht, hv, fun op hop => (by rw [hw] at hop; cases hop), hr, rfl, rfl,
    fun _ _ _ h => ⟨h, rfl, rfl⟩, fun ve hve => (by rw [hk] at hve; cases hve)⟩

theorem Seg.othersIn {p : Params} {k : Nat} {sb s : SState} (h : Seg p k sb s) :
    OthersIn k sb.map s := fun k' ve hne hve => (h.os k' ve hne hve).1

/-- Entries of other keys that the quiescent state held are still there, or are expired. -/
def KeptB (p : Params) (k : Nat) (sb s : SState) : Prop :=
  ∀ k' ve, k' ≠ k → AL.get? sb.map k' = some ve →
    AL.get? s.map k' = some ve ∨ isExpiredInfo p sb (getInfo sb ve.info) sb.now = true

theorem insertMid_facts {p : Params} {k : Nat} {sb s : SState} (h : Seg p k sb s) (v : Nat) :
    ∃ veN oldW, (insertMid p s k v).2 = WOp.upsert k (p.hash k) veN oldW (p.weigh k v) ∧
      veN.val = v ∧
      (insertMid p s k v).1.map = AL.put s.map k veN ∧
      (insertMid p s k v).1.writeQ = s.writeQ ∧ (insertMid p s k v).1.readQ = s.readQ ∧
      (getInfo (insertMid p s k v).1 veN.info).la = s.now ∧
      (getInfo (insertMid p s k v).1 veN.info).lm = s.now ∧
      (∀ k' ve, k' ≠ k → AL.get? s.map k' = some ve →
        getInfo (insertMid p s k v).1 ve.info = getInfo s ve.info) ∧
      (∀ M, KW k M (insertMid p s k v).1 s.writeQ) := by
  have hc := h.t.cinv
  unfold insertMid
  cases hk : AL.get? s.map k with
  | some old =>
    dsimp only
    have hself : (getInfo (refreshInfo p s old.info s.now (p.weigh k v)) old.info).la = s.now ∧
        (getInfo (refreshInfo p s old.info s.now (p.weigh k v)) old.info).lm = s.now := by
      unfold refreshInfo; rw [getInfo_withInfo, if_pos rfl]; exact ⟨rfl, rfl⟩
    have hoth : ∀ j, old.info ≠ j →
        getInfo (refreshInfo p s old.info s.now (p.weigh k v)) j = getInfo s j := by
      intro j hj; unfold refreshInfo; rw [getInfo_withInfo, if_neg hj]
    have hadm : (getInfo (refreshInfo p s old.info s.now (p.weigh k v)) old.info).admitted =
        (getInfo s old.info).admitted := by
      unfold refreshInfo; rw [getInfo_withInfo, if_pos rfl]
    refine ⟨{ id := s.nextId, val := v, info := old.info, slot := old.slot }, _, rfl, rfl, rfl,
      rfl, rfl, hself.1, hself.2, ?_, ?_⟩
    · intro k' ve hne hve
      have h1 : (getInfo s ve.info).key = k' := hc.mapKey k' ve hve
      have h2 : (getInfo s old.info).key = k := hc.mapKey k old hk
      exact hoth _ (fun e => hne (by rw [← h1, ← e]; exact h2))
    · intro M ve hve _
      have hve0 : AL.get? (AL.put s.map k
          { id := s.nextId, val := v, info := old.info, slot := old.slot }) k = some ve := hve
      rw [AL.get?_put_self] at hve0
      cases hve0
      obtain ⟨⟨h', o, w, hin⟩, _⟩ := h.s1 old hk
      exact Or.inr ⟨h', old, o, w, hin, rfl⟩
  | none =>
    dsimp only
    have hgi : ∀ (inf : Info) (m : List (Nat × VE)) j, getInfo
        { s with nextId := s.nextId + 2, infos := AL.put s.infos s.nextId inf, map := m } j =
        if s.nextId = j then inf else getInfo s j := by
      intro inf m j
      simp only [getInfo, AL.get?_put]
      by_cases e : s.nextId = j <;> simp [e]
    refine ⟨{ id := s.nextId + 1, val := v, info := s.nextId, slot := s.nextId + 1 }, _, rfl, rfl,
      rfl, rfl, rfl, ?_, ?_, ?_, ?_⟩
    · rw [hgi, if_pos rfl]
    · rw [hgi, if_pos rfl]
    · intro k' ve _ hve
      have hne : s.nextId ≠ ve.info := Nat.ne_of_gt (h.t.top.map.bound k' ve hve)
      rw [hgi, if_neg hne]
    · intro M ve hve hadm
      have hve0 : AL.get? (AL.put s.map k
          { id := s.nextId + 1, val := v, info := s.nextId, slot := s.nextId + 1 }) k
            = some ve := hve
      rw [AL.get?_put_self] at hve0
      cases hve0
      rw [hgi, if_pos rfl] at hadm
      cases hadm

theorem housekeepW_writeQ (p : Params) {s : SState} (h : QInv s) :
    (housekeepW p s).writeQ = [] ∨ (housekeepW p s).writeQ = s.writeQ := by
  unfold housekeepW
  split
  · exact Or.inl (trySync_spec p s h.running).writeQ
  · exact Or.inr rfl

theorem isExpired_transfer (p : Params) {s sb : SState} {j : Nat}
    (hx : isExpiredInfo p s (getInfo s j) s.now = true) (hv : s.va = sb.va) (hn : s.now = sb.now)
    (hla : (getInfo s j).la = (getInfo sb j).la) (hlm : (getInfo s j).lm = (getInfo sb j).lm) :
    isExpiredInfo p sb (getInfo sb j) sb.now = true := by
  rw [← hn, ← isExpiredInfo_congr p s.now hv hlm hla]
  exact hx

/-- An entry written now is not expired (unless a deadline is zero). -/
theorem fresh_not_expired {p : Params} {s : SState} {i : Info} (hv : VaLe s)
    (hl : p.ttl ≠ some 0 ∧ p.tti ≠ some 0) (hla : i.la = s.now) (hlm : i.lm = s.now) :
    isExpiredInfo p s i s.now = false := by
  have hva : ∀ t, t = s.now → (match s.va with | some v => decide (t < v) | none => false)
      = false := by
    intro t ht
    cases hv' : s.va with
    | none => rfl
    | some v => have := hv v hv'; simp only [decide_eq_false_iff_not]; omega
  have hd : ∀ (d : Option Nat) t, d ≠ some 0 → t = s.now →
      (match d with | some d => decide (t + d ≤ s.now) | none => false) = false := by
    intro d t hd ht
    cases d with
    | none => rfl
    | some x =>
      have : x ≠ 0 := fun e => hd (by rw [e])
      simp only [decide_eq_false_iff_not]; omega
  simp only [isExpiredInfo, expiredTs, Bool.or_eq_false_iff]
  exact ⟨⟨hva _ hlm, hd _ _ hl.1 hlm⟩, ⟨hva _ hla, hd _ _ hl.2 hla⟩⟩

/-- One more insert of `k`: still inside the window.  If the value fits (`hfit`), it is resident
afterwards and no other entry has left except by expiry. -/
theorem seg_insert {p : Params} (hq : NoQuirks p) (hsm : SmallSketch p) {c : Nat}
    (hcap : p.cap = some c) {k : Nat} {sb s : SState} (h : Seg p k sb s) (v : Nat) :
    Seg p k sb (insert p s k v) ∧
    (budTotal (blOf p sb.map) + p.weigh k v ≤ c → (p.ttl ≠ some 0 ∧ p.tti ≠ some 0) →
      (∃ ve, AL.get? (insert p s k v).map k = some ve ∧ ve.val = v) ∧
      (KeptB p k sb s → KeptB p k sb (insert p s k v))) := by
  obtain ⟨veN, oldW, hop, hval, hmap, hwq, hrq, hla, hlm, hoth, hkw⟩ := insertMid_facts h v
  have hvn := insertMid_va_now p s k v
  have t0 := insertMid_t hq h.t k v
  have hfr : Frame (insertMid p s k v).1 (insert p s k v) := by
    rw [insert_eq_mid]; exact scheduleWriteOp_frame hq 3 _ _
  have hins : insert p s k v = { housekeepW p (insertMid p s k v).1 with
      writeQ := (housekeepW p (insertMid p s k v).1).writeQ ++ [(insertMid p s k v).2] } := by
    rw [insert_eq_mid, scheduleWriteOp3_enqueues p t0.q]
  have hkn0 : (AL.keys (insertMid p s k v).1.map).Nodup := by
    rw [hmap]; exact AL.nodup_put k _ h.t.top.map.kn
  have hrq' : (insert p s k v).readQ = [] := by
    apply List.eq_nil_iff_forall_not_mem.mpr
    intro op hop'
    have := hfr.readQ op hop'
    rw [hrq, h.rq] at this
    cases this
  have hlaEq : ∀ j, (getInfo (insert p s k v) j).la = (getInfo (insertMid p s k v).1 j).la := by
    intro j
    rcases hfr.la j with e | ⟨_, _, hin, _⟩
    · exact e
    · rw [hrq, h.rq] at hin; cases hin
  have hsub : ∀ k' ve, AL.get? (insert p s k v).map k' = some ve →
      AL.get? (AL.put s.map k veN) k' = some ve := by
    intro k' ve hve
    have := hfr.mapSub hkn0 k' ve hve
    rw [hmap] at this; exact this
  have hseg : Seg p k sb (insert p s k v) := by
    refine ⟨insert_t hq hsm h.t k v, ?_, ?_, hrq', ?_, ?_, ?_, ?_⟩
    · exact (h.vl.of_eq hvn.1 hvn.2).frame hfr
    · rw [hins]
      intro op hop'
      rcases List.mem_append.mp hop' with hop' | hop'
      · rcases housekeepW_writeQ p t0.q with e | e
        · rw [e] at hop'; cases hop'
        · rw [e, hwq] at hop'; exact h.qk op hop'
      · simp only [List.mem_singleton] at hop'
        rw [hop', hop]; exact ⟨_, _, _, _, rfl⟩
    · rw [hfr.now, hvn.2]; exact h.now
    · rw [hfr.va, hvn.1]; exact h.va
    · intro k' ve hne hve
      have h1 := hsub k' ve hve
      rw [AL.get?_put_ne _ (fun e => hne e.symm)] at h1
      obtain ⟨a, b, c'⟩ := h.os k' ve hne h1
      refine ⟨a, ?_, ?_⟩
      · rw [hlaEq, hoth k' ve hne h1]; exact b
      · rw [hfr.lm, hoth k' ve hne h1]; exact c'
    · intro ve hve
      have h1 := hsub k ve hve
      rw [AL.get?_put_self] at h1
      cases h1
      refine ⟨⟨p.hash k, oldW, p.weigh k v, ?_⟩, ?_, ?_⟩
      · rw [hins]
        show WOp.upsert k (p.hash k) veN oldW (p.weigh k v) ∈ _ ++ [(insertMid p s k v).2]
        rw [hop]
        exact List.mem_append_right _ (List.mem_singleton.mpr rfl)
      · rw [hlaEq, hla, hfr.now, hvn.2]
      · rw [hfr.lm, hlm, hfr.now, hvn.2]
  refine ⟨hseg, ?_⟩
  intro hfit hlives
  -- the maintenance run inside this insert does not evict for size
  have hX : SyncOk p (insertMid p s k v).1 := by
    have h0 : TopInv Sketch.Good (armed (insertMid p s k v).1) :=
      t0.top.of_eq rfl rfl rfl rfl rfl rfl rfl rfl rfl
    have c0 : CTop p (armed (insertMid p s k v).1)
        ((armed (insertMid p s k v).1).writeQ ++ [(insertMid p s k v).2]) :=
      t0.c.of_eq rfl rfl rfl rfl rfl rfl
    refine syncRun_fit (k := k) sketchLaws hq hsm hcap hfit [(insertMid p s k v).2] h0 c0 ?_ ?_ ?_ ?_
    · intro op hop'
      rcases List.mem_append.mp hop' with hop' | hop'
      · have : op ∈ (insertMid p s k v).1.writeQ := hop'
        rw [hwq] at this; exact h.qk op this
      · simp only [List.mem_singleton] at hop'
        rw [hop', hop]; exact ⟨_, _, _, _, rfl⟩
    · intro k' ve hne hve
      have : AL.get? (insertMid p s k v).1.map k' = some ve := hve
      rw [hmap, AL.get?_put_ne _ (fun e => hne e.symm)] at this
      exact (h.os k' ve hne this).1
    · intro cur hcur
      have : AL.get? (insertMid p s k v).1.map k = some cur := hcur
      rw [hmap, AL.get?_put_self] at this
      cases this
      rw [hval]; exact Nat.le_refl _
    · have := hkw (p.weigh k v)
      intro ve hve hadm
      have hw' : (armed (insertMid p s k v).1).writeQ = s.writeQ := hwq
      rw [hw']
      exact this ve hve hadm
  have hfx := housekeepW_frameX hX
  have hmapI : (insert p s k v).map = (housekeepW p (insertMid p s k v).1).map := by
    rw [hins]
  have hinfoI : ∀ j, getInfo (insert p s k v) j =
      getInfo (housekeepW p (insertMid p s k v).1) j := by
    intro j; rw [hins]; rfl
  refine ⟨?_, ?_⟩
  · have hk0 : AL.get? (insertMid p s k v).1.map k = some veN := by
      rw [hmap, AL.get?_put_self]
    have hnx : isExpiredInfo p (insertMid p s k v).1 (getInfo (insertMid p s k v).1 veN.info)
        (insertMid p s k v).1.now = false :=
      fresh_not_expired (h.vl.of_eq hvn.1 hvn.2) hlives (by rw [hla, hvn.2]) (by rw [hlm, hvn.2])
    rcases hfx.kept hkn0 k veN hk0 with hh | ⟨_, hh⟩
    · exact ⟨veN, by rw [hmapI]; exact hh, hval⟩
    · rw [notExpired_frame p hfx.frame veN.info hnx] at hh; cases hh
  · intro hkb k' ve hne hve
    rcases hkb k' ve hne hve with hh | hh
    · have hk0 : AL.get? (insertMid p s k v).1.map k' = some ve := by
        rw [hmap, AL.get?_put_ne _ (fun e => hne e.symm)]; exact hh
      rcases hfx.kept hkn0 k' ve hk0 with h2 | ⟨_, h2⟩
      · exact Or.inl (by rw [hmapI]; exact h2)
      · right
        obtain ⟨_, b, c'⟩ := h.os k' ve hne hh
        have e1 : (getInfo (housekeepW p (insertMid p s k v).1) ve.info).la =
            (getInfo sb ve.info).la := by
          rw [← hinfoI, hlaEq, hoth k' ve hne hh]; exact b
        have e2 : (getInfo (housekeepW p (insertMid p s k v).1) ve.info).lm =
            (getInfo sb ve.info).lm := by
          rw [hfx.frame.lm, hoth k' ve hne hh]; exact c'
        exact isExpired_transfer p h2 (by rw [hfx.frame.va, hvn.1]; exact h.va)
          (by rw [hfx.frame.now, hvn.2]; exact h.now) e1 e2
    · exact Or.inr hh

/-- The `sync()` that closes the window, when the value the map holds for `k` fits. -/
theorem seg_sync_fit {p : Params} (hq : NoQuirks p) (hsm : SmallSketch p) {c : Nat}
    (hcap : p.cap = some c) {k : Nat} {sb s : SState} (h : Seg p k sb s) {ve : VE}
    (hk : AL.get? s.map k = some ve)
    (hfit : budTotal (blOf p sb.map) + p.weigh k ve.val ≤ c)
    (hlives : p.ttl ≠ some 0 ∧ p.tti ≠ some 0) :
    AL.get? (syncRun p s).map k = some ve ∧ (KeptB p k sb s → KeptB p k sb (syncRun p s)) ∧
    (syncRun p s).now = sb.now ∧ (syncRun p s).va = sb.va := by
  have hfx : FrameX p s (syncRun p s) := by
    have hct : CTop p s (s.writeQ ++ []) := h.t.c
    refine syncRun_fit (k := k) sketchLaws hq hsm hcap hfit [] h.t.top hct ?_ h.othersIn ?_ ?_
    · rw [List.append_nil]; exact h.qk
    · intro cur hcur
      rw [hk] at hcur; cases hcur; exact Nat.le_refl _
    · intro cur hcur _
      obtain ⟨⟨h', o, w, hin⟩, _⟩ := h.s1 cur hcur
      exact Or.inr ⟨h', cur, o, w, hin, rfl⟩
  have hkn := h.t.top.map.kn
  have hlaEq : ∀ j, (getInfo (syncRun p s) j).la = (getInfo s j).la := by
    intro j
    rcases hfx.frame.la j with e | ⟨_, _, hin, _⟩
    · exact e
    · rw [h.rq] at hin; cases hin
  refine ⟨?_, ?_, by rw [hfx.frame.now]; exact h.now, by rw [hfx.frame.va]; exact h.va⟩
  · obtain ⟨_, e1, e2⟩ := h.s1 ve hk
    have hnx := fresh_not_expired (i := getInfo s ve.info) h.vl hlives e1 e2
    rcases hfx.kept hkn k ve hk with hh | ⟨_, hh⟩
    · exact hh
    · rw [notExpired_frame p hfx.frame ve.info hnx] at hh; cases hh
  · intro hkb k' ve' hne hve'
    rcases hkb k' ve' hne hve' with hh | hh
    · rcases hfx.kept hkn k' ve' hh with h2 | ⟨_, h2⟩
      · exact Or.inl h2
      · right
        obtain ⟨_, b, c'⟩ := h.os k' ve' hne hh
        exact isExpired_transfer p h2 (by rw [hfx.frame.va]; exact h.va)
          (by rw [hfx.frame.now]; exact h.now) (by rw [hlaEq]; exact b)
          (by rw [hfx.frame.lm]; exact c')
    · exact Or.inr hh

/-! ### snapshots of such states -/

theorem snap_has_kv (p : Params) {s : SState} {k : Nat} {ve : VE}
    (h : AL.get? s.map k = some ve) :
    (snapshot p s).entries.any (fun e => e.key == k && e.val == ve.val) = true := by
  rw [List.any_eq_true]
  refine ⟨entryView s (k, ve), ?_, by simp [entryView]⟩
  show entryView s (k, ve) ∈ sortBy (·.key) (s.map.map (entryView s))
  rw [mem_sortBy]
  exact List.mem_map.mpr ⟨(k, ve), AL.mem_of_get? h, rfl⟩

theorem snap_has_key (p : Params) {s : SState} {k : Nat} {ve : VE}
    (h : AL.get? s.map k = some ve) :
    (snapshot p s).entries.any (fun e => e.key == k) = true := by
  rw [List.any_eq_true]
  refine ⟨entryView s (k, ve), ?_, by simp [entryView]⟩
  show entryView s (k, ve) ∈ sortBy (·.key) (s.map.map (entryView s))
  rw [mem_sortBy]
  exact List.mem_map.mpr ⟨(k, ve), AL.mem_of_get? h, rfl⟩

theorem snap_fresh (p : Params) {s : SState} {k : Nat}
    (h : (snapshot p s).entries.any (fun e => e.key == k) = false) : AL.get? s.map k = none := by
  cases hg : AL.get? s.map k with
  | none => rfl
  | some ve => rw [snap_has_key p hg] at h; cases h

theorem snap_entries_mem (p : Params) {s : SState} {e : EntryView}
    (h : e ∈ (snapshot p s).entries) : ∃ kv, kv ∈ s.map ∧ e = entryView s kv := by
  have h' : e ∈ sortBy (·.key) (s.map.map (entryView s)) := h
  rw [mem_sortBy] at h'
  obtain ⟨kv, hkv, rfl⟩ := List.mem_map.mp h'
  exact ⟨kv, hkv, rfl⟩

/-- At quiescence the residents weigh what the weigher says. -/
theorem snapWeight_quiescent {p : Params} {s : SState} (h : TInv p s []) (hw : s.writeQ = []) :
    snapWeight (snapshot p s) = budTotal (blOf p s.map) := by
  obtain ⟨_, _, h3, _, _⟩ := quiescent h hw
  rw [budTotal_blOf]
  show ((sortBy (·.key) (s.map.map (entryView s))).map (·.weight)).sum = _
  rw [sum_map_sortBy, List.map_map]
  congr 1
  apply List.map_congr_left
  intro kv hkv
  exact h3 kv hkv

theorem not_live_of_expired (p : Params) {s : SState} (kv : Nat × VE)
    (h : isExpiredInfo p s (getInfo s kv.2.info) s.now = true) :
    entryLiveAt p.ttl p.tti s.now s.va (entryView s kv) = false := by
  simp only [isExpiredInfo, expiredTs, Bool.or_eq_true] at h
  simp only [entryLiveAt, entryView, expiredAt]
  cases hv : s.va with
  | none =>
    rw [hv] at h
    cases ht : p.ttl with
    | none =>
      cases hi : p.tti with
      | none => rw [ht, hi] at h; simp at h
      | some d => rw [ht, hi] at h; simp at h; simp [h]
    | some d =>
      cases hi : p.tti with
      | none => rw [ht, hi] at h; simp at h; simp [h]
      | some d' =>
        rw [ht, hi] at h; simp at h
        rcases h with h | h <;> simp [h]
  | some v =>
    rw [hv] at h
    cases ht : p.ttl with
    | none =>
      cases hi : p.tti with
      | none =>
        rw [ht, hi] at h; simp at h
        rcases h with h | h <;> simp [h]
      | some d =>
        rw [ht, hi] at h; simp at h
        rcases h with h | h | h <;> simp [h]
    | some d =>
      cases hi : p.tti with
      | none =>
        rw [ht, hi] at h; simp at h
        rcases h with (h | h) | h <;> simp [h]
      | some d' =>
        rw [ht, hi] at h; simp at h
        rcases h with (h | h) | h | h <;> simp [h]

/-! ### the oracle, window by window -/

/-- What `fitsC03Sync` demands of a window whose inserts `collectInserts` has gathered. -/
def winResult (c : Nat) (ttl tti : Option Nat) (w : Nat → Nat → Nat) (before : Snap) :
    Option (Nat × Nat × Nat × Snap) → Bool
  | some (k, v, mw, after) =>
    let fresh := !(before.entries.any (fun e => e.key == k))
    let quiet := before.rq == 0 && before.wq == 0 && after.rq == 0 && after.wq == 0
    let lives := !(ttl == some 0) && !(tti == some 0)
    !(fresh && quiet && lives && decide (snapWeight before + w k v ≤ c)) ||
      (after.entries.any (fun e => e.key == k && e.val == v) &&
       (!(decide (snapWeight before + mw ≤ c)) ||
         before.entries.all (fun e => !(entryLiveAt ttl tti after.now after.va e) ||
           after.entries.any (fun e' => e'.key == e.key))))
  | none => true

theorem fitsC03Sync_window (c : Nat) (ttl tti : Option Nat) (w : Nat → Nat → Nat) (before : Snap)
    (rest : Trace) :
    fitsC03Sync c ttl tti w ((.sync, .ok) :: (.snap, .snap before) :: rest) =
      (winResult c ttl tti w before (collectInserts w rest none) &&
        fitsC03Sync c ttl tti w ((.snap, .snap before) :: rest)) := by
  conv => lhs; unfold fitsC03Sync
  simp only [winResult]
  cases collectInserts w rest none with
  | none => rfl
  | some r => obtain ⟨k, v, mw, after⟩ := r; rfl

theorem fitsC03Sync_other (c : Nat) (ttl tti : Option Nat) (w : Nat → Nat → Nat) (x : Op × Obs)
    (t : Trace) (h : ∀ before rest, ¬ (x = (.sync, .ok) ∧ t = (.snap, .snap before) :: rest)) :
    fitsC03Sync c ttl tti w (x :: t) = fitsC03Sync c ttl tti w t := by
  conv => lhs; unfold fitsC03Sync
  split
  · rename_i e; cases e
  · rename_i before rest e
    simp only [List.cons.injEq] at e
    exact absurd ⟨e.1, e.2⟩ (h before rest)
  · rename_i e
    simp only [List.cons.injEq] at e
    rw [e.2]

theorem run_cons (p : Params) (s : SState) (op : Op) (rest : List Op) :
    run p s (op :: rest) = (op, (step p s op).2) :: run p (step p s op).1 rest := rfl

/-- What the walk through a window establishes about its closing snapshot. -/
def WinGoal (p : Params) (c k : Nat) (sb : SState) (r : Nat × Nat × Nat × Snap) : Prop :=
  ∃ v mw sa, r = (k, v, mw, snapshot p sa) ∧
    (budTotal (blOf p sb.map) + p.weigh k v ≤ c →
      (∃ ve, AL.get? sa.map k = some ve ∧ ve.val = v) ∧
      (budTotal (blOf p sb.map) + mw ≤ c → KeptB p k sb sa) ∧
      sa.now = sb.now ∧ sa.va = sb.va)

theorem walk_seg {p : Params} (hq : NoQuirks p) (hsm : SmallSketch p) {c : Nat}
    (hcap : p.cap = some c) {k : Nat} {sb : SState}
    (hlives : p.ttl ≠ some 0 ∧ p.tti ≠ some 0) :
    ∀ (h : List Op) (s : SState) (v mw : Nat), Seg p k sb s →
      (budTotal (blOf p sb.map) + p.weigh k v ≤ c →
        ∃ ve, AL.get? s.map k = some ve ∧ ve.val = v) →
      (budTotal (blOf p sb.map) + mw ≤ c → KeptB p k sb s) →
      ∀ r, collectInserts p.weigh (run p s h) (some (k, v, mw)) = some r → WinGoal p c k sb r := by
  intro h
  induction h with
  | nil => intro s v mw _ _ _ r hr; simp [run, collectInserts] at hr
  | cons op rest ih =>
    intro s v mw hseg hres hkept r hr
    rw [run_cons] at hr
    have hst := step_fst (p := p) hseg.t.top.nofault op
    cases op with
    | ins k2 v2 =>
      cases hobs : (step p s (.ins k2 v2)).2 <;> rw [hobs] at hr <;>
        simp only [collectInserts] at hr <;> try (cases hr; done)
      by_cases e : (k2 == k) = true
      · have ek : k2 = k := by simpa using e
        subst ek
        rw [if_pos e] at hr
        rw [hst] at hr
        obtain ⟨hseg', hfit'⟩ := seg_insert hq hsm hcap hseg v2
        refine ih _ v2 (max mw (p.weigh k2 v2)) hseg' ?_ ?_ r hr
        · intro hf; exact (hfit' hf hlives).1
        · intro hf
          have h1 : budTotal (blOf p sb.map) + mw ≤ c := by
            have := Nat.le_max_left mw (p.weigh k2 v2); omega
          have h2 : budTotal (blOf p sb.map) + p.weigh k2 v2 ≤ c := by
            have := Nat.le_max_right mw (p.weigh k2 v2); omega
          exact (hfit' h2 hlives).2 (hkept h1)
      · rw [if_neg e] at hr; cases hr
    | snap =>
      cases hobs : (step p s .snap).2 <;> rw [hobs] at hr <;>
        simp only [collectInserts] at hr <;> try (cases hr; done)
      rw [hst] at hr
      exact ih s v mw hseg hres hkept r hr
    | freq k2 =>
      cases hobs : (step p s (.freq k2)).2 <;> rw [hobs] at hr <;>
        simp only [collectInserts] at hr <;> try (cases hr; done)
      rw [hst] at hr
      exact ih s v mw hseg hres hkept r hr
    | sync =>
      rw [hst] at hr
      have hsa : stepState p s .sync = syncRun p s := rfl
      rw [hsa] at hr
      cases rest with
      | nil =>
        cases hobs : (step p s .sync).2 <;> rw [hobs] at hr <;>
          simp [run, collectInserts] at hr
      | cons op2 rest2 =>
        rw [run_cons] at hr
        have hsnap := step_snap p (syncRun p s) op2
        cases op2 <;> cases hobs : (step p s .sync).2 <;> rw [hobs] at hr <;>
          (try (simp only [collectInserts] at hr; cases hr; done))
        -- the only case left: `sync`/ok followed by `snap`
        cases hobs2 : (step p (syncRun p s) .snap).2 <;> rw [hobs2] at hr <;>
          simp only [collectInserts] at hr <;> try (cases hr; done)
        rename_i after
        have hafter := hsnap after hobs2
        simp only [Option.some.injEq] at hr
        refine ⟨v, mw, syncRun p s, by rw [← hr, hafter], ?_⟩
        intro hf
        obtain ⟨ve, hve, hval⟩ := hres hf
        obtain ⟨a1, a2, a3, a4⟩ := seg_sync_fit hq hsm hcap hseg hve (by rw [hval]; exact hf) hlives
        exact ⟨⟨ve, a1, hval⟩, fun hm => a2 (hkept hm), a3, a4⟩
    | get k2 => simp only [collectInserts] at hr; cases hr
    | has k2 => simp only [collectInserts] at hr; cases hr
    | iter => simp only [collectInserts] at hr; cases hr
    | inv k2 => simp only [collectInserts] at hr; cases hr
    | invAll => simp only [collectInserts] at hr; cases hr
    | invIf pr => simp only [collectInserts] at hr; cases hr
    | adv d => simp only [collectInserts] at hr; cases hr

theorem collectInserts_sync_none (w : Nat → Nat → Nat) (obs : Obs) (t : Trace) :
    collectInserts w ((.sync, obs) :: t) none = none := by
  cases t with
  | nil => cases obs <;> rfl
  | cons y t' =>
    obtain ⟨op2, obs2⟩ := y
    cases obs <;> cases op2 <;> cases obs2 <;> rfl

/-- The key of the result is the key of the first insert. -/
theorem collectInserts_key (w : Nat → Nat → Nat) (k : Nat) :
    ∀ (t : Trace) (v mw : Nat) r, collectInserts w t (some (k, v, mw)) = some r → r.1 = k := by
  intro t
  induction t with
  | nil => intro v mw r h'; simp [collectInserts] at h'
  | cons x t iht =>
    intro v mw r h'
    obtain ⟨op', obs'⟩ := x
    cases op' with
    | ins k2 v2 =>
      cases obs' <;> simp only [collectInserts] at h' <;> try (cases h'; done)
      by_cases e : (k2 == k) = true
      · rw [if_pos e] at h'
        have ek : k2 = k := by simpa using e
        subst ek
        exact iht _ _ r h'
      · rw [if_neg e] at h'; cases h'
    | snap =>
      cases obs' <;> simp only [collectInserts] at h' <;> try (cases h'; done)
      exact iht _ _ r h'
    | freq k2 =>
      cases obs' <;> simp only [collectInserts] at h' <;> try (cases h'; done)
      exact iht _ _ r h'
    | sync =>
      cases t with
      | nil => cases obs' <;> simp [collectInserts] at h'
      | cons y t' =>
        obtain ⟨op2, obs2⟩ := y
        cases obs' <;> cases op2 <;> cases obs2 <;>
          (try (simp only [collectInserts] at h'; cases h'; done))
        simp only [collectInserts, Option.some.injEq] at h'
        rw [← h']
    | get k2 => simp only [collectInserts] at h'; cases h'
    | has k2 => simp only [collectInserts] at h'; cases h'
    | iter => simp only [collectInserts] at h'; cases h'
    | inv k2 => simp only [collectInserts] at h'; cases h'
    | invAll => simp only [collectInserts] at h'; cases h'
    | invIf pr => simp only [collectInserts] at h'; cases h'
    | adv d => simp only [collectInserts] at h'; cases h'

/-- The part of a window before its first insert: only snapshots and popularity readings, the
state is still the quiescent one. -/
theorem walk_none {p : Params} (hq : NoQuirks p) (hsm : SmallSketch p) {c : Nat}
    (hcap : p.cap = some c) {sb : SState} (ht : TInv p sb []) (hv : VaLe sb)
    (hw : sb.writeQ = []) (hrq : sb.readQ = [])
    (hlives : p.ttl ≠ some 0 ∧ p.tti ≠ some 0) :
    ∀ (h : List Op) r, collectInserts p.weigh (run p sb h) none = some r →
      ∃ k, r.1 = k ∧ (AL.get? sb.map k = none → WinGoal p c k sb r) := by
  intro h
  induction h with
  | nil => intro r hr; simp [run, collectInserts] at hr
  | cons op rest ih =>
    intro r hr
    rw [run_cons] at hr
    have hst := step_fst (p := p) ht.top.nofault op
    cases op with
    | ins k v =>
      cases hobs : (step p sb (.ins k v)).2 <;> rw [hobs] at hr <;>
        simp only [collectInserts] at hr <;> try (cases hr; done)
      rw [hst] at hr
      have hsi : stepState p sb (.ins k v) = insert p sb k v := rfl
      rw [hsi] at hr
      by_cases hf : AL.get? sb.map k = none
      · have hseg := seg_init (p := p) ht hv hw hrq hf
        obtain ⟨hseg', hfit'⟩ := seg_insert hq hsm hcap hseg v
        have hg := walk_seg hq hsm hcap hlives rest _ v (p.weigh k v) hseg'
          (fun hfit => (hfit' hfit hlives).1)
          (fun hfit => (hfit' hfit hlives).2 (fun _ _ _ hh => Or.inl hh)) r hr
        have hg2 := hg
        obtain ⟨v', mw', sa, hr', _⟩ := hg2
        exact ⟨k, by rw [hr'], fun _ => hg⟩
      · exact ⟨r.1, rfl, fun hfr => by
          exfalso
          rw [collectInserts_key _ _ _ _ _ r hr] at hfr
          exact hf hfr⟩
    | snap =>
      cases hobs : (step p sb .snap).2 <;> rw [hobs] at hr <;>
        simp only [collectInserts] at hr <;> try (cases hr; done)
      rw [hst] at hr
      exact ih r hr
    | freq k2 =>
      cases hobs : (step p sb (.freq k2)).2 <;> rw [hobs] at hr <;>
        simp only [collectInserts] at hr <;> try (cases hr; done)
      rw [hst] at hr
      exact ih r hr
    | sync => rw [collectInserts_sync_none] at hr; cases hr
    | get k2 => simp only [collectInserts] at hr; cases hr
    | has k2 => simp only [collectInserts] at hr; cases hr
    | iter => simp only [collectInserts] at hr; cases hr
    | inv k2 => simp only [collectInserts] at hr; cases hr
    | invAll => simp only [collectInserts] at hr; cases hr
    | invIf pr => simp only [collectInserts] at hr; cases hr
    | adv d => simp only [collectInserts] at hr; cases hr

/-- Every window that starts in a quiescent state passes the check. -/
theorem winResult_ok {p : Params} (hq : NoQuirks p) (hsm : SmallSketch p) {c : Nat}
    (hcap : p.cap = some c) {sb : SState} (ht : TInv p sb []) (hv : VaLe sb)
    (hw : sb.writeQ = []) (hrq : sb.readQ = []) (h : List Op) :
    winResult c p.ttl p.tti p.weigh (snapshot p sb)
      (collectInserts p.weigh (run p sb h) none) = true := by
  cases hres : collectInserts p.weigh (run p sb h) none with
  | none => rfl
  | some r =>
    obtain ⟨k, v, mw, after⟩ := r
    simp only [winResult]
    by_cases hcond : ((!(snapshot p sb).entries.any fun e => e.key == k) &&
        ((snapshot p sb).rq == 0 && (snapshot p sb).wq == 0 && after.rq == 0 && after.wq == 0) &&
        (!p.ttl == some 0 && !p.tti == some 0) &&
        decide (snapWeight (snapshot p sb) + p.weigh k v ≤ c)) = true
    · simp only [Bool.and_eq_true, Bool.not_eq_true', decide_eq_true_eq, beq_eq_false_iff_ne,
        ne_eq] at hcond
      obtain ⟨⟨⟨hfresh, _⟩, hl1, hl2⟩, hfit⟩ := hcond
      have hlives : p.ttl ≠ some 0 ∧ p.tti ≠ some 0 := ⟨hl1, hl2⟩
      have hfr := snap_fresh p hfresh
      rw [snapWeight_quiescent ht hw] at hfit ⊢
      obtain ⟨k', hk', hgoal⟩ := walk_none hq hsm hcap ht hv hw hrq hlives h _ hres
      have : k' = k := hk'.symm
      subst this
      obtain ⟨v', mw', sa, hr', hg⟩ := hgoal hfr
      simp only [Prod.mk.injEq] at hr'
      obtain ⟨_, rfl, rfl, rfl⟩ := hr'
      obtain ⟨⟨ve, hve, hval⟩, hkept, hnow, hva⟩ := hg hfit
      rw [Bool.or_eq_true]
      right
      rw [Bool.and_eq_true]
      refine ⟨by rw [← hval]; exact snap_has_kv p hve, ?_⟩
      by_cases hm : budTotal (blOf p sb.map) + mw ≤ c
      · rw [Bool.or_eq_true]
        right
        rw [List.all_eq_true]
        intro e he
        obtain ⟨kv, hkv, rfl⟩ := snap_entries_mem p he
        have hg0 := AL.get?_of_mem ht.top.map.kn hkv
        have hne : kv.1 ≠ k' := by
          intro e; rw [e, hfr] at hg0; cases hg0
        rcases hkept hm kv.1 kv.2 hne hg0 with hh | hh
        · have : (snapshot p sa).entries.any (fun e' => e'.key == (entryView sb kv).key) = true :=
            snap_has_key p hh
          rw [this, Bool.or_true]
        · have hnl := not_live_of_expired p kv hh
          have e1 : (snapshot p sa).now = sb.now := hnow
          have e2 : (snapshot p sa).va = sb.va := hva
          rw [e1, e2, hnl]
          rfl
      · simp [hm]
    · simp only [Bool.not_eq_true] at hcond
      rw [hcond]; rfl

/-- `fitsC03Sync` accepts every run of the model from a reachable state. -/
theorem fitsC03Sync_run {p : Params} (hq : NoQuirks p) (hsm : SmallSketch p) {c : Nat}
    (hcap : p.cap = some c) :
    ∀ (h : List Op) (s : SState), TInv p s [] → VaLe s →
      fitsC03Sync c p.ttl p.tti p.weigh (run p s h) = true := by
  intro h
  induction h with
  | nil => intro s _ _; rfl
  | cons op rest ih =>
    intro s ht hv
    rw [run_cons]
    have ih' := ih _ (step_t hq hsm ht op) (vaLe_step hq hv op)
    by_cases hwin : ∃ before rst, (op, (step p s op).2) = (Op.sync, Obs.ok) ∧
        run p (step p s op).1 rest = (Op.snap, Obs.snap before) :: rst
    · obtain ⟨before, rst, e1, e2⟩ := hwin
      rw [e1, e2, fitsC03Sync_window, Bool.and_eq_true]
      refine ⟨?_, by rw [← e2]; exact ih'⟩
      simp only [Prod.mk.injEq] at e1
      obtain ⟨eop, _⟩ := e1
      subst eop
      have hst : (step p s .sync).1 = syncRun p s := step_fst ht.top.nofault .sync
      rw [hst] at e2
      have ht1 : TInv p (syncRun p s) [] := sync_t hq hsm ht
      cases rest with
      | nil => simp [run] at e2
      | cons op2 rest2 =>
        rw [run_cons] at e2
        simp only [List.cons.injEq, Prod.mk.injEq] at e2
        obtain ⟨⟨eop2, eobs2⟩, erst⟩ := e2
        subst eop2
        have hb := step_snap p (syncRun p s) .snap before eobs2
        have hst2 : (step p (syncRun p s) .snap).1 = syncRun p s :=
          step_fst ht1.top.nofault .snap
        rw [hst2] at erst
        rw [hb, ← erst]
        exact winResult_ok hq hsm hcap ht1 (hv.frame (syncRun_frame hq s))
          (syncRun_writeQ p s) (syncRun_readQ p s) rest2
    · rw [fitsC03Sync_other _ _ _ _ _ _ (fun b r hh => hwin ⟨b, r, hh.1, hh.2⟩)]
      exact ih'

end Sync
end MiniMoka
