/-
  "Recency is order of use" on the unsync model (the `recencyC12` part of the C12 oracle):
  over any segment of operations, the keys of the probation list are the survivors of the
  list at the start of the segment in their old relative order, followed by the keys used in
  the segment (insert / update / successful get) that are still resident, in order of last
  use.  Pure list algebra first, then the per-operation facts, then the walk over a trace.
-/
import MiniMoka.Lemmas.UnsyncAdmit

namespace MiniMoka
namespace Unsync
namespace Admit

open Spec

/-! ### list algebra of `expectedOrder` -/

/-- `expectedOrder` on plain key lists: `L0` the order at the start of the segment, `L` the
order now, `M` the keys used since (order of last use). -/
def expOrd (L0 L M : List Nat) : List Nat :=
  L0.filter (fun k => L.contains k && !M.contains k) ++ M.filter (L.contains ·)

theorem expectedOrder_eq (b sn : Snap) (M : List Nat) :
    expectedOrder b sn M = expOrd (lruOrder b) (lruOrder sn) M := rfl

/-- The walk's bookkeeping of a use. -/
def useKey (M : List Nat) (k : Nat) : List Nat := M.filter (· != k) ++ [k]

/-- A sublist of a duplicate-free list is the filter by membership. -/
theorem sublist_eq_filter {L' L : List Nat} (h : L'.Sublist L) (hn : L.Nodup) :
    L' = L.filter (L'.contains ·) := by
  induction h with
  | slnil => rfl
  | @cons l1 l2 a hs ih =>
    simp only [List.nodup_cons] at hn
    have ha : ¬ a ∈ l1 := fun h => hn.1 (hs.subset h)
    rw [List.filter_cons_of_neg (by simpa using ha)]
    exact ih hn.2
  | @cons_cons l1 l2 a hs ih =>
    simp only [List.nodup_cons] at hn
    rw [List.filter_cons_of_pos (by simp)]
    congr 1
    have := ih hn.2
    rw [this]
    apply List.filter_congr
    intro x hx
    have hxa : x ≠ a := fun e => hn.1 (e ▸ hx)
    rw [← this]
    simp [hxa]

theorem erase_eq_filter_of_nodup {L : List Nat} (hn : L.Nodup) (k : Nat) :
    L.erase k = L.filter (· != k) := by
  induction L with
  | nil => rfl
  | cons a L ih =>
    simp only [List.nodup_cons] at hn
    by_cases h : a = k
    · subst h
      rw [List.erase_cons_head, List.filter_cons_of_neg (by simp)]
      symm
      rw [List.filter_eq_self]
      intro x hx
      have : x ≠ a := fun e => hn.1 (e ▸ hx)
      simpa using this
    · rw [List.erase_cons_tail (by simpa using h), List.filter_cons_of_pos (by simpa using h),
        ih hn.2]

/-- Removing residents (in any way that keeps the relative order) keeps the relation. -/
theorem expOrd_sub {L0 M L L' : List Nat} (hr : L = expOrd L0 L M) (hn : L.Nodup)
    (hs : L'.Sublist L) : L' = expOrd L0 L' M := by
  have h1 := sublist_eq_filter hs hn
  have hsub : ∀ x, x ∈ L' → x ∈ L := fun x hx => hs.subset hx
  conv => lhs; rw [h1, hr]
  unfold expOrd
  rw [List.filter_append, List.filter_filter, List.filter_filter]
  congr 1
  · apply List.filter_congr
    intro x _
    by_cases hx : x ∈ L'
    · simp [hx, hsub x hx]
    · simp [hx]
  · apply List.filter_congr
    intro x _
    by_cases hx : x ∈ L'
    · simp [hx, hsub x hx]
    · simp [hx]

/-- A use that leaves `k` at the back (hit, update, admitted insert). -/
theorem expOrd_use {L0 M L : List Nat} (hr : L = expOrd L0 L M) (k : Nat) :
    L.filter (· != k) ++ [k] = expOrd L0 (L.filter (· != k) ++ [k]) (useKey M k) := by
  conv => lhs; rw [hr]
  unfold expOrd useKey
  rw [List.filter_append, List.filter_filter, List.filter_filter, List.filter_append,
    List.filter_filter, List.append_assoc]
  congr 1
  · apply List.filter_congr
    intro x _
    by_cases hxk : x = k
    · subst hxk; simp
    · by_cases hxL : x ∈ L <;> by_cases hxM : x ∈ M <;> simp [hxk, hxL, hxM]
  · congr 1
    · apply List.filter_congr
      intro x _
      by_cases hxk : x = k
      · subst hxk; simp
      · by_cases hxL : x ∈ L <;> simp [hxk, hxL]
    · simp

/-- A use of a key that is not resident afterwards (rejected insert). -/
theorem expOrd_use_absent {L0 M L : List Nat} (hr : L = expOrd L0 L M) {k : Nat} (hk : ¬ k ∈ L) :
    L = expOrd L0 L (useKey M k) := by
  conv => lhs; rw [hr]
  unfold expOrd useKey
  rw [List.filter_append]
  congr 1
  · apply List.filter_congr
    intro x _
    by_cases hxk : x = k
    · subst hxk; simp [hk]
    · by_cases hxL : x ∈ L <;> by_cases hxM : x ∈ M <;> simp [hxk, hxL, hxM]
  · rw [List.filter_filter]
    have : [k].filter (L.contains ·) = [] := by simp [hk]
    rw [this, List.append_nil]
    apply List.filter_congr
    intro x _
    by_cases hxk : x = k
    · subst hxk; simp [hk]
    · simp [hxk]

theorem expOrd_refl (L : List Nat) : L = expOrd L L [] := by
  unfold expOrd
  simp only [List.filter_nil, List.append_nil, List.contains_nil, Bool.not_false, Bool.and_true]
  symm
  rw [List.filter_eq_self]
  intro x hx
  simpa using hx

/-! ### removals keep the relative order of the probation list -/

theorem eraseAo_sublist (l : List AoNode) (id : Nat) : (eraseAo l id).Sublist l := by
  induction l with
  | nil => simp [eraseAo]
  | cons a l ih =>
    simp only [eraseAo]
    by_cases ha : a.id = id
    · simp [ha]
    · simp only [ha, if_false]; exact ih.cons_cons a

theorem unlinkAo_prob_sublist (s : UState) (e : UEntry) : (unlinkAo s e).prob.Sublist s.prob := by
  unfold unlinkAo
  split
  · exact List.Sublist.refl _
  · split
    · exact eraseAo_sublist _ _
    · simp

theorem takeOut_prob_sublist (s : UState) (k : Nat) (e : UEntry) :
    (takeOut s k e).prob.Sublist s.prob := by
  simp only [takeOut, unlinkWo_prob]
  exact unlinkAo_prob_sublist { s with map := AL.erase s.map k } e

theorem evictLruLoop_prob_sublist (fuel : Nat) :
    ∀ (s : UState) (wte c w : Nat), (evictLruLoop fuel s wte c w).1.prob.Sublist s.prob := by
  induction fuel with
  | zero => intro s wte c w; exact List.Sublist.refl _
  | succ fuel ih =>
    intro s wte c w
    unfold evictLruLoop
    split
    · exact List.Sublist.refl _
    · split
      · exact List.Sublist.refl _
      · rename_i n rest hp
        split
        · exact (ih _ _ _ _).trans (takeOut_prob_sublist _ _ _)
        · refine (ih _ _ _ _).trans ?_
          simp only [hp]
          exact List.sublist_cons_self n rest

theorem removeExpiredAo_prob_sublist (p : Params) (fuel : Nat) :
    ∀ (s : UState) (c w : Nat), (removeExpiredAo p fuel s c w).1.prob.Sublist s.prob := by
  induction fuel with
  | zero => intro s c w; exact List.Sublist.refl _
  | succ fuel ih =>
    intro s c w
    unfold removeExpiredAo
    split
    · exact List.Sublist.refl _
    · rename_i n rest hp
      split
      · split
        · exact (ih _ _ _).trans (takeOut_prob_sublist _ _ _)
        · refine (ih _ _ _).trans ?_
          simp only [hp]
          exact List.sublist_cons_self n rest
      · exact List.Sublist.refl _

theorem removeExpiredWo_prob_sublist (p : Params) (fuel : Nat) :
    ∀ (s : UState) (c w : Nat), (removeExpiredWo p fuel s c w).1.prob.Sublist s.prob := by
  induction fuel with
  | zero => intro s c w; exact List.Sublist.refl _
  | succ fuel ih =>
    intro s c w
    unfold removeExpiredWo
    split
    · exact List.Sublist.refl _
    · split
      · split
        · exact (ih _ _ _).trans (takeOut_prob_sublist _ _ _)
        · exact ih _ _ _
      · exact List.Sublist.refl _

theorem evictLru_prob_sublist (p : Params) (s : UState) : (evictLru p s).prob.Sublist s.prob := by
  have := evictLruLoop_prob_sublist EVICTION_BATCH_SIZE s (weightsToEvict p s) 0 0
  unfold evictLru
  generalize evictLruLoop EVICTION_BATCH_SIZE s (weightsToEvict p s) 0 0 = r at this ⊢
  obtain ⟨s1, c, w⟩ := r
  simpa using this

theorem evictExpired_prob_sublist (p : Params) (s : UState) :
    (evictExpired p s).prob.Sublist s.prob := by
  unfold evictExpired
  have h1 : ∃ s1, (if p.ttl.isSome = true then
        (let (s1, c, w) := removeExpiredWo p EVICTION_BATCH_SIZE s 0 0
         let s2 := subEc s1 c
         { s2 with ws := s2.ws - w })
      else s) = s1 ∧ s1.prob.Sublist s.prob := by
    split
    · have := removeExpiredWo_prob_sublist p EVICTION_BATCH_SIZE s 0 0
      generalize removeExpiredWo p EVICTION_BATCH_SIZE s 0 0 = r at this ⊢
      obtain ⟨s1, c, w⟩ := r
      exact ⟨_, rfl, by simpa using this⟩
    · exact ⟨s, rfl, List.Sublist.refl _⟩
  obtain ⟨s1, he1, hs1⟩ := h1
  simp only at he1
  rw [he1]
  dsimp only
  split
  · have := removeExpiredAo_prob_sublist p EVICTION_BATCH_SIZE s1 0 0
    generalize removeExpiredAo p EVICTION_BATCH_SIZE s1 0 0 = r at this ⊢
    obtain ⟨s2, c, w⟩ := r
    have h2 : s2.prob.Sublist s1.prob := by simpa using this
    simpa using h2.trans hs1
  · exact hs1

theorem maintain_prob_sublist (p : Params) (s : UState) : (maintain p s).prob.Sublist s.prob := by
  unfold maintain evictExpiredIfNeeded
  split
  · exact (evictLru_prob_sublist p _).trans (evictExpired_prob_sublist p s)
  · exact evictLru_prob_sublist p s

theorem invalidate_prob_sublist (p : Params) (s : UState) (k : Nat) :
    (invalidate p s k).prob.Sublist s.prob := by
  unfold invalidate
  dsimp only
  split
  · exact maintain_prob_sublist p s
  · rename_i e _
    have : ({ (if p.q.d1 = true then takeOut (maintain p s) k e
          else subEc (takeOut (maintain p s) k e) 1) with
        ws := (if p.q.d1 = true then takeOut (maintain p s) k e
          else subEc (takeOut (maintain p s) k e) 1).ws - e.weight } : UState).prob =
        (takeOut (maintain p s) k e).prob := by
      split <;> simp
    rw [this]
    exact (takeOut_prob_sublist _ _ _).trans (maintain_prob_sublist p s)

theorem invalidateKeys_prob_sublist (p : Params) (keys : List Nat) :
    ∀ (s : UState) (c w : Nat), (invalidateKeys p keys s c w).1.prob.Sublist s.prob := by
  induction keys with
  | nil => intro s c w; exact List.Sublist.refl _
  | cons k rest ih =>
    intro s c w
    unfold invalidateKeys
    split
    · exact ih _ _ _
    · exact (ih _ _ _).trans (takeOut_prob_sublist _ _ _)

theorem invalidateEntriesIf_prob_sublist (p : Params) (s : UState) (pr : Pred) :
    (invalidateEntriesIf p s pr).prob.Sublist s.prob := by
  unfold invalidateEntriesIf
  dsimp only
  have := invalidateKeys_prob_sublist p
    ((s.map.filter (fun kv => pr.eval kv.1 kv.2.val)).map (·.1)) s 0 0
  generalize invalidateKeys p _ s 0 0 = r at this ⊢
  obtain ⟨s1, c, w⟩ := r
  have h2 : ({ (if p.q.d3 = true then s1 else subEc s1 c) with
      ws := (if p.q.d3 = true then s1 else subEc s1 c).ws - w } : UState).prob = s1.prob := by
    split <;> simp
  rw [h2]; exact this

/-- A `get` that does not return a value changes the probation list only by its maintenance. -/
theorem get_miss_prob (p : Params) (s : UState) (k : Nat) (h : (get p s k).2 = none) :
    (get p s k).1.prob = (maintain p s).prob := by
  unfold get at h ⊢
  dsimp only at h ⊢
  have hp2 := sketchIncrement_prob p (maintain p s) (p.hash k)
  generalize sketchIncrement p (maintain p s) (p.hash k) = s2 at *
  rw [← hp2]
  split
  · rfl
  · rename_i e hg
    simp only [hg] at h
    split
    · rename_i hts; simp [hts] at h
    · rename_i t hts
      simp only [hts] at h
      split
      · rfl
      · rename_i hx; simp [hx] at h

/-! ### the relation, operation by operation -/

/-- Keys of the probation list, front = least recently used. -/
def pkeys (s : UState) : List Nat := s.prob.map (·.key)

/-- The recency relation of a segment: `L0` the order when the segment started, `M` the keys
used since (in order of last use). -/
def Rec (L0 M : List Nat) (s : UState) : Prop := pkeys s = expOrd L0 (pkeys s) M

theorem Rec.of_sublist {p : Params} {L0 M : List Nat} {s s' : UState} (hr : Rec L0 M s)
    (hs : Struct p s) (hsub : s'.prob.Sublist s.prob) : Rec L0 M s' :=
  expOrd_sub hr (prob_keys_nodup hs) (hsub.map _)

theorem Rec.of_prob_eq {L0 M : List Nat} {s s' : UState} (hr : Rec L0 M s)
    (h : s'.prob = s.prob) : Rec L0 M s' := by
  unfold Rec pkeys at *; rw [h]; exact hr

theorem Rec.maintain {p : Params} {L0 M : List Nat} {s : UState} (hr : Rec L0 M s)
    (hs : Struct p s) : Rec L0 M (maintain p s) :=
  hr.of_sublist hs (maintain_prob_sublist p s)

/-- A state whose key list is the old one with `k` moved (or pushed) to the back. -/
theorem Rec.of_moved {L0 M : List Nat} {s s' : UState} (hr : Rec L0 M s) {k : Nat}
    (h : pkeys s' = (pkeys s).filter (· != k) ++ [k]) : Rec L0 (useKey M k) s' := by
  unfold Rec; rw [h]; exact expOrd_use hr k

theorem filter_ne_self {L : List Nat} {k : Nat} (hk : ¬ k ∈ L) : L.filter (· != k) = L := by
  rw [List.filter_eq_self]
  intro x hx
  have : x ≠ k := fun e => hk (e ▸ hx)
  simpa using this

theorem Rec.insert {p : Params} (hq : NoQuirks p) {L0 M : List Nat} {s : UState}
    (hi : InvU p s) (hr : Rec L0 M s) (k v : Nat) : Rec L0 (useKey M k) (Unsync.insert p s k v) := by
  obtain ⟨h1, _, _⟩ := maintain_spec hq hi
  have hr1 : Rec L0 M (Unsync.maintain p s) := hr.maintain hi.struct
  have hn1 := prob_keys_nodup h1.struct
  cases hg : AL.get? (Unsync.maintain p s).map k with
  | some old =>
    apply hr1.of_moved
    have := insert_update_prob hq hi k v hg
    unfold pkeys
    rw [this, erase_eq_filter_of_nodup hn1]
  | none =>
    have hk : ¬ k ∈ pkeys (Unsync.maintain p s) := by
      intro hm
      obtain ⟨e, he⟩ := (mem_prob_keys_iff h1.struct k).mp hm
      rw [hg] at he; cases he
    have hrej : Unsync.insert p s k v = Unsync.maintain p s → Rec L0 (useKey M k) (Unsync.insert p s k v) := by
      intro heq
      rw [heq]
      exact expOrd_use_absent hr1 hk
    cases hroom : hasEnoughCapacity p (p.weigh k v) (Unsync.maintain p s).ws with
    | true =>
      obtain ⟨_, _, hprob⟩ := insert_hasroom hq hi k v hg hroom
      apply hr1.of_moved
      unfold pkeys at hk ⊢
      rw [hprob, filter_ne_self hk]
      simp [candNode]
    | false =>
      cases hbig : tooBig p (p.weigh k v) with
      | true => exact hrej (insert_toobig hg hroom hbig)
      | false =>
        obtain ⟨hadm, hno⟩ := insert_noroom hq hi k v hg hroom hbig
        by_cases hdec : ∃ n, shortestPre (p.weigh k v) (probWeights (Unsync.maintain p s)) = some n ∧
            (Unsync.maintain p s).sk.frequency (p.hash k) >
              ((probFreqs (Unsync.maintain p s)).take n).sum
        · obtain ⟨n, hn1', hn2⟩ := hdec
          obtain ⟨_, _, hprob⟩ := hadm n hn1' hn2
          -- first drop the victims (a prefix), then push the candidate
          have hdrop : (pkeys (Unsync.maintain p s)).drop n =
              expOrd L0 ((pkeys (Unsync.maintain p s)).drop n) M :=
            expOrd_sub hr1 hn1 (List.drop_sublist _ _)
          have hk' : ¬ k ∈ (pkeys (Unsync.maintain p s)).drop n :=
            fun h => hk (List.mem_of_mem_drop h)
          have := expOrd_use hdrop k
          rw [filter_ne_self hk'] at this
          unfold Rec
          have hpk : pkeys (Unsync.insert p s k v) = (pkeys (Unsync.maintain p s)).drop n ++ [k] := by
            unfold pkeys; rw [hprob]; simp [candNode]
          rw [hpk]; exact this
        · exact hrej (hno hdec)

theorem Rec.get {p : Params} (hq : NoQuirks p) {L0 M : List Nat} {s : UState}
    (hi : InvU p s) (hr : Rec L0 M s) (k : Nat) :
    (∀ v, (Unsync.get p s k).2 = some v → Rec L0 (useKey M k) (Unsync.get p s k).1) ∧
    ((Unsync.get p s k).2 = none → Rec L0 M (Unsync.get p s k).1) := by
  obtain ⟨h1, _, _⟩ := maintain_spec hq hi
  have hr1 : Rec L0 M (Unsync.maintain p s) := hr.maintain hi.struct
  have hn1 := prob_keys_nodup h1.struct
  refine ⟨?_, ?_⟩
  · intro v hv
    apply hr1.of_moved
    have := get_hit_prob hq hi k v hv
    unfold pkeys
    rw [this, erase_eq_filter_of_nodup hn1]
  · intro hnone
    exact hr1.of_prob_eq (get_miss_prob p s k hnone)

/-! ### every model snapshot is quiescent -/

theorem quiescent_snapshot {p : Params} {s : UState} (hs : Struct p s) :
    quiescent (snapshot p s) = true := by
  simp only [quiescent, snapshot, Bool.and_eq_true, beq_self_eq_true, true_and,
    List.all_eq_true, List.mem_map]
  rintro x ⟨n, hn, rfl⟩
  obtain ⟨e, he, hao⟩ := hs.aoBack n hn
  simp [he, hao]

/-! ### the walk -/

/-- The recency walk over a model trace, started anywhere: if the walk's bookkeeping
(`prev`, `moved`) is related to the current state, every quiescent snapshot passes. -/
theorem recencyWalk_run {P : Sketch → Prop} (L : SketchLaws P) {p : Params} (hq : NoQuirks p)
    (hsm : SmallSketch p) :
    ∀ (h : List Op) (s : UState) (st : RecSt), Inv P p s →
      (∀ b, st.prev = some b → Rec (lruOrder b) st.moved s) →
      recencyWalk true st (run p s h) = true := by
  intro h
  induction h with
  | nil => intro s st _ _; simp [run, recencyWalk]
  | cons op rest ih =>
    intro s st hi hrel
    have hi' := step_inv L hq hsm hi op
    have hst := step_state L hq hsm hi op
    rw [run_cons, step_obs L hq hsm hi op]
    -- operations that are not uses and only remove residents (or do nothing)
    have passive : ∀ (s' : UState), Inv P p s' → s'.prob.Sublist s.prob →
        recencyWalk true st (run p s' rest) = true := by
      intro s' hi2 hsub
      exact ih s' st hi2 (fun b hb => (hrel b hb).of_sublist hi.inv.struct hsub)
    have used : ∀ (k : Nat) (s' : UState), Inv P p s' →
        (∀ b, st.prev = some b → Rec (lruOrder b) (useKey st.moved k) s') →
        recencyWalk true
          { st with moved := st.moved.filter (· != k) ++ [k],
                    valid := st.valid && (true || st.moved.isEmpty) } (run p s' rest) = true := by
      intro k s' hi2 hr2
      exact ih s' _ hi2 hr2
    cases op with
    | ins k v =>
      dsimp only at hst ⊢
      rw [hst] at hi' ⊢
      unfold recencyWalk
      dsimp only
      exact used k _ hi' (fun b hb => (hrel b hb).insert hq hi.inv k v)
    | get k =>
      dsimp only at hst ⊢
      rw [hst] at hi' ⊢
      obtain ⟨hhit, hmiss⟩ : (∀ b, st.prev = some b →
          (∀ v, (get p s k).2 = some v → Rec (lruOrder b) (useKey st.moved k) (get p s k).1)) ∧
          (∀ b, st.prev = some b → (get p s k).2 = none → Rec (lruOrder b) st.moved (get p s k).1) :=
        ⟨fun b hb => ((hrel b hb).get hq hi.inv k).1, fun b hb => ((hrel b hb).get hq hi.inv k).2⟩
      cases hres : (get p s k).2 with
      | none =>
        unfold recencyWalk
        dsimp only
        exact ih _ st hi' (fun b hb => hmiss b hb hres)
      | some v =>
        unfold recencyWalk
        dsimp only
        exact used k _ hi' (fun b hb => hhit b hb v hres)
    | has k =>
      dsimp only at hst ⊢
      rw [hst] at hi' ⊢
      unfold recencyWalk
      dsimp only
      refine passive _ hi' ?_
      rw [containsKey_state]; exact maintain_prob_sublist p s
    | iter =>
      dsimp only at hst ⊢
      rw [hst] at hi' ⊢
      unfold recencyWalk
      dsimp only
      exact passive _ hi' (List.Sublist.refl _)
    | inv k =>
      dsimp only at hst ⊢
      rw [hst] at hi' ⊢
      unfold recencyWalk
      dsimp only
      exact passive _ hi' (invalidate_prob_sublist p s k)
    | invAll =>
      dsimp only at hst ⊢
      rw [hst] at hi' ⊢
      unfold recencyWalk
      dsimp only
      exact passive _ hi' (by simp [invalidateAll])
    | invIf pr =>
      dsimp only at hst ⊢
      rw [hst] at hi' ⊢
      unfold recencyWalk
      dsimp only
      exact passive _ hi' (invalidateEntriesIf_prob_sublist p s pr)
    | sync =>
      dsimp only
      unfold recencyWalk
      rfl
    | adv d =>
      dsimp only at hst ⊢
      rw [hst] at hi' ⊢
      unfold recencyWalk
      dsimp only
      exact passive _ hi' (List.Sublist.refl _)
    | snap =>
      dsimp only at hst ⊢
      rw [hst] at hi' ⊢
      unfold recencyWalk
      dsimp only
      rw [if_pos (quiescent_snapshot hi.inv.struct), Bool.and_eq_true]
      refine ⟨?_, ?_⟩
      · cases hprev : st.prev with
        | none => rfl
        | some b =>
          dsimp only
          rw [Bool.or_eq_true]
          right
          rw [expectedOrder_eq, lruOrder_snapshot, beq_iff_eq]
          exact hrel b hprev
      · refine ih s { prev := some (snapshot p s) } hi' ?_
        intro b hb
        cases hb
        unfold Rec pkeys
        rw [lruOrder_snapshot]
        exact expOrd_refl _
    | freq k =>
      dsimp only at hst ⊢
      rw [hst] at hi' ⊢
      unfold recencyWalk
      dsimp only
      exact passive _ hi' (List.Sublist.refl _)

/-- **C12, recency part, on traces**: the recency walk accepts every trace of the model. -/
theorem recencyC12_trace {P : Sketch → Prop} (L : SketchLaws P) {p : Params} (hq : NoQuirks p)
    (hsm : SmallSketch p) (h : List Op) : recencyC12 .unsync (trace p h) = true := by
  unfold recencyC12 trace
  exact recencyWalk_run L hq hsm h {} {} (init_inv L p) (fun b hb => by cases hb)

/-- **C12 on traces** (single-threaded cache): the oracle accepts every trace of the model. -/
theorem oracleC12_trace {P : Sketch → Prop} (L : SketchLaws P) {p : Params} (hq : NoQuirks p)
    (hsm : SmallSketch p) (h : List Op) :
    oracleC12 .unsync p.cap p.ttl p.tti p.weigh Gen.UNSYNC_EVICTION_BATCH_SIZE (trace p h) = true := by
  have hrec := recencyC12_trace L hq hsm h
  unfold oracleC12
  cases hcap : p.cap with
  | none => exact hrec
  | some cap =>
    dsimp only
    obtain ⟨h1, h2⟩ := admit_growth_trace L hq hsm hcap h
    rw [h1, h2, hrec]; rfl

end Admit
end Unsync
end MiniMoka
