/-
  Growth eviction with stale residents on the unsync model (the `growthExpC12` oracle).

  New compared with `growthC12` (Lemmas/UnsyncAdmit.lean): residents may be past a deadline when
  the lookup runs.  Three ingredients:
  * `TsOk`: the timestamps of the access-order list and of the write-order list are
    non-decreasing from front to back and none lies in the future — an invariant of every
    reachable state of a cache with expiry (`step_tsOk`);
  * under that invariant, and with at most one batch of residents, `evict_expired` removes
    every expired entry (`evictExpired_complete`) and nothing else (`evictExpired_keeps`);
  * the template argument of `growthCheck_model` on the purged state (`growthExpCheck_model`),
    then the walk over a trace (`growthExpC12_run`).
-/
import MiniMoka.Lemmas.UnsyncRecency
import MiniMoka.Lemmas.SketchLaws
import MiniMoka.Spec.OraclesExt

namespace MiniMoka
namespace Unsync
namespace GrowExp

open Admit Spec

/-! ### sorted timestamp lists -/

def TsLe (a b : Option Nat) : Prop := ∀ t u, a = some t → b = some u → t ≤ u

/-- Non-decreasing, all present, none in the future. -/
def TsList (now : Nat) (l : List (Option Nat)) : Prop :=
  l.Pairwise TsLe ∧ ∀ x ∈ l, ∃ t, x = some t ∧ t ≤ now

theorem TsList.nil (now : Nat) : TsList now [] :=
  ⟨List.Pairwise.nil, fun _ h => by cases h⟩

theorem TsList.sublist {now : Nat} {l l' : List (Option Nat)} (h : l'.Sublist l)
    (ht : TsList now l) : TsList now l' :=
  ⟨ht.1.sublist h, fun x hx => ht.2 x (h.subset hx)⟩

theorem TsList.snoc {now : Nat} {l : List (Option Nat)} (ht : TsList now l) :
    TsList now (l ++ [some now]) := by
  refine ⟨List.pairwise_append.mpr ⟨ht.1, List.pairwise_singleton _ _, ?_⟩, ?_⟩
  · intro a ha b hb t u h1 h2
    have hb' : b = some now := by simpa using hb
    rw [hb'] at h2
    cases h2
    obtain ⟨t', ht', hle⟩ := ht.2 a ha
    rw [ht'] at h1; cases h1; exact hle
  · intro x hx
    rcases List.mem_append.mp hx with h | h
    · exact ht.2 x h
    · exact ⟨now, by simpa using h, Nat.le_refl _⟩

theorem TsList.mono {now now' : Nat} {l : List (Option Nat)} (h : now ≤ now')
    (ht : TsList now l) : TsList now' l :=
  ⟨ht.1, fun x hx => let ⟨t, e, le⟩ := ht.2 x hx; ⟨t, e, Nat.le_trans le h⟩⟩

/-- In a sorted list, once the head is not past the deadline no member is. -/
theorem TsList.head_live {now : Nat} {a : Option Nat} {l : List (Option Nat)} (d : Option Nat)
    (ht : TsList now (a :: l)) (ha : expiredAt d a now = false) :
    ∀ x ∈ a :: l, expiredAt d x now = false := by
  intro x hx
  rcases List.mem_cons.mp hx with rfl | hx'
  · exact ha
  · obtain ⟨t, rfl, _⟩ := ht.2 a List.mem_cons_self
    obtain ⟨u, rfl, _⟩ := ht.2 x (List.mem_cons_of_mem _ hx')
    have hle : t ≤ u := (List.pairwise_cons.mp ht.1).1 _ hx' t u rfl rfl
    cases d with
    | none => simp [expiredAt]
    | some d =>
      simp only [expiredAt, decide_eq_false_iff_not] at ha ⊢
      omega

/-- Both lists of a state carry sorted timestamps. -/
structure TsOk (s : UState) : Prop where
  ao : TsList s.now (s.prob.map (·.ts))
  wo : TsList s.now (s.wo.map (·.ts))

/-- `s'` is `s` with some nodes unlinked; the clock did not move. -/
structure Sub3 (s s' : UState) : Prop where
  prob : s'.prob.Sublist s.prob
  wo : s'.wo.Sublist s.wo
  now : s'.now = s.now

theorem Sub3.refl (s : UState) : Sub3 s s := ⟨List.Sublist.refl _, List.Sublist.refl _, rfl⟩

theorem Sub3.trans {a b c : UState} (h1 : Sub3 a b) (h2 : Sub3 b c) : Sub3 a c :=
  ⟨h2.prob.trans h1.prob, h2.wo.trans h1.wo, h2.now.trans h1.now⟩

theorem Sub3.of_eq {s s' : UState} (hp : s'.prob = s.prob) (hw : s'.wo = s.wo)
    (hn : s'.now = s.now) : Sub3 s s' :=
  ⟨hp ▸ List.Sublist.refl _, hw ▸ List.Sublist.refl _, hn⟩

theorem TsOk.of_sub3 {s s' : UState} (h : Sub3 s s') (ht : TsOk s) : TsOk s' :=
  ⟨by rw [h.now]; exact ht.ao.sublist (h.prob.map _), by rw [h.now]; exact ht.wo.sublist (h.wo.map _)⟩

theorem TsOk.of_eq {s s' : UState} (ht : TsOk s) (hp : s'.prob = s.prob) (hw : s'.wo = s.wo)
    (hn : s'.now = s.now) : TsOk s' :=
  ht.of_sub3 (Sub3.of_eq hp hw hn)

/-! ### removals -/

theorem sub3_fail (s : UState) (f : Fault) : Sub3 s (s.fail f) := by
  unfold UState.fail; split <;> exact Sub3.of_eq rfl rfl rfl

theorem sub3_subEc (s : UState) (n : Nat) : Sub3 s (subEc s n) := by
  unfold subEc; split
  · exact sub3_fail s _
  · exact Sub3.of_eq rfl rfl rfl

theorem eraseWo_sublist (l : List WoNode) (id : Nat) : (eraseWo l id).Sublist l := by
  induction l with
  | nil => simp [eraseWo]
  | cons a l ih =>
    simp only [eraseWo]
    by_cases ha : a.id = id
    · simp [ha]
    · simp only [ha, if_false]; exact ih.cons_cons a

theorem sub3_unlinkAo (s : UState) (e : UEntry) : Sub3 s (unlinkAo s e) := by
  unfold unlinkAo
  split
  · exact Sub3.refl s
  · split
    · exact ⟨eraseAo_sublist _ _, List.Sublist.refl _, rfl⟩
    · exact sub3_fail s _

theorem sub3_unlinkWo (s : UState) (e : UEntry) : Sub3 s (unlinkWo s e) := by
  unfold unlinkWo
  split
  · exact Sub3.refl s
  · split
    · exact ⟨List.Sublist.refl _, eraseWo_sublist _ _, rfl⟩
    · exact sub3_fail s _

theorem sub3_takeOut (s : UState) (k : Nat) (e : UEntry) : Sub3 s (takeOut s k e) := by
  unfold takeOut
  have h0 : Sub3 s { s with map := AL.erase s.map k } := Sub3.of_eq rfl rfl rfl
  exact h0.trans ((sub3_unlinkAo _ e).trans (sub3_unlinkWo _ e))

/-- Settling the counters after a loop. -/
theorem sub3_settle {s s1 : UState} (h : Sub3 s s1) (c w : Nat) :
    Sub3 s { subEc s1 c with ws := (subEc s1 c).ws - w } :=
  (h.trans (sub3_subEc s1 c)).trans (Sub3.of_eq rfl rfl rfl)

theorem sub3_removeExpiredWo (p : Params) (fuel : Nat) :
    ∀ (s : UState) (c w : Nat), Sub3 s (removeExpiredWo p fuel s c w).1 := by
  induction fuel with
  | zero => intro s c w; exact Sub3.refl s
  | succ fuel ih =>
    intro s c w
    unfold removeExpiredWo
    split
    · exact Sub3.refl s
    · rename_i n rest hp
      split
      · split
        · exact (sub3_takeOut _ _ _).trans (ih _ _ _)
        · refine Sub3.trans ?_ (ih _ _ _)
          exact ⟨List.Sublist.refl _, by simp only [hp]; exact List.sublist_cons_self n rest, rfl⟩
      · exact Sub3.refl s

theorem sub3_removeExpiredAo (p : Params) (fuel : Nat) :
    ∀ (s : UState) (c w : Nat), Sub3 s (removeExpiredAo p fuel s c w).1 := by
  induction fuel with
  | zero => intro s c w; exact Sub3.refl s
  | succ fuel ih =>
    intro s c w
    unfold removeExpiredAo
    split
    · exact Sub3.refl s
    · rename_i n rest hp
      split
      · split
        · exact (sub3_takeOut _ _ _).trans (ih _ _ _)
        · refine Sub3.trans ?_ (ih _ _ _)
          exact ⟨by simp only [hp]; exact List.sublist_cons_self n rest, List.Sublist.refl _, rfl⟩
      · exact Sub3.refl s

theorem sub3_evictLruLoop (fuel : Nat) :
    ∀ (s : UState) (wte c w : Nat), Sub3 s (evictLruLoop fuel s wte c w).1 := by
  induction fuel with
  | zero => intro s wte c w; exact Sub3.refl s
  | succ fuel ih =>
    intro s wte c w
    unfold evictLruLoop
    split
    · exact Sub3.refl s
    · split
      · exact Sub3.refl s
      · rename_i n rest hp
        split
        · exact (sub3_takeOut _ _ _).trans (ih _ _ _ _)
        · refine Sub3.trans ?_ (ih _ _ _ _)
          exact ⟨by simp only [hp]; exact List.sublist_cons_self n rest, List.Sublist.refl _, rfl⟩

theorem sub3_invalidateKeys (p : Params) (keys : List Nat) :
    ∀ (s : UState) (c w : Nat), Sub3 s (invalidateKeys p keys s c w).1 := by
  induction keys with
  | nil => intro s c w; exact Sub3.refl s
  | cons k rest ih =>
    intro s c w
    unfold invalidateKeys
    split
    · exact ih _ _ _
    · exact (sub3_takeOut _ _ _).trans (ih _ _ _)

theorem sub3_removeVictims : ∀ (l : List AoNode) (s : UState), Sub3 s (removeVictims l s) := by
  intro l
  induction l with
  | nil => intro s; exact Sub3.refl s
  | cons v rest ih =>
    intro s
    unfold removeVictims
    split
    · exact (sub3_fail s _).trans (ih _)
    · exact ((sub3_takeOut _ _ _).trans (sub3_subEc _ _)).trans (ih _)

theorem sub3_evictLru (p : Params) (s : UState) : Sub3 s (evictLru p s) := by
  have := sub3_evictLruLoop EVICTION_BATCH_SIZE s (weightsToEvict p s) 0 0
  unfold evictLru
  generalize evictLruLoop EVICTION_BATCH_SIZE s (weightsToEvict p s) 0 0 = r at this ⊢
  obtain ⟨s1, c, w⟩ := r
  exact sub3_settle this c w

theorem sub3_evictExpired (p : Params) (s : UState) : Sub3 s (evictExpired p s) := by
  unfold evictExpired
  have h1 : ∃ s1, (if p.ttl.isSome = true then
        (let (s1, c, w) := removeExpiredWo p EVICTION_BATCH_SIZE s 0 0
         let s2 := subEc s1 c
         { s2 with ws := s2.ws - w })
      else s) = s1 ∧ Sub3 s s1 := by
    split
    · have := sub3_removeExpiredWo p EVICTION_BATCH_SIZE s 0 0
      generalize removeExpiredWo p EVICTION_BATCH_SIZE s 0 0 = r at this ⊢
      obtain ⟨s1, c, w⟩ := r
      exact ⟨_, rfl, sub3_settle this c w⟩
    · exact ⟨s, rfl, Sub3.refl s⟩
  obtain ⟨s1, he1, hs1⟩ := h1
  simp only at he1
  rw [he1]
  dsimp only
  split
  · have := sub3_removeExpiredAo p EVICTION_BATCH_SIZE s1 0 0
    generalize removeExpiredAo p EVICTION_BATCH_SIZE s1 0 0 = r at this ⊢
    obtain ⟨s2, c, w⟩ := r
    exact hs1.trans (sub3_settle this c w)
  · exact hs1

theorem sub3_maintain (p : Params) (s : UState) : Sub3 s (maintain p s) := by
  unfold maintain evictExpiredIfNeeded
  split
  · exact (sub3_evictExpired p s).trans (sub3_evictLru p _)
  · exact sub3_evictLru p s

theorem sub3_invalidate (p : Params) (s : UState) (k : Nat) : Sub3 s (invalidate p s k) := by
  unfold invalidate
  dsimp only
  split
  · exact sub3_maintain p s
  · rename_i e _
    refine (sub3_maintain p s).trans ((sub3_takeOut _ k e).trans ?_)
    split
    · exact Sub3.of_eq rfl rfl rfl
    · exact (sub3_subEc _ 1).trans (Sub3.of_eq rfl rfl rfl)

theorem sub3_invalidateEntriesIf (p : Params) (s : UState) (pr : Pred) :
    Sub3 s (invalidateEntriesIf p s pr) := by
  unfold invalidateEntriesIf
  dsimp only
  have := sub3_invalidateKeys p
    ((s.map.filter (fun kv => pr.eval kv.1 kv.2.val)).map (·.1)) s 0 0
  generalize invalidateKeys p _ s 0 0 = r at this ⊢
  obtain ⟨s1, c, w⟩ := r
  refine Sub3.trans this ?_
  split
  · exact Sub3.of_eq rfl rfl rfl
  · exact (sub3_subEc _ c).trans (Sub3.of_eq rfl rfl rfl)

/-! ### touches and pushes keep the timestamps sorted -/

theorem eraseAo_setTsAo (l : List AoNode) (id t : Nat) :
    eraseAo (setTsAo l id t) id = eraseAo l id := by
  induction l with
  | nil => rfl
  | cons a l ih =>
    simp only [setTsAo]
    by_cases ha : a.id = id
    · simp [ha, eraseAo]
    · simp [ha, eraseAo, ih]

theorem setTsAo_of_none {l : List AoNode} {id : Nat} (t : Nat) (h : findAo l id = none) :
    setTsAo l id t = l := by
  induction l with
  | nil => rfl
  | cons a l ih =>
    simp only [findAo] at h
    by_cases ha : a.id = id
    · simp [ha] at h
    · simp only [ha, if_false] at h
      simp [setTsAo, ha, ih h]

theorem eraseWo_setTsWo (l : List WoNode) (id t : Nat) :
    eraseWo (setTsWo l id t) id = eraseWo l id := by
  induction l with
  | nil => rfl
  | cons a l ih =>
    simp only [setTsWo]
    by_cases ha : a.id = id
    · simp [ha, eraseWo]
    · simp [ha, eraseWo, ih]

theorem setTsWo_of_none {l : List WoNode} {id : Nat} (t : Nat) (h : findWo l id = none) :
    setTsWo l id t = l := by
  induction l with
  | nil => rfl
  | cons a l ih =>
    simp only [findWo] at h
    by_cases ha : a.id = id
    · simp [ha] at h
    · simp only [ha, if_false] at h
      simp [setTsWo, ha, ih h]

theorem tsList_touchAo {now : Nat} (l : List AoNode) (id : Nat)
    (ht : TsList now (l.map (·.ts))) :
    TsList now ((moveToBackAo (setTsAo l id now) id).map (·.ts)) := by
  unfold moveToBackAo
  rw [findAo_setTsAo]
  simp only [if_true]
  cases h : findAo l id with
  | none =>
    simp only [Option.map_none]
    rw [setTsAo_of_none now h]; exact ht
  | some n =>
    simp only [Option.map_some]
    rw [eraseAo_setTsAo]
    simp only [List.map_append, List.map_cons, List.map_nil]
    exact (ht.sublist ((eraseAo_sublist l id).map _)).snoc

theorem tsList_touchWo {now : Nat} (l : List WoNode) (id : Nat)
    (ht : TsList now (l.map (·.ts))) :
    TsList now ((moveToBackWo (setTsWo l id now) id).map (·.ts)) := by
  unfold moveToBackWo
  rw [findWo_setTsWo]
  simp only [if_true]
  cases h : findWo l id with
  | none =>
    simp only [Option.map_none]
    rw [setTsWo_of_none now h]; exact ht
  | some n =>
    simp only [Option.map_some]
    rw [eraseWo_setTsWo]
    simp only [List.map_append, List.map_cons, List.map_nil]
    exact (ht.sublist ((eraseWo_sublist l id).map _)).snoc

theorem tsOk_touchAo {s : UState} (ht : TsOk s) (id : Nat) : TsOk (touchAo s id (some s.now)) :=
  ⟨tsList_touchAo s.prob id ht.ao, ht.wo⟩

theorem tsOk_touchWo {s : UState} (ht : TsOk s) (id : Nat) : TsOk (touchWo s id (some s.now)) :=
  ⟨ht.ao, tsList_touchWo s.wo id ht.wo⟩

theorem tsOk_recordHit {s : UState} (ht : TsOk s) (e : UEntry) :
    TsOk (recordHit s e (some s.now)) := by
  unfold recordHit moveToBackAoE
  cases hao : e.ao with
  | none => exact ht
  | some id =>
    dsimp only
    cases hf : findAo (setTsAo s.prob id s.now) id with
    | some n =>
      exact ⟨tsList_touchAo s.prob id ht.ao, ht.wo⟩
    | none =>
      dsimp only
      rw [findAo_setTsAo] at hf
      simp only [if_true, Option.map_eq_none_iff] at hf
      have ht' : TsOk { s with prob := setTsAo s.prob id s.now } :=
        ht.of_eq (setTsAo_of_none s.now hf) rfl rfl
      exact ht'.of_sub3 (sub3_fail _ _)

theorem tsOk_pushCandidate {s : UState} (ht : TsOk s) (p : Params) (k : Nat) (hash : UInt64)
    (t : Nat) (htn : t = s.now) : TsOk (pushCandidate p s k hash (some t)) := by
  subst htn
  unfold pushCandidate
  split
  · exact ht.of_sub3 (sub3_fail _ _)
  · dsimp only
    split
    · refine ⟨?_, ?_⟩
      · simp only [List.map_append, List.map_cons, List.map_nil]; exact ht.ao.snoc
      · simp only [List.map_append, List.map_cons, List.map_nil]; exact ht.wo.snoc
    · refine ⟨?_, ht.wo⟩
      simp only [List.map_append, List.map_cons, List.map_nil]; exact ht.ao.snoc

theorem pushCandidate_now (p : Params) (s : UState) (k : Nat) (hash : UInt64) (ts : Option Nat) :
    (pushCandidate p s k hash ts).now = s.now := by
  unfold pushCandidate
  split
  · exact (sub3_fail _ _).now
  · dsimp only
    split <;> rfl

theorem sub3_maybeEnableSketch (p : Params) (s : UState) : Sub3 s (maybeEnableSketch p s) := by
  unfold maybeEnableSketch
  split
  · unfold enableSketch
    split
    · exact Sub3.of_eq rfl rfl rfl
    · exact Sub3.refl s
  · exact Sub3.refl s

theorem sub3_sketchIncrement (p : Params) (s : UState) (h : UInt64) :
    Sub3 s (sketchIncrement p s h) := by
  unfold sketchIncrement
  split
  · exact Sub3.of_eq rfl rfl rfl
  · exact sub3_fail _ _

theorem tsOk_admitOrReject {s : UState} (ht : TsOk s) (p : Params) (k : Nat) (hash : UInt64)
    (weight : Nat) : TsOk (admitOrReject p s k hash weight (some s.now)) := by
  unfold admitOrReject
  dsimp only
  split
  · exact ht.of_sub3 (sub3_fail _ _)
  · split
    · have h1 := sub3_removeVictims
        (admitLoop p s weight (s.sk.frequency hash) s.prob {}).victims s
      have h2 := tsOk_pushCandidate (ht.of_sub3 h1) p k hash s.now h1.now.symm
      refine TsOk.of_sub3 (sub3_maybeEnableSketch p _) ?_
      exact h2.of_eq rfl rfl rfl
    · exact ht.of_eq rfl rfl rfl

theorem tsOk_handleInsert {s : UState} (ht : TsOk s) (p : Params) (k : Nat) (hash : UInt64)
    (weight : Nat) : TsOk (handleInsert p s k hash weight (some s.now)) := by
  unfold handleInsert
  split
  · refine TsOk.of_sub3 (sub3_maybeEnableSketch p _) ?_
    exact (tsOk_pushCandidate ht p k hash s.now rfl).of_eq rfl rfl rfl
  · split
    · exact ht.of_eq rfl rfl rfl
    · exact tsOk_admitOrReject ht p k hash weight

theorem opTs_of_expiry {p : Params} (hx : p.hasExpiry = true) (s : UState) :
    opTs p s = some s.now := by
  simp [opTs, hx]

theorem tsOk_insert {p : Params} (hq : NoQuirks p) (hx : p.hasExpiry = true) {s : UState}
    (hi : InvU p s) (ht : TsOk s) (k v : Nat) : TsOk (insert p s k v) := by
  obtain ⟨h1, _, _⟩ := maintain_spec hq hi
  have ht1 : TsOk (maintain p s) := ht.of_sub3 (sub3_maintain p s)
  unfold insert
  dsimp only
  rw [opTs_of_expiry hx]
  cases hg : AL.get? (maintain p s).map k with
  | some old =>
    dsimp only
    obtain ⟨id, n, _, _, _, heq⟩ := handleUpdate_eq (entry := { val := v, weight := p.weigh k v })
      h1.struct hg (some (maintain p s).now) (p.weigh k v) (by simp [hx])
    rw [heq]
    dsimp only
    have hwl := h1.struct.woLink k old hg (by simp)
    have ht2 : TsOk (touchAo { maintain p s with
        map := AL.put (maintain p s).map k
          { val := v, weight := p.weigh k v, ao := old.ao, wo := old.wo } } id
        (some (maintain p s).now)) :=
      tsOk_touchAo (s := { maintain p s with
        map := AL.put (maintain p s).map k
          { val := v, weight := p.weigh k v, ao := old.ao, wo := old.wo } })
        (ht1.of_eq rfl rfl rfl) id
    cases hwo : old.wo with
    | none => exact ht2.of_eq rfl rfl rfl
    | some wid =>
      dsimp only
      cases httl : p.ttl.isSome with
      | false =>
        have := hwl.2 httl
        rw [hwo] at this; cases this
      | true =>
        simp only [if_true]
        exact (tsOk_touchWo ht2 wid).of_eq rfl rfl rfl
  | none =>
    dsimp only
    exact tsOk_handleInsert (s := { maintain p s with
      map := AL.put (maintain p s).map k { val := v, weight := p.weigh k v } })
      (ht1.of_eq rfl rfl rfl) p k (p.hash k) (p.weigh k v)

theorem tsOk_get {p : Params} (hx : p.hasExpiry = true) {s : UState}
    (ht : TsOk s) (k : Nat) : TsOk (get p s k).1 := by
  have ht1 : TsOk (maintain p s) := ht.of_sub3 (sub3_maintain p s)
  have h2 := sub3_sketchIncrement p (maintain p s) (p.hash k)
  have ht2 : TsOk (sketchIncrement p (maintain p s) (p.hash k)) := ht1.of_sub3 h2
  unfold get
  dsimp only
  rw [opTs_of_expiry hx]
  split
  · exact ht2
  · dsimp only
    split
    · exact ht2
    · rw [← h2.now]
      exact tsOk_recordHit ht2 _

/-- The invariant carried along a run: with expiry configured, timestamps are sorted. -/
def TsInv (p : Params) (s : UState) : Prop := p.hasExpiry = true → TsOk s

theorem tsInv_init (p : Params) : TsInv p {} :=
  fun _ => ⟨TsList.nil _, TsList.nil _⟩

theorem step_tsInv {P : Sketch → Prop} (L : SketchLaws P) {p : Params} (hq : NoQuirks p)
    (hsm : SmallSketch p) {s : UState} (hi : Inv P p s) (ht : TsInv p s) (op : Op) :
    TsInv p (step p s op).1 := by
  intro hx
  have ht0 := ht hx
  rw [step_state L hq hsm hi op]
  cases op with
  | ins k v => exact tsOk_insert hq hx hi.inv ht0 k v
  | get k => exact tsOk_get hx ht0 k
  | has k => dsimp only; rw [containsKey_state]; exact ht0.of_sub3 (sub3_maintain p s)
  | iter => exact ht0
  | inv k => exact ht0.of_sub3 (sub3_invalidate p s k)
  | invAll => exact ⟨TsList.nil _, TsList.nil _⟩
  | invIf pr => exact ht0.of_sub3 (sub3_invalidateEntriesIf p s pr)
  | sync => exact ht0
  | adv d => exact ⟨ht0.ao.mono (Nat.le_add_right _ _), ht0.wo.mono (Nat.le_add_right _ _)⟩
  | snap => exact ht0
  | freq k => exact ht0

/-! ### the purge removes every stale resident (at most one batch of residents) -/

theorem expiredAt_none (ts : Option Nat) (now : Nat) : expiredAt none ts now = false := by
  cases ts <;> rfl

theorem isSome_false_eq_none {α : Type} {o : Option α} (h : ¬ o.isSome = true) : o = none := by
  cases o with
  | none => rfl
  | some a => simp at h

theorem removeExpiredWo_complete {p : Params} (hq : NoQuirks p) (fuel : Nat) :
    ∀ (s : UState) (c w : Nat), Struct p s → TsList s.now (s.wo.map (·.ts)) →
      s.map.length ≤ fuel →
      ∀ n ∈ (removeExpiredWo p fuel s c w).1.wo, expiredAt p.ttl n.ts s.now = false := by
  have hd4 : p.q.d4 = false := by rw [hq]
  induction fuel with
  | zero =>
    intro s c w hs _ hlen n hn
    simp only [removeExpiredWo] at hn
    obtain ⟨e, he, _⟩ := hs.woBack n hn
    have : s.map = [] := List.length_eq_zero_iff.mp (Nat.le_zero.mp hlen)
    rw [this] at he; simp at he
  | succ fuel ih =>
    intro s c w hs ht hlen
    unfold removeExpiredWo
    cases hp : s.wo with
    | nil => intro n hn; simp [hp] at hn
    | cons n0 rest =>
      simp only
      by_cases hx : expiredAt p.ttl n0.ts s.now = true
      · simp only [hx, if_true]
        obtain ⟨e0, he0, _⟩ := hs.woBack n0 (by rw [hp]; exact List.mem_cons_self)
        simp only [he0, hd4]
        obtain ⟨hs', hto, _⟩ := takeOut_spec hs he0 (by simp)
        have h3 := sub3_takeOut s n0.key e0
        have ht' : TsList (takeOut s n0.key e0).now ((takeOut s n0.key e0).wo.map (·.ts)) := by
          rw [h3.now]; exact ht.sublist (h3.wo.map _)
        have hlen' : (takeOut s n0.key e0).map.length ≤ fuel := by
          rw [hto.map]
          have := AL.length_erase_of_get? he0
          omega
        intro n hn
        have h := ih (takeOut s n0.key e0) (c + 1) (w + e0.weight) hs' ht' hlen' n hn
        rw [h3.now] at h
        exact h
      · have hx' : expiredAt p.ttl n0.ts s.now = false := by simpa using hx
        simp only [hx]
        intro n hn
        simp only [Bool.false_eq_true, if_false] at hn
        have hts : TsList s.now (n0.ts :: rest.map (·.ts)) := by
          simpa [hp] using ht
        have := hts.head_live p.ttl hx' n.ts (by
          have : n ∈ n0 :: rest := hp ▸ hn
          rcases List.mem_cons.mp this with rfl | h
          · exact List.mem_cons_self
          · exact List.mem_cons_of_mem _ (List.mem_map.mpr ⟨n, h, rfl⟩))
        exact this

theorem removeExpiredAo_complete {p : Params} (fuel : Nat) :
    ∀ (s : UState) (c w : Nat), Struct p s → TsList s.now (s.prob.map (·.ts)) →
      s.map.length ≤ fuel →
      ∀ n ∈ (removeExpiredAo p fuel s c w).1.prob, expiredAt p.tti n.ts s.now = false := by
  induction fuel with
  | zero =>
    intro s c w hs _ hlen n hn
    simp only [removeExpiredAo] at hn
    obtain ⟨e, he, _⟩ := hs.aoBack n hn
    have : s.map = [] := List.length_eq_zero_iff.mp (Nat.le_zero.mp hlen)
    rw [this] at he; simp at he
  | succ fuel ih =>
    intro s c w hs ht hlen
    unfold removeExpiredAo
    cases hp : s.prob with
    | nil => intro n hn; simp [hp] at hn
    | cons n0 rest =>
      simp only
      by_cases hx : expiredAt p.tti n0.ts s.now = true
      · simp only [hx, if_true]
        obtain ⟨e0, he0, _⟩ := hs.aoBack n0 (by rw [hp]; exact List.mem_cons_self)
        simp only [he0]
        obtain ⟨hs', hto, _⟩ := takeOut_spec hs he0 (by simp)
        have h3 := sub3_takeOut s n0.key e0
        have ht' : TsList (takeOut s n0.key e0).now ((takeOut s n0.key e0).prob.map (·.ts)) := by
          rw [h3.now]; exact ht.sublist (h3.prob.map _)
        have hlen' : (takeOut s n0.key e0).map.length ≤ fuel := by
          rw [hto.map]
          have := AL.length_erase_of_get? he0
          omega
        intro n hn
        have h := ih (takeOut s n0.key e0) (c + 1) (w + e0.weight) hs' ht' hlen' n hn
        rw [h3.now] at h
        exact h
      · have hx' : expiredAt p.tti n0.ts s.now = false := by simpa using hx
        simp only [hx]
        intro n hn
        simp only [Bool.false_eq_true, if_false] at hn
        have hts : TsList s.now (n0.ts :: rest.map (·.ts)) := by
          simpa [hp] using ht
        have := hts.head_live p.tti hx' n.ts (by
          have : n ∈ n0 :: rest := hp ▸ hn
          rcases List.mem_cons.mp this with rfl | h
          · exact List.mem_cons_self
          · exact List.mem_cons_of_mem _ (List.mem_map.mpr ⟨n, h, rfl⟩))
        exact this

/-- One pass of the purge: `s'` is `s` without exactly the entries that `dead` marks. -/
structure PhaseOk (p : Params) (s s' : UState) (dead : UEntry → Bool) : Prop where
  inv : InvU p s'
  shrinks : Shrinks s s'
  sub : Sub3 s s'
  len : s'.map.length ≤ s.map.length
  live : ∀ k e, AL.get? s'.map k = some e → dead e = false
  keeps : ∀ k e, AL.get? s.map k = some e → dead e = false → AL.get? s'.map k = some e

theorem PhaseOk.refl {p : Params} {s : UState} {dead : UEntry → Bool} (hi : InvU p s)
    (h : ∀ k e, AL.get? s.map k = some e → dead e = false) : PhaseOk p s s dead :=
  ⟨hi, Shrinks.refl s, Sub3.refl s, Nat.le_refl _, h, fun _ _ hk _ => hk⟩

theorem PhaseOk.comp {p : Params} {s s1 s2 : UState} {d1 d2 d2' : UEntry → Bool}
    (h1 : PhaseOk p s s1 d1) (h2 : PhaseOk p s1 s2 d2)
    (heq : ∀ k e, AL.get? s1.map k = some e → d2 e = d2' e) :
    PhaseOk p s s2 (fun e => d1 e || d2' e) := by
  refine ⟨h2.inv, h1.shrinks.trans h2.shrinks, h1.sub.trans h2.sub, Nat.le_trans h2.len h1.len, ?_, ?_⟩
  · intro k e hk
    have hk1 := h2.shrinks.sub k e hk
    simp only [Bool.or_eq_false_iff]
    exact ⟨h1.live k e hk1, by rw [← heq k e hk1]; exact h2.live k e hk⟩
  · intro k e hk hd
    simp only [Bool.or_eq_false_iff] at hd
    have hk1 := h1.keeps k e hk hd.1
    exact h2.keeps k e hk1 (by rw [heq k e hk1]; exact hd.2)

theorem woPhase {p : Params} (hq : NoQuirks p) {s : UState} (hi : InvU p s) (ht : TsOk s)
    (hlen : s.map.length ≤ EVICTION_BATCH_SIZE) (httl : p.ttl.isSome = true)
    {s1 : UState} {c w : Nat} (hr : removeExpiredWo p EVICTION_BATCH_SIZE s 0 0 = (s1, c, w)) :
    PhaseOk p s { subEc s1 c with ws := (subEc s1 c).ws - w }
      (fun e => expiredAt p.ttl (entryLm s e) s.now) := by
  have hl := removeExpiredWo_spec hq EVICTION_BATCH_SIZE s 0 0 hi.struct
  have hc := removeExpiredWo_complete hq EVICTION_BATCH_SIZE s 0 0 hi.struct ht.wo hlen
  have ho := removeExpiredWo_only_expired hq EVICTION_BATCH_SIZE s 0 0 hi.struct
  have h3 := sub3_removeExpiredWo p EVICTION_BATCH_SIZE s 0 0
  rw [hr] at hl hc ho h3
  obtain ⟨hi1, hsh1, _, hmap1, _, hwo1⟩ := settle hi hl
  simp only at hmap1 hwo1 hc h3
  refine ⟨hi1, hsh1, sub3_settle h3 c w, ?_, ?_, ?_⟩
  · have := hl.count
    simp only at this
    rw [hmap1]; omega
  · intro k e hk
    obtain ⟨id, n, hwo, hf, _⟩ := (hi1.struct.woLink k e hk (by simp)).1 httl
    have hn : n ∈ s1.wo := hwo1 ▸ (findWo_some hf).1
    have hlm : entryLm { subEc s1 c with ws := (subEc s1 c).ws - w } e = n.ts := by
      simp only [entryLm, hwo, hf, Option.bind_some]
    show expiredAt p.ttl (entryLm s e) s.now = false
    rw [← hsh1.lm k e hk, hlm]
    exact hc n hn
  · intro k e hk hlive
    cases hg : AL.get? ({ subEc s1 c with ws := (subEc s1 c).ws - w } : UState).map k with
    | none =>
      have := ho k e ⟨hk, by rw [← hmap1]; exact hg⟩
      rw [hlive] at this; cases this
    | some e' =>
      have := hsh1.sub k e' hg
      rw [hk] at this; cases this; rfl

theorem aoPhase {p : Params} {s : UState} (hi : InvU p s) (ht : TsOk s)
    (hlen : s.map.length ≤ EVICTION_BATCH_SIZE)
    {s1 : UState} {c w : Nat} (hr : removeExpiredAo p EVICTION_BATCH_SIZE s 0 0 = (s1, c, w)) :
    PhaseOk p s { subEc s1 c with ws := (subEc s1 c).ws - w }
      (fun e => expiredAt p.tti (entryLa s e) s.now) := by
  have hl := removeExpiredAo_spec (p := p) EVICTION_BATCH_SIZE s 0 0 hi.struct
  have hc := removeExpiredAo_complete (p := p) EVICTION_BATCH_SIZE s 0 0 hi.struct ht.ao hlen
  have ho := removeExpiredAo_only_expired (p := p) EVICTION_BATCH_SIZE s 0 0 hi.struct
  have h3 := sub3_removeExpiredAo p EVICTION_BATCH_SIZE s 0 0
  rw [hr] at hl hc ho h3
  obtain ⟨hi1, hsh1, _, hmap1, hprob1, _⟩ := settle hi hl
  simp only at hmap1 hprob1 hc h3
  refine ⟨hi1, hsh1, sub3_settle h3 c w, ?_, ?_, ?_⟩
  · have := hl.count
    simp only at this
    rw [hmap1]; omega
  · intro k e hk
    obtain ⟨id, n, hao, hf, _⟩ := hi1.struct.aoLink k e hk (by simp)
    have hn : n ∈ s1.prob := hprob1 ▸ (findAo_some hf).1
    have hla : entryLa { subEc s1 c with ws := (subEc s1 c).ws - w } e = n.ts := by
      simp only [entryLa, hao, hf, Option.bind_some]
    show expiredAt p.tti (entryLa s e) s.now = false
    rw [← hsh1.la k e hk, hla]
    exact hc n hn
  · intro k e hk hlive
    cases hg : AL.get? ({ subEc s1 c with ws := (subEc s1 c).ws - w } : UState).map k with
    | none =>
      have := ho k e ⟨hk, by rw [← hmap1]; exact hg⟩
      rw [hlive] at this; cases this
    | some e' =>
      have := hsh1.sub k e' hg
      rw [hk] at this; cases this; rfl

/-- `evict_expired` on a state with sorted timestamps and at most one batch of residents
removes exactly the expired entries. -/
theorem evictExpired_purged {p : Params} (hq : NoQuirks p) {s : UState} (hi : InvU p s)
    (ht : TsOk s) (hlen : s.map.length ≤ EVICTION_BATCH_SIZE) :
    PhaseOk p s (evictExpired p s) (fun e => isExpiredEntry p s e s.now) := by
  unfold evictExpired
  have h1 : ∃ s1, (if p.ttl.isSome = true then
        (let (s1, c, w) := removeExpiredWo p EVICTION_BATCH_SIZE s 0 0
         let s2 := subEc s1 c
         { s2 with ws := s2.ws - w })
      else s) = s1 ∧ PhaseOk p s s1 (fun e => expiredAt p.ttl (entryLm s e) s.now) := by
    by_cases httl : p.ttl.isSome = true
    · simp only [httl, if_true]
      generalize hr : removeExpiredWo p EVICTION_BATCH_SIZE s 0 0 = r
      obtain ⟨s1, c, w⟩ := r
      exact ⟨_, rfl, woPhase hq hi ht hlen httl hr⟩
    · simp only [httl]
      refine ⟨s, rfl, PhaseOk.refl hi ?_⟩
      intro k e _
      simp only [isSome_false_eq_none httl, expiredAt_none]
  obtain ⟨s1, he1, ph1⟩ := h1
  simp only at he1
  rw [he1]
  have heq : ∀ k e, AL.get? s1.map k = some e →
      expiredAt p.tti (entryLa s1 e) s1.now = expiredAt p.tti (entryLa s e) s.now := by
    intro k e hk
    rw [ph1.shrinks.la k e hk, ph1.sub.now]
  by_cases htti : p.tti.isSome = true
  · simp only [htti, if_true]
    generalize hr : removeExpiredAo p EVICTION_BATCH_SIZE s1 0 0 = r
    obtain ⟨s2, c, w⟩ := r
    have ph2 := aoPhase ph1.inv (ht.of_sub3 ph1.sub) (Nat.le_trans ph1.len hlen) hr
    exact ph1.comp ph2 heq
  · simp only [htti]
    have ph2 : PhaseOk p s1 s1 (fun e => expiredAt p.tti (entryLa s1 e) s1.now) := by
      refine PhaseOk.refl ph1.inv ?_
      intro k e _
      simp only [isSome_false_eq_none htti, expiredAt_none]
    exact ph1.comp ph2 heq

/-- The same for `evict_expired_if_needed` on a reachable state. -/
theorem evictExpiredIfNeeded_purged {p : Params} (hq : NoQuirks p) {s : UState} (hi : InvU p s)
    (ht : TsInv p s) (hlen : s.map.length ≤ EVICTION_BATCH_SIZE) :
    PhaseOk p s (evictExpiredIfNeeded p s) (fun e => isExpiredEntry p s e s.now) := by
  unfold evictExpiredIfNeeded
  by_cases hx : p.hasExpiry = true
  · simp only [hx, if_true]
    exact evictExpired_purged hq hi (ht hx) hlen
  · simp only [hx]
    refine PhaseOk.refl hi ?_
    intro k e _
    have h1 : p.ttl = none := by
      apply isSome_false_eq_none; intro h; exact hx (by simp [Params.hasExpiry, h])
    have h2 : p.tti = none := by
      apply isSome_false_eq_none; intro h; exact hx (by simp [Params.hasExpiry, h])
    simp only [isExpiredEntry, h1, h2, expiredAt_none, Bool.or_false]

/-! ### the oracle's quantities, read off the purged state -/

theorem totalW_le_of_sub : ∀ (m' m : List (Nat × UEntry)), (AL.keys m').Nodup →
    (∀ k e, AL.get? m' k = some e → AL.get? m k = some e) → totalW m' ≤ totalW m := by
  intro m'
  induction m' with
  | nil => intro m _ _; simp [totalW]
  | cons a rest ih =>
    obtain ⟨k0, e0⟩ := a
    intro m hn hsub
    simp only [AL.keys_cons, List.nodup_cons] at hn
    have h0 := hsub k0 e0 (by simp [AL.get?_cons])
    have := ih (AL.erase m k0) hn.2 (by
      intro k' e' h'
      have hne : k0 ≠ k' := fun e => hn.1 (e ▸ AL.mem_keys_of_get? h')
      rw [AL.get?_erase_ne hne]
      exact hsub k' e' (by rw [AL.get?_cons]; simp [hne, h']))
    have h3 := totalW_erase h0
    simp only [totalW]; omega

theorem totalW_eq_of_same {m m' : List (Nat × UEntry)} (hn : (AL.keys m).Nodup)
    (hn' : (AL.keys m').Nodup) (h : ∀ k e, AL.get? m k = some e ↔ AL.get? m' k = some e) :
    totalW m = totalW m' :=
  Nat.le_antisymm (totalW_le_of_sub m m' hn (fun k e hk => (h k e).mp hk))
    (totalW_le_of_sub m' m hn' (fun k e hk => (h k e).mpr hk))

theorem keys_filter_nodup {m : List (Nat × UEntry)} (g : Nat × UEntry → Bool)
    (hn : (AL.keys m).Nodup) : (AL.keys (m.filter g)).Nodup := by
  rw [AL.keys_eq_map] at *
  exact List.Nodup.sublist (List.filter_sublist.map _) hn

theorem get?_filter {m : List (Nat × UEntry)} (hn : (AL.keys m).Nodup) (g : Nat × UEntry → Bool)
    (k : Nat) (e : UEntry) :
    AL.get? (m.filter g) k = some e ↔ AL.get? m k = some e ∧ g (k, e) = true := by
  constructor
  · intro h
    obtain ⟨h1, h2⟩ := List.mem_filter.mp (AL.mem_of_get? h)
    exact ⟨AL.get?_of_mem hn h1, h2⟩
  · rintro ⟨h1, h2⟩
    exact AL.get?_of_mem (keys_filter_nodup g hn) (List.mem_filter.mpr ⟨AL.mem_of_get? h1, h2⟩)

theorem sum_filter_view (s : UState) (f : EntryView → Bool) : ∀ m : List (Nat × UEntry),
    (((m.map (entryView s)).filter f).map (·.weight)).sum =
      totalW (m.filter (fun kv => f (entryView s kv)))
  | [] => rfl
  | (k, e) :: rest => by
    simp only [List.map_cons, List.filter_cons]
    by_cases h : f (entryView s (k, e)) = true
    · simp only [h, if_true, List.map_cons, List.sum_cons, totalW]
      rw [sum_filter_view s f rest]
      rfl
    · simp only [h]
      exact sum_filter_view s f rest

theorem entryLiveAt_view (p : Params) (s : UState) (now : Nat) (kv : Nat × UEntry) :
    entryLiveAt p.ttl p.tti now none (entryView s kv) = !isExpiredEntry p s kv.2 now := by
  simp [entryLiveAt, entryView, isExpiredEntry, Bool.not_or]

/-- The residents of `before` that are not past a deadline at `now`. -/
def liveOf (ttl tti : Option Nat) (before : Snap) (now : Nat) : List EntryView :=
  before.entries.filter (entryLiveAt ttl tti now none)

/-- The victims the oracle names: the shortest prefix of the live residents in recency order
that covers the live excess. -/
def victimsOf (cap : Nat) (before : Snap) (live : List EntryView) : List Nat :=
  match shortestPrefix before ((live.map (·.weight)).sum - cap)
      ((lruOrder before).filter ((live.map (·.key)).contains ·)) 0 [] with
  | some pre => pre
  | none => (lruOrder before).filter ((live.map (·.key)).contains ·)

/-- The check of one window of `growthExpC12`. -/
def expCheck (cap : Nat) (ttl tti : Option Nat) (batch : Nat) (before after : Snap)
    (lookup : Bool) : Bool :=
  !(lookup && (before.entries.all (fun e => e.aoOk) && before.prob.all (·.current) &&
      decide (before.entries.length ≤ batch))) ||
    sameKeys (keysOf after) (((liveOf ttl tti before after.now).map (·.key)).filter
      (fun x => !(victimsOf cap before (liveOf ttl tti before after.now)).contains x))

/-- The check the `growthExpC12` oracle performs around a lookup holds for the model. -/
theorem growthExpCheck_model {p : Params} (hq : NoQuirks p) {s : UState} (hi : InvU p s)
    (ht : TsInv p s) {cap : Nat} (hcap : p.cap = some cap) (s' : UState) (b : Bool)
    (hb : b = true → s'.map = (maintain p s).map ∧ s'.now = (maintain p s).now) :
    expCheck cap p.ttl p.tti Gen.UNSYNC_EVICTION_BATCH_SIZE (snapshot p s) (snapshot p s') b
      = true := by
  unfold expCheck
  cases happ : (b && ((snapshot p s).entries.all (fun e => e.aoOk) &&
      (snapshot p s).prob.all (·.current) &&
      decide ((snapshot p s).entries.length ≤ Gen.UNSYNC_EVICTION_BATCH_SIZE))) with
  | false => rfl
  | true =>
  simp only [Bool.not_true, Bool.false_or]
  simp only [Bool.and_eq_true, decide_eq_true_eq] at happ
  obtain ⟨hbt, _, hlen⟩ := happ
  obtain ⟨hmap, hnow⟩ := hb hbt
  obtain ⟨_, _, haux⟩ := maintain_spec hq hi
  have hnow' : (snapshot p s').now = s.now := by
    show s'.now = s.now
    rw [hnow, haux.now]
  have hlenE : (snapshot p s).entries.length = s.map.length := by
    simp [snapshot, length_sortBy]
  rw [hlenE] at hlen
  have ph := evictExpiredIfNeeded_purged hq hi ht hlen
  have hmt : maintain p s = evictLru p (evictExpiredIfNeeded p s) := rfl
  generalize evictExpiredIfNeeded p s = s1 at ph hmt
  rw [hnow']
  -- the live residents are the residents of the purged state
  have hF1 : ∀ x, x ∈ (liveOf p.ttl p.tti (snapshot p s) s.now).map (·.key) ↔
      ∃ e, AL.get? s1.map x = some e := by
    intro x
    simp only [liveOf, snapshot, List.mem_map, List.mem_filter, mem_sortBy]
    constructor
    · rintro ⟨ev, ⟨⟨kv, hkv, rfl⟩, hl⟩, rfl⟩
      obtain ⟨k, e⟩ := kv
      rw [entryLiveAt_view] at hl
      exact ⟨e, ph.keeps k e (AL.get?_of_mem hi.struct.keysNodup hkv) (by simpa using hl)⟩
    · rintro ⟨e, he⟩
      have h0 := ph.shrinks.sub x e he
      refine ⟨entryView s (x, e), ⟨⟨(x, e), AL.mem_of_get? h0, rfl⟩, ?_⟩, rfl⟩
      rw [entryLiveAt_view]
      simp [ph.live x e he]
  -- their weights add up to the weighted size of the purged state
  have hF2 : ((liveOf p.ttl p.tti (snapshot p s) s.now).map (·.weight)).sum = s1.ws := by
    rw [ph.inv.counted.ws]
    have hperm := (sortBy_perm (·.key) (s.map.map (entryView s))).filter
      (entryLiveAt p.ttl p.tti s.now none)
    have hsum : ((liveOf p.ttl p.tti (snapshot p s) s.now).map (·.weight)).sum =
        (((s.map.map (entryView s)).filter (entryLiveAt p.ttl p.tti s.now none)).map
          (·.weight)).sum := (hperm.map _).sum_nat
    rw [hsum, sum_filter_view]
    apply totalW_eq_of_same (keys_filter_nodup _ hi.struct.keysNodup) ph.inv.struct.keysNodup
    intro k e
    rw [get?_filter hi.struct.keysNodup]
    constructor
    · rintro ⟨h1, h2⟩
      rw [entryLiveAt_view] at h2
      exact ph.keeps k e h1 (by simpa using h2)
    · intro h
      refine ⟨ph.shrinks.sub k e h, ?_⟩
      rw [entryLiveAt_view]
      simp [ph.live k e h]
  -- the recency order restricted to them is the recency order of the purged state
  have hF3 : (lruOrder (snapshot p s)).filter
      (((liveOf p.ttl p.tti (snapshot p s) s.now).map (·.key)).contains ·) =
      s1.prob.map (·.key) := by
    rw [lruOrder_snapshot]
    have h1 := sublist_eq_filter (ph.sub.prob.map (·.key)) (prob_keys_nodup hi.struct)
    conv => rhs; rw [h1]
    apply List.filter_congr
    intro x _
    rw [Bool.eq_iff_iff, List.contains_iff_mem, List.contains_iff_mem]
    exact (hF1 x).trans (mem_prob_keys_iff ph.inv.struct x).symm
  have hF4 : (s1.prob.map (·.key)).map (weightOfKey (snapshot p s)) = probWeights s1 := by
    rw [List.map_map]
    unfold probWeights
    apply List.map_congr_left
    intro n hn1
    obtain ⟨e, he, _⟩ := ph.inv.struct.aoBack n hn1
    simp only [Function.comp, weightOfKey_snapshot hi.struct, wOf, he, ph.shrinks.sub _ _ he]
  have hcut : lruCut p s1 = prefLen (s1.ws - cap) (probWeights s1) := by
    have h1 := prefLen_le_length (s1.ws - cap) (probWeights s1)
    have h2 := prob_length_le_map ph.inv.struct
    have h3 : (probWeights s1).length = s1.prob.length := by simp [probWeights]
    have h4 := ph.len
    simp only [lruCut, weightsToEvict, hcap, EVICTION_BATCH_SIZE]
    omega
  have hvict : victimsOf cap (snapshot p s) (liveOf p.ttl p.tti (snapshot p s) s.now) =
      (s1.prob.take (lruCut p s1)).map (·.key) := by
    unfold victimsOf
    rw [hF3, hF2, shortestPrefix_eq, hF4, hcut, Nat.sub_zero]
    unfold prefLen
    cases shortestPre (s1.ws - cap) (probWeights s1) with
    | none => simp [probWeights]
    | some n => simp [List.map_take]
  obtain ⟨_, hmapE⟩ := evictLru_exact ph.inv
  rw [hvict, sameKeys_iff]
  intro x
  rw [mem_keysOf_snapshot, hmap, hmt, hmapE, get?_eraseKeys ph.inv.struct.keysNodup]
  simp only [List.mem_filter, Bool.not_eq_true']
  rw [hF1]
  by_cases hin : x ∈ (s1.prob.take (lruCut p s1)).map (·.key)
  · rw [if_pos hin]
    constructor
    · rintro ⟨e, he⟩; cases he
    · rintro ⟨_, h⟩
      rw [← List.contains_iff_mem] at hin
      rw [hin] at h; cases h
  · rw [if_neg hin]
    constructor
    · intro h
      refine ⟨h, ?_⟩
      cases hc : ((s1.prob.take (lruCut p s1)).map (·.key)).contains x with
      | false => rfl
      | true => exact absurd (List.contains_iff_mem.mp hc) hin
    · exact fun h => h.1

/-! ### the walk over a trace -/

/-- The `growthExpC12` walk over a model trace: every `snap, lookup, snap` window passes. -/
theorem growthExpC12_run {P : Sketch → Prop} (L : SketchLaws P) {p : Params} (hq : NoQuirks p)
    (hsm : SmallSketch p) {cap : Nat} (hcap : p.cap = some cap) :
    ∀ (n : Nat) (h : List Op), h.length ≤ n → ∀ (s : UState), Inv P p s → TsInv p s →
      growthExpC12 cap p.ttl p.tti Gen.UNSYNC_EVICTION_BATCH_SIZE (run p s h) = true := by
  intro n
  induction n with
  | zero =>
    intro h hl s _ _
    have : h = [] := List.length_eq_zero_iff.mp (Nat.le_zero.mp hl)
    subst this
    simp [run, growthExpC12]
  | succ n ih =>
    intro h hl s hi ht
    cases h with
    | nil => simp [run, growthExpC12]
    | cons op rest =>
      have hlr : rest.length ≤ n := by simpa using hl
      rw [run_cons]
      unfold growthExpC12
      split
      · rename_i before op2 ob after rest' heq
        obtain ⟨e1, e2⟩ := List.cons.inj heq
        have hop : op = .snap := (Prod.mk.inj e1).1
        subst hop
        rw [step_snap L hq hsm hi] at e1 e2
        have hbefore : before = snapshot p s := by
          have := (Prod.mk.inj e1).2; exact (Obs.snap.inj this).symm
        obtain ⟨op2', r2, hr2, hx2, ht2⟩ := run_eq_cons e2
        have hop2 : op2' = op2 := (Prod.mk.inj hx2).1.symm
        subst hop2
        have hi2 := step_inv L hq hsm hi op2'
        have htt2 := step_tsInv L hq hsm hi ht op2'
        obtain ⟨op3, r3, hr3, hx3, ht3⟩ := run_eq_cons ht2.symm
        have hop3 : op3 = .snap := (Prod.mk.inj hx3).1.symm
        subst hop3
        rw [step_snap L hq hsm hi2] at hx3 ht3
        have hafter : after = snapshot p (step p s op2').1 := by
          have := (Prod.mk.inj hx3).2; exact Obs.snap.inj this
        subst hr2 hr3
        rw [Bool.and_eq_true]
        refine ⟨?_, ?_⟩
        · show expCheck cap p.ttl p.tti Gen.UNSYNC_EVICTION_BATCH_SIZE before after _ = true
          rw [hbefore, hafter]
          refine growthExpCheck_model hq hi.inv ht hcap _ _ ?_
          intro hb
          rw [step_state L hq hsm hi op2']
          cases op2' with
          | get k => exact get_map_now p s k
          | has k => dsimp only; rw [containsKey_state]; exact ⟨rfl, rfl⟩
          | _ => simp at hb
        · split
          · rfl
          · have : (Op.snap, Obs.snap after) :: rest' = run p (step p s op2').1 (.snap :: r3) := by
              rw [run_cons, step_snap L hq hsm hi2, hafter, ht3]
            rw [this]
            refine ih _ ?_ _ hi2 htt2
            simp only [List.length_cons] at hlr ⊢
            omega
      · rename_i x t heq
        obtain ⟨_, e2⟩ := List.cons.inj heq
        rw [← e2]
        exact ih rest hlr _ (step_inv L hq hsm hi op) (step_tsInv L hq hsm hi ht op)
      · rfl

/-- `growthExpC12` accepts every trace of the model. -/
theorem growthExpC12_trace {P : Sketch → Prop} (L : SketchLaws P) {p : Params} (hq : NoQuirks p)
    (hsm : SmallSketch p) {cap : Nat} (hcap : p.cap = some cap) (h : List Op) :
    growthExpC12 cap p.ttl p.tti Gen.UNSYNC_EVICTION_BATCH_SIZE (trace p h) = true :=
  growthExpC12_run L hq hsm hcap h.length h (Nat.le_refl _) {} (init_inv L p) (tsInv_init p)

/-- Every state reachable from the empty cache has sorted timestamps. -/
theorem runState_tsInv {P : Sketch → Prop} (L : SketchLaws P) {p : Params} (hq : NoQuirks p)
    (hsm : SmallSketch p) (h : List Op) :
    ∀ {s : UState}, Inv P p s → TsInv p s → TsInv p (runState p s h) := by
  induction h with
  | nil => intro s _ ht; exact ht
  | cons op rest ih =>
    intro s hi ht
    exact ih (step_inv L hq hsm hi op) (step_tsInv L hq hsm hi ht op)

theorem reachable_tsInv {P : Sketch → Prop} (L : SketchLaws P) {p : Params} (hq : NoQuirks p)
    (hsm : SmallSketch p) (h : List Op) : TsInv p (runState p {} h) :=
  runState_tsInv L hq hsm h (init_inv L p) (tsInv_init p)

end GrowExp
end Unsync
end MiniMoka
