/-
  Word-level vocabulary for the sketch's bit tricks: what the generated definitions of
  `Gen/Logic/SketchBits.lean` (translated from `frequency_sketch.rs` on every run) refer to.
  `popCount` is `u64::count_ones`.
-/
namespace MiniMoka
namespace SketchWord

/-- Number of set bits among the lowest `n` bits of `w`. -/
def popCountLow (w : Nat) : Nat → Nat
  | 0 => 0
  | n + 1 => popCountLow w n + (if w.testBit n then 1 else 0)

/-- `u64::count_ones`. -/
def popCount (w : UInt64) : Nat := popCountLow w.toNat 64

end SketchWord
end MiniMoka
