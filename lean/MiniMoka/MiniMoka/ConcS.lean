/-
  `sync::Cache` used by any number of threads, at the granularity
  "per-key map step / maintenance run / enqueue".

  An API call of `sync::Cache` is not atomic: `insert` first updates the concurrent map
  (`do_insert_with_hash`), then possibly runs a maintenance pass (`schedule_write_op` →
  `Housekeeper::try_sync`), then sends its `WriteOp` to the bounded channel; `invalidate` and
  `get` have the same three-phase shape.  `MiniMoka/Sync.lean` models one thread performing the
  three phases back to back.  Here the phases are separate atomic steps that any number of
  threads interleave freely; between its map step and its enqueue a thread *holds* the operation
  it is going to send (`Pend`), which is neither in the map's future nor in the queue yet.

  Steps (`step p c ev : Option CState`, `none` = not enabled):
   * `insMap t k v` (thread `t` idle): exactly the map part of `Sync.insert` (`insertMap`,
     restated from `Sync.insert`: the code before `scheduleWriteOp`), recording the `Upsert`;
   * `invMap t k` (idle): the map removal of `Sync.invalidate`, recording the `Remove` when an
     entry was found;
   * `getMap t k` (idle): the lookup of `Sync.get` (the result is decided here, `lookup`),
     recording the read operation;
   * `maint t` (any thread, any time, provided no run is in progress): one atomic
     `Housekeeper::try_sync` (`Sync.trySync`).  `should_apply` is NOT consulted: maintenance may
     happen nondeterministically, which over-approximates the code;
   * `sync t`: the explicit `ConcurrentCacheExt::sync` (`Sync.syncRun`, which does not touch the
     housekeeper's deadline);
   * `enq t`: thread `t` sends what it holds: appended to the write queue if there is room
     (otherwise the step is not enabled: `schedule_write_op` keeps retrying until a
     maintenance run has made room), or to the read queue (dropped when full, as
     `record_read_op` does); `t` becomes idle;
   * `tick d`: the clock advances; `invAll t`: `invalidate_all` (sets the watermark).

  NOT modelled: a maintenance run is atomic with respect to the map steps of other threads (in
  the code DashMap operations of other threads can interleave *inside* a run, between two
  `cache.get` / `remove_if` calls of `apply_writes` and of the eviction loops); memory
  ordering (all steps are sequentially consistent); the internals of DashMap and of the
  crossbeam channels; `contains_key` / `iter` (read-only, no queued operation).
-/
import MiniMoka.Sync

namespace MiniMoka
namespace ConcS

open Sync

abbrev Tid := Nat

/-- What a thread holds between its map step and its enqueue. -/
inductive Pend where
  | write (op : WOp)
  | read (op : ROp)
  deriving Repr, Inhabited

structure CState where
  s : SState := {}
  pending : List (Tid × Pend) := []
  deriving Repr, Inhabited

inductive Ev where
  | insMap (t : Tid) (k v : Nat)
  | invMap (t : Tid) (k : Nat)
  | getMap (t : Tid) (k : Nat)
  | maint (t : Tid)
  | sync (t : Tid)
  | enq (t : Tid)
  | tick (d : Nat)
  | invAll (t : Tid)
  deriving Repr, Inhabited

def pendOf (l : List (Tid × Pend)) (t : Tid) : Option Pend :=
  match l with
  | [] => none
  | x :: rest => if x.1 = t then some x.2 else pendOf rest t

def dropPend (l : List (Tid × Pend)) (t : Tid) : List (Tid × Pend) :=
  match l with
  | [] => []
  | x :: rest => if x.1 = t then dropPend rest t else x :: dropPend rest t

/-- The write operations threads hold. -/
def pendWrites : List (Tid × Pend) → List WOp
  | [] => []
  | (_, .write op) :: rest => op :: pendWrites rest
  | (_, .read _) :: rest => pendWrites rest

/-- The map part of `Sync.insert` (`do_insert_with_hash`) and the operation to be sent. -/
def insertMap (p : Params) (s : SState) (k v : Nat) : SState × WOp :=
  let ts := s.now
  let weight := p.weigh k v
  let hash := p.hash k
  match AL.get? s.map k with
  | some old =>
    let oldW := (getInfo s old.info).weight
    let s := refreshInfo p s old.info ts weight
    let ve : VE := { id := s.nextId, val := v, info := old.info, slot := old.slot }
    let s := { s with nextId := s.nextId + 1, map := AL.put s.map k ve }
    (s, .upsert k hash ve oldW weight)
  | none =>
    let infoId := s.nextId
    let ve : VE := { id := s.nextId + 1, val := v, info := infoId, slot := s.nextId + 1 }
    let info : Info :=
      { key := k, admitted := false, dirty := true, la := ts, lm := ts, weight := weight }
    let s := { s with nextId := s.nextId + 2, infos := AL.put s.infos infoId info,
                      map := AL.put s.map k ve }
    (s, .upsert k hash ve 0 weight)

/-- The map part of `Sync.invalidate`. -/
def invalidateMap (s : SState) (k : Nat) : SState × Option WOp :=
  match AL.get? s.map k with
  | none => (s, none)
  | some ve => ({ s with map := AL.erase s.map k }, some (.remove k ve))

/-- The lookup of `Sync.get`: the read operation to record and the value returned. -/
def lookup (p : Params) (s : SState) (k : Nat) : ROp × Option Nat :=
  let now := s.now
  let hash := p.hash k
  match AL.get? s.map k with
  | none => (.miss hash, none)
  | some ve =>
    if isExpiredInfo p s (getInfo s ve.info) now then (.miss hash, none)
    else (.hit hash ve now, some ve.val)

def step (p : Params) (c : CState) : Ev → Option CState
  | .insMap t k v =>
    match pendOf c.pending t with
    | some _ => none
    | none =>
      some { s := (insertMap p c.s k v).1,
             pending := c.pending ++ [(t, .write (insertMap p c.s k v).2)] }
  | .invMap t k =>
    match pendOf c.pending t with
    | some _ => none
    | none =>
      match (invalidateMap c.s k).2 with
      | some op => some { s := (invalidateMap c.s k).1, pending := c.pending ++ [(t, .write op)] }
      | none => some c
  | .getMap t k =>
    match pendOf c.pending t with
    | some _ => none
    | none => some { c with pending := c.pending ++ [(t, .read (lookup p c.s k).1)] }
  | .maint _ => if c.s.running then none else some { c with s := trySync p c.s }
  | .sync _ => if c.s.running then none else some { c with s := syncRun p c.s }
  | .enq t =>
    match pendOf c.pending t with
    | none => none
    | some (.write op) =>
      if c.s.writeQ.length < Gen.WRITE_LOG_SIZE then
        some { s := { c.s with writeQ := c.s.writeQ ++ [op] }, pending := dropPend c.pending t }
      else none
    | some (.read op) =>
      if c.s.readQ.length < Gen.READ_LOG_SIZE then
        some { s := { c.s with readQ := c.s.readQ ++ [op] }, pending := dropPend c.pending t }
      else some { c with pending := dropPend c.pending t }
  | .tick d => some { c with s := { c.s with now := c.s.now + d } }
  | .invAll _ => some { c with s := invalidateAll c.s }

/-- A finite path; `none` if some step is not enabled. -/
def runEvs (p : Params) : CState → List Ev → Option CState
  | c, [] => some c
  | c, e :: rest =>
    match step p c e with
    | some c' => runEvs p c' rest
    | none => none

/-- The states reachable from the empty cache by any interleaving. -/
inductive Reach (p : Params) : CState → Prop where
  | init : Reach p {}
  | step {c c' : CState} (e : Ev) : Reach p c → step p c e = some c' → Reach p c'

end ConcS
end MiniMoka
