-- Root of the `MiniMoka` library.
import MiniMoka.Basic
import MiniMoka.Sketch
import MiniMoka.Types
import MiniMoka.Unsync
import MiniMoka.Sync
import MiniMoka.Gen.Constants
import MiniMoka.Wire
import MiniMoka.Driver
